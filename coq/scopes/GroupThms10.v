(* The op discipline ("async with"-style use of task groups) and the state-form of C01 under it. *)
From AV Require Import Base Machine GroupInv GroupInv2 GroupInv3 GroupInv4 GroupInv5 GroupInv6 GroupInv7 GroupInv8
  GroupInv9 GroupThms GroupThms2 GroupThms3 GroupThms4 GroupThms5 GroupThms5b GroupThms6 GroupThms8 GroupThms9.

(* ---------------- the discipline ---------------- *)
Definition real_b (s : st) (g : gid) : bool := negb (Nat.eqb (g_scope (groups s g)) 0).

Definition is_group_scope (s : st) (c : sid) : bool :=
  existsb (fun g => Nat.eqb (g_scope (groups s g)) c) (List.seq 0 (ngroup s)).

(* okop s o: operation o, issued in state s, respects the `async with create_task_group()` usage:
   - AEnter t c      : `with scope:` is used on a scope object that is not some task group's cancel_scope
                       (tg.cancel_scope is entered by TaskGroup.__aenter__ only);
   - AGroupEnter t g : __aenter__ is called on an existing TaskGroup object;
   - AGroupExit t g  : __aexit__ is called on an existing TaskGroup object by the task that entered it, at the
                       matching nesting level: the group's cancel scope is active, hosted by t and on top of
                       t's scope stack (what `async with` guarantees);
   every other operation is unrestricted (spawning from any task, cancelling anything, any schedule). *)
Definition okop (s : st) (o : op) : bool :=
  match o with
  | AEnter _ c => negb (is_group_scope s c)
  | AGroupEnter _ g => real_b s g
  | AGroupExit t g =>
      let gs := g_scope (groups s g) in
      real_b s g && s_active (scopes s gs) && opt_eqb (s_host (scopes s gs)) t && opt_eqb (k_cur (tasks s t)) gs
  | _ => true
  end.

Fixpoint disc (s : st) (ops : list op) : bool :=
  match ops with
  | [] => true
  | o :: r => okop s o && disc (fst (step s o)) r
  end.

Definition disciplined (ops : list op) : bool := disc init ops.

Definition dreach (s : st) : Prop := exists ops, disciplined ops = true /\ s = final step init ops.

Lemma disc_app s ops1 ops2 : disc s (ops1 ++ ops2) = disc s ops1 && disc (final step s ops1) ops2.
Proof.
  revert s. induction ops1 as [|o r IH]; intros s; cbn [app disc]; [reflexivity|].
  rewrite IH. cbn [final fold_left]. now rewrite andb_assoc.
Qed.

Lemma dreach_reach s : dreach s -> reach s.
Proof. intros [ops [_ ->]]. exists ops. reflexivity. Qed.

Lemma dreach_step s o : dreach s -> okop s o = true -> dreach (fst (step s o)).
Proof.
  intros [ops [Hd ->]] Ho. exists (ops ++ [o]). split.
  - unfold disciplined in *. rewrite disc_app, Hd. cbn [disc andb]. now rewrite Ho.
  - rewrite final_app. reflexivity.
Qed.

Lemma dreach_ind (P : st -> Prop) : P init ->
  (forall s o, dreach s -> P s -> okop s o = true -> P (fst (step s o))) -> forall s, dreach s -> P s.
Proof.
  intros H0 Hs s [ops [Hd ->]].
  assert (G : forall ops s0, dreach s0 -> P s0 -> disc s0 ops = true -> P (final step s0 ops)).
  { induction ops0 as [|o r IH]; intros s0 D0 P0 Hd0; [exact P0|].
    cbn [disc] in Hd0. apply andb_prop in Hd0. destruct Hd0 as [Ho Hr]. cbn [final fold_left].
    apply IH; [apply dreach_step; assumption|apply Hs; assumption|exact Hr]. }
  apply G; [exists []; split; reflexivity|exact H0|exact Hd].
Qed.

(* ---------------- small frame facts ---------------- *)
Lemma ngroup_suspend_on s t f : ngroup (suspend_on s t f) = ngroup s.
Proof.
  unfold suspend_on. destruct (f_st (futs s f)); try reflexivity.
  destruct (k_must (tasks s t)); [|reflexivity]. cbn [upd_task set_tasks ngroup]. now rewrite fc_ngroup.
Qed.

Lemma ngroup_ret s t r : ngroup (fst (ret_to_puppet s t r)) = ngroup s.
Proof.
  unfold ret_to_puppet, park. cbn [fst set_running ngroup]. match goal with |- context [new_fut ?a] => rewrite (new_fut_eq a) end.
  cbn [upd_task set_tasks ngroup]. rewrite ngroup_suspend_on. destruct r; reflexivity.
Qed.

Lemma ngroup_group_new s t : idle s t = true -> ngroup (fst (step s (AGroupNew t))) = S (ngroup s).
Proof.
  intros Hi. cbn [step actor]. rewrite Hi. cbn [negb]. unfold puppet_op. rewrite new_scope_eq. cbn zeta.
  rewrite ngroup_ret. reflexivity.
Qed.

Lemma scopes_group_enter_entered s t g : g_entered (groups s g) = true ->
  scopes (fst (step s (AGroupEnter t g))) = scopes s.
Proof.
  intros He. cbn [step actor]. destruct (idle s t); cbn [negb]; [|reflexivity]. unfold puppet_op.
  change (g_entered (groups (begin_act s t) g)) with (g_entered (groups s g)). rewrite He. now rewrite scopes_ret.
Qed.

(* ---------------- the invariant of disciplined runs ---------------- *)
Definition real (s : st) (g : gid) : Prop := g_scope (groups s g) <> 0.

Definition in_aexit (s : st) (t : tid) (g : gid) (w : sid) : Prop :=
  exists exc, k_ctl (tasks s t) = CAexitWait g w exc \/ k_ctl (tasks s t) = CAexitCk g w exc.

Record DInv (s : st) : Prop := {
  n_one : 1 <= ngroup s;
  n_un : forall g, g = 0 \/ ngroup s <= g ->
      g_scope (groups s g) = 0 /\ g_entered (groups s g) = false /\ g_left (groups s g) = false;
  d_f1 : forall g g', real s g -> real s g' -> g_scope (groups s g) = g_scope (groups s g') -> g = g';
  d_f2 : forall t g, k_group (tasks s t) <> None -> real s g -> k_hscope (tasks s t) <> g_scope (groups s g);
  d_entr : forall g, g_entered (groups s g) = true -> real s g;
  d_ent : forall g, real s g -> s_active (scopes s (g_scope (groups s g))) = true -> g_entered (groups s g) = true;
  d_left : forall g, g_left (groups s g) = true ->
      real s g /\ g_entered (groups s g) = true /\ s_active (scopes s (g_scope (groups s g))) = false /\
      g_tasks (groups s g) = [];
  d_ax : forall t g w, in_aexit s t g w ->
      real s g /\ g_left (groups s g) = false /\ g_entered (groups s g) = true /\
      s_active (scopes s (g_scope (groups s g))) = true /\ s_host (scopes s (g_scope (groups s g))) = Some t /\
      s_parent (scopes s w) = Some (g_scope (groups s g)) /\ w <> g_scope (groups s g)
}.

Lemma real_galloc s g : DInv s -> real s g -> 0 < g < ngroup s.
Proof.
  intros D Hr. destruct (Nat.eq_dec g 0) as [->|H0].
  - exfalso. apply Hr. apply (n_un s D 0 (or_introl eq_refl)).
  - destruct (Nat.lt_ge_cases g (ngroup s)) as [Hl|Hg]; [lia|].
    exfalso. apply Hr. apply (n_un s D g (or_intror Hg)).
Qed.

Lemma not_group_scope s c : DInv s -> is_group_scope s c = false -> forall g, real s g -> g_scope (groups s g) <> c.
Proof.
  intros D Hn g Hr E. destruct (real_galloc s g D Hr) as [H0 Hl].
  assert (H : is_group_scope s c = true).
  { unfold is_group_scope. apply existsb_exists. exists g. split; [apply in_seq; lia|apply Nat.eqb_eq, E]. }
  congruence.
Qed.

(* normal form of step_group_cases *)
Definition flip_prov (s : st) (o : op) (g : gid) : Prop :=
  (exists t, o = AGroupExit t g /\ idle s t = true) \/
  (exists t h w, o = ARun h /\ In h (ready s) /\ (h = HStep t \/ exists f, h = HWake t f) /\ in_aexit s t g w).

Lemma gc_norm s o g : reach s -> let s' := fst (step s o) in
  (g = ngroup s /\ (exists t, o = AGroupNew t /\ idle s t = true) /\
   groups s' g = mkGroup (nscope s) false [] [] None [] false) \/
  (g_scope (groups s' g) = g_scope (groups s g) /\
   (g_entered (groups s g) = true -> g_entered (groups s' g) = true) /\
   (g_entered (groups s' g) = true -> g_entered (groups s g) = true \/ exists t, o = AGroupEnter t g) /\
   (g_left (groups s g) = true -> g_left (groups s' g) = true) /\
   (g_left (groups s' g) = true -> g_left (groups s g) = true \/ flip_prov s o g) /\
   (g_tasks (groups s' g) <> [] -> g_tasks (groups s g) <> [] \/ group_active s g = true)).
Proof.
  intros R. cbn zeta.
  destruct (step_group_cases s o g R) as [E|[[t [E1 [E0 [E2 E]]]]|[[t [E1 E]]|[[t [E1 [E2 [E3 E]]]]|[[t [e [E1 [E2 [E3 [E4 E]]]]]]|[[E P]|[t [E1 [E2 [E3 E]]]]]]]]]].
  - right. rewrite E. tauto.
  - left. eauto.
  - right. rewrite E. cbn. refine (conj eq_refl (conj (fun _ => eq_refl) (conj _ (conj (fun H => H) (conj _ _))))); eauto.
  - right. rewrite E. cbn. refine (conj eq_refl (conj (fun H => H) (conj _ (conj (fun H => H) (conj _ _))))); auto.
  - right. destruct E as [G1 [G2 [G3 [G4 [G5 G6]]]]]. cbn in *. rewrite G3, G5, G2.
    refine (conj eq_refl (conj (fun H => H) (conj _ (conj _ (conj _ _))))); auto.
    + destruct G6 as [->|[-> _]]; auto.
    + intros H. destruct G6 as [G6|[_ _]]; [left; congruence|]. right. left. exists t. auto.
  - right. destruct E as [G1 [G2 [G3 [G4 [G5 G6]]]]]. rewrite G3, G5, G2.
    refine (conj eq_refl (conj (fun H => H) (conj _ (conj _ (conj _ _))))); auto.
    + destruct G6 as [->|[-> _]]; auto.
    + intros H. destruct G6 as [G6|[_ _]]; [left; congruence|]. right.
      destruct P as [P|[t [h [w [exc [P1 [P2 [P3 P4]]]]]]]]; [left; exact P|right].
      exists t, h, w. refine (conj P1 (conj P2 (conj P3 _))). exists exc. exact P4.
  - right. destruct E as [E|[e [_ E]]]; rewrite E; cbn;
      (refine (conj eq_refl (conj (fun H => H) (conj _ (conj (fun H => H) (conj _ _))))); auto;
       intros H; left; intros H0; rewrite H0 in H; cbn in H; contradiction).
Qed.

(* ---------------- resumption of the task inside __aexit__ ---------------- *)
Definition ax_facts (s : st) (t : tid) (g : gid) (w : sid) : Prop :=
  let gs := g_scope (groups s g) in
  s_active (scopes s gs) = true /\ s_host (scopes s gs) = Some t /\ s_parent (scopes s w) = Some gs /\ w <> gs /\
  gs < nscope s /\ owns s t w.

Definition ax_blocked (s0 s' : st) (t : tid) (g : gid) : Prop :=
  let gs := g_scope (groups s0 g) in
  g_left (groups s' g) = g_left (groups s0 g) /\
  exists w', in_aexit s' t g w' /\ s_active (scopes s' gs) = true /\
     s_host (scopes s' gs) = Some t /\ s_parent (scopes s' w') = Some gs /\ w' <> gs.

Definition ax_result (s0 s' : st) (t : tid) (g : gid) : Prop :=
  (s_active (scopes s' (g_scope (groups s0 g))) = false /\ k_ctl (tasks s' t) = CIdle /\ g_left (groups s' g) = true) \/
  ax_blocked s0 s' t g.

Lemma wof_result s t g ws exc : aexit_pre s t g ws ->
  ax_result s (fst (aexit_wait_or_finish s t g ws exc)) t g.
Proof.
  intros P. destruct (g_tasks (groups s g)) as [|a l] eqn:Et.
  - left. refine (conj _ (conj _ _)); [apply wof_finishes; auto|apply wof_finishes_ctl; auto|apply wof_finishes_left; auto].
  - right. destruct (wof_blocks s t g ws exc P) as [w' [H1 [H2 [H3 [H4 [H5 H6]]]]]]; [rewrite Et; discriminate|].
    split; [exact H6|]. exists w'. split; [exists exc; left; exact H1|auto].
Qed.

Lemma ax_result_pre s0 s1 s' t g : groups s1 = groups s0 -> ax_result s1 s' t g -> ax_result s0 s' t g.
Proof. intros E. unfold ax_result, ax_blocked. now rewrite E. Qed.

(* what aexit_pre / ax_facts look at *)
Definition psame (s s' : st) : Prop :=
  (forall x, sc_same (scopes s x) (scopes s' x)) /\ (forall t, k_cur (tasks s' t) = k_cur (tasks s t)) /\
  nscope s <= nscope s' /\ (forall g, g_scope (groups s' g) = g_scope (groups s g)).

Lemma psame_refl s : psame s s.
Proof. refine (conj _ (conj _ (conj _ _))); auto. intros x. apply sc_same_refl. Qed.

Lemma psame_trans a b c : psame a b -> psame b c -> psame a c.
Proof.
  intros [A1 [A2 [A3 A4]]] [B1 [B2 [B3 B4]]]. refine (conj _ (conj _ (conj _ _))).
  - intros x. destruct (A1 x) as [E1 [E2 E3]]. destruct (B1 x) as [F1 [F2 F3]]. unfold sc_same. rewrite F1, F2, F3. auto.
  - intros t. now rewrite B2, A2.
  - lia.
  - intros g. now rewrite B4, A4.
Qed.

Lemma psame_kstar s s' : kstar none_s none_t s s' -> psame s s'.
Proof.
  intros KS. refine (conj _ (conj _ (conj _ _))).
  - intros x. apply (kstar_none_same s s' x KS).
  - intros t. apply (kstar_none_cur s s' t KS).
  - rewrite (fr_nscope _ _ _ _ (kframe_kstar _ _ _ _ KS)). lia.
  - intros g. now rewrite (groups_kstar _ _ _ _ KS).
Qed.

Lemma psame_eq s s' : scopes s' = scopes s -> (forall t, k_cur (tasks s' t) = k_cur (tasks s t)) ->
  nscope s' = nscope s -> (forall g, g_scope (groups s' g) = g_scope (groups s g)) -> psame s s'.
Proof.
  intros E1 E2 E3 E4. refine (conj _ (conj E2 (conj _ E4))); [|lia]. intros x. rewrite E1. apply sc_same_refl.
Qed.

Lemma psame_gr_fut s g x : psame s (upd_group s g (gr_fut x)).
Proof.
  apply psame_eq; try reflexivity. intros g'. cbn [upd_group set_groups groups]. unfold upd.
  destruct (Nat.eqb_spec g' g); [subst; reflexivity|reflexivity].
Qed.

Lemma psame_incs s0 t : psame s0 (incs s0 t).
Proof. apply psame_eq; try reflexivity. intros x. apply (incs_cview s0 t x). Qed.

Lemma aexit_pre_psame s s' t g ws : psame s s' -> aexit_pre s t g ws -> aexit_pre s' t g ws.
Proof.
  intros [P1 [P2 [P3 P4]]]. unfold aexit_pre, owns. rewrite P4. destruct ws as [w|].
  - intros [[O1 [O2 [O3 O4]]] [Hp [Hne [Ha [Hh Hlt]]]]].
    destruct (P1 w) as [E1 [E2 E3]]. destruct (P1 (g_scope (groups s g))) as [F1 [F2 _]].
    rewrite E1, E2, E3, F1, F2, P2. repeat split; auto; lia.
  - intros [O1 [O2 [O3 O4]]]. destruct (P1 (g_scope (groups s g))) as [F1 [F2 _]].
    rewrite F1, F2, P2. repeat split; auto; lia.
Qed.

Lemma ax_result_psame s0 s1 s' t g : (forall x, g_scope (groups s1 x) = g_scope (groups s0 x)) ->
  g_left (groups s1 g) = g_left (groups s0 g) -> ax_result s1 s' t g -> ax_result s0 s' t g.
Proof. intros E1 E2. unfold ax_result, ax_blocked. now rewrite E1, E2. Qed.

Lemma resume_aexit_result s0 t fo g w : wake_ok s0 t fo -> in_aexit s0 t g w -> ax_facts s0 t g w ->
  ax_result s0 (fst (resume s0 t fo)) t g.
Proof.
  intros W [exc Hc] [Ha [Hh [Hp [Hne [Hlt O]]]]].
  pose proof (w_m _ _ _ W) as M0.
  assert (Hnr : running s0 <> Some t) by (rewrite (w_run _ _ _ W); discriminate).
  assert (Pre0 : aexit_pre s0 t g (Some w)) by (unfold aexit_pre; auto 10).
  rewrite resume_unfold. cbn zeta. set (s := incs s0 t) in *. set (inc := snd (incoming s0 t fo)).
  assert (PS : psame s0 s) by apply psame_incs.
  destruct Hc as [Hc|Hc]; rewrite Hc.
  - (* CAexitWait *)
    set (s1 := upd_group s g (gr_fut None)).
    assert (PS1 : psame s0 s1) by (eapply psame_trans; [exact PS|apply psame_gr_fut]).
    assert (GL1 : g_left (groups s1 g) = g_left (groups s0 g)).
    { unfold s1. cbn [upd_group set_groups groups]. rewrite upd_same. reflexivity. }
    destruct inc as [e|].
    + match goal with |- ax_result _ (fst (aexit_wait_or_finish ?x _ _ _ ?e')) _ _ => set (s3 := x); set (exc' := e') end.
      assert (PS3 : psame s0 s3).
      { eapply psame_trans; [exact PS1|]. unfold s3. eapply psame_trans; [|apply psame_kstar, ks_scope_cancel].
        apply psame_kstar, ks_one, kp_scope_keeps, keeps_shield. }
      assert (GL3 : g_left (groups s3 g) = g_left (groups s0 g)).
      { unfold s3. rewrite groups_scope_cancel. exact GL1. }
      apply (ax_result_psame s0 s3); [apply PS3|exact GL3|]. apply wof_result. apply (aexit_pre_psame s0 s3); auto.
    + apply (ax_result_psame s0 s1); [apply PS1|exact GL1|]. apply wof_result. apply (aexit_pre_psame s0 s1); auto.
  - (* CAexitCk: the handle was a HStep, inc is None or a cancellation *)
    assert (Hfo : fo = None).
    { pose proof (c_w s0 (m_c s0 M0) t Hnr) as Hw. rewrite Hc in Hw. cbn in Hw.
      destruct fo as [f|]; [|reflexivity]. destruct (w_fo _ _ _ W) as [H _]. congruence. }
    subst fo. pose proof (incoming_none_shape s0 t) as Hinc. fold inc in Hinc.
    assert (Pre : aexit_pre s t g (Some w)) by (apply (aexit_pre_psame s0 s); auto).
    destruct Pre as [Ow [Hp' [Hne' [Ha' [Hh' Hlt']]]]].
    pose proof (scope_exit_no_raise s w t inc Ow Hinc) as Hx.
    destruct (scope_exit_success s w t inc Ow) as [_ Hcur].
    destruct (scope_exit_other s w t inc (g_scope (groups s g)) (fun E => Hne' (eq_sym E))) as [E1 [E2 _]].
    pose proof (groups_scope_exit s w t inc) as Hg.
    pose proof (fr_nscope _ _ _ _ (kframe_kstar _ _ _ _ (ks_scope_exit s w t inc))) as Hn.
    destruct (scope_exit s w t inc) as [s1 x]. cbn [fst snd] in *.
    assert (Pre1 : aexit_pre s1 t g None).
    { unfold aexit_pre, owns. rewrite Hg, E1, E2, Hcur, Hp', Hn. auto. }
    assert (GS1 : forall x0, g_scope (groups s1 x0) = g_scope (groups s0 x0)) by (intros x0; now rewrite Hg).
    assert (GL1 : g_left (groups s1 g) = g_left (groups s0 g)) by (now rewrite Hg).
    destruct Hx as [-> | ->].
    + apply (ax_result_psame s0 s1); auto. apply wof_result, Pre1.
    + destruct Hinc as [->|[mm ->]]; [apply (ax_result_psame s0 s1); auto; apply wof_result, Pre1|].
      cbn [is_cancel].
      match goal with |- ax_result _ (fst (aexit_wait_or_finish ?x _ _ _ _)) _ _ => set (s2 := x) end.
      assert (PS2 : psame s1 s2) by (apply psame_kstar, ks_scope_cancel).
      apply (ax_result_psame s0 s2).
      * intros x0. destruct PS2 as [_ [_ [_ P4]]]. now rewrite P4.
      * unfold s2. now rewrite groups_scope_cancel.
      * apply wof_result. apply (aexit_pre_psame s1 s2); auto.
Qed.

(* AGroupExit by the owner of the group's scope: it never leaves in the same step; the task is inside __aexit__ *)
Lemma group_exit_result s0 t g : let gs := g_scope (groups s0 g) in
  s_active (scopes s0 gs) = true -> s_host (scopes s0 gs) = Some t -> k_cur (tasks s0 t) = Some gs -> gs < nscope s0 ->
  ax_blocked s0 (fst (puppet_op s0 t (AGroupExit t g))) t g.
Proof.
  cbn zeta. intros Ha Hh Hc Hlt.
  assert (Pre0 : aexit_pre s0 t g None) by (unfold aexit_pre, owns; auto).
  unfold puppet_op. set (s := begin_act s0 t). cbn zeta.
  assert (PS : psame s0 s).
  { apply psame_eq; try reflexivity. intros x. unfold s, begin_act. tcase x t; [subst; reflexivity|reflexivity]. }
  match goal with |- context [match g_tasks (groups ?x g) with _ => _ end] => set (s1 := x) end.
  assert (PS1 : psame s0 s1 /\ g_left (groups s1 g) = g_left (groups s0 g)).
  { unfold s1. destruct (k_held (tasks s t)) as [e|]; [|split; [exact PS|reflexivity]].
    assert (PSc : psame s0 (scope_cancel s (g_scope (groups s g)) false)).
    { eapply psame_trans; [exact PS|apply psame_kstar, ks_scope_cancel]. }
    destruct (is_cancel e).
    - split; [exact PSc|]. now rewrite groups_scope_cancel.
    - split.
      + eapply psame_trans; [exact PSc|]. apply psame_eq; try reflexivity. intros g'.
        cbn [upd_group set_groups groups]. unfold upd. destruct (Nat.eqb_spec g' g); [subst; reflexivity|reflexivity].
      + cbn [upd_group set_groups groups]. rewrite upd_same. cbn. now rewrite groups_scope_cancel. }
  destruct PS1 as [PS1 GL1].
  assert (Pre1 : aexit_pre s1 t g None) by (apply (aexit_pre_psame s0 s1); auto).
  assert (GS1 : g_scope (groups s1 g) = g_scope (groups s0 g)) by apply PS1.
  unfold ax_blocked. rewrite <- GS1, <- GL1.
  destruct (g_tasks (groups s1 g)) as [|a l] eqn:Et.
  - rewrite new_scope_eq. cbn zeta.
    set (s3 := fst (scope_enter (ns s1 None true) (nscope s1) t)).
    destruct Pre1 as [A1 [H1 [C1 L1]]].
    assert (Hne : g_scope (groups s1 g) <> nscope s1) by lia.
    destruct (scope_enter_other (ns s1 None true) (nscope s1) t (g_scope (groups s1 g)) Hne) as [E1 [E2 _]].
    split.
    + cbn [blocked fst set_running set_ctl upd_task set_tasks bare_yield call_soon set_ready groups].
      unfold s3. now rewrite groups_scope_enter.
    + exists (nscope s1). refine (conj _ (conj _ (conj _ (conj _ _)))).
      * exists (k_held (tasks s t)). right. cbn [blocked fst]. tcase t t; [reflexivity|contradiction].
      * cbn [blocked fst set_running set_ctl upd_task set_tasks bare_yield call_soon set_ready scopes].
        unfold s3. rewrite E1, ns_scope_old; auto.
      * cbn [blocked fst set_running set_ctl upd_task set_tasks bare_yield call_soon set_ready scopes].
        unfold s3. rewrite E2, ns_scope_old; auto.
      * cbn [blocked fst set_running set_ctl upd_task set_tasks bare_yield call_soon set_ready scopes].
        unfold s3. rewrite scope_enter_parent; [|apply ns_inactive]. exact C1.
      * lia.
  - destruct (wof_blocks s1 t g None (k_held (tasks s t)) Pre1) as [w' [H1 [H2 [H3 [H4 [H5 H6]]]]]]; [rewrite Et; discriminate|].
    unfold aexit_wait_or_finish in *. rewrite Et in *.
    split; [exact H6|]. exists w'. split; [exists (k_held (tasks s t)); left; exact H1|auto].
Qed.

(* ---------------- which steps can put a task into an __aexit__ control state ---------------- *)
Definition naex (c : ctl) : Prop := forall g w exc, c <> CAexitWait g w exc /\ c <> CAexitCk g w exc.

Lemma naex_idle : naex CIdle. Proof. intros g w exc. split; discriminate. Qed.
Lemma naex_done : naex CDone. Proof. intros g w exc. split; discriminate. Qed.

Lemma ctl_ret s t r : k_ctl (tasks (fst (ret_to_puppet s t r)) t) = CIdle.
Proof. apply (ctl_ret_pair (s, r) t). Qed.

Lemma ctl_block s t c : k_ctl (tasks (fst (blocked (set_ctl s t c))) t) = c.
Proof. cbn [blocked fst]. tcase t t; [reflexivity|contradiction]. Qed.

Lemma puppet_ctl_naex s0 t o : (forall g, o <> AGroupExit t g) -> (forall t' g, o = AGroupExit t' g -> t' = t) ->
  naex (k_ctl (tasks s0 t)) -> naex (k_ctl (tasks (fst (puppet_op s0 t o)) t)).
Proof.
  intros Hne Hact H0. unfold puppet_op. set (s := begin_act s0 t).
  assert (NB : forall c, (forall g w exc, c <> CAexitWait g w exc /\ c <> CAexitCk g w exc) -> naex c) by (intros c H; exact H).
  destruct o.
  - (* ANewScope *) rewrite new_scope_eq. rewrite ctl_ret. apply naex_idle.
  - (* AEnter *) destruct (scope_enter s c t) as [s1 e]. rewrite ctl_ret. apply naex_idle.
  - (* AExit *) destruct (scope_exit s c t (k_held (tasks s t))) as [s1 x].
    destruct x; [|rewrite ctl_ret; apply naex_idle|rewrite ctl_ret; apply naex_idle].
    match goal with |- context [if ?b then _ else _] => destruct b end; rewrite ctl_ret; apply naex_idle.
  - (* ACancel *) rewrite ctl_ret. apply naex_idle.
  - (* ASetShield *) destruct (Bool.eqb _ b); rewrite ctl_ret; apply naex_idle.
  - (* ASetDeadline *) cbn zeta. rewrite ctl_ret. apply naex_idle.
  - (* AGroupNew *) rewrite new_scope_eq. cbn zeta. rewrite ctl_ret. apply naex_idle.
  - (* AGroupEnter *) destruct (g_entered (groups s g)); [rewrite ctl_ret; apply naex_idle|]. cbn zeta.
    match goal with |- context [scope_enter ?a ?b ?c] => destruct (scope_enter a b c) as [s2 e] end.
    rewrite ctl_ret. apply naex_idle.
  - (* AGroupExit *) exfalso. apply (Hne g). f_equal. apply (Hact t0 g eq_refl).
  - (* ASpawn *) destruct (negb (group_active s g)); [rewrite ctl_ret; apply naex_idle|]. rewrite spawn_task_eq, ctl_ret. apply naex_idle.
  - (* AStart *) destruct (negb (group_active s g)); [rewrite ctl_ret; apply naex_idle|]. rewrite new_fut_eq. cbv beta iota.
    rewrite spawn_task_eq. cbv beta iota. rewrite ctl_block. intros g0 w exc. split; discriminate.
  - (* AStarted *) destruct (k_startfut (tasks s t)) as [f|]; [|rewrite ctl_ret; apply naex_idle].
    destruct (f_st (futs s f)); rewrite ctl_ret; apply naex_idle.
  - (* AHandleCancel *) destruct (e_set _); rewrite ctl_ret; apply naex_idle.
  - (* AHandleWait *) destruct (event_wait s t (k_hevent (tasks s h))) as [s1 f]. rewrite ctl_block. intros g0 w exc. split; discriminate.
  - (* AYield *) rewrite ctl_block. intros g0 w exc. split; discriminate.
  - (* ACkIf *) destruct (ckif_spins _ _ _); [rewrite ctl_block; intros g0 w exc; split; discriminate|rewrite ctl_ret; apply naex_idle].
  - (* AShieldCk *) rewrite new_scope_eq. cbn zeta. rewrite ctl_block. intros g0 w exc. split; discriminate.
  - (* ASleep *) rewrite new_fut_eq. destruct d as [dt|].
    + rewrite call_at_eq. rewrite ctl_block. intros g0 w exc. split; discriminate.
    + rewrite ctl_block. intros g0 w exc. split; discriminate.
  - rewrite ctl_ret. apply naex_idle.
  - rewrite ctl_ret. apply naex_idle.
  - rewrite ctl_ret. apply naex_idle.
  - exact H0.
  - rewrite ctl_ret. apply naex_idle.
  - (* AEffDeadline *) cbn [fst set_running tasks]. rewrite ctl_after_park. apply naex_idle.
  - (* AFailAt *) rewrite new_scope_eq. destruct (scope_enter (ns s d sh) (nscope s) t) as [s2 e]. rewrite ctl_ret. apply naex_idle.
  - exact H0.
  - exact H0.
  - exact H0.
  - exact H0.
  - exact H0.
Qed.

Lemma ctl_finish_task s t o : k_ctl (tasks (finish_task s t o) t) = CDone.
Proof. rewrite finish_task_eq. cbn zeta. destruct (k_group (tasks s t)); tcase t t; try contradiction; reflexivity. Qed.

Lemma resume_ctl_naex s0 t fo : naex (k_ctl (tasks s0 t)) -> naex (k_ctl (tasks (fst (resume s0 t fo)) t)).
Proof.
  intros H0. rewrite resume_unfold. cbn zeta. set (s := incs s0 t). set (inc := snd (incoming s0 t fo)).
  destruct (k_ctl (tasks s0 t)) as [| |k|f tm|g ws exc|g c exc|g child f|child c e wf|h wf|] eqn:Ec.
  - destruct inc as [e|]; cbn [fst].
    + rewrite ctl_finish_task. apply naex_done.
    + cbn [set_running tasks]. rewrite ctl_after_park. apply naex_idle.
  - cbn [fst set_running tasks]. rewrite ctl_after_park. apply naex_idle.
  - destruct k as [| |c].
    + rewrite ctl_ret. apply naex_idle.
    + destruct inc; [rewrite ctl_ret; apply naex_idle|]. destruct (ckif_spins _ _ _); [|rewrite ctl_ret; apply naex_idle].
      cbn [blocked fst set_running bare_yield call_soon set_ready tasks]. unfold s. rewrite incs_ctl, Ec.
      intros g0 w exc. split; discriminate.
    + destruct (scope_exit s c t inc) as [s1 x]. destruct x; rewrite ctl_ret; apply naex_idle.
  - rewrite ctl_ret. apply naex_idle.
  - exfalso. destruct (H0 g ws exc) as [H _]. apply H. reflexivity.
  - exfalso. destruct (H0 g c exc) as [_ H]. apply H. reflexivity.
  - destruct inc as [e|]; [|rewrite ctl_ret; apply naex_idle].
    destruct (handle_pending s child); [|rewrite ctl_ret; apply naex_idle].
    rewrite new_scope_eq. cbn zeta.
    match goal with |- context [event_wait ?a ?b ?c] => destruct (event_wait a b c) as [s4 wf] end.
    rewrite ctl_block. intros g0 w exc. split; discriminate.
  - match goal with |- context [scope_exit ?a ?b ?c ?d] => destruct (scope_exit a b c d) as [s2 x] end.
    destruct x; [|destruct inc|]; rewrite ctl_ret; apply naex_idle.
  - rewrite ctl_ret. apply naex_idle.
  - cbn [fst]. rewrite Ec. apply naex_done.
Qed.

Lemma in_aexit_naex s t g w : in_aexit s t g w -> naex (k_ctl (tasks s t)) -> False.
Proof. intros [exc [H|H]] N; destruct (N g w exc) as [N1 N2]; congruence. Qed.

Lemma not_in_aexit_naex s t : (forall g w, ~ in_aexit s t g w) -> naex (k_ctl (tasks s t)).
Proof.
  intros H g w exc. split; intros E; apply (H g w); exists exc; auto.
Qed.

(* unfolding of step for the operations we follow *)
Lemma step_group_exit s t g : idle s t = true -> fst (step s (AGroupExit t g)) = fst (puppet_op s t (AGroupExit t g)).
Proof. intros Hi. cbn [step actor]. now rewrite Hi. Qed.

Lemma step_run_in s h : In h (ready s) -> step s (ARun h) =
  match h with
  | HStep t => resume (pop s h) t None
  | HWake t f => resume (pop s h) t (Some f)
  | HDeliver c => (set_running (deliver_top (set_running (pop s h) None) c) None, RNone)
  | HTaskDone t => (run_task_done (pop s h) t, RNone)
  | HSleepDone f _ => (fut_complete (pop s h) f (FRes 0), RNone)
  | HTimeout c _ => (set_running (scope_timeout (set_running (pop s h) None) c) None, RNone)
  end.
Proof.
  intros Hin. cbn [step actor]. unfold run_handle.
  assert (E : existsb (handle_eqb h) (ready s) = true) by (apply existsb_handle; exact Hin).
  rewrite E. cbn [negb]. reflexivity.
Qed.

Lemma step_run_notin s h : ~ In h (ready s) -> step s (ARun h) = (s, RRejected).
Proof.
  intros Hin. cbn [step actor]. unfold run_handle.
  destruct (existsb (handle_eqb h) (ready s)) eqn:E; [apply existsb_handle in E; contradiction|reflexivity].
Qed.

Lemma ntask_ret s t r : ntask (fst (ret_to_puppet s t r)) = ntask s.
Proof.
  unfold ret_to_puppet, park. cbn [fst set_running ntask]. match goal with |- context [new_fut ?a] => rewrite (new_fut_eq a) end.
  cbn [upd_task set_tasks ntask]. assert (H : forall a f, ntask (suspend_on a t f) = ntask a).
  { intros a f. unfold suspend_on. destruct (f_st (futs a f)); try reflexivity.
    destruct (k_must (tasks a t)); [|reflexivity]. cbn [upd_task set_tasks ntask]. now rewrite fc_ntask. }
  rewrite H. destruct r; reflexivity.
Qed.

Lemma group_new_facts s t : idle s t = true ->
  let s' := fst (step s (AGroupNew t)) in
  ntask s' = ntask s /\ s_active (scopes s' (nscope s)) = false.
Proof.
  intros Hi. cbn zeta. cbn [step actor]. rewrite Hi. cbn [negb]. unfold puppet_op. rewrite new_scope_eq. cbn zeta.
  rewrite ntask_ret, scopes_ret. split; [reflexivity|]. cbn [scopes]. change (scopes (ns (begin_act s t) None false) (nscope s))
    with (scopes (ns (begin_act s t) None false) (nscope (begin_act s t))). rewrite ns_scope_new. reflexivity.
Qed.

(* ---------------- preservation of DInv by a disciplined step ---------------- *)
Lemma real_keep s o g : reach s -> DInv s -> real s g ->
  g_scope (groups (fst (step s o)) g) = g_scope (groups s g).
Proof.
  intros R D Hr. destruct (gc_norm s o g R) as [[E _]|[E _]]; [|exact E].
  destruct (real_galloc s g D Hr) as [_ H]. lia.
Qed.

Lemma real_back s o g : reach s -> real (fst (step s o)) g ->
  (real s g /\ g_scope (groups (fst (step s o)) g) = g_scope (groups s g)) \/
  (g = ngroup s /\ (exists t, o = AGroupNew t /\ idle s t = true) /\
   groups (fst (step s o)) g = mkGroup (nscope s) false [] [] None [] false).
Proof.
  intros R Hr. destruct (gc_norm s o g R) as [[E1 [E2 E3]]|[E _]]; [right; auto|].
  left. split; [|exact E]. unfold real in *. now rewrite <- E.
Qed.

Lemma okop_enter s t c : okop s (AEnter t c) = true -> is_group_scope s c = false.
Proof. cbn. intros H. now destruct (is_group_scope s c). Qed.

Lemma okop_genter s t g : okop s (AGroupEnter t g) = true -> real s g.
Proof. cbn. unfold real_b, real. intros H E. rewrite E in H. discriminate. Qed.

Lemma okop_gexit s t g : okop s (AGroupExit t g) = true ->
  real s g /\ s_active (scopes s (g_scope (groups s g))) = true /\
  s_host (scopes s (g_scope (groups s g))) = Some t /\ k_cur (tasks s t) = Some (g_scope (groups s g)).
Proof.
  cbn. intros H. apply andb_prop in H. destruct H as [H H4]. apply andb_prop in H. destruct H as [H H3].
  apply andb_prop in H. destruct H as [H1 H2].
  refine (conj _ (conj H2 (conj _ _))).
  - unfold real_b, real in *. intros E. rewrite E in H1. discriminate.
  - destruct (s_host (scopes s (g_scope (groups s g)))) as [h|]; [|discriminate]. cbn in H3. apply Nat.eqb_eq in H3. now subst.
  - destruct (k_cur (tasks s t)) as [c|]; [|discriminate]. cbn in H4. apply Nat.eqb_eq in H4. now subst.
Qed.

(* entered s o c is decidable *)
Lemma classic_entered s o c : entered s o c \/ ~ entered s o c.
Proof.
  assert (N : none_s c \/ ~ none_s c) by (right; intros H; exact H).
  destruct o; cbn [entered]; try exact N.
  - destruct (Nat.eq_dec c0 c) as [E|E]; [left; exact E|right; exact E].
  - destruct (Nat.eq_dec (g_scope (groups s g)) c) as [E|E]; [left; exact E|right; exact E].
  - destruct h as [t|t f| | | |]; try exact N.
    + destruct (k_ctl (tasks s t)); try exact N. destruct (k_group (tasks s t)); [|exact N].
      destruct (Nat.eq_dec (k_hscope (tasks s t)) c) as [E|E]; [left; exact E|right; exact E].
    + destruct (k_ctl (tasks s t)); try exact N. destruct (k_group (tasks s t)); [|exact N].
      destruct (Nat.eq_dec (k_hscope (tasks s t)) c) as [E|E]; [left; exact E|right; exact E].
Qed.

(* a group's scope can be (re)activated only by AGroupEnter of that group *)
Lemma entered_group_scope s o g : reach s -> DInv s -> okop s o = true -> real s g ->
  entered s o (g_scope (groups s g)) -> exists t, o = AGroupEnter t g.
Proof.
  intros R D Ho Hr He. destruct o; cbn [entered] in He; try contradiction.
  - exfalso. apply (not_group_scope s c D (okop_enter s t c Ho) g Hr). now rewrite He.
  - exists t. f_equal. apply (d_f1 s D g0 g); [apply (okop_genter s t g0 Ho)|exact Hr|exact He].
  - destruct h as [t|t f| | | |]; try contradiction.
    + destruct (k_ctl (tasks s t)); try contradiction. destruct (k_group (tasks s t)) eqn:Eg; [|contradiction].
      exfalso. apply (d_f2 s D t g); [congruence|exact Hr|exact He].
    + destruct (k_ctl (tasks s t)); try contradiction. destruct (k_group (tasks s t)) eqn:Eg; [|contradiction].
      exfalso. apply (d_f2 s D t g); [congruence|exact Hr|exact He].
Qed.

Lemma inactive_group_scope_stays s o g : reach s -> DInv s -> okop s o = true -> real s g ->
  g_entered (groups s g) = true -> s_active (scopes s (g_scope (groups s g))) = false ->
  s_active (scopes (fst (step s o)) (g_scope (groups s g))) = false.
Proof.
  intros R D Ho Hr Hent Hin. destruct (reach_inv s R) as [M _].
  pose proof (b_gscope s (m_g s M) g) as Hlt.
  destruct (step_scope_frame s o) as [_ [_ [SF _]]]. destruct (SF _ Hlt) as [SFi _].
  destruct (classic_entered s o (g_scope (groups s g))) as [He|He].
  - destruct (entered_group_scope s o g R D Ho Hr He) as [t ->].
    rewrite scopes_group_enter_entered; auto.
  - destruct (SFi Hin He) as [E _]. now rewrite E.
Qed.

Lemma ax_facts_of s t g w : reach s -> DInv s -> in_aexit s t g w -> ax_facts s t g w.
Proof.
  intros R D Hin. destruct (reach_inv s R) as [M Hrun].
  destruct (d_ax s D t g w Hin) as [Hr [Hl [He [Ha [Hh [Hp Hne]]]]]].
  assert (Hnr : running s <> Some t) by (rewrite Hrun; discriminate).
  assert (Ht : top_scope (k_ctl (tasks s t)) = Some w) by (destruct Hin as [exc [H|H]]; rewrite H; reflexivity).
  destruct (c_top s (m_c s M) t w Hnr Ht) as [O1 [O2 [O3 O4]]].
  unfold ax_facts, owns. pose proof (b_gscope s (m_g s M) g). auto 10.
Qed.

Lemma alloc_of_in_aexit s t g w : reach s -> in_aexit s t g w -> alloc s t.
Proof.
  intros R [exc H]. destruct (reach_inv s R) as [M _].
  destruct (Nat.eq_dec t 0) as [->|H0]; [|destruct (Nat.lt_ge_cases t (ntask s)) as [Hl|Hg]; [split; lia|]].
  - exfalso. assert (Hn : ~ alloc s 0) by (unfold alloc; lia).
    destruct (c_unalloc s (m_c s M) 0 Hn) as [E _]. destruct H as [H|H]; congruence.
  - exfalso. assert (Hn : ~ alloc s t) by (unfold alloc; lia).
    destruct (c_unalloc s (m_c s M) t Hn) as [E _]. destruct H as [H|H]; congruence.
Qed.

Lemma in_dec_handle (h : handle) l : In h l \/ ~ In h l.
Proof.
  destruct (existsb (handle_eqb h) l) eqn:E; [left; apply existsb_handle, E|right].
  intros H. apply existsb_handle in H. congruence.
Qed.

Lemma in_aexit_dec s t : (exists g w, in_aexit s t g w) \/ naex (k_ctl (tasks s t)).
Proof.
  destruct (k_ctl (tasks s t)) as [| |k|f tm|g ws exc|g c exc|g child f|child c e wf|h wf|] eqn:Ec;
    try (right; intros g0 w0 exc0; split; discriminate).
  - left. exists g, ws, exc. left. exact Ec.
  - left. exists g, c, exc. right. exact Ec.
Qed.

(* the task t resumed by this step is (still) inside __aexit__ afterwards *)
Lemma resumed_ax s t fo g w s0 : reach s -> DInv s -> wake_ok s0 t fo ->
  tasks s0 = tasks s -> scopes s0 = scopes s -> groups s0 = groups s -> nscope s0 = nscope s ->
  in_aexit (fst (resume s0 t fo)) t g w ->
  let s' := fst (resume s0 t fo) in let gs := g_scope (groups s g) in
  (exists w0, in_aexit s t g w0) /\ g_left (groups s' g) = false /\ s_active (scopes s' gs) = true /\
  s_host (scopes s' gs) = Some t /\ s_parent (scopes s' w) = Some gs /\ w <> gs.
Proof.
  intros R D W Et Es Eg En Hax'. cbn zeta.
  destruct (in_aexit_dec s t) as [[g0 [w0 Hax]]|N].
  - pose proof (ax_facts_of s t g0 w0 R D Hax) as AF.
    assert (Hax0 : in_aexit s0 t g0 w0) by (unfold in_aexit in *; now rewrite Et).
    assert (AF0 : ax_facts s0 t g0 w0) by (unfold ax_facts, owns in *; now rewrite Et, Es, Eg, En).
    destruct (resume_aexit_result s0 t fo g0 w0 W Hax0 AF0) as [[_ [Hc _]]|[GL [w' [Hax2 [A2 [H2 [P2 N2]]]]]]].
    + exfalso. destruct Hax' as [exc [H|H]]; congruence.
    + assert (Egw : g = g0 /\ w = w').
      { destruct Hax' as [e1 [H1|H1]]; destruct Hax2 as [e2 [H3|H3]]; rewrite H1 in H3; first [discriminate|injection H3; auto]. }
      destruct Egw as [-> ->]. rewrite Eg in *. destruct (d_ax s D t g0 w0 Hax) as [_ [Hl _]].
      refine (conj (ex_intro _ w0 Hax) (conj _ (conj A2 (conj H2 (conj P2 N2))))). congruence.
  - exfalso. apply (in_aexit_naex _ t g w Hax'). apply resume_ctl_naex. now rewrite Et.
Qed.

(* the acting task of a flip: it is the task inside __aexit__ of that group *)
Lemma dinv_step s o : reach s -> DInv s -> okop s o = true -> DInv (fst (step s o)).
Proof.
  intros R D Ho. set (s' := fst (step s o)).
  pose proof (reach_inv s R) as [M Hrun]. pose proof (reach_inv s' (reach_step s o R)) as [M' Hrun'].
  pose proof (task_facts_stable s o R) as TS. fold s' in TS.
  pose proof (step_scope_frame s o) as [_ [_ [SFs SFt]]]. fold s' in SFs, SFt.
  pose proof (new_task_qh (nscope s, nfut s) s o R eq_refl) as NQ. fold s' in NQ.
  assert (Hng : ngroup s <= ngroup s') by (apply tstab_ngroup, TS).
  assert (RK : forall g, real s g -> g_scope (groups s' g) = g_scope (groups s g)) by (intros g; apply real_keep; auto).
  assert (RS : forall g, real s g -> real s' g) by (intros g Hr; unfold real; rewrite RK; auto).
  assert (RB := fun g => real_back s o g R). fold s' in RB.
  assert (GN := fun g => gc_norm s o g R). cbn zeta in GN. fold s' in GN.
  assert (Bg := b_gscope s (m_g s M)).
  constructor.
  - (* n_one *) pose proof (n_one s D). lia.
  - (* n_un *)
    intros g Hg. assert (Hu : g = 0 \/ ngroup s <= g) by (destruct Hg; [auto|right; lia]).
    destruct (n_un s D g Hu) as [U1 [U2 U3]].
    assert (Hnr : ~ real s g) by (intros H; apply H; exact U1).
    destruct (step_group_cases s o g R) as [E|[[t [E1 [E0 [E2 E]]]]|[[t [E1 E]]|[[t [E1 [E2 [E3 E]]]]|[[t [e [E1 [E2 [E3 [E4 E]]]]]]|[[E P]|[t [E1 [E2 [E3 E]]]]]]]]]];
      fold s' in E.
    + rewrite E. auto.
    + exfalso. subst o. pose proof (ngroup_group_new s t E0) as Hn. fold s' in Hn. pose proof (n_one s D). destruct Hg; lia.
    + exfalso. subst o. apply Hnr, (okop_genter s t g Ho).
    + exfalso. unfold group_active in E3. rewrite U2 in E3. discriminate.
    + exfalso. subst o. apply Hnr, (okop_gexit s t g Ho).
    + exfalso. destruct P as [[t [-> _]]|[t [h [w [exc [_ [_ [_ P]]]]]]]].
      * apply Hnr, (okop_gexit s t g Ho).
      * apply Hnr. apply (d_ax s D t g w). exists exc. exact P.
    + destruct E as [E|[e [_ E]]]; rewrite E; cbn; auto.
  - (* d_f1 *)
    intros g g' Hr Hr' Es.
    destruct (RB g Hr) as [[H1 H2]|[H1 [H2 H3]]]; destruct (RB g' Hr') as [[H1' H2']|[H1' [H2' H3']]].
    + apply (d_f1 s D g g' H1 H1'). congruence.
    + exfalso. rewrite H2, H3' in Es. cbn in Es. pose proof (Bg g). lia.
    + exfalso. rewrite H2', H3 in Es. cbn in Es. pose proof (Bg g'). lia.
    + congruence.
  - (* d_f2 *)
    intros t g Hgr Hr. destruct TS as [_ TS2].
    destruct (Nat.lt_ge_cases t (ntask s)) as [Hlt|Hge].
    + destruct (TS2 t Hlt) as [T1 [T2 _]]. rewrite T1 in Hgr. rewrite T2.
      destruct (RB g Hr) as [[H1 H2]|[H1 [H2 H3]]].
      * rewrite H2. apply (d_f2 s D t g Hgr H1).
      * rewrite H3. cbn. pose proof (c_bsc s (m_c s M) t). lia.
    + assert (Hna : ~ alloc s t) by (unfold alloc; lia).
      destruct (c_unalloc s (m_c s M) t Hna) as [_ [_ [Hg0 [_ [_ [Hs0 _]]]]]].
      destruct (NQ t (or_introl (conj Hg0 Hs0))) as [[Q _]|[Q _]]; [contradiction|]. rewrite Q. cbn [fst].
      destruct (RB g Hr) as [[H1 H2]|[H1 [[t0 [-> Hi]] H3]]].
      * rewrite H2. pose proof (Bg g). lia.
      * exfalso. destruct (group_new_facts s t0 Hi) as [Hnt _]. fold s' in Hnt.
        assert (Hna' : ~ alloc s' t) by (unfold alloc; lia).
        destruct (c_unalloc s' (m_c s' M') t Hna') as [_ [_ [Hg0' _]]]. contradiction.
  - (* d_entr *)
    intros g He. destruct (GN g) as [[_ [_ E]]|[_ [_ [E _]]]].
    + rewrite E in He. discriminate.
    + destruct (E He) as [H|[t ->]]; [apply RS, (d_entr s D g H)|apply RS, (okop_genter s t g Ho)].
  - (* d_ent *)
    intros g Hr Ha.
    destruct (RB g Hr) as [[H1 H2]|[H1 [[t0 [-> Hi]] H3]]].
    + rewrite H2 in Ha. destruct (GN g) as [[E _]|[_ [Em _]]]; [destruct (real_galloc s g D H1); lia|].
      destruct (s_active (scopes s (g_scope (groups s g)))) eqn:Ea0; [apply Em, (d_ent s D g H1 Ea0)|].
      destruct (SFs _ (Bg g)) as [SFi _].
      destruct (classic_entered s o (g_scope (groups s g))) as [He|He].
      * destruct (entered_group_scope s o g R D Ho H1 He) as [t ->].
        destruct (idle s t) eqn:Ei.
        -- unfold s'. cbn [step actor]. rewrite Ei. cbn [negb]. rewrite groups_op_group_enter.
           destruct (g_entered (groups s g)) eqn:Ee; [exact Ee|]. rewrite upd_same. reflexivity.
        -- exfalso. unfold s' in Ha. cbn [step actor] in Ha. rewrite Ei in Ha. cbn [negb fst] in Ha. congruence.
      * destruct (SFi Ea0 He) as [E _]. congruence.
    + exfalso. rewrite H3 in Ha. cbn in Ha. destruct (group_new_facts s t0 Hi) as [_ Hin]. fold s' in Hin. congruence.
  - (* d_left *)
    intros g Hl. destruct (GN g) as [[_ [_ E]]|[Es [Em [_ [_ [Ef Et]]]]]]; [rewrite E in Hl; discriminate|].
    destruct (Ef Hl) as [Hl0|Hflip].
    + destruct (d_left s D g Hl0) as [Hr [He [Hi Ht]]].
      refine (conj (RS g Hr) (conj (Em He) (conj _ _))).
      * rewrite Es. apply inactive_group_scope_stays; auto.
      * destruct (g_tasks (groups s' g)) eqn:Et'; [reflexivity|]. exfalso.
        destruct Et as [H|H]; [discriminate|congruence|]. unfold group_active in H. rewrite Hi, andb_false_r in H. discriminate.
    + destruct (g_left (groups s g)) eqn:Hl0.
      { (* already left: same as above *)
        destruct (d_left s D g Hl0) as [Hr [He [Hi Ht]]].
        refine (conj (RS g Hr) (conj (Em He) (conj _ _))).
        * rewrite Es. apply inactive_group_scope_stays; auto.
        * destruct (g_tasks (groups s' g)) eqn:Et'; [reflexivity|]. exfalso.
          destruct Et as [H|H]; [discriminate|congruence|]. unfold group_active in H. rewrite Hi, andb_false_r in H. discriminate. }
      destruct (group_exit_joins_all_step s o g R Hl0 Hl) as [Htasks _]. fold s' in Htasks.
      destruct Hflip as [[t [-> Hi]]|[t [h [w [-> [Hin [Hh Hax]]]]]]].
      * exfalso. destruct (okop_gexit s t g Ho) as [Hr [Ha [Hh Hc]]].
        pose proof (group_exit_result s t g Ha Hh Hc (Bg g)) as [GL _].
        unfold s' in Hl. rewrite (step_group_exit s t g Hi) in Hl. congruence.
      * destruct (d_ax s D t g w Hax) as [Hr [_ [He _]]].
        pose proof (ax_facts_of s t g w R D Hax) as AF.
        assert (W : exists fo, wake_ok (pop s h) t fo /\ s' = fst (resume (pop s h) t fo)).
        { destruct Hh as [->|[f ->]].
          - exists None. split; [apply (wake_ok_step s t (reach_inv s R) Hin)|]. unfold s'. now rewrite (step_run_in s _ Hin).
          - exists (Some f). split; [apply (wake_ok_wake s t f (reach_inv s R) Hin)|]. unfold s'. now rewrite (step_run_in s _ Hin). }
        destruct W as [fo [W Es']].
        pose proof (resume_aexit_result (pop s h) t fo g w W Hax AF) as Res. rewrite <- Es' in Res.
        change (groups (pop s h)) with (groups s) in Res.
        destruct Res as [[Hina _]|[GL _]]; [|exfalso; change (groups (pop s h) g) with (groups s g) in GL; congruence].
        refine (conj (RS g Hr) (conj (Em He) (conj _ Htasks))). rewrite Es. exact Hina.
  - (* d_ax *)
    intros t g w Hax'.
    assert (Hal' : alloc s' t) by (apply (alloc_of_in_aexit s' t g w (reach_step s o R) Hax')).
    (* transport for a task that does not act in this step *)
    assert (Keep : t <> acting o -> in_aexit s t g w /\
              real s' g /\ g_left (groups s' g) = false /\ g_entered (groups s' g) = true /\
              s_active (scopes s' (g_scope (groups s' g))) = true /\ s_host (scopes s' (g_scope (groups s' g))) = Some t /\
              s_parent (scopes s' w) = Some (g_scope (groups s' g)) /\ w <> g_scope (groups s' g)).
    { intros Hna. destruct (SFt t Hna) as [Sl Sg].
      destruct (Nat.lt_ge_cases t (ntask s)) as [Hlt|Hge].
      - destruct (Sl Hlt) as [_ Ec]. assert (Hax : in_aexit s t g w) by (destruct Hax' as [exc H]; exists exc; now rewrite <- Ec).
        split; [exact Hax|].
        destruct (d_ax s D t g w Hax) as [Hr [Hl [He [Ha [Hh [Hp Hne]]]]]].
        destruct (ax_facts_of s t g w R D Hax) as [_ [_ [_ [_ [Hlt' [O1 [O2 [O3 O4]]]]]]]].
        destruct (GN g) as [[E _]|[Es [Em [_ [_ [Ef _]]]]]]; [destruct (real_galloc s g D Hr); lia|].
        rewrite Es.
        destruct (SFs _ Hlt') as [_ SFa]. destruct (SFa Ha) as [G1 [G2 _]]; [rewrite Hh; congruence|].
        destruct (SFs _ O4) as [_ SFw]. destruct (SFw O1) as [_ [_ W3]]; [rewrite O2; congruence|].
        rewrite G1, G2, W3. refine (conj (RS g Hr) (conj _ (conj (Em He) (conj Ha (conj Hh (conj Hp Hne)))))).
        destruct (g_left (groups s' g)) eqn:Hl'; [|reflexivity]. exfalso.
        destruct (Ef eq_refl) as [H|[[t' [-> Hi]]|[t' [h [w' [-> [Hin [Hh' Hax2]]]]]]]]; [congruence| |].
        + destruct (okop_gexit s t' g Ho) as [_ [_ [Hh2 _]]]. assert (t' = t) by congruence. subst t'.
          unfold idle in Hi. destruct Hax as [exc [H|H]]; rewrite H in Hi; discriminate.
        + destruct (d_ax s D t' g w' Hax2) as [_ [_ [_ [_ [Hh2 _]]]]]. assert (t' = t) by congruence. subst t'.
          apply Hna. destruct Hh' as [->|[f ->]]; reflexivity.
      - exfalso. assert (Hna0 : ~ alloc s t) by (unfold alloc; lia).
        destruct (c_unalloc s (m_c s M) t Hna0) as [Ec _].
        assert (N : newctl (k_ctl (tasks s' t))) by (apply Sg; [exact Hge|left; exact Ec]).
        destruct Hax' as [exc [H|H]]; rewrite H in N; destruct N as [N|[N|N]]; discriminate. }
    destruct (Nat.eq_dec t (acting o)) as [Hact|Hna]; [|apply Keep, Hna].
    (* the acting task *)
    unfold acting in Hact. destruct (actor o) as [ta|] eqn:Ea.
    + subst ta. destruct (idle s t) eqn:Ei.
      * assert (Es' : s' = fst (match o with AFinish _ v => puppet_finish s t v | _ => puppet_op s t o end)).
        { unfold s', step. now rewrite Ea, Ei. }
        assert (Hidle : naex (k_ctl (tasks s t))).
        { unfold idle in Ei. destruct (k_ctl (tasks s t)); try discriminate. apply naex_idle. }
        destruct o; try (exfalso; rewrite Es' in Hax'; apply (in_aexit_naex _ t g w Hax');
          apply puppet_ctl_naex; [intros ?; discriminate|intros ? ? ?; discriminate|exact Hidle]).
        -- (* AGroupExit *) cbn in Ea. injection Ea as ->.
           destruct (okop_gexit s t g0 Ho) as [Hr [Ha [Hh Hc]]].
           pose proof (group_exit_result s t g0 Ha Hh Hc (Bg g0)) as [GL [w' [Hax2 [A2 [H2 [P2 N2]]]]]].
           rewrite <- Es' in GL, Hax2, A2, H2, P2.
           assert (Egw : g = g0 /\ w = w').
           { destruct Hax' as [e1 [H1|H1]]; destruct Hax2 as [e2 [H3|H3]]; rewrite H1 in H3; first [discriminate|injection H3; auto]. }
           destruct Egw as [-> ->].
           assert (Hl0 : g_left (groups s g0) = false).
           { destruct (g_left (groups s g0)) eqn:E; [|reflexivity]. destruct (d_left s D g0 E) as [_ [_ [Hi _]]]. congruence. }
           rewrite (RK g0 Hr).
           destruct (GN g0) as [[E _]|[_ [Em _]]]; [destruct (real_galloc s g0 D Hr); lia|].
           refine (conj (RS g0 Hr) (conj _ (conj (Em (d_ent s D g0 Hr Ha)) (conj A2 (conj H2 (conj P2 N2)))))). congruence.
        -- (* AFinish *) exfalso.
           assert (Hc : k_ctl (tasks s' t) = CDone).
           { rewrite Es'. unfold puppet_finish.
             destruct (k_group _); [destruct (scope_exit _ _ _ _) as [s4 x]; destruct x|]; cbn [fst]; apply ctl_finish_task. }
           destruct Hax' as [exc [H|H]]; congruence.
      * (* rejected *) assert (Es' : s' = s) by (unfold s', step; now rewrite Ea, Ei). rewrite Es' in *. apply (d_ax s D t g w Hax').
    + destruct o; try (exfalso; subst t; destruct Hal'; lia).
      destruct h as [t0|t0 f| | | |]; try (exfalso; subst t; destruct Hal'; lia); subst t0.
      * (* HStep *)
        destruct (in_dec_handle (HStep t) (ready s)) as [Hin|Hnin].
        2:{ assert (Es' : s' = s) by (unfold s'; now rewrite (step_run_notin s _ Hnin)). rewrite Es' in *. apply (d_ax s D t g w Hax'). }
        pose proof (wake_ok_step s t (reach_inv s R) Hin) as W.
        assert (Es' : s' = fst (resume (pop s (HStep t)) t None)) by (unfold s'; now rewrite (step_run_in s _ Hin)).
        rewrite Es' in Hax'.
        destruct (resumed_ax s t None g w (pop s (HStep t)) R D W eq_refl eq_refl eq_refl eq_refl Hax') as [[w0 Hax] [L2 [A2 [H2 [P2 N2]]]]].
        rewrite <- Es' in L2, A2, H2, P2. destruct (d_ax s D t g w0 Hax) as [Hr [_ [He _]]]. rewrite (RK g Hr).
        destruct (GN g) as [[E _]|[_ [Em _]]]; [destruct (real_galloc s g D Hr); lia|].
        exact (conj (RS g Hr) (conj L2 (conj (Em He) (conj A2 (conj H2 (conj P2 N2)))))).
      * destruct (in_dec_handle (HWake t f) (ready s)) as [Hin|Hnin].
        2:{ assert (Es' : s' = s) by (unfold s'; now rewrite (step_run_notin s _ Hnin)). rewrite Es' in *. apply (d_ax s D t g w Hax'). }
        pose proof (wake_ok_wake s t f (reach_inv s R) Hin) as W.
        assert (Es' : s' = fst (resume (pop s (HWake t f)) t (Some f))) by (unfold s'; now rewrite (step_run_in s _ Hin)).
        rewrite Es' in Hax'.
        destruct (resumed_ax s t (Some f) g w (pop s (HWake t f)) R D W eq_refl eq_refl eq_refl eq_refl Hax') as [[w0 Hax] [L2 [A2 [H2 [P2 N2]]]]].
        rewrite <- Es' in L2, A2, H2, P2. destruct (d_ax s D t g w0 Hax) as [Hr [_ [He _]]]. rewrite (RK g Hr).
        destruct (GN g) as [[E _]|[_ [Em _]]]; [destruct (real_galloc s g D Hr); lia|].
        exact (conj (RS g Hr) (conj L2 (conj (Em He) (conj A2 (conj H2 (conj P2 N2)))))).
      * (* HTaskDone t: a done task *)
        destruct (in_dec_handle (HTaskDone t) (ready s)) as [Hin|Hnin].
        -- exfalso. destruct (k_td s (m_k s M) t Hin) as [Hd [_ [_ Hal]]].
           destruct TS as [_ TS2]. destruct (TS2 t (proj2 Hal)) as [_ [_ [_ [_ [Td _]]]]].
           destruct (k_done (tasks s t)) as [d|] eqn:Ed; [|contradiction].
           assert (Hd' : k_done (tasks s' t) <> None) by (rewrite (Td d eq_refl); discriminate).
           pose proof (c_done1 s' (m_c s' M') t Hd') as Hc1.
           destruct Hax' as [exc [H|H]]; congruence.
        -- assert (Es' : s' = s) by (unfold s'; now rewrite (step_run_notin s _ Hnin)). rewrite Es' in *.
           apply (d_ax s D t g w Hax').
Qed.

Lemma dinv_init : DInv init.
Proof.
  constructor; cbn [init ngroup groups tasks scopes].
  - lia.
  - intros g _. cbn. auto.
  - intros g g' H. exfalso. apply H. reflexivity.
  - intros t g _ H. exfalso. apply H. reflexivity.
  - intros g H. discriminate.
  - intros g H. exfalso. apply H. reflexivity.
  - intros g H. discriminate.
  - intros t g w [exc [H|H]]; discriminate.
Qed.

Theorem dreach_dinv s : dreach s -> DInv s.
Proof.
  apply (dreach_ind DInv); [exact dinv_init|].
  intros s0 o D0 I0 Ho. apply dinv_step; auto. apply dreach_reach, D0.
Qed.

(* ------------------------------------------------------------------------------------------------ *)
(* C01, state form, for disciplined op sequences *)
Theorem group_exit_joins_all s g : dreach s -> g_left (groups s g) = true ->
  g_tasks (groups s g) = [] /\
  forall t, In t (g_ever (groups s g)) -> k_done (tasks s t) <> None /\ k_tdran (tasks s t) = true.
Proof.
  intros D Hl. destruct (d_left s (dreach_dinv s D) g Hl) as [_ [_ [_ Ht]]].
  split; [exact Ht|]. apply empty_group_all_joined; [apply dreach_reach, D|exact Ht].
Qed.

Theorem left_group_is_inactive s g : dreach s -> g_left (groups s g) = true -> group_active s g = false.
Proof.
  intros D Hl. destruct (d_left s (dreach_dinv s D) g Hl) as [_ [_ [Hi _]]].
  unfold group_active. rewrite Hi. apply andb_false_r.
Qed.

Theorem no_spawn_after_left s o g : dreach s -> g_left (groups s g) = true -> okop s o = true ->
  g_ever (groups (fst (step s o)) g) = g_ever (groups s g) /\ g_left (groups (fst (step s o)) g) = true.
Proof.
  intros D Hl Ho. pose proof (dreach_reach s D) as R. pose proof (dreach_dinv s D) as DI. split.
  - destruct (list_eq_dec Nat.eq_dec (g_ever (groups (fst (step s o)) g)) (g_ever (groups s g))) as [E|Hne]; [exact E|].
    exfalso. destruct (group_members_grow_only_by_spawn s o g R Hne) as [[t [_ [_ [Ha _]]]]|[t [_ Hg]]].
    + rewrite (left_group_is_inactive s g D Hl) in Ha. discriminate.
    + destruct (d_left s DI g Hl) as [Hr _]. destruct (real_galloc s g DI Hr). lia.
  - destruct (gc_norm s o g R) as [[Hg _]|[_ [_ [_ [Hm _]]]]]; [|apply Hm, Hl].
    destruct (d_left s DI g Hl) as [Hr _]. destruct (real_galloc s g DI Hr). lia.
Qed.

(* ---------------- non-vacuity: a rich disciplined history ---------------- *)
(* roots 1 and 2; 1 opens group 1 and spawns child 3; child 3 opens the nested group 2 and start()s child 4, which
   calls started(9); the outsider 2 spawns child 5 into group 1 and then cancels group 1's scope; everything
   unwinds: 4 and 5 finish cancelled, 3 leaves group 2 and finishes, 1 leaves group 1 *)
Definition ops_rich : list op :=
  [ANewRoot; ANewRoot; AGroupNew 1; AGroupEnter 1 1; ASpawn 1 1; ARun (HStep 3); AGroupNew 3; AGroupEnter 3 2;
   AStart 3 2; ARun (HStep 4); AStarted 4 9; ARun (HWake 3 9); ASpawn 2 1; ARun (HStep 5); ACancel 2 1;
   ARun (HWake 4 11); AFinish 4 0; ARun (HTaskDone 4); ARun (HWake 5 14); AFinish 5 0; ARun (HTaskDone 5);
   ARun (HWake 3 12); AGroupExit 3 2; ARun (HStep 3); AFinish 3 0; ARun (HTaskDone 3);
   ARun (HWake 1 5); AGroupExit 1 1; ARun (HStep 1)].

Example ex_rich_disciplined :
  disciplined ops_rich = true /\
  let s := final step init ops_rich in
  g_left (groups s 1) = true /\ g_left (groups s 2) = true /\
  g_ever (groups s 1) = [3; 5] /\ g_ever (groups s 2) = [4] /\
  nth 11 (snd (run_ops step init ops_rich)) RNone = RRet 9.
Proof. vm_compute. repeat split; reflexivity. Qed.

Lemma dreach_final ops : disciplined ops = true -> dreach (final step init ops).
Proof. intros H. exists ops. auto. Qed.

Example ex_no_spawn_after_left_hyp :
  let s := final step init ops_rich in
  g_left (groups s 1) = true /\ okop s (ASpawn 2 1) = true /\ snd (step s (ASpawn 2 1)) = RExc ERuntime.
Proof. vm_compute. auto. Qed.

(* the misuse sequences of GroupThms7 are not disciplined *)
Example ex_reenter_not_disciplined :
  disciplined [ANewRoot; AGroupNew 1; AGroupEnter 1 1; AGroupExit 1 1; ARun (HStep 1); AEnter 1 1; ASpawn 1 1] = false.
Proof. vm_compute. reflexivity. Qed.

Example ex_foreign_exit_not_disciplined :
  disciplined [ANewRoot; ANewRoot; AGroupNew 1; AGroupEnter 1 1; AGroupExit 2 1; ARun (HStep 2); ASpawn 1 1] = false.
Proof. vm_compute. reflexivity. Qed.

Example ex_double_exit_not_disciplined :
  disciplined [ANewRoot; AGroupNew 1; AGroupEnter 1 1; AHold 1 7; AGroupExit 1 1; ARun (HStep 1);
               AGroupExit 1 1; ARun (HStep 1)] = false.
Proof. vm_compute. reflexivity. Qed.

(* the same three theorems stated on op lists *)
Theorem group_exit_joins_all_ops ops g : disciplined ops = true ->
  g_left (groups (final step init ops) g) = true ->
  g_tasks (groups (final step init ops) g) = [] /\
  forall t, In t (g_ever (groups (final step init ops) g)) ->
    k_done (tasks (final step init ops) t) <> None /\ k_tdran (tasks (final step init ops) t) = true.
Proof. intros H. apply group_exit_joins_all, dreach_final, H. Qed.

Theorem no_spawn_after_left_ops ops o g : disciplined ops = true ->
  g_left (groups (final step init ops) g) = true -> okop (final step init ops) o = true ->
  g_ever (groups (fst (step (final step init ops) o)) g) = g_ever (groups (final step init ops) g) /\
  g_left (groups (fst (step (final step init ops) o)) g) = true.
Proof. intros H. apply no_spawn_after_left, dreach_final, H. Qed.

Theorem left_group_is_inactive_ops ops g : disciplined ops = true ->
  g_left (groups (final step init ops) g) = true -> group_active (final step init ops) g = false.
Proof. intros H. apply left_group_is_inactive, dreach_final, H. Qed.

(* a task's control state and current scope change only in steps in which that task acts (its own puppet op, the
   resumption by one of its handles, or its task_done callback); in particular a caller of start() leaves
   CStartJoin only by being resumed *)
Theorem ctl_changes_only_when_acting s o t : t < ntask s -> t <> acting o ->
  k_ctl (tasks (fst (step s o)) t) = k_ctl (tasks s t) /\ k_cur (tasks (fst (step s o)) t) = k_cur (tasks s t).
Proof.
  intros Ht Hne. destruct (step_scope_frame s o) as [_ [_ [_ SFt]]]. destruct (SFt t Hne) as [Sl _].
  destruct (Sl Ht) as [E1 E2]. auto.
Qed.

Example ex_ctl_frame :
  let s := final step init [ANewRoot; AGroupNew 1; AGroupEnter 1 1; AStart 1 1; ANativeCancel 1; ARun (HWake 1 4)] in
  (exists sc e wf, k_ctl (tasks s 1) = CStartJoin 2 sc e wf) /\ 1 < ntask s /\ 1 <> acting (ARun (HStep 2)).
Proof. vm_compute. split; [eauto|split; [lia|discriminate]]. Qed.

(* ------------------------------------------------------------------------------------------------ *)
(* C07: "start() re-raises only after the child has terminated".
   Proved for every op sequence:
   - the interrupted caller cancels the child's handle scope and moves to CStartJoin (GroupThms6.start_cancel_joins_child);
   - it stays in CStartJoin until one of its own handles is run (ctl_changes_only_when_acting);
   - its join future gets a value only in the step `AFinish child` in which the child's coroutine ends
     (GroupThms11.start_join_event_wakeup), and then the finished event is set and k_final child <> None
     (GroupThms6.start_join_wakeup_means_child_finished).
   The remaining clause - no delivery of cancellation reaches the caller through another scope, so that the caller
   is resumed only by the finished event - is proved in GroupThms13.v (the walk of the join predicate JP over
   every operation, step_jr) and GroupThms14.v (start_join_resumed_only_by_finished_event, for runs whose prefix
   lies in the op_ok domain of the C03/C05 development, which provides the scope-tree invariant
   `In t (s_tasks (scopes s x)) <-> k_cur (tasks s t) = Some x` at the state in which the join begins). *)
