(* Which futures can go to FRes in one step: a copy of the walk of GroupThms5 for the relation frq. *)
From AV Require Import Base Machine GroupInv GroupInv2 GroupInv3 GroupInv4 GroupInv5 GroupInv6 GroupInv7 GroupInv8
  GroupThms2 GroupThms5b.

(* every future that holds a value in s' held it already in s, or was completed with that value by a completion
   allowed by Q; futures allocated in between hold a value only by Q *)
Definition frq (Q : fid -> nat -> Prop) (s s' : st) : Prop :=
  nfut s <= nfut s' /\
  (forall f v, f_st (futs s' f) = FRes v -> f_st (futs s f) = FRes v \/ Q f v) /\
  (forall f v, nfut s <= f -> f < nfut s' -> f_st (futs s' f) = FRes v -> Q f v).

Lemma frq_refl (Q : fid -> nat -> Prop) s : frq Q s s.
Proof. refine (conj (le_n _) (conj _ _)); [auto|intros f v H1 H2; lia]. Qed.

Lemma frq_trans (Q : fid -> nat -> Prop) a b c : frq Q a b -> frq Q b c -> frq Q a c.
Proof.
  intros [A1 [A2 A3]] [B1 [B2 B3]]. refine (conj _ (conj _ _)); [lia| |].
  - intros f v H. destruct (B2 f v H) as [H1|H1]; auto.
  - intros f v H1 H2 H. destruct (Nat.lt_ge_cases f (nfut b)) as [Hl|Hg].
    + destruct (B2 f v H) as [H3|H3]; [apply (A3 f v H1 Hl H3)|exact H3].
    + apply (B3 f v Hg H2 H).
Qed.

Lemma frq_eq (Q : fid -> nat -> Prop) s s' : futs s' = futs s -> nfut s' = nfut s -> nfut s' = nfut s -> frq Q s s'.
Proof. intros E1 E2 _. refine (conj _ (conj _ _)); [lia|intros f v; rewrite E1; auto|intros f v H1 H2; lia]. Qed.

Lemma frq_kstar (Q : fid -> nat -> Prop) C T s s' : kstar C T s s' -> frq Q s s'.
Proof.
  intros H. pose proof (kframe_kstar _ _ _ _ H) as F. refine (conj _ (conj _ _)).
  - rewrite (fr_nfut _ _ _ _ F). lia.
  - intros f v Hv. left. destruct (fr_fut2 _ _ _ _ F f) as [E|[_ [o Ho]]]; [now rewrite <- E|congruence].
  - intros f v H1 H2. rewrite (fr_nfut _ _ _ _ F) in H2. lia.
Qed.

Lemma frq_upd_task (Q : fid -> nat -> Prop) s t g : nk_keeps g -> frq Q s (upd_task s t g).
Proof. intros _. apply frq_eq; reflexivity. Qed.

Lemma frq_nf (Q : fid -> nat -> Prop) s : frq Q s (nf s).
Proof.
  refine (conj _ (conj _ _)).
  - unfold nf, new_fut. cbn. lia.
  - intros f v. unfold nf, new_fut. cbn [fst futs]. unfold upd. destruct (Nat.eqb f (nfut s)); [cbn; discriminate|auto].
  - intros f v H1 H2. unfold nf, new_fut in *. cbn [fst futs nfut] in *. assert (f = nfut s) by lia. subst.
    rewrite upd_same. cbn. discriminate.
Qed.

Ltac feq := first [ apply frq_eq; reflexivity | apply frq_nf
                  | (eapply frq_trans; [apply frq_nf|]; apply frq_eq; reflexivity) ].

Lemma frq_fc (Q : fid -> nat -> Prop) s f x : (forall v, x = FRes v -> f_st (futs s f) = FPend -> Q f v) -> frq Q s (fut_complete s f x).
Proof.
  intros HQ. destruct (fc_spec s f x) as [[_ ->]|[Hp [Ef _]]]; [apply frq_refl|].
  refine (conj _ (conj _ _)).
  - rewrite fc_nfut. lia.
  - intros g v. rewrite Ef. unfold upd. destruct (Nat.eqb_spec g f) as [->|Hg]; [cbn; intros ->; right; auto|auto].
  - intros g v H1 H2. rewrite fc_nfut in H2. lia.
Qed.

Lemma frq_fc_nores (Q : fid -> nat -> Prop) s f x : (forall v, x <> FRes v) -> frq Q s (fut_complete s f x).
Proof. intros H. apply frq_fc. intros v E. exfalso. exact (H v E). Qed.



Lemma frq_fst_same (Q : fid -> nat -> Prop) s s' : nfut s' = nfut s ->
  (forall f, f_st (futs s' f) = f_st (futs s f)) -> frq Q s s'.
Proof. intros E1 E2. refine (conj _ (conj _ _)); [lia|intros f v; rewrite E2; auto|intros f v H1 H2; lia]. Qed.

Lemma frq_suspend_on (Q : fid -> nat -> Prop) s t f : frq Q s (suspend_on s t f).
Proof.
  assert (A : forall a, frq Q s (upd_task (upd_fut s f (fun x => mkFut (f_st x) (Some t))) t a)).
  { intros a. apply frq_fst_same; [reflexivity|]. intros x. cbn [upd_task set_tasks upd_fut set_futs futs]. unfold upd.
    destruct (Nat.eqb_spec x f); [subst; reflexivity|reflexivity]. }
  unfold suspend_on. destruct (f_st (futs s f)).
  - destruct (k_must (tasks s t)); [|apply A].
    eapply frq_trans; [apply (A (tk_waiter (Some f)))|]. eapply frq_trans; [|apply frq_upd_task, nkeeps_must]. apply frq_fc_nores; intros ? HH; discriminate HH.
  - eapply frq_trans; [apply (A (tk_waiter (Some f)))|feq].
  - eapply frq_trans; [apply (A (tk_waiter (Some f)))|feq].
  - eapply frq_trans; [apply (A (tk_waiter (Some f)))|feq].
Qed.

Lemma frq_park (Q : fid -> nat -> Prop) s t : frq Q s (park s t).
Proof.
  unfold park. rewrite new_fut_eq. eapply frq_trans; [|apply frq_upd_task, nkeeps_ctl].
  eapply frq_trans; [|apply frq_suspend_on]. feq.
Qed.

Lemma frq_ret (Q : fid -> nat -> Prop) s t r : frq Q s (fst (ret_to_puppet s t r)).
Proof.
  unfold ret_to_puppet. cbn [fst]. eapply frq_trans; [|feq].
  eapply frq_trans; [|apply frq_park]. destruct r; try apply frq_refl. apply frq_upd_task, nkeeps_held.
Qed.

Lemma frq_set_running (Q : fid -> nat -> Prop) s r : frq Q s (set_running s r).
Proof. feq. Qed.

Lemma frq_block (Q : fid -> nat -> Prop) s t c : frq Q s (fst (blocked (set_ctl s t c))).
Proof. cbn [blocked fst]. eapply frq_trans; [|apply frq_set_running]. apply frq_upd_task, nkeeps_ctl. Qed.

Lemma frq_scope_enter (Q : fid -> nat -> Prop) s c t : frq Q s (fst (scope_enter s c t)).
Proof. apply (frq_kstar _ _ _ _ _ (ks_scope_enter s c t)). Qed.
Lemma frq_scope_exit (Q : fid -> nat -> Prop) s c t e : frq Q s (fst (scope_exit s c t e)).
Proof. apply (frq_kstar _ _ _ _ _ (ks_scope_exit s c t e)). Qed.
Lemma frq_scope_cancel (Q : fid -> nat -> Prop) s c b : frq Q s (scope_cancel s c b).
Proof. apply (frq_kstar _ _ _ _ _ (ks_scope_cancel none_s none_t s c b)). Qed.
Lemma frq_restart (Q : fid -> nat -> Prop) s x : frq Q s (restart s x).
Proof. apply (frq_kstar _ _ _ _ _ (ks_restart none_s none_t s x)). Qed.
Lemma frq_scope_timeout (Q : fid -> nat -> Prop) s c : frq Q s (scope_timeout s c).
Proof. apply (frq_kstar _ _ _ _ _ (ks_scope_timeout none_s none_t s c)). Qed.
Lemma frq_cancel_timeout (Q : fid -> nat -> Prop) s c : frq Q s (cancel_timeout s c).
Proof. apply (frq_kstar _ _ _ _ _ (ks_cancel_timeout none_s none_t s c)). Qed.
Lemma frq_deliver_top (Q : fid -> nat -> Prop) s c : frq Q s (deliver_top s c).
Proof. apply (frq_kstar _ _ _ _ _ (ks_deliver_top none_s none_t s c)). Qed.

Lemma frq_event_set (Q : fid -> nat -> Prop) s e : (forall f, In f (e_waiters (events s e)) -> Q f 1) -> frq Q s (event_set s e).
Proof.
  intros HQ. rewrite event_set_eq. destruct (e_set (events s e)); [apply frq_refl|].
  assert (H : forall l a, (forall f, In f l -> Q f 1) -> frq Q a (fold_left (fun a f => fut_complete a f (FRes 1)) l a)).
  { induction l as [|f l IH]; intros a Hl; cbn [fold_left]; [apply frq_refl|].
    apply (frq_trans Q a (fut_complete a f (FRes 1))); [apply frq_fc; intros v E _; injection E as <-; apply Hl; now left|apply IH].
    intros x Hx. apply Hl. now right. }
  eapply frq_trans; [|apply H; exact HQ]. feq.
Qed.

Lemma frq_event_wait (Q : fid -> nat -> Prop) s t e : frq Q s (fst (event_wait s t e)).
Proof.
  unfold event_wait. destruct (e_set (events s e)); [feq|].
  rewrite new_fut_eq. cbn [fst]. eapply frq_trans; [|apply frq_suspend_on]. feq.
Qed.

Lemma nkeeps_fin_unused : True. Proof. exact I. Qed.

(* finish_task sets k_done on a task that was not done: we need that fact *)
Lemma frq_finish_task (Q : fid -> nat -> Prop) s t o : frq Q s (finish_task s t o).
Proof.
  rewrite finish_task_eq. cbn zeta. eapply frq_trans; [|apply frq_set_running].
  assert (T1 : frq Q s (upd_task s t (fin_rec (fin_outcome (tasks s t) o)))).
  { apply frq_upd_task. intros k. cbn. tauto. }
  destruct (k_group (tasks s t)); [|exact T1]. eapply frq_trans; [exact T1|feq].
Qed.

Ltac fpeel L := eapply frq_trans; [|apply L].
Ltac fpeel_ret := fpeel frq_ret.
Ltac fby_eq := feq.

Lemma frq_begin (Q : fid -> nat -> Prop) s t : frq Q s (begin_act s t).
Proof. unfold begin_act. fpeel frq_set_running. apply frq_upd_task, nkeeps_waiter. Qed.

Lemma frq_ns (Q : fid -> nat -> Prop) s d sh : frq Q s (ns s d sh). Proof. fby_eq. Qed.

Lemma frq_talloc (Q : fid -> nat -> Prop) s k ev : frq Q s (talloc s k ev).
Proof. feq. Qed.

Lemma frq_spawned (Q : fid -> nat -> Prop) s g sf : frq Q s (spawned s g sf).
Proof.
  rewrite spawned_eq. cbn zeta. eapply frq_trans; [|feq].
  eapply frq_trans; [|apply frq_restart]. feq.
Qed.

Lemma frq_aexit_raise (Q : fid -> nat -> Prop) s t g e : frq Q s (fst (aexit_raise s t g e)).
Proof.
  unfold aexit_raise. pose proof (frq_scope_exit Q s (g_scope (groups s g)) t (Some e)) as H.
  destruct (scope_exit s (g_scope (groups s g)) t (Some e)) as [s1 x]. cbn [fst] in H.
  destruct x; cbn [fst].
  - fpeel frq_upd_task; [|apply nkeeps_held]. eapply frq_trans; [exact H|fby_eq].
  - eapply frq_trans; [exact H|fby_eq].
  - eapply frq_trans; [exact H|fby_eq].
Qed.

Lemma frq_aexit_finish (Q : fid -> nat -> Prop) s t g exc : frq Q s (fst (aexit_finish s t g exc)).
Proof.
  unfold aexit_finish. destruct (map snd (g_excs (groups s g))); [|apply frq_aexit_raise].
  destruct exc; [apply frq_aexit_raise|].
  pose proof (frq_scope_exit Q s (g_scope (groups s g)) t None) as H.
  destruct (scope_exit s (g_scope (groups s g)) t None) as [s1 x]. cbn [fst] in H.
  destruct x; cbn [fst]; (eapply frq_trans; [exact H|fby_eq]).
Qed.

Lemma frq_ret_pair (Q : fid -> nat -> Prop) s0 (p : st * res) t : frq Q s0 (fst p) ->
  frq Q s0 (fst (let '(s2, r) := p in ret_to_puppet s2 t r)).
Proof. destruct p as [s2 r]. cbn [fst]. intros H. eapply frq_trans; [exact H|apply frq_ret]. Qed.

Lemma frq_wof (Q : fid -> nat -> Prop) s t g ws exc : frq Q s (fst (aexit_wait_or_finish s t g ws exc)).
Proof.
  unfold aexit_wait_or_finish. destruct (g_tasks (groups s g)) as [|a l].
  - destruct ws as [w|].
    + pose proof (frq_scope_exit Q s w t None) as H. destruct (scope_exit s w t None) as [s1 x]. cbn [fst] in H.
      destruct x; apply frq_ret_pair; (eapply frq_trans; [exact H|]);
        first [apply frq_aexit_finish|apply frq_aexit_raise].
    + apply frq_ret_pair, frq_aexit_finish.
  - assert (Hb : forall s0 w, frq Q s s0 ->
      frq Q s (fst (let '(s1, f) := new_fut s0 in
                    let s2 := upd_group s1 g (gr_fut (Some f)) in
                    blocked (set_ctl (suspend_on s2 t f) t (CAexitWait g w exc))))).
    { intros s0 w E0. rewrite new_fut_eq. cbn zeta. fpeel frq_block. fpeel frq_suspend_on.
      eapply frq_trans; [exact E0|fby_eq]. }
    destruct ws as [w|].
    + apply Hb, frq_refl.
    + rewrite new_scope_eq. cbn [fst]. apply Hb. fpeel frq_scope_enter. fby_eq.
Qed.

(* the puppet operations *)
Lemma frq_puppet_op (Q : fid -> nat -> Prop) s0 t o : (forall t' v f, o = AStarted t' v -> k_startfut (tasks s0 t) = Some f -> Q f v) ->
  frq Q s0 (fst (puppet_op s0 t o)).
Proof.
  intros Hh. unfold puppet_op. pose proof (frq_begin Q s0 t) as B. set (s := begin_act s0 t) in *.
  destruct o; try apply frq_refl; (eapply frq_trans; [exact B|]).
  - rewrite new_scope_eq. fpeel_ret. fby_eq.
  - pose proof (frq_scope_enter Q s c t) as H. destruct (scope_enter s c t) as [s1 e]. cbn [fst] in H.
    fpeel_ret. exact H.
  - pose proof (frq_scope_exit Q s c t (k_held (tasks s t))) as H.
    destruct (scope_exit s c t (k_held (tasks s t))) as [s1 x]. cbn [fst] in H.
    destruct x; [|fpeel_ret; exact H|fpeel_ret; exact H].
    match goal with |- context [if ?b then _ else _] => destruct b end; fpeel_ret;
      (eapply frq_trans; [exact H|apply frq_upd_task, nkeeps_held]).
  - fpeel_ret. apply frq_scope_cancel.
  - destruct (Bool.eqb (s_shield (scopes s c)) b); [fpeel_ret; apply frq_refl|]. cbn zeta. fpeel_ret.
    destruct b; [fby_eq|]. fpeel frq_restart. fby_eq.
  - cbn zeta. fpeel_ret. match goal with |- context [if ?b then _ else _] => destruct b end.
    + fpeel frq_scope_timeout. fpeel frq_cancel_timeout. fby_eq.
    + fpeel frq_cancel_timeout. fby_eq.
  - rewrite new_scope_eq. cbn zeta. fpeel_ret. apply frq_eq; [reflexivity|reflexivity|cbn; lia].
  - destruct (g_entered (groups s g)); [fpeel_ret; apply frq_refl|]. cbn zeta.
    match goal with |- context [scope_enter ?a ?b ?c] => pose proof (frq_scope_enter Q a b c) as H;
      destruct (scope_enter a b c) as [s2 e] end.
    cbn [fst] in H. fpeel_ret. eapply frq_trans; [|exact H]. fby_eq.
  - (* AGroupExit *) cbn zeta.
    match goal with |- context [match g_tasks (groups ?x g) with _ => _ end] => set (s1 := x) end.
    assert (T1 : frq Q s s1).
    { unfold s1. destruct (k_held (tasks s t)) as [e|]; [|apply frq_refl].
      destruct (is_cancel e); [apply frq_scope_cancel|]. fpeel frq_eq; [|reflexivity|reflexivity|reflexivity]. apply frq_scope_cancel. }
    eapply frq_trans; [exact T1|]. destruct (g_tasks (groups s1 g)); [|apply frq_wof].
    rewrite new_scope_eq. cbn zeta. fpeel frq_block. fpeel frq_eq; [|reflexivity|reflexivity|reflexivity].
    fpeel frq_scope_enter. fby_eq.
  - destruct (negb (group_active s g)); [fpeel_ret; apply frq_refl|]. rewrite spawn_task_eq. fpeel_ret. apply frq_spawned.
  - destruct (negb (group_active s g)); [fpeel_ret; apply frq_refl|]. rewrite new_fut_eq. cbv beta iota.
    rewrite spawn_task_eq. cbv beta iota. fpeel frq_block. fpeel frq_suspend_on.
    eapply frq_trans; [apply (frq_nf Q s)|apply frq_spawned].
  - destruct (k_startfut (tasks s t)) as [f|] eqn:Esf; [|fpeel_ret; apply frq_refl].
    assert (Esf0 : k_startfut (tasks s0 t) = Some f).
    { revert Esf. unfold s, begin_act. tcase t t; [auto|contradiction]. }
    destruct (f_st (futs s f)); fpeel_ret; try apply frq_refl. apply frq_fc.
    intros v0 E _. injection E as <-. apply (Hh t0 v f eq_refl Esf0).
  - destruct (e_set _); fpeel_ret; [apply frq_refl|apply frq_scope_cancel].
  - pose proof (frq_event_wait Q s t (k_hevent (tasks s h))) as H.
    destruct (event_wait s t (k_hevent (tasks s h))) as [s1 f]. cbn [fst] in H. fpeel frq_block. exact H.
  - fpeel frq_block. fby_eq.
  - destruct (ckif_spins _ _ _); [fpeel frq_block; fby_eq|fpeel_ret; apply frq_refl].
  - rewrite new_scope_eq. cbn zeta. fpeel frq_block. fpeel frq_eq; [|reflexivity|reflexivity|reflexivity]. fpeel frq_scope_enter. fby_eq.
  - rewrite new_fut_eq. destruct d as [dt|].
    + rewrite call_at_eq. fpeel frq_block. fpeel frq_suspend_on. fby_eq.
    + fpeel frq_block. fpeel frq_suspend_on. fby_eq.
  - fpeel_ret. apply frq_upd_task, nkeeps_held.
  - fpeel_ret. apply frq_upd_task, nkeeps_held.
  - fpeel_ret. apply frq_upd_task, nkeeps_held.
  - fpeel_ret. apply frq_upd_task, nkeeps_irrel, irrel_uncancel.
  - cbn [fst]. fpeel frq_set_running. apply frq_park.
  - rewrite new_scope_eq. pose proof (frq_scope_enter Q (ns s d sh) (nscope s) t) as H.
    destruct (scope_enter (ns s d sh) (nscope s) t) as [s2 e]. cbn [fst] in H. fpeel_ret.
    eapply frq_trans; [|exact H]. fby_eq.
Qed.

(* ---------------- operations that need the invariant (the acting task is not done, has no final outcome) ---- *)
From AV Require Import GroupInv9.

Lemma frqle_rec_unused : True. Proof. exact I. Qed.

Lemma frqle_final_unused : True. Proof. exact I. Qed.

Lemma frq_rec_task (Q : fid -> nat -> Prop) s t raw : frq Q s (rec_task s t raw).
Proof. feq. Qed.

Lemma frq_puppet_finish (Q : fid -> nat -> Prop) s0 t v :
  (forall f, In f (e_waiters (events s0 (k_hevent (tasks s0 t)))) -> Q f 1) ->
  frq Q s0 (fst (puppet_finish s0 t v)).
Proof.
  intros HQ. pose proof (frq_begin Q s0 t) as B.
  unfold puppet_finish. set (s := begin_act s0 t) in *. eapply frq_trans; [exact B|].
  set (raw := match k_held (tasks s t) with Some e => OExc e | None => ORet v end).
  assert (T1 : frq Q s (upd_task s t (tk_final (Some raw)))) by (apply frq_upd_task; intros k; cbn; tauto).
  destruct (k_group (tasks s t)) as [g|] eqn:Eg.
  - match goal with |- context [scope_exit ?a ?b ?c ?d] => pose proof (frq_scope_exit Q a b c d) as T4;
      assert (T3 : frq Q s a);
      [|destruct (scope_exit a b c d) as [s4 x]] end.
    { eapply frq_trans; [|apply frq_event_set].
      - eapply frq_trans; [exact T1|]. apply frq_upd_task. intros k. destruct raw; cbn; tauto.
      - intros f Hf. apply HQ. revert Hf. unfold s, begin_act.
        cbn [upd_task set_tasks set_running events tasks]. rewrite !upd_same. cbn. auto. }
    cbn [fst] in T4. eapply frq_trans; [exact T3|]. eapply frq_trans; [exact T4|].
    destruct x; apply frq_finish_task.
  - cbn [fst]. eapply frq_trans; [exact T1|]. apply frq_finish_task.
Qed.

Lemma frq_incs (Q : fid -> nat -> Prop) s0 t : frq Q s0 (incs s0 t).
Proof. unfold incs. fpeel frq_set_running. apply frq_upd_task. intros k. cbn. tauto. Qed.

Lemma frq_event_unwait (Q : fid -> nat -> Prop) s e fo : frq Q s (event_unwait s e fo).
Proof. destruct fo; fby_eq. Qed.

Lemma frq_resume (Q : fid -> nat -> Prop) s0 t fo : wake_ok s0 t fo -> frq Q s0 (fst (resume s0 t fo)).
Proof.
  intros W. pose proof (Run_incs s0 t fo W) as [M [Hr Hf]].
  destruct (k_run _ (m_k _ M) t Hr) as [_ [Hd _]].
  rewrite resume_unfold. cbn zeta. pose proof (frq_incs Q s0 t) as B.
  set (s := incs s0 t) in *. set (inc := snd (incoming s0 t fo)).
  destruct (k_ctl (tasks s0 t)) as [| |k|f tm|g ws exc|g c exc|g child f|child c e wf|h wf|]; try apply frq_refl;
    (eapply frq_trans; [exact B|]).
  - destruct inc as [e|]; cbn [fst].
    + fpeel frq_finish_task. apply frq_upd_task, nkeeps_started.
    + fpeel frq_set_running. fpeel frq_park.
      destruct (k_group (tasks (upd_task s t (tk_started true)) t)).
      * fpeel frq_scope_enter. apply frq_upd_task, nkeeps_started.
      * apply frq_upd_task, nkeeps_started.
  - cbn [fst]. fpeel frq_set_running. fpeel frq_park. destruct inc; [apply frq_upd_task, nkeeps_held|apply frq_refl].
  - destruct k as [| |c].
    + apply frq_ret.
    + destruct inc; [apply frq_ret|]. destruct (ckif_spins _ _ _); [fby_eq|apply frq_ret].
    + pose proof (frq_scope_exit Q s c t inc) as H. destruct (scope_exit s c t inc) as [s1 x]. cbn [fst] in H.
      destruct x; fpeel_ret; exact H.
  - fpeel_ret. fby_eq.
  - destruct inc as [e|].
    + fpeel frq_wof. fpeel frq_scope_cancel. fby_eq.
    + fpeel frq_wof. fby_eq.
  - pose proof (frq_scope_exit Q s c t inc) as H. destruct (scope_exit s c t inc) as [s1 x]. cbn [fst] in H.
    eapply frq_trans; [exact H|].
    destruct x.
    + apply frq_wof.
    + destruct inc as [e|]; [|apply frq_wof]. destruct (is_cancel e).
      * fpeel frq_wof. apply frq_scope_cancel.
      * apply frq_ret_pair, frq_aexit_raise.
    + apply frq_ret_pair, frq_aexit_raise.
  - destruct inc as [e|]; [|apply frq_ret].
    destruct (handle_pending s child); [|apply frq_ret].
    rewrite new_scope_eq. cbn zeta.
    match goal with |- context [event_wait ?a ?b ?c] => pose proof (frq_event_wait Q a b c) as H;
      destruct (event_wait a b c) as [s4 wf] end.
    cbn [fst] in H. fpeel frq_block. eapply frq_trans; [|exact H]. fpeel frq_scope_enter.
    fpeel frq_eq; [|reflexivity|reflexivity|reflexivity]. apply frq_scope_cancel.
  - match goal with |- context [scope_exit ?a ?b ?c ?d] => pose proof (frq_scope_exit Q a b c d) as H;
      destruct (scope_exit a b c d) as [s2 x] end.
    cbn [fst] in H. assert (H2 : frq Q s s2) by (eapply frq_trans; [apply frq_event_unwait|exact H]).
    destruct x; [|destruct inc|]; fpeel_ret; exact H2.
  - fpeel_ret. apply frq_event_unwait.
Qed.

Lemma frq_run_task_done (Q : fid -> nat -> Prop) s0 t :
  (forall g f, k_group (tasks s0 t) = Some g -> g_fut (groups s0 g) = Some f -> Q f 0) ->
  frq Q s0 (run_task_done s0 t).
Proof.
  intros HQ.
  rewrite run_task_done_eq. cbn zeta. set (s := set_running s0 None).
  assert (B : frq Q s0 s) by fby_eq. eapply frq_trans; [exact B|].
  change (tasks s t) with (tasks s0 t).
  destruct (k_group (tasks s0 t)) as [g|] eqn:Eg; [|apply frq_refl].
  set (s1 := match k_cur (tasks s0 t) with Some c => _ | None => _ end).
  assert (T1 : frq Q s s1) by (unfold s1; destruct (k_cur (tasks s0 t)); [fby_eq|apply frq_refl]).
  set (s3 := tdcore s1 t g).
  assert (T3 : frq Q s1 s3).
  { unfold s3, tdcore. fpeel frq_upd_task; [fby_eq|]. intros k. unfold td_rec. cbn. tauto. }
  set (s4 := match g_fut (groups s3 g) with Some f => _ | None => _ end).
  assert (T4 : frq Q s3 s4).
  { unfold s4. destruct (g_fut (groups s3 g)) as [f0|] eqn:Ef0; [|apply frq_refl].
    destruct (g_tasks (groups s3 g)); [|apply frq_refl]. apply frq_fc. intros v E _. injection E as <-.
    apply (HQ g f0 eq_refl). destruct (tdcore_groups s1 t g g) as [_ [_ [_ [E4 _]]]]. fold s3 in E4. rewrite E4 in Ef0.
    revert Ef0. unfold s1. destruct (k_cur (tasks s0 t)); auto. }
  assert (T : frq Q s s4) by (eapply frq_trans; [exact T1|]; eapply frq_trans; [exact T3|exact T4]).
  eapply frq_trans; [exact T|].
  assert (Hc : forall s5, frq Q s5 (if eff_cancelled s5 (g_scope (groups s5 g)) then s5
                                   else scope_cancel s5 (g_scope (groups s5 g)) false)).
  { intros s5. destruct (eff_cancelled s5 _); [apply frq_refl|apply frq_scope_cancel]. }
  assert (Hsc : forall s5, frq Q s5 (scope_cancel s5 (g_scope (groups s5 g)) false)) by (intros s5; apply frq_scope_cancel).
  assert (Ha : forall e, frq Q s4 (upd_group s4 g (add_exc t e))) by (intros e; fby_eq).
  destruct (k_done (tasks s0 t)) as [[v|e|e]|].
  - destruct (k_startfut (tasks s0 t)) as [f|]; [|apply frq_refl].
    destruct (f_st (futs s4 f)); try apply frq_refl. apply frq_fc_nores; intros ? HH; discriminate HH.
  - destruct (k_startfut (tasks s0 t)) as [f|].
    + destruct (f_st (futs s4 f)).
      * apply frq_fc_nores; intros ? HH; discriminate HH.
      * destruct (is_cancel e); [apply Hc|]. eapply frq_trans; [apply Ha|apply Hsc].
      * destruct (is_cancel e); [apply Hc|]. eapply frq_trans; [apply Ha|apply Hsc].
      * destruct (is_cancel e); [apply frq_refl|]. eapply frq_trans; [apply Ha|apply Hsc].
    + destruct (is_cancel e); [apply Hc|]. eapply frq_trans; [apply Ha|apply Hsc].
  - destruct (k_startfut (tasks s0 t)) as [f|].
    + destruct (f_st (futs s4 f)).
      * apply frq_fc_nores; intros ? HH; discriminate HH.
      * destruct (is_cancel e); [apply Hc|]. eapply frq_trans; [apply Ha|apply Hsc].
      * destruct (is_cancel e); [apply Hc|]. eapply frq_trans; [apply Ha|apply Hsc].
      * destruct (is_cancel e); [apply frq_refl|]. eapply frq_trans; [apply Ha|apply Hsc].
    + destruct (is_cancel e); [apply Hc|]. eapply frq_trans; [apply Ha|apply Hsc].
  - destruct (k_startfut (tasks s0 t)) as [f|]; [|apply frq_refl].
    destruct (f_st (futs s4 f)); try apply frq_refl. apply frq_fc_nores; intros ? HH; discriminate HH.
Qed.

Lemma frq_new_root (Q : fid -> nat -> Prop) s : frq Q s (fst (new_root s)).
Proof.
  unfold new_root. cbn [fst]. fpeel frq_set_running. fpeel frq_park.
  apply (frq_talloc Q s root_rec false).
Qed.

Lemma N5c_wake_step (Q : fid -> nat -> Prop) s t : Inv s -> In (HStep t) (ready s) -> wake_ok (pop s (HStep t)) t None.
Proof.
  intros [M Hr] Hin. destruct (M_pop s (HStep t) M Hin) as [M1 [Hnt _]].
  destruct (k_step s (m_k s M) t Hin) as [H1 [H2 [H3 H4]]].
  constructor; auto. apply Hnt. cbn. auto.
Qed.

Lemma N5c_wake_wake (Q : fid -> nat -> Prop) s t f : Inv s -> In (HWake t f) (ready s) -> wake_ok (pop s (HWake t f)) t (Some f).
Proof.
  intros [M Hr] Hin. destruct (M_pop s (HWake t f) M Hin) as [M1 [Hnt _]].
  destruct (k_wake s (m_k s M) t f Hin) as [H1 H2]. destruct (k_w1 s (m_k s M) t f H1) as [H3 [H4 [H5 [H6 H7]]]].
  constructor; auto. apply Hnt. cbn. auto.
Qed.

(* C01: stability. For every already allocated task: its group, handle scope, finished event and start future
   never change; once done / task_done-ran / coroutine-ended, always so (with the same outcome) *)
(* the completions with a value that operation o can perform in state s *)
Definition Qstep (s : st) (o : op) (f : fid) (v : nat) : Prop :=
  match o with
  | AStarted t v' => k_startfut (tasks s t) = Some f /\ v = v'
  | AFinish t _ => In f (e_waiters (events s (k_hevent (tasks s t)))) /\ v = 1
  | ARun (HSleepDone f0 _) => f = f0 /\ v = 0
  | ARun (HTaskDone t) => (exists g, k_group (tasks s t) = Some g /\ g_fut (groups s g) = Some f) /\ v = 0
  | _ => False
  end.

Theorem step_fres s o : reach s -> frq (Qstep s o) s (fst (step s o)).
Proof.
  intros R. pose proof (reachable s R) as I0. unfold step. destruct (actor o) as [t|] eqn:Ea.
  - destruct (idle s t) eqn:Ei; cbn [negb]; [|apply frq_refl].
    destruct o; try (apply frq_puppet_op; intros ? ? ? E; discriminate E).
    + cbn in Ea. injection Ea as ->. apply frq_puppet_op. intros t' v0 f E Hf. injection E as <- <-. cbn. auto.
    + cbn in Ea. injection Ea as ->. apply frq_puppet_finish. intros f Hf. cbn. auto.
  - destruct o; try apply frq_refl.
    + apply frq_new_root.
    + cbn [fst]. apply (frq_kstar _ _ _ _ _ (ks_one _ _ _ _ (kp_cancel none_s none_t s t 0))).
    + cbn [fst]. fpeel frq_set_running. fpeel frq_scope_cancel. fby_eq.
    + unfold run_handle. destruct (existsb (handle_eqb h) (ready s)) eqn:Eh; cbn [negb]; [|apply frq_refl].
      apply existsb_handle in Eh. rewrite pop_eq_frame.
      assert (P : forall Q, frq Q s (pop s h)) by (intros Q; fby_eq). eapply frq_trans; [apply P|].
      destruct h as [t|t f|c|t|f tm|c tm].
      * apply frq_resume, (N5c_wake_step (fun _ _ => True)); assumption.
      * apply frq_resume, (N5c_wake_wake (fun _ _ => True)); assumption.
      * cbn [fst]. fpeel frq_set_running. fpeel frq_deliver_top. fby_eq.
      * cbn [fst]. apply frq_run_task_done. intros g f Hg Hf. cbn. split; [|reflexivity]. exists g. auto.
      * cbn [fst]. apply frq_fc. intros v E _. injection E as <-. cbn. auto.
      * cbn [fst]. fpeel frq_set_running. fpeel frq_scope_timeout. fby_eq.
    + destruct (Z.ltb dt 0); [apply frq_refl|fby_eq].
Qed.
