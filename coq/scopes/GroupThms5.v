(* Stability of task facts across one step (no invariant needed): for an allocated task the group, handle scope,
   handle event and start future never change; done / task_done-ran / final are never retracted. *)
From AV Require Import Base Machine GroupInv GroupInv2 GroupInv3 GroupInv4 GroupInv5 GroupInv6 GroupInv7 GroupInv8
  GroupThms2.

Definition tk_stable (k k' : task) : Prop :=
  k_group k' = k_group k /\ k_hscope k' = k_hscope k /\ k_hevent k' = k_hevent k /\ k_startfut k' = k_startfut k /\
  (forall o, k_done k = Some o -> k_done k' = Some o) /\ (k_tdran k = true -> k_tdran k' = true) /\
  (forall o, k_final k = Some o -> k_final k' = Some o).

Definition tstab (s s' : st) : Prop :=
  (ntask s <= ntask s' /\ ngroup s <= ngroup s') /\ forall t, t < ntask s -> tk_stable (tasks s t) (tasks s' t).

Lemma tk_stable_refl k : tk_stable k k.
Proof. unfold tk_stable. tauto. Qed.

Lemma tk_stable_trans a b c : tk_stable a b -> tk_stable b c -> tk_stable a c.
Proof.
  intros [A1 [A2 [A3 [A4 [A5 [A6 A7]]]]]] [B1 [B2 [B3 [B4 [B5 [B6 B7]]]]]].
  unfold tk_stable. refine (conj _ (conj _ (conj _ (conj _ (conj _ (conj _ _)))))); try congruence; auto.
Qed.

Lemma tstab_refl s : tstab s s.
Proof. split; [lia|]. intros t _. apply tk_stable_refl. Qed.

Lemma tstab_ngroup s s' : tstab s s' -> ngroup s <= ngroup s'.
Proof. intros [[_ H] _]. exact H. Qed.

Lemma tstab_trans a b c : tstab a b -> tstab b c -> tstab a c.
Proof.
  intros [[A1 A1'] A2] [[B1 B1'] B2]. split; [lia|]. intros t Ht.
  eapply tk_stable_trans; [apply A2; exact Ht|apply B2; lia].
Qed.

Lemma tstab_eq s s' : tasks s' = tasks s -> ntask s' = ntask s -> ngroup s <= ngroup s' -> tstab s s'.
Proof. intros E1 E2 E3. split; [lia|]. intros t _. rewrite E1. apply tk_stable_refl. Qed.

Lemma tstab_kstar C T s s' : kstar C T s s' -> tstab s s'.
Proof.
  intros H. pose proof (kframe_kstar _ _ _ _ H) as F. split; [rewrite (fr_ntask _ _ _ _ F), (fr_ngroup _ _ _ _ F); lia|].
  intros t _. pose proof (tview_inv _ _ (fr_tv _ _ _ _ F t)) as V.
  destruct V as [_ [V2 [_ [V4 [V5 [V6 [_ [_ [V9 [V10 V11]]]]]]]]]].
  unfold tk_stable. rewrite V2, V4, V5, V6, V9, V10, V11. tauto.
Qed.

(* updating one task record by a transformer that keeps the stable facts *)
Definition tk_keeps (g : task -> task) : Prop := forall k, tk_stable k (g k).

Lemma tstab_upd_task s t g : tk_keeps g -> tstab s (upd_task s t g).
Proof.
  intros Hg. split; [cbn; lia|]. intros x _. cbn [upd_task set_tasks tasks]. unfold upd.
  destruct (Nat.eqb_spec x t); [subst; apply Hg|apply tk_stable_refl].
Qed.

Lemma keeps_simple g : (forall k, k_group (g k) = k_group k /\ k_hscope (g k) = k_hscope k /\ k_hevent (g k) = k_hevent k /\
     k_startfut (g k) = k_startfut k /\ k_done (g k) = k_done k /\ k_tdran (g k) = k_tdran k /\ k_final (g k) = k_final k) ->
  tk_keeps g.
Proof.
  intros H k. destruct (H k) as [H1 [H2 [H3 [H4 [H5 [H6 H7]]]]]]. unfold tk_stable. rewrite H1, H2, H3, H4, H5, H6, H7. tauto.
Qed.

Lemma keeps_ctl c : tk_keeps (tk_ctl c). Proof. apply keeps_simple. intros k. cbn. tauto. Qed.
Lemma keeps_waiter w : tk_keeps (tk_waiter w). Proof. apply keeps_simple. intros k. cbn. tauto. Qed.
Lemma keeps_must b m : tk_keeps (tk_must b m). Proof. apply keeps_simple. intros k. cbn. tauto. Qed.
Lemma keeps_held h : tk_keeps (tk_held h). Proof. apply keeps_simple. intros k. cbn. tauto. Qed.
Lemma keeps_started b : tk_keeps (tk_started b). Proof. apply keeps_simple. intros k. cbn. tauto. Qed.
Lemma keeps_hres a b : tk_keeps (tk_hres a b). Proof. apply keeps_simple. intros k. cbn. tauto. Qed.
Lemma keeps_irrel g : tk_irrel g -> tk_keeps g.
Proof.
  intros H. apply keeps_simple. intros k. destruct (H k) as [_ [H2 [_ [_ [H5 [H6 [H7 [_ [_ [H10 [H11 H12]]]]]]]]]]]. tauto.
Qed.

Lemma tstab_fc s f v : tstab s (fut_complete s f v).
Proof. apply tstab_eq; [apply fc_tasks|apply fc_ntask|rewrite fc_ngroup; lia]. Qed.

Lemma tstab_suspend_on s t f : tstab s (suspend_on s t f).
Proof.
  unfold suspend_on. destruct (f_st (futs s f)).
  - set (s2 := upd_task _ t (tk_waiter (Some f))).
    assert (T2 : tstab s s2).
    { unfold s2. eapply tstab_trans; [|apply tstab_upd_task, keeps_waiter]. apply tstab_eq; reflexivity. }
    destruct (k_must (tasks s t)); [|exact T2].
    eapply tstab_trans; [exact T2|]. eapply tstab_trans; [apply tstab_fc|apply tstab_upd_task, keeps_must].
  - eapply tstab_trans; [|apply tstab_eq; reflexivity]. eapply tstab_trans; [|apply tstab_upd_task, keeps_waiter].
    apply tstab_eq; reflexivity.
  - eapply tstab_trans; [|apply tstab_eq; reflexivity]. eapply tstab_trans; [|apply tstab_upd_task, keeps_waiter].
    apply tstab_eq; reflexivity.
  - eapply tstab_trans; [|apply tstab_eq; reflexivity]. eapply tstab_trans; [|apply tstab_upd_task, keeps_waiter].
    apply tstab_eq; reflexivity.
Qed.

Lemma tstab_park s t : tstab s (park s t).
Proof.
  unfold park. rewrite new_fut_eq. eapply tstab_trans; [|apply tstab_upd_task, keeps_ctl].
  eapply tstab_trans; [|apply tstab_suspend_on]. apply tstab_eq; reflexivity.
Qed.

Lemma tstab_ret s t r : tstab s (fst (ret_to_puppet s t r)).
Proof.
  unfold ret_to_puppet. cbn [fst]. eapply tstab_trans; [|apply tstab_eq; reflexivity].
  eapply tstab_trans; [|apply tstab_park]. destruct r; try apply tstab_refl. apply tstab_upd_task, keeps_held.
Qed.

Lemma tstab_set_running s r : tstab s (set_running s r).
Proof. apply tstab_eq; reflexivity. Qed.

Lemma tstab_block s t c : tstab s (fst (blocked (set_ctl s t c))).
Proof. cbn [blocked fst]. eapply tstab_trans; [|apply tstab_set_running]. apply tstab_upd_task, keeps_ctl. Qed.

Lemma tstab_scope_enter s c t : tstab s (fst (scope_enter s c t)).
Proof. apply (tstab_kstar _ _ _ _ (ks_scope_enter s c t)). Qed.
Lemma tstab_scope_exit s c t e : tstab s (fst (scope_exit s c t e)).
Proof. apply (tstab_kstar _ _ _ _ (ks_scope_exit s c t e)). Qed.
Lemma tstab_scope_cancel s c b : tstab s (scope_cancel s c b).
Proof. apply (tstab_kstar _ _ _ _ (ks_scope_cancel none_s none_t s c b)). Qed.
Lemma tstab_restart s x : tstab s (restart s x).
Proof. apply (tstab_kstar _ _ _ _ (ks_restart none_s none_t s x)). Qed.
Lemma tstab_scope_timeout s c : tstab s (scope_timeout s c).
Proof. apply (tstab_kstar _ _ _ _ (ks_scope_timeout none_s none_t s c)). Qed.
Lemma tstab_cancel_timeout s c : tstab s (cancel_timeout s c).
Proof. apply (tstab_kstar _ _ _ _ (ks_cancel_timeout none_s none_t s c)). Qed.
Lemma tstab_deliver_top s c : tstab s (deliver_top s c).
Proof. apply (tstab_kstar _ _ _ _ (ks_deliver_top none_s none_t s c)). Qed.

Lemma tstab_event_set s e : tstab s (event_set s e).
Proof.
  rewrite event_set_eq. destruct (e_set (events s e)); [apply tstab_refl|].
  assert (H : forall l a, tstab a (fold_left (fun a f => fut_complete a f (FRes 1)) l a)).
  { induction l as [|f l IH]; intros a; cbn [fold_left]; [apply tstab_refl|].
    eapply tstab_trans; [apply tstab_fc|apply IH]. }
  eapply tstab_trans; [|apply H]. apply tstab_eq; reflexivity.
Qed.

Lemma tstab_event_wait s t e : tstab s (fst (event_wait s t e)).
Proof.
  unfold event_wait. destruct (e_set (events s e)); [apply tstab_eq; reflexivity|].
  rewrite new_fut_eq. cbn [fst]. eapply tstab_trans; [|apply tstab_suspend_on]. apply tstab_eq; reflexivity.
Qed.

Lemma keeps_fin d : tk_keeps (fin_rec d) -> True. Proof. auto. Qed.

(* finish_task sets k_done on a task that was not done: we need that fact *)
Lemma tstab_finish_task s t o : k_done (tasks s t) = None -> tstab s (finish_task s t o).
Proof.
  intros Hd. rewrite finish_task_eq. cbn zeta.
  eapply tstab_trans; [|apply tstab_set_running].
  assert (T1 : tstab s (upd_task s t (fin_rec (fin_outcome (tasks s t) o)))).
  { split; [cbn; lia|]. intros x _. cbn [upd_task set_tasks tasks]. unfold upd.
    destruct (Nat.eqb_spec x t); [subst|apply tk_stable_refl].
    unfold tk_stable, fin_rec. cbn. rewrite Hd. refine (conj eq_refl (conj eq_refl (conj eq_refl (conj eq_refl (conj _ (conj _ _)))))); auto.
    intros o0 H. discriminate. }
  destruct (k_group (tasks s t)); [|exact T1]. eapply tstab_trans; [exact T1|apply tstab_eq; reflexivity].
Qed.

Ltac peel L := eapply tstab_trans; [|apply L].
Ltac peel_ret := peel tstab_ret.
Ltac by_eq := apply tstab_eq; reflexivity.

Lemma tstab_begin s t : tstab s (begin_act s t).
Proof. unfold begin_act. peel tstab_set_running. apply tstab_upd_task, keeps_waiter. Qed.

Lemma tstab_ns s d sh : tstab s (ns s d sh). Proof. by_eq. Qed.
Lemma tstab_nf s : tstab s (nf s). Proof. by_eq. Qed.

Lemma tstab_talloc s k ev : tstab s (talloc s k ev).
Proof.
  split; [cbn; lia|]. intros t Ht. unfold talloc. cbn [tasks]. rewrite upd_other; [apply tk_stable_refl|lia].
Qed.

Lemma tstab_spawned s g sf : tstab s (spawned s g sf).
Proof.
  rewrite spawned_eq. cbn zeta. peel tstab_eq; [|reflexivity|reflexivity|reflexivity]. peel tstab_restart.
  peel tstab_eq; [|reflexivity|reflexivity|reflexivity]. peel tstab_eq; [|reflexivity|reflexivity|reflexivity].
  eapply tstab_trans; [apply (tstab_ns s None false)|apply tstab_talloc].
Qed.

Lemma tstab_aexit_raise s t g e : tstab s (fst (aexit_raise s t g e)).
Proof.
  unfold aexit_raise. pose proof (tstab_scope_exit s (g_scope (groups s g)) t (Some e)) as H.
  destruct (scope_exit s (g_scope (groups s g)) t (Some e)) as [s1 x]. cbn [fst] in H.
  destruct x; cbn [fst].
  - peel tstab_upd_task; [|apply keeps_held]. eapply tstab_trans; [exact H|by_eq].
  - eapply tstab_trans; [exact H|by_eq].
  - eapply tstab_trans; [exact H|by_eq].
Qed.

Lemma tstab_aexit_finish s t g exc : tstab s (fst (aexit_finish s t g exc)).
Proof.
  unfold aexit_finish. destruct (map snd (g_excs (groups s g))); [|apply tstab_aexit_raise].
  destruct exc; [apply tstab_aexit_raise|].
  pose proof (tstab_scope_exit s (g_scope (groups s g)) t None) as H.
  destruct (scope_exit s (g_scope (groups s g)) t None) as [s1 x]. cbn [fst] in H.
  destruct x; cbn [fst]; (eapply tstab_trans; [exact H|by_eq]).
Qed.

Lemma tstab_ret_pair s0 (p : st * res) t : tstab s0 (fst p) ->
  tstab s0 (fst (let '(s2, r) := p in ret_to_puppet s2 t r)).
Proof. destruct p as [s2 r]. cbn [fst]. intros H. eapply tstab_trans; [exact H|apply tstab_ret]. Qed.

Lemma tstab_wof s t g ws exc : tstab s (fst (aexit_wait_or_finish s t g ws exc)).
Proof.
  unfold aexit_wait_or_finish. destruct (g_tasks (groups s g)) as [|a l].
  - destruct ws as [w|].
    + pose proof (tstab_scope_exit s w t None) as H. destruct (scope_exit s w t None) as [s1 x]. cbn [fst] in H.
      destruct x; apply tstab_ret_pair; (eapply tstab_trans; [exact H|]);
        first [apply tstab_aexit_finish|apply tstab_aexit_raise].
    + apply tstab_ret_pair, tstab_aexit_finish.
  - assert (Hb : forall s0 w, tstab s s0 ->
      tstab s (fst (let '(s1, f) := new_fut s0 in
                    let s2 := upd_group s1 g (gr_fut (Some f)) in
                    blocked (set_ctl (suspend_on s2 t f) t (CAexitWait g w exc))))).
    { intros s0 w E0. rewrite new_fut_eq. cbn zeta. peel tstab_block. peel tstab_suspend_on.
      eapply tstab_trans; [exact E0|by_eq]. }
    destruct ws as [w|].
    + apply Hb, tstab_refl.
    + rewrite new_scope_eq. cbn [fst]. apply Hb. peel tstab_scope_enter. by_eq.
Qed.

(* the puppet operations *)
Lemma tstab_puppet_op s0 t o : tstab s0 (fst (puppet_op s0 t o)).
Proof.
  unfold puppet_op. pose proof (tstab_begin s0 t) as B. set (s := begin_act s0 t) in *.
  destruct o; try apply tstab_refl; (eapply tstab_trans; [exact B|]).
  - rewrite new_scope_eq. peel_ret. by_eq.
  - pose proof (tstab_scope_enter s c t) as H. destruct (scope_enter s c t) as [s1 e]. cbn [fst] in H.
    peel_ret. exact H.
  - pose proof (tstab_scope_exit s c t (k_held (tasks s t))) as H.
    destruct (scope_exit s c t (k_held (tasks s t))) as [s1 x]. cbn [fst] in H.
    destruct x; [|peel_ret; exact H|peel_ret; exact H].
    match goal with |- context [if ?b then _ else _] => destruct b end; peel_ret;
      (eapply tstab_trans; [exact H|apply tstab_upd_task, keeps_held]).
  - peel_ret. apply tstab_scope_cancel.
  - destruct (Bool.eqb (s_shield (scopes s c)) b); [peel_ret; apply tstab_refl|]. cbn zeta. peel_ret.
    destruct b; [by_eq|]. peel tstab_restart. by_eq.
  - cbn zeta. peel_ret. match goal with |- context [if ?b then _ else _] => destruct b end.
    + peel tstab_scope_timeout. peel tstab_cancel_timeout. by_eq.
    + peel tstab_cancel_timeout. by_eq.
  - rewrite new_scope_eq. cbn zeta. peel_ret. apply tstab_eq; [reflexivity|reflexivity|cbn; lia].
  - destruct (g_entered (groups s g)); [peel_ret; apply tstab_refl|]. cbn zeta.
    match goal with |- context [scope_enter ?a ?b ?c] => pose proof (tstab_scope_enter a b c) as H;
      destruct (scope_enter a b c) as [s2 e] end.
    cbn [fst] in H. peel_ret. eapply tstab_trans; [|exact H]. by_eq.
  - (* AGroupExit *) cbn zeta.
    match goal with |- context [match g_tasks (groups ?x g) with _ => _ end] => set (s1 := x) end.
    assert (T1 : tstab s s1).
    { unfold s1. destruct (k_held (tasks s t)) as [e|]; [|apply tstab_refl].
      destruct (is_cancel e); [apply tstab_scope_cancel|]. peel tstab_eq; [|reflexivity|reflexivity|reflexivity]. apply tstab_scope_cancel. }
    eapply tstab_trans; [exact T1|]. destruct (g_tasks (groups s1 g)); [|apply tstab_wof].
    rewrite new_scope_eq. cbn zeta. peel tstab_block. peel tstab_eq; [|reflexivity|reflexivity|reflexivity].
    peel tstab_scope_enter. by_eq.
  - destruct (negb (group_active s g)); [peel_ret; apply tstab_refl|]. rewrite spawn_task_eq. peel_ret. apply tstab_spawned.
  - destruct (negb (group_active s g)); [peel_ret; apply tstab_refl|]. rewrite new_fut_eq. cbv beta iota.
    rewrite spawn_task_eq. cbv beta iota. peel tstab_block. peel tstab_suspend_on.
    eapply tstab_trans; [apply (tstab_nf s)|apply tstab_spawned].
  - destruct (k_startfut (tasks s t)) as [f|]; [|peel_ret; apply tstab_refl].
    destruct (f_st (futs s f)); peel_ret; try apply tstab_refl. apply tstab_fc.
  - destruct (e_set _); peel_ret; [apply tstab_refl|apply tstab_scope_cancel].
  - pose proof (tstab_event_wait s t (k_hevent (tasks s h))) as H.
    destruct (event_wait s t (k_hevent (tasks s h))) as [s1 f]. cbn [fst] in H. peel tstab_block. exact H.
  - peel tstab_block. by_eq.
  - destruct (ckif_spins _ _ _); [peel tstab_block; by_eq|peel_ret; apply tstab_refl].
  - rewrite new_scope_eq. cbn zeta. peel tstab_block. peel tstab_eq; [|reflexivity|reflexivity|reflexivity]. peel tstab_scope_enter. by_eq.
  - rewrite new_fut_eq. destruct d as [dt|].
    + rewrite call_at_eq. peel tstab_block. peel tstab_suspend_on. by_eq.
    + peel tstab_block. peel tstab_suspend_on. by_eq.
  - peel_ret. apply tstab_upd_task, keeps_held.
  - peel_ret. apply tstab_upd_task, keeps_held.
  - peel_ret. apply tstab_upd_task, keeps_held.
  - peel_ret. apply tstab_upd_task, keeps_irrel, irrel_uncancel.
  - cbn [fst]. peel tstab_set_running. apply tstab_park.
  - rewrite new_scope_eq. pose proof (tstab_scope_enter (ns s d sh) (nscope s) t) as H.
    destruct (scope_enter (ns s d sh) (nscope s) t) as [s2 e]. cbn [fst] in H. peel_ret.
    eapply tstab_trans; [|exact H]. by_eq.
Qed.

(* ---------------- operations that need the invariant (the acting task is not done, has no final outcome) ---- *)
From AV Require Import GroupInv9.

Lemma stable_rec k raw : k_final k = None -> tk_stable k (hres_of raw (tk_final (Some raw) k)).
Proof.
  intros Hf. unfold tk_stable. destruct raw; cbn;
    (refine (conj eq_refl (conj eq_refl (conj eq_refl (conj eq_refl (conj _ (conj _ _)))))); auto;
     intros o H; rewrite Hf in H; discriminate).
Qed.

Lemma stable_final k raw : k_final k = None -> tk_stable k (tk_final (Some raw) k).
Proof.
  intros Hf. unfold tk_stable. cbn.
  refine (conj eq_refl (conj eq_refl (conj eq_refl (conj eq_refl (conj _ (conj _ _)))))); auto.
  intros o H. rewrite Hf in H. discriminate.
Qed.

Lemma tstab_rec_task s t raw : k_final (tasks s t) = None -> tstab s (rec_task s t raw).
Proof.
  intros Hf. split; [cbn; lia|]. intros x _. destruct (Nat.eq_dec x t) as [->|Hx].
  - rewrite rec_task_same. apply stable_rec, Hf.
  - rewrite rec_task_other; auto. apply tk_stable_refl.
Qed.

Lemma tstab_puppet_finish s0 t v : Inv s0 -> idle s0 t = true -> tstab s0 (fst (puppet_finish s0 t v)).
Proof.
  intros I0 Hi. destruct (Run_begin s0 t I0 Hi) as [M [Hr Hf]]. pose proof (tstab_begin s0 t) as B.
  unfold puppet_finish. set (s := begin_act s0 t) in *. eapply tstab_trans; [exact B|].
  destruct (k_run s (m_k s M) t Hr) as [_ [Hd _]].
  set (raw := match k_held (tasks s t) with Some e => OExc e | None => ORet v end).
  assert (T1 : tstab s (upd_task s t (tk_final (Some raw)))).
  { split; [cbn; lia|]. intros x _. cbn [upd_task set_tasks tasks]. unfold upd.
    destruct (Nat.eqb_spec x t) as [E|E]; [rewrite E; apply stable_final, Hf|apply tk_stable_refl]. }
  destruct (k_group (tasks s t)) as [g|] eqn:Eg.
  - change (upd_task (upd_task s t (tk_final (Some raw))) t
              match raw with
              | ORet r => tk_hres None (Some r)
              | OExc e => tk_hres (Some e) None
              | OCanc e => tk_hres (Some e) None
              end) with (rec_task s t raw).
    pose proof (tstab_rec_task s t raw Hf) as T2.
    pose proof (tstab_event_set (rec_task s t raw) (k_hevent (tasks s t))) as T3.
    set (s3 := event_set (rec_task s t raw) (k_hevent (tasks s t))) in *.
    assert (Hd3 : k_done (tasks s3 t) = None).
    { unfold s3. rewrite event_set_eq. destruct (e_set _).
      - rewrite rec_task_same. destruct raw; cbn; exact Hd.
      - assert (H : forall l a, tasks (fold_left (fun a f => fut_complete a f (FRes 1)) l a) = tasks a).
        { induction l as [|f l IH]; intros a; cbn [fold_left]; [reflexivity|]. now rewrite IH, fc_tasks. }
        rewrite H. change (tasks (evset (rec_task s t raw) (k_hevent (tasks s t)))) with (tasks (rec_task s t raw)).
        rewrite rec_task_same. destruct raw; cbn; exact Hd. }
    pose proof (tstab_scope_exit s3 (k_hscope (tasks s t)) t (k_held (tasks s t))) as T4.
    pose proof (kframe_kstar _ _ _ _ (ks_scope_exit s3 (k_hscope (tasks s t)) t (k_held (tasks s t)))) as F4.
    destruct (scope_exit s3 (k_hscope (tasks s t)) t (k_held (tasks s t))) as [s4 x]. cbn [fst] in *.
    assert (Hd4 : k_done (tasks s4 t) = None).
    { pose proof (tview_inv _ _ (fr_tv _ _ _ _ F4 t)) as V. destruct V as [_ [V _]]. now rewrite V. }
    eapply tstab_trans; [exact T2|]. eapply tstab_trans; [exact T3|]. eapply tstab_trans; [exact T4|].
    destruct x; apply tstab_finish_task; exact Hd4.
  - cbn [fst]. eapply tstab_trans; [exact T1|]. apply tstab_finish_task.
    tcase t t; [cbn; exact Hd|contradiction].
Qed.

Lemma tstab_incs s0 t : tstab s0 (incs s0 t).
Proof. unfold incs. peel tstab_set_running. apply tstab_upd_task. apply keeps_simple. intros k. cbn. tauto. Qed.

Lemma tstab_event_unwait s e fo : tstab s (event_unwait s e fo).
Proof. destruct fo; by_eq. Qed.

Lemma tstab_resume s0 t fo : wake_ok s0 t fo -> tstab s0 (fst (resume s0 t fo)).
Proof.
  intros W. pose proof (Run_incs s0 t fo W) as [M [Hr Hf]].
  destruct (k_run _ (m_k _ M) t Hr) as [_ [Hd _]].
  rewrite resume_unfold. cbn zeta. pose proof (tstab_incs s0 t) as B.
  set (s := incs s0 t) in *. set (inc := snd (incoming s0 t fo)).
  destruct (k_ctl (tasks s0 t)) as [| |k|f tm|g ws exc|g c exc|g child f|child c e wf|h wf|]; try apply tstab_refl;
    (eapply tstab_trans; [exact B|]).
  - destruct inc as [e|]; cbn [fst].
    + peel tstab_finish_task; [apply tstab_upd_task, keeps_started|]. tcase t t; [cbn; exact Hd|contradiction].
    + peel tstab_set_running. peel tstab_park.
      destruct (k_group (tasks (upd_task s t (tk_started true)) t)).
      * peel tstab_scope_enter. apply tstab_upd_task, keeps_started.
      * apply tstab_upd_task, keeps_started.
  - cbn [fst]. peel tstab_set_running. peel tstab_park. destruct inc; [apply tstab_upd_task, keeps_held|apply tstab_refl].
  - destruct k as [| |c].
    + apply tstab_ret.
    + destruct inc; [apply tstab_ret|]. destruct (ckif_spins _ _ _); [by_eq|apply tstab_ret].
    + pose proof (tstab_scope_exit s c t inc) as H. destruct (scope_exit s c t inc) as [s1 x]. cbn [fst] in H.
      destruct x; peel_ret; exact H.
  - peel_ret. by_eq.
  - destruct inc as [e|].
    + peel tstab_wof. peel tstab_scope_cancel. by_eq.
    + peel tstab_wof. by_eq.
  - pose proof (tstab_scope_exit s c t inc) as H. destruct (scope_exit s c t inc) as [s1 x]. cbn [fst] in H.
    eapply tstab_trans; [exact H|].
    destruct x.
    + apply tstab_wof.
    + destruct inc as [e|]; [|apply tstab_wof]. destruct (is_cancel e).
      * peel tstab_wof. apply tstab_scope_cancel.
      * apply tstab_ret_pair, tstab_aexit_raise.
    + apply tstab_ret_pair, tstab_aexit_raise.
  - destruct inc as [e|]; [|apply tstab_ret].
    destruct (handle_pending s child); [|apply tstab_ret].
    rewrite new_scope_eq. cbn zeta.
    match goal with |- context [event_wait ?a ?b ?c] => pose proof (tstab_event_wait a b c) as H;
      destruct (event_wait a b c) as [s4 wf] end.
    cbn [fst] in H. peel tstab_block. eapply tstab_trans; [|exact H]. peel tstab_scope_enter.
    peel tstab_eq; [|reflexivity|reflexivity|reflexivity]. apply tstab_scope_cancel.
  - match goal with |- context [scope_exit ?a ?b ?c ?d] => pose proof (tstab_scope_exit a b c d) as H;
      destruct (scope_exit a b c d) as [s2 x] end.
    cbn [fst] in H. assert (H2 : tstab s s2) by (eapply tstab_trans; [apply tstab_event_unwait|exact H]).
    destruct x; [|destruct inc|]; peel_ret; exact H2.
  - peel_ret. apply tstab_event_unwait.
Qed.

Lemma tstab_run_task_done s0 t : tstab s0 (run_task_done s0 t).
Proof.
  rewrite run_task_done_eq. cbn zeta. set (s := set_running s0 None).
  assert (B : tstab s0 s) by by_eq. eapply tstab_trans; [exact B|].
  change (tasks s t) with (tasks s0 t).
  destruct (k_group (tasks s0 t)) as [g|]; [|apply tstab_refl].
  set (s1 := match k_cur (tasks s0 t) with Some c => _ | None => _ end).
  assert (T1 : tstab s s1) by (unfold s1; destruct (k_cur (tasks s0 t)); [by_eq|apply tstab_refl]).
  set (s3 := tdcore s1 t g).
  assert (T3 : tstab s1 s3).
  { unfold s3, tdcore. peel tstab_upd_task; [by_eq|]. intros k. unfold tk_stable, td_rec. cbn. tauto. }
  set (s4 := match g_fut (groups s3 g) with Some f => _ | None => _ end).
  assert (T4 : tstab s3 s4).
  { unfold s4. destruct (g_fut (groups s3 g)); [|apply tstab_refl]. destruct (g_tasks (groups s3 g)); [apply tstab_fc|apply tstab_refl]. }
  assert (T : tstab s s4) by (eapply tstab_trans; [exact T1|]; eapply tstab_trans; [exact T3|exact T4]).
  eapply tstab_trans; [exact T|].
  assert (Hc : forall s5, tstab s5 (if eff_cancelled s5 (g_scope (groups s5 g)) then s5
                                   else scope_cancel s5 (g_scope (groups s5 g)) false)).
  { intros s5. destruct (eff_cancelled s5 _); [apply tstab_refl|apply tstab_scope_cancel]. }
  assert (Hsc : forall s5, tstab s5 (scope_cancel s5 (g_scope (groups s5 g)) false)) by (intros s5; apply tstab_scope_cancel).
  assert (Ha : forall e, tstab s4 (upd_group s4 g (add_exc t e))) by (intros e; by_eq).
  destruct (k_done (tasks s0 t)) as [[v|e|e]|].
  - destruct (k_startfut (tasks s0 t)) as [f|]; [|apply tstab_refl].
    destruct (f_st (futs s4 f)); try apply tstab_refl. apply tstab_fc.
  - destruct (k_startfut (tasks s0 t)) as [f|].
    + destruct (f_st (futs s4 f)).
      * apply tstab_fc.
      * destruct (is_cancel e); [apply Hc|]. eapply tstab_trans; [apply Ha|apply Hsc].
      * destruct (is_cancel e); [apply Hc|]. eapply tstab_trans; [apply Ha|apply Hsc].
      * destruct (is_cancel e); [apply tstab_refl|]. eapply tstab_trans; [apply Ha|apply Hsc].
    + destruct (is_cancel e); [apply Hc|]. eapply tstab_trans; [apply Ha|apply Hsc].
  - destruct (k_startfut (tasks s0 t)) as [f|].
    + destruct (f_st (futs s4 f)).
      * apply tstab_fc.
      * destruct (is_cancel e); [apply Hc|]. eapply tstab_trans; [apply Ha|apply Hsc].
      * destruct (is_cancel e); [apply Hc|]. eapply tstab_trans; [apply Ha|apply Hsc].
      * destruct (is_cancel e); [apply tstab_refl|]. eapply tstab_trans; [apply Ha|apply Hsc].
    + destruct (is_cancel e); [apply Hc|]. eapply tstab_trans; [apply Ha|apply Hsc].
  - destruct (k_startfut (tasks s0 t)) as [f|]; [|apply tstab_refl].
    destruct (f_st (futs s4 f)); try apply tstab_refl. apply tstab_fc.
Qed.

Lemma tstab_new_root s : tstab s (fst (new_root s)).
Proof.
  unfold new_root. cbn [fst]. peel tstab_set_running. peel tstab_park.
  apply (tstab_talloc s root_rec false).
Qed.

Lemma GroupThms3_wake_step s t : Inv s -> In (HStep t) (ready s) -> wake_ok (pop s (HStep t)) t None.
Proof.
  intros [M Hr] Hin. destruct (M_pop s (HStep t) M Hin) as [M1 [Hnt _]].
  destruct (k_step s (m_k s M) t Hin) as [H1 [H2 [H3 H4]]].
  constructor; auto. apply Hnt. cbn. auto.
Qed.

Lemma GroupThms3_wake_wake s t f : Inv s -> In (HWake t f) (ready s) -> wake_ok (pop s (HWake t f)) t (Some f).
Proof.
  intros [M Hr] Hin. destruct (M_pop s (HWake t f) M Hin) as [M1 [Hnt _]].
  destruct (k_wake s (m_k s M) t f Hin) as [H1 H2]. destruct (k_w1 s (m_k s M) t f H1) as [H3 [H4 [H5 [H6 H7]]]].
  constructor; auto. apply Hnt. cbn. auto.
Qed.

(* C01: stability. For every already allocated task: its group, handle scope, finished event and start future
   never change; once done / task_done-ran / coroutine-ended, always so (with the same outcome) *)
Theorem task_facts_stable s o : reach s -> tstab s (fst (step s o)).
Proof.
  intros R. pose proof (reachable s R) as I0. unfold step. destruct (actor o) as [t|] eqn:Ea.
  - destruct (idle s t) eqn:Ei; cbn [negb]; [|apply tstab_refl].
    destruct o; try apply tstab_puppet_op. apply tstab_puppet_finish; assumption.
  - destruct o; try apply tstab_refl.
    + apply tstab_new_root.
    + cbn [fst]. apply (tstab_kstar _ _ _ _ (ks_one _ _ _ _ (kp_cancel none_s none_t s t 0))).
    + cbn [fst]. peel tstab_set_running. peel tstab_scope_cancel. by_eq.
    + unfold run_handle. destruct (existsb (handle_eqb h) (ready s)) eqn:Eh; cbn [negb]; [|apply tstab_refl].
      apply existsb_handle in Eh. rewrite pop_eq_frame.
      assert (P : tstab s (pop s h)) by by_eq. eapply tstab_trans; [exact P|].
      destruct h as [t|t f|c|t|f tm|c tm].
      * apply tstab_resume, GroupThms3_wake_step; assumption.
      * apply tstab_resume, GroupThms3_wake_wake; assumption.
      * cbn [fst]. peel tstab_set_running. peel tstab_deliver_top. by_eq.
      * cbn [fst]. apply tstab_run_task_done.
      * cbn [fst]. apply tstab_fc.
      * cbn [fst]. peel tstab_set_running. peel tstab_scope_timeout. by_eq.
    + destruct (Z.ltb dt 0); [apply tstab_refl|by_eq].
Qed.
