(* C02 (pure part): BaseExceptionGroup.split(is_anyio_cancellation) as modelled by Machine.split_exn
   partitions the leaves of an exception tree, keeping their order. No machine state is involved. *)
From AV Require Import Base Machine.
From Coq Require Import Permutation.

(* induction principle for the nested inductive exn *)
Lemma exn_ind_nested (P : exn -> Prop)
  (Hc : forall o, P (ECancel o)) (He : forall n, P (EErr n)) (Hr : P ERuntime) (Ht : P ETimeout)
  (Hg : forall l, Forall P l -> P (EGroup l)) : forall e, P e.
Proof.
  fix IH 1. intros e. destruct e as [o|n| | |l].
  - apply Hc.
  - apply He.
  - apply Hr.
  - apply Ht.
  - apply Hg. induction l as [|x r IHr]; constructor; [apply IH|exact IHr].
Qed.

Definition oleaves (o : option exn) : list exn :=
  match o with Some e => leaves e | None => [] end.

Definition not_anyio_cancel (e : exn) : bool := negb (is_anyio_cancel e).

Lemma flat_map_somes {A} (f : A -> list exn) (g : exn -> option A) l :
  flat_map f (somes (map g l)) = flat_map (fun e => match g e with Some x => f x | None => [] end) l.
Proof.
  induction l as [|x r IH]; cbn; [reflexivity|].
  destruct (g x); cbn; now rewrite IH.
Qed.

Lemma filter_flat_map {A B} (p : B -> bool) (f : A -> list B) l :
  filter p (flat_map f l) = flat_map (fun x => filter p (f x)) l.
Proof.
  induction l as [|x r IH]; cbn; [reflexivity|]. now rewrite filter_app, IH.
Qed.

Lemma flat_map_ext_Forall {A B} (f g : A -> list B) l :
  Forall (fun x => f x = g x) l -> flat_map f l = flat_map g l.
Proof. induction 1 as [|x r Hx _ IH]; cbn; [reflexivity|]. now rewrite Hx, IH. Qed.

Lemma oleaves_group (m : list exn) :
  oleaves (match m with [] => None | _ => Some (EGroup m) end) = flat_map leaves m.
Proof. destruct m; reflexivity. Qed.

Theorem split_exn_leaves (e : exn) :
  oleaves (fst (split_exn e)) = filter is_anyio_cancel (leaves e) /\
  oleaves (snd (split_exn e)) = filter not_anyio_cancel (leaves e).
Proof.
  induction e as [o|n| | |l IH] using exn_ind_nested.
  - destruct o; cbn; auto.
  - cbn; auto.
  - cbn; auto.
  - cbn; auto.
  - cbn [split_exn fst snd]. rewrite !oleaves_group. cbn [leaves].
    rewrite !map_map, !filter_flat_map.
    rewrite (flat_map_somes leaves (fun x => fst (split_exn x))).
    rewrite (flat_map_somes leaves (fun x => snd (split_exn x))).
    split; apply flat_map_ext_Forall; eapply Forall_impl; [| exact IH | | exact IH]; cbn.
    + intros a [H _]. exact H.
    + intros a [_ H]. exact H.
Qed.

Lemma filter_partition_perm {A} (p : A -> bool) l :
  Permutation l (filter p l ++ filter (fun x => negb (p x)) l).
Proof.
  induction l as [|x r IH]; cbn; [constructor|].
  destruct (p x); cbn.
  - now constructor.
  - now apply Permutation_cons_app.
Qed.

(* the C02 clause: matched ++ rest is a rearrangement of the leaves that keeps the relative order inside each
   part; every matched leaf is an AnyIO cancellation, no rest leaf is *)
Theorem split_exn_partitions_leaves (e : exn) :
  let m := oleaves (fst (split_exn e)) in
  let r := oleaves (snd (split_exn e)) in
  Permutation (leaves e) (m ++ r) /\
  m = filter is_anyio_cancel (leaves e) /\
  r = filter not_anyio_cancel (leaves e) /\
  (forall x, In x m -> is_anyio_cancel x = true) /\
  (forall x, In x r -> is_anyio_cancel x = false).
Proof.
  cbn zeta. destruct (split_exn_leaves e) as [Hm Hr]. rewrite Hm, Hr.
  refine (conj _ (conj eq_refl (conj eq_refl (conj _ _)))).
  - apply filter_partition_perm.
  - intros x Hx. apply filter_In in Hx. tauto.
  - intros x Hx. apply filter_In in Hx. destruct Hx as [_ Hx]. unfold not_anyio_cancel in Hx.
    now destruct (is_anyio_cancel x).
Qed.

(* nothing is matched <-> no leaf is an AnyIO cancellation (the `(None, _)` branch of scope_exit) *)
Lemma leaves_group_free (e : exn) : forall x, In x (leaves e) -> forall l, x <> EGroup l.
Proof.
  induction e as [o|n| | |l IH] using exn_ind_nested; cbn.
  1-4: intros x [<-|[]] l'; discriminate.
  intros x Hx. apply in_flat_map in Hx. destruct Hx as [y [Hy Hx]].
  rewrite Forall_forall in IH. exact (IH y Hy x Hx).
Qed.

Example ex_split :
  split_exn (EGroup [ECancel 3; EErr 1; EGroup [ECancel 0; ECancel 2; EGroup []]; ETimeout]) =
  (Some (EGroup [ECancel 3; EGroup [ECancel 2]]), Some (EGroup [EErr 1; EGroup [ECancel 0]; ETimeout])).
Proof. vm_compute. reflexivity. Qed.

(* ---- C07: a second started() (definition-level facts about one step; no invariant needed) ---- *)

Lemma ret_to_puppet_snd s t r : snd (ret_to_puppet s t r) = r.
Proof. reflexivity. Qed.

Lemma begin_act_task s t x :
  tasks (begin_act s t) x = if Nat.eqb x t then tk_waiter None (tasks s t) else tasks s x.
Proof. unfold begin_act, upd_task, set_tasks, set_running, upd; cbn. reflexivity. Qed.

Lemma begin_act_futs s t : futs (begin_act s t) = futs s.
Proof. reflexivity. Qed.

(* started() on a task whose start future already holds a value or an exception raises RuntimeError; if the
   future was cancelled (the caller of start() was cancelled in the meantime) the call is a silent no-op; on a
   pending future it returns normally (and stores the value: see GroupThms.started_sets_value) *)
Theorem second_started_result s t v f :
  idle s t = true -> k_startfut (tasks s t) = Some f ->
  snd (step s (AStarted t v)) =
  match f_st (futs s f) with
  | FPend => RRet 0
  | FRes _ | FExc _ => RExc ERuntime
  | FCanc _ => RRet 0
  end.
Proof.
  intros Hi Hf. cbn [step actor]. rewrite Hi. cbn [negb]. unfold puppet_op.
  rewrite begin_act_task, Nat.eqb_refl. cbn [k_startfut tk_waiter]. rewrite Hf.
  rewrite begin_act_futs.
  destruct (f_st (futs s f)) eqn:E; reflexivity.
Qed.
