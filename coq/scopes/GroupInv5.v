(* More building blocks: exception list, sleep timers, clock ticks, popping a handle, allocation of groups,
   root tasks and group children. *)
From AV Require Import Base Machine GroupInv GroupInv2 GroupInv3 GroupInv4.

(* K, C and J do not look at groups except for g_fut *)
Lemma KCJ_upd_group s g h : (forall x, g_fut (h x) = g_fut x) ->
  (KInv s -> KInv (upd_group s g h)) /\ (CInv s -> CInv (upd_group s g h)) /\ (JInv s -> JInv (upd_group s g h)).
Proof.
  intros Hh.
  assert (V : forall x, g_fut (groups (upd_group s g h) x) = g_fut (groups s x)).
  { intros x. cbn [upd_group set_groups groups]. unfold upd. destruct (Nat.eqb_spec x g); [subst; apply Hh|auto]. }
  refine (conj _ (conj _ _)).
  - apply KInv_mono_refd; try reflexivity; auto.
    apply refd_mono; auto.
    + intros x f H. exists x. now rewrite <- V.
    + intros c f H. exists c. exact H.
  - apply C_ext; try reflexivity; auto.
  - apply J_ext; try reflexivity; auto.
Qed.

Definition add_exc (tag : nat) (e : exn) (x : group) : group := gr_excs (g_excs x ++ [(tag, e)]) x.

Lemma add_exc_groups s g tag e x :
  g_tasks (groups (upd_group s g (add_exc tag e)) x) = g_tasks (groups s x) /\
  g_ever (groups (upd_group s g (add_exc tag e)) x) = g_ever (groups s x) /\
  g_scope (groups (upd_group s g (add_exc tag e)) x) = g_scope (groups s x) /\
  g_fut (groups (upd_group s g (add_exc tag e)) x) = g_fut (groups s x) /\
  g_excs (groups (upd_group s g (add_exc tag e)) x) =
    if Nat.eqb x g then g_excs (groups s x) ++ [(tag, e)] else g_excs (groups s x).
Proof.
  cbn [upd_group set_groups groups]. unfold upd. destruct (Nat.eqb x g) eqn:E; [|tauto].
  apply Nat.eqb_eq in E. subst. cbn. tauto.
Qed.

Lemma filter_nzb_app l tag : filter nzb (l ++ [tag]) = filter nzb l ++ (if nzb tag then [tag] else []).
Proof. rewrite filter_app. cbn. destruct (nzb tag); reflexivity. Qed.

(* the body exception of __aexit__ *)
Lemma M_add_exc_body s g e : MInv s -> is_cancel e = false -> MInv (upd_group s g (add_exc 0 e)).
Proof.
  intros [K Ci G J] He. pose proof (add_exc_groups s g 0 e) as V.
  destruct (KCJ_upd_group s g (add_exc 0 e)) as [HK [HC HJ]]; [intros x; reflexivity|].
  constructor; auto.
  constructor; unfold alloc; change (tasks (upd_group s g (add_exc 0 e))) with (tasks s);
    change (futs (upd_group s g (add_exc 0 e))) with (futs s);
    change (ntask (upd_group s g (add_exc 0 e))) with (ntask s);
    change (nscope (upd_group s g (add_exc 0 e))) with (nscope s);
    change (nfut (upd_group s g (add_exc 0 e))) with (nfut s).
  - intros x t. destruct (V x) as [-> [-> _]]. apply (g_mem s G x t).
  - intros x t. destruct (V x) as [_ [-> _]]. apply (g_grp s G x t).
  - intros x t y. destruct (V x) as [_ [_ [_ [_ ->]]]]. destruct (Nat.eqb x g); [|apply (x_tags s G x t y)].
    rewrite in_app_iff. intros [H|[H|[]]] Ht; [apply (x_tags s G x t y H Ht)|]. injection H as <- _. contradiction.
  - intros x y. destruct (V x) as [_ [_ [_ [_ ->]]]]. destruct (Nat.eqb x g); [|apply (x_zero s G x y)].
    rewrite in_app_iff. intros [H|[H|[]]]; [apply (x_zero s G x y H)|]. injection H as <-. exact He.
  - intros x. destruct (V x) as [_ [_ [_ [_ ->]]]]. destruct (Nat.eqb x g); [|apply (x_nd s G x)].
    rewrite map_app. cbn [map fst]. rewrite filter_nzb_app. cbn [nzb Nat.eqb negb]. rewrite app_nil_r. apply (x_nd s G x).
  - intros x t y. destruct (V x) as [_ [-> [_ [_ ->]]]]. intros H1 H2 H3.
    destruct (x_conv s G x t y H1 H2 H3) as [H|H]; [left|right; exact H].
    destruct (Nat.eqb x g); [apply in_app_iff; auto|exact H].
  - intros x. destruct (V x) as [_ [_ [-> _]]]. apply (b_gscope s G x).
  - apply (b_sf s G).
Qed.

(* ---------------- sleep timers ---------------- *)
Definition casl (s : st) (w : Z) (f : fid) : st := fst (call_at s w (TSleep f)).

Lemma call_at_eq s w f : call_at s w (TSleep f) = (casl s w f, ntimer s).
Proof. reflexivity. Qed.

Lemma sleepref_casl s w f x : sleepref (casl s w f) x -> sleepref s x \/ x = f.
Proof.
  intros [[tm H]|[y [H1 H2]]]; [left; left; eauto|].
  unfold casl, call_at in H1. cbn [fst timers] in H1. rewrite in_app_iff in H1.
  destruct H1 as [H1|[<-|[]]]; [left; right; eauto|]. cbn in H2. injection H2 as ->. right. reflexivity.
Qed.

Lemma M_casl s w f : MInv s -> fresh s f -> MInv (casl s w f).
Proof.
  intros [K Ci G J] Hfr. destruct (fresh_not_ref s f Hfr) as [N1 [N2 [N3 N4]]].
  constructor.
  - revert K. apply (K_add_ref s _ f); try reflexivity; auto.
    intros x [[y H]|[[y H]|[[c H]|H]]].
    + left. left. eauto.
    + left. right; left. eauto.
    + left. right; right; left. eauto.
    + apply sleepref_casl in H. destruct H as [H|H]; [left; right; right; right; exact H|right; exact H].
  - revert Ci. apply C_ext; try reflexivity; auto.
  - revert G. apply G_ext; try reflexivity; auto.
  - constructor; change (tasks (casl s w f)) with (tasks s); change (events (casl s w f)) with (events s);
      change (running (casl s w f)) with (running s); change (futs (casl s w f)) with (futs s);
      change (groups (casl s w f)) with (groups s); try apply J.
    + intros y e H Hs. apply sleepref_casl in Hs. destruct Hs as [Hs| ->]; [exact (kk_et s J y e H Hs)|exact (N1 e H)].
    + intros y c H Hs. apply sleepref_casl in Hs. destruct Hs as [Hs| ->]; [exact (kk_st s J y c H Hs)|exact (N3 c H)].
Qed.

(* ---------------- the clock advances ---------------- *)
Lemma in_insert_timer x y l : In y (insert_timer x l) <-> y = x \/ In y l.
Proof.
  induction l as [|z l IH]; cbn; [intuition|].
  destruct (Z.ltb (tm_when x) (tm_when z)); cbn; [intuition|]. rewrite IH. intuition.
Qed.

Lemma in_sort_timers_acc l : forall acc y, In y (fold_left (fun a x => insert_timer x a) l acc) <-> In y l \/ In y acc.
Proof.
  induction l as [|x l IH]; intros acc y; cbn [fold_left]; [cbn; intuition|].
  rewrite IH, in_insert_timer. cbn. intuition.
Qed.

Lemma in_sort_timers l y : In y (sort_timers l) <-> In y l.
Proof. unfold sort_timers. rewrite in_sort_timers_acc. cbn. intuition. Qed.

Lemma timer_handles_th l : thtasks (map handle_of_timer l) = [] /\ tdtasks (map handle_of_timer l) = [].
Proof.
  induction l as [|x l [IH1 IH2]]; [auto|]. cbn [map]. rewrite thtasks_cons, tdtasks_cons, IH1, IH2.
  unfold handle_of_timer. destruct (tm_what x); auto.
Qed.

Lemma M_tick s dt : MInv s -> MInv (tick s dt).
Proof.
  intros [K Ci G J].
  set (due := filter (fun x => Z.leb (tm_when x) (now s + dt)) (timers s)).
  assert (Er : ready (tick s dt) = ready s ++ map handle_of_timer (sort_timers due)) by reflexivity.
  assert (Hin : forall h, In h (ready (tick s dt)) -> In h (ready s) \/
                 exists x, In x (timers s) /\ h = handle_of_timer x).
  { intros h. rewrite Er, in_app_iff. intros [H|H]; [auto|]. right. apply in_map_iff in H.
    destruct H as [x [<- Hx]]. exists x. apply (proj1 (in_sort_timers _ _)) in Hx. apply filter_In in Hx. tauto. }
  assert (Hsl : forall f, sleepref (tick s dt) f -> sleepref s f).
  { intros f [[tm H]|[x [H1 H2]]].
    - apply Hin in H. destruct H as [H|[x [H1 H2]]]; [left; eauto|]. right. exists x. split; [exact H1|].
      unfold handle_of_timer in H2. destruct (tm_what x); [injection H2 as -> _; reflexivity|discriminate].
    - right. exists x. split; [|exact H2]. cbn [tick timers set_ready set_timers set_now] in H1.
      apply filter_In in H1. tauto. }
  destruct (timer_handles_th (sort_timers due)) as [T1 T2].
  constructor.
  - revert K. apply KInv_mono_refd; try reflexivity; auto.
    + apply refd_mono; auto.
      * intros g f H. exists g. exact H.
      * intros c f H. exists c. exact H.
    + now rewrite Er, thtasks_app, T1, app_nil_r.
    + now rewrite Er, tdtasks_app, T2, app_nil_r.
    + intros h Hh H. apply Hin in H. destruct H as [H|[x [_ ->]]]; [exact H|].
      unfold handle_of_timer in Hh. destruct (tm_what x); discriminate.
  - revert Ci. apply C_ext; try reflexivity; auto.
  - revert G. apply G_ext; try reflexivity; auto.
  - revert J. apply J_ext; try reflexivity; auto.
Qed.

(* ---------------- popping a handle from the ready queue ---------------- *)
Definition pop (s : st) (h : handle) : st := set_ready s (remove_first h (ready s)).

Lemma M_pop s h : MInv s -> In h (ready s) ->
  MInv (pop s h) /\ (forall t, In t (th_task h) -> ~ In t (thtasks (ready (pop s h)))) /\
  (forall x, In x (ready (pop s h)) -> In x (ready s)).
Proof.
  intros [K Ci G J] Hin. destruct (remove_first_split h (ready s) Hin) as [l1 [l2 [E1 E2]]].
  assert (Er : ready (pop s h) = l1 ++ l2) by (unfold pop; cbn; exact E2).
  assert (Hsub : forall x, In x (ready (pop s h)) -> In x (ready s)).
  { intros x. rewrite Er, E1, !in_app_iff. cbn. tauto. }
  assert (Nd : NoDup (thtasks l1 ++ th_task h ++ thtasks l2)).
  { pose proof (k_nodup s K) as H. now rewrite E1, thtasks_app, thtasks_cons in H. }
  assert (Nd2 : NoDup (tdtasks l1 ++ td_task h ++ tdtasks l2)).
  { pose proof (k_tdnodup s K) as H. now rewrite E1, tdtasks_app, tdtasks_cons in H. }
  assert (Hsl : forall f, sleepref (pop s h) f -> sleepref s f).
  { intros f [[tm H]|H]; [left; exists tm; auto|right; exact H]. }
  assert (Hrefd : forall f, refd (pop s h) f -> refd s f).
  { apply refd_mono; auto.
    - intros g f H. exists g. exact H.
    - intros c f H. exists c. exact H. }
  refine (conj _ (conj _ Hsub)).
  - constructor.
    + constructor; unfold alloc; change (tasks (pop s h)) with (tasks s); change (futs (pop s h)) with (futs s);
        change (running (pop s h)) with (running s); change (ntask (pop s h)) with (ntask s);
        change (nfut (pop s h)) with (nfut s).
      * rewrite Er, thtasks_app. eapply NoDup_app_remove_mid. exact Nd.
      * rewrite Er, tdtasks_app. eapply NoDup_app_remove_mid. exact Nd2.
      * intros t f H. apply (k_wake s K t f), Hsub, H.
      * intros t H. apply (k_step s K t), Hsub, H.
      * apply (k_w1 s K).
      * intros t f H1 H2 H3. apply (k_pend s K t f H1 H2). rewrite E1, thtasks_app, thtasks_cons, !in_app_iff.
        rewrite Er, thtasks_app, in_app_iff in H3. tauto.
      * intros t H. destruct (k_run s K t H) as [H1 H2]. split; [|exact H2]. intros H3. apply H1.
        rewrite E1, thtasks_app, thtasks_cons, !in_app_iff. rewrite Er, thtasks_app, in_app_iff in H3. tauto.
      * intros t H. apply (k_td s K t), Hsub, H.
      * intros f H. apply Hrefd in H. apply (k_ref s K f H).
      * intros t f H1 H2 H3. apply Hrefd in H3. apply (k_idle s K t f H1 H2 H3).
    + revert Ci. apply C_ext; try reflexivity; auto.
    + revert G. apply G_ext; try reflexivity; auto.
    + revert J. apply J_ext; try reflexivity; auto.
  - intros t Ht. rewrite Er, thtasks_app, in_app_iff. intros H3.
    destruct h; cbn in Ht; try contradiction; destruct Ht as [<-|[]]; cbn in Nd;
      apply NoDup_remove_2 in Nd; apply Nd; rewrite in_app_iff; tauto.
Qed.

(* ---------------- allocation of a group record ---------------- *)
Definition galloc (s1 : st) (c : sid) : st :=
  mkSt (tasks s1) (ntask s1) (scopes s1) (nscope s1)
       (upd (groups s1) (ngroup s1) (mkGroup c false [] [] None [] false)) (S (ngroup s1))
       (futs s1) (nfut s1) (events s1) (nevent s1) (ready s1) (timers s1) (ntimer s1) (now s1) (running s1).

Lemma M_galloc s c : MInv s -> c < nscope s -> MInv (galloc s c).
Proof.
  intros [K Ci G J] Hc.
  assert (V : forall x, groups (galloc s c) x = if Nat.eqb x (ngroup s) then mkGroup c false [] [] None [] false
                                                else groups s x).
  { intros x. reflexivity. }
  constructor.
  - revert K. apply KInv_mono_refd; try reflexivity; auto.
    apply refd_mono; auto.
    + intros x f. rewrite V. destruct (Nat.eqb x (ngroup s)); [discriminate|eauto].
    + intros x f H. exists x. exact H.
  - revert Ci. apply C_ext; try reflexivity; auto.
  - constructor; unfold alloc; change (tasks (galloc s c)) with (tasks s); change (futs (galloc s c)) with (futs s);
      change (ntask (galloc s c)) with (ntask s); change (nscope (galloc s c)) with (nscope s);
      change (nfut (galloc s c)) with (nfut s).
    + intros x t. rewrite V. destruct (Nat.eqb x (ngroup s)); [cbn; tauto|apply (g_mem s G x t)].
    + intros x t. rewrite V. destruct (Nat.eqb x (ngroup s)); [cbn; tauto|apply (g_grp s G x t)].
    + intros x t e. rewrite V. destruct (Nat.eqb x (ngroup s)); [cbn; tauto|apply (x_tags s G x t e)].
    + intros x e. rewrite V. destruct (Nat.eqb x (ngroup s)); [cbn; tauto|apply (x_zero s G x e)].
    + intros x. rewrite V. destruct (Nat.eqb x (ngroup s)); [cbn; constructor|apply (x_nd s G x)].
    + intros x t e. rewrite V. destruct (Nat.eqb x (ngroup s)); [cbn; tauto|apply (x_conv s G x t e)].
    + intros x. rewrite V. destruct (Nat.eqb x (ngroup s)); [cbn; exact Hc|apply (b_gscope s G x)].
    + apply (b_sf s G).
  - constructor; change (tasks (galloc s c)) with (tasks s); change (futs (galloc s c)) with (futs s);
      change (events (galloc s c)) with (events s); change (running (galloc s c)) with (running s); try apply J.
    + intros f e x H. rewrite V. destruct (Nat.eqb x (ngroup s)); [discriminate|apply (kk_eg s J f e x H)].
    + intros f y x H. rewrite V. destruct (Nat.eqb x (ngroup s)); [discriminate|apply (kk_sg s J f y x H)].
Qed.

(* ---------------- allocation of a task record ---------------- *)
Definition root_rec : task :=
  mkTask CIdle true None None false 0 0 None None None 0 0 None None None None false.

Definition child_rec (gs : sid) (g : gid) (hs : sid) (e : eid) (startf : option fid) : task :=
  mkTask CNew false None None false 0 0 (Some gs) None (Some g) hs e None None startf None false.

(* a new task record k at index ntask; for children also a fresh event at index nevent *)
Definition talloc (s1 : st) (k : task) (ev : bool) : st :=
  mkSt (upd (tasks s1) (ntask s1) k) (S (ntask s1)) (scopes s1) (nscope s1) (groups s1) (ngroup s1) (futs s1)
       (nfut s1) (if ev then upd (events s1) (nevent s1) event0 else events s1)
       (if ev then S (nevent s1) else nevent s1) (ready s1) (timers s1) (ntimer s1) (now s1) (running s1).

Definition newtask_ok (s : st) (k : task) (ev : bool) : Prop :=
  k_done k = None /\ k_waiter k = None /\ k_tdran k = false /\ k_final k = None /\ k_hexc k = None /\
  k_hret k = None /\ k_ctl k <> CDone /\ top_scope (k_ctl k) = None /\
  (forall g ch f, k_ctl k <> CStartWait g ch f) /\ (forall ch c e wf, k_ctl k <> CStartJoin ch c e wf) /\
  ctl_waiter (k_ctl k) None /\ k_hscope k < nscope s /\
  (match k_startfut k with Some f => fresh s f | None => True end) /\
  (if ev then k_hevent k = nevent s /\ k_group k <> None else k_hevent k = 0 /\ k_group k = None).

Lemma thtasks_alloc s t : KInv s -> In t (thtasks (ready s)) -> alloc s t.
Proof.
  intros K H. apply in_thtasks in H. destruct H as [H|[f H]].
  - apply (k_step s K t H).
  - destruct (k_wake s K t f H) as [H1 _]. apply (k_w1 s K t f H1).
Qed.

Lemma M_talloc s k ev : MInv s -> newtask_ok s k ev ->
  MInv (talloc s k ev).
Proof.
  intros [K Ci G J] [O1 [O2 [O3 [O4 [O5 [O6 [O7 [O8 [O9 [O10 [O11 [O12 [O13 O14]]]]]]]]]]]]].
  set (t := ntask s). set (s' := talloc s k ev).
  assert (Vo : forall x, x <> t -> tasks s' x = tasks s x).
  { intros x Hx. unfold s', talloc. cbn [tasks]. now apply upd_other. }
  assert (Vt : tasks s' t = k).
  { unfold s', talloc. cbn [tasks]. apply upd_same. }
  assert (Hal : forall x, alloc s x -> x <> t) by (unfold alloc, t; intros x H; lia).
  assert (Hal2 : forall x, alloc s x -> alloc s' x) by (unfold alloc, s', talloc; cbn; intros x H; lia).
  assert (Halt : alloc s' t).
  { unfold alloc, s', talloc, t. cbn. pose proof (c_n s Ci). lia. }
  assert (Hrun : running s <> Some t).
  { intros H. apply (k_run s K t) in H. destruct H as [_ [_ H]]. apply Hal in H. contradiction. }
  assert (Ew : forall e f, In f (e_waiters (events s' e)) -> In f (e_waiters (events s e))).
  { intros e f. unfold s', talloc. cbn [events]. destruct ev; [|auto]. unfold upd.
    destruct (Nat.eqb e (nevent s)); [cbn; tauto|auto]. }
  assert (Es : forall e, e < nevent s -> events s' e = events s e).
  { intros e He. unfold s', talloc. cbn [events]. destruct ev; [|auto]. apply upd_other. lia. }
  assert (Hsf : forall c f, k_startfut (tasks s' c) = Some f ->
            k_startfut (tasks s c) = Some f \/ (c = t /\ k_startfut k = Some f)).
  { intros c f. destruct (Nat.eq_dec c t) as [->|Hc]; [rewrite Vt; auto|rewrite (Vo c Hc); auto]. }
  assert (Hfresh : forall f, k_startfut k = Some f -> fresh s f) by (intros f E; now rewrite E in O13).
  assert (Hrefd : forall f, refd s' f -> refd s f \/ k_startfut k = Some f).
  { intros f [[e H]|[[g H]|[[c H]|H]]].
    - left. left. exists e. apply Ew, H.
    - left. right; left. eauto.
    - apply Hsf in H. destruct H as [H|[_ H]]; [left; right; right; left; eauto|auto].
    - left. right; right; right. exact H. }
  constructor.
  - constructor; change (ready s') with (ready s); change (futs s') with (futs s); change (nfut s') with (nfut s);
      change (running s') with (running s).
    + apply K.
    + apply K.
    + intros x f H. destruct (k_wake s K x f H) as [H1 H2]. rewrite Vo; [auto|]. apply Hal, (k_w1 s K x f H1).
    + intros x H. destruct (k_step s K x H) as [H1 [H2 [H3 H4]]]. rewrite Vo; [|auto].
      exact (conj H1 (conj H2 (conj H3 (Hal2 x H4)))).
    + intros x f. destruct (Nat.eq_dec x t) as [->|Hx]; [rewrite Vt, O2; discriminate|].
      rewrite (Vo x Hx). intros H. destruct (k_w1 s K x f H) as [H1 [H2 [H3 [H4 H5]]]].
      exact (conj H1 (conj H2 (conj H3 (conj (Hal2 x H4) H5)))).
    + intros x f. destruct (Nat.eq_dec x t) as [->|Hx]; [rewrite Vt, O2; discriminate|].
      rewrite (Vo x Hx). apply (k_pend s K x f).
    + intros x H. destruct (k_run s K x H) as [H1 [H2 H3]]. rewrite Vo; [|auto].
      exact (conj H1 (conj H2 (Hal2 x H3))).
    + intros x H. destruct (k_td s K x H) as [H1 [H2 [H3 H4]]]. rewrite Vo; [|auto].
      exact (conj H1 (conj H2 (conj H3 (Hal2 x H4)))).
    + intros f Hf. apply Hrefd in Hf. destruct Hf as [Hf|Hf].
      * destruct (k_ref s K f Hf) as [H1 H2]. split; [exact H1|]. intros Hp x Hx. specialize (H2 Hp x Hx).
        rewrite Vo; [exact H2|]. apply Hal, (k_w1 s K x f H2).
      * destruct (Hfresh f Hf) as [F1 [F2 _]]. split; [exact F1|]. rewrite F2. cbn. intros _ x Hx. discriminate.
    + intros x f. destruct (Nat.eq_dec x t) as [->|Hx]; [rewrite Vt, O2; discriminate|].
      rewrite (Vo x Hx). intros H1 H2 Hf. apply Hrefd in Hf. destruct Hf as [Hf|Hf]; [eapply k_idle; eauto|].
      destruct (Hfresh f Hf) as [_ [_ [_ F4]]]. exact (F4 x H2).
  - constructor; change (scopes s') with (scopes s); change (nscope s') with (nscope s);
      change (running s') with (running s).
    + intros x Hr. destruct (Nat.eq_dec x t) as [->|Hx]; [now rewrite Vt, O2|]. rewrite (Vo x Hx). apply (c_w s Ci x Hr).
    + intros x. destruct (Nat.eq_dec x t) as [->|Hx]; [rewrite Vt, O1; congruence|]. rewrite (Vo x Hx). apply (c_done1 s Ci x).
    + intros x Hax. destruct (Nat.eq_dec x t) as [->|Hx]; [rewrite Vt; intros; contradiction|].
      rewrite (Vo x Hx). apply (c_done2 s Ci x). unfold alloc, s', talloc, t in *. cbn in Hax. lia.
    + intros x Hax. assert (Hx : x <> t) by (intros ->; contradiction). rewrite (Vo x Hx).
      apply (c_unalloc s Ci x). intros H. apply Hax, Hal2, H.
    + intros x. destruct (Nat.eq_dec x t) as [->|Hx]; [rewrite Vt, O3; discriminate|]. rewrite (Vo x Hx). apply (c_td s Ci x).
    + intros x e. destruct (Nat.eq_dec x t) as [->|Hx]; [rewrite Vt, O1; split; discriminate|]. rewrite (Vo x Hx). apply (c_oc s Ci x e).
    + intros x c Hr. destruct (Nat.eq_dec x t) as [->|Hx]; [rewrite Vt, O8; discriminate|]. rewrite (Vo x Hx). apply (c_top s Ci x c Hr).
    + intros x g ch f Hr. destruct (Nat.eq_dec x t) as [->|Hx]; [rewrite Vt; intros E; exfalso; exact (O9 _ _ _ E)|].
      rewrite (Vo x Hx). intros E. destruct (c_sw s Ci x g ch f Hr E) as [H1 [H2 [H3 H4]]]. rewrite Vo; auto.
    + intros x ch c e wf Hr. destruct (Nat.eq_dec x t) as [->|Hx]; [rewrite Vt; intros E; exfalso; exact (O10 _ _ _ _ E)|].
      rewrite (Vo x Hx). intros E. destruct (c_sj s Ci x ch c e wf Hr E) as [H1 H2]. rewrite Vo; auto.
    + intros x. assert (Hn : nevent s <= nevent s') by (unfold s', talloc; cbn; destruct ev; lia).
      destruct (Nat.eq_dec x t) as [->|Hx].
      * rewrite Vt. unfold s', talloc. cbn [nevent]. destruct ev; destruct O14 as [-> _]; [lia|]. apply (c_n s Ci).
      * rewrite (Vo x Hx). pose proof (c_bev s Ci x). lia.
    + intros x. destruct (Nat.eq_dec x t) as [->|Hx]; [now rewrite Vt|]. rewrite (Vo x Hx). apply (c_bsc s Ci x).
    + pose proof (c_n s Ci). unfold s', talloc. cbn. destruct ev; lia.
    + intros x o. destruct (Nat.eq_dec x t) as [->|Hx]; [rewrite Vt, O4; discriminate|]. rewrite (Vo x Hx).
      rewrite Es; [apply (h_fin s Ci x o)|apply (c_bev s Ci x)].
    + intros x. destruct (Nat.eq_dec x t) as [->|Hx]; [rewrite Vt; auto|]. rewrite (Vo x Hx). apply (h_nofin s Ci x).
    + intros x. destruct (Nat.eq_dec x t) as [->|Hx]; [rewrite Vt, O1; intros H; contradiction|]. rewrite (Vo x Hx). apply (h_done s Ci x).
    + intros x Hr. destruct (Nat.eq_dec x t) as [->|Hx]; [rewrite Vt, O4; intros H; contradiction|]. rewrite (Vo x Hx). apply (h_fd s Ci x Hr).
  - constructor; change (groups s') with (groups s); change (futs s') with (futs s); change (nscope s') with (nscope s);
      change (nfut s') with (nfut s).
    + intros g x. destruct (Nat.eq_dec x t) as [->|Hx]; [|rewrite (Vo x Hx); apply (g_mem s G g x)].
      rewrite Vt, O3. split; intros H.
      * apply (g_mem s G g t) in H. destruct H as [H _]. apply (g_grp s G g t) in H. destruct H as [_ H]. apply Hal in H. contradiction.
      * destruct H as [H _]. apply (g_grp s G g t) in H. destruct H as [_ H]. apply Hal in H. contradiction.
    + intros g x H. destruct (g_grp s G g x H) as [H1 H2]. rewrite Vo; auto.
    + intros g x e H Hx0. destruct (x_tags s G g x e H Hx0) as [H1 [H2 H3]].
      assert (Hx : x <> t).
      { apply Hal. destruct (Nat.lt_ge_cases x (ntask s)) as [Hlt|Hge]; [split; [lia|exact Hlt]|].
        exfalso. assert (Hna : ~ alloc s x) by (unfold alloc; lia).
        destruct (c_unalloc s Ci x Hna) as [_ [_ [Hg _]]]. congruence. }
      rewrite (Vo x Hx). auto.
    + apply (x_zero s G).
    + apply (x_nd s G).
    + intros g x e H. destruct (g_grp s G g x H) as [_ H2]. rewrite (Vo x (Hal x H2)). apply (x_conv s G g x e H).
    + apply (b_gscope s G).
    + intros x f H. apply Hsf in H. destruct H as [H|[_ H]]; [apply (b_sf s G x f H)|apply (Hfresh f H)].
  - assert (Nf : forall f, k_startfut k = Some f ->
        (forall e, ~ In f (e_waiters (events s e))) /\ (forall g, g_fut (groups s g) <> Some f) /\
        (forall c, k_startfut (tasks s c) <> Some f) /\ ~ sleepref s f).
    { intros f E. apply fresh_not_ref, Hfresh, E. }
    assert (Hev : forall x, alloc s x -> k_hevent (tasks s x) < nevent s) by (intros; apply (c_bev s Ci)).
    constructor; change (groups s') with (groups s); change (futs s') with (futs s);
      change (running s') with (running s).
    + intros f e c H. apply Ew in H. intros E. apply Hsf in E. destruct E as [E|[_ E]]; [exact (kk_es s J f e c H E)|].
      destruct (Nf f E) as [N1 _]. exact (N1 e H).
    + intros f e g H. apply Ew in H. apply (kk_eg s J f e g H).
    + intros f e H. apply Ew in H. apply (kk_et s J f e H).
    + intros f c g E. apply Hsf in E. destruct E as [E|[_ E]]; [exact (kk_sg s J f c g E)|].
      destruct (Nf f E) as [_ [N2 _]]. apply N2.
    + intros f c E. apply Hsf in E. destruct E as [E|[_ E]]; [exact (kk_st s J f c E)|].
      destruct (Nf f E) as [_ [_ [_ N4]]]. exact N4.
    + intros f e e' H H'. destruct (Nat.eq_dec e e') as [->|Hne]; [reflexivity|].
      apply (kk_ee s J f e e'); apply Ew; assumption.
    + intros f c c' E E'. apply Hsf in E, E'.
      destruct E as [E|[-> E]]; destruct E' as [E'|[-> E']]; auto.
      * apply (kk_ss s J f c c' E E').
      * destruct (Nf f E') as [_ [_ [N3 _]]]. exfalso. exact (N3 c E).
      * destruct (Nf f E) as [_ [_ [N3 _]]]. exfalso. exact (N3 c' E').
    + intros f e v H Hv. pose proof (Ew e f H) as H0. pose proof (j_ev s J f e v H0 Hv) as H1.
      unfold s', talloc in *. cbn [events] in *. destruct ev; [|exact H1]. unfold upd in *.
      destruct (Nat.eqb e (nevent s)); [cbn in H; contradiction|exact H1].
    + intros x ch c e f Hr. destruct (Nat.eq_dec x t) as [->|Hx]; [rewrite Vt; intros E; exfalso; exact (O10 _ _ _ _ E)|].
      rewrite (Vo x Hx). intros E. destruct (c_sj s Ci x ch c e (Some f) Hr E) as [H1 H2].
      rewrite (Vo ch (Hal ch H1)). rewrite Es; [|apply (c_bev s Ci ch)]. apply (j_join s J x ch c e f Hr E).
    + intros x. destruct (Nat.eq_dec x t) as [->|Hx].
      * rewrite Vt. intros Hg. destruct ev; destruct O14 as [E1 E2]; [|contradiction]. rewrite E1.
        unfold s', talloc. cbn [events]. rewrite upd_same. cbn. discriminate.
      * rewrite (Vo x Hx). rewrite Es; [apply (e_hev s J x)|apply (c_bev s Ci x)].
    + assert (Hq : forall x, x <> t -> k_group (tasks s x) <> None -> k_group k <> None ->
                  k_hevent (tasks s x) <> k_hevent k).
      { intros x Hx Hg Hk. destruct ev; destruct O14 as [E1 E2]; [|contradiction]. rewrite E1.
        pose proof (c_bev s Ci x). lia. }
      intros x x'. destruct (Nat.eq_dec x t) as [->|Hx]; destruct (Nat.eq_dec x' t) as [->|Hx']; auto.
      * rewrite Vt, (Vo x' Hx'). intros H1 H2 H3. exfalso. symmetry in H3. revert H3. apply Hq; auto.
      * rewrite Vt, (Vo x Hx). intros H1 H2 H3. exfalso. revert H3. apply Hq; auto.
      * rewrite (Vo x Hx), (Vo x' Hx'). apply (e_inj s J x x').
    + intros x. destruct (Nat.eq_dec x t) as [->|Hx]; [|rewrite (Vo x Hx); apply (e_pos s J x)].
      rewrite Vt. intros Hg. destruct ev; destruct O14 as [E1 E2]; [|contradiction]. rewrite E1. apply (c_n s Ci).
Qed.

(* ---------------- a new member joins the group ---------------- *)
Lemma add_in x y l : In y (add x l) <-> In y l \/ y = x.
Proof.
  unfold add, mem. destruct (existsb (Nat.eqb x) l) eqn:E.
  - split; [auto|]. intros [H| ->]; [exact H|]. apply existsb_exists in E. destruct E as [z [Hz Ez]].
    apply Nat.eqb_eq in Ez. now subst.
  - rewrite in_app_iff. cbn. intuition.
Qed.

Definition gjoin (t : tid) (x : group) : group := gr_ever (g_ever x ++ [t]) (gr_tasks (add t (g_tasks x)) x).

Lemma M_gjoin s g t : MInv s -> k_group (tasks s t) = Some g -> alloc s t -> k_tdran (tasks s t) = false ->
  (forall g', ~ In t (g_ever (groups s g'))) -> MInv (upd_group s g (gjoin t)).
Proof.
  intros [K Ci G J] Hg Hal Htd Hnew.
  destruct (KCJ_upd_group s g (gjoin t)) as [HK [HC HJ]]; [intros x; reflexivity|].
  assert (V : forall x, groups (upd_group s g (gjoin t)) x = if Nat.eqb x g then gjoin t (groups s g) else groups s x).
  { intros x. reflexivity. }
  constructor; auto.
  constructor; unfold alloc; change (tasks (upd_group s g (gjoin t))) with (tasks s);
    change (futs (upd_group s g (gjoin t))) with (futs s); change (ntask (upd_group s g (gjoin t))) with (ntask s);
    change (nscope (upd_group s g (gjoin t))) with (nscope s); change (nfut (upd_group s g (gjoin t))) with (nfut s).
  - intros x y. rewrite V. destruct (Nat.eqb_spec x g) as [->|Hx]; [|apply (g_mem s G x y)].
    cbn. rewrite add_in, in_app_iff. cbn. pose proof (g_mem s G g y) as H. split.
    + intros [Hy| ->]; [apply H in Hy; tauto|tauto].
    + intros [[Hy|[<-|[]]] H2]; [left; apply H; tauto|tauto].
  - intros x y. rewrite V. destruct (Nat.eqb_spec x g) as [->|Hx]; [|apply (g_grp s G x y)].
    cbn. rewrite in_app_iff. cbn. intros [Hy|[<-|[]]]; [apply (g_grp s G g y Hy)|auto].
  - intros x y e. rewrite V. destruct (Nat.eqb_spec x g) as [->|Hx]; [cbn|]; apply (x_tags s G _ y e).
  - intros x e. rewrite V. destruct (Nat.eqb_spec x g) as [->|Hx]; [cbn|]; apply (x_zero s G _ e).
  - intros x. rewrite V. destruct (Nat.eqb_spec x g) as [->|Hx]; [cbn|]; apply (x_nd s G _).
  - intros x y e. rewrite V. destruct (Nat.eqb_spec x g) as [->|Hx]; [|apply (x_conv s G x y e)].
    cbn. rewrite in_app_iff. cbn. intros [Hy|[<-|[]]]; [apply (x_conv s G g y e Hy)|]. congruence.
  - intros x. rewrite V. destruct (Nat.eqb_spec x g) as [->|Hx]; [cbn|]; apply (b_gscope s G _).
  - apply (b_sf s G).
Qed.

(* ---------------- scheduling the first step of a new task ---------------- *)
Lemma M_soon_step s t : MInv s -> ~ In t (thtasks (ready s)) -> k_waiter (tasks s t) = None ->
  k_done (tasks s t) = None -> running s <> Some t -> alloc s t -> MInv (call_soon s (HStep t)).
Proof.
  intros [K Ci G J] Hnt Hw Hd Hr Hal.
  assert (Er : ready (call_soon s (HStep t)) = ready s ++ [HStep t]) by reflexivity.
  assert (Hsl : forall f, sleepref (call_soon s (HStep t)) f -> sleepref s f).
  { intros f [[tm H]|H]; [|right; exact H]. left. exists tm. rewrite Er, in_app_iff in H.
    destruct H as [H|[H|[]]]; [exact H|discriminate]. }
  assert (Hrefd : forall f, refd (call_soon s (HStep t)) f -> refd s f).
  { apply refd_mono; auto.
    - intros g f H. exists g. exact H.
    - intros c f H. exists c. exact H. }
  constructor.
  - constructor; unfold alloc; rewrite ?Er; change (tasks (call_soon s (HStep t))) with (tasks s);
      change (futs (call_soon s (HStep t))) with (futs s); change (nfut (call_soon s (HStep t))) with (nfut s);
      change (ntask (call_soon s (HStep t))) with (ntask s); change (running (call_soon s (HStep t))) with (running s).
    + rewrite thtasks_app. change (thtasks [HStep t]) with [t]. apply NoDup_snoc; [apply K|exact Hnt].
    + rewrite tdtasks_app. change (tdtasks [HStep t]) with (@nil tid). rewrite app_nil_r. apply K.
    + intros x f. rewrite in_app_iff. intros [H|[H|[]]]; [apply (k_wake s K x f H)|discriminate].
    + intros x. rewrite in_app_iff. intros [H|[H|[]]]; [apply (k_step s K x H)|]. injection H as <-. auto.
    + apply (k_w1 s K).
    + intros x f H Hp. rewrite thtasks_app, in_app_iff. intros [Hi|[<-|[]]]; [exact (k_pend s K x f H Hp Hi)|congruence].
    + intros x H. destruct (k_run s K x H) as [H1 H2]. split; [|exact H2].
      rewrite thtasks_app, in_app_iff. intros [Hi|[<-|[]]]; [auto|contradiction].
    + intros x. rewrite in_app_iff. intros [H|[H|[]]]; [apply (k_td s K x H)|discriminate].
    + intros f H. apply Hrefd in H. apply (k_ref s K f H).
    + intros x f H1 H2 H3. apply Hrefd in H3. apply (k_idle s K x f H1 H2 H3).
  - revert Ci. apply C_ext; try reflexivity; auto.
  - revert G. apply G_ext; try reflexivity; auto.
  - revert J. apply J_ext; try reflexivity; auto.
Qed.
