(* Tie T for the timeout helpers (C06, C04): the shapes regenerated from src/anyio/_core/_tasks.py equal what the S machine
   assumes, for every time, argument (None = no timeout) and shield flag. *)
From AV Require Import Base Machine TimeoutSpec TimeoutGen.

Theorem tie_timeout_helpers : forall i now arg sh, i <= 3 ->
  shape_of gen_table (gen_table i) now arg sh = spec_shape i now arg sh.
Proof.
  intros i now arg sh Hi.
  destruct i as [|[|[|[|i]]]]; try lia; cbn; reflexivity.
Qed.

(* fail_after(delay, shield) entered at time `now` is the machine's AFailAt with deadline now + delay and that shield:
   the scope it creates is `new_scope s (Some (now + delay)) sh`; with delay None the scope has no deadline *)
Theorem fail_after_is_AFailAt : forall s now delay sh,
  let '(d, sh', p) := shape_of gen_table gen_fail_after now delay sh in
  new_scope s d sh' = new_scope s (option_map (Z.add now) delay) sh /\ p = PTimeoutIfCaughtAndDue.
Proof. intros s now delay sh. cbn. split; reflexivity. Qed.

(* the test after the block of fail_at / fail_after is the one AExit t c true applies (Machine.step_op, AExit, XTrue) *)
Theorem fail_at_post_is_machine_condition : forall sc now,
  let '(_, _, p) := shape_of gen_table gen_fail_at now None false in
  post_raises p sc now = (s_caught sc && match s_deadline sc with Some d => Z.leb d now | None => false end).
Proof. intros sc now. reflexivity. Qed.

(* the move_on helpers add nothing after the block *)
Theorem move_on_has_no_post : forall now arg sh sc t,
  post_raises (snd (shape_of gen_table gen_move_on_at now arg sh)) sc t = false /\
  post_raises (snd (shape_of gen_table gen_move_on_after now arg sh)) sc t = false.
Proof. intros. split; reflexivity. Qed.
