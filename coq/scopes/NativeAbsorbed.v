(* Known finding F19 (C05), as a kernel-checked witness on the S machine.

   The full clause - "every native cancellation request made on a task is eventually raised in that task, or is
   still pending" - is FALSE of the faithful model (and of the code, see corpus/C05/f19_*.json, which the harness
   replays against the real implementation on every run).  History: the task sleeps inside scope 1; the scope is
   cancelled and its delivery cancels the task's wait (the wake-up is now in the ready queue); a native
   Task.cancel() arrives before the task runs (it can only set _must_cancel, which the wake-up clears without
   changing the exception: asyncio keeps the CancelledError of the already cancelled wait); the task receives only
   the scope's own cancellation and the scope absorbs it at exit.  Afterwards the native request is still counted
   (cancelling() = 1, it was 0 on entry), nothing is pending (_must_cancel = false, no exception held), no result
   of any step was a native cancellation, and the task checkpoints undisturbed. *)
From AV Require Import Base Machine.
Local Open Scope Z_scope.

Definition f19_case : list Z :=
  [30; 0; 0; 0;  0; 1; -1; 0;  1; 1; 1; 0;  17; 1; -1; 0;  32; 1; 0; 0;  35; 1; 0; 0;  31; 1; 0; 0;  34; 1; 0; 0;
   2; 1; 1; 0;  14; 1; 0; 0;  33; 1; 0; 0].

Definition f19_ops : list op := ops_of_flat init f19_case (length f19_case).

Definition is_native_result (r : res) : bool :=
  match r with RExc (ECancel O) => true | _ => false end.

Fixpoint results (s : st) (ops : list op) : list res :=
  match ops with
  | [] => []
  | o :: r => let '(s1, x) := step s o in x :: results s1 r
  end.

Definition requests_native (o : op) : bool := match o with ANativeCancel _ => true | _ => false end.

Lemma native_request_absorbed_witness :
  let s := final step init f19_ops in
  existsb requests_native f19_ops = true /\
  existsb is_native_result (results init f19_ops) = false /\
  k_ncancel (tasks s 1%nat) = 1%nat /\ k_must (tasks s 1%nat) = false /\ k_held (tasks s 1%nat) = None /\
  k_ctl (tasks s 1%nat) = CIdle /\
  s_caught (scopes s 1%nat) = true /\ s_active (scopes s 1%nat) = false /\ s_pending (scopes s 1%nat) = 0%nat.
Proof. vm_compute. repeat split; reflexivity. Qed.

(* ---------------------------------------------------------------------------------------------------------------
   Known finding F25 (C04): a shield raised after the request was placed does not retract it.
   Task 1 sleeps in scope 2 inside scope 1; scope 1 is cancelled (the delivery cancels the wait at once); task 2
   then sets shield=True on scope 2; when task 1 runs it receives the cancellation of scope 1 although its current
   scope is shielded and not effectively cancelled. *)
Definition f25_case : list Z :=
  [30; 0; 0; 0;  0; 1; -1; 0;  1; 1; 1; 0;  0; 1; -1; 0;  1; 1; 2; 0;  17; 1; -1; 0;  32; 1; 0; 0;  30; 0; 0; 0;
   4; 2; 2; 1;  34; 1; 0; 0].
Definition f25_ops : list op := ops_of_flat init f25_case (length f25_case).

Lemma shield_raised_after_request_witness :
  let pre := final step init (removelast f25_ops) in
  k_cur (tasks pre 1%nat) = Some 2%nat /\ s_shield (scopes pre 2%nat) = true /\ eff_cancelled pre 2%nat = false /\
  last (results init f25_ops) RNone = RExc (ECancel 2%nat).
Proof. vm_compute. repeat split; reflexivity. Qed.

(* ---------------------------------------------------------------------------------------------------------------
   Known finding F24 (C01): a child natively cancelled before its first step.  After the group block has been left
   (g_left) the child is done, yet its handle's finished event was never set and no outcome was recorded: the
   handle reports PENDING for ever. *)
Definition f24_case : list Z :=
  [30; 0; 0; 0;  6; 1; 0; 0;  7; 1; 1; 0;  9; 1; 1; 0;  31; 2; 0; 0;  33; 2; 0; 0;  36; 2; 0; 0;  34; 1; 0; 0;
   8; 1; 1; 0;  33; 1; 0; 0].
Definition f24_ops : list op := ops_of_flat init f24_case (length f24_case).

Lemma never_ran_handle_pending_witness :
  let s := final step init f24_ops in
  g_left (groups s 1%nat) = true /\ k_ctl (tasks s 2%nat) = CDone /\
  e_set (events s (k_hevent (tasks s 2%nat))) = false /\ k_hexc (tasks s 2%nat) = None /\ k_hret (tasks s 2%nat) = None.
Proof. vm_compute. repeat split; reflexivity. Qed.
