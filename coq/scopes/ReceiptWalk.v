(* C04: where a scope-tagged cancellation request on a task comes from, for EVERY op of the machine.
   A request with origin org held by task t (Held): t's _must_cancel is set with message org, or the future t
   waits on was cancelled with message org.  Such a request is only ever placed by a delivery run of org, and
   at that moment org is cancelled and visible from t's current scope through unshielded, uncancelled scopes
   (OC).  One relation (W) is carried through every helper and every op. *)
From Coq Require Import ZArith Lia.
From AV Require Import Base Machine ScopeFrames DeliverInv TreeInv DeliverAlive PotentialInv TreeStep KernelInv
  DeliverThms TimerInv TimerThms CycleThms DebtInv HdInv ActWalk ActThms ChainFrame ChainThms.

Definition Held (s : st) (t : tid) (org : sid) : Prop :=
  (k_must (tasks s t) = true /\ k_msg (tasks s t) = S org) \/
  (exists f, k_waiter (tasks s t) = Some f /\ f_st (futs s f) = FCanc (S org)).

(* org is cancelled and the walk from t's current scope reaches it through open scopes *)
Definition OC (s : st) (t : tid) (org : sid) : Prop :=
  exists x, k_cur (tasks s t) = Some x /\ vis s org x /\ s_cancelled (scopes s org) = true.

Definition hcore (k : task) := (k_must k, k_msg k, k_waiter k).

Lemma upd_task_eq s t g : tasks (upd_task s t g) t = g (tasks s t).
Proof. cbn. unfold upd. now rewrite Nat.eqb_refl. Qed.
Lemma upd_task_ne s t g x : x <> t -> tasks (upd_task s t g) x = tasks s x.
Proof. intros H. cbn. unfold upd. destruct (Nat.eqb_spec x t); [contradiction|reflexivity]. Qed.

Lemma held_same m m' t :
  hcore (tasks m' t) = hcore (tasks m t) ->
  (forall f o, k_waiter (tasks m t) = Some f -> f_st (futs m' f) = FCanc (S o) -> f_st (futs m f) = FCanc (S o)) ->
  forall org, Held m' t org -> Held m t org.
Proof.
  intros E F org. unfold hcore in E. injection E as E1 E2 E3.
  intros [[H1 H2]|[f [H1 H2]]]; [left; now rewrite <- E1, <- E2|right].
  rewrite E3 in H1. exists f. split; [exact H1|]. now apply (F f org).
Qed.

Lemma held_eq m m' t : tasks m' t = tasks m t -> futs m' = futs m -> forall org, Held m' t org -> Held m t org.
Proof. intros E F. apply held_same; [now rewrite E|]. intros f o _. now rewrite F. Qed.

(* ---------------- the local tree facts a delivery needs ---------------- *)
Record TW (s : st) : Prop := {
  to_cp : forall p c, In c (s_children (scopes s p)) -> s_parent (scopes s c) = Some p;
  to_tc : forall t x, In t (s_tasks (scopes s x)) -> k_cur (tasks s t) = Some x;
  to_pa : forall y p, s_parent (scopes s y) = Some p -> p < nscope s;
  to_cu : forall t x, k_cur (tasks s t) = Some x -> x < nscope s;
  to_ct : forall t x, k_cur (tasks s t) = Some x -> t < ntask s
}.

(* ... and what keeps them true when a fresh scope is created: listed children are allocated *)
Record TO (s : st) : Prop := {
  to_w : TW s;
  to_ca : forall p c, In c (s_children (scopes s p)) -> c < nscope s
}.

Lemma TO_reach s : reach_ok s -> TO s.
Proof.
  intros R. pose proof (reach_tree s R) as T. pose proof (reach_hdi s R) as H. constructor; [constructor|].
  - intros p c Hc. apply (proj1 (tr_child _ T p c) Hc).
  - intros t x Hx. apply (proj1 (tr_task _ T x t) Hx).
  - apply H.
  - apply H.
  - intros t x Hx. apply (tr_cur_alloc _ T t x Hx).
  - intros p c Hc. destruct (proj1 (tr_child _ T p c) Hc) as [A _]. apply (tr_act_alloc _ T c A).
Qed.

Lemma TW_treq a b : TW a -> treq a b -> TW b.
Proof.
  intros T K. constructor.
  - intros p c. rewrite (tq_children _ _ K), (tq_parent _ _ K). apply T.
  - intros t x. rewrite (tq_stasks _ _ K), (tq_cur _ _ K). apply T.
  - intros y p. rewrite (tq_parent _ _ K), (tq_nscope _ _ K). apply T.
  - intros t x. rewrite (tq_cur _ _ K), (tq_nscope _ _ K). apply T.
  - intros t x. rewrite (tq_cur _ _ K), (tq_ntask _ _ K). apply T.
Qed.

Lemma TO_treq a b : TO a -> treq a b -> TO b.
Proof.
  intros [T C] K. constructor; [now apply (TW_treq a)|].
  intros p c. rewrite (tq_children _ _ K), (tq_nscope _ _ K). apply C.
Qed.

Lemma TW_TreeOK s : TW s -> TreeOK s.
Proof. intros T. constructor; apply T. Qed.

(* ---------------- the walk under a frame of the three walk fields ---------------- *)
Definition vq (m m' : st) : Prop :=
  nscope m <= nscope m' /\ forall y, y < nscope m -> view3 (scopes m' y) = view3 (scopes m y).

Lemma vq_refl m : vq m m. Proof. split; [lia|reflexivity]. Qed.
Lemma vq_trans a b c : vq a b -> vq b c -> vq a c.
Proof. intros [N1 V1] [N2 V2]. split; [lia|]. intros y Hy. rewrite V2 by lia. now apply V1. Qed.

Lemma v3_parent a b : view3 a = view3 b -> s_parent a = s_parent b.
Proof. unfold view3. intros E. now inversion E. Qed.
Lemma v3_shield a b : view3 a = view3 b -> s_shield a = s_shield b.
Proof. unfold view3. intros E. now inversion E. Qed.
Lemma v3_cancelled a b : view3 a = view3 b -> s_cancelled a = s_cancelled b.
Proof. unfold view3. intros E. now inversion E. Qed.

Lemma vis_alloc m c x : TW m -> vis m c x -> x < nscope m -> c < nscope m.
Proof.
  intros T V. induction V as [|x p E1 E2 E3 V IH]; intros Hx; [exact Hx|]. apply IH. apply (to_pa _ T x p E3).
Qed.

Lemma vis_fwd m m' c x : TW m -> vq m m' -> x < nscope m -> vis m c x -> vis m' c x.
Proof.
  intros T [_ Q] Hx V. induction V as [|x p E1 E2 E3 V IH]; [apply vis_here|].
  pose proof (Q x Hx) as E. apply (vis_up m' c x p).
  - now rewrite (v3_shield _ _ E).
  - now rewrite (v3_cancelled _ _ E).
  - now rewrite (v3_parent _ _ E).
  - apply IH. apply (to_pa _ T x p E3).
Qed.

Lemma vis_bwd m m' c x : TW m -> vq m m' -> x < nscope m -> vis m' c x -> vis m c x.
Proof.
  intros T [_ Q] Hx V. induction V as [|x p E1 E2 E3 V IH]; [apply vis_here|].
  pose proof (Q x Hx) as E.
  rewrite (v3_shield _ _ E) in E1. rewrite (v3_cancelled _ _ E) in E2. rewrite (v3_parent _ _ E) in E3.
  apply (vis_up m c x p E1 E2 E3). apply IH. apply (to_pa _ T x p E3).
Qed.

Lemma OC_fwd m m' t org :
  TW m -> vq m m' -> k_cur (tasks m' t) = k_cur (tasks m t) -> OC m t org -> OC m' t org.
Proof.
  intros T Q Ec [x [Hx [V C]]]. pose proof (to_cu _ T t x Hx) as Ax. exists x. rewrite Ec.
  split; [exact Hx|]. split; [now apply (vis_fwd m m')|].
  rewrite (v3_cancelled _ _ (proj2 Q org (vis_alloc m org x T V Ax))). exact C.
Qed.

Lemma OC_bwd m m' t org :
  TW m -> vq m m' -> k_cur (tasks m' t) = k_cur (tasks m t) -> OC m' t org -> OC m t org.
Proof.
  intros T Q Ec [x [Hx [V C]]]. rewrite Ec in Hx. pose proof (to_cu _ T t x Hx) as Ax. exists x.
  split; [exact Hx|]. pose proof (vis_bwd m m' org x T Q Ax V) as V'. split; [exact V'|].
  rewrite <- (v3_cancelled _ _ (proj2 Q org (vis_alloc m org x T V' Ax))). exact C.
Qed.

(* ---------------- a delivery run: new requests carry its origin and go to tasks in reach ---------------- *)
Lemma wait_link_kframe m a : wait_link m -> kframe m a -> wait_link a.
Proof.
  intros WL K t f Hw Hp. rewrite (tcore_waiter _ _ (kf_tasks _ _ K t)) in Hw.
  rewrite (kf_fwaiter _ _ K f). apply (WL t f Hw).
  destruct (f_st (futs m f)) eqn:E; [reflexivity| | |]; rewrite (kf_fdone _ _ K f) in Hp; congruence.
Qed.

Definition dlog (m : st) (origin : sid) (a : st) : Prop :=
  kframe m a /\
  forall t, k_ncancel (tasks m t) <= k_ncancel (tasks a t) /\
            forall org, Held a t org -> Held m t org \/ (org = origin /\ k_ncancel (tasks m t) < k_ncancel (tasks a t)).

Lemma dlog_same m origin a b :
  dlog m origin a -> kframe a b -> tasks b = tasks a -> futs b = futs a -> dlog m origin b.
Proof.
  intros [K H] Kb Et Ef. split; [eapply kframe_trans; eauto|]. intros t. rewrite Et. destruct (H t) as [H1 H2].
  split; [exact H1|]. intros org Hh. apply H2. revert Hh. apply held_eq; [now rewrite Et|exact Ef].
Qed.

Lemma dlog_task_cancel m origin a u :
  wait_link m -> dlog m origin a -> k_done (tasks a u) = None -> k_must (tasks a u) = false ->
  match k_waiter (tasks a u) with Some f => fut_pending a f | None => true end = true ->
  dlog m origin (task_cancel a u (S origin)).
Proof.
  intros WL [K H] Hd Hm Hw. pose proof (wait_link_kframe m a WL K) as WLa.
  split; [eapply kframe_trans; [exact K|apply kframe_task_cancel]|].
  intros t. destruct (Nat.eq_dec t u) as [->|Hne].
  - destruct (H u) as [H1 H2]. destruct (k_waiter (tasks a u)) as [f|] eqn:Ew.
    + unfold fut_pending in Hw. destruct (f_st (futs a f)) eqn:Ef; try discriminate.
      rewrite (task_cancel_pending a u (S origin) f Hd Ew Ef). cbv zeta.
      set (s2 := upd_fut (upd_task a u (tk_ncancel (S (k_ncancel (tasks a u))))) f (fun x => mkFut (FCanc (S origin)) (f_waiter x))).
      assert (E : forall X, (tasks X = tasks s2 /\ futs X = futs s2) ->
                k_ncancel (tasks m u) <= k_ncancel (tasks X u) /\
                forall org, Held X u org -> Held m u org \/ (org = origin /\ k_ncancel (tasks m u) < k_ncancel (tasks X u))).
      { intros X [Et Ef']. rewrite Et. unfold s2. cbn [tasks upd_fut set_futs upd_task set_tasks]. unfold upd.
        rewrite Nat.eqb_refl. cbn [k_ncancel tk_ncancel]. split; [lia|].
        intros org [[A _]|[g [A B]]]; rewrite Et in A; unfold s2 in A; cbn [tasks upd_fut set_futs upd_task set_tasks] in A;
          unfold upd in A; rewrite Nat.eqb_refl in A; cbn in A; [congruence|].
        rewrite Ew in A. injection A as <-. rewrite Ef' in B. unfold s2 in B. cbn [futs upd_fut set_futs] in B.
        unfold upd in B. rewrite Nat.eqb_refl in B. cbn in B. injection B as <-. right. split; [reflexivity|lia]. }
      destruct (f_waiter (futs a f)); apply E; now split.
    + rewrite (task_cancel_nowaiter a u (S origin) Hd Ew). cbn [tasks upd_task set_tasks]. unfold upd.
      rewrite !Nat.eqb_refl. cbn [k_ncancel tk_ncancel tk_must]. split; [lia|].
      intros org [[A B]|[g [A B]]]; cbn [tasks upd_task set_tasks] in *; unfold upd in *; rewrite !Nat.eqb_refl in *; cbn in *.
      * injection B as <-. right. split; [reflexivity|lia].
      * congruence.
  - rewrite (task_cancel_other a u (S origin) t); [|congruence]. destruct (H t) as [H1 H2]. split; [exact H1|].
    intros org Hh. apply H2. revert Hh. apply held_same; [now rewrite (task_cancel_other a u (S origin) t) by congruence|].
    intros f o Hf. unfold task_cancel. rewrite Hd. destruct (k_waiter (tasks a u)) as [g|] eqn:Ew; [|auto].
    assert (Hw' : fut_pending (upd_task a u (tk_ncancel (S (k_ncancel (tasks a u))))) g = true) by exact Hw.
    rewrite Hw'. unfold fut_pending in Hw. cbn [futs upd_task set_tasks] in Hw.
    destruct (f_st (futs a g)) eqn:Eg; try discriminate.
    destruct (Nat.eq_dec f g) as [->|Hfg].
    + exfalso. pose proof (WLa t g Hf Eg) as W1. pose proof (WLa u g Ew Eg) as W2. congruence.
    + unfold fut_complete. cbn [futs upd_task set_tasks]. rewrite Eg.
      destruct (f_waiter (futs a g)); cbn; unfold upd; destruct (Nat.eqb_spec f g); try contradiction; auto.
Qed.

Lemma dlog_deliver m origin : wait_link m ->
  forall fu self, dlog m origin (fst (deliver fu m self origin)).
Proof.
  intros WL fu self.
  apply (deliver_inv' (dlog m origin) origin).
  - intros s a r u D. unfold deliver_task. destruct (k_done (tasks a u)) eqn:Hd; [exact D|].
    destruct (k_must (tasks a u)) eqn:Hm; [exact D|]. destruct (_ && _); [|exact D].
    destruct (match k_waiter (tasks a u) with Some f => fut_pending a f | None => true end) eqn:Hw; [|exact D].
    cbn [fst]. pose proof (dlog_task_cancel m origin a u WL D Hd Hm Hw) as D1.
    destruct (opt_eqb _ u); [|exact D1].
    apply (dlog_same m origin _ _ D1); [apply kframe_upd_scope; intros k; reflexivity|reflexivity|reflexivity].
  - intros a b D. apply (dlog_same m origin a _ D); [apply kframe_upd_scope; intros k; reflexivity|reflexivity|reflexivity].
  - intros a D. apply (dlog_same m origin a _ D); [apply kframe_call_soon; exact I|reflexivity|reflexivity].
  - split; [apply kframe_refl|]. intros t. split; [lia|]. intros org Hh. now left.
Qed.

Lemma vis_top m c ch x : s_shield (scopes m ch) = false -> s_cancelled (scopes m ch) = false ->
  s_parent (scopes m ch) = Some c -> vis m ch x -> vis m c x.
Proof.
  intros E1 E2 E3 V. induction V as [|x p F1 F2 F3 V IH]; [apply (vis_up m c ch c E1 E2 E3), vis_here|].
  apply (vis_up m c x p F1 F2 F3), IH.
Qed.

Lemma vpath_vis m c x n : TW m -> vpath m c x n -> vis m c x.
Proof.
  intros T. induction 1 as [x|self ch x n Hc Hs Hk Hp IH]; [apply vis_here|].
  apply (vis_top m self ch x Hs Hk (to_cp _ T self ch Hc) IH).
Qed.

Theorem held_deliver_top m c :
  TW m -> wait_link m -> s_cancelled (scopes m c) = true ->
  forall t org, Held (deliver_top m c) t org -> Held m t org \/ OC m t org.
Proof.
  intros T WL Hc t org Hh. destruct (dlog_deliver m c WL (S (nscope m)) c) as [_ D].
  destruct (D t) as [_ D2]. destruct (D2 org Hh) as [H|[-> Hn]]; [now left|]. right.
  assert (Hne : tasks (fst (deliver (S (nscope m)) m c c)) t <> tasks m t) by (intros E; rewrite E in Hn; lia).
  destruct (deliver_touches_only_reach _ _ _ _ _ Hne) as (x & Hx & Ht).
  destruct (vlist_vpath _ _ _ _ Hx) as (n & _ & Hp).
  exists x. split; [apply (to_tc _ T t x Ht)|]. split; [apply (vpath_vis m c x n T Hp)|exact Hc].
Qed.

Lemma held_restart_from m : TW m -> wait_link m -> forall fuel x t org,
  Held (restart_from fuel m x) t org -> Held m t org \/ OC m t org.
Proof.
  intros T WL. induction fuel as [|fu IH]; intros x t org Hh; [now left|]. destruct x as [c|]; [|now left].
  cbn [restart_from] in Hh. destruct (s_cancelled (scopes m c)) eqn:Ec.
  - destruct (s_chandle (scopes m c)); [now left|]. now apply (held_deliver_top m c T WL Ec).
  - destruct (s_shield (scopes m c)); [now left|]. now apply (IH (s_parent (scopes m c))).
Qed.

Lemma held_restart m x : TW m -> wait_link m ->
  forall t org, Held (restart m x) t org -> Held m t org \/ OC m t org.
Proof. intros T WL t org. apply held_restart_from; assumption. Qed.

(* ---------------- a recorded request and a pending wait exclude each other ---------------- *)
Definition MP (s : st) : Prop :=
  forall t f, k_must (tasks s t) = true -> k_waiter (tasks s t) = Some f -> f_st (futs s f) <> FPend.

Lemma MP_frame m m' :
  (forall t, hcore (tasks m' t) = hcore (tasks m t) \/ k_must (tasks m' t) = false) ->
  (forall f, f_st (futs m' f) = FPend -> f_st (futs m f) = FPend) -> MP m -> MP m'.
Proof.
  intros Ht Hf M t f Hm Hw Hp. destruct (Ht t) as [E|E]; [|congruence].
  unfold hcore in E. injection E as E1 E2 E3. rewrite E1 in Hm. rewrite E3 in Hw. apply (M t f Hm Hw), Hf, Hp.
Qed.

Lemma MP_same m m' : tasks m' = tasks m -> futs m' = futs m -> MP m -> MP m'.
Proof. intros Et Ef. apply MP_frame; [intros t; left; now rewrite Et|intros f; now rewrite Ef]. Qed.

Lemma fut_complete_pend m g v f : f_st (futs (fut_complete m g v) f) = FPend -> f_st (futs m f) = FPend.
Proof.
  unfold fut_complete. destruct (f_st (futs m g)) eqn:Eg; auto.
  destruct (f_waiter (futs m g)); cbn; unfold upd; destruct (Nat.eqb_spec f g); subst; auto; cbn; intros ->; exact Eg.
Qed.

Lemma MP_fut_complete_gen m g v : v <> FPend -> MP m -> MP (fut_complete m g v).
Proof.
  intros Hv. apply MP_frame; [intros t; left; now rewrite fut_complete_tasks|].
  intros f. unfold fut_complete. destruct (f_st (futs m g)) eqn:Eg; auto.
  destruct (f_waiter (futs m g)); cbn; unfold upd; destruct (Nat.eqb_spec f g); subst; auto; cbn; congruence.
Qed.

Lemma MP_task_cancel m t o : MP m -> MP (task_cancel m t o).
Proof.
  intros M. unfold task_cancel. destruct (k_done (tasks m t)); [exact M|].
  set (m1 := upd_task m t (tk_ncancel (S (k_ncancel (tasks m t))))).
  assert (M1 : MP m1).
  { revert M. apply MP_frame; [|auto]. intros x. left. unfold m1. destruct (Nat.eq_dec x t) as [->|Hne];
      [now rewrite upd_task_eq|now rewrite upd_task_ne]. }
  assert (M2 : (forall f, k_waiter (tasks m1 t) = Some f -> f_st (futs m1 f) <> FPend) -> MP (upd_task m1 t (tk_must true o))).
  { intros Hw x f Hm Hx. change (futs (upd_task m1 t (tk_must true o))) with (futs m1).
    destruct (Nat.eq_dec x t) as [->|Hne].
    - rewrite upd_task_eq in Hx. cbn in Hx. now apply Hw.
    - rewrite upd_task_ne in Hm, Hx by exact Hne. now apply (M1 x f). }
  assert (Ew : k_waiter (tasks m1 t) = k_waiter (tasks m t)) by (unfold m1; now rewrite upd_task_eq).
  destruct (k_waiter (tasks m t)) as [f|] eqn:Ewt.
  - destruct (fut_pending m1 f) eqn:Ep.
    + apply MP_fut_complete_gen; [discriminate|exact M1].
    + apply M2. intros g Hg. rewrite Ew in Hg. injection Hg as <-. unfold fut_pending in Ep.
      destruct (f_st (futs m1 f)); congruence.
  - apply M2. intros g Hg. congruence.
Qed.

Lemma MP_deliver_top m c : MP m -> MP (deliver_top m c).
Proof.
  intros M. unfold deliver_top. apply (deliver_inv' MP c); [| | |exact M].
  - intros self a r u Ma. unfold deliver_task. destruct (k_done (tasks a u)); [exact Ma|].
    destruct (k_must (tasks a u)); [exact Ma|]. destruct (_ && _); [|exact Ma].
    destruct (match k_waiter (tasks a u) with Some f => fut_pending a f | None => true end); [|exact Ma].
    cbn [fst]. pose proof (MP_task_cancel a u (S c) Ma) as M1.
    destruct (opt_eqb _ u); [|exact M1]. revert M1. apply MP_same; reflexivity.
  - intros a b Ma. revert Ma. apply MP_same; reflexivity.
  - intros a Ma. revert Ma. apply MP_same; reflexivity.
Qed.

(* ---------------- a NATIVE request that the task's next step will receive ---------------- *)
Definition NHeld (s : st) (t : tid) : Prop :=
  (k_must (tasks s t) = true /\ k_msg (tasks s t) = 0) \/
  (exists f, k_waiter (tasks s t) = Some f /\ f_st (futs s f) = FCanc 0).

Lemma nheld_same m m' t :
  hcore (tasks m' t) = hcore (tasks m t) ->
  (forall f, k_waiter (tasks m t) = Some f -> f_st (futs m f) = FCanc 0 -> f_st (futs m' f) = FCanc 0) ->
  NHeld m t -> NHeld m' t.
Proof.
  intros E F. unfold hcore in E. injection E as E1 E2 E3.
  intros [[H1 H2]|[f [H1 H2]]]; [left; now rewrite E1, E2|right].
  exists f. split; [now rewrite E3|now apply F].
Qed.

Lemma nheld_eq m m' t : tasks m' t = tasks m t -> futs m' = futs m -> NHeld m t -> NHeld m' t.
Proof. intros E F. apply nheld_same; [now rewrite E|]. intros f _. now rewrite F. Qed.

Lemma fut_complete_done m g v f : f_st (futs m f) <> FPend -> f_st (futs (fut_complete m g v) f) = f_st (futs m f).
Proof.
  intros Hd. unfold fut_complete. destruct (f_st (futs m g)) eqn:Eg; try reflexivity.
  destruct (f_waiter (futs m g)); cbn; unfold upd; destruct (Nat.eqb_spec f g); subst; try reflexivity; congruence.
Qed.

Lemma nheld_task_cancel m u o t : t <> u \/ o = 0 -> k_done (tasks m u) = None \/ t <> u -> NHeld m t -> NHeld (task_cancel m u o) t.
Proof.
  intros Ho Hd Hn. unfold task_cancel. destruct (k_done (tasks m u)) eqn:Ed; [exact Hn|].
  set (m1 := upd_task m u (tk_ncancel (S (k_ncancel (tasks m u))))).
  assert (H1 : NHeld m1 t).
  { revert Hn. apply nheld_same; [|auto]. unfold m1. destruct (Nat.eq_dec t u) as [->|Hne];
      [now rewrite upd_task_eq|now rewrite upd_task_ne]. }
  assert (H2 : NHeld (upd_task m1 u (tk_must true o)) t).
  { destruct (Nat.eq_dec t u) as [->|Hne].
    - destruct Ho as [Ho| ->]; [congruence|]. left. rewrite upd_task_eq. now split.
    - revert H1. apply nheld_eq; [now rewrite upd_task_ne|reflexivity]. }
  assert (Ew : k_waiter (tasks m1 u) = k_waiter (tasks m u)) by (unfold m1; now rewrite upd_task_eq).
  destruct (k_waiter (tasks m u)) as [g|] eqn:Ewu; [|exact H2]. destruct (fut_pending m1 g) eqn:Ep; [|exact H2].
  unfold fut_pending in Ep. destruct (f_st (futs m1 g)) eqn:Eg; try discriminate.
  destruct (Nat.eq_dec t u) as [->|Hne].
  - destruct Ho as [Ho| ->]; [congruence|]. right. exists g. rewrite fut_complete_tasks. split; [exact Ew|].
    unfold fut_complete. rewrite Eg. destruct (f_waiter (futs m1 g)); cbn; unfold upd; now rewrite Nat.eqb_refl.
  - revert H1. apply nheld_same; [now rewrite fut_complete_tasks|]. intros f _ Hf. rewrite fut_complete_done; [exact Hf|congruence].
Qed.

Lemma nheld_deliver_top m c t : NHeld m t -> NHeld (deliver_top m c) t.
Proof.
  intros Hn. unfold deliver_top. apply (deliver_inv' (fun a => NHeld a t) c); [| | |exact Hn].
  - intros self a r u Ha. unfold deliver_task. destruct (k_done (tasks a u)) eqn:Hd; [exact Ha|].
    destruct (k_must (tasks a u)) eqn:Hm; [exact Ha|]. destruct (_ && _); [|exact Ha].
    destruct (match k_waiter (tasks a u) with Some f => fut_pending a f | None => true end) eqn:Hw; [|exact Ha].
    cbn [fst].
    assert (Hne : t <> u).
    { intros ->. destruct Ha as [[A _]|[f [A B]]]; [congruence|]. rewrite A in Hw. unfold fut_pending in Hw.
      rewrite B in Hw. discriminate. }
    pose proof (nheld_task_cancel a u (S c) t (or_introl Hne) (or_intror Hne) Ha) as H1.
    destruct (opt_eqb _ u); [|exact H1]. revert H1. apply nheld_eq; reflexivity.
  - intros a b Ha. revert Ha. apply nheld_eq; reflexivity.
  - intros a Ha. revert Ha. apply nheld_eq; reflexivity.
Qed.

(* ====================================================================================================== *)
(* The relation carried through every helper.  U: the tasks whose own record / current scope the step may
   change (the actor, a task created or retired by the step).  Flags: v -- the three walk fields of every
   allocated scope are unchanged; b / f -- a new request may be justified by OC in the state before / after
   the step; e -- the step may end the running segment.                                                      *)
(* ====================================================================================================== *)
Record W (v b f e : bool) (U : list tid) (m m' : st) : Prop := {
  w_to : TO m -> TO m';
  w_k : KInv m -> KInv m';
  w_mp : KInv m -> MP m -> MP m';
  w_ns : nscope m <= nscope m';
  w_nt : ntask m <= ntask m';
  w_cur : forall t, ~ In t U -> k_cur (tasks m' t) = k_cur (tasks m t);
  w_v : v = true -> forall y, y < nscope m -> view3 (scopes m' y) = view3 (scopes m y);
  w_h : TO m -> KInv m -> forall t org, ~ In t U -> Held m' t org ->
        Held m t org \/ (b = true /\ OC m t org) \/ (f = true /\ OC m' t org);
  w_run : e = false -> forall u, running m = Some u -> running m' = Some u;
  w_own : KInv m -> forall u, running m = Some u -> forall org, Held m' u org -> Held m u org;
  w_nh : KInv m -> forall t, ~ In t U -> NHeld m t -> NHeld m' t
}.

Lemma W_refl v b f e U m : W v b f e U m m.
Proof. constructor; auto. Qed.

Lemma W_trans v1 b1 f1 v2 b2 f2 v b f e U m m' m'' :
  W v1 b1 f1 false U m m' -> W v2 b2 f2 e U m' m'' ->
  (v = true -> v1 = true /\ v2 = true) ->
  (b1 = true -> b = true) -> (f2 = true -> f = true) ->
  (b2 = true -> (v1 = true /\ b = true) \/ (v2 = true /\ f = true)) ->
  (f1 = true -> (v2 = true /\ f = true) \/ (v1 = true /\ b = true)) ->
  W v b f e U m m''.
Proof.
  intros H1 H2 Cv Cb Cf Cb2 Cf1. constructor.
  - intros T. apply H2, H1, T.
  - intros K. apply H2, H1, K.
  - intros K M. apply (w_mp _ _ _ _ _ _ _ H2); [apply H1, K|now apply H1].
  - pose proof (w_ns _ _ _ _ _ _ _ H1). pose proof (w_ns _ _ _ _ _ _ _ H2). lia.
  - pose proof (w_nt _ _ _ _ _ _ _ H1). pose proof (w_nt _ _ _ _ _ _ _ H2). lia.
  - intros t Ht. rewrite (w_cur _ _ _ _ _ _ _ H2 t Ht). now apply H1.
  - intros Hv y Hy. destruct (Cv Hv) as [E1 E2]. pose proof (w_ns _ _ _ _ _ _ _ H1).
    rewrite (w_v _ _ _ _ _ _ _ H2 E2 y) by lia. now apply H1.
  - intros T K t org Ht Hh.
    pose proof (w_to _ _ _ _ _ _ _ H1 T) as T'. pose proof (w_k _ _ _ _ _ _ _ H1 K) as K'.
    assert (Bk : v1 = true -> OC m' t org -> OC m t org).
    { intros E. apply (OC_bwd m m'); [apply T|split; [apply H1|apply (w_v _ _ _ _ _ _ _ H1 E)]|now apply H1]. }
    assert (Fw : v2 = true -> OC m' t org -> OC m'' t org).
    { intros E. apply (OC_fwd m' m''); [apply T'|split; [apply H2|apply (w_v _ _ _ _ _ _ _ H2 E)]|now apply H2]. }
    destruct (w_h _ _ _ _ _ _ _ H2 T' K' t org Ht Hh) as [A|[[E A]|[E A]]].
    + destruct (w_h _ _ _ _ _ _ _ H1 T K t org Ht A) as [B|[[E B]|[E B]]].
      * now left.
      * right. left. split; [now apply Cb|exact B].
      * destruct (Cf1 E) as [[E2 E3]|[E2 E3]]; [right; right; split; [exact E3|now apply Fw]|].
        right. left. split; [exact E3|now apply Bk].
    + destruct (Cb2 E) as [[E2 E3]|[E2 E3]]; [right; left; split; [exact E3|now apply Bk]|].
      right. right. split; [exact E3|now apply Fw].
    + right. right. split; [now apply Cf|exact A].
  - intros He u Hr. apply (w_run _ _ _ _ _ _ _ H2 He), (w_run _ _ _ _ _ _ _ H1 eq_refl), Hr.
  - intros K u Hr org Hh. apply (w_own _ _ _ _ _ _ _ H1 K u Hr).
    apply (w_own _ _ _ _ _ _ _ H2 (w_k _ _ _ _ _ _ _ H1 K) u); [|exact Hh].
    apply (w_run _ _ _ _ _ _ _ H1 eq_refl), Hr.
  - intros K t Ht Hn. apply (w_nh _ _ _ _ _ _ _ H2 (w_k _ _ _ _ _ _ _ H1 K) t Ht), (w_nh _ _ _ _ _ _ _ H1 K t Ht), Hn.
Qed.

Lemma W_weaken v b f e U v' b' f' e' U' m m' :
  W v b f e U m m' -> (v' = true -> v = true) -> (b = true -> b' = true) -> (f = true -> f' = true) ->
  (e' = false -> e = false) -> incl U U' -> W v' b' f' e' U' m m'.
Proof.
  intros H Cv Cb Cf Ce I0. constructor.
  - apply H.
  - apply H.
  - apply H.
  - apply H.
  - apply H.
  - intros t Ht. apply H. intros Hin. apply Ht, I0, Hin.
  - intros E. apply H. now apply Cv.
  - intros T K t org Ht Hh. destruct (w_h _ _ _ _ _ _ _ H T K t org) as [A|[[E A]|[E A]]]; auto.
  - intros E. apply H. now apply Ce.
  - apply H.
  - intros K t Ht. apply H; [exact K|]. intros Hin. apply Ht, I0, Hin.
Qed.

(* the kinds that occur *)
Notation WT := (W true false false false).   (* quiet and strict: views kept, no new request *)
Notation WQ := (W true true false false).    (* quiet: views kept, new requests justified in the state before *)
Notation WS := (W false false false false).  (* silent: views may change, no new request *)
Notation WC := (W false false true false).   (* a flag change: new requests justified in the state after *)
Notation WF := (W false true true false).    (* one flag change somewhere inside *)

Lemma WT_trans U a b c : WT U a b -> WT U b c -> WT U a c.
Proof. intros H1 H2. apply (W_trans _ _ _ _ _ _ _ _ _ _ U a b c H1 H2); intuition congruence. Qed.

Lemma WQ_trans U a b c : WQ U a b -> WQ U b c -> WQ U a c.
Proof. intros H1 H2. apply (W_trans _ _ _ _ _ _ _ _ _ _ U a b c H1 H2); intuition congruence. Qed.

Lemma WT_WQ U a b : WT U a b -> WQ U a b.
Proof. intros H. apply (W_weaken _ _ _ _ _ _ _ _ _ _ a b H); auto; try discriminate. apply incl_refl. Qed.

Lemma WT_WS U a b : WT U a b -> WS U a b.
Proof. intros H. apply (W_weaken _ _ _ _ _ _ _ _ _ _ a b H); auto; try discriminate. apply incl_refl. Qed.

Lemma WF_l U a b c : WQ U a b -> WF U b c -> WF U a c.
Proof. intros H1 H2. apply (W_trans _ _ _ _ _ _ _ _ _ _ U a b c H1 H2); intuition congruence. Qed.

Lemma WF_r U a b c : WF U a b -> WQ U b c -> WF U a c.
Proof. intros H1 H2. apply (W_trans _ _ _ _ _ _ _ _ _ _ U a b c H1 H2); intuition congruence. Qed.

Lemma WQ_WF U a b : WQ U a b -> WF U a b.
Proof. intros H. apply (W_weaken _ _ _ _ _ _ _ _ _ _ a b H); auto; try discriminate. apply incl_refl. Qed.

Lemma WS_WF U a b : WS U a b -> WF U a b.
Proof. intros H. apply (W_weaken _ _ _ _ _ _ _ _ _ _ a b H); auto; try discriminate. apply incl_refl. Qed.

Lemma W_incl v b f e U U' a c : incl U U' -> W v b f e U a c -> W v b f e U' a c.
Proof. intros I0 H. apply (W_weaken _ _ _ _ _ _ _ _ _ _ a c H); auto. Qed.

(* ---------------- constructors ---------------- *)
(* a step that keeps the tree fields and the walk views, and places no request on anybody *)
Lemma WT_light U m m' :
  treq m m' -> (KInv m -> KInv m') -> (KInv m -> MP m -> MP m') ->
  (forall y, view3 (scopes m' y) = view3 (scopes m y)) ->
  (KInv m -> forall t org, Held m' t org -> Held m t org) ->
  (KInv m -> forall t, ~ In t U -> NHeld m t -> NHeld m' t) ->
  running m' = running m -> WT U m m'.
Proof.
  intros Q K Mp V H Nh R. constructor.
  - intros T. now apply (TO_treq m).
  - exact K.
  - exact Mp.
  - rewrite (tq_nscope _ _ Q). lia.
  - rewrite (tq_ntask _ _ Q). lia.
  - intros t _. apply (tq_cur _ _ Q).
  - intros _ y _. apply V.
  - intros _ Kk t org _ Hh. left. now apply H.
  - intros _ u Hr. now rewrite R.
  - intros Kk u _ org. now apply H.
  - exact Nh.
Qed.

Lemma view3_same a b : scopes b = scopes a -> forall y, view3 (scopes b y) = view3 (scopes a y).
Proof. intros E y. now rewrite E. Qed.

Lemma vw_view3 a b : sc_view a = sc_view b -> view3 a = view3 b.
Proof. unfold sc_view, view3. intros E. now inversion E. Qed.

Lemma dq_view3 a b : dq a b -> forall y, view3 (scopes b y) = view3 (scopes a y).
Proof. intros Q y. apply vw_view3, (dq_scope _ _ Q). Qed.

(* steps that keep every task's request fields and every future *)
Lemma held_tasks_futs m m' : (forall t, hcore (tasks m' t) = hcore (tasks m t)) -> futs m' = futs m ->
  forall t org, Held m' t org -> Held m t org.
Proof. intros E F t. apply held_same; [apply E|]. intros f o _. now rewrite F. Qed.

Lemma WT_upd_task U m u g : (forall k, tk_tree (g k) = tk_tree k) -> (forall k, hcore (g k) = hcore k) ->
  WT U m (upd_task m u g).
Proof.
  intros Hg Hh. apply WT_light.
  - now apply treq_upd_task.
  - intros K. apply (KInv_kq m); [exact K|]. apply kq_upd_task. intros k. left.
    pose proof (Hh k) as E. unfold hcore in E. now inversion E.
  - intros _. apply MP_frame; [|auto]. intros t. left. cbn [tasks upd_task set_tasks]. unfold upd.
    destruct (Nat.eqb_spec t u); [subst; apply Hh|reflexivity].
  - intros y. reflexivity.
  - intros _. apply held_tasks_futs; [|reflexivity]. intros t. cbn [tasks upd_task set_tasks]. unfold upd.
    destruct (Nat.eqb_spec t u); [subst; apply Hh|reflexivity].
  - intros _ t _. apply nheld_same; [|auto]. cbn [tasks upd_task set_tasks]. unfold upd.
    destruct (Nat.eqb_spec t u); [subst; apply Hh|reflexivity].
  - reflexivity.
Qed.

Lemma WT_same U m m' :
  treq m m' -> tasks m' = tasks m -> futs m' = futs m -> nfut m' = nfut m ->
  (forall y, view3 (scopes m' y) = view3 (scopes m y)) -> running m' = running m -> WT U m m'.
Proof.
  intros Q Et Ef En V R. apply WT_light; auto.
  - intros K. apply (KInv_kq m); [exact K|]. now apply kq_tasks_same.
  - intros _. now apply MP_same.
  - intros _. apply held_tasks_futs; [|exact Ef]. intros t. now rewrite Et.
  - intros _ t _. apply nheld_eq; [now rewrite Et|exact Ef].
Qed.

Lemma WT_upd_group U m g h : (forall k, gr_tree (h k) = gr_tree k) -> WT U m (upd_group m g h).
Proof. intros Hh. apply WT_same; try reflexivity. now apply treq_upd_group. Qed.

Lemma WT_set_running_same U m : WT U m (set_running m (running m)).
Proof. apply WT_same; try reflexivity. apply treq_set_running. Qed.

Lemma WT_call_soon U m h : WT U m (call_soon m h).
Proof. apply WT_same; try reflexivity. apply treq_call_soon. Qed.

Lemma WT_set_ctl U m u c : WT U m (set_ctl m u c).
Proof. apply WT_upd_task; intros k; reflexivity. Qed.

Lemma WT_bare_yield U m u : WT U m (bare_yield m u).
Proof. apply WT_call_soon. Qed.

(* scope fields outside the tree and the walk *)
Lemma WT_upd_scope U m c g :
  (forall k, sc_tree (g k) = sc_tree k) -> (forall k, view3 (g k) = view3 k) -> WT U m (upd_scope m c g).
Proof.
  intros H1 H2. apply WT_same; try reflexivity; [now apply treq_upd_scope|].
  intros y. cbn [scopes upd_scope set_scopes]. unfold upd. destruct (Nat.eqb_spec y c); [subst; apply H2|reflexivity].
Qed.

(* ---------------- kernel primitives ---------------- *)
Lemma WT_fut_complete U m g v : (forall o, v <> FCanc (S o)) -> WT U m (fut_complete m g v).
Proof.
  intros Hv. apply WT_light.
  - apply treq_fut_complete.
  - intros K. apply (KInv_kq m); [exact K|apply kq_kframe, kframe_fut_complete].
  - intros _. apply MP_frame; [intros t; left; now rewrite fut_complete_tasks|apply fut_complete_pend].
  - apply dq_view3, dq_fut_complete.
  - intros _ t. apply held_same; [now rewrite fut_complete_tasks|].
    intros f o _. unfold fut_complete. destruct (f_st (futs m g)) eqn:Eg; auto.
    destruct (f_waiter (futs m g)); cbn; unfold upd; destruct (Nat.eqb_spec f g); auto; subst; cbn; intros E;
      exfalso; apply (Hv o); exact E.
  - intros _ t _. apply nheld_same; [now rewrite fut_complete_tasks|]. intros f _ Hf.
    rewrite fut_complete_done; [exact Hf|congruence].
  - apply (kf_running _ _ (kframe_fut_complete m g v)).
Qed.

Lemma KInv_new_fut m : KInv m -> KInv (fst (new_fut m)).
Proof.
  intros [A L]. constructor.
  - intros x y Hw. cbn in *. pose proof (A x y Hw). lia.
  - intros x y Hw Hp. cbn in *. pose proof (A x y Hw) as Hy. unfold upd in *.
    destruct (Nat.eqb_spec y (nfut m)); [lia|]. now apply L.
Qed.

Lemma WT_new_fut U m : WT U m (fst (new_fut m)).
Proof.
  apply WT_light.
  - apply treq_new_fut.
  - apply KInv_new_fut.
  - intros K M t f Hm Hw. cbn in *. unfold upd. pose proof (k_alloc _ K t f Hw).
    destruct (Nat.eqb_spec f (nfut m)); [lia|now apply (M t f)].
  - intros y. reflexivity.
  - intros _ t. apply held_same; [reflexivity|]. intros f o _. cbn. unfold upd.
    destruct (Nat.eqb_spec f (nfut m)); [discriminate|auto].
  - intros K t _. apply nheld_same; [reflexivity|]. intros f Hf. cbn. unfold upd.
    pose proof (k_alloc _ K t f Hf). destruct (Nat.eqb_spec f (nfut m)); [lia|auto].
  - reflexivity.
Qed.

Lemma K_suspend_fresh m u f : KInv m -> futs m f = fut0 -> f < nfut m -> KInv (suspend_on m u f).
Proof.
  intros [A2 L2] Ef Hf.
  assert (Fresh : forall x, k_waiter (tasks m x) <> Some f).
  { intros x Hx. assert (Hp : f_st (futs m f) = FPend) by now rewrite Ef.
    pose proof (L2 x f Hx Hp) as E. rewrite Ef in E. discriminate. }
  unfold suspend_on.
  set (s3 := upd_task (upd_fut m f (fun x => mkFut (f_st x) (Some u))) u (tk_waiter (Some f))).
  assert (K3 : KInv s3).
  { constructor.
    - intros x y Hw. unfold s3 in *. cbn in *. unfold upd in Hw.
      destruct (Nat.eqb_spec x u); [inversion Hw; subst; exact Hf|now apply (A2 x y)].
    - intros x y Hw Hp. unfold s3 in *. cbn in *. unfold upd in *.
      destruct (Nat.eqb_spec x u) as [->|Hx].
      + inversion Hw; subst y. now rewrite Nat.eqb_refl.
      + destruct (Nat.eqb_spec y f) as [->|Hy]; [now elim (Fresh x)|]. now apply L2. }
  destruct (f_st (futs m f)).
  - destruct (k_must (tasks m u)); [|exact K3].
    apply (KInv_kq s3); [exact K3|]. eapply kq_trans; [apply kq_kframe, kframe_fut_complete|].
    apply kq_upd_task. intros k; now left.
  - apply (KInv_kq s3); [exact K3|]. apply kq_tasks_same; reflexivity.
  - apply (KInv_kq s3); [exact K3|]. apply kq_tasks_same; reflexivity.
  - apply (KInv_kq s3); [exact K3|]. apply kq_tasks_same; reflexivity.
Qed.

Lemma held_suspend_fresh m u f : KInv m -> futs m f = fut0 ->
  forall t org, Held (suspend_on m u f) t org -> Held m t org.
Proof.
  intros [_ L] Ef t org.
  assert (Ep : f_st (futs m f) = FPend) by now rewrite Ef.
  assert (Fresh : forall x, k_waiter (tasks m x) <> Some f).
  { intros x Hx. pose proof (L x f Hx Ep) as E. rewrite Ef in E. discriminate. }
  unfold suspend_on. rewrite Ep.
  set (s1 := upd_fut m f (fun x => mkFut (f_st x) (Some u))).
  set (s2 := upd_task s1 u (tk_waiter (Some f))).
  assert (E2 : forall g, g <> f -> futs s2 g = futs m g).
  { intros g Hg. unfold s2, s1. cbn. unfold upd. destruct (Nat.eqb_spec g f); [contradiction|reflexivity]. }
  assert (P2 : f_st (futs s2 f) = FPend) by (unfold s2, s1; cbn; unfold upd; rewrite Nat.eqb_refl; exact Ep).
  assert (T2 : forall x, x <> u -> tasks s2 x = tasks m x).
  { intros x Hx. unfold s2, s1. cbn. unfold upd. destruct (Nat.eqb_spec x u); [contradiction|reflexivity]. }
  assert (U2 : tasks s2 u = tk_waiter (Some f) (tasks m u)).
  { unfold s2, s1. cbn. unfold upd. now rewrite Nat.eqb_refl. }
  destruct (k_must (tasks m u)) eqn:Em.
  - set (s3 := fut_complete s2 f (FCanc (k_msg (tasks m u)))).
    assert (T3 : tasks s3 = tasks s2) by apply fut_complete_tasks.
    assert (F3 : forall g, g <> f -> futs s3 g = futs s2 g).
    { intros g Hg. unfold s3, fut_complete. rewrite P2. destruct (f_waiter (futs s2 f)); cbn; unfold upd;
        destruct (Nat.eqb_spec g f); try contradiction; reflexivity. }
    assert (G3 : f_st (futs s3 f) = FCanc (k_msg (tasks m u))).
    { unfold s3, fut_complete. rewrite P2. destruct (f_waiter (futs s2 f)); cbn; unfold upd; now rewrite Nat.eqb_refl. }
    destruct (Nat.eq_dec t u) as [->|Hne].
    + intros [[A _]|[g [A B]]]; cbn [tasks upd_task set_tasks futs] in *; unfold upd in *; rewrite Nat.eqb_refl in *;
        cbn in *; [discriminate|]. rewrite T3, U2 in A. cbn in A. injection A as <-. rewrite G3 in B.
      injection B as B. left. now split.
    + intros [[A B]|[g [A B]]]; cbn [tasks upd_task set_tasks futs] in *; unfold upd in *;
        destruct (Nat.eqb_spec t u); try contradiction; rewrite T3, (T2 t Hne) in *.
      * left. now split.
      * right. exists g. split; [exact A|]. assert (Hg : g <> f) by (intros ->; now apply (Fresh t)).
        now rewrite <- (E2 g Hg), <- (F3 g Hg).
  - destruct (Nat.eq_dec t u) as [->|Hne].
    + intros [[A _]|[g [A B]]]; rewrite U2 in A; cbn in A; [congruence|]. injection A as <-. congruence.
    + intros [[A B]|[g [A B]]]; rewrite (T2 t Hne) in *.
      * left. now split.
      * right. exists g. split; [exact A|]. assert (Hg : g <> f) by (intros ->; now apply (Fresh t)).
        now rewrite <- (E2 g Hg).
Qed.

Lemma MP_suspend_fresh m u f : KInv m -> futs m f = fut0 -> MP m -> MP (suspend_on m u f).
Proof.
  intros [_ L] Ef M.
  assert (Ep : f_st (futs m f) = FPend) by now rewrite Ef.
  assert (Fresh : forall x, k_waiter (tasks m x) <> Some f).
  { intros x Hx. pose proof (L x f Hx Ep) as E. rewrite Ef in E. discriminate. }
  unfold suspend_on. rewrite Ep.
  set (s1 := upd_fut m f (fun x => mkFut (f_st x) (Some u))).
  set (s2 := upd_task s1 u (tk_waiter (Some f))).
  assert (P2 : forall g, f_st (futs s2 g) = f_st (futs m g)).
  { intros g. unfold s2, s1. cbn. unfold upd. destruct (Nat.eqb_spec g f); [subst|]; reflexivity. }
  destruct (k_must (tasks m u)) eqn:Em.
  - intros t g Hm Hw. destruct (Nat.eq_dec t u) as [->|Hne]; [rewrite upd_task_eq in Hm; cbn in Hm; discriminate|].
    rewrite upd_task_ne in Hm, Hw by exact Hne. rewrite fut_complete_tasks in Hm, Hw. unfold s2 in Hm, Hw.
    rewrite upd_task_ne in Hm, Hw by exact Hne. change (tasks s1 t) with (tasks m t) in Hm, Hw.
    intros Hp. change (futs (upd_task (fut_complete s2 f (FCanc (k_msg (tasks m u)))) u (tk_must false (k_msg (tasks m u)))))
      with (futs (fut_complete s2 f (FCanc (k_msg (tasks m u))))) in Hp.
    apply fut_complete_pend in Hp. rewrite P2 in Hp. now apply (M t g).
  - intros t g Hm Hw. destruct (Nat.eq_dec t u) as [->|Hne].
    + unfold s2 in Hm. rewrite upd_task_eq in Hm. cbn in Hm. change (tasks s1 u) with (tasks m u) in Hm. congruence.
    + unfold s2 in Hm, Hw. rewrite upd_task_ne in Hm, Hw by exact Hne. change (tasks s1 t) with (tasks m t) in Hm, Hw.
      rewrite P2. now apply (M t g).
Qed.

Lemma nheld_suspend_fresh m u f : KInv m -> futs m f = fut0 ->
  forall t, t <> u -> NHeld m t -> NHeld (suspend_on m u f) t.
Proof.
  intros [_ L] Ef t Hne.
  assert (Ep : f_st (futs m f) = FPend) by now rewrite Ef.
  assert (Fresh : forall x, k_waiter (tasks m x) <> Some f).
  { intros x Hx. pose proof (L x f Hx Ep) as E. rewrite Ef in E. discriminate. }
  unfold suspend_on. rewrite Ep.
  set (s1 := upd_fut m f (fun x => mkFut (f_st x) (Some u))).
  set (s2 := upd_task s1 u (tk_waiter (Some f))).
  assert (E2 : forall g, g <> f -> futs s2 g = futs m g).
  { intros g Hg. unfold s2, s1. cbn. unfold upd. destruct (Nat.eqb_spec g f); [contradiction|reflexivity]. }
  assert (T2 : tasks s2 t = tasks m t).
  { unfold s2, s1. cbn. unfold upd. destruct (Nat.eqb_spec t u); [contradiction|reflexivity]. }
  assert (H2 : NHeld m t -> NHeld s2 t).
  { apply nheld_same; [now rewrite T2|]. intros g Hg Hc. rewrite E2; [exact Hc|]. intros ->. now apply (Fresh t). }
  destruct (k_must (tasks m u)); [|exact H2]. intros Hn. apply H2 in Hn.
  revert Hn. apply nheld_same.
  - rewrite upd_task_ne by exact Hne. now rewrite fut_complete_tasks.
  - intros g _ Hc. change (futs (upd_task (fut_complete s2 f (FCanc (k_msg (tasks m u)))) u (tk_must false (k_msg (tasks m u)))))
      with (futs (fut_complete s2 f (FCanc (k_msg (tasks m u))))). rewrite fut_complete_done; [exact Hc|congruence].
Qed.

Lemma WT_suspend_fresh U m u f : In u U -> futs m f = fut0 -> f < nfut m -> WT U m (suspend_on m u f).
Proof.
  intros Hin Ef Hf. apply WT_light.
  - apply treq_suspend_on.
  - intros K. now apply K_suspend_fresh.
  - intros K. now apply MP_suspend_fresh.
  - apply view3_same, (proj1 (ss_suspend_on m u f)).
  - intros K. now apply held_suspend_fresh.
  - intros K t Ht. apply nheld_suspend_fresh; auto. intros ->. contradiction.
  - apply (proj2 (suspend_on_cnt m u f)).
Qed.

Lemma WT_park U m u : In u U -> WT U m (park m u).
Proof.
  intros Hin. unfold park. cbn [new_fut]. unfold new_fut.
  set (m1 := fst (new_fut m)).
  apply (WT_trans U m (suspend_on m1 u (nfut m))); [|apply WT_set_ctl].
  apply (WT_trans U m m1); [apply WT_new_fut|].
  apply WT_suspend_fresh; [exact Hin|unfold m1; cbn; unfold upd; now rewrite Nat.eqb_refl|unfold m1; cbn; lia].
Qed.


(* the general light constructor, for steps that start or end a running segment *)
Lemma W_light e U m m' :
  treq m m' -> (KInv m -> KInv m') -> (KInv m -> MP m -> MP m') ->
  (forall y, view3 (scopes m' y) = view3 (scopes m y)) ->
  (KInv m -> forall t org, Held m' t org -> Held m t org) ->
  (KInv m -> forall t, ~ In t U -> NHeld m t -> NHeld m' t) ->
  (e = false -> forall u, running m = Some u -> running m' = Some u) -> W true false false e U m m'.
Proof.
  intros Q K Mp V H Nh R. constructor.
  - intros T. now apply (TO_treq m).
  - exact K.
  - exact Mp.
  - rewrite (tq_nscope _ _ Q). lia.
  - rewrite (tq_ntask _ _ Q). lia.
  - intros t _. apply (tq_cur _ _ Q).
  - intros _ y _. apply V.
  - intros _ Kk t org _ Hh. left. now apply H.
  - exact R.
  - intros Kk u _ org. now apply H.
  - exact Nh.
Qed.

Notation WTE := (W true false false true).
Notation WQE := (W true true false true).
Notation WFE := (W false true true true).

Lemma WTE_l U a b c : WT U a b -> WTE U b c -> WTE U a c.
Proof. intros H1 H2. apply (W_trans _ _ _ _ _ _ _ _ _ _ U a b c H1 H2); intuition congruence. Qed.
Lemma WQE_l U a b c : WQ U a b -> WQE U b c -> WQE U a c.
Proof. intros H1 H2. apply (W_trans _ _ _ _ _ _ _ _ _ _ U a b c H1 H2); intuition congruence. Qed.
Lemma WTE_WQE U a b : WTE U a b -> WQE U a b.
Proof. intros H. apply (W_weaken _ _ _ _ _ _ _ _ _ _ a b H); auto; try discriminate. apply incl_refl. Qed.
Lemma WFE_l U a b c : WQ U a b -> WFE U b c -> WFE U a c.
Proof. intros H1 H2. apply (W_trans _ _ _ _ _ _ _ _ _ _ U a b c H1 H2); intuition congruence. Qed.
Lemma WFE_r U a b c : WF U a b -> WQE U b c -> WFE U a c.
Proof. intros H1 H2. apply (W_trans _ _ _ _ _ _ _ _ _ _ U a b c H1 H2); intuition congruence. Qed.
Lemma WT_WTE U a b : WT U a b -> WTE U a b.
Proof. intros H. apply (W_weaken _ _ _ _ _ _ _ _ _ _ a b H); auto; try discriminate. apply incl_refl. Qed.
Lemma WQE_WFE U a b : WQE U a b -> WFE U a b.
Proof. intros H. apply (W_weaken _ _ _ _ _ _ _ _ _ _ a b H); auto; try discriminate. apply incl_refl. Qed.
Lemma WF_WFE U a b : WF U a b -> WFE U a b.
Proof. intros H. apply (W_weaken _ _ _ _ _ _ _ _ _ _ a b H); auto; try discriminate. apply incl_refl. Qed.

Lemma WTE_set_running U m v : WTE U m (set_running m v).
Proof.
  apply W_light; try discriminate.
  - apply treq_set_running.
  - intros K. apply (KInv_kq m); [exact K|apply kq_set_running].
  - intros _. apply MP_same; reflexivity.
  - intros y; reflexivity.
  - intros _. apply held_tasks_futs; [intros t|]; reflexivity.
  - intros _ t _. apply nheld_eq; reflexivity.
Qed.

Lemma WT_begin_act U m u : In u U -> running m = None -> WT U m (begin_act m u).
Proof.
  intros Hin Hr. apply W_light.
  - apply treq_begin_act.
  - intros K. apply (KInv_kq m); [exact K|apply kq_begin_act].
  - intros _ M t f Hm Hw. cbn [begin_act tasks futs set_running upd_task set_tasks] in *. unfold upd in *.
    destruct (Nat.eqb_spec t u); [subst; cbn in Hw; discriminate|now apply (M t f)].
  - intros y; reflexivity.
  - intros _ t org [[A B]|[f [A B]]]; cbn [begin_act tasks futs set_running upd_task set_tasks] in *; unfold upd in *;
      destruct (Nat.eqb_spec t u); subst; cbn in *.
    + left. now split.
    + left. now split.
    + discriminate.
    + right. now exists f.
  - intros _ t Ht. apply nheld_eq; [|reflexivity]. cbn. unfold upd. destruct (Nat.eqb_spec t u); [subst; contradiction|reflexivity].
  - intros _ v Hv. congruence.
Qed.

Lemma WT_incoming U m u fo : In u U -> running m = None -> WT U m (fst (incoming m u fo)).
Proof.
  intros Hin Hr. apply W_light.
  - apply treq_incoming.
  - intros K. apply (KInv_kq m); [exact K|apply kq_incoming].
  - intros _ M t f Hm Hw. cbn [incoming fst tasks futs set_running upd_task set_tasks] in *. unfold upd in *.
    destruct (Nat.eqb_spec t u); [subst; cbn in Hw; discriminate|now apply (M t f)].
  - intros y; reflexivity.
  - intros _ t org [[A B]|[f [A B]]]; cbn [incoming fst tasks futs set_running upd_task set_tasks] in *; unfold upd in *;
      destruct (Nat.eqb_spec t u); subst; cbn in *.
    + discriminate.
    + left. now split.
    + discriminate.
    + right. now exists f.
  - intros _ t Ht. apply nheld_eq; [|reflexivity]. cbn. unfold upd. destruct (Nat.eqb_spec t u); [subst; contradiction|reflexivity].
  - intros _ v Hv. congruence.
Qed.

Lemma WTE_ret U m u r : In u U -> WTE U m (fst (ret_to_puppet m u r)).
Proof.
  intros Hin. unfold ret_to_puppet. cbn [fst].
  set (m1 := match r with RExc e => upd_task m u (tk_held (Some e)) | _ => m end).
  assert (H1 : WT U m m1).
  { unfold m1. destruct r; try apply W_refl. apply WT_upd_task; intros k; reflexivity. }
  apply (WTE_l U m (park m1 u)); [|apply WTE_set_running].
  apply (WT_trans U m m1); [exact H1|now apply WT_park].
Qed.

Lemma WTE_blocked U m : WTE U m (fst (blocked m)).
Proof. apply WTE_set_running. Qed.

Lemma WTE_finish_task U m u o : In u U -> WTE U m (finish_task m u o).
Proof.
  intros Hin. apply W_light; try discriminate.
  - apply treq_finish_task.
  - intros K. apply (KInv_kq m); [exact K|apply kq_finish_task].
  - intros _ M t f. unfold finish_task. set (m1 := upd_task m u _).
    assert (E : forall X, tasks X = tasks m1 -> futs X = futs m ->
                k_must (tasks X t) = true -> k_waiter (tasks X t) = Some f -> f_st (futs X f) <> FPend).
    { intros X Et Ef Hm Hw. rewrite Et in Hm, Hw. rewrite Ef. unfold m1 in *.
      destruct (Nat.eq_dec t u) as [->|Hne]; [rewrite upd_task_eq in Hm; cbn in Hm; discriminate|].
      rewrite upd_task_ne in Hm, Hw by exact Hne. now apply (M t f). }
    destruct (k_group (tasks m u)); apply E; reflexivity.
  - apply view3_same, (proj1 (ss_finish_task m u o)).
  - intros _ t org. unfold finish_task.
    set (m1 := upd_task m u _).
    assert (E : forall X, tasks X = tasks m1 -> futs X = futs m -> Held X t org -> Held m t org).
    { intros X Et Ef [[A B]|[f [A B]]]; rewrite Et in *; unfold m1 in *; cbn [tasks upd_task set_tasks] in *; unfold upd in *;
        destruct (Nat.eqb_spec t u); subst; cbn in *; try discriminate.
      - left. now split.
      - right. exists f. now rewrite <- Ef. }
    destruct (k_group (tasks m u)); apply E; reflexivity.
  - intros _ t Ht. unfold finish_task. set (m1 := upd_task m u _).
    assert (Hne : t <> u) by (intros ->; contradiction).
    assert (E : forall X, tasks X = tasks m1 -> futs X = futs m -> NHeld m t -> NHeld X t).
    { intros X Et Ef. apply nheld_eq; [|exact Ef]. rewrite Et. unfold m1. now rewrite upd_task_ne. }
    destruct (k_group (tasks m u)); apply E; reflexivity.
Qed.

Lemma WT_task_cancel_native U m u : WT U m (task_cancel m u 0).
Proof.
  apply WT_light.
  - apply treq_task_cancel.
  - intros K. apply (KInv_kq m); [exact K|apply kq_kframe, kframe_task_cancel].
  - intros _. apply MP_task_cancel.
  - apply dq_view3, dq_task_cancel.
  - intros _ t org. unfold task_cancel. destruct (k_done (tasks m u)); [auto|].
    set (m1 := upd_task m u (tk_ncancel (S (k_ncancel (tasks m u))))).
    assert (H1 : Held m1 t org -> Held m t org).
    { apply held_same; [|intros f o _; auto]. unfold m1. destruct (Nat.eq_dec t u) as [->|Hne];
        [now rewrite upd_task_eq|now rewrite upd_task_ne]. }
    assert (H2 : Held (upd_task m1 u (tk_must true 0)) t org -> Held m t org).
    { intros Hh. apply H1. destruct (Nat.eq_dec t u) as [->|Hne].
      - destruct Hh as [[A B]|[f [A B]]]; rewrite upd_task_eq in *; [cbn in B; discriminate|].
        right. exists f. split; [exact A|exact B].
      - destruct Hh as [[A B]|[f [A B]]]; rewrite upd_task_ne in * by exact Hne; [left; now split|right; now exists f]. }
    destruct (k_waiter (tasks m u)) as [g|]; [|exact H2]. destruct (fut_pending m1 g); [|exact H2].
    intros Hh. apply H1. revert Hh. apply held_same; [now rewrite fut_complete_tasks|].
    intros f o _. unfold fut_complete. destruct (f_st (futs m1 g)); auto.
    destruct (f_waiter (futs m1 g)); cbn; unfold upd; destruct (Nat.eqb_spec f g); auto; discriminate.
  - intros _ t _ Hn. destruct (k_done (tasks m u)) eqn:Ed.
    + unfold task_cancel. now rewrite Ed.
    + apply nheld_task_cancel; auto.
  - apply (kf_running _ _ (kframe_task_cancel m u 0)).
Qed.

Lemma WT_task_uncancel U m u : WT U m (task_uncancel m u).
Proof. apply WT_upd_task; intros k; reflexivity. Qed.

Lemma WT_iter_uncancel U n u : forall m, WT U m (iter n (fun a => task_uncancel a u) m).
Proof.
  induction n as [|n IH]; intros m; cbn [iter]; [apply W_refl|].
  apply (WT_trans U m (task_uncancel m u)); [apply WT_task_uncancel|apply IH].
Qed.

Lemma WT_timer_cancel U m tm : WT U m (timer_cancel m tm).
Proof. apply WT_same; try reflexivity. apply treq_timer_cancel. Qed.

Lemma WT_cancel_timeout U m c : WT U m (cancel_timeout m c).
Proof.
  unfold cancel_timeout. destruct (s_timeout (scopes m c)) as [tm|]; [|apply W_refl].
  apply (WT_trans U m (timer_cancel m tm)); [apply WT_timer_cancel|]. apply WT_upd_scope; intros k; reflexivity.
Qed.

Lemma WT_call_at U m w x : WT U m (fst (call_at m w x)).
Proof. apply WT_same; try reflexivity. apply treq_call_at. Qed.

Lemma WT_tick U m dt : WT U m (tick m dt).
Proof. apply WT_same; try reflexivity. apply treq_tick. Qed.

Lemma WT_fold_fut_complete U v fs : (forall o, v <> FCanc (S o)) ->
  forall m, WT U m (fold_left (fun a f => fut_complete a f v) fs m).
Proof.
  intros Hv. induction fs as [|f fs IH]; intros m; cbn [fold_left]; [apply W_refl|].
  apply (WT_trans U m (fut_complete m f v)); [now apply WT_fut_complete|apply IH].
Qed.

Lemma WT_upd_event U m e g : WT U m (upd_event m e g).
Proof. apply WT_same; try reflexivity. apply treq_upd_event. Qed.

Lemma WT_event_set U m e : WT U m (event_set m e).
Proof.
  unfold event_set. destruct (e_set (events m e)); [apply W_refl|].
  match goal with |- _ (fold_left _ _ ?m1) => apply (WT_trans U m m1) end; [apply WT_upd_event|].
  apply WT_fold_fut_complete. discriminate.
Qed.

Lemma WT_event_unwait U m e fo : WT U m (event_unwait m e fo).
Proof. destruct fo; [apply WT_upd_event|apply W_refl]. Qed.

Lemma WT_event_wait U m u e : In u U -> WT U m (fst (event_wait m u e)).
Proof.
  intros Hin. unfold event_wait. destruct (e_set (events m e)); cbn [fst]; [apply WT_bare_yield|].
  unfold new_fut. cbn [fst].
  match goal with |- _ (suspend_on (upd_event ?m1 ?e ?g) u ?f) => apply (WT_trans U m (upd_event m1 e g)) end.
  - match goal with |- _ (upd_event ?m1 ?e ?g) => apply (WT_trans U m m1) end; [apply (WT_new_fut U m)|apply WT_upd_event].
  - apply WT_suspend_fresh; [exact Hin|cbn; unfold upd; now rewrite Nat.eqb_refl|cbn; lia].
Qed.

(* ---------------- scopes: creation, deliveries, flag changes ---------------- *)
Lemma WT_new_scope U m d sh : WT U m (fst (new_scope m d sh)).
Proof.
  assert (Es : forall y, y <> nscope m -> scopes (fst (new_scope m d sh)) y = scopes m y).
  { intros y Hy. cbn. unfold upd. destruct (Nat.eqb_spec y (nscope m)); [contradiction|reflexivity]. }
  assert (En : scopes (fst (new_scope m d sh)) (nscope m) = sc_shield sh (sc_deadline d scope0)).
  { cbn. unfold upd. now rewrite Nat.eqb_refl. }
  constructor.
  - intros [T C]. constructor; [constructor|].
    + intros p c Hc. destruct (Nat.eq_dec p (nscope m)) as [->|Hp]; [rewrite En in Hc; destruct Hc|].
      rewrite (Es p Hp) in Hc. pose proof (C p c Hc). rewrite Es by lia. now apply T.
    + intros t x Hx. destruct (Nat.eq_dec x (nscope m)) as [->|Hp]; [rewrite En in Hx; destruct Hx|].
      rewrite (Es x Hp) in Hx. now apply T.
    + intros y p Hy. cbn [nscope new_scope fst]. destruct (Nat.eq_dec y (nscope m)) as [->|Hp]; [rewrite En in Hy; discriminate|].
      rewrite (Es y Hp) in Hy. pose proof (to_pa _ T y p Hy). lia.
    + intros t x Hx. cbn [nscope new_scope fst]. pose proof (to_cu _ T t x Hx). lia.
    + intros t x Hx. apply (to_ct _ T t x Hx).
    + intros p c Hc. cbn [nscope new_scope fst]. destruct (Nat.eq_dec p (nscope m)) as [->|Hp]; [rewrite En in Hc; destruct Hc|].
      rewrite (Es p Hp) in Hc. pose proof (C p c Hc). lia.
  - intros K. apply (KInv_kq m); [exact K|apply kq_new_scope].
  - intros _. apply MP_same; reflexivity.
  - cbn. lia.
  - cbn. lia.
  - intros t _. reflexivity.
  - intros _ y Hy. rewrite Es by lia. reflexivity.
  - intros _ _ t org _ Hh. left. revert Hh. apply held_eq; reflexivity.
  - intros _ u Hu. exact Hu.
  - intros _ u _ org. apply held_eq; reflexivity.
  - intros _ t _. apply nheld_eq; reflexivity.
Qed.

Lemma KInv_wl m : KInv m -> wait_link m.
Proof. intros K. apply K. Qed.

Lemma WQ_deliver_top U m c : s_cancelled (scopes m c) = true -> WQ U m (deliver_top m c).
Proof.
  intros Hc. pose proof (kframe_deliver_top m c) as K. constructor.
  - intros T. apply (TO_treq m); [exact T|apply treq_deliver_top].
  - intros Kk. apply (KInv_kq m); [exact Kk|now apply kq_kframe].
  - intros _. apply MP_deliver_top.
  - rewrite (kf_nscope _ _ K). lia.
  - rewrite (kf_ntask _ _ K). lia.
  - intros t _. apply (tq_cur _ _ (treq_deliver_top m c)).
  - intros _ y _. apply view3_core, (kf_scopes _ _ K).
  - intros T Kk t org _ Hh. destruct (held_deliver_top m c (to_w _ T) (KInv_wl m Kk) Hc t org Hh) as [H|H]; auto.
  - intros _ u Hu. now rewrite (kf_running _ _ K).
  - intros Kk u Hu org Hh. destruct (dlog_deliver m c (KInv_wl m Kk) (S (nscope m)) c) as [_ D].
    destruct (D u) as [_ D2]. destruct (D2 org Hh) as [H|[_ Hn]]; [exact H|].
    change (fst (deliver (S (nscope m)) m c c)) with (deliver_top m c) in Hn.
    rewrite (deliver_top_running m c u Hu) in Hn. lia.
  - intros _ t _. apply nheld_deliver_top.
Qed.

Lemma WQ_restart U m x : WQ U m (restart m x).
Proof.
  unfold restart. generalize (nscope m) as fuel. intros fuel. revert x.
  induction fuel as [|fu IH]; intros x; [apply W_refl|]. destruct x as [c|]; [|apply W_refl].
  cbn [restart_from]. destruct (s_cancelled (scopes m c)) eqn:Ec.
  - destruct (s_chandle (scopes m c)); [apply W_refl|now apply WQ_deliver_top].
  - destruct (s_shield (scopes m c)); [apply W_refl|apply IH].
Qed.

(* a scope field outside the tree *)
Lemma WS_upd_scope U m c g : (forall k, sc_tree (g k) = sc_tree k) -> WS U m (upd_scope m c g).
Proof.
  intros Hg. constructor.
  - intros T. apply (TO_treq m); [exact T|now apply treq_upd_scope].
  - intros K. apply (KInv_kq m); [exact K|apply kq_upd_scope].
  - intros _. apply MP_same; reflexivity.
  - cbn. lia.
  - cbn. lia.
  - intros t _. reflexivity.
  - discriminate.
  - intros _ _ t org _ Hh. left. revert Hh. apply held_eq; reflexivity.
  - intros _ u Hu. exact Hu.
  - intros _ u _ org. apply held_eq; reflexivity.
  - intros _ t _. apply nheld_eq; reflexivity.
Qed.

Lemma WC_trans_sc U a b c : WS U a b -> WC U b c -> WC U a c.
Proof. intros H1 H2. apply (W_trans _ _ _ _ _ _ _ _ _ _ U a b c H1 H2); intuition congruence. Qed.
Lemma WC_trans_cq U a b c : WC U a b -> WQ U b c -> WC U a c.
Proof. intros H1 H2. apply (W_trans _ _ _ _ _ _ _ _ _ _ U a b c H1 H2); intuition congruence. Qed.
Lemma WC_trans_sq U a b c : WS U a b -> WQ U b c -> WC U a c.
Proof. intros H1 H2. apply (W_trans _ _ _ _ _ _ _ _ _ _ U a b c H1 H2); intuition congruence. Qed.
Lemma WS_trans U a b c : WS U a b -> WS U b c -> WS U a c.
Proof. intros H1 H2. apply (W_trans _ _ _ _ _ _ _ _ _ _ U a b c H1 H2); intuition congruence. Qed.
Lemma WS_WC U a b : WS U a b -> WC U a b.
Proof. intros H. apply (W_weaken _ _ _ _ _ _ _ _ _ _ a b H); auto; try discriminate. apply incl_refl. Qed.
Lemma WC_WF U a b : WC U a b -> WF U a b.
Proof. intros H. apply (W_weaken _ _ _ _ _ _ _ _ _ _ a b H); auto; try discriminate. apply incl_refl. Qed.

Lemma WC_scope_cancel U m c b : WC U m (scope_cancel m c b).
Proof.
  unfold scope_cancel. destruct (s_cancelled (scopes m c)) eqn:Ec; [apply W_refl|].
  set (m1 := cancel_timeout m c).
  set (m2 := upd_scope m1 c (fun x => sc_bydeadline b (sc_cancelled true x))).
  assert (H2 : WS U m m2).
  { apply (WS_trans U m m1); [apply WT_WS, WT_cancel_timeout|]. apply WS_upd_scope. intros k; reflexivity. }
  destruct (s_host (scopes m2 c)); [|now apply WS_WC].
  apply (WC_trans_sq U m m2); [exact H2|]. apply WQ_deliver_top.
  unfold m2. cbn. unfold upd. now rewrite Nat.eqb_refl.
Qed.

Lemma WC_scope_timeout U m c : WC U m (scope_timeout m c).
Proof.
  unfold scope_timeout. destruct (s_deadline (scopes m c)) as [d|]; [|apply W_refl].
  destruct (Z.leb d (now m)); [apply WC_scope_cancel|].
  apply WS_WC, WT_WS. cbn [fst snd call_at].
  match goal with |- _ (upd_scope ?m1 c ?g) => apply (WT_trans U m m1) end.
  - apply (WT_call_at U m d (TScope c)).
  - apply WT_upd_scope; intros k; reflexivity.
Qed.

(* ---------------- steps that keep the lists and links, whatever else they do to a scope ---------------- *)
Lemma TO_frame m m' :
  nscope m' = nscope m -> ntask m' = ntask m ->
  (forall y, s_parent (scopes m' y) = s_parent (scopes m y) /\ s_children (scopes m' y) = s_children (scopes m y) /\
             s_tasks (scopes m' y) = s_tasks (scopes m y)) ->
  (forall t, k_cur (tasks m' t) = k_cur (tasks m t)) -> TO m -> TO m'.
Proof.
  intros En Ent Es Ec [T C]. constructor; [constructor|].
  - intros p k. rewrite (proj1 (proj2 (Es p))), (proj1 (Es k)). apply T.
  - intros t x. rewrite (proj2 (proj2 (Es x))), Ec. apply T.
  - intros y p. rewrite (proj1 (Es y)), En. apply T.
  - intros t x. rewrite Ec, En. apply T.
  - intros t x. rewrite Ec, Ent. apply T.
  - intros p k. rewrite (proj1 (proj2 (Es p))), En. apply C.
Qed.

Lemma WT_upd_scope_any U m c g :
  (forall k, s_parent (g k) = s_parent k /\ s_children (g k) = s_children k /\ s_tasks (g k) = s_tasks k) ->
  (forall k, view3 (g k) = view3 k) -> WT U m (upd_scope m c g).
Proof.
  intros G1 G2. constructor.
  - apply TO_frame; try reflexivity. intros y. cbn. unfold upd. destruct (Nat.eqb_spec y c); [subst; apply G1|now repeat split].
  - intros K. apply (KInv_kq m); [exact K|apply kq_upd_scope].
  - intros _. apply MP_same; reflexivity.
  - cbn. lia.
  - cbn. lia.
  - intros t _. reflexivity.
  - intros _ y _. cbn. unfold upd. destruct (Nat.eqb_spec y c); [subst; apply G2|reflexivity].
  - intros _ _ t org _ H. left. revert H. apply held_eq; reflexivity.
  - intros _ v Hv. exact Hv.
  - intros _ v _ org. apply held_eq; reflexivity.
  - intros _ t _. apply nheld_eq; reflexivity.
Qed.

(* ---------------- leaving a scope ---------------- *)
Lemma opt_eqb_spec o y : opt_eqb o y = true <-> o = Some y.
Proof.
  destruct o as [x|]; cbn; [|split; discriminate]. destruct (Nat.eqb_spec x y); split; congruence.
Qed.

Lemma cancel_timeout_fields s c :
  tasks (cancel_timeout s c) = tasks s /\ futs (cancel_timeout s c) = futs s /\
  nscope (cancel_timeout s c) = nscope s /\ ntask (cancel_timeout s c) = ntask s /\
  running (cancel_timeout s c) = running s /\
  forall y, s_parent (scopes (cancel_timeout s c) y) = s_parent (scopes s y) /\
            s_children (scopes (cancel_timeout s c) y) = s_children (scopes s y) /\
            s_tasks (scopes (cancel_timeout s c) y) = s_tasks (scopes s y) /\
            view3 (scopes (cancel_timeout s c) y) = view3 (scopes s y).
Proof.
  unfold cancel_timeout. destruct (s_timeout (scopes s c)); repeat split; try reflexivity;
    cbn; unfold upd; destruct (Nat.eqb_spec y c); subst; reflexivity.
Qed.

Lemma xs_char m c u :
  let X := exit_struct m c u in let par := s_parent (scopes m c) in
  (forall y, s_parent (scopes X y) = s_parent (scopes m y)) /\
  (forall y, s_children (scopes X y) =
             if opt_eqb par y then del c (s_children (scopes m y)) else s_children (scopes m y)) /\
  (forall y, s_tasks (scopes X y) =
             let l := if Nat.eqb y c then del u (s_tasks (scopes m c)) else s_tasks (scopes m y) in
             if opt_eqb par y then add u l else l) /\
  (forall y, view3 (scopes X y) = view3 (scopes m y)) /\
  (forall t, tasks X t = if Nat.eqb t u then tk_cur par (tasks m u) else tasks m t) /\
  futs X = futs m /\ nscope X = nscope m /\ ntask X = ntask m /\ running X = running m.
Proof.
  cbv zeta. unfold exit_struct.
  set (m0 := upd_scope m c (sc_active false)).
  destruct (cancel_timeout_fields m0 c) as (Et & Ef & En & Ent & Er & Es).
  set (s1 := cancel_timeout m0 c) in *.
  assert (F1 : forall y, s_parent (scopes s1 y) = s_parent (scopes m y) /\
                         s_children (scopes s1 y) = s_children (scopes m y) /\
                         s_tasks (scopes s1 y) = s_tasks (scopes m y) /\
                         view3 (scopes s1 y) = view3 (scopes m y)).
  { intros y. destruct (Es y) as (A1 & A2 & A3 & A4). rewrite A1, A2, A3, A4. unfold m0. cbn. unfold upd.
    destruct (Nat.eqb_spec y c); subst; repeat split; reflexivity. }
  destruct (s_parent (scopes m c)) as [p|] eqn:Ep; cbn [opt_eqb].
  - repeat split; try assumption.
    + intros y. cbn. unfold upd. destruct (Nat.eqb_spec y p), (Nat.eqb_spec y c); subst; cbn; try apply F1.
      all: try (destruct (Nat.eqb_spec c c); [|congruence]; cbn; apply F1).
      destruct (Nat.eqb_spec p c); [congruence|]. apply F1.
    + intros y. cbn. unfold upd. rewrite (Nat.eqb_sym p y). destruct (Nat.eqb_spec y p); subst; cbn.
      * destruct (Nat.eqb_spec p c); subst; cbn; now rewrite (proj1 (proj2 (F1 _))).
      * destruct (Nat.eqb_spec y c); subst; cbn; apply F1.
    + intros y. cbn. unfold upd. rewrite (Nat.eqb_sym p y). destruct (Nat.eqb_spec y p); subst; cbn.
      * destruct (Nat.eqb_spec p c); subst; cbn; now rewrite (proj1 (proj2 (proj2 (F1 _)))).
      * destruct (Nat.eqb_spec y c); subst; cbn; [now rewrite (proj1 (proj2 (proj2 (F1 _))))|apply F1].
    + intros y. cbn. unfold upd. destruct (Nat.eqb_spec y p); subst; cbn.
      * destruct (Nat.eqb_spec p c); subst; cbn; apply F1.
      * destruct (Nat.eqb_spec y c); subst; cbn; apply F1.
    + intros t. cbn. unfold upd. rewrite Et. destruct (Nat.eqb_spec t u); reflexivity.
  - repeat split; try assumption.
    + intros y. cbn. unfold upd. destruct (Nat.eqb_spec y c); subst; cbn; apply F1.
    + intros y. cbn. unfold upd. destruct (Nat.eqb_spec y c); subst; cbn; apply F1.
    + intros y. cbn. unfold upd. destruct (Nat.eqb_spec y c); subst; cbn; [now rewrite (proj1 (proj2 (proj2 (F1 _))))|apply F1].
    + intros y. cbn. unfold upd. destruct (Nat.eqb_spec y c); subst; cbn; apply F1.
    + intros t. cbn. unfold upd. rewrite Et. destruct (Nat.eqb_spec t u); reflexivity.
Qed.

Lemma WT_exit_struct m c u : exit_ok m c u -> WT [u] m (exit_struct m c u).
Proof.
  intros [Ha [Hh Hc]]. destruct (xs_char m c u) as (Xp & Xc & Xt & Xv & Xk & Xf & Xn & Xnt & Xr).
  set (X := exit_struct m c u) in *. set (par := s_parent (scopes m c)) in *.
  assert (Ecur : forall t, t <> u -> k_cur (tasks X t) = k_cur (tasks m t)).
  { intros t Ht. rewrite Xk. destruct (Nat.eqb_spec t u); [contradiction|reflexivity]. }
  assert (Eu : k_cur (tasks X u) = par) by (rewrite Xk, Nat.eqb_refl; reflexivity).
  assert (Hs : forall t org, Held X t org -> Held m t org).
  { intros t. apply held_same; [|intros f o _; now rewrite Xf]. rewrite Xk. destruct (Nat.eqb_spec t u); [subst|]; reflexivity. }
  constructor.
  - intros [T C]. constructor; [constructor|].
    + intros p k Hk. rewrite Xp. rewrite Xc in Hk. apply (to_cp _ T p k).
      destruct (opt_eqb par p); [apply in_del in Hk; apply Hk|exact Hk].
    + intros t x Hx. rewrite Xt in Hx. cbv zeta in Hx.
      assert (Hl : In t (if Nat.eqb x c then del u (s_tasks (scopes m c)) else s_tasks (scopes m x)) ->
                   t <> u /\ k_cur (tasks m t) = Some x).
      { destruct (Nat.eqb_spec x c) as [Exc|Hxc]; intros Hin.
        - rewrite Exc. apply in_del in Hin. destruct Hin as [Hin Hne]. split; [exact Hne|apply (to_tc _ T t c Hin)].
        - pose proof (to_tc _ T t x Hin) as E. split; [|exact E]. intros ->. congruence. }
      destruct (opt_eqb par x) eqn:Eo.
      * apply in_add in Hx. destruct Hx as [Hx| ->]; [|rewrite Eu; now apply opt_eqb_spec].
        destruct (Hl Hx) as [Hne E]. now rewrite Ecur.
      * destruct (Hl Hx) as [Hne E]. now rewrite Ecur.
    + intros y p. rewrite Xp, Xn. apply T.
    + intros t x. rewrite Xn. destruct (Nat.eq_dec t u) as [->|Hne].
      * rewrite Eu. intros E. apply (to_pa _ T c x E).
      * rewrite Ecur by exact Hne. apply T.
    + intros t x. rewrite Xnt. destruct (Nat.eq_dec t u) as [->|Hne].
      * intros _. apply (to_ct _ T u c Hc).
      * rewrite Ecur by exact Hne. apply T.
    + intros p k Hk. rewrite Xn. rewrite Xc in Hk. apply (C p k).
      destruct (opt_eqb par p); [apply in_del in Hk; apply Hk|exact Hk].
  - intros K. apply (KInv_kq m); [exact K|apply kq_exit_struct].
  - intros _. apply MP_frame; [|intros f; now rewrite Xf]. intros t. left. rewrite Xk.
    destruct (Nat.eqb_spec t u); [subst|]; reflexivity.
  - rewrite Xn. lia.
  - rewrite Xnt. lia.
  - intros t Ht. apply Ecur. intros ->. apply Ht. now left.
  - intros _ y _. apply Xv.
  - intros _ _ t org _ Hh'. left. now apply Hs.
  - intros _ v Hv. now rewrite Xr.
  - intros _ v _ org. apply Hs.
  - intros _ t Ht. apply nheld_eq; [|exact Xf]. rewrite Xk. destruct (Nat.eqb_spec t u); [subst; elim Ht; now left|reflexivity].
Qed.

Lemma WQ_exit m c u exc : WQ [u] m (fst (scope_exit m c u exc)).
Proof.
  destruct (exit_ok_dec m c u) as [Hok|Hno]; [|rewrite (scope_exit_fail m c u exc Hno); apply W_refl].
  pose proof Hok as [Ha [Hh Hc]]. unfold scope_exit.
  rewrite Ha. cbn [negb]. rewrite Hh, Hc. cbn [opt_eqb]. rewrite !Nat.eqb_refl. cbn [negb].
  fold (exit_struct m c u).
  set (par := s_parent (scopes m c)).
  set (s5 := restart (exit_struct m c u) par).
  assert (K5 : WQ [u] m s5).
  { apply (WQ_trans [u] m (exit_struct m c u)); [now apply WT_WQ, WT_exit_struct|apply WQ_restart]. }
  clearbody s5. set (n := s_pending (scopes s5 c)).
  assert (Up : forall a g, (forall k, sc_tree (g k) = sc_tree k) -> (forall k, view3 (g k) = view3 k) ->
                           WQ [u] m a -> WQ [u] m (upd_scope a c g)).
  { intros a g G1 G2 Hm. apply (WQ_trans [u] m a); [exact Hm|now apply WT_WQ, WT_upd_scope]. }
  assert (Fin : forall a, WQ [u] m a -> WQ [u] m (upd_scope a c (sc_host None))).
  { intros a Hm. apply (WQ_trans [u] m a); [exact Hm|]. apply WT_WQ, WT_upd_scope_any; intros k; [now repeat split|reflexivity]. }
  set (sA := upd_scope (iter n (fun a => task_uncancel a u) s5) c (sc_pending 0)).
  assert (KA : WQ [u] m sA).
  { apply Up; try (intros k; reflexivity). apply (WQ_trans [u] m s5); [exact K5|apply WT_WQ, WT_iter_uncancel]. }
  assert (KC : WQ [u] m (upd_scope sA c (sc_caught true))) by (apply Up; try (intros k; reflexivity); exact KA).
  destruct (s_cancelled (scopes s5 c) && negb (parent_visible s5 c)).
  - destruct exc as [e|].
    + destruct e; cbn [is_anyio_cancel].
      * destruct o; cbn [fst]; now apply Fin.
      * cbn [fst]. now apply Fin.
      * cbn [fst]. now apply Fin.
      * cbn [fst]. now apply Fin.
      * destruct (split_exn (EGroup l)) as [[x|] [r|]]; cbn [fst]; now apply Fin.
    + cbn [fst]. now apply Fin.
  - cbn [fst]. fold n. destruct (Nat.eqb n 0); [now apply Fin|].
    destruct par as [p|]; [|now apply Fin].
    destruct (opt_eqb (s_host (scopes s5 p)) u); [|now apply Fin].
    apply Fin. apply Up; try (intros k; reflexivity).
    apply (WQ_trans [u] m s5); [exact K5|]. apply WT_WQ, WT_upd_scope; intros k; reflexivity.
Qed.

(* ---------------- entering a scope ---------------- *)
Definition Enterable (m : st) (c : sid) (u : tid) : Prop :=
  (forall p, ~ In c (s_children (scopes m p))) /\ k_cur (tasks m u) <> Some c /\ c < nscope m /\ u < ntask m.

Lemma s3_char m c u : k_cur (tasks m u) <> Some c ->
  let X := enter_s3 m c u in let par := k_cur (tasks m u) in
  (forall y, s_parent (scopes X y) = if Nat.eqb y c then par else s_parent (scopes m y)) /\
  (forall y, s_children (scopes X y) =
             if opt_eqb par y then add c (s_children (scopes m y)) else s_children (scopes m y)) /\
  (forall y, s_tasks (scopes X y) =
             if Nat.eqb y c then add u (s_tasks (scopes m c))
             else if opt_eqb par y then del u (s_tasks (scopes m y)) else s_tasks (scopes m y)) /\
  (forall y, y <> c -> view3 (scopes X y) = view3 (scopes m y)) /\
  s_cancelled (scopes X c) = s_cancelled (scopes m c) /\
  futs X = futs m /\ nscope X = nscope m /\ ntask X = ntask m /\ running X = running m.
Proof.
  intros Hpc. cbv zeta. unfold enter_s3. destruct (k_cur (tasks m u)) as [p|] eqn:Ep; cbn [opt_eqb].
  - assert (Hp : p <> c) by congruence. repeat split; try reflexivity.
    + intros y. cbn. unfold upd. destruct (Nat.eqb_spec y p), (Nat.eqb_spec y c); subst; cbn; try congruence; try reflexivity.
      destruct (Nat.eqb_spec p c); [congruence|reflexivity].
    + intros y. cbn. unfold upd. rewrite (Nat.eqb_sym p y). destruct (Nat.eqb_spec y p); subst; cbn.
      * destruct (Nat.eqb_spec p c); [congruence|reflexivity].
      * destruct (Nat.eqb_spec y c); subst; reflexivity.
    + intros y. cbn. unfold upd. rewrite (Nat.eqb_sym p y). destruct (Nat.eqb_spec y p); subst; cbn.
      * destruct (Nat.eqb_spec p c); [congruence|reflexivity].
      * destruct (Nat.eqb_spec y c); subst; reflexivity.
    + intros y Hy. cbn. unfold upd. destruct (Nat.eqb_spec y p); subst; cbn.
      * destruct (Nat.eqb_spec p c); [congruence|reflexivity].
      * destruct (Nat.eqb_spec y c); [contradiction|reflexivity].
    + cbn. unfold upd. destruct (Nat.eqb_spec c p); [congruence|]. now rewrite Nat.eqb_refl.
  - repeat split; try reflexivity.
    + intros y. cbn. unfold upd. destruct (Nat.eqb_spec y c); subst; reflexivity.
    + intros y. cbn. unfold upd. destruct (Nat.eqb_spec y c); subst; reflexivity.
    + intros y. cbn. unfold upd. destruct (Nat.eqb_spec y c); subst; reflexivity.
    + intros y Hy. cbn. unfold upd. destruct (Nat.eqb_spec y c); [contradiction|reflexivity].
    + cbn. unfold upd. now rewrite Nat.eqb_refl.
Qed.

Lemma WS_enter_s3 m c u : Enterable m c u -> WS [u] m (enter_s3 m c u).
Proof.
  intros (Hnc & Hpc & Hca & Hua).
  destruct (s3_char m c u Hpc) as (Xp & Xc & Xt & Xv & Xcc & Xf & Xn & Xnt & Xr).
  set (X := enter_s3 m c u) in *. set (par := k_cur (tasks m u)) in *.
  assert (Xk : forall t, tasks X t = if Nat.eqb t u then tk_cur (Some c) (tasks m u) else tasks m t)
    by (intros t; apply enter_s3_task).
  assert (Ecur : forall t, t <> u -> k_cur (tasks X t) = k_cur (tasks m t)).
  { intros t Ht. rewrite Xk. destruct (Nat.eqb_spec t u); [contradiction|reflexivity]. }
  assert (Eu : k_cur (tasks X u) = Some c) by (rewrite Xk, Nat.eqb_refl; reflexivity).
  assert (Hs : forall t org, Held X t org -> Held m t org).
  { intros t. apply held_same; [|intros f o _; now rewrite Xf]. rewrite Xk. destruct (Nat.eqb_spec t u); [subst|]; reflexivity. }
  constructor.
  - intros [T C]. constructor; [constructor|].
    + intros p k Hk. rewrite Xp. rewrite Xc in Hk. destruct (opt_eqb par p) eqn:Eo.
      * apply in_add in Hk. destruct Hk as [Hk| ->].
        -- destruct (Nat.eqb_spec k c) as [->|_]; [now elim (Hnc p)|apply (to_cp _ T p k Hk)].
        -- rewrite Nat.eqb_refl. now apply opt_eqb_spec.
      * destruct (Nat.eqb_spec k c) as [->|_]; [now elim (Hnc p)|apply (to_cp _ T p k Hk)].
    + intros t x Hx. rewrite Xt in Hx. destruct (Nat.eqb_spec x c) as [Exc|Hxc].
      * rewrite Exc. apply in_add in Hx. destruct Hx as [Hx| ->]; [|exact Eu].
        pose proof (to_tc _ T t c Hx) as E. rewrite Ecur; [exact E|]. intros ->. contradiction.
      * destruct (opt_eqb par x) eqn:Eo.
        -- apply in_del in Hx. destruct Hx as [Hx Hne]. rewrite Ecur by exact Hne. apply (to_tc _ T t x Hx).
        -- pose proof (to_tc _ T t x Hx) as E. rewrite Ecur; [exact E|]. intros ->.
           assert (opt_eqb par x = true) by now apply opt_eqb_spec. congruence.
    + intros y p. rewrite Xp, Xn. destruct (Nat.eqb_spec y c); [intros E; apply (to_cu _ T u p E)|apply T].
    + intros t x. rewrite Xn. destruct (Nat.eq_dec t u) as [->|Hne].
      * rewrite Eu. intros E. injection E as <-. exact Hca.
      * rewrite Ecur by exact Hne. apply T.
    + intros t x. rewrite Xnt. destruct (Nat.eq_dec t u) as [->|Hne]; [intros _; exact Hua|].
      rewrite Ecur by exact Hne. apply T.
    + intros p k Hk. rewrite Xn. rewrite Xc in Hk. destruct (opt_eqb par p).
      * apply in_add in Hk. destruct Hk as [Hk| ->]; [apply (C p k Hk)|exact Hca].
      * apply (C p k Hk).
  - intros K. apply (KInv_kq m); [exact K|]. apply kq_same.
    + unfold X, enter_s3. destruct (k_cur (tasks m u)); reflexivity.
    + exact Xf.
    + intros t. left. rewrite Xk. destruct (Nat.eqb_spec t u); [subst|]; reflexivity.
  - intros _. apply MP_frame; [|intros f; now rewrite Xf]. intros t. left. rewrite Xk.
    destruct (Nat.eqb_spec t u); [subst|]; reflexivity.
  - rewrite Xn. lia.
  - rewrite Xnt. lia.
  - intros t Ht. apply Ecur. intros ->. apply Ht. now left.
  - discriminate.
  - intros _ _ t org _ Hh'. left. now apply Hs.
  - intros _ v Hv. now rewrite Xr.
  - intros _ v _ org. apply Hs.
  - intros _ t Ht. apply nheld_eq; [|exact Xf]. rewrite Xk. destruct (Nat.eqb_spec t u); [subst; elim Ht; now left|reflexivity].
Qed.

Lemma WC_enter m c u : (s_active (scopes m c) = false -> Enterable m c u) -> WC [u] m (fst (scope_enter m c u)).
Proof.
  intros He. destruct (s_active (scopes m c)) eqn:Ea; [rewrite (scope_enter_fail m c u Ea); apply W_refl|].
  specialize (He eq_refl). rewrite (scope_enter_eq m c u Ea). unfold enter_s5.
  set (s3 := enter_s3 m c u). set (s4 := scope_timeout s3 c). set (s5 := upd_scope s4 c (sc_active true)).
  assert (H5 : WC [u] m s5).
  { apply (WC_trans_cq [u] m s4).
    - apply (WC_trans_sc [u] m s3); [now apply WS_enter_s3|apply WC_scope_timeout].
    - apply WT_WQ, WT_upd_scope_any; intros k; [now repeat split|reflexivity]. }
  destruct (s_cancelled (scopes s5 c)) eqn:Ec; [|exact H5].
  apply (WC_trans_cq [u] m s5); [exact H5|now apply WQ_deliver_top].
Qed.

(* a freshly created scope, no deadline: nothing is delivered and no allocated scope changes its view *)
Lemma W_view v b f e U m m' :
  W v b f e U m m' -> (forall y, y < nscope m -> view3 (scopes m' y) = view3 (scopes m y)) -> W true b f e U m m'.
Proof.
  intros H V. constructor; try apply H. intros _. exact V.
Qed.

Lemma enterable_fresh m d sh u : TO m -> u < ntask m -> Enterable (fst (new_scope m d sh)) (nscope m) u.
Proof.
  intros [T C] Hu. repeat split.
  - intros p Hin. cbn in Hin. unfold upd in Hin. destruct (Nat.eqb_spec p (nscope m)); [destruct Hin|].
    pose proof (C p _ Hin). lia.
  - intros E. cbn in E. pose proof (to_cu _ T u _ E). lia.
  - cbn. lia.
  - exact Hu.
Qed.

Lemma WT_new_enter m sh u : TO m -> u < ntask m ->
  WT [u] m (fst (scope_enter (fst (new_scope m None sh)) (nscope m) u)).
Proof.
  intros T Hu. set (m1 := fst (new_scope m None sh)). set (c := nscope m).
  pose proof (enterable_fresh m None sh u T Hu) as He. fold m1 c in He.
  assert (Ea : s_active (scopes m1 c) = false) by (unfold m1, c; cbn; unfold upd; now rewrite Nat.eqb_refl).
  destruct He as (Hnc & Hpc & Hca & Hua).
  destruct (s3_char m1 c u Hpc) as (Xp & Xc & Xt & Xv & Xcc & Xf & Xn & Xnt & Xr).
  rewrite (scope_enter_eq m1 c u Ea). unfold enter_s5.
  set (s3 := enter_s3 m1 c u) in *.
  assert (Ed : s_deadline (scopes s3 c) = None).
  { unfold s3, enter_s3. destruct (k_cur (tasks m1 u)) as [p|] eqn:Ep; cbn; unfold upd.
    - assert (p <> c) by congruence. destruct (Nat.eqb_spec c p); [congruence|]. rewrite Nat.eqb_refl.
      unfold m1, c. cbn. unfold upd. now rewrite Nat.eqb_refl.
    - rewrite Nat.eqb_refl. unfold m1, c. cbn. unfold upd. now rewrite Nat.eqb_refl. }
  assert (E4 : scope_timeout s3 c = s3) by (unfold scope_timeout; now rewrite Ed).
  rewrite E4. set (s5 := upd_scope s3 c (sc_active true)).
  assert (Ec : s_cancelled (scopes s5 c) = false).
  { unfold s5. cbn. unfold upd. rewrite Nat.eqb_refl. cbn. fold s3. rewrite Xcc. unfold m1, c. cbn. unfold upd.
    now rewrite Nat.eqb_refl. }
  rewrite Ec.
  assert (H5 : WS [u] m s5).
  { apply (WS_trans [u] m s3).
    - apply (WS_trans [u] m m1); [apply WT_WS, WT_new_scope|apply WS_enter_s3; repeat split; assumption].
    - apply WT_WS, WT_upd_scope_any; intros k; [now repeat split|reflexivity]. }
  apply (W_view _ _ _ _ _ _ _ H5). intros y Hy. unfold s5. cbn [scopes upd_scope set_scopes]. unfold upd.
  assert (Hyc : y <> c) by (unfold c; lia). destruct (Nat.eqb_spec y c); [contradiction|].
  fold s3. rewrite (Xv y Hyc). unfold m1. cbn. unfold upd. destruct (Nat.eqb_spec y (nscope m)); [contradiction|reflexivity].
Qed.

(* ---------------- spawning a child, retiring a child ---------------- *)
Lemma WT_spawn_struct m g sf : g_scope (groups m g) < nscope m -> WT [ntask m] m (spawn_struct m g sf).
Proof.
  intros Hg. set (gs := g_scope (groups m g)) in *. set (ns := nscope m). set (nt := ntask m).
  set (X := spawn_struct m g sf).
  assert (Xn : nscope X = S ns) by reflexivity. assert (Xnt : ntask X = S nt) by reflexivity.
  assert (Xf : futs X = futs m) by reflexivity. assert (Xr : running X = running m) by reflexivity.
  assert (Xs : forall y, y <> ns -> y <> gs -> scopes X y = scopes m y).
  { intros y H1 H2. unfold X, spawn_struct. cbn. unfold upd. fold gs ns.
    destruct (Nat.eqb_spec y gs); [contradiction|]. destruct (Nat.eqb_spec y ns); [contradiction|reflexivity]. }
  assert (Xg : scopes X gs = sc_tasks (add nt (s_tasks (scopes m gs))) (scopes m gs)).
  { unfold X, spawn_struct. cbn. unfold upd. fold gs ns nt. rewrite Nat.eqb_refl.
    destruct (Nat.eqb_spec gs ns); [lia|reflexivity]. }
  assert (Xns : scopes X ns = sc_shield false (sc_deadline None scope0)).
  { unfold X, spawn_struct. cbn. unfold upd. fold gs ns nt. destruct (Nat.eqb_spec ns gs); [lia|]. now rewrite Nat.eqb_refl. }
  assert (Xk : forall t, t <> nt -> tasks X t = tasks m t).
  { intros t Ht. unfold X, spawn_struct. cbn. unfold upd. fold nt. destruct (Nat.eqb_spec t nt); [contradiction|reflexivity]. }
  assert (Xc : k_cur (tasks X nt) = Some gs /\ k_must (tasks X nt) = false /\ k_waiter (tasks X nt) = None).
  { unfold X, spawn_struct. cbn. unfold upd. fold nt. rewrite Nat.eqb_refl. cbn. now repeat split. }
  assert (Sp : forall y, s_parent (scopes X y) = if Nat.eqb y ns then None else s_parent (scopes m y)).
  { intros y. destruct (Nat.eqb_spec y ns) as [->|H1]; [now rewrite Xns|].
    destruct (Nat.eq_dec y gs) as [->|H2]; [now rewrite Xg|now rewrite Xs]. }
  assert (Sc : forall y, s_children (scopes X y) = if Nat.eqb y ns then [] else s_children (scopes m y)).
  { intros y. destruct (Nat.eqb_spec y ns) as [->|H1]; [now rewrite Xns|].
    destruct (Nat.eq_dec y gs) as [->|H2]; [now rewrite Xg|now rewrite Xs]. }
  assert (Hs : forall t org, Held X t org -> Held m t org).
  { intros t org. destruct (Nat.eq_dec t nt) as [->|Hne].
    - destruct Xc as (_ & C2 & C3). intros [[A _]|[f [A _]]]; congruence.
    - apply held_eq; [now apply Xk|exact Xf]. }
  constructor.
  - intros [T C]. constructor; [constructor|].
    + intros p k Hk. rewrite Sc in Hk. destruct (Nat.eqb_spec p ns); [destruct Hk|].
      pose proof (C p k Hk). rewrite Sp. destruct (Nat.eqb_spec k ns); [unfold ns in *; lia|]. apply (to_cp _ T p k Hk).
    + intros t x Hx. destruct (Nat.eq_dec x ns) as [->|H1]; [rewrite Xns in Hx; destruct Hx|].
      destruct (Nat.eq_dec x gs) as [->|H2].
      * rewrite Xg in Hx. cbn in Hx. apply in_add in Hx. destruct Hx as [Hx| ->]; [|apply Xc].
        pose proof (to_tc _ T t gs Hx) as E. pose proof (to_ct _ T t gs E). rewrite Xk; [exact E|unfold nt; lia].
      * rewrite Xs in Hx by assumption. pose proof (to_tc _ T t x Hx) as E. pose proof (to_ct _ T t x E).
        rewrite Xk; [exact E|unfold nt; lia].
    + intros y p. rewrite Sp, Xn. destruct (Nat.eqb_spec y ns); [discriminate|]. intros E.
      pose proof (to_pa _ T y p E). unfold ns. lia.
    + intros t x. rewrite Xn. destruct (Nat.eq_dec t nt) as [->|Hne].
      * destruct Xc as (C1 & _). rewrite C1. intros E. injection E as <-. unfold ns. lia.
      * rewrite Xk by exact Hne. intros E. pose proof (to_cu _ T t x E). unfold ns. lia.
    + intros t x. rewrite Xnt. destruct (Nat.eq_dec t nt) as [->|Hne]; [lia|].
      rewrite Xk by exact Hne. intros E. pose proof (to_ct _ T t x E). unfold nt. lia.
    + intros p k Hk. rewrite Sc in Hk. rewrite Xn. destruct (Nat.eqb_spec p ns); [destruct Hk|].
      pose proof (C p k Hk). unfold ns. lia.
  - intros K. apply (KInv_kq m); [exact K|]. apply kq_same; [reflexivity|exact Xf|].
    intros t. destruct (Nat.eq_dec t nt) as [->|Hne]; [right; apply Xc|left; now rewrite Xk].
  - intros _. apply MP_frame; [|intros f; now rewrite Xf].
    intros t. destruct (Nat.eq_dec t nt) as [->|Hne]; [right; apply Xc|left; now rewrite Xk].
  - rewrite Xn. unfold ns. lia.
  - rewrite Xnt. unfold nt. lia.
  - intros t Ht. rewrite Xk; [reflexivity|]. intros ->. apply Ht. now left.
  - intros _ y Hy. fold ns in Hy. destruct (Nat.eq_dec y gs) as [->|H2]; [now rewrite Xg|].
    rewrite Xs; [reflexivity|lia|exact H2].
  - intros _ _ t org _ Hh. left. now apply Hs.
  - intros _ v Hv. now rewrite Xr.
  - intros _ v _ org. apply Hs.
  - intros _ t Ht. apply nheld_eq; [|exact Xf]. apply Xk. intros ->. apply Ht. now left.
Qed.

Lemma WQ_spawn m g sf : g_scope (groups m g) < nscope m -> WQ [ntask m] m (fst (spawn_task m g sf)).
Proof.
  intros Hg. rewrite spawn_task_eq. cbn [fst].
  apply (WQ_trans [ntask m] m (restart (spawn_struct m g sf) (Some (g_scope (groups m g))))); [|apply WT_WQ, WT_call_soon].
  apply (WQ_trans [ntask m] m (spawn_struct m g sf)); [now apply WT_WQ, WT_spawn_struct|apply WQ_restart].
Qed.

Lemma WT_td_struct m ch g : WT [ch] m (td_struct m ch g).
Proof.
  set (X := td_struct m ch g).
  assert (Xn : nscope X = nscope m) by (unfold X, td_struct; destruct (k_cur (tasks m ch)); reflexivity).
  assert (Xnt : ntask X = ntask m) by (unfold X, td_struct; destruct (k_cur (tasks m ch)); reflexivity).
  assert (Xf : futs X = futs m) by (unfold X, td_struct; destruct (k_cur (tasks m ch)); reflexivity).
  assert (Xnf : nfut X = nfut m) by (unfold X, td_struct; destruct (k_cur (tasks m ch)); reflexivity).
  assert (Xr : running X = running m) by (unfold X, td_struct; destruct (k_cur (tasks m ch)); reflexivity).
  assert (Xk : forall t, tasks X t = if Nat.eqb t ch then tk_tdran true (tk_cur None (tasks m ch)) else tasks m t).
  { intros t. unfold X, td_struct. destruct (k_cur (tasks m ch)); cbn; unfold upd; destruct (Nat.eqb_spec t ch); subst; reflexivity. }
  assert (Xs : forall y, s_parent (scopes X y) = s_parent (scopes m y) /\ s_children (scopes X y) = s_children (scopes m y) /\
                         view3 (scopes X y) = view3 (scopes m y) /\
                         s_tasks (scopes X y) = if opt_eqb (k_cur (tasks m ch)) y then del ch (s_tasks (scopes m y))
                                                else s_tasks (scopes m y)).
  { intros y. unfold X, td_struct. destruct (k_cur (tasks m ch)) as [c|]; cbn [opt_eqb]; [|now repeat split].
    cbn. unfold upd. rewrite (Nat.eqb_sym c y). destruct (Nat.eqb_spec y c); subst; now repeat split. }
  assert (Ecur : forall t, t <> ch -> k_cur (tasks X t) = k_cur (tasks m t)).
  { intros t Ht. rewrite Xk. destruct (Nat.eqb_spec t ch); [contradiction|reflexivity]. }
  assert (Eu : k_cur (tasks X ch) = None) by (rewrite Xk, Nat.eqb_refl; reflexivity).
  assert (Hs : forall t org, Held X t org -> Held m t org).
  { intros t. apply held_same; [|intros f o _; now rewrite Xf]. rewrite Xk. destruct (Nat.eqb_spec t ch); [subst|]; reflexivity. }
  constructor.
  - intros [T C]. constructor; [constructor|].
    + intros p k. rewrite (proj1 (proj2 (Xs p))), (proj1 (Xs k)). apply T.
    + intros t x Hx. rewrite (proj2 (proj2 (proj2 (Xs x)))) in Hx. destruct (opt_eqb (k_cur (tasks m ch)) x) eqn:Eo.
      * apply in_del in Hx. destruct Hx as [Hx Hne]. rewrite Ecur by exact Hne. apply (to_tc _ T t x Hx).
      * pose proof (to_tc _ T t x Hx) as E. rewrite Ecur; [exact E|]. intros ->.
        assert (opt_eqb (k_cur (tasks m ch)) x = true) by now apply opt_eqb_spec. congruence.
    + intros y p. rewrite (proj1 (Xs y)), Xn. apply T.
    + intros t x. rewrite Xn. destruct (Nat.eq_dec t ch) as [->|Hne]; [rewrite Eu; discriminate|].
      rewrite Ecur by exact Hne. apply T.
    + intros t x. rewrite Xnt. destruct (Nat.eq_dec t ch) as [->|Hne]; [rewrite Eu; discriminate|].
      rewrite Ecur by exact Hne. apply T.
    + intros p k. rewrite (proj1 (proj2 (Xs p))), Xn. apply C.
  - intros K. apply (KInv_kq m); [exact K|]. apply kq_same; [exact Xnf|exact Xf|].
    intros t. left. rewrite Xk. destruct (Nat.eqb_spec t ch); [subst|]; reflexivity.
  - intros _. apply MP_frame; [|intros f; now rewrite Xf]. intros t. left. rewrite Xk.
    destruct (Nat.eqb_spec t ch); [subst|]; reflexivity.
  - rewrite Xn. lia.
  - rewrite Xnt. lia.
  - intros t Ht. apply Ecur. intros ->. apply Ht. now left.
  - intros _ y _. apply Xs.
  - intros _ _ t org _ Hh. left. now apply Hs.
  - intros _ v Hv. now rewrite Xr.
  - intros _ v _ org. apply Hs.
  - intros _ t Ht. apply nheld_eq; [|exact Xf]. rewrite Xk. destruct (Nat.eqb_spec t ch); [subst; elim Ht; now left|reflexivity].
Qed.

Lemma WT_WC U a b : WT U a b -> WC U a b.
Proof. intros H. apply (W_weaken _ _ _ _ _ _ _ _ _ _ a b H); auto; try discriminate. apply incl_refl. Qed.
Lemma WC_trans_tc U a b c : WT U a b -> WC U b c -> WC U a c.
Proof. intros H1 H2. apply (W_trans _ _ _ _ _ _ _ _ _ _ U a b c H1 H2); intuition congruence. Qed.

Lemma WC_td_tail U m k g t : WC U m (td_tail m k g t).
Proof.
  unfold td_tail.
  set (s4 := match g_fut (groups m g), g_tasks (groups m g) with
             | Some f, [] => fut_complete m f (FRes 0) | _, _ => m end).
  assert (H4 : WT U m s4).
  { unfold s4. destruct (g_fut (groups m g)); [|apply W_refl]. destruct (g_tasks (groups m g)); [|apply W_refl].
    apply WT_fut_complete. discriminate. }
  assert (Hc : forall a b0, WT U m a -> WC U m (scope_cancel a b0 false)).
  { intros a b0 Ha. apply (WC_trans_tc U m a); [exact Ha|apply WC_scope_cancel]. }
  assert (Hg : forall h, (forall x, gr_tree (h x) = gr_tree x) -> WT U m (upd_group s4 g h)).
  { intros h Hh. apply (WT_trans U m s4); [exact H4|now apply WT_upd_group]. }
  assert (Hf : forall f v, (forall o, v <> FCanc (S o)) -> WC U m (fut_complete s4 f v)).
  { intros f v Hv. apply WT_WC. apply (WT_trans U m s4); [exact H4|now apply WT_fut_complete]. }
  destruct (match k_done k with Some (OExc e) => Some e | Some (OCanc e) => Some e | _ => None end) as [e|].
  - destruct (k_startfut k) as [f|].
    + destruct (f_st (futs s4 f)).
      * apply Hf. discriminate.
      * destruct (is_cancel e).
        -- destruct (eff_cancelled s4 _); [now apply WT_WC|now apply Hc].
        -- apply Hc. apply Hg. intros x; reflexivity.
      * destruct (is_cancel e).
        -- destruct (eff_cancelled s4 _); [now apply WT_WC|now apply Hc].
        -- apply Hc. apply Hg. intros x; reflexivity.
      * destruct (is_cancel e); [now apply WT_WC|]. apply Hc. apply Hg. intros x; reflexivity.
    + destruct (is_cancel e).
      * destruct (eff_cancelled s4 _); [now apply WT_WC|now apply Hc].
      * apply Hc. apply Hg. intros x; reflexivity.
  - destruct (k_startfut k) as [f|]; [|now apply WT_WC].
    destruct (f_st (futs s4 f)); try (now apply WT_WC). apply Hf. discriminate.
Qed.

Lemma WC_run_task_done m ch : running m = None -> WC [ch] m (run_task_done m ch).
Proof.
  intros Hr. rewrite run_task_done_eq.
  assert (H0 : WT [ch] m (set_running m None)) by (rewrite <- Hr; apply WT_set_running_same).
  destruct (k_group (tasks m ch)) as [g|]; [|now apply WT_WC].
  apply (WC_trans_tc [ch] m (td_struct (set_running m None) ch g)); [|apply WC_td_tail].
  apply (WT_trans [ch] m (set_running m None)); [exact H0|apply WT_td_struct].
Qed.

(* ---------------- task-group helpers ---------------- *)
Lemma WT_WF U a b : WT U a b -> WF U a b.
Proof. intros H. now apply WQ_WF, WT_WQ. Qed.

Lemma WQ_aexit_raise m u g e : WQ [u] m (fst (aexit_raise m u g e)).
Proof.
  unfold aexit_raise. pose proof (WQ_exit m (g_scope (groups m g)) u (Some e)) as K1.
  destruct (scope_exit m (g_scope (groups m g)) u (Some e)) as [s1 x]. cbn [fst] in K1.
  assert (K2 : WQ [u] m (upd_group s1 g (gr_left true))).
  { apply (WQ_trans [u] m s1); [exact K1|]. apply WT_WQ, WT_upd_group. intros k; reflexivity. }
  destruct x; cbn [fst]; try exact K2.
  apply (WQ_trans [u] m _ _ K2). apply WT_WQ, WT_upd_task; intros k; reflexivity.
Qed.

Lemma WQ_aexit_finish m u g exc : WQ [u] m (fst (aexit_finish m u g exc)).
Proof.
  unfold aexit_finish. destruct (map snd (g_excs (groups m g))) as [|e0 l]; [|apply WQ_aexit_raise].
  destruct exc as [e|]; [apply WQ_aexit_raise|].
  pose proof (WQ_exit m (g_scope (groups m g)) u None) as K1.
  destruct (scope_exit m (g_scope (groups m g)) u None) as [s1 x]. cbn [fst] in K1.
  destruct x; cbn [fst]; (apply (WQ_trans [u] m s1); [exact K1|apply WT_WQ, WT_upd_group; intros k; reflexivity]).
Qed.

Lemma WQE_block U m m1 u c : WQ U m m1 -> WQE U m (fst (blocked (set_ctl m1 u c))).
Proof.
  intros H. cbn [fst blocked]. apply (WQE_l U m (set_ctl m1 u c)); [|apply WTE_WQE, WTE_set_running].
  apply (WQ_trans U m m1); [exact H|apply WT_WQ, WT_set_ctl].
Qed.

Lemma WQE_ret_after U m m1 u r : In u U -> WQ U m m1 -> WQE U m (fst (ret_to_puppet m1 u r)).
Proof. intros Hin H. apply (WQE_l U m m1); [exact H|apply WTE_WQE, WTE_ret; exact Hin]. Qed.

Lemma WQE_wof m u g ws exc : TO m -> u < ntask m -> WQE [u] m (fst (aexit_wait_or_finish m u g ws exc)).
Proof.
  intros T Hu. unfold aexit_wait_or_finish.
  destruct (g_tasks (groups m g)) as [|c0 cs].
  - destruct ws as [w|].
    + pose proof (WQ_exit m w u None) as K1. destruct (scope_exit m w u None) as [s1 x]. cbn [fst] in K1.
      destruct x.
      * pose proof (WQ_aexit_finish s1 u g exc) as K2. destruct (aexit_finish s1 u g exc) as [s2 r]. cbn [fst] in K2.
        apply WQE_ret_after; [now left|]. now apply (WQ_trans [u] m s1).
      * pose proof (WQ_aexit_finish s1 u g exc) as K2. destruct (aexit_finish s1 u g exc) as [s2 r]. cbn [fst] in K2.
        apply WQE_ret_after; [now left|]. now apply (WQ_trans [u] m s1).
      * pose proof (WQ_aexit_raise s1 u g e) as K2. destruct (aexit_raise s1 u g e) as [s2 r]. cbn [fst] in K2.
        apply WQE_ret_after; [now left|]. now apply (WQ_trans [u] m s1).
    + pose proof (WQ_aexit_finish m u g exc) as K2. destruct (aexit_finish m u g exc) as [s2 r]. cbn [fst] in K2.
      apply WQE_ret_after; [now left|exact K2].
  - assert (Tail : forall a w, WQ [u] m a ->
              WQE [u] m (fst (let '(s1, f) := new_fut a in
                        blocked (set_ctl (suspend_on (upd_group s1 g (gr_fut (Some f))) u f) u (CAexitWait g w exc))))).
    { intros a w Ha. unfold new_fut. cbv zeta. apply WQE_block.
      match goal with |- _ (suspend_on ?b u ?f) => apply (WQ_trans [u] m b) end.
      - apply (WQ_trans [u] m a); [exact Ha|].
        match goal with |- _ (upd_group ?b g ?h) => apply (WQ_trans [u] a b) end;
          [apply WT_WQ, (WT_new_fut [u] a)|apply WT_WQ, WT_upd_group; intros k; reflexivity].
      - apply WT_WQ, WT_suspend_fresh; [now left|cbn; unfold upd; now rewrite Nat.eqb_refl|cbn; lia]. }
    destruct ws as [w|].
    + apply Tail. apply W_refl.
    + cbn [fst]. unfold new_scope. cbv zeta. cbn [fst]. apply Tail. apply WT_WQ. now apply WT_new_enter.
Qed.

(* ---------------- a fresh future is not touched by deliveries ---------------- *)
Lemma task_cancel_fut a u o f : k_waiter (tasks a u) <> Some f -> futs (task_cancel a u o) f = futs a f.
Proof.
  intros Hw. unfold task_cancel. destruct (k_done (tasks a u)); [reflexivity|].
  destruct (k_waiter (tasks a u)) as [g|]; [|reflexivity].
  destruct (fut_pending _ g); [|reflexivity]. unfold fut_complete. cbn [futs upd_task set_tasks].
  destruct (f_st (futs a g)); try reflexivity.
  destruct (f_waiter (futs a g)); cbn; unfold upd; destruct (Nat.eqb_spec f g); try reflexivity; congruence.
Qed.

Lemma deliver_top_fut m c f : (forall t, k_waiter (tasks m t) <> Some f) -> futs (deliver_top m c) f = futs m f.
Proof.
  intros Hw. unfold deliver_top.
  apply (deliver_inv' (fun a => kframe m a /\ futs a f = futs m f) c); [| | |split; [apply kframe_refl|reflexivity]].
  - intros self a r u [K E]. split; [eapply kframe_trans; [exact K|apply kframe_deliver_task]|].
    unfold deliver_task. destruct (k_done (tasks a u)); [exact E|]. destruct (k_must (tasks a u)); [exact E|].
    destruct (_ && _); [|exact E].
    destruct (match k_waiter (tasks a u) with Some f => fut_pending a f | None => true end); [|exact E].
    cbn [fst]. assert (E1 : futs (task_cancel a u (S c)) f = futs m f).
    { rewrite task_cancel_fut; [exact E|]. rewrite (tcore_waiter _ _ (kf_tasks _ _ K u)). apply Hw. }
    destruct (opt_eqb _ u); exact E1.
  - intros a b [K E]. split; [|exact E]. eapply kframe_trans; [exact K|apply kframe_upd_scope; intros k; reflexivity].
  - intros a [K E]. split; [|exact E]. eapply kframe_trans; [exact K|apply kframe_call_soon; exact I].
Qed.

Lemma restart_fut m x f : (forall t, k_waiter (tasks m t) <> Some f) -> futs (restart m x) f = futs m f.
Proof.
  intros Hw. unfold restart. generalize (nscope m) as fuel. intros fuel. revert x.
  induction fuel as [|fu IH]; intros x; [reflexivity|]. destruct x as [c|]; [|reflexivity].
  cbn [restart_from]. destruct (s_cancelled (scopes m c)).
  - destruct (s_chandle (scopes m c)); [reflexivity|now apply deliver_top_fut].
  - destruct (s_shield (scopes m c)); [reflexivity|apply IH].
Qed.

Lemma spawn_fut m g sf f : (forall t, k_waiter (tasks m t) <> Some f) ->
  futs (fst (spawn_task m g sf)) f = futs m f.
Proof.
  intros Hw. rewrite spawn_task_eq. cbn [fst futs call_soon set_ready]. rewrite restart_fut; [reflexivity|].
  intros t. unfold spawn_struct. cbn. unfold upd. destruct (Nat.eqb_spec t (ntask m)); [discriminate|apply Hw].
Qed.

(* only parts of the state that neither the tree facts nor the requests look at *)
Lemma WT_other U m m' :
  scopes m' = scopes m -> tasks m' = tasks m -> futs m' = futs m -> nscope m' = nscope m -> ntask m' = ntask m ->
  nfut m' = nfut m -> running m' = running m -> WT U m m'.
Proof.
  intros Es Et Ef En Ent Enf Er. constructor.
  - apply TO_frame; auto; [intros y; now rewrite Es|intros t; now rewrite Et].
  - intros K. apply (KInv_kq m); [exact K|now apply kq_tasks_same].
  - intros _. now apply MP_same.
  - rewrite En. lia.
  - rewrite Ent. lia.
  - intros t _. now rewrite Et.
  - intros _ y _. now rewrite Es.
  - intros _ _ t org _ H. left. revert H. apply held_eq; [now rewrite Et|exact Ef].
  - intros _ v Hv. now rewrite Er.
  - intros _ v _ org. apply held_eq; [now rewrite Et|exact Ef].
  - intros _ t _. apply nheld_eq; [now rewrite Et|exact Ef].
Qed.

(* ---------------- API calls ---------------- *)
Definition uo (a : st) (o : op) : list tid :=
  match o with ASpawn _ g | AStart _ g => if group_active a g then [ntask a] else [] | _ => [] end.

Lemma incl_one (u : tid) l : incl [u] (u :: l).
Proof. intros x [<-|[]]. now left. Qed.

Definition is_api (o : op) : bool :=
  match o with AFinish _ _ | ANewRoot | ANativeCancel _ | AExtCancel _ | ARun _ | ATick _ => false | _ => true end.

Lemma held_begin_act a u t org : Held (begin_act a u) t org -> Held a t org.
Proof.
  intros [[A B]|[f [A B]]]; cbn [begin_act tasks futs set_running upd_task set_tasks] in *; unfold upd in *;
    destruct (Nat.eqb_spec t u); subst; cbn in *.
  - left. now split.
  - left. now split.
  - discriminate.
  - right. now exists f.
Qed.

Lemma WFE_puppet_op a u o :
  TO a -> KInv a -> running a = None -> u < ntask a -> is_api o = true ->
  (forall g, g_scope (groups a g) < nscope a) ->
  (forall c, s_active (scopes a c) = false ->
             (forall p, ~ In c (s_children (scopes a p))) /\ (forall t, k_cur (tasks a t) <> Some c)) ->
  (forall t c, o = AEnter t c -> c < nscope a) ->
  WFE (u :: uo a o) a (fst (puppet_op a u o)) /\
  (forall org, Held (fst (puppet_op a u o)) u org -> Held a u org).
Proof.
  intros T Ka Hr Hu Hapi HG HI HE. unfold puppet_op.
  set (U := u :: uo a o).
  assert (I1 : incl [u] U) by apply incl_one.
  assert (K0 : WQ U a (begin_act a u)) by (apply WT_WQ, WT_begin_act; [now left|exact Hr]).
  set (s := begin_act a u) in *.
  assert (Ts : TO s) by (apply (w_to _ _ _ _ _ _ _ K0), T).
  assert (Ks : KInv s) by (apply (w_k _ _ _ _ _ _ _ K0), Ka).
  assert (Hus : u < ntask s) by exact Hu.
  assert (Rs : running s = Some u) by reflexivity.
  assert (Ecs : k_cur (tasks s u) = k_cur (tasks a u)) by (unfold s; cbn; unfold upd; now rewrite Nat.eqb_refl).
  match goal with |- WFE U a (fst ?X) /\ _ => assert (Body : WFE U s (fst X)) end;
    [|split; [apply (WFE_l U a s _ K0 Body)|
              intros org Hh; apply (held_begin_act a u u org); apply (w_own _ _ _ _ _ _ _ Body Ks u Rs org Hh)]].
  assert (Q : forall s1 r, WF U s s1 -> WFE U s (fst (ret_to_puppet s1 u r))).
  { intros s1 r H. apply (WFE_r U s s1); [exact H|apply WTE_WQE, WTE_ret; now left]. }
  assert (B : forall s1 c, WF U s s1 -> WFE U s (fst (blocked (set_ctl s1 u c)))).
  { intros s1 c H. apply (WFE_r U s s1); [exact H|apply WQE_block, W_refl]. }
  assert (En : forall c, (s_active (scopes a c) = false -> c < nscope a) -> s_active (scopes s c) = false -> Enterable s c u).
  { intros c Hc Hi. destruct (HI c Hi) as [H1 H2]. repeat split; [exact H1| |now apply Hc|exact Hu].
    rewrite Ecs. apply H2. }
  destruct o; try discriminate Hapi; subst U; cbn [uo] in *.
  - (* ANewScope *) unfold new_scope. cbv zeta. apply Q. apply WT_WF, (WT_new_scope _ s d sh).
  - (* AEnter *)
    pose proof (WC_enter s c u (En c (fun _ => HE t c eq_refl))) as H.
    destruct (scope_enter s c u) as [s1 e]. apply Q. now apply WC_WF.
  - (* AExit *)
    pose proof (WQ_exit s c u (k_held (tasks s u))) as H.
    destruct (scope_exit s c u (k_held (tasks s u))) as [s1 x]. cbn [fst] in H. destruct x.
    + assert (H2 : WQ [u] s (upd_task s1 u (tk_held None))).
      { apply (WQ_trans [u] s s1); [exact H|]. apply WT_WQ, WT_upd_task; intros k; reflexivity. }
      destruct (_ && _); apply Q; now apply WQ_WF.
    + apply Q. now apply WQ_WF.
    + apply Q. now apply WQ_WF.
  - (* ACancel *) apply Q. apply WC_WF, WC_scope_cancel.
  - (* ASetShield *)
    destruct (Bool.eqb _ b); [apply Q, W_refl|]. apply Q.
    assert (H1 : WS [u] s (upd_scope s c (sc_shield b))) by (apply WS_upd_scope; intros k; reflexivity).
    destruct b; [now apply WS_WF|]. apply WC_WF. apply (WC_trans_sq [u] s _ _ H1). apply WQ_restart.
  - (* ASetDeadline *)
    apply Q. set (s1 := cancel_timeout _ c).
    assert (H : WT [u] s s1).
    { unfold s1. apply (WT_trans [u] s (upd_scope s c (sc_deadline d))); [apply WT_upd_scope; intros k; reflexivity|].
      apply WT_cancel_timeout. }
    destruct (_ && _); [|now apply WT_WF]. apply WC_WF. apply (WC_trans_tc [u] s s1 _ H). apply WC_scope_timeout.
  - (* AGroupNew *)
    unfold new_scope. cbv zeta. apply Q. apply WT_WF.
    match goal with |- _ s ?b => apply (WT_trans [u] s (fst (new_scope s None false))) end; [apply WT_new_scope|].
    apply WT_other; reflexivity.
  - (* AGroupEnter *)
    destruct (g_entered (groups s g)); [apply Q, W_refl|].
    set (s1 := upd_group s g (gr_entered true)).
    assert (Eg : g_scope (groups s1 g) = g_scope (groups a g)) by (unfold s1; cbn; unfold upd; now rewrite Nat.eqb_refl).
    assert (H1 : WT [u] s s1) by (apply WT_upd_group; intros k; reflexivity).
    assert (He : s_active (scopes s1 (g_scope (groups s1 g))) = false -> Enterable s1 (g_scope (groups s1 g)) u).
    { rewrite Eg. intros Hi. apply (En (g_scope (groups a g)) (fun _ => HG g) Hi). }
    pose proof (WC_enter s1 (g_scope (groups s1 g)) u He) as H.
    destruct (scope_enter _ _ u) as [s2 e]. cbn [fst] in H. apply Q. apply WC_WF.
    apply (WC_trans_tc [u] s s1 _ H1 H).
  - (* AGroupExit *)
    set (s1 := match k_held (tasks s u) with Some e => _ | None => s end).
    assert (H1 : WC [u] s s1).
    { unfold s1. destruct (k_held (tasks s u)) as [e|]; [|apply W_refl]. cbv zeta.
      assert (Hc : WC [u] s (scope_cancel s (g_scope (groups s g)) false)) by apply WC_scope_cancel.
      destruct (is_cancel e); [exact Hc|]. apply (WC_trans_cq [u] s _ _ Hc). apply WT_WQ, WT_upd_group. intros k; reflexivity. }
    assert (T1 : TO s1) by (apply (w_to _ _ _ _ _ _ _ H1), Ts).
    assert (N1 : u < ntask s1) by (pose proof (w_nt _ _ _ _ _ _ _ H1); lia).
    destruct (g_tasks (groups s1 g)) eqn:Eg.
    + unfold new_scope. cbv zeta. cbn [fst].
      match goal with |- _ (fst (blocked (set_ctl (bare_yield ?m u) u ?c))) =>
        apply (WFE_r [u] s m); [|apply WQE_block, WT_WQ, WT_bare_yield] end.
      apply WC_WF. apply (WC_trans_cq [u] s s1 _ H1). apply WT_WQ. now apply WT_new_enter.
    + apply (WFE_r [u] s s1); [apply WC_WF, H1|]. now apply WQE_wof.
  - (* ASpawn *)
    change (group_active a g) with (group_active s g) in *.
    destruct (group_active s g) eqn:Ega; cbn [negb]; [|apply Q, W_refl].
    assert (Hgs : g_scope (groups s g) < nscope s) by apply (HG g).
    pose proof (WQ_spawn s g None Hgs) as H. destruct (spawn_task s g None) as [s1 c]. cbn [fst] in H.
    apply Q. apply WQ_WF. apply (W_incl _ _ _ _ [ntask s]); [|exact H]. intros x [<-|[]]. right. now left.
  - (* AStart *)
    change (group_active a g) with (group_active s g) in *.
    destruct (group_active s g) eqn:Ega; cbn [negb]; [|apply Q, W_refl].
    unfold new_fut. cbv zeta.
    set (m1 := mkSt (tasks s) (ntask s) (scopes s) (nscope s) (groups s) (ngroup s) (upd (futs s) (nfut s) fut0) (S (nfut s))
                    (events s) (nevent s) (ready s) (timers s) (ntimer s) (now s) (running s)).
    assert (Hm1 : WT [u; ntask a] s m1) by apply (WT_new_fut _ s).
    assert (Hgs : g_scope (groups m1 g) < nscope m1) by apply (HG g).
    match goal with |- context [spawn_task m1 g ?sf] =>
      pose proof (WQ_spawn m1 g sf Hgs) as H;
      assert (Ef : futs (fst (spawn_task m1 g sf)) (nfut s) = fut0);
      [rewrite spawn_fut; [cbn; unfold upd; now rewrite Nat.eqb_refl|];
       intros x Hx; change (tasks m1 x) with (tasks s x) in Hx; pose proof (k_alloc _ Ks x _ Hx); lia|];
      assert (Hn : nfut s < nfut (fst (spawn_task m1 g sf))) by (rewrite spawn_nfut; cbn; lia);
      destruct (spawn_task m1 g sf) as [s2 c] end.
    cbn [fst] in *.
    apply B. apply WQ_WF.
    apply (WQ_trans _ s s2); [|apply WT_WQ; apply WT_suspend_fresh; [now left|exact Ef|exact Hn]].
    apply (WQ_trans _ s m1); [now apply WT_WQ|].
    apply (W_incl _ _ _ _ [ntask m1]); [|exact H]. intros x [<-|[]]. right. now left.
  - (* AStarted *)
    destruct (k_startfut (tasks s u)) as [f|]; [|apply Q, W_refl].
    destruct (f_st (futs s f)); apply Q; try apply W_refl. apply WT_WF, WT_fut_complete. discriminate.
  - (* AHandleCancel *)
    destruct (e_set _); apply Q; [apply W_refl|]. apply WC_WF, WC_scope_cancel.
  - (* AHandleWait *)
    pose proof (WT_event_wait [u] s u (k_hevent (tasks s h)) (or_introl eq_refl)) as H.
    destruct (event_wait s u (k_hevent (tasks s h))) as [s1 f]. cbn [fst] in H. apply B. now apply WT_WF.
  - apply B. apply WT_WF, WT_bare_yield.
  - destruct (ckif_spins _ _ _); [apply B, WT_WF, WT_bare_yield|apply Q, W_refl].
  - (* AShieldCk *)
    unfold new_scope. cbv zeta. cbn [fst].
    match goal with |- _ (fst (blocked (set_ctl (bare_yield ?m u) u ?c))) =>
      apply (WFE_r [u] s m); [|apply WQE_block, WT_WQ, WT_bare_yield] end.
    apply WT_WF. now apply WT_new_enter.
  - (* ASleep *)
    unfold new_fut. cbv zeta. destruct d as [dt|].
    + unfold call_at. cbv zeta. cbn [fst].
      match goal with |- _ (fst (blocked (set_ctl (suspend_on ?m u ?f) u ?c0))) =>
        apply B; apply WT_WF; apply (WT_trans [u] s m) end.
      * match goal with |- _ s ?m => apply (WT_trans [u] s (fst (new_fut s))) end; [apply WT_new_fut|].
        apply WT_other; reflexivity.
      * apply WT_suspend_fresh; [now left|cbn; unfold upd; now rewrite Nat.eqb_refl|cbn; lia].
    + cbn [fst].
      match goal with |- _ (fst (blocked (set_ctl (suspend_on ?m u ?f) u ?c0))) =>
        apply B; apply WT_WF; apply (WT_trans [u] s m) end.
      * apply (WT_new_fut [u] s).
      * apply WT_suspend_fresh; [now left|cbn; unfold upd; now rewrite Nat.eqb_refl|cbn; lia].
  - apply Q. apply WT_WF, WT_upd_task; intros k; reflexivity.
  - apply Q. apply WT_WF, WT_upd_task; intros k; reflexivity.
  - apply Q. apply WT_WF, WT_upd_task; intros k; reflexivity.
  - apply Q. apply WT_WF, WT_task_uncancel.
  - (* AEffDeadline *)
    cbn [fst]. apply (WFE_r [u] s (park s u)); [|apply WTE_WQE, WTE_set_running].
    apply WT_WF, WT_park. now left.
  - (* AFailAt *)
    unfold new_scope. cbv zeta.
    set (m1 := mkSt (tasks s) (ntask s) (upd (scopes s) (nscope s) (sc_shield sh (sc_deadline d scope0))) (S (nscope s))
                    (groups s) (ngroup s) (futs s) (nfut s) (events s) (nevent s) (ready s) (timers s) (ntimer s)
                    (now s) (running s)).
    assert (Hm1 : WT [u] s m1) by apply (WT_new_scope _ s d sh).
    pose proof (WC_enter m1 (nscope s) u (fun _ => enterable_fresh s d sh u Ts Hus)) as H.
    destruct (scope_enter m1 (nscope s) u) as [s2 e]. cbn [fst] in H. apply Q. apply WC_WF.
    apply (WC_trans_tc [u] s m1 _ Hm1 H).
Qed.

Lemma WQE_puppet_finish a u v : running a = None -> WQE [u] a (fst (puppet_finish a u v)).
Proof.
  intros Hr. unfold puppet_finish.
  assert (K0 : WQ [u] a (begin_act a u)) by (apply WT_WQ, WT_begin_act; [now left|exact Hr]).
  set (s := begin_act a u) in *.
  set (raw := match k_held (tasks s u) with Some e => OExc e | None => ORet v end).
  set (s1 := upd_task s u (tk_final (Some raw))).
  assert (H1 : WQ [u] a s1).
  { apply (WQ_trans [u] a s); [exact K0|]. apply WT_WQ, WT_upd_task; intros k; reflexivity. }
  destruct (k_group (tasks s u)) as [g|]; cbn [fst].
  - set (s2 := upd_task s1 u _).
    assert (H2 : WQ [u] a s2).
    { apply (WQ_trans [u] a s1); [exact H1|]. unfold s2. apply WT_WQ. destruct raw; apply WT_upd_task; intros k; reflexivity. }
    set (s3 := event_set s2 (k_hevent (tasks s u))).
    assert (H3 : WQ [u] a s3) by (apply (WQ_trans [u] a s2); [exact H2|apply WT_WQ, WT_event_set]).
    pose proof (WQ_exit s3 (k_hscope (tasks s u)) u (k_held (tasks s u))) as H4.
    destruct (scope_exit s3 (k_hscope (tasks s u)) u (k_held (tasks s u))) as [s4 x]. cbn [fst] in H4.
    assert (H5 : WQ [u] a s4) by now apply (WQ_trans [u] a s3).
    destruct x; cbn [fst]; (apply (WQE_l [u] a s4); [exact H5|apply WTE_WQE, WTE_finish_task; now left]).
  - apply (WQE_l [u] a s1); [exact H1|apply WTE_WQE, WTE_finish_task; now left].
Qed.

Lemma WFE_resume a u fo :
  TO a -> KInv a -> running a = None -> (k_ctl (tasks a u) <> CDone -> u < ntask a) ->
  (k_ctl (tasks a u) = CNew -> k_hscope (tasks a u) < nscope a) ->
  (forall c, s_active (scopes a c) = false ->
             (forall p, ~ In c (s_children (scopes a p))) /\ (forall t, k_cur (tasks a t) <> Some c)) ->
  WFE [u] a (fst (resume a u fo)) /\
  (k_ctl (tasks a u) <> CDone -> forall org, ~ Held (fst (resume a u fo)) u org).
Proof.
  intros T Ka Hr Hu Hh HI. unfold resume.
  pose proof (WT_incoming [u] a u fo (or_introl eq_refl) Hr) as K0.
  assert (Ec : k_ctl (tasks (fst (incoming a u fo)) u) = k_ctl (tasks a u)) by apply incoming_ctl.
  assert (Ecs : k_cur (tasks (fst (incoming a u fo)) u) = k_cur (tasks a u)).
  { cbn. unfold upd. now rewrite Nat.eqb_refl. }
  assert (Ehs : k_hscope (tasks (fst (incoming a u fo)) u) = k_hscope (tasks a u)).
  { cbn. unfold upd. now rewrite Nat.eqb_refl. }
  assert (Ess : scopes (fst (incoming a u fo)) = scopes a) by reflexivity.
  assert (Ent : ntask (fst (incoming a u fo)) = ntask a) by reflexivity.
  assert (Ens : nscope (fst (incoming a u fo)) = nscope a) by reflexivity.
  assert (Rsu : running (fst (incoming a u fo)) = Some u) by reflexivity.
  assert (Hs0 : forall org, ~ Held (fst (incoming a u fo)) u org).
  { intros org [[A _]|[f [A _]]]; cbn [incoming fst tasks set_running upd_task set_tasks] in A; unfold upd in A;
      rewrite Nat.eqb_refl in A; cbn in A; discriminate. }
  destruct (incoming a u fo) as [s inc]. cbn [fst] in *.
  assert (Ts : TO s) by (apply (w_to _ _ _ _ _ _ _ K0), T).
  assert (Ks : KInv s) by (apply (w_k _ _ _ _ _ _ _ K0), Ka).
  apply WT_WQ in K0.
  assert (Fin : forall X (P : Prop), WFE [u] s X -> WFE [u] a X /\ (P -> forall org, ~ Held X u org)).
  { intros X P Body. split; [apply (WFE_l [u] a s _ K0 Body)|]. intros _ org Hx.
    pose proof (w_own _ _ _ _ _ _ _ Body Ks u Rsu org Hx) as H0. apply (Hs0 org H0). }
  assert (Q : forall s1 r, WF [u] s s1 -> WFE [u] s (fst (ret_to_puppet s1 u r))).
  { intros s1 r H. apply (WFE_r [u] s s1); [exact H|apply WTE_WQE, WTE_ret; now left]. }
  assert (Qq : forall s1 r, WQ [u] s s1 -> WFE [u] s (fst (ret_to_puppet s1 u r))).
  { intros s1 r H. apply Q. now apply WQ_WF. }
  assert (Wf : forall g s1 ws exc, WF [u] s s1 -> u < ntask a -> WFE [u] s (fst (aexit_wait_or_finish s1 u g ws exc))).
  { intros g s1 ws exc H Hua. apply (WFE_r [u] s s1); [exact H|].
    apply WQE_wof; [apply (w_to _ _ _ _ _ _ _ H), Ts|]. pose proof (w_nt _ _ _ _ _ _ _ H). lia. }
  assert (Bk : forall s1 c, WF [u] s s1 -> WFE [u] s (fst (blocked (set_ctl s1 u c)))).
  { intros s1 c H. apply (WFE_r [u] s s1); [exact H|apply WQE_block, W_refl]. }
  destruct (k_ctl (tasks s u)) eqn:Ek0; symmetry in Ec; rename Ec into Ek;
    [apply Fin|apply Fin|apply Fin|apply Fin|apply Fin|apply Fin|apply Fin|apply Fin|apply Fin|].
  - (* CNew *)
    assert (Hua : u < ntask a) by (apply Hu; rewrite Ek; discriminate).
    set (s1 := upd_task s u (tk_started true)).
    assert (H1 : WT [u] s s1) by (apply WT_upd_task; intros k; reflexivity).
    destruct inc as [e|]; cbn [fst].
    + apply (WFE_r [u] s s1); [apply WT_WF, H1|apply WTE_WQE, WTE_finish_task; now left].
    + set (s2 := match k_group (tasks s1 u) with Some _ => fst (scope_enter s1 (k_hscope (tasks s1 u)) u) | None => s1 end).
      assert (H2 : WC [u] s s2).
      { unfold s2. destruct (k_group (tasks s1 u)); [|now apply WT_WC].
        apply (WC_trans_tc [u] s s1 _ H1). apply WC_enter. intros Hi.
        assert (Eh : k_hscope (tasks s1 u) = k_hscope (tasks a u)).
        { unfold s1. rewrite upd_task_eq. cbn. exact Ehs. }
        rewrite Eh in *. change (scopes s1) with (scopes s) in Hi. rewrite Ess in Hi.
        destruct (HI _ Hi) as [A1 A2]. repeat split.
        - intros p. change (scopes s1) with (scopes s). rewrite Ess. apply A1.
        - unfold s1. rewrite upd_task_eq. cbn. rewrite Ecs. apply A2.
        - change (nscope s1) with (nscope s). rewrite Ens. now apply Hh.
        - change (ntask s1) with (ntask s). now rewrite Ent. }
      apply (WFE_r [u] s (park s2 u)); [|apply WTE_WQE, WTE_set_running].
      apply WC_WF. apply (WC_trans_cq [u] s s2 _ H2). apply WT_WQ, WT_park. now left.
  - (* CIdle *)
    cbn [fst]. set (s1 := match inc with Some e => upd_task s u (tk_held (Some e)) | None => s end).
    assert (H1 : WT [u] s s1) by (unfold s1; destruct inc; [apply WT_upd_task; intros k; reflexivity|apply W_refl]).
    apply (WFE_r [u] s (park s1 u)); [|apply WTE_WQE, WTE_set_running].
    apply WT_WF. apply (WT_trans [u] s s1 _ H1). apply WT_park. now left.
  - (* CYield *)
    destruct k as [| |c].
    + apply Qq, W_refl.
    + destruct inc; [apply Qq, W_refl|]. destruct (ckif_spins _ _ _); [|apply Qq, W_refl]. cbn [fst blocked].
      apply (WFE_r [u] s (bare_yield s u)); [|apply WTE_WQE, WTE_set_running].
      apply WT_WF, WT_bare_yield.
    + pose proof (WQ_exit s c u inc) as H. destruct (scope_exit s c u inc) as [s1 x]. cbn [fst] in H.
      destruct x; now apply Qq.
  - (* CSleep *) apply Qq. apply WT_WQ, WT_timer_cancel.
  - (* CAexitWait *)
    assert (Hua : u < ntask a) by (apply Hu; rewrite Ek; discriminate).
    set (s1 := upd_group s g (gr_fut None)).
    assert (H1 : WT [u] s s1) by (apply WT_upd_group; intros k; reflexivity).
    destruct inc as [e0|]; [|apply Wf; [now apply WT_WF|exact Hua]].
    set (s2 := upd_scope s1 ws (sc_shield true)).
    assert (H2 : WS [u] s s2).
    { apply (WS_trans [u] s s1); [now apply WT_WS|apply WS_upd_scope; intros k; reflexivity]. }
    apply Wf; [|exact Hua]. apply WC_WF. apply (WC_trans_sc [u] s s2 _ H2). apply WC_scope_cancel.
  - (* CAexitCk *)
    assert (Hua : u < ntask a) by (apply Hu; rewrite Ek; discriminate).
    pose proof (WQ_exit s sc u inc) as H. destruct (scope_exit s sc u inc) as [s1 x]. cbn [fst] in H.
    assert (Rs : forall e0, WFE [u] s (fst (let '(s2, r) := aexit_raise s1 u g e0 in ret_to_puppet s2 u r))).
    { intros e0. pose proof (WQ_aexit_raise s1 u g e0) as K2. destruct (aexit_raise s1 u g e0) as [s2 r]. cbn [fst] in K2.
      apply Qq. now apply (WQ_trans [u] s s1). }
    destruct x.
    + destruct inc; (apply Wf; [now apply WQ_WF|exact Hua]).
    + destruct inc as [e0|]; [|apply Wf; [now apply WQ_WF|exact Hua]].
      destruct (is_cancel e0); [|apply Rs].
      apply Wf; [|exact Hua]. apply (WF_l [u] s s1 _ H). apply WC_WF, WC_scope_cancel.
    + destruct inc; apply Rs.
  - (* CStartWait *)
    assert (Hua : u < ntask a) by (apply Hu; rewrite Ek; discriminate).
    destruct inc as [e0|]; [|apply Qq, W_refl].
    destruct (handle_pending s child).
    + set (s1 := scope_cancel s (k_hscope (tasks s child)) false).
      assert (H1 : WC [u] s s1) by apply WC_scope_cancel.
      assert (T1 : TO s1) by (apply (w_to _ _ _ _ _ _ _ H1), Ts).
      assert (N1 : u < ntask s1) by (pose proof (w_nt _ _ _ _ _ _ _ H1); lia).
      unfold new_scope. cbv zeta. cbn [fst].
      match goal with |- context [event_wait ?m u ?ev] =>
        assert (H3 : WC [u] s m) by (apply (WC_trans_cq [u] s s1 _ H1); apply WT_WQ; now apply WT_new_enter);
        pose proof (WT_event_wait [u] m u ev (or_introl eq_refl)) as H4; destruct (event_wait m u ev) as [s4 wf] end.
      cbn [fst] in H4. apply Bk. apply WC_WF. apply (WC_trans_cq [u] s _ _ H3). now apply WT_WQ.
    + destruct (f_st (futs s f)); apply Qq, W_refl.
  - (* CStartJoin *)
    set (s1 := event_unwait s (k_hevent (tasks s child)) f).
    assert (H1 : WQ [u] s s1) by apply WT_WQ, WT_event_unwait.
    pose proof (WQ_exit s1 sc u inc) as H. destruct (scope_exit s1 sc u inc) as [s2 x]. cbn [fst] in H.
    assert (H2 : WQ [u] s s2) by now apply (WQ_trans [u] s s1).
    destruct x; [now apply Qq|destruct inc; now apply Qq|now apply Qq].
  - (* CHandleWait *) apply Qq. apply WT_WQ, WT_event_unwait.
  - (* CDone *) cbn [fst]. split; [apply W_refl|intros Hc; congruence].
Qed.

(* ---------------- the environment ---------------- *)
Lemma WT_root_struct m : WT [ntask m] m (root_struct m).
Proof.
  set (nt := ntask m). set (X := root_struct m).
  assert (Xk : forall t, t <> nt -> tasks X t = tasks m t).
  { intros t Ht. unfold X, root_struct. cbn. unfold upd. fold nt. destruct (Nat.eqb_spec t nt); [contradiction|reflexivity]. }
  assert (Xc : k_cur (tasks X nt) = None /\ k_must (tasks X nt) = false /\ k_waiter (tasks X nt) = None).
  { unfold X, root_struct. cbn. unfold upd. fold nt. rewrite Nat.eqb_refl. cbn. now repeat split. }
  assert (Hs : forall t org, Held X t org -> Held m t org).
  { intros t org. destruct (Nat.eq_dec t nt) as [->|Hne].
    - destruct Xc as (_ & C2 & C3). intros [[A _]|[f [A _]]]; congruence.
    - apply held_eq; [now apply Xk|reflexivity]. }
  constructor.
  - intros [T C]. constructor; [constructor|].
    + apply T.
    + intros t x Hx. change (scopes X) with (scopes m) in Hx. pose proof (to_tc _ T t x Hx) as E.
      pose proof (to_ct _ T t x E). rewrite Xk; [exact E|unfold nt; lia].
    + apply T.
    + intros t x. destruct (Nat.eq_dec t nt) as [->|Hne]; [destruct Xc as (C1 & _); rewrite C1; discriminate|].
      rewrite Xk by exact Hne. apply T.
    + intros t x. change (ntask X) with (S nt). destruct (Nat.eq_dec t nt) as [->|Hne]; [lia|].
      rewrite Xk by exact Hne. intros E. pose proof (to_ct _ T t x E). unfold nt. lia.
    + apply C.
  - intros K. apply (KInv_kq m); [exact K|]. apply kq_same; [reflexivity|reflexivity|].
    intros t. destruct (Nat.eq_dec t nt) as [->|Hne]; [right; apply Xc|left; now rewrite Xk].
  - intros _. apply MP_frame; [|auto].
    intros t. destruct (Nat.eq_dec t nt) as [->|Hne]; [right; apply Xc|left; now rewrite Xk].
  - cbn. lia.
  - cbn. lia.
  - intros t Ht. rewrite Xk; [reflexivity|]. intros ->. apply Ht. now left.
  - intros _ y _. reflexivity.
  - intros _ _ t org _ Hh. left. now apply Hs.
  - intros _ v Hv. exact Hv.
  - intros _ v _ org. apply Hs.
  - intros _ t Ht. apply nheld_eq; [|reflexivity]. apply Xk. intros ->. apply Ht. now left.
Qed.

Definition pop (s : st) (h : handle) : st := set_ready s (remove_first h (ready s)).

Definition aff (a : st) (o : op) : list tid :=
  match actor o with
  | Some u => u :: uo a o
  | None => match o with
            | ANewRoot => [ntask a]
            | ARun (HStep u) | ARun (HWake u _) | ARun (HTaskDone u) => [u]
            | _ => []
            end
  end.

Theorem W_step a o :
  reach_ok a -> running a = None -> op_ok a o = true -> WFE (aff a o) a (fst (step a o)).
Proof.
  intros R Hr Hok. pose proof (reach_tree a R) as Tr. pose proof (reach_sinv a R) as SI.
  pose proof (TO_reach a R) as T.
  assert (Ka : KInv a) by (destruct R as [ops [_ ->]]; apply reach_kinv).
  assert (HG : forall g, g_scope (groups a g) < nscope a).
  { intros g. destruct (alloc_g_dec a g) as [A|A]; [apply (tr_gscope _ Tr g A)|].
    rewrite (tr_gblank _ Tr g A). apply Tr. }
  assert (HI : forall c, s_active (scopes a c) = false ->
                 (forall p, ~ In c (s_children (scopes a p))) /\ (forall t, k_cur (tasks a t) <> Some c)).
  { intros c Hi. split.
    - intros p Hin. destruct (proj1 (tr_child _ Tr p c) Hin) as [A _]. congruence.
    - intros t E. pose proof (tr_cur_act _ Tr t c E). congruence. }
  unfold step, aff. destruct (actor o) as [u|] eqn:Ea.
  - destruct (idle a u) eqn:Ei; cbn [negb]; [|apply W_refl].
    destruct (idle_spec a u Ei) as [_ [_ Au]].
    destruct o; cbn [actor] in Ea; try discriminate; inversion Ea; subst;
      try (apply WFE_puppet_op; auto; intros t0 c0 E; inversion E; subst;
           cbn [op_ok] in Hok; apply andb_true_iff in Hok; destruct Hok as [Hok _];
           apply andb_true_iff in Hok; destruct Hok as [_ Hok]; now apply Nat.ltb_lt in Hok).
    cbn [uo]. apply WQE_WFE. now apply WQE_puppet_finish.
  - destruct o; cbn [actor] in Ea; try discriminate; try apply W_refl.
    + (* ANewRoot *)
      unfold new_root. cbn [fst]. fold (root_struct a).
      apply WQE_WFE. apply (WQE_l _ a (park (root_struct a) (ntask a))); [|apply WTE_WQE, WTE_set_running].
      apply WT_WQ. apply (WT_trans _ a (root_struct a)); [apply WT_root_struct|apply WT_park; now left].
    + (* ANativeCancel *) cbn [fst]. apply WF_WFE, WT_WF, WT_task_cancel_native.
    + (* AExtCancel *)
      cbn [fst]. apply (WFE_r [] a (scope_cancel (set_running a None) c false)); [|apply WTE_WQE, WTE_set_running].
      apply WC_WF. apply (WC_trans_tc [] a (set_running a None)); [rewrite <- Hr; apply WT_set_running_same|apply WC_scope_cancel].
    + (* ARun *)
      unfold run_handle. destruct (existsb (handle_eqb h) (ready a)) eqn:Eh; cbn [negb]; [|apply W_refl].
      apply existsb_handle in Eh.
      set (s := set_ready a (remove_first h (ready a))).
      assert (K0 : forall U, WT U a s) by (intros U; apply WT_other; reflexivity).
      assert (Ts : TO s) by (apply (w_to _ _ _ _ _ _ _ (K0 [])), T).
      assert (Ks : KInv s) by (apply (w_k _ _ _ _ _ _ _ (K0 [])), Ka).
      assert (Rs : forall u fo, WFE [u] a (fst (resume s u fo))).
      { intros u fo. apply (WFE_l [u] a s); [apply WT_WQ, K0|].
        apply WFE_resume; auto.
        - intros Hc. change (tasks s u) with (tasks a u) in Hc. destruct (alloc_t_dec a u) as [A|A]; [apply A|].
          elim Hc. apply (c_unalloc _ (si_ctl _ SI) u A).
        - intros Hc. change (tasks s u) with (tasks a u) in *. change (nscope s) with (nscope a).
          destruct (alloc_t_dec a u) as [A|A]; [|rewrite (c_unalloc _ (si_ctl _ SI) u A) in Hc; discriminate].
          destruct (c_ok _ (si_ctl _ SI) u A) as [C1 _]. destruct (C1 Hc) as [_ [G _]].
          destruct (k_group (tasks a u)) as [g|] eqn:Eg; [|congruence].
          apply (tr_kgroup _ Tr u g A Eg). }
      destruct h as [u|u f|c|u|f tm|c tm].
      * apply Rs.
      * apply Rs.
      * cbn [fst]. apply (WFE_r [] a (deliver_top (set_running s None) c)); [|apply WTE_WQE, WTE_set_running].
        apply WQ_WF. apply (WQ_trans [] a (set_running s None)).
        -- apply WT_WQ. apply (WT_trans [] a s); [apply K0|]. change (running a) with (running s) in Hr.
           rewrite <- Hr. apply WT_set_running_same.
        -- apply WQ_deliver_top. apply (deliver_handle_cancelled a c R Eh).
      * cbn [fst]. apply WF_WFE, WC_WF. apply (WC_trans_tc [u] a s); [apply K0|]. now apply WC_run_task_done.
      * cbn [fst]. apply WF_WFE, WT_WF. apply (WT_trans [] a s); [apply K0|]. apply WT_fut_complete. discriminate.
      * cbn [fst]. apply (WFE_r [] a (scope_timeout (set_running s None) c)); [|apply WTE_WQE, WTE_set_running].
        apply WC_WF. apply (WC_trans_tc [] a (set_running s None)); [|apply WC_scope_timeout].
        apply (WT_trans [] a s); [apply K0|]. change (running a) with (running s) in Hr.
        rewrite <- Hr. apply WT_set_running_same.
    + (* ATick *) destruct (Z.ltb dt 0); [apply W_refl|]. cbn [fst]. apply WF_WFE, WT_WF, WT_tick.
Qed.

(* ---------------- what an op does to the task that acts, and to a task it creates ---------------- *)
Definition Same (a b : st) : Prop :=
  tasks b = tasks a /\ scopes b = scopes a /\ futs b = futs a /\ nscope b = nscope a.

Lemma finish_not_held m u o org : ~ Held (finish_task m u o) u org.
Proof.
  unfold finish_task. set (m1 := upd_task m u _).
  assert (E : forall X, tasks X = tasks m1 -> ~ Held X u org).
  { intros X Et [[A _]|[f [A _]]]; rewrite Et in A; unfold m1 in A; rewrite upd_task_eq in A; cbn in A; discriminate. }
  destruct (k_group (tasks m u)); apply E; reflexivity.
Qed.

Lemma idle_not_held a u org : MP a -> idle a u = true -> ~ Held a u org.
Proof.
  intros M Hi. unfold idle in Hi. destruct (k_ctl (tasks a u)); try discriminate.
  destruct (k_waiter (tasks a u)) as [f|] eqn:Ew; [|discriminate].
  apply andb_true_iff in Hi. destruct Hi as [Hi _]. apply andb_true_iff in Hi. destruct Hi as [Hp _].
  unfold fut_pending in Hp. destruct (f_st (futs a f)) eqn:Ef; try discriminate.
  intros [[A _]|[g [A B]]]; [exact (M u f A Ew Ef)|]. rewrite Ew in A. injection A as <-. congruence.
Qed.

Theorem own_step a o u :
  reach_ok a -> running a = None -> op_ok a o = true -> MP a ->
  (actor o = Some u \/ o = ARun (HStep u) \/ exists f, o = ARun (HWake u f)) ->
  Same a (fst (step a o)) \/ forall org, ~ Held (fst (step a o)) u org.
Proof.
  intros R Hr Hok M Ho. pose proof (reach_tree a R) as Tr. pose proof (reach_sinv a R) as SI.
  pose proof (TO_reach a R) as T.
  assert (Ka : KInv a) by (destruct R as [ops [_ ->]]; apply reach_kinv).
  assert (HG : forall g, g_scope (groups a g) < nscope a).
  { intros g. destruct (alloc_g_dec a g) as [A|A]; [apply (tr_gscope _ Tr g A)|].
    rewrite (tr_gblank _ Tr g A). apply Tr. }
  assert (HI : forall c, s_active (scopes a c) = false ->
                 (forall p, ~ In c (s_children (scopes a p))) /\ (forall t, k_cur (tasks a t) <> Some c)).
  { intros c Hi. split.
    - intros p Hin. destruct (proj1 (tr_child _ Tr p c) Hin) as [A _]. congruence.
    - intros t E. pose proof (tr_cur_act _ Tr t c E). congruence. }
  assert (Sa : Same a a) by (repeat split; reflexivity).
  unfold step. destruct Ho as [Ea|Ho].
  - rewrite Ea. destruct (idle a u) eqn:Ei; cbn [negb]; [|now left].
    destruct (idle_spec a u Ei) as [_ [_ Au]]. right. intros org Hh. apply (idle_not_held a u org M Ei).
    destruct o; cbn [actor] in Ea; try discriminate; inversion Ea; subst;
      try (revert Hh; apply WFE_puppet_op; auto; intros t0 c0 E; inversion E; subst;
           cbn [op_ok] in Hok; apply andb_true_iff in Hok; destruct Hok as [Hok _];
           apply andb_true_iff in Hok; destruct Hok as [_ Hok]; now apply Nat.ltb_lt in Hok).
    exfalso. revert Hh. unfold puppet_finish. destruct (k_group _); [|apply finish_not_held].
    destruct (scope_exit _ _ _ _) as [s4 x]. destruct x; apply finish_not_held.
  - assert (E : exists h fo, o = ARun h /\ fst (run_handle a h) =
                 (if negb (existsb (handle_eqb h) (ready a)) then a else fst (resume (pop a h) u fo))).
    { destruct Ho as [->|[f ->]]; [exists (HStep u), None|exists (HWake u f), (Some f)]; (split; [reflexivity|]);
        unfold run_handle; destruct (negb _); reflexivity. }
    destruct E as (h & fo & -> & E). cbn [actor]. rewrite E. destruct (negb _); [now left|].
    set (s := pop a h).
    assert (K0 : WT [] a s) by (apply WT_other; reflexivity).
    assert (Ss : Same a s) by (repeat split; reflexivity).
    assert (Hc : k_ctl (tasks a u) = CDone \/ k_ctl (tasks a u) <> CDone) by (destruct (k_ctl (tasks a u)); (now left) || (right; discriminate)).
    destruct Hc as [Hc|Hc].
    + left. unfold resume. destruct (incoming s u fo) as [s1 inc] eqn:Ei.
      assert (Ec : k_ctl (tasks s1 u) = CDone).
      { change s1 with (fst (s1, inc)). rewrite <- Ei, incoming_ctl. exact Hc. }
      rewrite Ec. exact Ss.
    + right. apply WFE_resume; auto.
      * apply (w_to _ _ _ _ _ _ _ K0), T.
      * apply (w_k _ _ _ _ _ _ _ K0), Ka.
      * intros _. destruct (alloc_t_dec a u) as [A|A]; [apply A|]. elim Hc. apply (c_unalloc _ (si_ctl _ SI) u A).
      * intros Hn. change (tasks s u) with (tasks a u) in *. change (nscope s) with (nscope a).
        destruct (alloc_t_dec a u) as [A|A]; [|rewrite (c_unalloc _ (si_ctl _ SI) u A) in Hn; discriminate].
        destruct (c_ok _ (si_ctl _ SI) u A) as [C1 _]. destruct (C1 Hn) as [_ [G _]].
        destruct (k_group (tasks a u)) as [g|] eqn:Eg; [|congruence].
        apply (tr_kgroup _ Tr u g A Eg).
Qed.

Lemma child_from e X b nt u :
  TO X -> KInv X -> nt <> u -> k_must (tasks X nt) = false -> k_waiter (tasks X nt) = None ->
  W true true false e [u] X b -> forall org, Held b nt org -> OC b nt org.
Proof.
  intros T K Hne Hm Hw H org Hh.
  assert (Hn : ~ In nt [u]) by (intros [E|[]]; congruence).
  destruct (w_h _ _ _ _ _ _ _ H T K nt org Hn Hh) as [A|[[_ A]|[E _]]]; [| |discriminate].
  - destruct A as [[A _]|[f [A _]]]; congruence.
  - apply (OC_fwd X b); [apply T|split; [apply H|apply (w_v _ _ _ _ _ _ _ H eq_refl)]|now apply H|exact A].
Qed.

Theorem child_step a u g o :
  reach_ok a -> running a = None -> idle a u = true -> (o = ASpawn u g \/ o = AStart u g) ->
  group_active a g = true ->
  forall org, Held (fst (step a o)) (ntask a) org -> OC (fst (step a o)) (ntask a) org.
Proof.
  intros R Hr Hi Ho Hga. pose proof (reach_tree a R) as Tr. pose proof (TO_reach a R) as T.
  assert (Ka : KInv a) by (destruct R as [ops [_ ->]]; apply reach_kinv).
  destruct (idle_spec a u Hi) as [_ [_ Au]].
  assert (HG : forall g, g_scope (groups a g) < nscope a).
  { intros g0. destruct (alloc_g_dec a g0) as [A|A]; [apply (tr_gscope _ Tr g0 A)|].
    rewrite (tr_gblank _ Tr g0 A). apply Tr. }
  assert (Es : fst (step a o) = fst (puppet_op a u o)).
  { unfold step. destruct Ho as [-> | ->]; cbn [actor]; now rewrite Hi. }
  rewrite Es. unfold puppet_op.
  pose proof (WT_begin_act [u] a u (or_introl eq_refl) Hr) as K0. set (s := begin_act a u) in *.
  assert (Ts : TO s) by (apply (w_to _ _ _ _ _ _ _ K0), T).
  assert (Ks : KInv s) by (apply (w_k _ _ _ _ _ _ _ K0), Ka).
  assert (Hne : ntask a <> u) by lia.
  assert (Ega : group_active s g = true) by exact Hga.
  destruct Ho as [-> | ->]; rewrite Ega; cbn [negb].
  - rewrite spawn_task_eq. set (X := spawn_struct s g None).
    assert (HX : WT [ntask s] s X) by (apply WT_spawn_struct; apply (HG g)).
    apply (child_from true X _ (ntask a) u).
    + apply (w_to _ _ _ _ _ _ _ HX), Ts.
    + apply (w_k _ _ _ _ _ _ _ HX), Ks.
    + exact Hne.
    + unfold X, spawn_struct. cbn. unfold upd. now rewrite Nat.eqb_refl.
    + unfold X, spawn_struct. cbn. unfold upd. now rewrite Nat.eqb_refl.
    + apply WQE_ret_after; [now left|]. apply (WQ_trans [u] X (restart X (Some (g_scope (groups s g))))); [apply WQ_restart|apply WT_WQ, WT_call_soon].
  - unfold new_fut. cbv zeta.
    set (m1 := mkSt (tasks s) (ntask s) (scopes s) (nscope s) (groups s) (ngroup s) (upd (futs s) (nfut s) fut0) (S (nfut s))
                    (events s) (nevent s) (ready s) (timers s) (ntimer s) (now s) (running s)).
    assert (Hm1 : WT [u] s m1) by apply (WT_new_fut _ s).
    assert (Tm : TO m1) by (apply (w_to _ _ _ _ _ _ _ Hm1), Ts).
    assert (Km : KInv m1) by (apply (w_k _ _ _ _ _ _ _ Hm1), Ks).
    match goal with |- context [spawn_task m1 g ?sf] =>
      assert (Ef : futs (fst (spawn_task m1 g sf)) (nfut s) = fut0);
      [rewrite spawn_fut; [cbn; unfold upd; now rewrite Nat.eqb_refl|];
       intros x Hx; change (tasks m1 x) with (tasks s x) in Hx; pose proof (k_alloc _ Ks x _ Hx); lia|];
      assert (Hn : nfut s < nfut (fst (spawn_task m1 g sf))) by (rewrite spawn_nfut; cbn; lia);
      rewrite (spawn_task_eq m1 g sf) in *; set (X := spawn_struct m1 g sf) in * end.
    cbn [fst] in *.
    assert (HX : WT [ntask m1] m1 X) by (apply WT_spawn_struct; apply (HG g)).
    apply (child_from true X _ (ntask a) u).
    + apply (w_to _ _ _ _ _ _ _ HX), Tm.
    + apply (w_k _ _ _ _ _ _ _ HX), Km.
    + exact Hne.
    + unfold X, spawn_struct. cbn. unfold upd. now rewrite Nat.eqb_refl.
    + unfold X, spawn_struct. cbn. unfold upd. now rewrite Nat.eqb_refl.
    + apply WQE_block.
      match goal with |- _ (suspend_on ?s2 u ?f) => apply (WQ_trans [u] X s2) end.
      * apply (WQ_trans [u] X (restart X (Some (g_scope (groups m1 g))))); [apply WQ_restart|apply WT_WQ, WT_call_soon].
      * apply WT_WQ, WT_suspend_fresh; [now left|exact Ef|exact Hn].
Qed.

Theorem root_step a org : ~ Held (fst (step a ANewRoot)) (ntask a) org.
Proof.
  cbn [step actor]. unfold new_root. cbn [fst]. fold (root_struct a).
  assert (Hm : k_must (tasks (root_struct a) (ntask a)) = false).
  { unfold root_struct. cbn. unfold upd. now rewrite Nat.eqb_refl. }
  destruct (park_fields (root_struct a) (ntask a) Hm) as [E1 E2].
  intros [[A _]|[f [A B]]]; cbn [tasks futs set_running] in *; rewrite E1 in A.
  - change (k_must (tasks (root_struct a) (ntask a)) = true) in A. rewrite Hm in A. discriminate.
  - change (Some (nfut (root_struct a)) = Some f) in A. injection A as <-. change (nfut (root_struct a)) with (nfut a) in E2. rewrite E2 in B. discriminate.
Qed.

(* the done-callback does not touch the outcome of its task *)
Lemma td_done m u : k_done (tasks (run_task_done m u) u) = k_done (tasks m u).
Proof.
  pose proof (kq_run_task_done m u) as _. rewrite run_task_done_eq.
  destruct (k_group (tasks m u)) as [g|]; [|reflexivity].
  set (X := td_struct (set_running m None) u g).
  assert (E1 : k_done (tasks X u) = k_done (tasks m u)).
  { unfold X, td_struct. destruct (k_cur (tasks (set_running m None) u)); cbn; unfold upd; now rewrite Nat.eqb_refl. }
  rewrite <- E1. generalize (tasks m u) as k. intros k. unfold td_tail.
  set (s4 := match g_fut (groups X g), g_tasks (groups X g) with Some f, [] => fut_complete X f (FRes 0) | _, _ => X end).
  assert (E4 : k_done (tasks s4 u) = k_done (tasks X u)).
  { unfold s4. destruct (g_fut (groups X g)); [|reflexivity]. destruct (g_tasks (groups X g)); [|reflexivity].
    now rewrite fut_complete_tasks. }
  rewrite <- E4.
  assert (Hc : forall a b0, k_done (tasks (scope_cancel a b0 false) u) = k_done (tasks a u)).
  { intros a b0. unfold scope_cancel. destruct (s_cancelled (scopes a b0)); [reflexivity|].
    set (a2 := upd_scope (cancel_timeout a b0) b0 _).
    assert (E2 : tasks a2 = tasks a) by (unfold a2, cancel_timeout; destruct (s_timeout (scopes a b0)); reflexivity).
    destruct (s_host (scopes a2 b0)); [|now rewrite E2].
    rewrite (tcore_done _ _ (kf_tasks _ _ (kframe_deliver_top a2 b0) u)). now rewrite E2. }
  destruct (match k_done k with Some (OExc e) => Some e | Some (OCanc e) => Some e | _ => None end) as [e|].
  - destruct (k_startfut k) as [f|].
    + destruct (f_st (futs s4 f)).
      * now rewrite fut_complete_tasks.
      * destruct (is_cancel e); [destruct (eff_cancelled s4 _); [reflexivity|apply Hc]|now rewrite Hc].
      * destruct (is_cancel e); [destruct (eff_cancelled s4 _); [reflexivity|apply Hc]|now rewrite Hc].
      * destruct (is_cancel e); [reflexivity|now rewrite Hc].
    + destruct (is_cancel e); [destruct (eff_cancelled s4 _); [reflexivity|apply Hc]|now rewrite Hc].
  - destruct (k_startfut k) as [f|]; [|reflexivity].
    destruct (f_st (futs s4 f)); try reflexivity. now rewrite fut_complete_tasks.
Qed.
