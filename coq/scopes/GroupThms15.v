(* C07/C02, finding F20: what an interrupted start() raises when the child failed before started().
   (a) result-level theorem for the fixed machine; (b) the pre-fix step as a local definition and a witness run in
   which the child's error surfaces nowhere; (c) the "no error lost" theorem tied to the starter that raises it. *)
From AV Require Import Base Machine GroupInv GroupInv2 GroupInv3 GroupInv4 GroupInv5 GroupInv6 GroupInv7 GroupInv8
  GroupInv9 GroupThms GroupThms2.

Lemma handle_pending_incs_pop s h t c : handle_pending (incs (pop s h) t) c = handle_pending s c.
Proof.
  unfold handle_pending. destruct (incs_cview (pop s h) t c) as [V _]. apply cview_inv in V.
  destruct V as [_ [_ [_ [E1 [E2 _]]]]]. change (tasks (pop s h) c) with (tasks s c) in E1, E2. now rewrite E1, E2.
Qed.

(* (a) The starter t waits for started() of child c; the child's handle is no longer pending and the start future
   holds the exception e' the child handed over.  Then the step that resumes the starter returns RExc e' -
   whether or not a native cancellation of the starter is pending (k_must): start() raises the child's error. *)
Theorem start_raises_routed_exception s t g c f e' h : reach s ->
  k_ctl (tasks s t) = CStartWait g c f -> handle_pending s c = false -> f_st (futs s f) = FExc e' ->
  In h (ready s) -> (h = HStep t \/ exists f', h = HWake t f') ->
  h = HWake t f /\ snd (step s (ARun h)) = RExc e'.
Proof.
  intros R Hc Hp Hf Hin Hh. destruct (reach_inv s R) as [[K Ci G J] Hrun].
  assert (Hnr : running s <> Some t) by (rewrite Hrun; discriminate).
  pose proof (c_w s Ci t Hnr) as Hw. rewrite Hc in Hw. cbn [ctl_waiter] in Hw.
  assert (Eh' : h = HWake t f).
  { destruct Hh as [->|[f' ->]].
    - destruct (k_step s K t Hin) as [E _]. congruence.
    - destruct (k_wake s K t f' Hin) as [E _]. congruence. }
  split; [exact Eh'|]. subst h.
  cbn [step actor]. unfold run_handle.
  assert (Eh : existsb (handle_eqb (HWake t f)) (ready s) = true) by (apply existsb_handle; exact Hin).
  rewrite Eh. cbn [negb]. rewrite pop_eq_frame. rewrite resume_unfold. cbn zeta.
  change (k_ctl (tasks (pop s (HWake t f)) t)) with (k_ctl (tasks s t)). rewrite Hc.
  rewrite handle_pending_incs_pop, Hp.
  assert (Einc : exists e, snd (incoming (pop s (HWake t f)) t (Some f)) = Some e).
  { unfold incoming. cbn [snd]. change (futs (pop s (HWake t f)) f) with (futs s f). rewrite Hf.
    destruct (k_must _); [destruct e'|]; eauto. }
  destruct Einc as [e ->]. cbn [ret_to_puppet snd]. unfold start_exc.
  change (futs (incs (pop s (HWake t f)) t) f) with (futs s f). now rewrite Hf.
Qed.

Example ex_start_raises_routed_exception :
  let s := final step init [ANewRoot; AGroupNew 1; AGroupEnter 1 1; AStart 1 1; ARun (HStep 2); AHold 2 7;
                            AFinish 2 0; ARun (HTaskDone 2); ANativeCancel 1] in
  k_ctl (tasks s 1) = CStartWait 1 2 4 /\ handle_pending s 2 = false /\ f_st (futs s 4) = FExc (EErr 7) /\
  In (HWake 1 4) (ready s) /\ k_must (tasks s 1) = true /\ snd (step s (ARun (HWake 1 4))) = RExc (EErr 7).
Proof. vm_compute. repeat split; auto. Qed.

(* ---------------- (b) the step before the fix ---------------- *)
(* resume before the fix of F20: it differs from `resume` only in the branch CStartWait / interrupted / handle no
   longer pending, where it re-raised the interruption whatever the start future held *)
Definition resume_old (s0 : st) (t : tid) (fo : option fid) : st * res :=
  match k_ctl (tasks s0 t) with
  | CStartWait g child f =>
      let '(s, inc) := incoming s0 t fo in
      match inc with
      | Some e => if handle_pending s child then resume s0 t fo else ret_to_puppet s t (RExc e)
      | None => resume s0 t fo
      end
  | _ => resume s0 t fo
  end.

Definition run_handle_old (s0 : st) (h : handle) : st * res :=
  if negb (existsb (handle_eqb h) (ready s0)) then (s0, RRejected) else
  let s := set_ready s0 (remove_first h (ready s0)) in
  match h with
  | HStep t => resume_old s t None
  | HWake t f => resume_old s t (Some f)
  | _ => run_handle s0 h
  end.

Definition step_old (s : st) (o : op) : st * res :=
  match o with ARun h => run_handle_old s h | _ => step s o end.

(* the two machines differ only where a starter is resumed while its start future holds an exception *)
Lemma resume_old_eq s0 t fo :
  (forall g c f e, k_ctl (tasks s0 t) = CStartWait g c f -> f_st (futs s0 f) <> FExc e) ->
  resume_old s0 t fo = resume s0 t fo.
Proof.
  intros H. unfold resume_old. destruct (k_ctl (tasks s0 t)) as [| | | | | |g c f| | |] eqn:Ec; try reflexivity.
  rewrite resume_unfold. cbn zeta. rewrite Ec.
  destruct (incoming s0 t fo) as [s inc] eqn:Ei.
  assert (Es : s = incs s0 t) by (rewrite <- (incoming_fst s0 t fo), Ei; reflexivity).
  cbn [snd]. subst s. destruct inc as [e|]; [|reflexivity].
  destruct (handle_pending (incs s0 t) c); [reflexivity|].
  unfold start_exc. change (futs (incs s0 t) f) with (futs s0 f).
  destruct (f_st (futs s0 f)) eqn:Ef; try reflexivity. exfalso. exact (H g c f e0 eq_refl Ef).
Qed.

Theorem step_old_eq s o :
  (forall t g c f e, k_ctl (tasks s t) = CStartWait g c f -> f_st (futs s f) <> FExc e) ->
  step_old s o = step s o.
Proof.
  intros H. destruct o; try reflexivity. cbn [step_old step actor]. unfold run_handle_old, run_handle.
  destruct (negb (existsb (handle_eqb h) (ready s))); [reflexivity|].
  destruct h; try reflexivity; apply resume_old_eq; intros g c f0 e; apply (H _ g c f0 e).
Qed.

Definition has_err (n : nat) (e : exn) : bool :=
  existsb (fun x => match x with EErr m => Nat.eqb m n | _ => false end) (leaves e).
Definition res_has_err (n : nat) (r : res) : bool :=
  match r with RExc e => has_err n e | _ => false end.
Definition opt_has_err (n : nat) (o : option exn) : bool :=
  match o with Some e => has_err n e | None => false end.

(* every place from which an exception can still surface: the errors collected by a group, what a live task
   holds, and the futures a live task waits on.  (The dead child's own record and its TaskHandle still carry the
   error, but a start() that raises returns no handle: nobody can read them.) *)
Definition err_visible (n : nat) (s : st) : bool :=
  existsb (fun g => existsb (fun p => has_err n (snd p)) (g_excs (groups s g))) (List.seq 0 (ngroup s)) ||
  existsb (fun t => match k_done (tasks s t) with
                    | Some _ => false
                    | None =>
                        opt_has_err n (k_held (tasks s t)) ||
                        match k_waiter (tasks s t) with
                        | Some f => match f_st (futs s f) with FExc e => has_err n e | _ => false end
                        | None => false
                        end
                    end) (List.seq 0 (ntask s)).

(* F20 before the fix: the child (task 2) fails with EErr 7 before started(); its task_done callback hands the
   error to the start future; the starter (task 1) is natively cancelled before it runs again; start() re-raises
   the cancellation, the group exits with it, both tasks finish: EErr 7 is in no result of the run, in no group's
   collected errors, held by no task, and the start future that holds it is awaited by nobody *)
Example start_error_lost_before_fix_refuted :
  exists ops,
    let '(s, outs) := run_ops step_old init ops in
    k_done (tasks s 2) = Some (OExc (EErr 7)) /\ k_tdran (tasks s 2) = true /\
    f_st (futs s 4) = FExc (EErr 7) /\ k_startfut (tasks s 2) = Some 4 /\
    forallb (fun r => negb (res_has_err 7 r)) outs = true /\ err_visible 7 s = false /\
    (* ... already right after start() raised, and when everything is over *)
    err_visible 7 (final step_old init (firstn 10 ops)) = false /\
    k_ctl (tasks s 1) = CDone /\ k_ctl (tasks s 2) = CDone /\
    (* the same run on the fixed machine: start() raises the child's error, and so does the task group *)
    nth 9 (snd (run_ops step init ops)) RNone = RExc (EErr 7) /\
    nth 11 (snd (run_ops step init ops)) RNone = RExc (EGroup [EErr 7]).
Proof.
  exists [ANewRoot; AGroupNew 1; AGroupEnter 1 1; AStart 1 1; ARun (HStep 2); AHold 2 7; AFinish 2 0;
          ARun (HTaskDone 2); ANativeCancel 1; ARun (HWake 1 4); AGroupExit 1 1; ARun (HStep 1); AFinish 1 0].
  vm_compute. repeat split; reflexivity.
Qed.

(* ---------------- (c) no error lost, tied to the starter that raises it ---------------- *)
(* a group child whose coroutine ended with a non-cancellation error is no longer pending *)
Lemma failed_child_not_pending s g t e : reach s -> In t (g_ever (groups s g)) ->
  k_done (tasks s t) = Some (OExc e) -> handle_pending s t = false.
Proof.
  intros R Hin Hd. destruct (reach_inv s R) as [[K Ci G J] Hrun].
  destruct (g_grp s G g t Hin) as [Hg _].
  destruct (k_final (tasks s t)) as [o|] eqn:Ef.
  - destruct (h_fin s Ci t o) as [Hs _]; [congruence|exact Ef|]. unfold handle_pending. now rewrite Hs.
  - destruct (h_done s Ci t) as [e0 E0]; [congruence|exact Ef|]. congruence.
Qed.

(* C02/C07: the error e of a finished member t (its task_done callback has run) is among the errors collected by
   its group, or it sits in t's start future - and then every starter still waiting on that future raises exactly e
   in the step that resumes it, whether or not it has been natively cancelled in between *)
Theorem start_no_error_lost_raised s g t e : reach s -> In t (g_ever (groups s g)) ->
  k_tdran (tasks s t) = true -> k_done (tasks s t) = Some (OExc e) ->
  In e (map snd (g_excs (groups s g))) \/
  exists f, k_startfut (tasks s t) = Some f /\ f_st (futs s f) = FExc e /\
    forall t' g' c h, k_ctl (tasks s t') = CStartWait g' c f -> In h (ready s) ->
      (h = HStep t' \/ exists f', h = HWake t' f') ->
      c = t /\ h = HWake t' f /\ snd (step s (ARun h)) = RExc e.
Proof.
  intros R H1 H2 H3. destruct (start_no_error_lost s g t e R H1 H2 H3) as [H|[f [Hsf Hf]]]; [left; exact H|].
  right. exists f. split; [exact Hsf|]. split; [exact Hf|].
  intros t' g' c h Hc Hin Hh. destruct (reach_inv s R) as [[K Ci G J] Hrun].
  assert (Hnr : running s <> Some t') by (rewrite Hrun; discriminate).
  destruct (c_sw s Ci t' g' c f Hnr Hc) as [_ [Hsf' _]].
  assert (Ec : c = t) by (apply (kk_ss s J f c t Hsf' Hsf)). subst c. split; [reflexivity|].
  apply (start_raises_routed_exception s t' g' t f e h R Hc (failed_child_not_pending s g t e R H1 H3) Hf Hin Hh).
Qed.

Example ex_start_no_error_lost_raised :
  let s := final step init [ANewRoot; AGroupNew 1; AGroupEnter 1 1; AStart 1 1; ARun (HStep 2); AHold 2 7;
                            AFinish 2 0; ARun (HTaskDone 2); ANativeCancel 1] in
  In 2 (g_ever (groups s 1)) /\ k_tdran (tasks s 2) = true /\ k_done (tasks s 2) = Some (OExc (EErr 7)) /\
  ~ In (EErr 7) (map snd (g_excs (groups s 1))) /\ k_ctl (tasks s 1) = CStartWait 1 2 4 /\
  k_must (tasks s 1) = true /\ In (HWake 1 4) (ready s).
Proof. vm_compute. repeat split; auto. Qed.
