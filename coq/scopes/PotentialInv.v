(* C05 — I5 "own cancellations are compensated": the native cancel counter of a task minus the debts
   (_pending_uncancellations) of the scopes it hosts changes only by requests from outside (native cancel(),
   scopes hosted by other tasks) and by explicit uncancel().  Definitions and the accounting of every
   primitive step. *)
From Coq Require Import ZArith Lia.
From AV Require Import Base Machine ScopeFrames DeliverInv TreeInv DeliverAlive.

(* ---------------- sums over the allocated scopes ---------------- *)
Fixpoint sumf (f : nat -> nat) (l : list nat) : nat :=
  match l with [] => 0 | x :: r => f x + sumf f r end.

Lemma sumf_app f a b : sumf f (a ++ b) = sumf f a + sumf f b.
Proof. induction a as [|x a IH]; cbn; [reflexivity|]. rewrite IH. lia. Qed.

Lemma sumf_ext f g l : (forall x, In x l -> f x = g x) -> sumf f l = sumf g l.
Proof.
  induction l as [|x l IH]; intros H; cbn; [reflexivity|].
  rewrite (H x (or_introl eq_refl)), IH; [reflexivity|]. intros y Hy. apply H. now right.
Qed.

Lemma sumf_one f g l c :
  NoDup l -> In c l -> (forall x, x <> c -> f x = g x) -> sumf g l + f c = sumf f l + g c.
Proof.
  induction l as [|x l IH]; intros Hn Hin H; [destruct Hin|].
  inversion Hn as [|? ? Hx Hl]; subst. cbn. destruct Hin as [->|Hin].
  - assert (E : sumf g l = sumf f l).
    { apply sumf_ext. intros y Hy. symmetry. apply H. intros ->. contradiction. }
    rewrite E. lia.
  - assert (x <> c) by (intros ->; contradiction). rewrite <- (H x H0).
    specialize (IH Hl Hin H). lia.
Qed.

Lemma sumf_ge f l c : In c l -> f c <= sumf f l.
Proof.
  induction l as [|y l IH]; intros H; [destruct H|]. cbn [sumf]. destruct H as [->|H]; [lia|].
  specialize (IH H). lia.
Qed.

Lemma sumf_notin f g l c : ~ In c l -> (forall x, x <> c -> f x = g x) -> sumf g l = sumf f l.
Proof. intros Hn H. apply sumf_ext. intros y Hy. symmetry. apply H. intros ->. contradiction. Qed.

Lemma in_seq1' x n : In x (seq1 n) <-> 1 <= x /\ x <= n.
Proof. induction n as [|n IH]; cbn; [lia|]. rewrite in_app_iff, IH. cbn. lia. Qed.

Lemma nodup_snoc (l : list nat) x : NoDup l -> ~ In x l -> NoDup (l ++ [x]).
Proof.
  induction l as [|y l IH]; cbn; intros Hn Hx; [constructor; [tauto|constructor]|].
  inversion Hn as [|z l' Hy Hl]; subst. constructor.
  - intros H. apply in_app_or in H. destruct H as [H|[H|[]]]; [contradiction|]. subst. apply Hx. now left.
  - apply IH; [exact Hl|]. intros H. apply Hx. now right.
Qed.

Lemma nodup_seq1 n : NoDup (seq1 n).
Proof.
  induction n as [|n IH]; cbn; [constructor|]. apply nodup_snoc; [exact IH|].
  rewrite in_seq1'. lia.
Qed.

(* ---------------- the potential ---------------- *)
Definition owed (s : st) (t : tid) (c : sid) : nat :=
  if opt_eqb (s_host (scopes s c)) t then s_pending (scopes s c) else 0.

Definition pending_of (s : st) (t : tid) : nat := sumf (owed s t) (seq1 (pred (nscope s))).

Definition phi (s : st) (t : tid) : Z := (Z.of_nat (k_ncancel (tasks s t)) - Z.of_nat (pending_of s t))%Z.

Record PInv (s : st) : Prop := {
  pi_unhosted : forall c, s_host (scopes s c) = None -> s_pending (scopes s c) = 0;
  pi_nonneg : forall t, pending_of s t <= k_ncancel (tasks s t)
}.

(* accounting view: what phi and PInv look at *)
Definition sc_acct (c : scope) := (s_host c, s_pending c).

Record inert (a b : st) : Prop := {
  in_nscope : nscope b = nscope a;
  in_scope : forall c, sc_acct (scopes b c) = sc_acct (scopes a c);
  in_task : forall t, k_ncancel (tasks b t) = k_ncancel (tasks a t)
}.

Lemma inert_refl a : inert a a.
Proof. constructor; auto. Qed.

Lemma inert_trans a b c : inert a b -> inert b c -> inert a c.
Proof.
  intros H1 H2. constructor.
  - now rewrite (in_nscope _ _ H2), (in_nscope _ _ H1).
  - intros x. now rewrite (in_scope _ _ H2), (in_scope _ _ H1).
  - intros x. now rewrite (in_task _ _ H2), (in_task _ _ H1).
Qed.

Section AcctProj.
  Variables a b : scope.
  Hypothesis H : sc_acct b = sc_acct a.
  Lemma ac_host : s_host b = s_host a. Proof. unfold sc_acct in H. now inversion H. Qed.
  Lemma ac_pending : s_pending b = s_pending a. Proof. unfold sc_acct in H. now inversion H. Qed.
End AcctProj.

Lemma owed_inert a b t c : inert a b -> owed b t c = owed a t c.
Proof.
  intros H. unfold owed. now rewrite (ac_host _ _ (in_scope _ _ H c)), (ac_pending _ _ (in_scope _ _ H c)).
Qed.

Lemma pending_of_inert a b t : inert a b -> pending_of b t = pending_of a t.
Proof.
  intros H. unfold pending_of. rewrite (in_nscope _ _ H). apply sumf_ext. intros c _. now apply owed_inert.
Qed.

Lemma phi_inert a b t : inert a b -> phi b t = phi a t.
Proof. intros H. unfold phi. now rewrite (pending_of_inert a b t H), (in_task _ _ H t). Qed.

Lemma PInv_inert a b : PInv a -> inert a b -> PInv b.
Proof.
  intros P H. constructor.
  - intros c. rewrite (ac_host _ _ (in_scope _ _ H c)), (ac_pending _ _ (in_scope _ _ H c)). apply P.
  - intros t. rewrite (pending_of_inert a b t H), (in_task _ _ H t). apply P.
Qed.

(* one scope's debt changes *)
Lemma pending_of_one a b t c :
  nscope b = nscope a -> 0 < c < nscope a ->
  (forall x, x <> c -> s_host (scopes b x) = s_host (scopes a x) /\ s_pending (scopes b x) = s_pending (scopes a x)) ->
  pending_of b t + owed a t c = pending_of a t + owed b t c.
Proof.
  intros En Hc H. unfold pending_of. rewrite En. apply sumf_one.
  - apply nodup_seq1.
  - apply in_seq1'. lia.
  - intros x Hx. unfold owed. destruct (H x Hx) as [E1 E2]. now rewrite E1, E2.
Qed.

(* ---------------- one cancel request ---------------- *)
Lemma fut_complete_tasks s f v : tasks (fut_complete s f v) = tasks s.
Proof.
  unfold fut_complete. destruct (f_st (futs s f)); try reflexivity. destruct (f_waiter (futs s f)); reflexivity.
Qed.

Lemma task_cancel_ncancel s t o t' : k_done (tasks s t) = None ->
  k_ncancel (tasks (task_cancel s t o) t') =
  if Nat.eqb t' t then S (k_ncancel (tasks s t)) else k_ncancel (tasks s t').
Proof.
  intros Hd. unfold task_cancel. rewrite Hd.
  destruct (k_waiter (tasks s t)) as [f|].
  - destruct (fut_pending _ f).
    + rewrite fut_complete_tasks. cbn. unfold upd. destruct (Nat.eqb t' t); reflexivity.
    + cbn. unfold upd. destruct (Nat.eqb_spec t' t); [subst; now rewrite Nat.eqb_refl|reflexivity].
  - cbn. unfold upd. destruct (Nat.eqb_spec t' t); [subst; now rewrite Nat.eqb_refl|reflexivity].
Qed.

Lemma task_cancel_done_noop s t o : k_done (tasks s t) <> None -> task_cancel s t o = s.
Proof. intros H. unfold task_cancel. destruct (k_done (tasks s t)); [reflexivity|now elim H]. Qed.

Lemma task_cancel_nscope s t o : nscope (task_cancel s t o) = nscope s.
Proof. apply (kf_nscope _ _ (kframe_task_cancel s t o)). Qed.

(* what one step of the delivery loop does to the accounts *)
Definition acct_step (origin : sid) (t : tid) (a a' : st) : Prop :=
  inert a a' \/
  (k_done (tasks a t) = None /\ nscope a' = nscope a /\
   (forall t', k_ncancel (tasks a' t') = if Nat.eqb t' t then S (k_ncancel (tasks a t)) else k_ncancel (tasks a t')) /\
   (forall c, s_host (scopes a' c) = s_host (scopes a c)) /\
   (forall c, s_pending (scopes a' c) =
              if Nat.eqb c origin && opt_eqb (s_host (scopes a origin)) t
              then S (s_pending (scopes a origin)) else s_pending (scopes a c))).

Lemma deliver_task_acct self origin a r t :
  acct_step origin t a (fst (deliver_task self origin (a, r) t)).
Proof.
  unfold deliver_task.
  destruct (k_done (tasks a t)) eqn:Hd; [left; apply inert_refl|].
  destruct (k_must (tasks a t)); [left; apply inert_refl|].
  destruct (_ && _); [|left; apply inert_refl].
  destruct (match k_waiter (tasks a t) with Some f => fut_pending a f | None => true end); [|left; apply inert_refl].
  cbn [fst]. right. set (a1 := task_cancel a t (S origin)).
  assert (Es : scopes a1 = scopes a) by apply task_cancel_scopes.
  rewrite Es. split; [exact Hd|].
  destruct (opt_eqb (s_host (scopes a origin)) t) eqn:Eh.
  - split; [apply task_cancel_nscope|]. split; [intros t'; now apply task_cancel_ncancel|]. split.
    + intros c. cbn. rewrite Es. unfold upd. destruct (Nat.eqb_spec c origin); [subst|]; reflexivity.
    + intros c. cbn. rewrite Es. unfold upd. rewrite andb_true_r.
      destruct (Nat.eqb_spec c origin); [subst|]; reflexivity.
  - split; [apply task_cancel_nscope|]. split; [intros t'; now apply task_cancel_ncancel|]. split.
    + intros c. rewrite Es. reflexivity.
    + intros c. rewrite Es. now rewrite andb_false_r.
Qed.

(* effect on the potential *)
Lemma phi_acct_step origin t a a' :
  (s_host (scopes a origin) = Some t -> 0 < origin < nscope a) ->
  acct_step origin t a a' ->
  (forall t', t' <> t -> phi a' t' = phi a t') /\
  (phi a' t = phi a t \/
   (phi a' t = (phi a t + 1)%Z /\ s_host (scopes a origin) <> Some t /\ k_done (tasks a t) = None)).
Proof.
  intros Hal [H|[Hd [En [Ek [Eah Ep]]]]].
  { split; [intros t' _; now apply phi_inert|left; now apply phi_inert]. }
  destruct (opt_eqb (s_host (scopes a origin)) t) eqn:Eh.
  - apply opt_eqb_true in Eh. specialize (Hal Eh).
    assert (Hone : forall t', pending_of a' t' + owed a t' origin = pending_of a t' + owed a' t' origin).
    { intros t'. apply pending_of_one; [exact En|exact Hal|]. intros x Hx. split; [apply Eah|].
      rewrite Ep. destruct (Nat.eqb_spec x origin); [contradiction|reflexivity]. }
    assert (Epo : s_pending (scopes a' origin) = S (s_pending (scopes a origin))).
    { rewrite Ep, Nat.eqb_refl. reflexivity. }
    assert (Eo : forall t', owed a' t' origin = if Nat.eqb t' t then S (s_pending (scopes a origin)) else 0).
    { intros t'. unfold owed. rewrite (Eah origin), Eh, Epo. cbn [opt_eqb].
      rewrite (Nat.eqb_sym t t'). reflexivity. }
    assert (Eo0 : forall t', owed a t' origin = if Nat.eqb t' t then s_pending (scopes a origin) else 0).
    { intros t'. unfold owed. rewrite Eh. cbn [opt_eqb]. rewrite (Nat.eqb_sym t t'). reflexivity. }
    split.
    + intros t' Hne. unfold phi. rewrite Ek. specialize (Hone t'). rewrite Eo, Eo0 in Hone.
      destruct (Nat.eqb_spec t' t); [contradiction|]. lia.
    + left. unfold phi. rewrite Ek, Nat.eqb_refl. specialize (Hone t). rewrite Eo, Eo0, Nat.eqb_refl in Hone. lia.
  - assert (Ei : forall t', pending_of a' t' = pending_of a t').
    { intros t'. unfold pending_of. rewrite En. apply sumf_ext. intros c _. unfold owed.
      rewrite (Eah c), Ep. now rewrite andb_false_r. }
    apply opt_eqb_false in Eh. split.
    + intros t' Hne. unfold phi. rewrite Ek, Ei. destruct (Nat.eqb_spec t' t); [contradiction|reflexivity].
    + right. split; [|split; assumption]. unfold phi. rewrite Ek, Nat.eqb_refl, Ei. lia.
Qed.

Lemma PInv_acct_step origin t a a' :
  (s_host (scopes a origin) = Some t -> 0 < origin < nscope a) ->
  acct_step origin t a a' -> PInv a -> PInv a'.
Proof.
  intros Hal St P. destruct St as [H|[Hd [En [Ek [Eah Ep]]]]]; [now apply (PInv_inert a)|].
  destruct (phi_acct_step origin t a a' Hal (or_intror (conj Hd (conj En (conj Ek (conj Eah Ep)))))) as [F1 F2].
  constructor.
  - intros c Hc. rewrite (Eah c) in Hc. rewrite Ep.
    destruct (Nat.eqb_spec c origin) as [->|Hne]; cbn [andb]; [|now apply P].
    rewrite Hc. cbn [opt_eqb]. now apply P.
  - intros t'. pose proof (pi_nonneg _ P t') as N0.
    destruct (Nat.eq_dec t' t) as [->|Hne].
    + unfold phi in F2. destruct F2 as [F2|[F2 _]]; lia.
    + specialize (F1 t' Hne). unfold phi in F1. lia.
Qed.

(* ---------------- a whole delivery ---------------- *)
Section DeliverPhi.
  Variables (s0 : st) (origin : sid).
  Hypothesis L1 : forall x t, In t (s_tasks (scopes s0 x)) -> k_cur (tasks s0 t) = Some x.
  Hypothesis L2 : forall p x, In x (s_children (scopes s0 p)) -> s_parent (scopes s0 x) = Some p.
  Hypothesis HA : forall t, s_host (scopes s0 origin) = Some t -> 0 < origin < nscope s0.

  (* t is reached by the origin, which is hosted by somebody else: a foreign request *)
  Definition foreign (t : tid) : Prop :=
    k_done (tasks s0 t) = None /\ (exists x, k_cur (tasks s0 t) = Some x /\ vis s0 origin x) /\
    s_host (scopes s0 origin) <> Some t.

  Definition J (a : st) : Prop :=
    kframe s0 a /\ (PInv s0 -> PInv a) /\
    forall t, (phi s0 t <= phi a t)%Z /\ ((phi s0 t < phi a t)%Z -> foreign t).

  Lemma J_refl : J s0.
  Proof. split; [apply kframe_refl|]. split; [auto|]. intros t. split; lia. Qed.

  Lemma J_inert a b : J a -> kframe a b -> inert a b -> J b.
  Proof.
    intros [K [P H]] Kb Ib. split; [eapply kframe_trans; eauto|]. split.
    - intros P0. apply (PInv_inert a); auto.
    - intros t. rewrite (phi_inert a b t Ib). apply H.
  Qed.

  Lemma J_task self a r t :
    J a -> vis s0 origin self -> In t (s_tasks (scopes s0 self)) ->
    J (fst (deliver_task self origin (a, r) t)).
  Proof.
    intros [K [P H]] Hv Hin.
    pose proof (deliver_task_acct self origin a r t) as St.
    pose proof (kframe_deliver_task self origin a r t) as Ks.
    set (a' := fst (deliver_task self origin (a, r) t)) in *.
    assert (Eh : s_host (scopes a origin) = s_host (scopes s0 origin)) by apply (core_host _ _ (kf_scopes _ _ K origin)).
    assert (Hal : s_host (scopes a origin) = Some t -> 0 < origin < nscope a).
    { rewrite Eh, (kf_nscope _ _ K). apply HA. }
    destruct (phi_acct_step origin t a a' Hal St) as [F1 F2].
    split; [eapply kframe_trans; eauto|]. split.
    - intros P0. apply (PInv_acct_step origin t a a' Hal St). auto.
    - intros t'. destruct (H t') as [H1 H2]. destruct (Nat.eq_dec t' t) as [->|Hne].
      + destruct F2 as [F2|[F2 [F3 F4]]]; rewrite F2; [split; assumption|]. split; [lia|].
        intros _. split; [|split].
        * now rewrite <- (tcore_done _ _ (kf_tasks _ _ K t)).
        * exists self. split; [now apply L1|exact Hv].
        * now rewrite <- Eh.
      + rewrite (F1 t' Hne). split; assumption.
  Qed.

  Lemma J_fold_tasks self l : forall a r,
    J a -> vis s0 origin self -> (forall t, In t l -> In t (s_tasks (scopes s0 self))) ->
    J (fst (fold_left (deliver_task self origin) l (a, r))).
  Proof.
    induction l as [|t l IH]; intros a r Ja Hv Hl; cbn [fold_left]; [exact Ja|].
    pose proof (J_task self a r t Ja Hv (Hl t (or_introl eq_refl))) as J1.
    destruct (deliver_task self origin (a, r) t) as [a1 r1]. cbn [fst] in J1.
    apply IH; [exact J1|exact Hv|]. intros x Hx. apply Hl. now right.
  Qed.

  Lemma J_deliver fu : forall a self, J a -> vis s0 origin self -> J (fst (deliver fu a self origin)).
  Proof.
    induction fu as [|fu IH]; intros a self Ja Hv; [exact Ja|].
    rewrite deliver_unfold.
    assert (Ka : kframe s0 a) by apply Ja.
    assert (J1 : J (fst (fold_left (deliver_task self origin) (s_tasks (scopes a self)) (a, false)))).
    { apply J_fold_tasks; [exact Ja|exact Hv|]. intros t Ht.
      now rewrite <- (core_tasks _ _ (kf_scopes _ _ Ka self)). }
    destruct (fold_left (deliver_task self origin) (s_tasks (scopes a self)) (a, false)) as [s1 r1].
    cbn [fst] in J1. assert (K1 : kframe s0 s1) by apply J1.
    assert (F : forall l b r, J b -> (forall ch, In ch l -> In ch (s_children (scopes s0 self))) ->
                J (fst (fold_left (dstep fu origin) l (b, r)))).
    { induction l as [|c l IHl]; intros b r Jb Hl; cbn [fold_left]; [exact Jb|].
      assert (Kb : kframe s0 b) by apply Jb.
      assert (J2 : J (fst (dstep fu origin (b, r) c))).
      { unfold dstep. destruct (negb (s_shield (scopes b c)) && negb (s_cancelled (scopes b c))) eqn:Eg.
        - apply andb_true_iff in Eg. destruct Eg as [E1 E2]. apply negb_true_iff in E1, E2.
          rewrite (core_shield _ _ (kf_scopes _ _ Kb c)) in E1.
          rewrite (core_cancelled _ _ (kf_scopes _ _ Kb c)) in E2.
          assert (Hvc : vis s0 origin c).
          { pose proof (L2 self c (Hl c (or_introl eq_refl))) as Hp. eapply vis_up; eauto. }
          pose proof (IH b c Jb Hvc) as J3. destruct (deliver fu b c origin) as [b' r']. exact J3.
        - exact Jb. }
      destruct (dstep fu origin (b, r) c) as [b1 r1']. cbn [fst] in J2.
      apply IHl; [exact J2|]. intros ch Hch. apply Hl. now right. }
    assert (J2 : J (fst (fold_left (dstep fu origin) (s_children (scopes s1 self)) (s1, r1)))).
    { apply F; [exact J1|]. intros ch Hch. now rewrite <- (core_children _ _ (kf_scopes _ _ K1 self)). }
    destruct (fold_left (dstep fu origin) (s_children (scopes s1 self)) (s1, r1)) as [s2 r2]. cbn [fst] in J2.
    destruct (Nat.eqb origin self); [|exact J2].
    destruct r2; cbn [fst].
    - apply (J_inert s2); [exact J2| |].
      + eapply kframe_trans; [|apply kframe_call_soon; exact I]. apply kframe_upd_scope. intros k; reflexivity.
      + constructor; auto. intros c. cbn. unfold upd. destruct (Nat.eqb_spec c self); [subst|]; reflexivity.
    - apply (J_inert s2); [exact J2| |].
      + apply kframe_upd_scope. intros k; reflexivity.
      + constructor; auto. intros c. cbn. unfold upd. destruct (Nat.eqb_spec c self); [subst|]; reflexivity.
  Qed.
End DeliverPhi.

(* the statement used everywhere: one delivery from the top *)
Definition host_ok (s : st) : Prop :=
  forall c t, s_host (scopes s c) = Some t -> 0 < c < nscope s.

Lemma host_ok_Tree s : Tree s -> host_ok s.
Proof.
  intros T c t H. destruct (s_active (scopes s c)) eqn:Ea.
  - apply (tr_act_alloc _ T c Ea).
  - rewrite (tr_host_inact _ T c Ea) in H. discriminate.
Qed.

Definition links_ok (s : st) : Prop :=
  (forall x t, In t (s_tasks (scopes s x)) -> k_cur (tasks s t) = Some x) /\
  (forall p x, In x (s_children (scopes s p)) -> s_parent (scopes s x) = Some p).

Lemma links_ok_TreeL s : TreeL s -> links_ok s.
Proof.
  intros T. split.
  - intros x t H. now apply (tl_task _ T).
  - intros p x H. apply (tl_child _ T) in H. apply H.
Qed.

Lemma deliver_top_phi s c :
  links_ok s -> host_ok s ->
  (PInv s -> PInv (deliver_top s c)) /\
  forall t, (phi s t <= phi (deliver_top s c) t)%Z /\
            ((phi s t < phi (deliver_top s c) t)%Z ->
             k_done (tasks s t) = None /\ (exists x, k_cur (tasks s t) = Some x /\ vis s c x) /\
             s_host (scopes s c) <> Some t).
Proof.
  intros [L1 L2] HO.
  destruct (J_deliver s c L1 L2 (fun t H => HO c t H) (S (nscope s)) s c (J_refl s c) (vis_here s c)) as [_ [P H]].
  split; [exact P|exact H].
Qed.

(* ---------------- steps that respect the potential ---------------- *)
Definition pstep (a b : st) : Prop :=
  PInv a ->
  PInv b /\ forall t, alloc_t a t ->
            (phi a t <= phi b t)%Z /\ (k_group (tasks a t) = None -> phi b t = phi a t).

Lemma pstep_refl a : pstep a a.
Proof. intros P. split; [exact P|]. intros t _. split; [lia|reflexivity]. Qed.

Lemma pstep_trans a b c :
  pstep a b -> pstep b c ->
  (forall t, alloc_t a t -> alloc_t b t /\ k_group (tasks b t) = k_group (tasks a t)) -> pstep a c.
Proof.
  intros H1 H2 Hk P. destruct (H1 P) as [Pb F1]. destruct (H2 Pb) as [Pc F2]. split; [exact Pc|].
  intros t A. destruct (Hk t A) as [Ab Eg]. destruct (F1 t A) as [M1 R1]. destruct (F2 t Ab) as [M2 R2].
  split; [lia|]. intros G. rewrite R2; [now apply R1|now rewrite Eg].
Qed.

Lemma pstep_inert a b : inert a b -> pstep a b.
Proof.
  intros H P. split; [now apply (PInv_inert a)|]. intros t _. rewrite (phi_inert a b t H). split; [lia|reflexivity].
Qed.

(* a root task hosts every scope above its current one *)
Inductive anc (s : st) (c : sid) : sid -> Prop :=
| anc_here : anc s c c
| anc_up x p : s_parent (scopes s x) = Some p -> anc s c p -> anc s c x.

Lemma vis_anc s c x : vis s c x -> anc s c x.
Proof. induction 1 as [|x p E1 E2 E3 H IH]; [apply anc_here|eapply anc_up; eauto]. Qed.

Definition rooted (s : st) : Prop :=
  forall t x c, k_group (tasks s t) = None -> k_cur (tasks s t) = Some x -> anc s c x ->
                s_host (scopes s c) = Some t.

Lemma rooted_Tree s : Tree s -> rooted s.
Proof.
  intros T t x c G Hc Ha.
  pose proof (tr_cur_alloc _ T t x Hc) as A. pose proof (not_tdran_of_cur s t x T Hc) as D.
  destruct (tr_stack _ T t A D) as [l [S _]]. rewrite Hc in S.
  assert (B : base s t = None) by (unfold base; now rewrite G).
  clear Hc. revert l S. induction Ha as [|x p Ep Ha IH]; intros l S.
  - inversion S as [E0|y l' Hh Hact S' E1]; subst; [congruence|exact Hh].
  - inversion S as [E0|y l' Hh Hact S' E1]; subst; [congruence|]. rewrite Ep in S'. now apply (IH l').
Qed.

Definition Pok (s : st) : Prop := links_ok s /\ host_ok s /\ rooted s.

Lemma Pok_Tree s : Tree s -> Pok s.
Proof.
  intros T. split; [apply links_ok_TreeL, Tree_TreeL, T|]. split; [now apply host_ok_Tree|now apply rooted_Tree].
Qed.

Lemma anc_ext a b c x : (forall y, s_parent (scopes b y) = s_parent (scopes a y)) -> anc b c x -> anc a c x.
Proof.
  intros E H. induction H as [|x p Ep H IH]; [apply anc_here|]. rewrite E in Ep. eapply anc_up; eauto.
Qed.

Lemma Pok_ext a b :
  Pok a -> nscope b = nscope a ->
  (forall x, s_parent (scopes b x) = s_parent (scopes a x) /\ s_children (scopes b x) = s_children (scopes a x) /\
             s_tasks (scopes b x) = s_tasks (scopes a x) /\ s_host (scopes b x) = s_host (scopes a x)) ->
  (forall t, k_cur (tasks b t) = k_cur (tasks a t) /\ k_group (tasks b t) = k_group (tasks a t)) -> Pok b.
Proof.
  intros [[L1 L2] [HO RT]] En Es Et.
  assert (EP : forall x, s_parent (scopes b x) = s_parent (scopes a x)) by (intros x; apply Es).
  split; [split|split].
  - intros x t. destruct (Es x) as [_ [_ [E _]]]. destruct (Et t) as [E' _]. rewrite E, E'. apply L1.
  - intros p x. destruct (Es p) as [_ [E _]]. rewrite E, EP. apply L2.
  - intros c t. destruct (Es c) as [_ [_ [_ E]]]. rewrite E, En. apply HO.
  - intros t x c. destruct (Et t) as [E1 E2]. destruct (Es c) as [_ [_ [_ E]]]. rewrite E1, E2, E.
    intros G Hc Ha. apply (RT t x c G Hc). now apply (anc_ext a b).
Qed.

Lemma Pok_kframe a b : Pok a -> kframe a b -> Pok b.
Proof.
  intros P K. apply (Pok_ext a b P (kf_nscope _ _ K)).
  - intros x. pose proof (kf_scopes _ _ K x) as E.
    now rewrite (core_parent _ _ E), (core_children _ _ E), (core_tasks _ _ E), (core_host _ _ E).
  - intros t. pose proof (kf_tasks _ _ K t) as E. now rewrite (tcore_cur _ _ E), (tcore_group _ _ E).
Qed.

Lemma Pok_treq a b : Pok a -> treq a b -> Pok b.
Proof.
  intros P K. apply (Pok_ext a b P (tq_nscope _ _ K)).
  - intros x. now rewrite (tq_parent _ _ K), (tq_children _ _ K), (tq_stasks _ _ K), (tq_host _ _ K).
  - intros t. now rewrite (tq_cur _ _ K), (tq_group _ _ K).
Qed.

Lemma P_deliver_top s c : Pok s -> pstep s (deliver_top s c).
Proof.
  intros [L [HO RT]] P. destruct (deliver_top_phi s c L HO) as [Pp H]. split; [now apply Pp|].
  intros t _. destruct (H t) as [M F]. split; [exact M|]. intros G.
  destruct (Z.eq_dec (phi (deliver_top s c) t) (phi s t)) as [E|N]; [exact E|exfalso].
  assert (Hlt : (phi s t < phi (deliver_top s c) t)%Z) by lia.
  destruct (F Hlt) as [_ [[x [Hc Hv]] Hh]]. apply Hh. apply (RT t x c G Hc). now apply vis_anc.
Qed.

Lemma P_restart s x : Pok s -> pstep s (restart s x).
Proof.
  intros Pk. unfold restart. generalize (nscope s) as fuel. intros fuel. revert x.
  induction fuel as [|fu IH]; intros x; cbn [restart_from]; [apply pstep_refl|].
  destruct x as [c|]; [|apply pstep_refl].
  destruct (s_cancelled (scopes s c)).
  - destruct (s_chandle (scopes s c)); [apply pstep_refl|now apply P_deliver_top].
  - destruct (s_shield (scopes s c)); [apply pstep_refl|apply IH].
Qed.

Lemma same_alloc_group a b : treq a b ->
  forall t, alloc_t a t -> alloc_t b t /\ k_group (tasks b t) = k_group (tasks a t).
Proof. intros K t A. split; [now apply (tq_alloc_t _ _ K)|apply (tq_group _ _ K)]. Qed.

Lemma inert_cancel_timeout s c : inert s (cancel_timeout s c).
Proof.
  unfold cancel_timeout. destruct (s_timeout (scopes s c)); [|apply inert_refl].
  constructor; auto. intros x. cbn. unfold upd. destruct (Nat.eqb_spec x c); [subst|]; reflexivity.
Qed.

Lemma inert_upd_scope s c g : (forall k, sc_acct (g k) = sc_acct k) -> inert s (upd_scope s c g).
Proof.
  intros Hg. constructor; auto. intros x. cbn. unfold upd. destruct (Nat.eqb_spec x c); [subst; apply Hg|reflexivity].
Qed.

Lemma P_scope_cancel s c b : Pok s -> pstep s (scope_cancel s c b).
Proof.
  intros Pk. unfold scope_cancel. destruct (s_cancelled (scopes s c)); [apply pstep_refl|].
  set (s2 := upd_scope (cancel_timeout s c) c (fun x => sc_bydeadline b (sc_cancelled true x))).
  assert (K2 : treq s s2).
  { eapply treq_trans; [apply treq_cancel_timeout|]. apply treq_upd_scope. intros k; reflexivity. }
  assert (I2 : inert s s2).
  { eapply inert_trans; [apply inert_cancel_timeout|]. apply inert_upd_scope. intros k; reflexivity. }
  destruct (s_host (scopes s2 c)); [|now apply pstep_inert].
  apply (pstep_trans s s2); [now apply pstep_inert| |now apply same_alloc_group].
  apply P_deliver_top. now apply (Pok_treq s).
Qed.

Lemma P_scope_timeout s c : Pok s -> pstep s (scope_timeout s c).
Proof.
  intros Pk. unfold scope_timeout. destruct (s_deadline (scopes s c)); [|apply pstep_refl].
  destruct (Z.leb z (now s)); [now apply P_scope_cancel|]. apply pstep_inert.
  constructor; auto. intros x. cbn. unfold upd. destruct (Nat.eqb_spec x c); [subst|]; reflexivity.
Qed.

(* ---------------- __exit__: the debt is paid or handed to the parent hosted by the same task ---------------- *)
Lemma iter_uncancel_spec n t : forall s,
  scopes (iter n (fun a => task_uncancel a t) s) = scopes s /\
  nscope (iter n (fun a => task_uncancel a t) s) = nscope s /\
  forall t', k_ncancel (tasks (iter n (fun a => task_uncancel a t) s) t') =
             if Nat.eqb t' t then k_ncancel (tasks s t) - n else k_ncancel (tasks s t').
Proof.
  induction n as [|n IH]; intros s; cbn [iter].
  - split; [reflexivity|split; [reflexivity|]]. intros t'. destruct (Nat.eqb_spec t' t); [subst; lia|reflexivity].
  - destruct (IH (task_uncancel s t)) as [E1 [E2 E3]]. split; [exact E1|split; [exact E2|]].
    intros t'. rewrite E3. unfold task_uncancel. cbn. unfold upd. rewrite Nat.eqb_refl. cbn.
    destruct (Nat.eqb_spec t' t); [lia|reflexivity].
Qed.

(* the accounting of the part of __exit__ after the restart: mode true = handed over to the parent *)
Lemma scope_exit_acct s c t exc :
  exit_ok s c t -> s_parent (scopes s c) <> Some c ->
  let s5 := restart (exit_struct s c t) (s_parent (scopes s c)) in
  let n := s_pending (scopes s5 c) in
  let sf := fst (scope_exit s c t exc) in
  nscope sf = nscope s5 /\
  exists hand : bool,
    (hand = true -> exists p, s_parent (scopes s c) = Some p /\ s_host (scopes s5 p) = Some t) /\
    (forall x, s_host (scopes sf x) = if Nat.eqb x c then None else s_host (scopes s5 x)) /\
    (forall x, s_pending (scopes sf x) =
               if Nat.eqb x c then 0
               else if hand && opt_eqb (s_parent (scopes s c)) x then s_pending (scopes s5 x) + n
               else s_pending (scopes s5 x)) /\
    (forall t', k_ncancel (tasks sf t') =
                if Nat.eqb t' t && negb hand then k_ncancel (tasks s5 t) - n else k_ncancel (tasks s5 t')).
Proof.
  intros [Ha [Hh Hc]] Hpc. cbv zeta. unfold scope_exit.
  rewrite Ha. cbn [negb]. rewrite Hh, Hc. cbn [opt_eqb]. rewrite !Nat.eqb_refl. cbn [negb].
  fold (exit_struct s c t).
  set (s5 := restart (exit_struct s c t) (s_parent (scopes s c))).
  set (n := s_pending (scopes s5 c)).
  destruct (iter_uncancel_spec n t s5) as [U1 [U2 U3]].
  (* the "pay" outcome, possibly followed by caught := true *)
  set (sA := upd_scope (iter n (fun a => task_uncancel a t) s5) c (sc_pending 0)).
  assert (Pay : forall sB, (sB = sA \/ sB = upd_scope sA c (sc_caught true)) ->
            nscope (upd_scope sB c (sc_host None)) = nscope s5 /\
            exists hand : bool,
              (hand = true -> exists p, s_parent (scopes s c) = Some p /\ s_host (scopes s5 p) = Some t) /\
              (forall x, s_host (scopes (upd_scope sB c (sc_host None)) x) = if Nat.eqb x c then None else s_host (scopes s5 x)) /\
              (forall x, s_pending (scopes (upd_scope sB c (sc_host None)) x) =
                         if Nat.eqb x c then 0
                         else if hand && opt_eqb (s_parent (scopes s c)) x then s_pending (scopes s5 x) + n
                         else s_pending (scopes s5 x)) /\
              (forall t', k_ncancel (tasks (upd_scope sB c (sc_host None)) t') =
                          if Nat.eqb t' t && negb hand then k_ncancel (tasks s5 t) - n else k_ncancel (tasks s5 t'))).
  { assert (Fx : forall sB, (sB = sA \/ sB = upd_scope sA c (sc_caught true)) -> forall x,
               s_host (scopes (upd_scope sB c (sc_host None)) x) = (if Nat.eqb x c then None else s_host (scopes s5 x)) /\
               s_pending (scopes (upd_scope sB c (sc_host None)) x) = (if Nat.eqb x c then 0 else s_pending (scopes s5 x))).
    { intros sB [->| ->] x; unfold sA; cbn [scopes upd_scope set_scopes]; rewrite ?U1; unfold upd;
        (destruct (Nat.eqb_spec x c) as [->|Hx]; rewrite ?Nat.eqb_refl; split; reflexivity). }
    intros sB HB. split; [destruct HB as [->| ->]; exact U2|]. exists false.
    split; [discriminate|]. split; [intros x; apply (Fx sB HB x)|]. split; [intros x; apply (Fx sB HB x)|].
    intros t'. rewrite andb_true_r. destruct HB as [->| ->]; unfold sA; cbn [tasks upd_scope set_scopes]; apply U3. }
  destruct (s_cancelled (scopes s5 c) && negb (parent_visible s5 c)).
  - destruct exc as [e|].
    + destruct e; cbn [is_anyio_cancel].
      * destruct o; cbn [fst]; apply Pay; auto.
      * cbn [fst]. apply Pay; auto.
      * cbn [fst]. apply Pay; auto.
      * cbn [fst]. apply Pay; auto.
      * destruct (split_exn (EGroup l)) as [[m|] [r|]]; cbn [fst]; apply Pay; auto.
    + cbn [fst]. apply Pay; auto.
  - cbn [fst]. fold n.
    destruct (Nat.eqb_spec n 0) as [En|En].
    + (* nothing is owed *)
      split; [reflexivity|]. exists false. split; [discriminate|]. split; [|split].
      * intros x. cbn [scopes upd_scope set_scopes]. unfold upd. destruct (Nat.eqb x c); reflexivity.
      * intros x. cbn [scopes upd_scope set_scopes]. unfold upd.
        destruct (Nat.eqb_spec x c); [subst; cbn [s_pending sc_host]; exact En|reflexivity].
      * intros t'. rewrite andb_true_r. cbn [tasks upd_scope set_scopes]. rewrite En.
        destruct (Nat.eqb_spec t' t); [subst; lia|reflexivity].
    + destruct (s_parent (scopes s c)) as [p|] eqn:Ep; [|apply Pay; auto].
      destruct (opt_eqb (s_host (scopes s5 p)) t) eqn:Ehp; [|apply Pay; auto].
      apply opt_eqb_true in Ehp. assert (Hne : p <> c) by congruence.
      split; [reflexivity|]. exists true. split; [intros _; exists p; now split|]. split; [|split].
      * intros x. cbn [scopes upd_scope set_scopes]. unfold upd.
        destruct (Nat.eqb_spec x c) as [->|Hxc]; [rewrite ?Nat.eqb_refl; reflexivity|].
        destruct (Nat.eqb_spec x p) as [->|Hxp]; reflexivity.
      * intros x. cbn [scopes upd_scope set_scopes andb opt_eqb]. unfold upd.
        destruct (Nat.eqb_spec x c) as [->|Hxc]; [rewrite ?Nat.eqb_refl; reflexivity|].
        rewrite (Nat.eqb_sym p x). destruct (Nat.eqb_spec x p) as [->|Hxp]; reflexivity.
      * intros t'. rewrite andb_false_r. reflexivity.
Qed.

(* sums of debts as a function of the host and pending tables *)
Definition pend (h : sid -> option tid) (pd : sid -> nat) (n : nat) (t : tid) : nat :=
  sumf (fun c => if opt_eqb (h c) t then pd c else 0) (seq1 (pred n)).

Lemma pending_of_pend s t :
  pending_of s t = pend (fun c => s_host (scopes s c)) (fun c => s_pending (scopes s c)) (nscope s) t.
Proof. reflexivity. Qed.

Lemma pend_one h pd h' pd' n t c :
  0 < c < n -> (forall x, x <> c -> h' x = h x /\ pd' x = pd x) ->
  pend h' pd' n t + (if opt_eqb (h c) t then pd c else 0) =
  pend h pd n t + (if opt_eqb (h' c) t then pd' c else 0).
Proof.
  intros Hc H. unfold pend.
  apply (sumf_one (fun c => if opt_eqb (h c) t then pd c else 0) (fun c => if opt_eqb (h' c) t then pd' c else 0)).
  - apply nodup_seq1.
  - apply in_seq1'. lia.
  - intros x Hx. destruct (H x Hx) as [E1 E2]. now rewrite E1, E2.
Qed.

Lemma exit_struct_inert s c t : inert s (exit_struct s c t).
Proof.
  unfold exit_struct.
  set (s0 := upd_scope s c (sc_active false)).
  assert (I0 : inert s s0) by (apply inert_upd_scope; intros k; reflexivity).
  set (s1 := cancel_timeout s0 c). assert (I1 : inert s s1) by (eapply inert_trans; [exact I0|apply inert_cancel_timeout]).
  set (s2 := upd_scope s1 c (fun x => sc_tasks (del t (s_tasks x)) x)).
  assert (I2 : inert s s2) by (eapply inert_trans; [exact I1|apply inert_upd_scope; intros k; reflexivity]).
  assert (Iu : forall a, inert a (upd_task a t (tk_cur (s_parent (scopes s c))))).
  { intros a. constructor; auto. intros x. cbn. unfold upd. destruct (Nat.eqb_spec x t); [subst|]; reflexivity. }
  destruct (s_parent (scopes s c)) as [p|].
  - eapply inert_trans; [|apply Iu]. eapply inert_trans; [exact I2|]. apply inert_upd_scope. intros k; reflexivity.
  - eapply inert_trans; [exact I2|apply Iu].
Qed.

Lemma exit_struct_ntask s c t : ntask (exit_struct s c t) = ntask s.
Proof.
  unfold exit_struct. cbn [ntask upd_task set_tasks].
  assert (E : forall a, ntask (cancel_timeout a c) = ntask a).
  { intros a. unfold cancel_timeout. destruct (s_timeout (scopes a c)); reflexivity. }
  destruct (s_parent (scopes s c)); cbn [ntask upd_scope set_scopes]; rewrite E; reflexivity.
Qed.

Lemma P_exit s c t exc :
  Tree s -> exit_ok s c t ->
  (forall x, ~ In x (s_children (scopes s c))) ->
  (forall t', In t' (s_tasks (scopes s c)) -> t' = t) ->
  (forall g, alloc_g s g -> g_scope (groups s g) = c -> g_tasks (groups s g) = []) ->
  pstep s (fst (scope_exit s c t exc)).
Proof.
  intros T Hok NC NT NG P.
  pose proof (tx_pc s c t T Hok) as Hpc.
  destruct (scope_exit_acct s c t exc Hok Hpc) as [En [hand [Hhand [Fh [Fp Fn]]]]].
  set (s4 := exit_struct s c t) in *. set (par := s_parent (scopes s c)) in *.
  set (s5 := restart s4 par) in *. set (n := s_pending (scopes s5 c)) in *.
  set (sf := fst (scope_exit s c t exc)) in *.
  destruct Hok as [Ha [Hh Hc]].
  pose proof (exit_struct_inert s c t) as I4. fold s4 in I4.
  pose proof (PInv_inert s s4 P I4) as P4.
  (* the state after the structural part is good enough for the restart *)
  pose proof (Tree_exit s c t T (conj Ha (conj Hh Hc)) NC NT NG) as Tx.
  assert (V4 : forall y, s_parent (scopes s4 y) = s_parent (scopes s y) /\ s_host (scopes s4 y) = s_host (scopes s y)).
  { intros y. pose proof (exit_struct_view s c t y) as E. fold s4 in E.
    now rewrite (vw_parent _ _ E), (vw_host _ _ E). }
  assert (Pk4 : Pok s4).
  { split; [|split].
    - apply links_ok_TreeL. apply (TreeL_ext (xstate s c t) s4 (Tree_TreeL _ Tx)); [reflexivity| |intros x; reflexivity].
      intros x. unfold xstate. fold s4. cbn. unfold upd. destruct (Nat.eqb_spec x c); [subst|]; now repeat split.
    - intros y t' H. destruct (V4 y) as [_ E]. rewrite E in H.
      rewrite (in_nscope _ _ I4). apply (host_ok_Tree s T y t' H).
    - intros t' x A G Hcur Han. destruct (V4 A) as [_ E]. rewrite E.
      assert (Han' : anc s A x) by (apply (anc_ext s s4 A x); [intros y; apply V4|exact Han]).
      unfold s4 in G, Hcur. rewrite exit_struct_task in G, Hcur.
      destruct (Nat.eqb_spec t' t) as [->|Hne].
      + cbn in G, Hcur. apply (rooted_Tree s T t c A G Hc). eapply anc_up; [exact Hcur|exact Han'].
      + now apply (rooted_Tree s T t' x A). }
  pose proof (P_restart s4 par Pk4 P4) as [P5 F5]. fold s5 in P5, F5.
  pose proof (kframe_restart s4 par) as K5. fold s5 in K5.
  (* facts about c and t in s5 *)
  assert (Hh5 : s_host (scopes s5 c) = Some t).
  { rewrite (core_host _ _ (kf_scopes _ _ K5 c)). destruct (V4 c) as [_ E]. now rewrite E. }
  assert (Ac : 0 < c < nscope s5).
  { rewrite (kf_nscope _ _ K5), (in_nscope _ _ I4). apply (tr_act_alloc _ T c Ha). }
  assert (Ow5 : forall t', owed s5 t' c = if Nat.eqb t' t then n else 0).
  { intros t'. unfold owed. rewrite Hh5. cbn [opt_eqb]. now rewrite (Nat.eqb_sym t t'). }
  assert (Nle : n <= k_ncancel (tasks s5 t)).
  { pose proof (pi_nonneg _ P5 t) as H1.
    assert (n <= pending_of s5 t); [|lia].
    unfold pending_of. assert (Hin : In c (seq1 (pred (nscope s5)))) by (apply in_seq1'; lia).
    pose proof (sumf_ge (owed s5 t) _ c Hin) as Hge. rewrite (Ow5 t), Nat.eqb_refl in Hge. exact Hge. }
  (* the potential after the tail equals the potential before it *)
  assert (Efin : forall t', pending_of sf t' + (if Nat.eqb t' t && negb hand then n else 0) = pending_of s5 t').
  { intros t'. rewrite !pending_of_pend, En.
    set (h5 := fun x => s_host (scopes s5 x)). set (p5 := fun x => s_pending (scopes s5 x)).
    set (hf := fun x => s_host (scopes sf x)). set (pf := fun x => s_pending (scopes sf x)).
    assert (O5 : (if opt_eqb (h5 c) t' then p5 c else 0) = if Nat.eqb t' t then n else 0).
    { unfold h5, p5. rewrite Hh5. cbn [opt_eqb]. now rewrite (Nat.eqb_sym t t'). }
    destruct hand.
    - (* handed to the parent, which the same task hosts *)
      destruct (Hhand eq_refl) as [p [Ep Hp]]. assert (Hne : p <> c) by (intros ->; apply Hpc; exact Ep).
      assert (Ap : 0 < p < nscope s5).
      { rewrite (kf_nscope _ _ K5), (in_nscope _ _ I4).
        apply (tr_act_alloc _ T p). apply (tr_par_act _ T c p Ha Ep). }
      rewrite andb_false_r, Nat.add_0_r.
      set (h1 := fun x => if Nat.eqb x c then None else h5 x).
      set (p1 := fun x => if Nat.eqb x c then 0 else p5 x).
      assert (O1c : (if opt_eqb (h1 c) t' then p1 c else 0) = 0).
      { unfold h1, p1. rewrite Nat.eqb_refl. reflexivity. }
      pose proof (pend_one h5 p5 h1 p1 (nscope s5) t' c Ac) as S1. rewrite O5, O1c in S1.
      assert (S1' : pend h1 p1 (nscope s5) t' + (if Nat.eqb t' t then n else 0) = pend h5 p5 (nscope s5) t' + 0).
      { apply S1. intros x Hx. unfold h1, p1. destruct (Nat.eqb_spec x c); [contradiction|now split]. }
      assert (O1p : (if opt_eqb (h1 p) t' then p1 p else 0) = if Nat.eqb t' t then p5 p else 0).
      { unfold h1, p1. destruct (Nat.eqb_spec p c); [contradiction|]. unfold h5. rewrite Hp. cbn [opt_eqb].
        now rewrite (Nat.eqb_sym t t'). }
      assert (Ofp : (if opt_eqb (hf p) t' then pf p else 0) = if Nat.eqb t' t then p5 p + n else 0).
      { unfold hf, pf. rewrite Fh, Fp. destruct (Nat.eqb_spec p c); [contradiction|]. rewrite Hp. cbn [opt_eqb andb].
        fold par. rewrite Ep. cbn [opt_eqb]. rewrite Nat.eqb_refl, (Nat.eqb_sym t t'). reflexivity. }
      pose proof (pend_one h1 p1 hf pf (nscope s5) t' p Ap) as S2. rewrite O1p, Ofp in S2.
      assert (S2' : pend hf pf (nscope s5) t' + (if Nat.eqb t' t then p5 p else 0) =
                    pend h1 p1 (nscope s5) t' + (if Nat.eqb t' t then p5 p + n else 0)).
      { apply S2. intros x Hx. unfold hf, pf, h1, p1. rewrite Fh, Fp. fold par. rewrite Ep. cbn [andb opt_eqb].
        rewrite (Nat.eqb_sym p x). destruct (Nat.eqb_spec x p); [contradiction|]. now split. }
      destruct (Nat.eqb t' t); lia.
    - (* paid *)
      rewrite andb_true_r.
      assert (Ofc : (if opt_eqb (hf c) t' then pf c else 0) = 0).
      { unfold hf, pf. rewrite Fh, Nat.eqb_refl. reflexivity. }
      pose proof (pend_one h5 p5 hf pf (nscope s5) t' c Ac) as S1. rewrite O5, Ofc in S1.
      rewrite Nat.add_0_r in S1. apply S1. intros x Hx. unfold hf, pf, h5, p5. rewrite Fh, Fp.
      destruct (Nat.eqb_spec x c); [contradiction|]. now split. }
  assert (Ephi : forall t', phi sf t' = phi s5 t').
  { intros t'. unfold phi. specialize (Efin t'). rewrite Fn.
    destruct (Nat.eq_dec t' t) as [Ett|Hne].
    - subst t'. rewrite Nat.eqb_refl in *. cbn [andb] in *. destruct hand; cbn [negb] in *; lia.
    - destruct (Nat.eqb_spec t' t); [contradiction|]. cbn [andb] in *. lia. }
  assert (Pf : PInv sf).
  { constructor.
    - intros x Hx. rewrite Fh in Hx. rewrite Fp. destruct (Nat.eqb_spec x c); [reflexivity|].
      destruct (hand && opt_eqb par x) eqn:Eh.
      + apply andb_true_iff in Eh. destruct Eh as [E1 E2]. apply opt_eqb_true in E2.
        destruct (Hhand E1) as [p [Ep Hp]]. pose proof (eq_trans (eq_sym Ep) E2) as E3. inversion E3; subst p. congruence.
      + now apply P5.
    - intros t'. pose proof (pi_nonneg _ P5 t') as H1. specialize (Ephi t'). unfold phi in Ephi. lia. }
  split; [exact Pf|].
  intros t' A.
  assert (A4 : alloc_t s4 t') by (unfold alloc_t, s4; rewrite exit_struct_ntask; exact A).
  assert (G4 : k_group (tasks s4 t') = k_group (tasks s t')).
  { unfold s4. rewrite exit_struct_task. destruct (Nat.eqb_spec t' t); [subst|]; reflexivity. }
  destruct (F5 t' A4) as [M5 R5]. rewrite (Ephi t'), <- (phi_inert s s4 t' I4).
  split; [exact M5|]. intros G. apply R5. now rewrite G4.
Qed.

(* ---------------- neutral helpers ---------------- *)
Lemma inert_same a b :
  nscope b = nscope a -> scopes b = scopes a -> (forall t, k_ncancel (tasks b t) = k_ncancel (tasks a t)) -> inert a b.
Proof. intros E1 E2 E3. constructor; [exact E1|intros c; now rewrite E2|exact E3]. Qed.

Lemma inert_upd_task s t g : (forall k, k_ncancel (g k) = k_ncancel k) -> inert s (upd_task s t g).
Proof.
  intros Hg. apply inert_same; [reflexivity|reflexivity|]. intros x. cbn. unfold upd.
  destruct (Nat.eqb_spec x t); [subst; apply Hg|reflexivity].
Qed.

Lemma inert_fut_complete s f v : inert s (fut_complete s f v).
Proof.
  apply inert_same; [apply (kf_nscope _ _ (kframe_fut_complete s f v))|apply fut_complete_scopes|].
  intros t. now rewrite fut_complete_tasks.
Qed.

Lemma inert_call_soon s h : inert s (call_soon s h).
Proof. apply inert_same; reflexivity. Qed.

Lemma inert_suspend_on s t f : inert s (suspend_on s t f).
Proof.
  unfold suspend_on.
  set (s2 := upd_task (upd_fut s f (fun x => mkFut (f_st x) (Some t))) t (tk_waiter (Some f))).
  assert (K : inert s s2).
  { apply inert_same; [reflexivity|reflexivity|]. intros x. cbn. unfold upd. destruct (Nat.eqb_spec x t); [subst|]; reflexivity. }
  destruct (f_st (futs s f)); try (eapply inert_trans; [exact K|apply inert_call_soon]).
  destruct (k_must (tasks s t)); [|exact K].
  eapply inert_trans; [exact K|]. eapply inert_trans; [apply inert_fut_complete|]. apply inert_upd_task. intros k; reflexivity.
Qed.

Lemma inert_park s t : inert s (park s t).
Proof.
  unfold park, new_fut. eapply inert_trans; [|apply inert_upd_task; intros k; reflexivity].
  eapply inert_trans; [|apply inert_suspend_on]. apply inert_same; reflexivity.
Qed.

Lemma inert_set_running s v : inert s (set_running s v).
Proof. apply inert_same; reflexivity. Qed.

Lemma inert_ret_to_puppet s t r : inert s (fst (ret_to_puppet s t r)).
Proof.
  unfold ret_to_puppet. cbn [fst].
  set (s1 := match r with RExc e => upd_task s t (tk_held (Some e)) | _ => s end).
  assert (K1 : inert s s1) by (unfold s1; destruct r; try apply inert_refl; apply inert_upd_task; intros k; reflexivity).
  eapply inert_trans; [exact K1|]. eapply inert_trans; [apply inert_park|apply inert_set_running].
Qed.

Lemma inert_begin_act s t : inert s (begin_act s t).
Proof.
  unfold begin_act. eapply inert_trans; [|apply inert_set_running]. apply inert_upd_task. intros k; reflexivity.
Qed.

Lemma inert_incoming s t fo : inert s (fst (incoming s t fo)).
Proof.
  unfold incoming. cbn [fst]. eapply inert_trans; [|apply inert_set_running]. apply inert_upd_task. intros k; reflexivity.
Qed.

Lemma inert_fold_fut_complete v fs : forall a, inert a (fold_left (fun a f => fut_complete a f v) fs a).
Proof.
  induction fs as [|f fs IH]; intros a; cbn; [apply inert_refl|].
  eapply inert_trans; [apply inert_fut_complete|apply IH].
Qed.

Lemma inert_event_set s e : inert s (event_set s e).
Proof.
  unfold event_set. destruct (e_set (events s e)); [apply inert_refl|].
  eapply inert_trans; [|apply inert_fold_fut_complete]. apply inert_same; reflexivity.
Qed.

Lemma inert_event_wait s t e : inert s (fst (event_wait s t e)).
Proof.
  unfold event_wait. destruct (e_set (events s e)); cbn [fst]; [apply inert_call_soon|].
  unfold new_fut. cbn [fst]. eapply inert_trans; [|apply inert_suspend_on]. apply inert_same; reflexivity.
Qed.

Lemma inert_event_unwait s e fo : inert s (event_unwait s e fo).
Proof. destruct fo; cbn; [apply inert_same; reflexivity|apply inert_refl]. Qed.

Lemma inert_timer_cancel s tm : inert s (timer_cancel s tm).
Proof. apply inert_same; reflexivity. Qed.

Lemma inert_tick s dt : inert s (tick s dt).
Proof. apply inert_same; reflexivity. Qed.

Lemma inert_finish_task s t o : inert s (finish_task s t o).
Proof.
  unfold finish_task. eapply inert_trans; [|apply inert_set_running].
  set (s1 := upd_task s t _).
  assert (K : inert s s1) by (apply inert_upd_task; intros k; reflexivity).
  destruct (k_group (tasks s t)); [|exact K]. eapply inert_trans; [exact K|apply inert_call_soon].
Qed.

Lemma inert_td_struct s t g : inert s (td_struct s t g).
Proof.
  unfold td_struct.
  set (s1 := match k_cur (tasks s t) with Some c => _ | None => s end).
  assert (K1 : inert s s1).
  { unfold s1. destruct (k_cur (tasks s t)); [|apply inert_refl]. apply inert_upd_scope. intros k; reflexivity. }
  eapply inert_trans; [exact K1|]. eapply inert_trans; [|apply inert_upd_task; intros k; reflexivity].
  apply inert_same; reflexivity.
Qed.

(* ---------------- the remaining structural steps ---------------- *)
Lemma seq1_pred n : 0 < n -> seq1 n = seq1 (pred n) ++ [n].
Proof. destruct n; [lia|reflexivity]. Qed.

Lemma P_new_scope s d sh : Tree s -> pstep s (fst (new_scope s d sh)).
Proof.
  intros T P. set (s' := fst (new_scope s d sh)). set (c0 := nscope s).
  assert (Pos : 0 < c0) by apply T.
  assert (Es : forall y, y <> c0 -> scopes s' y = scopes s y).
  { intros y Hy. unfold s'. cbn. unfold upd. destruct (Nat.eqb_spec y (nscope s)); [contradiction|reflexivity]. }
  assert (E0 : s_host (scopes s' c0) = None /\ s_pending (scopes s' c0) = 0).
  { unfold s', c0. cbn. unfold upd. rewrite Nat.eqb_refl. now split. }
  assert (Ep : forall t, pending_of s' t = pending_of s t).
  { intros t. unfold pending_of. change (nscope s') with (S c0). cbn [pred]. fold c0.
    rewrite (seq1_pred c0 Pos), sumf_app. cbn [sumf].
    assert (E1 : owed s' t c0 = 0) by (unfold owed; destruct E0 as [E0 _]; rewrite E0; reflexivity).
    rewrite E1, !Nat.add_0_r. apply sumf_ext. intros y Hy. apply in_seq1' in Hy.
    unfold owed. rewrite (Es y); [reflexivity|lia]. }
  split.
  - constructor.
    + intros y Hy. destruct (Nat.eq_dec y c0) as [->|Hne]; [apply E0|]. rewrite (Es y Hne) in *. now apply P.
    + intros t. rewrite Ep. apply P.
  - intros t _. unfold phi. rewrite Ep. change (tasks s' t) with (tasks s t). split; [lia|reflexivity].
Qed.

Lemma enter_s3_acct s c t y : k_cur (tasks s t) <> Some c ->
  s_host (scopes (enter_s3 s c t) y) = (if Nat.eqb y c then Some t else s_host (scopes s y)) /\
  s_pending (scopes (enter_s3 s c t) y) = s_pending (scopes s y).
Proof.
  intros Hpc. unfold enter_s3. destruct (k_cur (tasks s t)) as [p|] eqn:Ep; cbn; unfold upd.
  - assert (p <> c) by congruence. destruct (Nat.eqb_spec y c) as [->|Hyc].
    + destruct (Nat.eqb_spec c p); [congruence|]. now split.
    + destruct (Nat.eqb_spec y p) as [->|Hyp]; [|now split].
      destruct (Nat.eqb_spec p c); [congruence|]. now split.
  - destruct (Nat.eqb_spec y c) as [->|Hyc]; now split.
Qed.

Lemma P_enter s c t :
  Tree s -> alloc_t s t -> k_tdran (tasks s t) = false -> alloc_s s c -> s_active (scopes s c) = false ->
  (forall t' g, alloc_t s t' -> k_group (tasks s t') = Some g -> k_hscope (tasks s t') = c ->
     t' = t /\ k_cur (tasks s t) = Some (g_scope (groups s g))) ->
  (forall g, k_group (tasks s t) = Some g -> g_scope (groups s g) <> c) ->
  pstep s (fst (scope_enter s c t)).
Proof.
  intros T At Dt Ac Ic Hh Hg.
  assert (Hpc : k_cur (tasks s t) <> Some c) by (intros E; apply (tr_cur_act _ T) in E; congruence).
  pose proof (Tree_enter s c t T At Dt Ac Ic Hh Hg) as Te.
  set (s3 := enter_s3 s c t). set (s5 := enter_s5 s c t).
  (* same allocation and groups all along *)
  assert (Ag3 : forall x, alloc_t s x -> alloc_t s3 x /\ k_group (tasks s3 x) = k_group (tasks s x)).
  { intros x A. split.
    - unfold alloc_t, s3, enter_s3. destruct (k_cur (tasks s t)); exact A.
    - unfold s3. rewrite enter_s3_task. destruct (Nat.eqb_spec x t); [subst|]; reflexivity. }
  (* the structural part *)
  assert (P3 : pstep s s3).
  { intros P. assert (Hc0 : s_pending (scopes s c) = 0) by (apply P; apply (tr_host_inact _ T c Ic)).
    assert (En : nscope s3 = nscope s) by (unfold s3, enter_s3; destruct (k_cur (tasks s t)); reflexivity).
    assert (Ep : forall t', pending_of s3 t' = pending_of s t').
    { intros t'. rewrite !pending_of_pend, En.
      pose proof (pend_one (fun x => s_host (scopes s x)) (fun x => s_pending (scopes s x))
                    (fun x => s_host (scopes s3 x)) (fun x => s_pending (scopes s3 x)) (nscope s) t' c Ac) as S1.
      cbv beta in S1. destruct (enter_s3_acct s c t c Hpc) as [E1 E2]. fold s3 in E1, E2.
      rewrite E1, E2, Nat.eqb_refl, Hc0, (tr_host_inact _ T c Ic) in S1. cbn [opt_eqb] in S1.
      assert (pend (fun x => s_host (scopes s3 x)) (fun x => s_pending (scopes s3 x)) (nscope s) t' + 0 =
              pend (fun x => s_host (scopes s x)) (fun x => s_pending (scopes s x)) (nscope s) t' +
              (if Nat.eqb t t' then 0 else 0)); [|destruct (Nat.eqb t t'); lia].
      apply S1. intros x Hx. destruct (enter_s3_acct s c t x Hpc) as [F1 F2]. fold s3 in F1, F2.
      rewrite F1, F2. destruct (Nat.eqb_spec x c); [contradiction|now split]. }
    assert (Ek : forall t', k_ncancel (tasks s3 t') = k_ncancel (tasks s t')).
    { intros t'. unfold s3. rewrite enter_s3_task. destruct (Nat.eqb_spec t' t); [subst|]; reflexivity. }
    split.
    - constructor.
      + intros y Hy. destruct (enter_s3_acct s c t y Hpc) as [F1 F2]. fold s3 in F1, F2. rewrite F1 in Hy. rewrite F2.
        destruct (Nat.eqb_spec y c); [discriminate|now apply P].
      + intros t'. rewrite Ep, Ek. apply P.
    - intros t' _. unfold phi. rewrite Ep, Ek. split; [lia|reflexivity]. }
  (* the deadline check on the half-entered scope *)
  assert (Pk3 : Pok s3).
  { apply (Pok_ext (enter_struct s c t) s3 (Pok_Tree _ Te)).
    - unfold s3, enter_struct, enter_s3. destruct (k_cur (tasks s t)); reflexivity.
    - intros x. unfold enter_struct. fold (enter_s3 s c t). fold s3. cbn. unfold upd.
      destruct (Nat.eqb_spec x c); [subst|]; now repeat split.
    - intros x. unfold enter_struct. fold (enter_s3 s c t). now split. }
  pose proof (P_scope_timeout s3 c Pk3) as P4.
  assert (K4 : treq s3 (scope_timeout s3 c)) by apply treq_scope_timeout.
  assert (P5 : pstep (scope_timeout s3 c) s5).
  { apply pstep_inert. unfold s5, enter_s5. fold s3. apply inert_upd_scope. intros k; reflexivity. }
  assert (K5 : treq (enter_struct s c t) s5) by apply treq_enter_s5.
  assert (P35 : pstep s3 s5).
  { apply (pstep_trans s3 (scope_timeout s3 c)); [exact P4|exact P5|now apply same_alloc_group]. }
  assert (Ag5 : forall x, alloc_t s3 x -> alloc_t s5 x /\ k_group (tasks s5 x) = k_group (tasks s3 x)).
  { intros x A. unfold s5, enter_s5. fold s3. split.
    - unfold alloc_t in *. cbn [ntask upd_scope set_scopes]. now rewrite (tq_ntask _ _ K4).
    - cbn [tasks upd_scope set_scopes]. apply (tq_group _ _ K4). }
  assert (P05 : pstep s s5) by (apply (pstep_trans s s3); assumption).
  rewrite (scope_enter_eq s c t Ic). fold s5.
  destruct (s_cancelled (scopes s5 c)); [|exact P05].
  apply (pstep_trans s s5); [exact P05| |].
  - apply P_deliver_top. apply (Pok_treq (enter_struct s c t)); [now apply Pok_Tree|exact K5].
  - intros x A. destruct (Ag3 x A) as [A3 G3]. destruct (Ag5 x A3) as [A5 G5]. split; [exact A5|congruence].
Qed.

Lemma pending_of_zero s t : (forall x, s_host (scopes s x) <> Some t) -> pending_of s t = 0.
Proof.
  intros Fh. unfold pending_of. induction (seq1 (pred (nscope s))) as [|y l IH]; [reflexivity|].
  cbn [sumf]. rewrite IH. unfold owed. destruct (opt_eqb (s_host (scopes s y)) t) eqn:E; [|reflexivity].
  apply opt_eqb_true in E. now apply Fh in E.
Qed.

Lemma P_spawn s g sf :
  Tree s -> alloc_g s g -> s_active (scopes s (g_scope (groups s g))) = true ->
  pstep s (fst (spawn_task s g sf)).
Proof.
  intros T Ag Ha. rewrite spawn_task_eq. cbn [fst].
  set (s1 := fst (new_scope s None false)). set (s2 := spawn_struct s g sf). set (tn := ntask s).
  pose proof (Tree_new_scope s None false T) as T1. fold s1 in T1.
  pose proof (Tree_spawn s g sf T Ag Ha) as T2. fold s2 in T2.
  destruct (Tree_fresh_task s1 tn T1 (le_n _)) as [_ Fh].
  assert (Ea : forall y, s_host (scopes s2 y) = s_host (scopes s1 y) /\ s_pending (scopes s2 y) = s_pending (scopes s1 y)).
  { intros y. unfold s2, spawn_struct. cbn. unfold upd.
    destruct (Nat.eqb_spec y (g_scope (groups s g))) as [->|Hy]; now split. }
  assert (Ep : forall t, pending_of s2 t = pending_of s1 t).
  { intros t. unfold pending_of. change (nscope s2) with (nscope s1). apply sumf_ext. intros y _.
    unfold owed. destruct (Ea y) as [E1 E2]. now rewrite E1, E2. }
  assert (Ek : forall t, t <> tn -> tasks s2 t = tasks s1 t).
  { intros t Ht. unfold s2. now rewrite sp_task_other. }
  assert (P12 : pstep s1 s2).
  { intros P. split.
    - constructor.
      + intros y Hy. destruct (Ea y) as [E1 E2]. rewrite E1 in Hy. rewrite E2. now apply P.
      + intros t. rewrite Ep. destruct (Nat.eq_dec t tn) as [->|Hne]; [|rewrite (Ek t Hne); apply P].
        rewrite (pending_of_zero s1 tn Fh). lia.
    - intros t A. assert (t <> tn) by (unfold alloc_t, tn, s1 in *; cbn in A; lia).
      unfold phi. rewrite Ep, (Ek t H). split; [lia|reflexivity]. }
  assert (P02 : pstep s s2).
  { apply (pstep_trans s s1); [now apply P_new_scope|exact P12|]. intros t A. split; [exact A|reflexivity]. }
  set (gs := g_scope (groups s g)).
  assert (P23 : pstep s2 (call_soon (restart s2 (Some gs)) (HStep (ntask s)))).
  { apply (pstep_trans s2 (restart s2 (Some gs))); [apply P_restart; now apply Pok_Tree|apply pstep_inert, inert_call_soon|].
    intros t A. apply same_alloc_group; [apply kframe_treq, kframe_restart|exact A]. }
  apply (pstep_trans s s2); [exact P02|exact P23|].
  intros t A. assert (t <> tn) by (unfold alloc_t, tn in *; lia). split.
  - unfold alloc_t, s2, spawn_struct in *. cbn. lia.
  - rewrite (Ek t H). reflexivity.
Qed.

Lemma P_td_tail s3 k g t : Pok s3 -> pstep s3 (td_tail s3 k g t).
Proof.
  intros Pk3. unfold td_tail.
  set (s4 := match g_fut (groups s3 g) with
             | Some f => match g_tasks (groups s3 g) with [] => fut_complete s3 f (FRes 0) | _ :: _ => s3 end
             | None => s3 end).
  assert (K4 : treq s3 s4 /\ inert s3 s4).
  { unfold s4. destruct (g_fut (groups s3 g)); [|split; [apply treq_refl|apply inert_refl]].
    destruct (g_tasks (groups s3 g)); [split; [apply treq_fut_complete|apply inert_fut_complete]|
                                       split; [apply treq_refl|apply inert_refl]]. }
  clearbody s4. destruct K4 as [K4 I4].
  assert (Pk4 : Pok s4) by now apply (Pok_treq s3).
  assert (Hx : forall e, let s5 := upd_group s4 g (fun x => gr_excs (g_excs x ++ [(t, e)]) x) in
                         treq s4 s5 /\ inert s4 s5).
  { intros e. split; [apply treq_upd_group; intros x; reflexivity|apply inert_same; reflexivity]. }
  assert (Kc : forall a, treq s3 a -> inert s3 a ->
                 pstep s3 (if eff_cancelled a (g_scope (groups a g)) then a else scope_cancel a (g_scope (groups a g)) false)).
  { intros a Ka Ia. destruct (eff_cancelled a _); [now apply pstep_inert|].
    apply (pstep_trans s3 a); [now apply pstep_inert| |now apply same_alloc_group].
    apply P_scope_cancel. now apply (Pok_treq s3). }
  assert (Kc2 : forall a, treq s3 a -> inert s3 a -> pstep s3 (scope_cancel a (g_scope (groups a g)) false)).
  { intros a Ka Ia.
    apply (pstep_trans s3 a); [now apply pstep_inert| |now apply same_alloc_group].
    apply P_scope_cancel. now apply (Pok_treq s3). }
  assert (K5 : forall e, let s5 := upd_group s4 g (fun x => gr_excs (g_excs x ++ [(t, e)]) x) in
                         treq s3 s5 /\ inert s3 s5).
  { intros e. destruct (Hx e) as [H1 H2]. split; [eapply treq_trans; eauto|eapply inert_trans; eauto]. }
  assert (Kf : forall f v, pstep s3 (fut_complete s4 f v)).
  { intros f v. apply pstep_inert. eapply inert_trans; [exact I4|apply inert_fut_complete]. }
  destruct (k_done k) as [[v|e|e]|].
  - destruct (k_startfut k) as [f|]; [|now apply pstep_inert].
    destruct (f_st (futs s4 f)); try (now apply pstep_inert). apply Kf.
  - destruct (k_startfut k) as [f|].
    + destruct (f_st (futs s4 f)).
      * apply Kf.
      * destruct (is_cancel e); [now apply Kc|]. destruct (K5 e). now apply Kc2.
      * destruct (is_cancel e); [now apply Kc|]. destruct (K5 e). now apply Kc2.
      * destruct (is_cancel e); [now apply pstep_inert|]. destruct (K5 e). now apply Kc2.
    + destruct (is_cancel e); [now apply Kc|]. destruct (K5 e). now apply Kc2.
  - destruct (k_startfut k) as [f|].
    + destruct (f_st (futs s4 f)).
      * apply Kf.
      * destruct (is_cancel e); [now apply Kc|]. destruct (K5 e). now apply Kc2.
      * destruct (is_cancel e); [now apply Kc|]. destruct (K5 e). now apply Kc2.
      * destruct (is_cancel e); [now apply pstep_inert|]. destruct (K5 e). now apply Kc2.
    + destruct (is_cancel e); [now apply Kc|]. destruct (K5 e). now apply Kc2.
  - destruct (k_startfut k) as [f|]; [|now apply pstep_inert].
    destruct (f_st (futs s4 f)); try (now apply pstep_inert). apply Kf.
Qed.

Lemma P_set_shield s c (b : bool) : Pok s ->
  pstep s (if b then upd_scope s c (sc_shield true)
           else restart (upd_scope s c (sc_shield false)) (s_parent (scopes (upd_scope s c (sc_shield false)) c))).
Proof.
  intros Pk. destruct b; [apply pstep_inert, inert_upd_scope; intros k; reflexivity|].
  set (s1 := upd_scope s c (sc_shield false)).
  assert (K1 : treq s s1) by (apply treq_upd_scope; intros k; reflexivity).
  apply (pstep_trans s s1); [apply pstep_inert, inert_upd_scope; intros k; reflexivity| |now apply same_alloc_group].
  apply P_restart. now apply (Pok_treq s).
Qed.

Lemma P_run_deliver s c : Pok s ->
  pstep s (deliver_top (set_running (set_ready s (remove_first (HDeliver c) (ready s))) None) c).
Proof.
  intros Pk. set (s1 := set_running (set_ready s (remove_first (HDeliver c) (ready s))) None).
  assert (K1 : treq s s1) by (eapply treq_trans; [apply treq_set_ready|apply treq_set_running]).
  apply (pstep_trans s s1); [apply pstep_inert, inert_same; reflexivity| |now apply same_alloc_group].
  apply P_deliver_top. now apply (Pok_treq s).
Qed.

Lemma P_new_root s : Tree s -> pstep s (root_struct s).
Proof.
  intros T P. set (tn := ntask s). destruct (Tree_fresh_task s tn T (le_n _)) as [_ Fh].
  assert (Ep : forall t, pending_of (root_struct s) t = pending_of s t) by (intros t; reflexivity).
  assert (Ek : forall t, t <> tn -> tasks (root_struct s) t = tasks s t).
  { intros t Ht. unfold root_struct. cbn. unfold upd. destruct (Nat.eqb_spec t (ntask s)); [contradiction|reflexivity]. }
  split.
  - constructor; [apply P|]. intros t. rewrite Ep. destruct (Nat.eq_dec t tn) as [->|Hne]; [|rewrite (Ek t Hne); apply P].
    rewrite (pending_of_zero s tn Fh). lia.
  - intros t A. assert (t <> tn) by (unfold alloc_t, tn in *; lia).
    unfold phi. rewrite Ep, (Ek t H). split; [lia|reflexivity].
Qed.

Lemma P_group_new s : Tree s -> pstep s (gnew_struct s).
Proof.
  intros T. apply (pstep_trans s (fst (new_scope s None false))); [now apply P_new_scope| |].
  - apply pstep_inert. apply inert_same; reflexivity.
  - intros t A. split; [exact A|reflexivity].
Qed.

(* ---------------- the two outside influences ---------------- *)
Lemma native_cancel_phi s t : k_done (tasks s t) = None ->
  forall t', phi (task_cancel s t 0) t' = (if Nat.eqb t' t then phi s t' + 1 else phi s t')%Z.
Proof.
  intros Hd t'. unfold phi.
  assert (Ep : pending_of (task_cancel s t 0) t' = pending_of s t').
  { unfold pending_of. rewrite task_cancel_nscope. apply sumf_ext. intros y _. unfold owed.
    now rewrite task_cancel_scopes. }
  rewrite Ep, (task_cancel_ncancel s t 0 t' Hd). destruct (Nat.eqb_spec t' t); [subst|]; lia.
Qed.

Lemma native_cancel_PInv s t : PInv s -> PInv (task_cancel s t 0).
Proof.
  intros P. destruct (k_done (tasks s t)) eqn:Hd.
  { rewrite task_cancel_done_noop; [exact P|congruence]. }
  constructor.
  - intros c. rewrite task_cancel_scopes. apply P.
  - intros t'. pose proof (native_cancel_phi s t Hd t') as H. pose proof (pi_nonneg _ P t') as N.
    unfold phi in H. destruct (Nat.eqb t' t); lia.
Qed.

Lemma uncancel_phi s t :
  forall t', phi (task_uncancel s t) t' =
             (if Nat.eqb t' t && negb (Nat.eqb (k_ncancel (tasks s t)) 0) then phi s t' - 1 else phi s t')%Z.
Proof.
  intros t'. unfold phi.
  assert (Ep : pending_of (task_uncancel s t) t' = pending_of s t') by reflexivity.
  rewrite Ep. unfold task_uncancel. cbn [tasks upd_task set_tasks]. unfold upd.
  destruct (Nat.eqb_spec t' t) as [->|Hne]; cbn [andb]; [|lia].
  cbn [k_ncancel tk_ncancel]. destruct (k_ncancel (tasks s t)) as [|m]; cbn [pred Nat.eqb negb]; lia.
Qed.

(* explicit uncancel() stays within the requests that came from outside *)
Lemma uncancel_PInv s t : PInv s -> pending_of s t < k_ncancel (tasks s t) -> PInv (task_uncancel s t).
Proof.
  intros P G. constructor; [apply P|]. intros t'.
  pose proof (uncancel_phi s t t') as H. pose proof (pi_nonneg _ P t') as N. unfold phi in H.
  destruct (Nat.eq_dec t' t) as [Ett|Hne].
  - subst t'. rewrite Nat.eqb_refl in H. cbn [andb] in H.
    destruct (Nat.eqb_spec (k_ncancel (tasks s t)) 0); cbn [negb] in H; lia.
  - destruct (Nat.eqb_spec t' t); [contradiction|]. cbn [andb] in H. lia.
Qed.
