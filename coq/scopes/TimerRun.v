(* C06, run-level form of "never missed" (audit T4): a due deadline of an active, uncancelled scope leads to the
   cancellation of the scope unless the program disarms it first (leaves the scope / assigns another deadline), and
   it does within one loop cycle when the scope is left alone. *)
From AV Require Import Base Machine ChainFrame ChainThms ChainWalk ChainMono TimerInv TimerThms TimerOrder.
From Coq Require Import ZifyBool.

(* ---------------- the clock never goes back ---------------- *)
Lemma set_deadline_body_now s c d : now (set_deadline_body s c d) = now s.
Proof.
  unfold set_deadline_body. cbv zeta. set (s1 := cancel_timeout (upd_scope s c (sc_deadline d)) c).
  assert (E1 : now s1 = now s).
  { unfold s1. destruct (cancel_timeout_fields (upd_scope s c (sc_deadline d)) c) as (K & _). exact K. }
  destruct (_ && _); [|exact E1]. rewrite (sr_now _ _ (srel_scope_timeout s1 c)). exact E1.
Qed.

Lemma step_now s o : (now s <= now (fst (step s o)))%Z.
Proof.
  destruct o;
    try (match goal with |- context [step s ?o] =>
           rewrite (sr_now _ _ (walk_step srel_walk s o (op_ok_always _ _ _ s o I))); lia end).
  - (* ASetDeadline *)
    unfold step. cbn [actor]. destruct (negb (idle s t)); [cbn [fst]; lia|].
    unfold puppet_op. cbv zeta.
    change (now s <= now (fst (ret_to_puppet (set_deadline_body (begin_act s t) c d) t (RRet 0))))%Z.
    rewrite (fr_now _ _ (frame_ret _ t (RRet 0))), set_deadline_body_now. cbn. lia.
  - (* ATick *)
    unfold step. cbn [actor]. destruct (Z.ltb dt 0) eqn:E; cbn [fst tick set_ready set_timers set_now now]; lia.
Qed.

Lemma final_now ops : forall s, (now s <= now (final step s ops))%Z.
Proof.
  induction ops as [|o r IH]; intros s; cbn [final fold_left]; [lia|].
  pose proof (step_now s o). specialize (IH (fst (step s o))). unfold final in IH. lia.
Qed.

(* ---------------- continuations of well-formed runs ---------------- *)
Lemma reach_wf_run ops : forall s, reach_wf s -> wf_run s ops -> reach_wf (final step s ops).
Proof.
  induction ops as [|o r IH]; intros s R W; [exact R|]. destruct W as [W1 W2]. cbn [final fold_left].
  apply IH; [now apply reach_wf_step|exact W2].
Qed.

Lemma reach_wf_alloc s c : reach_wf s -> s_active (scopes s c) = true -> c < nscope s.
Proof.
  intros R Ha. destruct (reach_tinv s R) as [G _]. destruct (Nat.lt_ge_cases c (nscope s)) as [H|H]; [exact H|].
  rewrite (gi_unalloc _ G c H) in Ha. discriminate.
Qed.

Lemma cancelled_mono_run ops : forall s c,
  c < nscope s -> s_cancelled (scopes s c) = true -> s_cancelled (scopes (final step s ops) c) = true.
Proof.
  induction ops as [|o r IH]; intros s c Hc H; [exact H|]. cbn [final fold_left]. apply IH.
  - pose proof (wr_nscope _ _ (step_flags s o)). lia.
  - apply (proj1 (proj2 (caught_cancelled_monotone s o c Hc))), H.
Qed.

(* T4 as a theorem: whatever the program and the loop do next, the scope ends up cancelled, or it was disarmed
   (left, or given another deadline), or its timeout callback is still waiting in the ready queue *)
Theorem due_deadline_cancels_unless_disarmed s c d ops :
  reach_wf s -> s_active (scopes s c) = true -> s_cancelled (scopes s c) = false ->
  s_deadline (scopes s c) = Some d -> (d <= now s)%Z ->
  let s' := final step s ops in wf_run s ops ->
  s_cancelled (scopes s' c) = true \/ s_active (scopes s' c) = false \/ s_deadline (scopes s' c) <> Some d \/
  (exists tm, In (HTimeout c tm) (ready s')).
Proof.
  intros R Ha Ec Ed Hd s' W.
  destruct (s_cancelled (scopes s' c)) eqn:Ec'; [now left|right].
  destruct (s_active (scopes s' c)) eqn:Ea'; [right|now left].
  destruct (s_deadline (scopes s' c)) as [d'|] eqn:Ed'; [|left; discriminate].
  destruct (Z.eq_dec d' d) as [->|Hne]; [right|left; congruence].
  pose proof (reach_wf_run ops s R W) as R'. fold s' in R'.
  pose proof (final_now ops s) as Hn. fold s' in Hn.
  destruct (due_timeout_is_ready s' c d R' Ea' Ec' Ed') as (tm & _ & Hin & _); [lia|]. eauto.
Qed.

(* ---------------- fired timeout callbacks enter the ready queue only through ATick ---------------- *)
Definition RR (s s' : st) : Prop := forall h, is_th h = true -> In h (ready s') -> In h (ready s).

Lemma rr_refl s : RR s s.
Proof. intros h _ H. exact H. Qed.

Lemma rr_trans a b c : RR a b -> RR b c -> RR a c.
Proof. intros H1 H2 h Hh H. apply (H1 h Hh), (H2 h Hh), H. Qed.

Lemma in_ths_gen h l : is_th h = true -> (In h (ths l) <-> In h l).
Proof. intros Hh. unfold ths. rewrite filter_In. tauto. Qed.

Lemma rr_ths s s' : ths (ready s') = ths (ready s) -> RR s s'.
Proof. intros E h Hh H. apply (in_ths_gen h _ Hh). rewrite <- E. now apply (in_ths_gen h _ Hh). Qed.

Lemma rr_frame a b : frame a b -> RR a b.
Proof. intros F. apply rr_ths, (fr_ths _ _ F). Qed.

Lemma rr_tframe a b : tframe a b -> RR a b.
Proof. intros F. apply rr_ths, (tf_ths _ _ F). Qed.

Lemma rr_same s s' : ready s' = ready s -> RR s s'.
Proof. intros E h _ H. now rewrite <- E. Qed.

Lemma rr_cancel_timeout s c : RR s (cancel_timeout s c).
Proof.
  unfold cancel_timeout. destruct (s_timeout (scopes s c)) as [tm|]; [|apply rr_refl].
  intros h _ H. cbn [upd_scope set_scopes timer_cancel set_ready set_timers ready] in H. apply filter_In in H. tauto.
Qed.

Lemma rr_scope_cancel s c b : RR s (scope_cancel s c b).
Proof.
  unfold scope_cancel. destruct (s_cancelled (scopes s c)); [apply rr_refl|].
  set (s2 := upd_scope (cancel_timeout s c) c _).
  assert (H2 : RR s s2) by (eapply rr_trans; [apply rr_cancel_timeout|apply rr_same; reflexivity]).
  destruct (s_host (scopes s2 c)); [|exact H2]. eapply rr_trans; [exact H2|apply rr_frame, frame_deliver_top].
Qed.

Lemma rr_scope_timeout s c : RR s (scope_timeout s c).
Proof.
  unfold scope_timeout. destruct (s_deadline (scopes s c)) as [d|]; [|apply rr_refl].
  destruct (Z.leb d (now s)); [apply rr_scope_cancel|]. cbn [call_at]. apply rr_same. reflexivity.
Qed.

Lemma rr_scope_enter s c t : RR s (fst (scope_enter s c t)).
Proof.
  unfold scope_enter. destruct (s_active (scopes s c)); [apply rr_refl|]. cbv zeta. cbn [fst].
  match goal with |- context [scope_timeout ?a c] => set (s3 := a) end.
  assert (H3 : RR s s3) by (unfold s3; destruct (k_cur (tasks s t)); apply rr_same; reflexivity).
  assert (H5 : RR s (upd_scope (scope_timeout s3 c) c (sc_active true))).
  { eapply rr_trans; [exact H3|]. eapply rr_trans; [apply rr_scope_timeout|]. apply rr_same; reflexivity. }
  destruct (s_cancelled _); [|exact H5]. eapply rr_trans; [exact H5|apply rr_frame, frame_deliver_top].
Qed.

Lemma rr_scope_exit s c t exc : RR s (fst (scope_exit s c t exc)).
Proof.
  destruct (exit_guards s c t) eqn:G.
  - eapply rr_trans; [|apply rr_tframe, (exit_tframe s c t exc G)].
    eapply rr_trans; [|apply rr_cancel_timeout]. apply rr_same; reflexivity.
  - rewrite (scope_exit_guards_fail s c t exc G). apply rr_refl.
Qed.

Lemma rr_set_deadline s c d : RR s (set_deadline_body s c d).
Proof.
  unfold set_deadline_body. cbv zeta.
  assert (H1 : RR s (cancel_timeout (upd_scope s c (sc_deadline d)) c)).
  { eapply rr_trans; [|apply rr_cancel_timeout]. apply rr_same; reflexivity. }
  destruct (_ && _); [|exact H1]. eapply rr_trans; [exact H1|apply rr_scope_timeout].
Qed.

Lemma rr_spawn s g sf : RR s (fst (spawn_task s g sf)).
Proof.
  unfold spawn_task. cbv zeta.
  change (new_scope s None false) with (fst (new_scope s None false), snd (new_scope s None false)). cbv iota.
  cbn [fst].
  eapply rr_trans; [|apply rr_frame; now apply frame_call_soon].
  eapply rr_trans; [|apply rr_frame, frame_restart].
  apply rr_same; reflexivity.
Qed.

Lemma rr_walk : walk_hyps RR (ok_always (fun _ _ => True) (fun _ _ _ => True) (fun _ _ => False)).
Proof.
  constructor.
  - apply rr_refl.
  - apply rr_trans.
  - apply rr_frame.
  - exact I.
  - intros s d sh. apply rr_same; reflexivity.
  - intros s d sh t _. eapply rr_trans; [|apply rr_scope_enter]. apply rr_same; reflexivity.
  - intros s c t _. apply rr_scope_enter.
  - intros s g t _. apply rr_scope_enter.
  - intros s t _. apply rr_scope_enter.
  - apply rr_scope_exit.
  - intros s c _. apply rr_scope_cancel.
  - intros s g. apply rr_scope_cancel.
  - intros s t. apply rr_scope_cancel.
  - intros s c d _. apply rr_set_deadline.
  - intros s. apply rr_same; reflexivity.
  - apply rr_spawn.
  - intros s t f w.
    apply rr_trans with (suspend_on (fst (call_at s w (TSleep f))) t f); [|apply rr_same; reflexivity].
    apply rr_trans with (fst (call_at s w (TSleep f))); [apply rr_same; reflexivity|apply rr_frame, frame_suspend_on].
  - intros s t f. apply rr_same; reflexivity.
  - intros s t f tm _ h _ H. cbn [timer_cancel set_ready set_timers ready] in H. apply filter_In in H. tauto.
  - intros s f tm h _ H. unfold pop in H. cbn [set_ready ready] in H. eapply in_remove_first; eauto.
  - intros s c tm _ _. eapply rr_trans; [|apply rr_scope_timeout]. intros h _ H.
    unfold pop in H. cbn [set_running set_ready ready] in H. eapply in_remove_first; eauto.
  - intros s. apply rr_same; reflexivity.
  - intros s dt [].
Qed.

(* every op other than an accepted ATick adds no fired timer callback to the ready queue *)
Theorem fired_callbacks_only_by_tick s o h :
  (forall dt, o <> ATick dt) -> is_th h = true -> In h (ready (fst (step s o))) -> In h (ready s).
Proof.
  intros Ho. apply (walk_step rr_walk s o). apply op_ok_always. destruct o; try exact I. exfalso. now apply (Ho dt).
Qed.

(* ---------------- one loop cycle ---------------- *)
(* the scope's timeout callback tm has fired and is pending *)
Record armed_due (s : st) (c : sid) (d : Z) (tm : tmid) : Prop := mk_armed_due {
  ad_active : s_active (scopes s c) = true;
  ad_uncancelled : s_cancelled (scopes s c) = false;
  ad_deadline : s_deadline (scopes s c) = Some d;
  ad_due : (d <= now s)%Z;
  ad_handle : s_timeout (scopes s c) = Some tm;
  ad_ready : In (HTimeout c tm) (ready s)
}.

(* a step that neither cancels nor disarms the scope leaves the same callback pending *)
Lemma armed_due_step s c d tm o :
  reach_wf s -> op_wf s o -> armed_due s c d tm ->
  let s' := fst (step s o) in
  s_cancelled (scopes s' c) = false -> s_active (scopes s' c) = true -> s_deadline (scopes s' c) = Some d ->
  armed_due s' c d tm.
Proof.
  intros R Hwf [Ha Ec Ed Hd Et Hin] s' Ec' Ea' Ed'.
  pose proof (reach_wf_step s o R Hwf) as R'. fold s' in R'.
  pose proof (step_now s o) as Hn. fold s' in Hn.
  destruct (due_timeout_is_ready s' c d R' Ea' Ec' Ed') as (tm2 & Et2 & Hin2 & _); [lia|].
  destruct (reach_tinv s R) as [G P].
  assert (E : tm2 = tm).
  { assert (Old : In (HTimeout c tm2) (ready s) -> tm2 = tm).
    { intros H. destruct (pi_ready _ _ _ (P c) tm2 H) as [E _]. congruence. }
    assert (Cases : (exists dt, o = ATick dt) \/ (forall dt, o <> ATick dt))
      by (destruct o; try (right; discriminate); left; eauto).
    destruct Cases as [[dt ->]|Hnt];
      [|apply Old; apply (fired_callbacks_only_by_tick s o (HTimeout c tm2) Hnt eq_refl Hin2)].
    (* ATick *)
    unfold s', step in Hin2. cbn [actor] in Hin2. destruct (Z.ltb dt 0) eqn:El; cbn [fst] in Hin2; [now apply Old|].
    unfold tick in Hin2. cbv zeta in Hin2. cbn [set_ready set_timers set_now ready] in Hin2.
    apply in_app_iff in Hin2. destruct Hin2 as [H|H]; [now apply Old|].
    apply in_map_iff in H. destruct H as (x & Ex & Hx). apply (proj1 (in_sort_timers _ _)) in Hx.
    apply filter_In in Hx. destruct Hx as [Hx _]. unfold handle_of_timer in Ex.
    destruct (tm_what x) as [f|c'] eqn:Ew; [discriminate|]. injection Ex as -> <-.
    destruct (pi_timer _ _ _ (P c) x Hx Ew) as [E _]. congruence. }
  subst tm2. constructor; auto. lia.
Qed.

(* the scope is neither left nor given another deadline during ops (at every prefix) *)
Definition stays (c : sid) (d : Z) (s : st) (ops : list op) : Prop :=
  forall pre post, ops = pre ++ post ->
    s_active (scopes (final step s pre) c) = true /\ s_deadline (scopes (final step s pre) c) = Some d.

Lemma stays_tail c d s o r : stays c d s (o :: r) -> stays c d (fst (step s o)) r.
Proof. intros H pre post E. apply (H (o :: pre) post). cbn. now rewrite E. Qed.

Lemma cycle_cancels ops : forall s c d tm,
  reach_wf s -> armed_due s c d tm -> wf_run s ops -> stays c d s ops ->
  In (ARun (HTimeout c tm)) ops -> s_cancelled (scopes (final step s ops) c) = true.
Proof.
  induction ops as [|o r IH]; intros s c d tm R A W St Hin; [destruct Hin|].
  destruct W as [W1 W2]. cbn [final fold_left]. set (s2 := fst (step s o)).
  pose proof (reach_wf_step s o R W1) as R2. fold s2 in R2.
  destruct (s_cancelled (scopes s2 c)) eqn:Ec2.
  - apply cancelled_mono_run; [|exact Ec2]. apply (reach_wf_alloc s2 c R2).
    apply (St [o] r eq_refl).
  - destruct (St [o] r eq_refl) as [Ea2 Ed2]. change (final step s [o]) with s2 in Ea2, Ed2.
    pose proof (armed_due_step s c d tm o R W1 A Ec2 Ea2 Ed2) as A2. fold s2 in A2.
    destruct Hin as [->|Hin].
    + exfalso. destruct (timeout_run_cancels s c tm R (ad_ready _ _ _ _ A)) as [K _]. fold s2 in K. congruence.
    + apply (IH s2 c d tm R2 A2 W2 (stays_tail _ _ _ _ _ St) Hin).
Qed.

(* the cycle version: if the loop runs every handle that was ready (one cycle) and the scope is left alone
   meanwhile, the scope is cancelled at the end of the cycle *)
Theorem due_deadline_cancelled_after_cycle s c d ops :
  reach_wf s -> s_active (scopes s c) = true -> s_cancelled (scopes s c) = false ->
  s_deadline (scopes s c) = Some d -> (d <= now s)%Z ->
  wf_run s ops -> stays c d s ops -> (forall h, In h (ready s) -> In (ARun h) ops) ->
  s_cancelled (scopes (final step s ops) c) = true.
Proof.
  intros R Ha Ec Ed Hd W St Hall.
  destruct (due_timeout_is_ready s c d R Ha Ec Ed Hd) as (tm & Et & Hin & _).
  apply (cycle_cancels ops s c d tm R); auto. constructor; auto.
Qed.

(* the hypothesis `stays` cannot be weakened to "ops contains no AExit _ c _ / ASetDeadline _ c _" in the model:
   a task group's own scope is left by AGroupExit.  Witness: the group scope 1 gets a deadline, the clock passes
   it, the host leaves the group before the loop runs the callback; the scope is never cancelled. *)
Definition gexit_ops : list op :=
  [ANewRoot; AGroupNew 1; AGroupEnter 1 1; ASetDeadline 1 1 (Some 5%Z); ATick 5].
Definition gexit_cycle : list op := [AGroupExit 1 1; ARun (HStep 1); ARun (HTimeout 1 1)].

Definition gexit_state : st := final step init gexit_ops.

Example stays_needed :
  reach_wf gexit_state /\ s_active (scopes gexit_state 1) = true /\ s_cancelled (scopes gexit_state 1) = false /\
  s_deadline (scopes gexit_state 1) = Some 5%Z /\ now gexit_state = 5%Z /\ ready gexit_state = [HTimeout 1 1] /\
  wf_run gexit_state gexit_cycle /\
  (forall h, In h (ready gexit_state) -> In (ARun h) gexit_cycle) /\
  forallb (fun o => match o with AExit _ 1 _ | ASetDeadline _ 1 _ => false | _ => true end) gexit_cycle = true /\
  s_cancelled (scopes (final step gexit_state gexit_cycle) 1) = false /\
  s_active (scopes (final step gexit_state gexit_cycle) 1) = false.
Proof.
  assert (Er : ready gexit_state = [HTimeout 1 1]) by (vm_compute; reflexivity).
  split; [exists gexit_ops; split; [cbn; tauto|reflexivity]|].
  split; [vm_compute; reflexivity|]. split; [vm_compute; reflexivity|]. split; [vm_compute; reflexivity|].
  split; [vm_compute; reflexivity|]. split; [exact Er|]. split; [cbn; tauto|].
  split; [rewrite Er; intros h [<-|[]]; right; right; now left|].
  split; [reflexivity|]. split; vm_compute; reflexivity.
Qed.

(* non-vacuity of the cycle theorem: the fail_at scope of TimerThms.dl_ops, clock at the deadline, one cycle *)
Definition cyc_state : st := final step init (dl_ops ++ [ATick 5]).

Example cycle_witness :
  reach_wf cyc_state /\ s_active (scopes cyc_state 1) = true /\ s_cancelled (scopes cyc_state 1) = false /\
  s_deadline (scopes cyc_state 1) = Some 5%Z /\ (5 <= now cyc_state)%Z /\ wf_run cyc_state [ARun (HTimeout 1 1)] /\
  stays 1 5%Z cyc_state [ARun (HTimeout 1 1)] /\
  (forall h, In h (ready cyc_state) -> In (ARun h) [ARun (HTimeout 1 1)]) /\
  s_cancelled (scopes (final step cyc_state [ARun (HTimeout 1 1)]) 1) = true.
Proof.
  assert (Er : ready cyc_state = [HTimeout 1 1]) by (vm_compute; reflexivity).
  assert (E0 : s_active (scopes cyc_state 1) = true /\ s_deadline (scopes cyc_state 1) = Some 5%Z)
    by (split; vm_compute; reflexivity).
  assert (E1 : s_active (scopes (final step cyc_state [ARun (HTimeout 1 1)]) 1) = true /\
               s_deadline (scopes (final step cyc_state [ARun (HTimeout 1 1)]) 1) = Some 5%Z)
    by (split; vm_compute; reflexivity).
  split; [exists (dl_ops ++ [ATick 5]); split; [cbn; tauto|reflexivity]|].
  split; [apply E0|]. split; [vm_compute; reflexivity|]. split; [apply E0|].
  split; [vm_compute; discriminate|]. split; [cbn; tauto|]. split.
  - intros pre post E. destruct pre as [|o [|o2 pre]].
    + exact E0.
    + cbn in E. injection E as <- _. exact E1.
    + cbn in E. injection E as _ E. destruct pre; discriminate.
  - split; [rewrite Er; intros h [<-|[]]; now left|]. vm_compute. reflexivity.
Qed.
