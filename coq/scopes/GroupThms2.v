(* Frame facts about the group table: which operations can change `groups` and how.
   No invariant is needed here: these are facts about the definitions of Machine.v. *)
From AV Require Import Base Machine GroupInv GroupInv2 GroupInv3 GroupInv4 GroupInv5 GroupInv6 GroupInv7 GroupInv8.

Lemma groups_kstar C T s s' : kstar C T s s' -> groups s' = groups s.
Proof. intros H. apply (fr_groups _ _ _ _ (kframe_kstar _ _ _ _ H)). Qed.

Lemma groups_scope_enter s c t : groups (fst (scope_enter s c t)) = groups s.
Proof. apply (groups_kstar _ _ _ _ (ks_scope_enter s c t)). Qed.
Lemma groups_scope_exit s c t e : groups (fst (scope_exit s c t e)) = groups s.
Proof. apply (groups_kstar _ _ _ _ (ks_scope_exit s c t e)). Qed.
Lemma groups_scope_cancel s c b : groups (scope_cancel s c b) = groups s.
Proof. apply (groups_kstar _ _ _ _ (ks_scope_cancel none_s none_t s c b)). Qed.
Lemma groups_restart s x : groups (restart s x) = groups s.
Proof. apply (groups_kstar _ _ _ _ (ks_restart none_s none_t s x)). Qed.
Lemma groups_deliver_top s c : groups (deliver_top s c) = groups s.
Proof. apply (groups_kstar _ _ _ _ (ks_deliver_top none_s none_t s c)). Qed.
Lemma groups_scope_timeout s c : groups (scope_timeout s c) = groups s.
Proof. apply (groups_kstar _ _ _ _ (ks_scope_timeout none_s none_t s c)). Qed.
Lemma groups_cancel_timeout s c : groups (cancel_timeout s c) = groups s.
Proof. apply (groups_kstar _ _ _ _ (ks_cancel_timeout none_s none_t s c)). Qed.
Lemma groups_task_cancel s t o : groups (task_cancel s t o) = groups s.
Proof. apply (groups_kstar _ _ _ _ (ks_one _ _ _ _ (kp_cancel none_s none_t s t o))). Qed.

Lemma groups_suspend_on s t f : groups (suspend_on s t f) = groups s.
Proof.
  unfold suspend_on. destruct (f_st (futs s f)); try reflexivity.
  destruct (k_must (tasks s t)); [|reflexivity]. cbn [upd_task set_tasks groups]. now rewrite fc_groups.
Qed.

Lemma groups_park s t : groups (park s t) = groups s.
Proof. unfold park. rewrite new_fut_eq. cbn [upd_task set_tasks groups]. now rewrite groups_suspend_on. Qed.

Lemma groups_ret s t r : groups (fst (ret_to_puppet s t r)) = groups s.
Proof. unfold ret_to_puppet. cbn [fst set_running groups]. rewrite groups_park. destruct r; reflexivity. Qed.

Lemma groups_event_set s e : groups (event_set s e) = groups s.
Proof.
  rewrite event_set_eq. destruct (e_set (events s e)); [reflexivity|].
  assert (H : forall l a, groups (fold_left (fun a f => fut_complete a f (FRes 1)) l a) = groups a).
  { induction l as [|f l IH]; intros a; cbn [fold_left]; [reflexivity|]. now rewrite IH, fc_groups. }
  now rewrite H.
Qed.

Lemma groups_finish_task s t o : groups (finish_task s t o) = groups s.
Proof. rewrite finish_task_eq. cbn zeta. destruct (k_group (tasks s t)); reflexivity. Qed.

Lemma groups_event_wait s t e : groups (fst (event_wait s t e)) = groups s.
Proof.
  unfold event_wait. destruct (e_set (events s e)); [reflexivity|]. rewrite new_fut_eq. cbn [fst].
  now rewrite groups_suspend_on.
Qed.

Lemma groups_puppet_finish s t v : groups (fst (puppet_finish s t v)) = groups s.
Proof.
  unfold puppet_finish. destruct (k_group (tasks (begin_act s t) t)).
  - match goal with |- context [scope_exit ?a ?b ?c ?d] => pose proof (groups_scope_exit a b c d) as H;
      destruct (scope_exit a b c d) as [s4 x] end.
    cbn [fst] in H. destruct x; cbn [fst]; rewrite groups_finish_task, H, groups_event_set; reflexivity.
  - cbn [fst]. now rewrite groups_finish_task.
Qed.

(* ---------------- puppet operations that never touch the group table ---------------- *)
Definition group_op (o : op) : bool :=
  match o with
  | AGroupNew _ | AGroupEnter _ _ | AGroupExit _ _ | ASpawn _ _ | AStart _ _ => true
  | _ => false
  end.

Ltac pair_fst H :=
  match goal with
  | |- context [let '(a, b) := ?x in _] => pose proof H as Hp; destruct x as [a b]; cbn [fst] in Hp
  end.

Lemma groups_puppet_op s0 t o : group_op o = false -> groups (fst (puppet_op s0 t o)) = groups s0.
Proof.
  intros Hg. unfold puppet_op. set (s := begin_act s0 t). change (groups s0) with (groups s).
  destruct o; try discriminate.
  - (* ANewScope *) rewrite new_scope_eq. now rewrite groups_ret.
  - (* AEnter *) pose proof (groups_scope_enter s c t) as H. destruct (scope_enter s c t) as [s1 e]. cbn [fst] in H.
    now rewrite groups_ret.
  - (* AExit *) pose proof (groups_scope_exit s c t (k_held (tasks s t))) as H.
    destruct (scope_exit s c t (k_held (tasks s t))) as [s1 x]. cbn [fst] in H.
    destruct x; [|now rewrite groups_ret|now rewrite groups_ret].
    match goal with |- context [if ?b then _ else _] => destruct b end; now rewrite groups_ret.
  - (* ACancel *) now rewrite groups_ret, groups_scope_cancel.
  - (* ASetShield *) destruct (Bool.eqb (s_shield (scopes s c)) b); [now rewrite groups_ret|]. cbn zeta. rewrite groups_ret.
    destruct b; [reflexivity|now rewrite groups_restart].
  - (* ASetDeadline *) cbn zeta. rewrite groups_ret. match goal with |- context [if ?b then _ else _] => destruct b end.
    + now rewrite groups_scope_timeout, groups_cancel_timeout.
    + now rewrite groups_cancel_timeout.
  - (* AStarted *) destruct (k_startfut (tasks s t)) as [f|]; [|now rewrite groups_ret].
    destruct (f_st (futs s f)); rewrite groups_ret; [now rewrite fc_groups|reflexivity|reflexivity|reflexivity].
  - (* AHandleCancel *) destruct (e_set _); rewrite groups_ret; [reflexivity|now rewrite groups_scope_cancel].
  - (* AHandleWait *) pose proof (groups_event_wait s t (k_hevent (tasks s h))) as H.
    destruct (event_wait s t (k_hevent (tasks s h))) as [s1 f]. cbn [fst] in H. exact H.
  - (* AYield *) reflexivity.
  - (* ACkIf *) destruct (ckif_spins _ _ _); [reflexivity|now rewrite groups_ret].
  - (* AShieldCk *) rewrite new_scope_eq. cbn zeta.
    cbn [blocked fst set_running set_ctl upd_task set_tasks bare_yield call_soon set_ready groups].
    now rewrite groups_scope_enter.
  - (* ASleep *) rewrite new_fut_eq. destruct d as [dt|].
    + rewrite call_at_eq. cbn [blocked fst set_running set_ctl upd_task set_tasks groups]. now rewrite groups_suspend_on.
    + cbn [blocked fst set_running set_ctl upd_task set_tasks groups]. now rewrite groups_suspend_on.
  - (* AHold *) now rewrite groups_ret.
  - (* ADrop *) now rewrite groups_ret.
  - (* AWrap *) now rewrite groups_ret.
  - (* AFinish: not a puppet_op *) reflexivity.
  - (* AUncancel *) now rewrite groups_ret.
  - (* AEffDeadline *) cbn [fst set_running groups]. now rewrite groups_park.
  - (* AFailAt *) rewrite new_scope_eq. pose proof (groups_scope_enter (ns s d sh) (nscope s) t) as H.
    destruct (scope_enter (ns s d sh) (nscope s) t) as [s2 e]. cbn [fst] in H. now rewrite groups_ret.
  - reflexivity.
  - reflexivity.
  - reflexivity.
  - reflexivity.
  - reflexivity.
Qed.

Definition aexit_ctl (c : ctl) : bool :=
  match c with CAexitWait _ _ _ | CAexitCk _ _ _ => true | _ => false end.

Lemma incs_ctl s0 t : k_ctl (tasks (incs s0 t) t) = k_ctl (tasks s0 t).
Proof. rewrite incs_task_same. reflexivity. Qed.

(* what an interrupted start() re-raises when it does not join the child: the exception the child handed to the
   start future, if any, takes precedence over the interruption (F20) *)
Definition start_exc (s : st) (f : fid) (e : exn) : exn :=
  match f_st (futs s f) with FExc e' => e' | _ => e end.

Lemma resume_unfold s0 t fo :
  resume s0 t fo =
  let s := incs s0 t in let inc := snd (incoming s0 t fo) in
  match k_ctl (tasks s0 t) with
  | CNew =>
      let s1 := upd_task s t (tk_started true) in
      match inc with
      | Some e => (finish_task s1 t (OExc e), RNone)
      | None =>
          let s2 := match k_group (tasks s1 t) with
                    | Some _ => fst (scope_enter s1 (k_hscope (tasks s1 t)) t)
                    | None => s1
                    end in
          (set_running (park s2 t) None, RNone)
      end
  | CIdle =>
      let s1 := match inc with Some e => upd_task s t (tk_held (Some e)) | None => s end in
      (set_running (park s1 t) None, res_of_inc inc)
  | CYield YCheckpoint => ret_to_puppet s t (res_of_inc inc)
  | CYield YCkIf =>
      match inc with
      | Some e => ret_to_puppet s t (RExc e)
      | None => if ckif_spins (nscope s) s (k_cur (tasks s t)) then blocked (bare_yield s t)
                else ret_to_puppet s t (RRet 0)
      end
  | CYield (YShield c) =>
      let '(s1, x) := scope_exit s c t inc in
      match x with
      | XRaise e => ret_to_puppet s1 t (RExc e)
      | XTrue => ret_to_puppet s1 t (RRet 0)
      | XFalse => ret_to_puppet s1 t (res_of_inc inc)
      end
  | CSleep f tm => ret_to_puppet (timer_cancel s tm) t (res_of_inc inc)
  | CAexitWait g ws exc =>
      let s1 := upd_group s g (gr_fut None) in
      match inc with
      | None => aexit_wait_or_finish s1 t g (Some ws) exc
      | Some e =>
          let s2 := upd_scope s1 ws (sc_shield true) in
          let s3 := scope_cancel s2 (g_scope (groups s2 g)) false in
          let exc' := match exc with
                      | None => Some e
                      | Some old => if is_cancel old && negb (is_anyio_cancel e) then Some e else Some old
                      end in
          aexit_wait_or_finish s3 t g (Some ws) exc'
      end
  | CAexitCk g c exc =>
      let '(s1, x) := scope_exit s c t inc in
      match x, inc with
      | XRaise e, _ => let '(s2, r) := aexit_raise s1 t g e in ret_to_puppet s2 t r
      | XTrue, _ => aexit_wait_or_finish s1 t g None exc
      | XFalse, Some e =>
          if is_cancel e then
            let s2 := scope_cancel s1 (g_scope (groups s1 g)) false in
            let exc' := match exc with
                        | None => Some e
                        | Some old => if is_cancel old && negb (is_anyio_cancel e) then Some e else Some old
                        end in
            aexit_wait_or_finish s2 t g None exc'
          else let '(s2, r) := aexit_raise s1 t g e in ret_to_puppet s2 t r
      | XFalse, None => aexit_wait_or_finish s1 t g None exc
      end
  | CStartWait g child f =>
      match inc with
      | None => ret_to_puppet s t (RRet (fut_value s f))
      | Some e =>
          if handle_pending s child then
            let s1 := scope_cancel s (k_hscope (tasks s child)) false in
            let '(s2, c) := new_scope s1 None true in
            let s3 := fst (scope_enter s2 c t) in
            let '(s4, wf) := event_wait s3 t (k_hevent (tasks s3 child)) in
            blocked (set_ctl s4 t (CStartJoin child c e wf))
          else ret_to_puppet s t (RExc (start_exc s f e))
      end
  | CStartJoin child c e wf =>
      let s1 := event_unwait s (k_hevent (tasks s child)) wf in
      let '(s2, x) := scope_exit s1 c t inc in
      match x, inc with
      | XRaise e', _ => ret_to_puppet s2 t (RExc e')
      | XTrue, _ => ret_to_puppet s2 t (RExc e)
      | XFalse, Some e2 => ret_to_puppet s2 t (RExc e2)
      | XFalse, None => ret_to_puppet s2 t (RExc e)
      end
  | CHandleWait h wf =>
      ret_to_puppet (event_unwait s (k_hevent (tasks s h)) wf) t (res_of_inc inc)
  | CDone => (s0, RRejected)
  end.
Proof.
  unfold resume. destruct (incoming s0 t fo) as [s inc] eqn:Ei.
  assert (Es : s = incs s0 t) by (rewrite <- (incoming_fst s0 t fo), Ei; reflexivity).
  cbn [snd]. subst s. cbn zeta. rewrite incs_ctl.
  destruct (k_ctl (tasks s0 t)) as [| |k|f tm|g ws exc|g c exc|g child f|child c e wf|h wf|]; try reflexivity.
  destruct inc as [e|]; [|reflexivity].
  destruct (handle_pending (incs s0 t) child); [reflexivity|].
  unfold start_exc. destruct (f_st (futs (incs s0 t) f)); reflexivity.
Qed.

Lemma groups_event_unwait s e fo : groups (event_unwait s e fo) = groups s.
Proof. destruct fo; reflexivity. Qed.

Lemma groups_resume s0 t fo : aexit_ctl (k_ctl (tasks s0 t)) = false -> groups (fst (resume s0 t fo)) = groups s0.
Proof.
  intros Ha. rewrite resume_unfold. cbn zeta.
  set (s := incs s0 t). set (inc := snd (incoming s0 t fo)). change (groups s0) with (groups s).
  destruct (k_ctl (tasks s0 t)) as [| |k|f tm|g ws exc|g c exc|g child f|child c e wf|h wf|]; try discriminate.
  - destruct inc as [e|]; cbn [fst].
    + now rewrite groups_finish_task.
    + cbn [set_running groups]. rewrite groups_park.
      destruct (k_group (tasks (upd_task s t (tk_started true)) t)); [|reflexivity]. now rewrite groups_scope_enter.
  - cbn [fst set_running groups]. rewrite groups_park. destruct inc; reflexivity.
  - destruct k as [| |c].
    + now rewrite groups_ret.
    + destruct inc; [now rewrite groups_ret|]. destruct (ckif_spins _ _ _); [reflexivity|now rewrite groups_ret].
    + pose proof (groups_scope_exit s c t inc) as H. destruct (scope_exit s c t inc) as [s1 x]. cbn [fst] in H.
      destruct x; now rewrite groups_ret.
  - now rewrite groups_ret.
  - destruct inc as [e|]; [|now rewrite groups_ret].
    destruct (handle_pending s child); [|now rewrite groups_ret].
    rewrite new_scope_eq. cbn zeta.
    match goal with |- context [event_wait ?a ?b ?c] => pose proof (groups_event_wait a b c) as H;
      destruct (event_wait a b c) as [s4 wf] end.
    cbn [fst] in H. cbn [blocked fst set_running set_ctl upd_task set_tasks groups].
    rewrite H, groups_scope_enter. change (groups (ns ?x None true)) with (groups x). now rewrite groups_scope_cancel.
  - match goal with |- context [scope_exit ?a ?b ?c ?d] => pose proof (groups_scope_exit a b c d) as H;
      destruct (scope_exit a b c d) as [s2 x] end.
    cbn [fst] in H. rewrite groups_event_unwait in H.
    destruct x; [|destruct inc|]; now rewrite groups_ret.
  - now rewrite groups_ret, groups_event_unwait.
  - reflexivity.
Qed.

Lemma groups_tick s dt : groups (tick s dt) = groups s.
Proof. reflexivity. Qed.

Lemma groups_new_root s : groups (fst (new_root s)) = groups s.
Proof. unfold new_root. cbn [fst set_running groups]. now rewrite groups_park. Qed.

Lemma pop_eq_frame s h : set_ready s (remove_first h (ready s)) = pop s h.
Proof. reflexivity. Qed.

(* every operation except the group operations, task_done callbacks and the resumption of a task inside
   __aexit__ leaves the group table alone *)
Definition touches_groups (s : st) (o : op) : bool :=
  match o with
  | ARun (HTaskDone _) => true
  | ARun (HStep t) | ARun (HWake t _) => aexit_ctl (k_ctl (tasks s t))
  | _ => group_op o
  end.

Theorem step_groups_frame s o : touches_groups s o = false -> groups (fst (step s o)) = groups s.
Proof.
  intros Ht. unfold step. destruct (actor o) as [t|] eqn:Ea.
  - destruct (idle s t); cbn [negb]; [|reflexivity].
    destruct o; try discriminate; try (apply groups_puppet_op; exact Ht).
    apply groups_puppet_finish.
  - destruct o; try discriminate; try reflexivity.
    + apply groups_new_root.
    + cbn [fst]. apply groups_task_cancel.
    + cbn [fst set_running groups]. now rewrite groups_scope_cancel.
    + unfold run_handle. destruct (existsb (handle_eqb h) (ready s)); cbn [negb]; [|reflexivity].
      rewrite pop_eq_frame. destruct h as [t|t f|c|t|f tm|c tm]; try discriminate.
      * apply (groups_resume (pop s (HStep t)) t None). exact Ht.
      * apply (groups_resume (pop s (HWake t f)) t (Some f)). exact Ht.
      * cbn [fst set_running groups]. now rewrite groups_deliver_top.
      * cbn [fst]. now rewrite fc_groups.
      * cbn [fst set_running groups]. now rewrite groups_scope_timeout.
    + destruct (Z.ltb dt 0); reflexivity.
Qed.

(* ---------------- how __aexit__ changes the group table ---------------- *)
Definition grel (s s' : st) (g : gid) : Prop :=
  (forall g', g' <> g -> groups s' g' = groups s g') /\
  g_ever (groups s' g) = g_ever (groups s g) /\ g_tasks (groups s' g) = g_tasks (groups s g) /\
  g_scope (groups s' g) = g_scope (groups s g) /\ g_excs (groups s' g) = g_excs (groups s g) /\
  g_entered (groups s' g) = g_entered (groups s g) /\
  (g_left (groups s' g) = g_left (groups s g) \/
   (g_left (groups s' g) = true /\ g_tasks (groups s g) = [])).

Lemma grel_eq s s' g : groups s' = groups s -> grel s s' g.
Proof. intros E. unfold grel. rewrite E. tauto. Qed.

Lemma grel_trans s1 s2 s3 g : grel s1 s2 g -> grel s2 s3 g -> grel s1 s3 g.
Proof.
  intros [A1 [A2 [A3 [A4 [A5 [A6 A7]]]]]] [B1 [B2 [B3 [B4 [B5 [B6 B7]]]]]].
  refine (conj _ (conj _ (conj _ (conj _ (conj _ (conj _ _)))))); try congruence.
  - intros g' Hg. rewrite (B1 g' Hg). auto.
  - destruct B7 as [B7|[B7 B8]].
    + destruct A7 as [A7|[A7 A8]]; [left; congruence|right; split; congruence].
    + right. split; [exact B7|congruence].
Qed.

Lemma grel_upd_fut s g x : grel s (upd_group s g (gr_fut x)) g.
Proof.
  unfold grel. cbn [upd_group set_groups groups]. rewrite upd_same. cbn.
  refine (conj _ (conj eq_refl (conj eq_refl (conj eq_refl (conj eq_refl (conj eq_refl (or_introl eq_refl))))))).
  intros g' Hg. now apply upd_other.
Qed.

Lemma grel_upd_left s g : g_tasks (groups s g) = [] -> grel s (upd_group s g (gr_left true)) g.
Proof.
  intros Ht. unfold grel. cbn [upd_group set_groups groups]. rewrite upd_same. cbn.
  refine (conj _ (conj eq_refl (conj eq_refl (conj eq_refl (conj eq_refl (conj eq_refl (or_intror (conj eq_refl Ht)))))))).
  intros g' Hg. now apply upd_other.
Qed.

Lemma aexit_raise_groups s t g e : groups (fst (aexit_raise s t g e)) = groups (upd_group s g (gr_left true)).
Proof.
  unfold aexit_raise. pose proof (groups_scope_exit s (g_scope (groups s g)) t (Some e)) as H.
  destruct (scope_exit s (g_scope (groups s g)) t (Some e)) as [s1 x]. cbn [fst] in H.
  destruct x; cbn [fst upd_task set_tasks upd_group set_groups groups]; now rewrite H.
Qed.

Lemma aexit_finish_groups s t g exc : groups (fst (aexit_finish s t g exc)) = groups (upd_group s g (gr_left true)).
Proof.
  unfold aexit_finish. destruct (map snd (g_excs (groups s g))); [|apply aexit_raise_groups].
  destruct exc; [apply aexit_raise_groups|].
  pose proof (groups_scope_exit s (g_scope (groups s g)) t None) as H.
  destruct (scope_exit s (g_scope (groups s g)) t None) as [s1 x]. cbn [fst] in H.
  destruct x; cbn [fst upd_group set_groups groups]; now rewrite H.
Qed.

Lemma grel_ret_pair s0 (p : st * res) t g : grel s0 (fst p) g ->
  grel s0 (fst (let '(s2, r) := p in ret_to_puppet s2 t r)) g.
Proof.
  destruct p as [s2 r]. cbn [fst]. intros H. eapply grel_trans; [exact H|]. apply grel_eq, groups_ret.
Qed.

Lemma grel_of_groups s s1 s' g : groups s1 = groups s -> grel s1 s' g -> grel s s' g.
Proof. intros E H. eapply grel_trans; [apply grel_eq; exact E|exact H]. Qed.

Lemma grel_to_groups s s1 s' g : grel s s1 g -> groups s' = groups s1 -> grel s s' g.
Proof. intros H E. eapply grel_trans; [exact H|apply grel_eq; exact E]. Qed.

Lemma wof_grel s t g ws exc : grel s (fst (aexit_wait_or_finish s t g ws exc)) g.
Proof.
  unfold aexit_wait_or_finish. destruct (g_tasks (groups s g)) as [|a l] eqn:Et.
  - destruct ws as [w|].
    + pose proof (groups_scope_exit s w t None) as H. destruct (scope_exit s w t None) as [s1 x]. cbn [fst] in H.
      assert (Et1 : g_tasks (groups s1 g) = []) by (now rewrite H).
      apply (grel_of_groups s s1); [exact H|].
      destruct x; apply grel_ret_pair;
        (eapply grel_to_groups; [apply grel_upd_left; exact Et1|]); first [apply aexit_finish_groups|apply aexit_raise_groups].
    + apply grel_ret_pair. eapply grel_to_groups; [apply grel_upd_left; exact Et|apply aexit_finish_groups].
  - assert (Hb : forall s0, groups s0 = groups s ->
      grel s (fst (let '(s1, f) := new_fut s0 in
                   let s2 := upd_group s1 g (gr_fut (Some f)) in
                   blocked (set_ctl (suspend_on s2 t f) t (CAexitWait g (match ws with Some w => w | None => nscope s end) exc)))) g).
    { intros s0 E0. rewrite new_fut_eq. cbn zeta.
      apply (grel_to_groups s (upd_group (nf s0) g (gr_fut (Some (nfut s0))))).
      - apply (grel_of_groups s (nf s0)); [exact E0|apply grel_upd_fut].
      - cbn [blocked fst set_running set_ctl upd_task set_tasks groups]. apply groups_suspend_on. }
    destruct ws as [w|].
    + apply Hb. reflexivity.
    + rewrite new_scope_eq. cbn [fst]. apply Hb. now rewrite groups_scope_enter.
Qed.

(* resumption of a task waiting in the __aexit__ loop *)
Lemma resume_aexit_wait_grel s0 t fo g ws exc : k_ctl (tasks s0 t) = CAexitWait g ws exc ->
  grel s0 (fst (resume s0 t fo)) g.
Proof.
  intros Hc. rewrite resume_unfold, Hc. cbn zeta.
  set (s := incs s0 t). apply (grel_of_groups s0 s); [reflexivity|].
  eapply grel_trans; [apply (grel_upd_fut s g None)|].
  destruct (snd (incoming s0 t fo)) as [e|]; [|apply wof_grel].
  match goal with |- grel _ (fst (aexit_wait_or_finish ?x _ _ _ _)) _ => set (s3 := x) end.
  apply (grel_of_groups _ s3); [|apply wof_grel].
  unfold s3. now rewrite groups_scope_cancel.
Qed.
