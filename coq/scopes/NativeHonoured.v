(* C05: a native cancellation request (Task.cancel() from outside AnyIO) is honoured: it is recorded on the task,
   stays recorded while the task does not run, and the task's next step receives a native CancelledError --
   unless the request arrived while the wait of the task had already been cancelled by a scope's delivery (or
   already carried a scope-tagged exception) and the task had not run yet: known finding F19
   (scopes/NativeAbsorbed.v), where asyncio keeps the CancelledError of the cancelled wait. *)
From Coq Require Import ZArith Lia.
From AV Require Import Base Machine ScopeFrames DeliverInv TreeInv DeliverAlive PotentialInv TreeStep KernelInv
  DeliverThms TimerInv TimerThms CycleThms DebtInv HdInv ActWalk ActThms ChainFrame ChainThms ChainReach ChainWindow
  ReceiptWalk ReceiptRun NativeAbsorbed.
From AV Require GroupInv GroupInv2 GroupInv3 GroupInv9.

(* the wait of t already carries a scope-tagged cancellation *)
Definition wait_cancelled_by_scope (s : st) (t : tid) : bool :=
  match k_waiter (tasks s t) with
  | Some f => match f_st (futs s f) with
              | FCanc (S _) => true
              | FExc (ECancel (S _)) => true
              | _ => false
              end
  | None => false
  end.

(* running ready handle h makes t receive a native CancelledError *)
Definition receives_native (s : st) (h : handle) (t : tid) : Prop :=
  In h (ready s) /\
  ((h = HStep t /\ snd (incoming (ChainWindow.pop s h) t None) = Some (ECancel 0)) \/
   (exists f, h = HWake t f /\ snd (incoming (ChainWindow.pop s h) t (Some f)) = Some (ECancel 0))).

(* ---------------- placed ---------------- *)
Theorem native_request_placed a t : k_done (tasks a t) = None -> NHeld (fst (step a (ANativeCancel t))) t.
Proof.
  intros Hd. cbn [step actor fst]. unfold task_cancel. rewrite Hd.
  set (m1 := upd_task a t (tk_ncancel (S (k_ncancel (tasks a t))))).
  assert (Ew : k_waiter (tasks m1 t) = k_waiter (tasks a t)) by (unfold m1; now rewrite upd_task_eq).
  assert (H2 : NHeld (upd_task m1 t (tk_must true 0)) t) by (left; rewrite upd_task_eq; now split).
  destruct (k_waiter (tasks a t)) as [g|] eqn:Ewu; [|exact H2]. destruct (fut_pending m1 g) eqn:Ep; [|exact H2].
  unfold fut_pending in Ep. destruct (f_st (futs m1 g)) eqn:Eg; try discriminate.
  right. exists g. rewrite fut_complete_tasks. split; [exact Ew|].
  unfold fut_complete. rewrite Eg. destruct (f_waiter (futs m1 g)); cbn; unfold upd; now rewrite Nat.eqb_refl.
Qed.

(* ---------------- still pending ---------------- *)
Theorem native_request_stays_pending a o t :
  reach_ok a -> op_ok a o = true -> ~ In t (aff a o) -> NHeld a t -> NHeld (fst (step a o)) t.
Proof.
  intros R Hok Hn Hh. apply (w_nh _ _ _ _ _ _ _ (W_step a o R (reach_run a R) Hok) (reach_k a R) t Hn Hh).
Qed.

(* t is not affected by any op of the list: it neither acts nor is resumed (nor created / retired) *)
Fixpoint unaffected (t : tid) (s : st) (ops : list op) : Prop :=
  match ops with
  | [] => True
  | o :: r => ~ In t (aff s o) /\ unaffected t (fst (step s o)) r
  end.

(* what such a run keeps: the request, the wait, and the state of a completed wait *)
Lemma unaffected_run t : forall ops a,
  reach_ok a -> ops_ok a ops = true -> unaffected t a ops -> t < ntask a -> NHeld a t ->
  let s := final step a ops in
  reach_ok s /\ NHeld s t /\ k_waiter (tasks s t) = k_waiter (tasks a t) /\
  (forall f, k_waiter (tasks a t) = Some f -> f_st (futs a f) <> FPend -> f_st (futs s f) = f_st (futs a f)).
Proof.
  induction ops as [|o r IH]; intros a R Hok Hu At Hn; [cbn; auto|].
  cbn [ops_ok] in Hok. apply andb_true_iff in Hok. destruct Hok as [H1 H2]. destruct Hu as [Hna Hu].
  pose proof (reach_ok_step a o R H1) as R1.
  pose proof (native_request_stays_pending a o t R H1 Hna Hn) as Hn1.
  destruct (frame_step t a o R H1 At Hna) as (Fk & _ & _ & Ff).
  assert (At1 : t < ntask (fst (step a o))).
  { pose proof (w_nt _ _ _ _ _ _ _ (W_step a o R (reach_run a R) H1)). lia. }
  destruct (IH (fst (step a o)) R1 H2 Hu At1 Hn1) as (Rs & Ns & Ws & Fs).
  change (final step a (o :: r)) with (final step (fst (step a o)) r). cbv zeta.
  refine (conj Rs (conj Ns (conj _ _))).
  - rewrite Ws. apply (tcore_waiter _ _ Fk).
  - intros f Hf Hd. rewrite Fs; [now apply Ff| |].
    + rewrite (tcore_waiter _ _ Fk). exact Hf.
    + rewrite (Ff f Hf Hd). exact Hd.
Qed.

(* ---------------- received ---------------- *)
Theorem native_request_received s h t :
  reach_ok s -> In h (ready s) -> (h = HStep t \/ exists f, h = HWake t f) -> NHeld s t ->
  receives_native s h t \/ (k_must (tasks s t) = true /\ wait_cancelled_by_scope s t = true).
Proof.
  intros R Hin Hh Hn. pose proof (reach_gk s R) as G.
  destruct Hh as [->|[f ->]].
  - left. split; [exact Hin|]. left. split; [reflexivity|].
    destruct (GroupInv2.k_step _ G t Hin) as (Hw & _).
    unfold incoming. cbn [snd]. change (tasks (ChainWindow.pop s (HStep t)) t) with (tasks s t).
    destruct Hn as [[A B]|[g [A _]]]; [|congruence]. now rewrite A, B.
  - destruct (GroupInv2.k_wake _ G t f Hin) as [Hw Hp].
    assert (E : snd (incoming (ChainWindow.pop s (HWake t f)) t (Some f)) =
                let base := match f_st (futs s f) with FExc e => Some e | FCanc o => Some (ECancel o) | _ => None end in
                if k_must (tasks s t) then match base with Some (ECancel o) => Some (ECancel o) | _ => Some (ECancel (k_msg (tasks s t))) end
                else base) by reflexivity.
    unfold wait_cancelled_by_scope. rewrite Hw.
    destruct Hn as [[A B]|[g [A C]]].
    + rewrite A, B in E. destruct (f_st (futs s f)) as [|v|e|o] eqn:Ef; cbv zeta in E.
      * now elim Hp.
      * left. split; [exact Hin|]. right. exists f. now split.
      * destruct e as [o| | | |l]; try (left; split; [exact Hin|]; right; exists f; now split).
        destruct o as [|org]; [left; split; [exact Hin|]; right; exists f; now split|]. right. now split.
      * destruct o as [|org]; [left; split; [exact Hin|]; right; exists f; now split|]. right. now split.
    + rewrite Hw in A. injection A as <-. rewrite C in E. cbv zeta in E. left. split; [exact Hin|]. right. exists f.
      split; [reflexivity|]. rewrite E. now destruct (k_must (tasks s t)).
Qed.

(* ---------------- honoured ---------------- *)
(* A native request made on an unfinished task whose wait is not already cancelled by a scope: while the task is
   not resumed the request stays recorded, and whichever handle resumes it delivers a native CancelledError *)
Theorem native_request_honoured a t ops :
  reach_ok a -> k_done (tasks a t) = None -> t < ntask a -> wait_cancelled_by_scope a t = false ->
  let a1 := fst (step a (ANativeCancel t)) in
  ops_ok a1 ops = true -> unaffected t a1 ops ->
  let s := final step a1 ops in
  NHeld s t /\
  forall h, In h (ready s) -> (h = HStep t \/ exists f, h = HWake t f) -> receives_native s h t.
Proof.
  intros R Hd At Hw a1 Hok Hu s.
  assert (R1 : reach_ok a1) by (apply reach_ok_step; [exact R|reflexivity]).
  pose proof (native_request_placed a t Hd) as Hn1. fold a1 in Hn1.
  assert (At1 : t < ntask a1) by (unfold a1; cbn [step actor fst]; now rewrite (kf_ntask _ _ (kframe_task_cancel a t 0))).
  destruct (unaffected_run t ops a1 R1 Hok Hu At1 Hn1) as (Rs & Ns & Ws & Fs). fold s in Rs, Ns, Ws, Fs.
  split; [exact Ns|]. intros h Hin Hh.
  destruct (native_request_received s h t Rs Hin Hh Ns) as [H|[_ Hc]]; [exact H|exfalso].
  (* the wait at receipt is the wait at request time, and its future was not scope-cancelled then *)
  pose proof (kframe_task_cancel a t 0) as Kf.
  assert (Ew1 : k_waiter (tasks a1 t) = k_waiter (tasks a t)) by apply (tcore_waiter _ _ (kf_tasks _ _ Kf t)).
  unfold wait_cancelled_by_scope in Hc, Hw. rewrite Ws, Ew1 in Hc.
  destruct (k_waiter (tasks a t)) as [f|] eqn:Ewa; [|discriminate].
  assert (Ea1 : a1 = task_cancel a t 0) by reflexivity.
  assert (Hf1 : f_st (futs a1 f) <> FPend /\ (f_st (futs a1 f) = f_st (futs a f) \/ f_st (futs a1 f) = FCanc 0)).
  { rewrite Ea1. destruct (f_st (futs a f)) eqn:Ef.
    - assert (E1 : f_st (futs (task_cancel a t 0) f) = FCanc 0).
      { rewrite (task_cancel_pending a t 0 f Hd Ewa Ef). cbv zeta.
        destruct (f_waiter (futs a f)); cbn; unfold upd; now rewrite Nat.eqb_refl. }
      rewrite E1. split; [discriminate|now right].
    - assert (E1 : f_st (futs (task_cancel a t 0) f) = FRes v) by (rewrite (kf_fdone _ _ Kf f); rewrite Ef; [reflexivity|discriminate]).
      rewrite E1. split; [discriminate|now left].
    - assert (E1 : f_st (futs (task_cancel a t 0) f) = FExc e) by (rewrite (kf_fdone _ _ Kf f); rewrite Ef; [reflexivity|discriminate]).
      rewrite E1. split; [discriminate|now left].
    - assert (E1 : f_st (futs (task_cancel a t 0) f) = FCanc o) by (rewrite (kf_fdone _ _ Kf f); rewrite Ef; [reflexivity|discriminate]).
      rewrite E1. split; [discriminate|now left]. }
  destruct Hf1 as [Hp1 Hv1]. rewrite (Fs f) in Hc; [|now rewrite Ew1|exact Hp1].
  destruct Hv1 as [E|E]; rewrite E in Hc; [|discriminate]. rewrite Hc in Hw. discriminate.
Qed.

(* ---------------- non-vacuity and the need for the hypothesis ---------------- *)
(* a root task sleeps; Task.cancel() from outside; its wake-up raises the native CancelledError *)
Definition nat_pre : list op := [ANewRoot; ASleep 1 None].

Example native_request_honoured_premises :
  let a := final step init nat_pre in
  ops_ok init nat_pre = true /\ k_done (tasks a 1) = None /\ 1 < ntask a /\ wait_cancelled_by_scope a 1 = false /\
  let s := fst (step a (ANativeCancel 1)) in
  In (HWake 1 2) (ready s) /\ snd (step s (ARun (HWake 1 2))) = RExc (ECancel 0).
Proof. vm_compute. repeat split; auto. Qed.

Lemma final_nil (s : st) : final step s [] = s.
Proof. reflexivity. Qed.

Example native_request_honoured_instance :
  let a := final step init nat_pre in
  let s := fst (step a (ANativeCancel 1)) in
  NHeld s 1 /\ receives_native s (HWake 1 2) 1.
Proof.
  cbv zeta.
  assert (Hok : ops_ok init nat_pre = true) by (vm_compute; reflexivity).
  assert (R : reach_ok (final step init nat_pre)) by (exists nat_pre; split; [exact Hok|reflexivity]).
  pose proof native_request_honoured_premises as P. 
  cbv zeta in P. 
  destruct P as (_ & Hd & At & Hw & Hin & _).
  pose proof (native_request_honoured (final step init nat_pre) 1 [] R Hd At Hw eq_refl I) as HH.
  cbv zeta in HH. rewrite !final_nil in HH.
  destruct HH as [Hn Hr].
  split; [exact Hn|]. 
  apply Hr; [exact Hin|]. 
  right. now exists 2.
Qed.

(* F19: the same request made after the scope's delivery has cancelled the wait (hypothesis false) is absorbed:
   the wake-up raises the scope's cancellation, never a native one *)
Example native_request_hypothesis_needed :
  let a := final step init (firstn 6 f19_ops) in
  nth 6 f19_ops ANewRoot = ANativeCancel 1 /\ ops_ok init f19_ops = true /\
  k_done (tasks a 1) = None /\ wait_cancelled_by_scope a 1 = true /\
  existsb is_native_result (results init f19_ops) = false.
Proof. vm_compute. repeat split; reflexivity. Qed.
