(* C05: entry-relative restoration of Task.cancelling().
   A scope owes something only below a cancelled scope (DebtInv.DBH), every scope hosted by a task lies on the
   parent chain of its current scope (Tree), hence a task whose current scope has no cancelled scope on its
   parent chain (shields ignored: "clean") owes nothing, and its counter is what the potential says. *)
From Coq Require Import ZArith Lia.
From AV Require Import Base Machine ScopeFrames DeliverInv TreeInv DeliverAlive PotentialInv TreeStep KernelInv
  PotentialThms DebtInv HdInv.

Lemma dbh_final ops : forall s, reach_ok s -> DBH s -> ops_ok s ops = true -> DBH (final step s ops).
Proof.
  induction ops as [|o r IH]; intros s R D H1; cbn in *; [exact D|].
  apply andb_true_iff in H1. destruct H1 as [Ho H1].
  apply IH; [now apply reach_ok_step| |exact H1].
  apply DB_step; [now apply reach_tree| |exact D]. intros c. now apply deliver_handle_cancelled.
Qed.

Lemma reach_ok_init : reach_ok init.
Proof. exists []. now split. Qed.

(* in every reachable state: debts sit only on hosted scopes, and only below a cancelled scope *)
Theorem reach_dbh s : reach_ok s -> DBH s.
Proof. intros [ops [H ->]]. apply dbh_final; [apply reach_ok_init|apply DBH_init|exact H]. Qed.

(* ---------------- the scopes a task hosts are its current scope and scopes above it ---------------- *)
Lemma stack_anc s t : forall k l, stack s t k l -> forall c, In c l -> exists x, k = Some x /\ anc s c x.
Proof.
  intros k l H. induction H as [|x l Hh Ha H IH]; intros c Hin; [destruct Hin|].
  exists x. split; [reflexivity|]. destruct Hin as [->|Hin]; [apply anc_here|].
  destruct (IH c Hin) as [p [Ep A]]. eapply anc_up; eauto.
Qed.

Lemma hosted_above s t c :
  Tree s -> alloc_t s t -> s_host (scopes s c) = Some t ->
  exists x, k_cur (tasks s t) = Some x /\ anc s c x.
Proof.
  intros T A Hh.
  assert (Ac : s_active (scopes s c) = true).
  { destruct (s_active (scopes s c)) eqn:E; [reflexivity|]. rewrite (tr_host_inact _ T c E) in Hh. discriminate. }
  destruct (k_tdran (tasks s t)) eqn:Etd.
  - exfalso. now apply (proj2 (tr_tdran _ T t Etd) c).
  - destruct (tr_stack _ T t A Etd) as [l [S In]]. now apply (stack_anc s t _ l S c (In c Ac Hh)).
Qed.

(* no scope on the parent chain of the task's current scope is cancelled (shields do not matter) *)
Definition clean (s : st) (t : tid) : Prop :=
  forall x y, k_cur (tasks s t) = Some x -> anc s y x -> s_cancelled (scopes s y) = false.

Lemma sumf_zero f l : (forall x, In x l -> f x = 0) -> sumf f l = 0.
Proof. induction l as [|x l IH]; intros H; cbn; [reflexivity|]. rewrite (H x (or_introl eq_refl)), IH; auto. intros y Hy. apply H. now right. Qed.

Theorem no_debt_outside_cancelled s t :
  Tree s -> DBH s -> alloc_t s t -> clean s t -> pending_of s t = 0.
Proof.
  intros T D A C. unfold pending_of. apply sumf_zero. intros c _. unfold owed.
  destruct (opt_eqb (s_host (scopes s c)) t) eqn:Eh; [|reflexivity]. apply opt_eqb_true in Eh.
  destruct (s_pending (scopes s c)) as [|n] eqn:Ep; [reflexivity|exfalso].
  destruct (hosted_above s t c T A Eh) as [x [Ec Ax]].
  destruct (db_w _ D c) as [y [Ay Cy]]; [lia|].
  rewrite (C x y Ec (anc_trans s y c x Ay Ax)) in Cy. discriminate.
Qed.

(* ---------------- the counter, relative to an earlier state ---------------- *)
(* for every task the potential can only grow beyond the outside influences (deliveries from scopes hosted by
   other tasks are never compensated) *)
Theorem cancelling_lower ops : forall s t,
  reach_ok2 s -> ops_ok2 s ops = true -> alloc_t s t ->
  (phi s t + ext_count s ops t <= phi (final step s ops) t)%Z.
Proof.
  induction ops as [|o r IH]; intros s t R H A; cbn [final fold_left ext_count]; [lia|].
  cbn [ops_ok2] in H. apply andb_true_iff in H. destruct H as [H1 H2]. apply andb_true_iff in H1. destruct H1 as [Ho Hu].
  pose proof (own_cancels_compensated s o t R Ho Hu A) as St. cbv zeta in St.
  destruct (step_ids s o (reach_ok2_sinv s R) Ho t A) as [A' G'].
  change (fold_left (fun s0 o0 => fst (step s0 o0)) r (fst (step s o))) with (final step (fst (step s o)) r).
  pose proof (IH (fst (step s o)) t (reach_ok2_step s o R Ho Hu) H2 A') as L.
  assert (E : (phi s t + ext_delta s o t <= phi (fst (step s o)) t)%Z).
  { destruct o; cbn [ext_delta]; try (destruct St as [St _]; lia).
    - rewrite St. destruct (Nat.eqb t t0 && idle s t0); lia.
    - rewrite St. destruct (Nat.eqb t t0); [destruct (k_done (tasks s t0))|]; lia. }
  lia.
Qed.

Lemma reach_ok2_final ops : forall s, reach_ok2 s -> ops_ok2 s ops = true -> reach_ok2 (final step s ops).
Proof.
  induction ops as [|o r IH]; intros s R H; cbn in *; [exact R|].
  apply andb_true_iff in H. destruct H as [Ha H]. apply andb_true_iff in Ha. destruct Ha as [Ho Hu].
  apply IH; [now apply reach_ok2_step|exact H].
Qed.

Lemma alloc_final ops : forall s t, reach_ok2 s -> ops_ok2 s ops = true -> alloc_t s t -> alloc_t (final step s ops) t.
Proof.
  induction ops as [|o r IH]; intros s t R H A; cbn in *; [exact A|].
  apply andb_true_iff in H. destruct H as [Ha H]. apply andb_true_iff in Ha. destruct Ha as [Ho Hu].
  apply IH; [now apply reach_ok2_step|exact H|]. apply (step_ids s o (reach_ok2_sinv s R) Ho t A).
Qed.

Lemma clean_no_debt s t : reach_ok2 s -> alloc_t s t -> clean s t -> pending_of s t = 0.
Proof.
  intros R A C. pose proof (reach_ok2_reach_ok s R) as R1.
  apply no_debt_outside_cancelled; auto; [now apply reach_tree|now apply reach_dbh].
Qed.

(* root tasks: between two states in which no scope around the task is cancelled, cancelling() moves exactly by
   the native cancels and explicit uncancels in between: every delivery the task received from its own scopes
   has been compensated *)
Theorem cancelling_back_at_entry ops s t :
  reach_ok2 s -> ops_ok2 s ops = true -> alloc_t s t -> k_group (tasks s t) = None ->
  clean s t -> clean (final step s ops) t ->
  Z.of_nat (k_ncancel (tasks (final step s ops) t)) = (Z.of_nat (k_ncancel (tasks s t)) + ext_count s ops t)%Z.
Proof.
  intros R H A G C0 C1.
  apply cancelling_restored_counter; auto; [now apply clean_no_debt|].
  apply clean_no_debt; [now apply reach_ok2_final|now apply alloc_final|exact C1].
Qed.

(* any task (group children included): at least that much; the surplus are the deliveries that came from scopes
   hosted by other tasks (the group scope and what lies above it), which nobody compensates *)
Theorem cancelling_back_at_entry_lower ops s t :
  reach_ok2 s -> ops_ok2 s ops = true -> alloc_t s t ->
  clean s t -> clean (final step s ops) t ->
  (Z.of_nat (k_ncancel (tasks s t)) + ext_count s ops t <= Z.of_nat (k_ncancel (tasks (final step s ops) t)))%Z.
Proof.
  intros R H A C0 C1.
  pose proof (cancelling_lower ops s t R H A) as L. unfold phi in L.
  rewrite (clean_no_debt s t R A C0) in L.
  rewrite (clean_no_debt (final step s ops) t) in L; [lia|now apply reach_ok2_final|now apply alloc_final|exact C1].
Qed.

(* ================= decided: audit 3.2 (hand-over, then a shield) =================
   Root task 1 in scopes 1 > 2 > 3.  Scopes 1 and 3 are cancelled while the task runs; it sleeps; the delivery of
   scope 3 cancels the sleep (cancelling() = 1, debt on scope 3); leaving scope 3 hands the debt to scope 2,
   because scope 2's parent chain shows the cancelled scope 1; then the task raises the shield of scope 2.
   Now its current scope is NOT effectively cancelled, yet cancelling() is 1 (0 when it entered scope 3) and the
   debt sits on the shielded scope 2.  "count restored once no enclosing scope is effectively cancelled" is
   therefore refuted; "once no enclosing scope is cancelled at all" holds (cancelling_back_at_entry): after
   leaving scopes 2 and 1 the count is 0 again. *)
Definition handover_pre : list op :=
  [ANewRoot; ANewScope 1 None false; AEnter 1 1; ANewScope 1 None false; AEnter 1 2; ANewScope 1 None false].
Definition handover_mid : list op :=
  [AEnter 1 3; ACancel 1 1; ACancel 1 3; ASleep 1 None; ARun (HDeliver 1); ARun (HDeliver 3); ARun (HWake 1 10);
   AExit 1 3 false; ASetShield 1 2 true].
Definition handover_post : list op := [AExit 1 2 false; AExit 1 1 false].

Lemma count_elevated_behind_shield_witness :
  let s0 := final step init handover_pre in
  let s1 := final step s0 handover_mid in
  let s2 := final step s1 handover_post in
  ops_ok2 init (handover_pre ++ handover_mid ++ handover_post) = true /\
  k_ncancel (tasks s0 1) = 0 /\ k_cur (tasks s0 1) = Some 2 /\
  k_ncancel (tasks s1 1) = 1 /\ k_cur (tasks s1 1) = Some 2 /\ idle s1 1 = true /\
  eff_cancelled_from (nscope s1) s1 (k_cur (tasks s1 1)) = false /\
  s_pending (scopes s1 2) = 1 /\ s_shield (scopes s1 2) = true /\ s_cancelled (scopes s1 2) = false /\
  ext_count s0 handover_mid 1 = 0%Z /\
  k_ncancel (tasks s2 1) = 0 /\ k_cur (tasks s2 1) = None.
Proof. vm_compute. repeat split; reflexivity. Qed.

(* ================= group children: deliveries from the group scope are not compensated =================
   Child 2 of group 1 enters its own scope 3 (cancelling() = 0), sleeps; the host cancels the group scope; the
   delivery cancels the child's sleep with the group scope as origin: cancelling() = 1 and no scope of the child
   owes anything.  After leaving scope 3 the count is still 1; it stays 1 if the child then shields its own
   handle scope, although it is then not effectively cancelled. *)
Definition child_pre : list op :=
  [ANewRoot; AGroupNew 1; AGroupEnter 1 1; ASpawn 1 1; ARun (HStep 2); ANewScope 2 None false].
Definition child_mid : list op :=
  [AEnter 2 3; ASleep 2 None; ACancel 1 1; ARun (HWake 2 8); AExit 2 3 false; ASetShield 2 2 true].

Lemma child_foreign_delivery_witness :
  let s0 := final step init child_pre in
  let s1 := final step s0 child_mid in
  ops_ok2 init (child_pre ++ child_mid) = true /\
  k_group (tasks s0 2) = Some 1 /\ k_ncancel (tasks s0 2) = 0 /\ k_cur (tasks s0 2) = Some 2 /\
  k_ncancel (tasks s1 2) = 1 /\ k_cur (tasks s1 2) = Some 2 /\ pending_of s1 2 = 0 /\ idle s1 2 = true /\
  eff_cancelled_from (nscope s1) s1 (k_cur (tasks s1 2)) = false /\
  s_host (scopes s1 1) = Some 1 /\ s_cancelled (scopes s1 1) = true /\
  ext_count s0 child_mid 2 = 0%Z.
Proof. vm_compute. repeat split; reflexivity. Qed.

(* non-vacuity of cancelling_back_at_entry: the hand-over run from before scope 3 is entered to after scope 1
   has been left: clean at both ends (no scope around at all at the end), the count is back *)
Lemma back_at_entry_premises :
  let s0 := final step init [ANewRoot] in
  let ops := tl handover_pre ++ handover_mid ++ handover_post in
  ops_ok2 init (ANewRoot :: ops) = true /\
  k_cur (tasks s0 1) = None /\ k_cur (tasks (final step s0 ops) 1) = None /\
  k_group (tasks s0 1) = None /\ ext_count s0 ops 1 = 0%Z /\
  k_ncancel (tasks (final step s0 ops) 1) = k_ncancel (tasks s0 1).
Proof. vm_compute. repeat split; reflexivity. Qed.

(* clean is the shield-blind strengthening of "not effectively cancelled" *)
Lemma clean_not_effectively_cancelled s t fuel :
  clean s t -> eff_cancelled_from fuel s (k_cur (tasks s t)) = false.
Proof.
  intros C. destruct (k_cur (tasks s t)) as [x|] eqn:Ec; [|destruct fuel; reflexivity].
  destruct (eff_cancelled_from fuel s (Some x)) eqn:E; [|reflexivity].
  destruct (eff_anc s fuel x E) as [z [A Cz]]. rewrite (C x z Ec A) in Cz. discriminate.
Qed.

(* the same statement for one scope: from before `with scope:` to after it *)
Corollary cancelling_back_at_entry_scope s t c mid fa :
  reach_ok2 s -> alloc_t s t -> k_group (tasks s t) = None ->
  let ops := AEnter t c :: mid ++ [AExit t c fa] in
  ops_ok2 s ops = true -> clean s t -> clean (final step s ops) t ->
  Z.of_nat (k_ncancel (tasks (final step s ops) t)) = (Z.of_nat (k_ncancel (tasks s t)) + ext_count s ops t)%Z.
Proof. intros R A G ops H C0 C1. now apply cancelling_back_at_entry. Qed.

Lemma debts_only_under_cancelled s :
  reach_ok s ->
  (forall x, s_host (scopes s x) = None -> s_pending (scopes s x) = 0) /\
  (forall x, 0 < s_pending (scopes s x) -> exists y, anc s y x /\ s_cancelled (scopes s y) = true).
Proof. intros R. exact (conj (db_un s (reach_dbh s R)) (db_w s (reach_dbh s R))). Qed.
