(* Tie T, the equalities:
   (i)  every function generated from the Python source (ChainGen.v) equals its specification (ChainSpec.v) on ALL
        chains -- a change of a Python walk that changes its meaning breaks one of these proofs;
   (ii) the S machine's own fixpoints equal the same specifications through `chain_of`, so every theorem about the
        machine's predicates is a theorem about the generated code. *)
From AV Require Import Base Machine ChainSpec ChainGen.
From AV Require CheckpointFacts.

(* case analysis on the flags of the head scope; insensitive to the order in which the source tests them *)
Ltac flags a :=
  unfold gen_visible_parent_stops, stops;
  destruct (r_cancelled a) eqn:?, (r_shield a) eqn:?, (r_chandle a) eqn:?, (r_hosted a) eqn:?; cbn [negb andb orb]; auto.

(* ---------------- (i) generated = spec ---------------- *)
(* the property added by the F42 fix: `_visible_parent_scope is None` iff shielded or exited *)
Theorem visible_parent_gen_eq x : gen_visible_parent_stops x = stops x.
Proof. flags x. Qed.

Theorem eff_cancelled_gen_eq l : gen_effectively_cancelled l = eff_cancelled_spec l.
Proof.
  unfold gen_effectively_cancelled.
  induction l as [|a l IH]; cbn [gen_effectively_cancelled_from eff_cancelled_spec]; [reflexivity|].
  rewrite IH. flags a.
Qed.

Theorem parent_visible_gen_eq l : gen_parent_visible l = parent_visible_spec l.
Proof.
  destruct l as [|a [|b l]]; unfold gen_parent_visible, parent_visible_spec; cbn [is_nil negb andb].
  - reflexivity.
  - rewrite ?eff_cancelled_gen_eq. cbn [eff_cancelled_spec]. flags a.
  - rewrite ?eff_cancelled_gen_eq. flags a.
Qed.

Theorem ckif_spins_gen_eq l : gen_ckif_spins l = ckif_spins_spec l.
Proof.
  unfold gen_ckif_spins, ckif_spins_spec.
  induction l as [|a l IH]; cbn [gen_ckif_spins_from eff_cancelled_spec]; [reflexivity|].
  rewrite IH. flags a.
Qed.

Theorem check_cancelled_gen_eq l : gen_check_cancelled_raises l = check_cancelled_raises_spec l.
Proof.
  unfold gen_check_cancelled_raises, check_cancelled_raises_spec.
  induction l as [|a l IH]; cbn [gen_check_cancelled_raises_from sh_cancelled_spec]; [reflexivity|].
  rewrite IH. flags a.
Qed.

Lemma eff_deadline_gen_from_eq l : forall acc, gen_eff_deadline_from l acc = eff_deadline_acc l acc.
Proof.
  induction l as [|a l IH]; intros acc; unfold eff_deadline_acc;
    cbn [gen_eff_deadline_from eff_cancelled_spec visible]; [reflexivity|].
  rewrite IH. unfold eff_deadline_acc, gen_visible_parent_stops, stops.
  destruct (r_cancelled a) eqn:Ec, (r_shield a) eqn:Es, (r_hosted a) eqn:Eh;
    cbn [negb andb orb min_deadline fold_left]; auto.
Qed.

Theorem effective_deadline_gen_eq l : gen_eff_deadline l = eff_deadline_spec l.
Proof. apply eff_deadline_gen_from_eq. Qed.

Lemma restart_target_gen_from_eq l : forall i,
  gen_restart_target_from i l = match restart_target_spec l with Some j => Some (i + j) | None => None end.
Proof.
  unfold restart_target_spec.
  induction l as [|a l IH]; intros i; cbn [gen_restart_target_from first_cancelled]; [reflexivity|].
  rewrite IH.
  destruct (r_cancelled a) eqn:Ec, (r_shield a) eqn:Es, (r_chandle a) eqn:Eh; cbn [negb]; rewrite ?Eh;
    try reflexivity; try (f_equal; lia).
  all: destruct (first_cancelled l) as [[j x]|]; try reflexivity.
  all: destruct (r_chandle x); try reflexivity; f_equal; lia.
Qed.

Theorem restart_target_gen_eq l : gen_restart_target l = restart_target_spec l.
Proof.
  unfold gen_restart_target. rewrite restart_target_gen_from_eq.
  destruct (restart_target_spec l); reflexivity.
Qed.

Theorem is_anyio_cancellation_gen_eq l : gen_is_anyio_cancellation l = is_anyio_cancellation_spec l.
Proof.
  unfold gen_is_anyio_cancellation.
  induction l as [|a l IH]; cbn [gen_is_anyio_cancellation_from is_anyio_cancellation_spec]; [reflexivity|].
  rewrite IH. destruct (x_has_scope_tag a), (next_is_cancelled_error l); reflexivity.
Qed.

(* ---------------- (ii) machine = spec through chain_of ---------------- *)
(* The machine's walks stop at shields only (Machine.v is the model of the generated domain, in which every scope a
   walk visits is still entered); they equal the specs on chains whose scopes are all hosted.  ChainReach.v shows
   that this is the case for every walk from an active scope in every reachable state of the domain. *)
Lemma rec_of_stops c : r_hosted (rec_of c) = true -> stops (rec_of c) = s_shield c.
Proof. intros H. now rewrite (stops_hosted _ H). Qed.

Theorem machine_eff_cancelled_from_eq fuel s : forall x,
  all_hosted (chain_of fuel s x) -> eff_cancelled_from fuel s x = eff_cancelled_spec (chain_of fuel s x).
Proof.
  induction fuel as [|fu IH]; intros x H; [destruct x; reflexivity|].
  destruct x as [c|]; cbn [eff_cancelled_from chain_of eff_cancelled_spec] in *; [|reflexivity].
  inversion H as [|? ? Hc Hr]; subst. rewrite (IH _ Hr), (rec_of_stops _ Hc). unfold rec_of; cbn [r_cancelled].
  destruct (s_cancelled (scopes s c)), (s_shield (scopes s c)); reflexivity.
Qed.

(* unconditionally, the machine's walk is the shield-only walk (the code's walk before the F42 fix) *)
Theorem machine_eff_cancelled_from_sh fuel s : forall x,
  eff_cancelled_from fuel s x = sh_cancelled_spec (chain_of fuel s x).
Proof.
  induction fuel as [|fu IH]; intros x; [destruct x; reflexivity|].
  destruct x as [c|]; cbn [eff_cancelled_from chain_of sh_cancelled_spec]; [|reflexivity].
  rewrite IH. unfold rec_of; cbn [r_cancelled r_shield].
  destruct (s_cancelled (scopes s c)), (s_shield (scopes s c)); reflexivity.
Qed.

Corollary machine_eff_cancelled_eq s c :
  all_hosted (chain_of (nscope s) s (Some c)) ->
  eff_cancelled s c = gen_effectively_cancelled (chain_of (nscope s) s (Some c)).
Proof. intros H. unfold eff_cancelled. now rewrite machine_eff_cancelled_from_eq, eff_cancelled_gen_eq. Qed.

Theorem machine_ckif_spins_eq fuel s : forall x,
  all_hosted (chain_of fuel s x) -> ckif_spins fuel s x = ckif_spins_spec (chain_of fuel s x).
Proof.
  unfold ckif_spins_spec.
  induction fuel as [|fu IH]; intros x H; [destruct x; reflexivity|].
  destruct x as [c|]; cbn [ckif_spins chain_of eff_cancelled_spec] in *; [|reflexivity].
  inversion H as [|? ? Hc Hr]; subst. rewrite (IH _ Hr), (rec_of_stops _ Hc). unfold rec_of; cbn [r_cancelled].
  destruct (s_cancelled (scopes s c)), (s_shield (scopes s c)); reflexivity.
Qed.

Theorem machine_parent_visible_eq s c :
  all_hosted (chain_of (S (nscope s)) s (Some c)) ->
  parent_visible s c = parent_visible_spec (chain_of (S (nscope s)) s (Some c)).
Proof.
  intros H. unfold parent_visible, eff_cancelled. cbn [chain_of] in *. inversion H as [|? ? Hc Hr]; subst.
  destruct (s_parent (scopes s c)) as [p|] eqn:Ep.
  - rewrite (machine_eff_cancelled_from_eq _ _ _ Hr).
    destruct (nscope s) as [|n]; cbn [chain_of parent_visible_spec eff_cancelled_spec].
    + now rewrite andb_false_r.
    + unfold rec_of at 1; cbn [r_shield]. reflexivity.
  - destruct (nscope s); reflexivity.
Qed.

Lemma machine_eff_deadline_from_eq fuel s : forall x acc,
  all_hosted (chain_of fuel s x) ->
  eff_deadline_from fuel s x acc = eff_deadline_acc (chain_of fuel s x) acc \/
  (acc = XNegInf /\ eff_deadline_from fuel s x acc = XNegInf).
Proof.
  induction fuel as [|fu IH]; intros x acc H; [left; destruct x; reflexivity|].
  destruct x as [c|]; [|left; reflexivity].
  cbn [eff_deadline_from chain_of] in *. inversion H as [|? ? Hc Hr]; subst. unfold eff_deadline_acc.
  cbn [eff_cancelled_spec visible]. rewrite (rec_of_stops _ Hc). unfold rec_of at 1 2; cbn [r_cancelled r_deadline].
  destruct (s_cancelled (scopes s c)) eqn:Ec; cbn [orb]; [now left|].
  destruct (s_shield (scopes s c)) eqn:Es; cbn [negb andb min_deadline fold_left]; [now left|].
  destruct (IH (s_parent (scopes s c)) (xmin acc (s_deadline (scopes s c))) Hr) as [H0|[H1 H2]].
  - left. rewrite H0. unfold eff_deadline_acc. unfold rec_of at 1; cbn [r_deadline]. reflexivity.
  - left. rewrite H2. unfold rec_of at 1; cbn [r_deadline]. rewrite H1.
    destruct (eff_cancelled_spec _); [reflexivity|]. now rewrite min_deadline_neginf.
Qed.

Theorem machine_eff_deadline_eq fuel s x :
  all_hosted (chain_of fuel s x) -> eff_deadline_from fuel s x XInf = eff_deadline_spec (chain_of fuel s x).
Proof.
  intros H. destruct (machine_eff_deadline_from_eq fuel s x XInf H) as [H0|[H0 _]]; [exact H0|discriminate].
Qed.

(* the target of _restart_cancellation as a function of the machine state *)
Definition restart_target (fuel : nat) (s : st) (x : option sid) : option sid :=
  match restart_target_spec (chain_of fuel s x) with
  | Some i => nth_error (sids_of fuel s x) i
  | None => None
  end.

Theorem machine_restart_from_eq fuel s : forall x,
  restart_from fuel s x = match restart_target fuel s x with Some c => deliver_top s c | None => s end.
Proof.
  unfold restart_target, restart_target_spec.
  induction fuel as [|fu IH]; intros x; [destruct x; reflexivity|].
  destruct x as [c|]; cbn [restart_from chain_of sids_of first_cancelled]; [|reflexivity].
  unfold rec_of at 1 2 3; cbn [r_cancelled r_shield].
  destruct (s_cancelled (scopes s c)) eqn:Ec.
  - unfold rec_of; cbn [r_chandle]. destruct (s_chandle (scopes s c)); reflexivity.
  - destruct (s_shield (scopes s c)) eqn:Es; [reflexivity|].
    rewrite IH. destruct (first_cancelled (chain_of fu s (s_parent (scopes s c)))) as [[j r]|]; [|reflexivity].
    destruct (r_chandle r); reflexivity.
Qed.

(* what the target is: the nearest cancelled scope above x reachable through open scopes, if its delivery
   callback is not already scheduled *)
Theorem machine_restart_target_char fuel s x c :
  restart_target fuel s x = Some c ->
  s_cancelled (scopes s c) = true /\ s_chandle (scopes s c) = false /\
  exists i, nth_error (sids_of fuel s x) i = Some c /\
            forall j y, j < i -> nth_error (sids_of fuel s x) j = Some y ->
                        s_cancelled (scopes s y) = false /\ s_shield (scopes s y) = false.
Proof.
  unfold restart_target. destruct (restart_target_spec (chain_of fuel s x)) as [i|] eqn:E; [|discriminate].
  intros Hn. apply restart_target_spec_iff in E. destruct E as (pre & r & post & E & Hl & Hp & Hc & Hh).
  pose proof (chain_of_nth fuel s x i c Hn) as Hr.
  assert (Er : rec_of (scopes s c) = r).
  { rewrite E in Hr. subst i. rewrite nth_error_app2 in Hr by lia. rewrite Nat.sub_diag in Hr. cbn in Hr.
    now injection Hr as <-. }
  subst r. unfold rec_of in Hc, Hh; cbn in Hc, Hh.
  refine (conj Hc (conj Hh _)). exists i. split; [exact Hn|].
  intros j y Hj Hy. pose proof (chain_of_nth fuel s x j y Hy) as Hry.
  rewrite E, nth_error_app1 in Hry by lia.
  apply nth_error_In in Hry. rewrite Forall_forall in Hp. destruct (Hp _ Hry) as [H1 H2].
  unfold rec_of in H1, H2; cbn in H1, H2. auto.
Qed.

(* transfer: machine predicates evaluated by the GENERATED code *)
Corollary machine_parent_visible_gen s c :
  all_hosted (chain_of (S (nscope s)) s (Some c)) ->
  parent_visible s c = gen_parent_visible (chain_of (S (nscope s)) s (Some c)).
Proof. intros H. now rewrite machine_parent_visible_eq, parent_visible_gen_eq. Qed.

Corollary machine_ckif_spins_gen fuel s x :
  all_hosted (chain_of fuel s x) -> ckif_spins fuel s x = gen_ckif_spins (chain_of fuel s x).
Proof. intros H. now rewrite machine_ckif_spins_eq, ckif_spins_gen_eq. Qed.

(* F46: the resumption of a task spinning in checkpoint_if_cancelled, by the generated code: the flag says the source reads
   the task's scope again after the yield; the machine re-evaluates the generated walk on the chain of k_cur.  With the
   flag off (a loop that keeps the scope found first) the statement would need the unconditional RBlocked. *)
Corollary machine_ckif_respin_gen s t fo :
  k_ctl (tasks s t) = CYield YCkIf -> snd (incoming s t fo) = None ->
  all_hosted (chain_of (nscope s) s (k_cur (tasks s t))) ->
  snd (resume s t fo) =
    if gen_ckif_restarts_from_task_scope
    then (if gen_ckif_spins (chain_of (nscope s) s (k_cur (tasks s t))) then RBlocked else RRet 0)
    else RBlocked.
Proof.
  intros Hc Hi Hh. cbn [gen_ckif_restarts_from_task_scope]. rewrite <- (machine_ckif_spins_gen _ _ _ Hh).
  pose proof (CheckpointFacts.ckif_spin_resume s t fo Hc) as H. rewrite Hi in H. exact H.
Qed.

Corollary machine_eff_deadline_gen fuel s x :
  all_hosted (chain_of fuel s x) -> eff_deadline_from fuel s x XInf = gen_eff_deadline (chain_of fuel s x).
Proof. intros H. now rewrite machine_eff_deadline_eq, effective_deadline_gen_eq. Qed.

Corollary machine_restart_from_gen fuel s x :
  restart_from fuel s x =
  match (match gen_restart_target (chain_of fuel s x) with
         | Some i => nth_error (sids_of fuel s x) i
         | None => None
         end) with
  | Some c => deliver_top s c
  | None => s
  end.
Proof. rewrite machine_restart_from_eq, restart_target_gen_eq. reflexivity. Qed.
