(* C05 — no residue: theorems.  Part 1 is function-level (no reachability needed). *)
From AV Require Import Base Machine ScopeFrames.

(* ---------------- scope_ptr_restored ---------------- *)
Lemma scopes_upd_scope s c g x :
  scopes (upd_scope s c g) x = if Nat.eqb x c then g (scopes s c) else scopes s x.
Proof. reflexivity. Qed.

Lemma tasks_upd_scope s c g : tasks (upd_scope s c g) = tasks s.
Proof. reflexivity. Qed.

Lemma cancel_timeout_timeout s c : s_timeout (scopes (cancel_timeout s c) c) = None.
Proof.
  unfold cancel_timeout. destruct (s_timeout (scopes s c)) eqn:E; [|exact E].
  cbn. unfold upd. now rewrite Nat.eqb_refl.
Qed.

Lemma cancel_timeout_other s c x :
  sc_timeout None (scopes (cancel_timeout s c) x) = sc_timeout None (scopes s x).
Proof.
  unfold cancel_timeout. destruct (s_timeout (scopes s c)) eqn:E; [|reflexivity].
  cbn. unfold upd. destruct (Nat.eqb_spec x c); [subst|]; reflexivity.
Qed.

Lemma cancel_timeout_tasks s c : tasks (cancel_timeout s c) = tasks s.
Proof. unfold cancel_timeout. destruct (s_timeout (scopes s c)); reflexivity. Qed.

Lemma cancel_timeout_timers s c tm : s_timeout (scopes s c) = Some tm ->
  timers (cancel_timeout s c) = filter (fun x => negb (Nat.eqb (tm_id x) tm)) (timers s) /\
  ready (cancel_timeout s c) = filter (fun h => negb (is_timer_handle tm h)) (ready s).
Proof. intros E. unfold cancel_timeout. rewrite E. split; reflexivity. Qed.

Definition exit_sc2 (s : st) (c : sid) (t : tid) (y : sid) : scope :=
  let s1 := cancel_timeout (upd_scope s c (sc_active false)) c in
  if Nat.eqb y c then sc_tasks (del t (s_tasks (scopes s1 c))) (scopes s1 c) else scopes s1 y.

Lemma exit_struct_scopes s c t x :
  scopes (exit_struct s c t) x =
  match s_parent (scopes s c) with
  | Some p => if Nat.eqb x p
              then sc_tasks (add t (s_tasks (exit_sc2 s c t p)))
                            (sc_children (del c (s_children (exit_sc2 s c t p))) (exit_sc2 s c t p))
              else exit_sc2 s c t x
  | None => exit_sc2 s c t x
  end.
Proof. unfold exit_struct, exit_sc2. destruct (s_parent (scopes s c)); reflexivity. Qed.

Theorem scope_exit_guarded s c t exc :
  ~ (s_active (scopes s c) = true /\ s_host (scopes s c) = Some t /\ k_cur (tasks s t) = Some c) ->
  scope_exit s c t exc = (s, XRaise ERuntime).
Proof. apply scope_exit_fail. Qed.

Theorem scope_ptr_restored s c t exc :
  s_active (scopes s c) = true -> s_host (scopes s c) = Some t -> k_cur (tasks s t) = Some c ->
  let s' := fst (scope_exit s c t exc) in
  k_cur (tasks s' t) = s_parent (scopes s c) /\
  s_host (scopes s' c) = None /\ s_active (scopes s' c) = false /\ s_timeout (scopes s' c) = None /\
  (forall p, s_parent (scopes s c) = Some p ->
     ~ In c (s_children (scopes s' p)) /\ In t (s_tasks (scopes s' p))) /\
  (s_parent (scopes s c) <> Some c -> ~ In t (s_tasks (scopes s' c))) /\
  (forall tm, s_timeout (scopes s c) = Some tm ->
     (forall x, In x (timers s') -> tm_id x <> tm) /\
     (forall h, In h (ready s') -> is_timer_handle tm h = false)).
Proof.
  intros Ha Hh Hc s'.
  destruct (scope_exit_spec s c t exc (conj Ha (conj Hh Hc))) as [s6 [K E]].
  assert (K' : kframe (exit_struct s c t) s6).
  { eapply kframe_trans; [apply kframe_restart|exact K]. }
  clear K. subst s'. rewrite E. clear E.
  set (s4 := exit_struct s c t) in *.
  (* fields of s4 *)
  assert (F1 : k_cur (tasks s4 t) = s_parent (scopes s c)).
  { unfold s4, exit_struct. cbn. unfold upd. now rewrite Nat.eqb_refl. }
  assert (F2 : s_active (scopes s4 c) = false /\ s_timeout (scopes s4 c) = None).
  { unfold s4, exit_struct. cbn [scopes upd_task set_tasks].
    set (s1 := cancel_timeout (upd_scope s c (sc_active false)) c).
    assert (A1 : s_active (scopes s1 c) = false).
    { pose proof (f_equal s_active (cancel_timeout_other (upd_scope s c (sc_active false)) c c)) as H.
      cbn [s_active sc_timeout] in H. fold s1 in H. rewrite H. cbn. unfold upd. now rewrite Nat.eqb_refl. }
    assert (A2 : s_timeout (scopes s1 c) = None) by apply cancel_timeout_timeout.
    destruct (s_parent (scopes s c)) as [p|]; cbn; unfold upd; rewrite ?Nat.eqb_refl;
      [destruct (Nat.eqb_spec c p) as [<-|]; rewrite ?Nat.eqb_refl|]; cbn; now split. }
  assert (F3 : forall p, s_parent (scopes s c) = Some p ->
               ~ In c (s_children (scopes s4 p)) /\ In t (s_tasks (scopes s4 p))).
  { intros p Hp. unfold s4. rewrite exit_struct_scopes, Hp, Nat.eqb_refl.
    cbn [s_children s_tasks sc_tasks sc_children]. split.
    - intros H. apply in_del in H. now destruct H.
    - apply in_add. now right. }
  assert (F4 : s_parent (scopes s c) <> Some c -> ~ In t (s_tasks (scopes s4 c))).
  { intros Hp. unfold s4. rewrite exit_struct_scopes.
    assert (G : ~ In t (s_tasks (exit_sc2 s c t c))).
    { unfold exit_sc2. rewrite Nat.eqb_refl. cbn [s_tasks sc_tasks]. intros H. apply in_del in H. now destruct H. }
    destruct (s_parent (scopes s c)) as [p|]; [|exact G].
    destruct (Nat.eqb_spec c p); [subst; now elim Hp|exact G]. }
  assert (F5 : forall tm, s_timeout (scopes s c) = Some tm ->
     (forall x, In x (timers s4) -> tm_id x <> tm) /\
     (forall h, In h (ready s4) -> is_timer_handle tm h = false)).
  { intros tm Htm.
    assert (T : timers s4 = timers (cancel_timeout (upd_scope s c (sc_active false)) c) /\
                ready s4 = ready (cancel_timeout (upd_scope s c (sc_active false)) c)).
    { unfold s4, exit_struct. destruct (s_parent (scopes s c)); split; reflexivity. }
    destruct T as [T1 T2]. rewrite T1, T2.
    destruct (cancel_timeout_timers (upd_scope s c (sc_active false)) c tm) as [E1 E2].
    { cbn. unfold upd. rewrite Nat.eqb_refl. exact Htm. }
    rewrite E1, E2. split.
    - intros x Hx. apply filter_In in Hx. destruct Hx as [_ Hx].
      intros Hid. rewrite Hid, Nat.eqb_refl in Hx. discriminate.
    - intros h Hh'. apply filter_In in Hh'. destruct Hh' as [_ Hh']. now destruct (is_timer_handle tm h). }
  (* transport through the request frame and the final host := None *)
  pose proof (kf_scopes _ _ K') as Ks. pose proof (kf_tasks _ _ K') as Kt.
  refine (conj _ (conj _ (conj _ (conj _ (conj _ (conj _ _)))))).
  - rewrite tasks_upd_scope. rewrite (tcore_cur _ _ (Kt t)). exact F1.
  - rewrite scopes_upd_scope, Nat.eqb_refl. reflexivity.
  - rewrite scopes_upd_scope, Nat.eqb_refl. cbn. rewrite (core_active _ _ (Ks c)). apply F2.
  - rewrite scopes_upd_scope, Nat.eqb_refl. cbn. rewrite (core_timeout _ _ (Ks c)). apply F2.
  - intros p Hp. rewrite scopes_upd_scope.
    destruct (Nat.eqb_spec p c) as [->|Hne]; cbn [s_children s_tasks sc_host];
      rewrite ?(core_children _ _ (Ks c)), ?(core_tasks _ _ (Ks c)),
              ?(core_children _ _ (Ks p)), ?(core_tasks _ _ (Ks p)); now apply F3.
  - intros Hp. rewrite scopes_upd_scope, Nat.eqb_refl. cbn. rewrite (core_tasks _ _ (Ks c)). now apply F4.
  - intros tm Htm. destruct (F5 tm Htm) as [G1 G2]. split.
    + cbn. rewrite (kf_timers _ _ K'). exact G1.
    + cbn. destruct (kf_ready _ _ K') as [l [El Fl]]. rewrite El. intros h Hin.
      apply in_app_or in Hin. destruct Hin as [Hin|Hin]; [now apply G2|].
      rewrite Forall_forall in Fl. specialize (Fl h Hin). destruct h; cbn in Fl; try contradiction; reflexivity.
Qed.
