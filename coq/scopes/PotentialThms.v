(* C05 — no residue: theorems.  Part 1 is function-level (no reachability needed). *)
From Coq Require Import ZArith Lia.
From AV Require Import Base Machine ScopeFrames DeliverInv TreeInv DeliverAlive PotentialInv TreeStep KernelInv DeliverThms.

(* ---------------- scope_ptr_restored ---------------- *)
Lemma scopes_upd_scope s c g x :
  scopes (upd_scope s c g) x = if Nat.eqb x c then g (scopes s c) else scopes s x.
Proof. reflexivity. Qed.

Lemma tasks_upd_scope s c g : tasks (upd_scope s c g) = tasks s.
Proof. reflexivity. Qed.

Lemma cancel_timeout_timeout s c : s_timeout (scopes (cancel_timeout s c) c) = None.
Proof.
  unfold cancel_timeout. destruct (s_timeout (scopes s c)) eqn:E; [|exact E].
  cbn. unfold upd. now rewrite Nat.eqb_refl.
Qed.

Lemma cancel_timeout_other s c x :
  sc_timeout None (scopes (cancel_timeout s c) x) = sc_timeout None (scopes s x).
Proof.
  unfold cancel_timeout. destruct (s_timeout (scopes s c)) eqn:E; [|reflexivity].
  cbn. unfold upd. destruct (Nat.eqb_spec x c); [subst|]; reflexivity.
Qed.

Lemma cancel_timeout_tasks s c : tasks (cancel_timeout s c) = tasks s.
Proof. unfold cancel_timeout. destruct (s_timeout (scopes s c)); reflexivity. Qed.

Lemma cancel_timeout_timers s c tm : s_timeout (scopes s c) = Some tm ->
  timers (cancel_timeout s c) = filter (fun x => negb (Nat.eqb (tm_id x) tm)) (timers s) /\
  ready (cancel_timeout s c) = filter (fun h => negb (is_timer_handle tm h)) (ready s).
Proof. intros E. unfold cancel_timeout. rewrite E. split; reflexivity. Qed.

Definition exit_sc2 (s : st) (c : sid) (t : tid) (y : sid) : scope :=
  let s1 := cancel_timeout (upd_scope s c (sc_active false)) c in
  if Nat.eqb y c then sc_tasks (del t (s_tasks (scopes s1 c))) (scopes s1 c) else scopes s1 y.

Lemma exit_struct_scopes s c t x :
  scopes (exit_struct s c t) x =
  match s_parent (scopes s c) with
  | Some p => if Nat.eqb x p
              then sc_tasks (add t (s_tasks (exit_sc2 s c t p)))
                            (sc_children (del c (s_children (exit_sc2 s c t p))) (exit_sc2 s c t p))
              else exit_sc2 s c t x
  | None => exit_sc2 s c t x
  end.
Proof. unfold exit_struct, exit_sc2. destruct (s_parent (scopes s c)); reflexivity. Qed.

Theorem scope_exit_guarded s c t exc :
  ~ (s_active (scopes s c) = true /\ s_host (scopes s c) = Some t /\ k_cur (tasks s t) = Some c) ->
  scope_exit s c t exc = (s, XRaise ERuntime).
Proof. apply scope_exit_fail. Qed.

Theorem scope_ptr_restored s c t exc :
  s_active (scopes s c) = true -> s_host (scopes s c) = Some t -> k_cur (tasks s t) = Some c ->
  let s' := fst (scope_exit s c t exc) in
  k_cur (tasks s' t) = s_parent (scopes s c) /\
  s_host (scopes s' c) = None /\ s_active (scopes s' c) = false /\ s_timeout (scopes s' c) = None /\
  (forall p, s_parent (scopes s c) = Some p ->
     ~ In c (s_children (scopes s' p)) /\ In t (s_tasks (scopes s' p))) /\
  (s_parent (scopes s c) <> Some c -> ~ In t (s_tasks (scopes s' c))) /\
  (forall tm, s_timeout (scopes s c) = Some tm ->
     (forall x, In x (timers s') -> tm_id x <> tm) /\
     (forall h, In h (ready s') -> is_timer_handle tm h = false)).
Proof.
  intros Ha Hh Hc s'.
  destruct (scope_exit_spec s c t exc (conj Ha (conj Hh Hc))) as [s6 [K E]].
  assert (K' : kframe (exit_struct s c t) s6).
  { eapply kframe_trans; [apply kframe_restart|exact K]. }
  clear K. subst s'. rewrite E. clear E.
  set (s4 := exit_struct s c t) in *.
  (* fields of s4 *)
  assert (F1 : k_cur (tasks s4 t) = s_parent (scopes s c)).
  { unfold s4, exit_struct. cbn. unfold upd. now rewrite Nat.eqb_refl. }
  assert (F2 : s_active (scopes s4 c) = false /\ s_timeout (scopes s4 c) = None).
  { unfold s4, exit_struct. cbn [scopes upd_task set_tasks].
    set (s1 := cancel_timeout (upd_scope s c (sc_active false)) c).
    assert (A1 : s_active (scopes s1 c) = false).
    { pose proof (f_equal s_active (cancel_timeout_other (upd_scope s c (sc_active false)) c c)) as H.
      cbn [s_active sc_timeout] in H. fold s1 in H. rewrite H. cbn. unfold upd. now rewrite Nat.eqb_refl. }
    assert (A2 : s_timeout (scopes s1 c) = None) by apply cancel_timeout_timeout.
    destruct (s_parent (scopes s c)) as [p|]; cbn; unfold upd; rewrite ?Nat.eqb_refl;
      [destruct (Nat.eqb_spec c p) as [<-|]; rewrite ?Nat.eqb_refl|]; cbn; now split. }
  assert (F3 : forall p, s_parent (scopes s c) = Some p ->
               ~ In c (s_children (scopes s4 p)) /\ In t (s_tasks (scopes s4 p))).
  { intros p Hp. unfold s4. rewrite exit_struct_scopes, Hp, Nat.eqb_refl.
    cbn [s_children s_tasks sc_tasks sc_children]. split.
    - intros H. apply in_del in H. now destruct H.
    - apply in_add. now right. }
  assert (F4 : s_parent (scopes s c) <> Some c -> ~ In t (s_tasks (scopes s4 c))).
  { intros Hp. unfold s4. rewrite exit_struct_scopes.
    assert (G : ~ In t (s_tasks (exit_sc2 s c t c))).
    { unfold exit_sc2. rewrite Nat.eqb_refl. cbn [s_tasks sc_tasks]. intros H. apply in_del in H. now destruct H. }
    destruct (s_parent (scopes s c)) as [p|]; [|exact G].
    destruct (Nat.eqb_spec c p); [subst; now elim Hp|exact G]. }
  assert (F5 : forall tm, s_timeout (scopes s c) = Some tm ->
     (forall x, In x (timers s4) -> tm_id x <> tm) /\
     (forall h, In h (ready s4) -> is_timer_handle tm h = false)).
  { intros tm Htm.
    assert (T : timers s4 = timers (cancel_timeout (upd_scope s c (sc_active false)) c) /\
                ready s4 = ready (cancel_timeout (upd_scope s c (sc_active false)) c)).
    { unfold s4, exit_struct. destruct (s_parent (scopes s c)); split; reflexivity. }
    destruct T as [T1 T2]. rewrite T1, T2.
    destruct (cancel_timeout_timers (upd_scope s c (sc_active false)) c tm) as [E1 E2].
    { cbn. unfold upd. rewrite Nat.eqb_refl. exact Htm. }
    rewrite E1, E2. split.
    - intros x Hx. apply filter_In in Hx. destruct Hx as [_ Hx].
      intros Hid. rewrite Hid, Nat.eqb_refl in Hx. discriminate.
    - intros h Hh'. apply filter_In in Hh'. destruct Hh' as [_ Hh']. now destruct (is_timer_handle tm h). }
  (* transport through the request frame and the final host := None *)
  pose proof (kf_scopes _ _ K') as Ks. pose proof (kf_tasks _ _ K') as Kt.
  refine (conj _ (conj _ (conj _ (conj _ (conj _ (conj _ _)))))).
  - rewrite tasks_upd_scope. rewrite (tcore_cur _ _ (Kt t)). exact F1.
  - rewrite scopes_upd_scope, Nat.eqb_refl. reflexivity.
  - rewrite scopes_upd_scope, Nat.eqb_refl. cbn. rewrite (core_active _ _ (Ks c)). apply F2.
  - rewrite scopes_upd_scope, Nat.eqb_refl. cbn. rewrite (core_timeout _ _ (Ks c)). apply F2.
  - intros p Hp. rewrite scopes_upd_scope.
    destruct (Nat.eqb_spec p c) as [->|Hne]; cbn [s_children s_tasks sc_host];
      rewrite ?(core_children _ _ (Ks c)), ?(core_tasks _ _ (Ks c)),
              ?(core_children _ _ (Ks p)), ?(core_tasks _ _ (Ks p)); now apply F3.
  - intros Hp. rewrite scopes_upd_scope, Nat.eqb_refl. cbn. rewrite (core_tasks _ _ (Ks c)). now apply F4.
  - intros tm Htm. destruct (F5 tm Htm) as [G1 G2]. split.
    + cbn. rewrite (kf_timers _ _ K'). exact G1.
    + cbn. destruct (kf_ready _ _ K') as [l [El Fl]]. rewrite El. intros h Hin.
      apply in_app_or in Hin. destruct Hin as [Hin|Hin]; [now apply G2|].
      rewrite Forall_forall in Fl. specialize (Fl h Hin). destruct h; cbn in Fl; try contradiction; reflexivity.
Qed.

(* ================= Part 2: the potential in every reachable state ================= *)
(* explicit uncancel() stays within the requests that came from outside the task's own scopes *)
Definition unc_ok (s : st) (o : op) : bool :=
  match o with
  | AUncancel t => Nat.ltb (pending_of s t) (k_ncancel (tasks s t))
  | _ => true
  end.

Fixpoint ops_ok2 (s : st) (ops : list op) : bool :=
  match ops with
  | [] => true
  | o :: r => op_ok s o && unc_ok s o && ops_ok2 (fst (step s o)) r
  end.

Definition reach_ok2 (s : st) : Prop := exists ops, ops_ok2 init ops = true /\ s = final step init ops.

Lemma ops_ok2_ops_ok ops : forall s, ops_ok2 s ops = true -> ops_ok s ops = true.
Proof.
  induction ops as [|o r IH]; intros s H; cbn in *; [reflexivity|].
  apply andb_true_iff in H. destruct H as [H1 H2]. apply andb_true_iff in H1. destruct H1 as [H0 _].
  rewrite H0. cbn. now apply IH.
Qed.

Lemma reach_ok2_reach_ok s : reach_ok2 s -> reach_ok s.
Proof. intros [ops [H E]]. exists ops. split; [now apply ops_ok2_ops_ok|exact E]. Qed.

(* the two outside influences, as ops *)
Lemma uncancel_op_state s t : idle s t = true ->
  inert (task_uncancel (begin_act s t) t) (fst (step s (AUncancel t))) /\
  inert s (begin_act s t).
Proof.
  intros Hi. split; [|apply inert_begin_act].
  unfold step. cbn [actor]. rewrite Hi. cbn [negb]. unfold puppet_op. apply inert_ret_to_puppet.
Qed.

Lemma PInv_step s o : SInv s -> PInv s -> op_ok s o = true -> unc_ok s o = true -> PInv (fst (step s o)).
Proof.
  intros I P Hok Hu.
  assert (Q : quiet o -> PInv (fst (step s o))).
  { intros Hq. destruct (step_g s o I Hok Hq) as [[_ Ps] _]. now apply Ps. }
  destruct o; try (apply Q; exact Logic.I).
  - (* AUncancel *)
    destruct (idle s t) eqn:Hi.
    + destruct (uncancel_op_state s t Hi) as [I2 I1].
      apply (PInv_inert _ _ (uncancel_PInv (begin_act s t) t (PInv_inert _ _ P I1)
               ltac:(rewrite (pending_of_inert _ _ t I1), (in_task _ _ I1 t); cbn [unc_ok] in Hu; now apply Nat.ltb_lt in Hu)) I2).
    + unfold step. cbn [actor]. rewrite Hi. exact P.
  - (* ANativeCancel *)
    cbn [step actor fst]. now apply native_cancel_PInv.
Qed.

Lemma PInv_init : PInv init.
Proof. constructor; [intros c _; reflexivity|intros t; cbn; lia]. Qed.

Lemma pinv_final ops : forall s, SInv s -> PInv s -> ops_ok2 s ops = true ->
  SInv (final step s ops) /\ PInv (final step s ops).
Proof.
  induction ops as [|o r IH]; intros s I P H; cbn in *; [now split|].
  apply andb_true_iff in H. destruct H as [H1 H2]. apply andb_true_iff in H1. destruct H1 as [H0 H1].
  apply IH; [now apply step_inv|now apply PInv_step|exact H2].
Qed.

(* I5, first half: the counter never falls below the debts of the task's own scopes, and a scope without a host
   owes nothing *)
Theorem potential_nonneg s : reach_ok2 s ->
  (forall t, pending_of s t <= k_ncancel (tasks s t)) /\
  (forall c, s_host (scopes s c) = None -> s_pending (scopes s c) = 0).
Proof.
  intros [ops [H ->]]. destruct (pinv_final ops init sinv_init PInv_init H) as [_ P].
  split; [apply P|apply P].
Qed.

(* I5: what one op does to the potential phi t = ncancel t - (debts of the scopes hosted by t) *)
Theorem own_cancels_compensated s o t :
  reach_ok2 s -> op_ok s o = true -> unc_ok s o = true -> alloc_t s t ->
  let s' := fst (step s o) in
  match o with
  | ANativeCancel t0 =>
      phi s' t = (if Nat.eqb t t0 then (if k_done (tasks s t0) then phi s t else phi s t + 1) else phi s t)%Z
  | AUncancel t0 =>
      phi s' t = (if Nat.eqb t t0 && idle s t0 then phi s t - 1 else phi s t)%Z
  | _ => (phi s t <= phi s' t)%Z /\ (k_group (tasks s t) = None -> phi s' t = phi s t)
  end.
Proof.
  intros [ops [H ->]] Hok Hu A. set (s := final step init ops) in *.
  destruct (pinv_final ops init sinv_init PInv_init H) as [I P]. fold s in I, P. cbv zeta.
  assert (Q : quiet o -> (phi s t <= phi (fst (step s o)) t)%Z /\
                         (k_group (tasks s t) = None -> phi (fst (step s o)) t = phi s t)).
  { intros Hq. destruct (step_g s o I Hok Hq) as [[_ Ps] _]. destruct (Ps P) as [_ F]. now apply F. }
  destruct o; try (apply Q; exact Logic.I).
  - (* AUncancel *)
    destruct (idle s t0) eqn:Hi.
    + destruct (uncancel_op_state s t0 Hi) as [I2 I1].
      rewrite (phi_inert _ _ t I2), uncancel_phi, (phi_inert _ _ t I1), (in_task _ _ I1 t0).
      cbn [unc_ok] in Hu. apply Nat.ltb_lt in Hu.
      destruct (Nat.eqb t t0); cbn [andb]; [|reflexivity].
      destruct (Nat.eqb_spec (k_ncancel (tasks s t0)) 0); [lia|reflexivity].
    + unfold step. cbn [actor]. rewrite Hi, andb_false_r. reflexivity.
  - (* ANativeCancel *)
    cbn [step actor fst]. destruct (k_done (tasks s t0)) eqn:Hd.
    + rewrite task_cancel_done_noop; [|congruence]. destruct (Nat.eqb t t0); reflexivity.
    + rewrite (native_cancel_phi s t0 Hd t). destruct (Nat.eqb t t0); reflexivity.
Qed.

(* allocation and group membership of existing tasks never change *)
Lemma step_ids s o : SInv s -> op_ok s o = true -> ids s (fst (step s o)).
Proof.
  intros I Hok. destruct o; try (exact (proj2 (step_g s _ I Hok Logic.I))).
  - unfold step. cbn [actor]. destruct (idle s t) eqn:Hi; cbn [negb]; [|intros x A; now split].
    unfold puppet_op. apply ids_treq.
    eapply treq_trans; [apply treq_begin_act|]. eapply treq_trans; [apply treq_task_uncancel|apply treq_ret_to_puppet].
  - cbn [step actor fst]. apply ids_treq, treq_task_cancel.
Qed.

(* ---------------- cancelling() of a root task along a whole run ---------------- *)
Definition ext_delta (s : st) (o : op) (t : tid) : Z :=
  match o with
  | ANativeCancel t0 => if Nat.eqb t t0 then (if k_done (tasks s t0) then 0 else 1) else 0
  | AUncancel t0 => if Nat.eqb t t0 && idle s t0 then -1 else 0
  | _ => 0
  end%Z.

Fixpoint ext_count (s : st) (ops : list op) (t : tid) : Z :=
  match ops with
  | [] => 0%Z
  | o :: r => (ext_delta s o t + ext_count (fst (step s o)) r t)%Z
  end.

Lemma reach_ok2_step s o : reach_ok2 s -> op_ok s o = true -> unc_ok s o = true -> reach_ok2 (fst (step s o)).
Proof.
  intros [ops [H ->]] Ho Hu. exists (ops ++ [o]). split.
  - clear - H Ho Hu. revert H Ho Hu. generalize init. induction ops as [|a r IH]; intros s0 H Ho Hu; cbn in *.
    + now rewrite Ho, Hu.
    + apply andb_true_iff in H. destruct H as [H1 H2]. rewrite H1. cbn. now apply IH.
  - now rewrite final_app.
Qed.

Lemma reach_ok2_sinv s : reach_ok2 s -> SInv s.
Proof. intros H. apply reach_sinv. now apply reach_ok2_reach_ok. Qed.

(* for a task that is not a group child, only native cancel() and explicit uncancel() move the potential:
   whatever scopes it entered, cancelled and left in between *)
Theorem cancelling_restored ops : forall s t,
  reach_ok2 s -> ops_ok2 s ops = true -> alloc_t s t -> k_group (tasks s t) = None ->
  phi (final step s ops) t = (phi s t + ext_count s ops t)%Z.
Proof.
  induction ops as [|o r IH]; intros s t R H A G; cbn [final fold_left ext_count]; [lia|].
  cbn [ops_ok2] in H. apply andb_true_iff in H. destruct H as [H1 H2]. apply andb_true_iff in H1. destruct H1 as [Ho Hu].
  pose proof (own_cancels_compensated s o t R Ho Hu A) as St. cbv zeta in St.
  destruct (step_ids s o (reach_ok2_sinv s R) Ho t A) as [A' G'].
  change (fold_left (fun s0 o0 => fst (step s0 o0)) r (fst (step s o))) with (final step (fst (step s o)) r).
  rewrite (IH (fst (step s o)) t (reach_ok2_step s o R Ho Hu) H2 A' (eq_trans G' G)).
  assert (E : phi (fst (step s o)) t = (phi s t + ext_delta s o t)%Z).
  { destruct o; cbn [ext_delta]; try (destruct St as [_ St]; rewrite (St G); lia).
    - rewrite St. destruct (Nat.eqb t t0 && idle s t0); lia.
    - rewrite St. destruct (Nat.eqb t t0); [destruct (k_done (tasks s t0))|]; lia. }
  lia.
Qed.

(* in particular: whenever the task owes nothing (it hosts no scope with outstanding deliveries), its native
   counter is its earlier value plus native cancels minus explicit uncancels *)
Corollary cancelling_restored_counter ops s t :
  reach_ok2 s -> ops_ok2 s ops = true -> alloc_t s t -> k_group (tasks s t) = None ->
  pending_of s t = 0 -> pending_of (final step s ops) t = 0 ->
  Z.of_nat (k_ncancel (tasks (final step s ops) t)) = (Z.of_nat (k_ncancel (tasks s t)) + ext_count s ops t)%Z.
Proof.
  intros R H A G P0 P1. pose proof (cancelling_restored ops s t R H A G) as E. unfold phi in E.
  rewrite P0, P1 in E. lia.
Qed.

(* ---------------- what __exit__ does with the scope's debt (any state) ---------------- *)
Theorem exit_debt_settled s c t exc :
  s_active (scopes s c) = true -> s_host (scopes s c) = Some t -> k_cur (tasks s t) = Some c ->
  s_parent (scopes s c) <> Some c ->
  let s5 := restart (exit_struct s c t) (s_parent (scopes s c)) in
  let n := s_pending (scopes s5 c) in
  let sf := fst (scope_exit s c t exc) in
  s_pending (scopes sf c) = 0 /\ s_host (scopes sf c) = None /\
  ((* pending_handover: the parent is hosted by the same task and takes the debt over *)
   (exists p, s_parent (scopes s c) = Some p /\ s_host (scopes s5 p) = Some t /\
              s_pending (scopes sf p) = s_pending (scopes s5 p) + n /\
              k_ncancel (tasks sf t) = k_ncancel (tasks s5 t)) \/
   (* the debt is paid back with uncancel() *)
   (k_ncancel (tasks sf t) = k_ncancel (tasks s5 t) - n /\
    forall x, x <> c -> s_pending (scopes sf x) = s_pending (scopes s5 x))) /\
  (* no_foreign_handover: a scope hosted by another task never receives the debt *)
  (forall x, x <> c -> s_host (scopes s5 x) <> Some t -> s_pending (scopes sf x) = s_pending (scopes s5 x)) /\
  (forall t', t' <> t -> k_ncancel (tasks sf t') = k_ncancel (tasks s5 t')).
Proof.
  intros Ha Hh Hc Hpc. cbv zeta.
  destruct (scope_exit_acct s c t exc (conj Ha (conj Hh Hc)) Hpc) as [_ [hand [Hhand [Fh [Fp Fn]]]]].
  refine (conj _ (conj _ (conj _ (conj _ _)))).
  - rewrite Fp, Nat.eqb_refl. reflexivity.
  - rewrite Fh, Nat.eqb_refl. reflexivity.
  - destruct hand.
    + left. destruct (Hhand eq_refl) as [p [Ep Hp]]. exists p. split; [exact Ep|]. split; [exact Hp|].
      assert (p <> c) by (intros ->; now apply Hpc). split.
      * rewrite Fp. destruct (Nat.eqb_spec p c); [contradiction|]. rewrite Ep. cbn. now rewrite Nat.eqb_refl.
      * rewrite Fn, andb_false_r. reflexivity.
    + right. split.
      * rewrite Fn, Nat.eqb_refl. reflexivity.
      * intros x Hx. rewrite Fp. destruct (Nat.eqb_spec x c); [contradiction|reflexivity].
  - intros x Hx Hn. rewrite Fp. destruct (Nat.eqb_spec x c); [contradiction|].
    destruct (hand && opt_eqb (s_parent (scopes s c)) x) eqn:E; [|reflexivity].
    apply andb_true_iff in E. destruct E as [E1 E2]. apply opt_eqb_true in E2.
    destruct (Hhand E1) as [p [Ep Hp]]. rewrite Ep in E2. inversion E2; subst p. contradiction.
  - intros t' Hne. rewrite Fn. destruct (Nat.eqb_spec t' t); [contradiction|reflexivity].
Qed.

(* ---------------- a delivery callback left over after the scope was exited ---------------- *)
Lemma inactive_empty s c : Tree s -> s_active (scopes s c) = false ->
  s_tasks (scopes s c) = [] /\ s_children (scopes s c) = [].
Proof.
  intros T Ic. split.
  - apply no_members. intros x Hx. apply (tr_task _ T) in Hx. apply (tr_cur_act _ T) in Hx. congruence.
  - apply no_members. intros x Hx. apply (tr_child _ T) in Hx. destruct Hx as [Ha Hp].
    pose proof (tr_par_act _ T x c Ha Hp). congruence.
Qed.

Theorem leftover_deliver_runs_once s c :
  reach_ok s -> s_active (scopes s c) = false -> In (HDeliver c) (ready s) ->
  let s' := fst (step s (ARun (HDeliver c))) in
  s_chandle (scopes s' c) = false /\ ready s' = remove_first (HDeliver c) (ready s) /\
  tasks s' = tasks s /\ timers s' = timers s /\
  (forall x, x <> c -> scopes s' x = scopes s x).
Proof.
  intros R Ic Hin s'. destruct (inactive_empty s c (reach_tree s R) Ic) as [Et Ec].
  unfold s'. cbn [step actor]. unfold run_handle.
  assert (Ex : existsb (handle_eqb (HDeliver c)) (ready s) = true) by now apply existsb_handle.
  rewrite Ex. cbn [negb fst].
  set (s1 := set_running (set_ready s (remove_first (HDeliver c) (ready s))) None).
  assert (E : deliver_top s1 c = upd_scope s1 c (sc_chandle false)).
  { unfold deliver_top. rewrite deliver_unfold.
    change (s_tasks (scopes s1 c)) with (s_tasks (scopes s c)). rewrite Et. cbn [fold_left].
    change (s_children (scopes s1 c)) with (s_children (scopes s c)). rewrite Ec. cbn [fold_left].
    now rewrite Nat.eqb_refl. }
  rewrite E. refine (conj _ (conj _ (conj _ (conj _ _)))); try reflexivity.
  - cbn. unfold upd. now rewrite Nat.eqb_refl.
  - intros x Hx. cbn. unfold upd. destruct (Nat.eqb_spec x c); [contradiction|reflexivity].
Qed.

(* ---------------- non-vacuity ---------------- *)
(* a root task enters scope 1, is cancelled in it while blocked, the delivery hits it twice, it is resumed,
   leaves the scope absorbing the cancellation: cancelling() is back at 0 *)
Definition ex5_ops : list op :=
  [ANewRoot; ANewScope 1 None false; AEnter 1 1; ASleep 1 None; AExtCancel 1; ARun (HDeliver 1);
   ARun (HWake 1 4); AExit 1 1 false].

Example ex5_ok : ops_ok2 init ex5_ops = true.
Proof. vm_compute. reflexivity. Qed.

Example ex5_counter :
  let s := final step init ex5_ops in
  k_ncancel (tasks s 1) = 0 /\ s_pending (scopes s 1) = 0 /\ s_host (scopes s 1) = None /\
  k_cur (tasks s 1) = None /\ ext_count init ex5_ops 1 = 0%Z.
Proof. vm_compute. repeat split. Qed.

(* ... and in the middle of it the task did owe something *)
Example ex5_middle :
  let s := final step init (firstn 6 ex5_ops) in
  k_ncancel (tasks s 1) = 1 /\ pending_of s 1 = 1 /\ phi s 1 = 0%Z.
Proof. vm_compute. repeat split. Qed.

(* ---------------- the loop goes idle (partial) ----------------
   Once every task is done no delivery callback keeps itself alive: whichever one runs finds nobody to reach and
   clears its handle.  (Not proved: the bound on the number of remaining callbacks and the statement about
   timers.) *)
Theorem loop_goes_idle_partial s c :
  reach_ok s -> (forall t, k_done (tasks s t) <> None) -> In (HDeliver c) (ready s) ->
  s_chandle (scopes (fst (step s (ARun (HDeliver c)))) c) = false.
Proof.
  intros R Hd Hin. destruct (deliver_cancels_reach s c R Hin) as [_ [_ [Hno _]]]. apply Hno.
  intros [t [D _]]. now apply (Hd t).
Qed.
