(* The structural invariant of the S machine (I1 tree, I2 stack), for every op sequence of the generated
   domain (op_ok): scopes form a forest consistent with parent/children/tasks/host, every task's scopes form
   a stack from its current scope down to its base, group children live below their group's scope. *)
From AV Require Import Base Machine ScopeFrames.

Definition alloc_s (s : st) (c : sid) : Prop := 0 < c /\ c < nscope s.
Definition alloc_t (s : st) (t : tid) : Prop := 0 < t /\ t < ntask s.
Definition alloc_g (s : st) (g : gid) : Prop := 0 < g /\ g < ngroup s.

(* the scope below a task's own stack: the group's scope for a group child, nothing for a root task *)
Definition base (s : st) (t : tid) : option sid :=
  match k_group (tasks s t) with Some g => Some (g_scope (groups s g)) | None => None end.

(* the scopes hosted by t, innermost first, linked by s_parent, ending at the task's base *)
Inductive stack (s : st) (t : tid) : option sid -> list sid -> Prop :=
| stack_nil : stack s t (base s t) []
| stack_cons x l :
    s_host (scopes s x) = Some t -> s_active (scopes s x) = true ->
    stack s t (s_parent (scopes s x)) l -> stack s t (Some x) (x :: l).

Definition notg (s : st) (c : sid) : Prop := forall g, alloc_g s g -> g_scope (groups s g) <> c.

Record Tree (s : st) : Prop := {
  tr_cnt : 0 < nscope s /\ 0 < ntask s /\ 0 < ngroup s;
  tr_act_alloc : forall x, s_active (scopes s x) = true -> alloc_s s x;
  tr_host_act : forall x, s_active (scopes s x) = true ->
                exists t, s_host (scopes s x) = Some t /\ alloc_t s t;
  tr_host_inact : forall x, s_active (scopes s x) = false -> s_host (scopes s x) = None;
  tr_child : forall p x, In x (s_children (scopes s p)) <->
                         s_active (scopes s x) = true /\ s_parent (scopes s x) = Some p;
  tr_task : forall x t, In t (s_tasks (scopes s x)) <-> k_cur (tasks s t) = Some x;
  tr_nd_c : forall p, NoDup (s_children (scopes s p));
  tr_nd_t : forall x, NoDup (s_tasks (scopes s x));
  tr_cur_act : forall t x, k_cur (tasks s t) = Some x -> s_active (scopes s x) = true;
  tr_cur_alloc : forall t x, k_cur (tasks s t) = Some x -> alloc_t s t;
  tr_par_act : forall x p, s_active (scopes s x) = true -> s_parent (scopes s x) = Some p ->
                           s_active (scopes s p) = true;
  tr_rank : exists rk : sid -> nat, forall x p,
              s_active (scopes s x) = true -> s_parent (scopes s x) = Some p -> rk p < rk x;
  tr_stack : forall t, alloc_t s t -> k_tdran (tasks s t) = false ->
             exists l, stack s t (k_cur (tasks s t)) l /\
                       forall x, s_active (scopes s x) = true -> s_host (scopes s x) = Some t -> In x l;
  tr_tdran : forall t, k_tdran (tasks s t) = true ->
             k_cur (tasks s t) = None /\ forall x, s_host (scopes s x) <> Some t;
  tr_gscope : forall g, alloc_g s g -> alloc_s s (g_scope (groups s g));
  tr_gscope_inj : forall g1 g2, alloc_g s g1 -> alloc_g s g2 ->
                  g_scope (groups s g1) = g_scope (groups s g2) -> g1 = g2;
  tr_gblank : forall g, ~ alloc_g s g -> g_scope (groups s g) = 0;
  tr_kgroup : forall t g, alloc_t s t -> k_group (tasks s t) = Some g ->
              alloc_g s g /\ alloc_s s (k_hscope (tasks s t)) /\ notg s (k_hscope (tasks s t));
  tr_hscope_inj : forall t1 t2, alloc_t s t1 -> alloc_t s t2 ->
                  k_group (tasks s t1) <> None -> k_group (tasks s t2) <> None ->
                  k_hscope (tasks s t1) = k_hscope (tasks s t2) -> t1 = t2;
  tr_member : forall t g, alloc_t s t -> k_group (tasks s t) = Some g -> k_tdran (tasks s t) = false ->
              In t (g_tasks (groups s g));
  tr_gact : forall t g, alloc_g s g -> In t (g_tasks (groups s g)) ->
            s_active (scopes s (g_scope (groups s g))) = true;
  tr_ghost : forall t g, alloc_t s t -> k_group (tasks s t) = Some g -> k_tdran (tasks s t) = false ->
             s_host (scopes s (g_scope (groups s g))) <> Some t;
  tr_hpar : forall t g, alloc_t s t -> k_group (tasks s t) = Some g ->
            s_active (scopes s (k_hscope (tasks s t))) = true ->
            s_parent (scopes s (k_hscope (tasks s t))) = Some (g_scope (groups s g)) /\
            s_host (scopes s (k_hscope (tasks s t))) = Some t
}.

(* ---------------- projections of treq ---------------- *)
Section TreqProj.
  Variables s s' : st.
  Hypothesis H : treq s s'.
  Lemma tq_parent x : s_parent (scopes s' x) = s_parent (scopes s x).
  Proof. pose proof (tq_scopes _ _ H x) as E. unfold sc_tree in E. now inversion E. Qed.
  Lemma tq_children x : s_children (scopes s' x) = s_children (scopes s x).
  Proof. pose proof (tq_scopes _ _ H x) as E. unfold sc_tree in E. now inversion E. Qed.
  Lemma tq_active x : s_active (scopes s' x) = s_active (scopes s x).
  Proof. pose proof (tq_scopes _ _ H x) as E. unfold sc_tree in E. now inversion E. Qed.
  Lemma tq_stasks x : s_tasks (scopes s' x) = s_tasks (scopes s x).
  Proof. pose proof (tq_scopes _ _ H x) as E. unfold sc_tree in E. now inversion E. Qed.
  Lemma tq_host x : s_host (scopes s' x) = s_host (scopes s x).
  Proof. pose proof (tq_scopes _ _ H x) as E. unfold sc_tree in E. now inversion E. Qed.
  Lemma tq_cur t : k_cur (tasks s' t) = k_cur (tasks s t).
  Proof. pose proof (tq_tasks _ _ H t) as E. unfold tk_tree in E. now inversion E. Qed.
  Lemma tq_group t : k_group (tasks s' t) = k_group (tasks s t).
  Proof. pose proof (tq_tasks _ _ H t) as E. unfold tk_tree in E. now inversion E. Qed.
  Lemma tq_hscope t : k_hscope (tasks s' t) = k_hscope (tasks s t).
  Proof. pose proof (tq_tasks _ _ H t) as E. unfold tk_tree in E. now inversion E. Qed.
  Lemma tq_tdran t : k_tdran (tasks s' t) = k_tdran (tasks s t).
  Proof. pose proof (tq_tasks _ _ H t) as E. unfold tk_tree in E. now inversion E. Qed.
  Lemma tq_gscope g : g_scope (groups s' g) = g_scope (groups s g).
  Proof. pose proof (tq_groups _ _ H g) as E. unfold gr_tree in E. now inversion E. Qed.
  Lemma tq_gtasks g : g_tasks (groups s' g) = g_tasks (groups s g).
  Proof. pose proof (tq_groups _ _ H g) as E. unfold gr_tree in E. now inversion E. Qed.
  Lemma tq_alloc_s x : alloc_s s' x <-> alloc_s s x.
  Proof. unfold alloc_s. now rewrite (tq_nscope _ _ H). Qed.
  Lemma tq_alloc_t x : alloc_t s' x <-> alloc_t s x.
  Proof. unfold alloc_t. now rewrite (tq_ntask _ _ H). Qed.
  Lemma tq_alloc_g x : alloc_g s' x <-> alloc_g s x.
  Proof. unfold alloc_g. now rewrite (tq_ngroup _ _ H). Qed.
  Lemma tq_base t : base s' t = base s t.
  Proof. unfold base. rewrite tq_group. destruct (k_group (tasks s t)); [now rewrite tq_gscope|reflexivity]. Qed.
  Lemma tq_notg c : notg s' c <-> notg s c.
  Proof.
    unfold notg. split; intros N g Hg.
    - rewrite <- tq_gscope. apply N. now apply tq_alloc_g.
    - rewrite tq_gscope. apply N. now apply tq_alloc_g.
  Qed.
End TreqProj.

(* stack only looks at host/active/parent of its members and at the base *)
Lemma stack_ext s s' t o l :
  stack s t o l -> base s' t = base s t ->
  (forall x, In x l -> s_host (scopes s' x) = s_host (scopes s x) /\
                       s_active (scopes s' x) = s_active (scopes s x) /\
                       s_parent (scopes s' x) = s_parent (scopes s x)) ->
  stack s' t o l.
Proof.
  intros H Hb. induction H as [|x l Hh Ha Hs IH]; intros Hx.
  - rewrite <- Hb. apply stack_nil.
  - destruct (Hx x (or_introl eq_refl)) as [E1 [E2 E3]].
    apply stack_cons; [now rewrite E1|now rewrite E2|].
    rewrite E3. apply IH. intros y Hy. apply Hx. now right.
Qed.

Lemma stack_members s t o l : stack s t o l ->
  forall x, In x l -> s_host (scopes s x) = Some t /\ s_active (scopes s x) = true.
Proof.
  induction 1 as [|x l Hh Ha Hs IH]; intros y Hy; [destruct Hy|].
  destruct Hy as [<-|Hy]; [now split|now apply IH].
Qed.

Lemma stack_rank s t o l (rk : sid -> nat) :
  (forall x p, s_active (scopes s x) = true -> s_parent (scopes s x) = Some p -> rk p < rk x) ->
  stack s t o l -> forall x, o = Some x -> forall y, In y l -> rk y <= rk x.
Proof.
  intros Hrk H. induction H as [|x l Hh Ha Hs IH]; intros z Hz y Hy; [destruct Hy|].
  inversion Hz; subst z. destruct Hy as [<-|Hy]; [apply le_n|].
  destruct (s_parent (scopes s x)) as [p|] eqn:Ep.
  - specialize (IH p eq_refl y Hy). specialize (Hrk x p Ha Ep). lia.
  - inversion Hs; subst; destruct Hy.
Qed.

Lemma stack_tail_rank s t x l (rk : sid -> nat) :
  (forall x p, s_active (scopes s x) = true -> s_parent (scopes s x) = Some p -> rk p < rk x) ->
  stack s t (Some x) (x :: l) -> s_active (scopes s x) = true -> forall y, In y l -> rk y < rk x.
Proof.
  intros Hrk H Ha y Hy. inversion H as [|x' l' Hh Ha' Hs]; subst.
  destruct (s_parent (scopes s x)) as [p|] eqn:Ep.
  - pose proof (stack_rank s t (Some p) l rk Hrk Hs p eq_refl y Hy). specialize (Hrk x p Ha Ep). lia.
  - inversion Hs; subst; destruct Hy.
Qed.

Lemma Tree_treq s s' : Tree s -> treq s s' -> Tree s'.
Proof.
  intros T H. constructor.
  - rewrite (tq_nscope _ _ H), (tq_ntask _ _ H), (tq_ngroup _ _ H). apply T.
  - intros x. rewrite (tq_active _ _ H), (tq_alloc_s _ _ H). apply T.
  - intros x. rewrite (tq_active _ _ H), (tq_host _ _ H). intros Ha.
    destruct (tr_host_act _ T x Ha) as [t [E A]]. exists t. split; [exact E|now apply (tq_alloc_t _ _ H)].
  - intros x. rewrite (tq_active _ _ H), (tq_host _ _ H). apply T.
  - intros p x. rewrite (tq_children _ _ H), (tq_active _ _ H), (tq_parent _ _ H). apply T.
  - intros x t. rewrite (tq_stasks _ _ H), (tq_cur _ _ H). apply T.
  - intros p. rewrite (tq_children _ _ H). apply T.
  - intros x. rewrite (tq_stasks _ _ H). apply T.
  - intros t x. rewrite (tq_cur _ _ H), (tq_active _ _ H). apply T.
  - intros t x. rewrite (tq_cur _ _ H), (tq_alloc_t _ _ H). apply T.
  - intros x p. rewrite !(tq_active _ _ H), (tq_parent _ _ H). apply T.
  - destruct (tr_rank _ T) as [rk Hrk]. exists rk. intros x p.
    rewrite (tq_active _ _ H), (tq_parent _ _ H). apply Hrk.
  - intros t. rewrite (tq_alloc_t _ _ H), (tq_tdran _ _ H), (tq_cur _ _ H). intros A D.
    destruct (tr_stack _ T t A D) as [l [S C]]. exists l. split.
    + eapply stack_ext; [exact S|apply (tq_base _ _ H)|].
      intros x _. now rewrite (tq_host _ _ H), (tq_active _ _ H), (tq_parent _ _ H).
    + intros x. rewrite (tq_active _ _ H), (tq_host _ _ H). apply C.
  - intros t. rewrite (tq_tdran _ _ H), (tq_cur _ _ H). intros D.
    destruct (tr_tdran _ T t D) as [E N]. split; [exact E|]. intros x. rewrite (tq_host _ _ H). apply N.
  - intros g. rewrite (tq_alloc_g _ _ H), (tq_gscope _ _ H), (tq_alloc_s _ _ H). apply T.
  - intros g1 g2. rewrite !(tq_alloc_g _ _ H), !(tq_gscope _ _ H). apply T.
  - intros g. rewrite (tq_alloc_g _ _ H), (tq_gscope _ _ H). apply T.
  - intros t g. rewrite (tq_alloc_t _ _ H), (tq_group _ _ H), (tq_hscope _ _ H),
      (tq_alloc_g _ _ H), (tq_alloc_s _ _ H), (tq_notg _ _ H). apply T.
  - intros t1 t2. rewrite !(tq_alloc_t _ _ H), !(tq_group _ _ H), !(tq_hscope _ _ H). apply T.
  - intros t g. rewrite (tq_alloc_t _ _ H), (tq_group _ _ H), (tq_tdran _ _ H), (tq_gtasks _ _ H). apply T.
  - intros t g. rewrite (tq_alloc_g _ _ H), (tq_gtasks _ _ H), (tq_gscope _ _ H), (tq_active _ _ H). apply T.
  - intros t g. rewrite (tq_alloc_t _ _ H), (tq_group _ _ H), (tq_tdran _ _ H), (tq_gscope _ _ H),
      (tq_host _ _ H). apply T.
  - intros t g. rewrite (tq_alloc_t _ _ H), (tq_group _ _ H), (tq_hscope _ _ H), (tq_active _ _ H),
      (tq_parent _ _ H), (tq_host _ _ H), (tq_gscope _ _ H). apply T.
Qed.

(* ---------------- entering a scope ---------------- *)
Section Enter.
  Variables (s : st) (c : sid) (t : tid).
  Hypothesis Hpc : k_cur (tasks s t) <> Some c.

  Lemma es_scope x :
    scopes (enter_struct s c t) x =
    if Nat.eqb x c
    then sc_active true (sc_parent (k_cur (tasks s t))
           (sc_tasks (add t (s_tasks (scopes s c))) (sc_host (Some t) (scopes s c))))
    else if opt_eqb (k_cur (tasks s t)) x
         then sc_tasks (del t (s_tasks (scopes s x))) (sc_children (add c (s_children (scopes s x))) (scopes s x))
         else scopes s x.
  Proof.
    unfold enter_struct. destruct (k_cur (tasks s t)) as [p|] eqn:Ep; cbn; unfold upd.
    - assert (p <> c) by congruence.
      destruct (Nat.eqb_spec x c) as [->|Hxc].
      + destruct (Nat.eqb_spec c p); [congruence|]. now rewrite Nat.eqb_refl.
      + rewrite (Nat.eqb_sym p x). destruct (Nat.eqb_spec x p) as [->|Hxp]; [|reflexivity].
        destruct (Nat.eqb_spec p c); [congruence|reflexivity].
    - destruct (Nat.eqb_spec x c) as [->|Hxc]; [now rewrite Nat.eqb_refl|reflexivity].
  Qed.

  Lemma es_task x :
    tasks (enter_struct s c t) x = if Nat.eqb x t then tk_cur (Some c) (tasks s t) else tasks s x.
  Proof. unfold enter_struct. destruct (k_cur (tasks s t)); reflexivity. Qed.

  Lemma es_misc :
    ntask (enter_struct s c t) = ntask s /\ nscope (enter_struct s c t) = nscope s /\
    ngroup (enter_struct s c t) = ngroup s /\ groups (enter_struct s c t) = groups s.
  Proof. unfold enter_struct. destruct (k_cur (tasks s t)); repeat split; reflexivity. Qed.
End Enter.

Ltac deq a b := destruct (Nat.eqb_spec a b) as [?|?]; [subst|].

Lemma no_members {A} (l : list A) : (forall x, ~ In x l) -> l = [].
Proof. destruct l as [|a l]; [reflexivity|]. intros H. exfalso. apply (H a). now left. Qed.

Section TreeEnter.
  Variables (s : st) (c : sid) (t : tid).
  Hypothesis T : Tree s.
  Hypothesis At : alloc_t s t.
  Hypothesis Dt : k_tdran (tasks s t) = false.
  Hypothesis Ac : alloc_s s c.
  Hypothesis Ic : s_active (scopes s c) = false.
  Hypothesis Hh : forall t' g, alloc_t s t' -> k_group (tasks s t') = Some g -> k_hscope (tasks s t') = c ->
                    t' = t /\ k_cur (tasks s t) = Some (g_scope (groups s g)).
  Hypothesis Hg : forall g, k_group (tasks s t) = Some g -> g_scope (groups s g) <> c.

  Let s' := enter_struct s c t.

  Lemma te_pc : k_cur (tasks s t) <> Some c.
  Proof. intros E. apply (tr_cur_act _ T) in E. congruence. Qed.

  Lemma te_nochild : s_children (scopes s c) = [].
  Proof.
    apply no_members. intros x Hx. apply (tr_child _ T) in Hx. destruct Hx as [Ha Hp].
    pose proof (tr_par_act _ T x c Ha Hp). congruence.
  Qed.

  Lemma te_notask : s_tasks (scopes s c) = [].
  Proof.
    apply no_members. intros x Hx. apply (tr_task _ T) in Hx. apply (tr_cur_act _ T) in Hx. congruence.
  Qed.

  Lemma te_A x : s_active (scopes s' x) = if Nat.eqb x c then true else s_active (scopes s x).
  Proof.
    unfold s'. rewrite (es_scope s c t te_pc). destruct (Nat.eqb x c); [reflexivity|].
    destruct (opt_eqb _ x); reflexivity.
  Qed.
  Lemma te_P x : s_parent (scopes s' x) = if Nat.eqb x c then k_cur (tasks s t) else s_parent (scopes s x).
  Proof.
    unfold s'. rewrite (es_scope s c t te_pc). destruct (Nat.eqb x c); [reflexivity|].
    destruct (opt_eqb _ x); reflexivity.
  Qed.
  Lemma te_H x : s_host (scopes s' x) = if Nat.eqb x c then Some t else s_host (scopes s x).
  Proof.
    unfold s'. rewrite (es_scope s c t te_pc). destruct (Nat.eqb x c); [reflexivity|].
    destruct (opt_eqb _ x); reflexivity.
  Qed.
  Lemma te_C x : s_children (scopes s' x) =
    if Nat.eqb x c then [] else
    if opt_eqb (k_cur (tasks s t)) x then add c (s_children (scopes s x)) else s_children (scopes s x).
  Proof.
    unfold s'. rewrite (es_scope s c t te_pc). destruct (Nat.eqb x c); [apply te_nochild|].
    destruct (opt_eqb _ x); reflexivity.
  Qed.
  Lemma te_T x : s_tasks (scopes s' x) =
    if Nat.eqb x c then [t] else
    if opt_eqb (k_cur (tasks s t)) x then del t (s_tasks (scopes s x)) else s_tasks (scopes s x).
  Proof.
    unfold s'. rewrite (es_scope s c t te_pc). destruct (Nat.eqb x c).
    - cbn. now rewrite te_notask.
    - destruct (opt_eqb _ x); reflexivity.
  Qed.
  Lemma te_cur x : k_cur (tasks s' x) = if Nat.eqb x t then Some c else k_cur (tasks s x).
  Proof. unfold s'. rewrite (es_task s c t te_pc). destruct (Nat.eqb_spec x t); [reflexivity|reflexivity]. Qed.
  Lemma te_group x : k_group (tasks s' x) = k_group (tasks s x).
  Proof. unfold s'. rewrite (es_task s c t te_pc). deq x t; reflexivity. Qed.
  Lemma te_hscope x : k_hscope (tasks s' x) = k_hscope (tasks s x).
  Proof. unfold s'. rewrite (es_task s c t te_pc). deq x t; reflexivity. Qed.
  Lemma te_tdran x : k_tdran (tasks s' x) = k_tdran (tasks s x).
  Proof. unfold s'. rewrite (es_task s c t te_pc). deq x t; reflexivity. Qed.
  Lemma te_groups : groups s' = groups s. Proof. apply (es_misc s c t te_pc). Qed.
  Lemma te_alloc_s x : alloc_s s' x <-> alloc_s s x.
  Proof. unfold alloc_s, s'. destruct (es_misc s c t te_pc) as [_ [E _]]. now rewrite E. Qed.
  Lemma te_alloc_t x : alloc_t s' x <-> alloc_t s x.
  Proof. unfold alloc_t, s'. destruct (es_misc s c t te_pc) as [E _]. now rewrite E. Qed.
  Lemma te_alloc_g x : alloc_g s' x <-> alloc_g s x.
  Proof. unfold alloc_g, s'. destruct (es_misc s c t te_pc) as [_ [_ [E _]]]. now rewrite E. Qed.
  Lemma te_base x : base s' x = base s x.
  Proof. unfold base. now rewrite te_group, te_groups. Qed.
  Lemma te_notg x : notg s' x <-> notg s x.
  Proof.
    unfold notg. rewrite te_groups. split; intros N g Hg'; apply N; now apply te_alloc_g.
  Qed.

  Lemma Tree_enter : Tree s'.
  Proof.
    pose proof te_pc as Hpc.
    constructor.
    - unfold s'. destruct (es_misc s c t te_pc) as [E1 [E2 [E3 _]]]. rewrite E1, E2, E3. apply T.
    - intros x. rewrite te_A, te_alloc_s. deq x c; [intros _; exact Ac|apply T].
    - intros x. rewrite te_A, te_H. deq x c.
      + intros _. exists t. split; [reflexivity|now apply te_alloc_t].
      + intros Ha. destruct (tr_host_act _ T x Ha) as [t' [E A]]. exists t'. split; [exact E|now apply te_alloc_t].
    - intros x. rewrite te_A, te_H. deq x c; [discriminate|apply T].
    - intros p x. rewrite te_C, te_A, te_P. deq p c.
      + split; [intros []|]. deq x c; intros [Ha Hp]; [contradiction|].
        pose proof (tr_par_act _ T x c Ha Hp). congruence.
      + destruct (opt_eqb (k_cur (tasks s t)) p) eqn:Ep.
        * apply opt_eqb_true in Ep. rewrite in_add. deq x c.
          -- split; [intros _; now split|intros _; now right].
          -- rewrite (tr_child _ T p x). split; [intros [H|H]; [exact H|contradiction]|intros H; now left].
        * apply opt_eqb_false in Ep. deq x c.
          -- split.
             ++ intros Hx. apply (tr_child _ T) in Hx. destruct Hx as [Ha _]. congruence.
             ++ intros [_ Hp]. contradiction.
          -- apply T.
    - intros x t'. rewrite te_T, te_cur. deq x c.
      + deq t' t.
        * split; [reflexivity|intros _; now left].
        * split; [intros [H|[]]; congruence|].
          intros E. apply (tr_cur_act _ T) in E. congruence.
      + destruct (opt_eqb (k_cur (tasks s t)) x) eqn:Ep.
        * apply opt_eqb_true in Ep. rewrite in_del. deq t' t.
          -- split; [intros [_ H]; contradiction|intros [= E]; congruence].
          -- rewrite (tr_task _ T x t'). split; [intros [H _]; exact H|intros H; now split].
        * apply opt_eqb_false in Ep. deq t' t.
          -- rewrite (tr_task _ T x t). split; [contradiction|intros [= E]; congruence].
          -- apply T.
    - intros p. rewrite te_C. deq p c; [constructor|].
      destruct (opt_eqb _ p); [apply nodup_add|]; apply T.
    - intros x. rewrite te_T. deq x c; [constructor; [intros []|constructor]|].
      destruct (opt_eqb _ x); [apply nodup_del|]; apply T.
    - intros t' x. rewrite te_cur, te_A. deq t' t.
      + intros [= <-]. now rewrite Nat.eqb_refl.
      + intros E. deq x c; [reflexivity|now apply (tr_cur_act _ T t')].
    - intros t' x. rewrite te_cur, te_alloc_t. deq t' t; [intros _; exact At|apply T].
    - intros x p. rewrite !te_A, te_P. deq x c.
      + intros _ E. apply (tr_cur_act _ T) in E. deq p c; [reflexivity|exact E].
      + intros Ha Hp. pose proof (tr_par_act _ T x p Ha Hp). deq p c; [reflexivity|assumption].
    - destruct (tr_rank _ T) as [rk Hrk].
      exists (upd rk c (S (match k_cur (tasks s t) with Some p => rk p | None => 0 end))).
      intros x p. rewrite te_A, te_P. unfold upd. deq x c.
      + intros _ E. rewrite E. deq p c; [congruence|]. lia.
      + intros Ha Hp. deq p c.
        * pose proof (tr_par_act _ T x c Ha Hp). congruence.
        * now apply Hrk.
    - intros t'. rewrite te_alloc_t, te_tdran, te_cur. intros A D.
      destruct (tr_stack _ T t' A D) as [l [S C]].
      assert (Hl : forall x, In x l ->
                   s_host (scopes s' x) = s_host (scopes s x) /\
                   s_active (scopes s' x) = s_active (scopes s x) /\
                   s_parent (scopes s' x) = s_parent (scopes s x)).
      { intros x Hx. destruct (stack_members _ _ _ _ S x Hx) as [_ Ha].
        rewrite te_H, te_A, te_P. deq x c; [congruence|now repeat split]. }
      deq t' t.
      + exists (c :: l). split.
        * apply stack_cons; [rewrite te_H; now rewrite Nat.eqb_refl|rewrite te_A; now rewrite Nat.eqb_refl|].
          rewrite te_P, Nat.eqb_refl. eapply stack_ext; [exact S|apply te_base|exact Hl].
        * intros x. rewrite te_A, te_H. deq x c; [intros _ _; now left|]. intros Ha Hh'. right. now apply C.
      + exists l. split.
        * eapply stack_ext; [exact S|apply te_base|exact Hl].
        * intros x. rewrite te_A, te_H. deq x c; [intros _ [= E]; congruence|apply C].
    - intros t'. rewrite te_tdran, te_cur. intros D.
      destruct (tr_tdran _ T t' D) as [E N]. deq t' t; [congruence|].
      split; [exact E|]. intros x. rewrite te_H. deq x c; [intros [= E']; congruence|apply N].
    - intros g. rewrite te_alloc_g, te_groups, te_alloc_s. apply T.
    - intros g1 g2. rewrite !te_alloc_g, te_groups. apply T.
    - intros g. rewrite te_alloc_g, te_groups. apply T.
    - intros t' g. rewrite te_alloc_t, te_group, te_hscope, te_alloc_g, te_alloc_s, te_notg. apply T.
    - intros t1 t2. rewrite !te_alloc_t, !te_group, !te_hscope. apply T.
    - intros t' g. rewrite te_alloc_t, te_group, te_tdran, te_groups. apply T.
    - intros t' g. rewrite te_alloc_g, te_groups, te_A. intros A Hin.
      deq (g_scope (groups s g)) c; [reflexivity|now apply (tr_gact _ T t' g)].
    - intros t' g. rewrite te_alloc_t, te_group, te_tdran, te_groups, te_H. intros A G D.
      deq (g_scope (groups s g)) c.
      + intros [= E]. subst t'. now apply (Hg g).
      + now apply (tr_ghost _ T t' g).
    - intros t' g. rewrite te_alloc_t, te_group, te_hscope, te_groups, te_A, te_P, te_H. intros A G.
      deq (k_hscope (tasks s t')) c.
      + intros _. destruct (Hh t' g A G eq_refl) as [-> E]. now split.
      + now apply (tr_hpar _ T t' g).
  Qed.
End TreeEnter.

(* ---------------- leaving a scope ---------------- *)
Definition xstate (s : st) (c : sid) (t : tid) : st := upd_scope (exit_struct s c t) c (sc_host None).

Section Exit.
  Variables (s : st) (c : sid) (t : tid).
  Hypothesis Hpc : s_parent (scopes s c) <> Some c.

  Lemma xs_tree x :
    sc_tree (scopes (xstate s c t) x) =
    if Nat.eqb x c
    then (s_parent (scopes s c), s_children (scopes s c), false, del t (s_tasks (scopes s c)), None)
    else if opt_eqb (s_parent (scopes s c)) x
         then (s_parent (scopes s x), del c (s_children (scopes s x)), s_active (scopes s x),
               add t (s_tasks (scopes s x)), s_host (scopes s x))
         else sc_tree (scopes s x).
  Proof.
    unfold xstate, exit_struct.
    set (s1 := cancel_timeout (upd_scope s c (sc_active false)) c).
    pose proof (treq_cancel_timeout (upd_scope s c (sc_active false)) c) as K. fold s1 in K.
    assert (Fp : forall y, s_parent (scopes s1 y) = s_parent (scopes s y)).
    { intros y. rewrite (tq_parent _ _ K). cbn. unfold upd. destruct (Nat.eqb_spec y c); [subst|]; reflexivity. }
    assert (Fc : forall y, s_children (scopes s1 y) = s_children (scopes s y)).
    { intros y. rewrite (tq_children _ _ K). cbn. unfold upd. destruct (Nat.eqb_spec y c); [subst|]; reflexivity. }
    assert (Ft : forall y, s_tasks (scopes s1 y) = s_tasks (scopes s y)).
    { intros y. rewrite (tq_stasks _ _ K). cbn. unfold upd. destruct (Nat.eqb_spec y c); [subst|]; reflexivity. }
    assert (Fh : forall y, s_host (scopes s1 y) = s_host (scopes s y)).
    { intros y. rewrite (tq_host _ _ K). cbn. unfold upd. destruct (Nat.eqb_spec y c); [subst|]; reflexivity. }
    assert (Fa : forall y, s_active (scopes s1 y) = if Nat.eqb y c then false else s_active (scopes s y)).
    { intros y. rewrite (tq_active _ _ K). cbn. unfold upd. destruct (Nat.eqb_spec y c); [subst|]; reflexivity. }
    clearbody s1. clear K.
    destruct (s_parent (scopes s c)) as [p|] eqn:Ep; cbn [scopes upd_scope set_scopes upd_task set_tasks opt_eqb].
    - assert (Hne : p <> c) by congruence.
      unfold upd. destruct (Nat.eqb_spec x c) as [->|Hxc].
      + destruct (Nat.eqb_spec c p); [congruence|]. rewrite Nat.eqb_refl.
        unfold sc_tree. cbn. now rewrite Fp, Fc, Fa, Ft, Ep, Nat.eqb_refl.
      + rewrite (Nat.eqb_sym p x). destruct (Nat.eqb_spec x p) as [->|Hxp].
        * destruct (Nat.eqb_spec p c); [congruence|].
          unfold sc_tree. cbn. rewrite Fp, Fc, Fa, Ft, Fh.
          destruct (Nat.eqb_spec p c); [congruence|reflexivity].
        * unfold sc_tree. rewrite Fp, Fc, Fa, Ft, Fh.
          destruct (Nat.eqb_spec x c); [congruence|reflexivity].
    - unfold upd. destruct (Nat.eqb_spec x c) as [->|Hxc].
      + rewrite Nat.eqb_refl. unfold sc_tree. cbn. now rewrite Fp, Fc, Fa, Ft, Ep, Nat.eqb_refl.
      + unfold sc_tree. rewrite Fp, Fc, Fa, Ft, Fh.
        destruct (Nat.eqb_spec x c); [congruence|reflexivity].
  Qed.

  Lemma xs_task x :
    tasks (xstate s c t) x = if Nat.eqb x t then tk_cur (s_parent (scopes s c)) (tasks s t) else tasks s x.
  Proof.
    unfold xstate, exit_struct. cbn [tasks upd_scope set_scopes upd_task set_tasks].
    assert (E : forall a, tasks (cancel_timeout a c) = tasks a).
    { intros a. unfold cancel_timeout. destruct (s_timeout (scopes a c)); reflexivity. }
    unfold upd. destruct (s_parent (scopes s c)); cbn [tasks upd_scope set_scopes]; rewrite E; reflexivity.
  Qed.

  Lemma xs_misc :
    ntask (xstate s c t) = ntask s /\ nscope (xstate s c t) = nscope s /\
    ngroup (xstate s c t) = ngroup s /\ groups (xstate s c t) = groups s.
  Proof.
    unfold xstate, exit_struct.
    destruct (s_parent (scopes s c)); cbn; unfold cancel_timeout; destruct (s_timeout _); repeat split; reflexivity.
  Qed.
End Exit.

Section TreeExit.
  Variables (s : st) (c : sid) (t : tid).
  Hypothesis T : Tree s.
  Hypothesis Hok : exit_ok s c t.
  Hypothesis NC : forall x, ~ In x (s_children (scopes s c)).
  Hypothesis NT : forall t', In t' (s_tasks (scopes s c)) -> t' = t.
  Hypothesis NG : forall g, alloc_g s g -> g_scope (groups s g) = c -> g_tasks (groups s g) = [].

  Let s' := xstate s c t.

  Lemma tx_pc : s_parent (scopes s c) <> Some c.
  Proof.
    destruct Hok as [Ha _]. destruct (tr_rank _ T) as [rk Hrk]. intros E.
    specialize (Hrk c c Ha E). lia.
  Qed.

  Lemma tx_A x : s_active (scopes s' x) = if Nat.eqb x c then false else s_active (scopes s x).
  Proof.
    change (s_active (scopes s' x)) with (snd (fst (fst (sc_tree (scopes s' x))))).
    unfold s'. rewrite (xs_tree s c t tx_pc x).
    destruct (Nat.eqb x c); [reflexivity|]. destruct (opt_eqb _ x); reflexivity.
  Qed.
  Lemma tx_P x : s_parent (scopes s' x) = s_parent (scopes s x).
  Proof.
    change (s_parent (scopes s' x)) with (fst (fst (fst (fst (sc_tree (scopes s' x)))))).
    unfold s'. rewrite (xs_tree s c t tx_pc x).
    deq x c; [reflexivity|]. destruct (opt_eqb _ x); reflexivity.
  Qed.
  Lemma tx_H x : s_host (scopes s' x) = if Nat.eqb x c then None else s_host (scopes s x).
  Proof.
    change (s_host (scopes s' x)) with (snd (sc_tree (scopes s' x))).
    unfold s'. rewrite (xs_tree s c t tx_pc x).
    destruct (Nat.eqb x c); [reflexivity|]. destruct (opt_eqb _ x); reflexivity.
  Qed.
  Lemma tx_C x : s_children (scopes s' x) =
    if Nat.eqb x c then s_children (scopes s c) else
    if opt_eqb (s_parent (scopes s c)) x then del c (s_children (scopes s x)) else s_children (scopes s x).
  Proof.
    change (s_children (scopes s' x)) with (snd (fst (fst (fst (sc_tree (scopes s' x)))))).
    unfold s'. rewrite (xs_tree s c t tx_pc x).
    destruct (Nat.eqb x c); [reflexivity|]. destruct (opt_eqb _ x); reflexivity.
  Qed.
  Lemma tx_T x : s_tasks (scopes s' x) =
    if Nat.eqb x c then del t (s_tasks (scopes s c)) else
    if opt_eqb (s_parent (scopes s c)) x then add t (s_tasks (scopes s x)) else s_tasks (scopes s x).
  Proof.
    change (s_tasks (scopes s' x)) with (snd (fst (sc_tree (scopes s' x)))).
    unfold s'. rewrite (xs_tree s c t tx_pc x).
    destruct (Nat.eqb x c); [reflexivity|]. destruct (opt_eqb _ x); reflexivity.
  Qed.
  Lemma tx_cur x : k_cur (tasks s' x) = if Nat.eqb x t then s_parent (scopes s c) else k_cur (tasks s x).
  Proof. unfold s'. rewrite (xs_task s c t tx_pc). destruct (Nat.eqb x t); reflexivity. Qed.
  Lemma tx_group x : k_group (tasks s' x) = k_group (tasks s x).
  Proof. unfold s'. rewrite (xs_task s c t tx_pc). deq x t; reflexivity. Qed.
  Lemma tx_hscope x : k_hscope (tasks s' x) = k_hscope (tasks s x).
  Proof. unfold s'. rewrite (xs_task s c t tx_pc). deq x t; reflexivity. Qed.
  Lemma tx_tdran x : k_tdran (tasks s' x) = k_tdran (tasks s x).
  Proof. unfold s'. rewrite (xs_task s c t tx_pc). deq x t; reflexivity. Qed.
  Lemma tx_groups : groups s' = groups s. Proof. apply (xs_misc s c t tx_pc). Qed.
  Lemma tx_alloc_s x : alloc_s s' x <-> alloc_s s x.
  Proof. unfold alloc_s, s'. destruct (xs_misc s c t tx_pc) as [_ [E _]]. now rewrite E. Qed.
  Lemma tx_alloc_t x : alloc_t s' x <-> alloc_t s x.
  Proof. unfold alloc_t, s'. destruct (xs_misc s c t tx_pc) as [E _]. now rewrite E. Qed.
  Lemma tx_alloc_g x : alloc_g s' x <-> alloc_g s x.
  Proof. unfold alloc_g, s'. destruct (xs_misc s c t tx_pc) as [_ [_ [E _]]]. now rewrite E. Qed.
  Lemma tx_base x : base s' x = base s x.
  Proof. unfold base. now rewrite tx_group, tx_groups. Qed.
  Lemma tx_notg x : notg s' x <-> notg s x.
  Proof. unfold notg. rewrite tx_groups. split; intros N g Hg'; apply N; now apply tx_alloc_g. Qed.

  Lemma Tree_exit : Tree s'.
  Proof.
    pose proof tx_pc as Hpc. destruct Hok as [Ha [Hh Hc]].
    assert (At : alloc_t s t) by (eapply tr_cur_alloc; eauto).
    assert (Dt : k_tdran (tasks s t) = false).
    { destruct (k_tdran (tasks s t)) eqn:D; [|reflexivity]. apply (tr_tdran _ T) in D. destruct D as [D _]. congruence. }
    constructor.
    - unfold s'. destruct (xs_misc s c t tx_pc) as [E1 [E2 [E3 _]]]. rewrite E1, E2, E3. apply T.
    - intros x. rewrite tx_A, tx_alloc_s. deq x c; [discriminate|apply T].
    - intros x. rewrite tx_A, tx_H. deq x c; [discriminate|].
      intros Hx. destruct (tr_host_act _ T x Hx) as [t' [E A]]. exists t'. split; [exact E|now apply tx_alloc_t].
    - intros x. rewrite tx_A, tx_H. deq x c; [reflexivity|apply T].
    - intros p x. rewrite tx_C, tx_A, tx_P. deq p c.
      + split; [intros Hx; now apply NC in Hx|]. deq x c; intros [Hx Hp]; [discriminate|].
        exfalso. apply (NC x). apply (tr_child _ T). now split.
      + destruct (opt_eqb (s_parent (scopes s c)) p) eqn:Ep.
        * apply opt_eqb_true in Ep. rewrite in_del. deq x c.
          -- split; [intros [_ H]; contradiction|intros [H _]; discriminate].
          -- rewrite (tr_child _ T p x). split; [intros [H _]; exact H|intros H; now split].
        * apply opt_eqb_false in Ep. deq x c.
          -- split; [|intros [H _]; discriminate].
             intros Hx. apply (tr_child _ T) in Hx. destruct Hx as [_ Hx]. contradiction.
          -- apply T.
    - intros x t'. rewrite tx_T, tx_cur. deq x c.
      + rewrite in_del. deq t' t.
        * split; [intros [_ H]; contradiction|intros E; contradiction].
        * rewrite (tr_task _ T c t'). split; [intros [H _]; exact H|intros H; now split].
      + destruct (opt_eqb (s_parent (scopes s c)) x) eqn:Ep.
        * apply opt_eqb_true in Ep. rewrite in_add. deq t' t.
          -- split; [intros _; exact Ep|intros _; now right].
          -- rewrite (tr_task _ T x t'). split; [intros [H|H]; [exact H|contradiction]|intros H; now left].
        * apply opt_eqb_false in Ep. deq t' t.
          -- rewrite (tr_task _ T x t). split; [intros E; congruence|intros E; contradiction].
          -- apply T.
    - intros p. rewrite tx_C. deq p c; [apply T|]. destruct (opt_eqb _ p); [apply nodup_del|]; apply T.
    - intros x. rewrite tx_T. deq x c; [apply nodup_del, T|]. destruct (opt_eqb _ x); [apply nodup_add|]; apply T.
    - intros t' x. rewrite tx_cur, tx_A. deq t' t.
      + intros E. pose proof (tr_par_act _ T c x Ha E). deq x c; [contradiction|assumption].
      + intros E. deq x c.
        * exfalso. apply n. apply NT. now apply (tr_task _ T).
        * now apply (tr_cur_act _ T t').
    - intros t' x. rewrite tx_cur, tx_alloc_t. deq t' t; [intros _; exact At|apply T].
    - intros x p. rewrite !tx_A, tx_P. deq x c; [discriminate|]. intros Hx Hp.
      deq p c.
      + exfalso. apply (NC x). apply (tr_child _ T). now split.
      + now apply (tr_par_act _ T x p).
    - destruct (tr_rank _ T) as [rk Hrk]. exists rk. intros x p. rewrite tx_A, tx_P.
      deq x c; [discriminate|apply Hrk].
    - intros t'. rewrite tx_alloc_t, tx_tdran, tx_cur. intros A D.
      destruct (tr_stack _ T t' A D) as [l [S C]].
      deq t' t.
      + rewrite Hc in S. inversion S as [E0|x l' Hh' Ha' S' E1]; subst.
        * exfalso. apply (C c Ha Hh).
        * destruct (tr_rank _ T) as [rk Hrk].
          assert (Hl : forall x, In x l' -> x <> c).
          { intros x Hx ->. pose proof (stack_tail_rank s t c l' rk Hrk S Ha c Hx). lia. }
          exists l'. split.
          -- eapply stack_ext; [exact S'|apply tx_base|].
             intros x Hx. specialize (Hl x Hx). rewrite tx_H, tx_A, tx_P. deq x c; [contradiction|now repeat split].
          -- intros x. rewrite tx_A, tx_H. deq x c; [discriminate|]. intros Hx Hhx.
             destruct (C x Hx Hhx) as [E|Hin]; [congruence|exact Hin].
      + assert (Hl : forall x, In x l -> x <> c).
        { intros x Hx ->. destruct (stack_members _ _ _ _ S c Hx) as [E _]. congruence. }
        exists l. split.
        * eapply stack_ext; [exact S|apply tx_base|].
          intros x Hx. specialize (Hl x Hx). rewrite tx_H, tx_A, tx_P. deq x c; [contradiction|now repeat split].
        * intros x. rewrite tx_A, tx_H. deq x c; [discriminate|apply C].
    - intros t'. rewrite tx_tdran, tx_cur. intros D. destruct (tr_tdran _ T t' D) as [E N].
      deq t' t; [congruence|]. split; [exact E|]. intros x. rewrite tx_H. deq x c; [discriminate|apply N].
    - intros g. rewrite tx_alloc_g, tx_groups, tx_alloc_s. apply T.
    - intros g1 g2. rewrite !tx_alloc_g, tx_groups. apply T.
    - intros g. rewrite tx_alloc_g, tx_groups. apply T.
    - intros t' g. rewrite tx_alloc_t, tx_group, tx_hscope, tx_alloc_g, tx_alloc_s, tx_notg. apply T.
    - intros t1 t2. rewrite !tx_alloc_t, !tx_group, !tx_hscope. apply T.
    - intros t' g. rewrite tx_alloc_t, tx_group, tx_tdran, tx_groups. apply T.
    - intros t' g. rewrite tx_alloc_g, tx_groups, tx_A. intros A Hin.
      deq (g_scope (groups s g)) c.
      + rewrite (NG g A eq_refl) in Hin. destruct Hin.
      + now apply (tr_gact _ T t' g).
    - intros t' g. rewrite tx_alloc_t, tx_group, tx_tdran, tx_groups, tx_H. intros A G D.
      deq (g_scope (groups s g)) c; [discriminate|now apply (tr_ghost _ T t' g)].
    - intros t' g. rewrite tx_alloc_t, tx_group, tx_hscope, tx_groups, tx_A, tx_P, tx_H. intros A G.
      deq (k_hscope (tasks s t')) c; [discriminate|now apply (tr_hpar _ T t' g)].
  Qed.
End TreeExit.

(* ---------------- allocating a scope ---------------- *)
Section TreeNewScope.
  Variables (s : st) (d : option Z) (sh : bool).
  Hypothesis T : Tree s.
  Let s' := fst (new_scope s d sh).

  Lemma tn_inactive : s_active (scopes s (nscope s)) = false.
  Proof.
    destruct (s_active (scopes s (nscope s))) eqn:E; [|reflexivity].
    apply (tr_act_alloc _ T) in E. destruct E as [_ E]. lia.
  Qed.
  Lemma tn_nochild : s_children (scopes s (nscope s)) = [].
  Proof.
    apply no_members. intros x Hx. apply (tr_child _ T) in Hx. destruct Hx as [Ha Hp].
    pose proof (tr_par_act _ T x (nscope s) Ha Hp). pose proof tn_inactive. congruence.
  Qed.
  Lemma tn_notask : s_tasks (scopes s (nscope s)) = [].
  Proof.
    apply no_members. intros x Hx. apply (tr_task _ T) in Hx. apply (tr_cur_act _ T) in Hx.
    pose proof tn_inactive. congruence.
  Qed.
  Lemma tn_A x : s_active (scopes s' x) = s_active (scopes s x).
  Proof. unfold s'. cbn. unfold upd. deq x (nscope s); [now rewrite tn_inactive|reflexivity]. Qed.
  Lemma tn_H x : s_host (scopes s' x) = s_host (scopes s x).
  Proof.
    unfold s'. cbn. unfold upd. deq x (nscope s); [|reflexivity].
    now rewrite (tr_host_inact _ T _ tn_inactive).
  Qed.
  Lemma tn_C x : s_children (scopes s' x) = s_children (scopes s x).
  Proof. unfold s'. cbn. unfold upd. deq x (nscope s); [now rewrite tn_nochild|reflexivity]. Qed.
  Lemma tn_T x : s_tasks (scopes s' x) = s_tasks (scopes s x).
  Proof. unfold s'. cbn. unfold upd. deq x (nscope s); [now rewrite tn_notask|reflexivity]. Qed.
  Lemma tn_P x : s_active (scopes s x) = true -> s_parent (scopes s' x) = s_parent (scopes s x).
  Proof.
    intros Ha. unfold s'. cbn. unfold upd. deq x (nscope s); [|reflexivity].
    pose proof tn_inactive. congruence.
  Qed.
  Lemma tn_alloc_s x : alloc_s s x -> alloc_s s' x.
  Proof. unfold alloc_s, s'. cbn. lia. Qed.

  Lemma Tree_new_scope : Tree s'.
  Proof.
    constructor.
    - unfold s'. cbn. destruct (tr_cnt _ T) as [A [B C]]. repeat split; try assumption. lia.
    - intros x. rewrite tn_A. intros Ha. now apply tn_alloc_s, T.
    - intros x. rewrite tn_A, tn_H. apply T.
    - intros x. rewrite tn_A, tn_H. apply T.
    - intros p x. rewrite tn_C, tn_A. rewrite (tr_child _ T p x). split; intros [Ha Hp]; (split; [exact Ha|]).
      + now rewrite tn_P.
      + now rewrite tn_P in Hp.
    - intros x t. rewrite tn_T. apply T.
    - intros p. rewrite tn_C. apply T.
    - intros x. rewrite tn_T. apply T.
    - intros t x. rewrite tn_A. apply T.
    - intros t x. apply T.
    - intros x p. rewrite !tn_A. intros Ha. rewrite (tn_P x Ha). now apply T.
    - destruct (tr_rank _ T) as [rk Hrk]. exists rk. intros x p. rewrite tn_A. intros Ha.
      rewrite (tn_P x Ha). now apply Hrk.
    - intros t A D. destruct (tr_stack _ T t A D) as [l [S C]]. exists l. split.
      + eapply stack_ext; [exact S|reflexivity|]. intros x Hx.
        destruct (stack_members _ _ _ _ S x Hx) as [_ Ha]. now rewrite tn_H, tn_A, (tn_P x Ha).
      + intros x. rewrite tn_A, tn_H. apply C.
    - intros t D. destruct (tr_tdran _ T t D) as [E N]. split; [exact E|]. intros x. rewrite tn_H. apply N.
    - intros g A. apply tn_alloc_s. exact (tr_gscope _ T g A).
    - exact (tr_gscope_inj _ T).
    - exact (tr_gblank _ T).
    - intros t g A G. destruct (tr_kgroup _ T t g A G) as [A1 [A2 A3]]. split; [exact A1|]. split; [|exact A3].
      now apply tn_alloc_s.
    - apply T.
    - apply T.
    - intros t g A Hin. rewrite tn_A. now apply (tr_gact _ T t g).
    - intros t g A G D. rewrite tn_H. now apply (tr_ghost _ T t g).
    - intros t g A G. rewrite tn_A, tn_H. intros Ha. rewrite (tn_P _ Ha). now apply (tr_hpar _ T t g).
  Qed.
End TreeNewScope.

(* ---------------- a new root task ---------------- *)
Definition root_struct (s : st) : st :=
  mkSt (upd (tasks s) (ntask s)
            (mkTask CIdle true None None false 0 0 None None None 0 0 None None None None false))
       (S (ntask s)) (scopes s) (nscope s) (groups s) (ngroup s) (futs s) (nfut s)
       (events s) (nevent s) (ready s) (timers s) (ntimer s) (now s) (running s).

Lemma alloc_t_root s x : alloc_t (root_struct s) x <-> alloc_t s x \/ (x = ntask s /\ 0 < x).
Proof. unfold alloc_t. cbn. lia. Qed.

Lemma Tree_fresh_task s t : Tree s -> ntask s <= t ->
  k_cur (tasks s t) = None /\ (forall x, s_host (scopes s x) <> Some t).
Proof.
  intros T Ht. split.
  - destruct (k_cur (tasks s t)) eqn:E; [|reflexivity]. apply (tr_cur_alloc _ T) in E. unfold alloc_t in E. lia.
  - intros x Hx. destruct (s_active (scopes s x)) eqn:Ea.
    + destruct (tr_host_act _ T x Ea) as [t' [E A]]. unfold alloc_t in A. rewrite Hx in E. inversion E. lia.
    + rewrite (tr_host_inact _ T x Ea) in Hx. discriminate.
Qed.

Lemma Tree_new_root s : Tree s -> Tree (root_struct s).
Proof.
  intros T. set (t := ntask s). set (s' := root_struct s).
  destruct (Tree_fresh_task s t T (le_n _)) as [Fc Fh].
  assert (Ecur : forall x, k_cur (tasks s' x) = k_cur (tasks s x)).
  { intros x. unfold s', root_struct. cbn. unfold upd. deq x (ntask s); [symmetry; exact Fc|reflexivity]. }
  assert (Eg : forall x, x <> t -> tasks s' x = tasks s x).
  { intros x Hx. unfold s', root_struct. cbn. unfold upd. deq x (ntask s); [contradiction|reflexivity]. }
  assert (Et : tasks s' t = mkTask CIdle true None None false 0 0 None None None 0 0 None None None None false).
  { unfold s', root_struct. cbn. unfold upd. now rewrite Nat.eqb_refl. }
  assert (Al : forall x, alloc_t s x -> alloc_t s' x) by (intros x; unfold alloc_t; cbn; lia).
  assert (Pos : 0 < t) by apply T.
  constructor; try (exact (tr_act_alloc _ T)); try (exact (tr_host_inact _ T)); try (exact (tr_child _ T));
    try (exact (tr_nd_c _ T)); try (exact (tr_nd_t _ T)); try (exact (tr_par_act _ T)); try (exact (tr_rank _ T));
    try (exact (tr_gscope _ T)); try (exact (tr_gscope_inj _ T)); try (exact (tr_gblank _ T)).
  - cbn. destruct (tr_cnt _ T) as [A [B C]]. repeat split; try assumption. lia.
  - intros x Ha. destruct (tr_host_act _ T x Ha) as [t' [E A]]. exists t'. split; [exact E|now apply Al].
  - intros x t'. rewrite Ecur. apply T.
  - intros t' x. rewrite Ecur. apply T.
  - intros t' x. rewrite Ecur. intros E. apply Al. now apply (tr_cur_alloc _ T t' x).
  - intros t' A D. rewrite Ecur. apply alloc_t_root in A. destruct A as [A|[-> _]].
    + assert (t' <> t) by (unfold alloc_t, t in *; lia).
      rewrite (Eg t' H) in D. destruct (tr_stack _ T t' A D) as [l [S C]]. exists l. split; [|exact C].
      eapply stack_ext; [exact S| |intros; now repeat split].
      unfold base. now rewrite (Eg t' H).
    + fold t. rewrite Fc. exists []. split.
      * replace (@None sid) with (base s' t) by (unfold base; now rewrite Et). apply stack_nil.
      * intros x _ Hx. now apply Fh in Hx.
  - intros t' D. rewrite Ecur. deq t' t; [rewrite Et in D; discriminate|].
    rewrite (Eg t' n) in D. now apply (tr_tdran _ T).
  - intros t' g A G. apply alloc_t_root in A. destruct A as [A|[-> _]].
    + assert (t' <> t) by (unfold alloc_t, t in *; lia). rewrite (Eg t' H) in *. now apply (tr_kgroup _ T).
    + fold t in G. rewrite Et in G. discriminate.
  - intros t1 t2 A1 A2 G1 G2. apply alloc_t_root in A1, A2.
    destruct A1 as [A1|[-> _]]; [|fold t in G1; rewrite Et in G1; now elim G1].
    destruct A2 as [A2|[-> _]]; [|fold t in G2; rewrite Et in G2; now elim G2].
    assert (t1 <> t) by (unfold alloc_t, t in *; lia). assert (t2 <> t) by (unfold alloc_t, t in *; lia).
    rewrite (Eg t1 H), (Eg t2 H0) in *. now apply (tr_hscope_inj _ T).
  - intros t' g A G D. apply alloc_t_root in A. destruct A as [A|[-> _]].
    + assert (t' <> t) by (unfold alloc_t, t in *; lia). rewrite (Eg t' H) in *. now apply (tr_member _ T).
    + fold t in G. rewrite Et in G. discriminate.
  - exact (tr_gact _ T).
  - intros t' g A G D. apply alloc_t_root in A. destruct A as [A|[-> _]].
    + assert (t' <> t) by (unfold alloc_t, t in *; lia). rewrite (Eg t' H) in *. now apply (tr_ghost _ T).
    + fold t in G. rewrite Et in G. discriminate.
  - intros t' g A G. apply alloc_t_root in A. destruct A as [A|[-> _]].
    + assert (t' <> t) by (unfold alloc_t, t in *; lia). rewrite (Eg t' H) in *. now apply (tr_hpar _ T).
    + fold t in G. rewrite Et in G. discriminate.
Qed.

(* ---------------- a new task group ---------------- *)
Definition gnew_struct (s : st) : st :=
  let s1 := fst (new_scope s None false) in
  mkSt (tasks s1) (ntask s1) (scopes s1) (nscope s1)
       (upd (groups s1) (ngroup s1) (mkGroup (nscope s) false [] [] None [] false)) (S (ngroup s1))
       (futs s1) (nfut s1) (events s1) (nevent s1) (ready s1) (timers s1) (ntimer s1) (now s1) (running s1).

Lemma Tree_group_new s : Tree s -> Tree (gnew_struct s).
Proof.
  intros T. pose proof (Tree_new_scope s None false T) as T1.
  set (s1 := fst (new_scope s None false)) in *. set (g := ngroup s). set (s' := gnew_struct s).
  assert (Eg : forall x, x <> g -> groups s' x = groups s1 x).
  { intros x Hx. unfold s', gnew_struct. cbn. unfold upd. deq x (ngroup s); [contradiction|reflexivity]. }
  assert (Egg : groups s' g = mkGroup (nscope s) false [] [] None [] false).
  { unfold s', gnew_struct. cbn. unfold upd. now rewrite Nat.eqb_refl. }
  assert (Al : forall x : nat, alloc_g s' x <-> alloc_g s1 x \/ x = g).
  { intros x. unfold alloc_g, s', gnew_struct, g, s1. cbn. destruct (tr_cnt _ T) as [_ [_ C]]. lia. }
  assert (Old : forall x, alloc_g s1 x -> x <> g) by (intros x; unfold alloc_g, g, s1; cbn; lia).
  assert (Gs : forall x, alloc_g s1 x -> g_scope (groups s1 x) < nscope s).
  { intros x A. apply (tr_gscope _ T x A). }
  assert (Hs : forall t g', alloc_t s1 t -> k_group (tasks s1 t) = Some g' -> k_hscope (tasks s1 t) < nscope s).
  { intros t g' A G. destruct (tr_kgroup _ T t g' A G) as [_ [[_ A2] _]]. exact A2. }
  assert (Bs : forall t, alloc_t s1 t -> base s' t = base s1 t).
  { intros t A. unfold base. change (tasks s' t) with (tasks s1 t).
    destruct (k_group (tasks s1 t)) as [g'|] eqn:G; [|reflexivity].
    destruct (tr_kgroup _ T1 t g' A G) as [A1 _]. now rewrite (Eg g' (Old g' A1)). }
  constructor; try (exact (tr_act_alloc _ T1)); try (exact (tr_host_act _ T1)); try (exact (tr_host_inact _ T1));
    try (exact (tr_child _ T1)); try (exact (tr_task _ T1)); try (exact (tr_nd_c _ T1)); try (exact (tr_nd_t _ T1));
    try (exact (tr_cur_act _ T1)); try (exact (tr_cur_alloc _ T1)); try (exact (tr_par_act _ T1));
    try (exact (tr_rank _ T1)); try (exact (tr_tdran _ T1)).
  - cbn. destruct (tr_cnt _ T1) as [A [B C]]. repeat split; try assumption. lia.
  - intros t A D. destruct (tr_stack _ T1 t A D) as [l [S C]]. exists l. split; [|exact C].
    eapply stack_ext; [exact S|now apply Bs|intros; now repeat split].
  - intros x A. apply Al in A. destruct A as [A| ->].
    + rewrite (Eg x (Old x A)). exact (tr_gscope _ T1 x A).
    + rewrite Egg. unfold alloc_s, s', gnew_struct. cbn. destruct (tr_cnt _ T) as [A _]. lia.
  - intros g1 g2 A1 A2. apply Al in A1, A2. destruct A1 as [A1| ->], A2 as [A2| ->].
    + rewrite (Eg g1 (Old g1 A1)), (Eg g2 (Old g2 A2)). now apply (tr_gscope_inj _ T1).
    + rewrite (Eg g1 (Old g1 A1)), Egg. cbn [g_scope]. intros E. pose proof (Gs g1 A1). lia.
    + rewrite (Eg g2 (Old g2 A2)), Egg. cbn [g_scope]. intros E. pose proof (Gs g2 A2). lia.
    + reflexivity.
  - intros x N. assert (x <> g) by (intros ->; apply N, Al; now right).
    rewrite (Eg x H). apply (tr_gblank _ T1). intros A. apply N, Al. now left.
  - intros t g' A G. destruct (tr_kgroup _ T1 t g' A G) as [A1 [A2 A3]].
    split; [apply Al; now left|]. split; [exact A2|].
    intros x Ax. apply Al in Ax. destruct Ax as [Ax| ->].
    + rewrite (Eg x (Old x Ax)). now apply A3.
    + rewrite Egg. cbn [g_scope]. change (tasks s' t) with (tasks s1 t). pose proof (Hs t g' A G). lia.
  - exact (tr_hscope_inj _ T1).
  - intros t g' A G D. destruct (tr_kgroup _ T1 t g' A G) as [A1 _]. rewrite (Eg g' (Old g' A1)).
    now apply (tr_member _ T1).
  - intros t x A Hin. apply Al in A. destruct A as [A| ->].
    + rewrite (Eg x (Old x A)) in *. now apply (tr_gact _ T1 t x).
    + rewrite Egg in Hin. destruct Hin.
  - intros t g' A G D. destruct (tr_kgroup _ T1 t g' A G) as [A1 _]. rewrite (Eg g' (Old g' A1)).
    now apply (tr_ghost _ T1).
  - intros t g' A G. destruct (tr_kgroup _ T1 t g' A G) as [A1 _]. rewrite (Eg g' (Old g' A1)).
    now apply (tr_hpar _ T1).
Qed.

(* ---------------- spawning a group child ---------------- *)
Definition spawn_struct (s : st) (g : gid) (startf : option fid) : st :=
  let t := ntask s in
  let s1 := fst (new_scope s None false) in
  let hs := nscope s in
  let e := nevent s1 in
  let k := mkTask CNew false None None false 0 0 (Some (g_scope (groups s1 g))) None (Some g) hs e None None
                  startf None false in
  let s2 := mkSt (upd (tasks s1) t k) (S t) (scopes s1) (nscope s1) (groups s1) (ngroup s1) (futs s1)
                 (nfut s1) (upd (events s1) e event0) (S e) (ready s1) (timers s1) (ntimer s1) (now s1)
                 (running s1) in
  let gs := g_scope (groups s2 g) in
  let s3 := upd_scope s2 gs (fun x => sc_tasks (add t (s_tasks x)) x) in
  upd_group s3 g (fun x => gr_ever (g_ever x ++ [t]) (gr_tasks (add t (g_tasks x)) x)).

Lemma spawn_task_eq s g startf :
  spawn_task s g startf =
  (call_soon (restart (spawn_struct s g startf) (Some (g_scope (groups s g)))) (HStep (ntask s)), ntask s).
Proof. reflexivity. Qed.

Lemma Tree_spawn s g startf :
  Tree s -> alloc_g s g -> s_active (scopes s (g_scope (groups s g))) = true ->
  Tree (spawn_struct s g startf).
Proof.
  intros T Ag Hact. pose proof (Tree_new_scope s None false T) as T1.
  set (s1 := fst (new_scope s None false)) in *. set (t := ntask s). set (hs := nscope s).
  set (gs := g_scope (groups s g)). set (s' := spawn_struct s g startf).
  assert (Ags : alloc_s s gs) by (apply (tr_gscope _ T g Ag)).
  assert (Hne : gs <> hs) by (unfold alloc_s, hs in *; lia).
  destruct (Tree_fresh_task s1 t T1 (le_n _)) as [Fc Fh].
  assert (Ihs : s_active (scopes s1 hs) = false).
  { unfold s1. rewrite tn_A by exact T. apply tn_inactive. exact T. }
  assert (Act1 : s_active (scopes s1 gs) = true).
  { unfold s1. rewrite tn_A by exact T. exact Hact. }
  (* fields of s' *)
  assert (Es : forall x, scopes s' x = if Nat.eqb x gs then sc_tasks (add t (s_tasks (scopes s1 gs))) (scopes s1 gs)
                                       else scopes s1 x).
  { intros x. unfold s', spawn_struct. cbn. reflexivity. }
  assert (EA : forall x, s_active (scopes s' x) = s_active (scopes s1 x)).
  { intros x. rewrite Es. deq x gs; reflexivity. }
  assert (EP : forall x, s_parent (scopes s' x) = s_parent (scopes s1 x)).
  { intros x. rewrite Es. deq x gs; reflexivity. }
  assert (EH : forall x, s_host (scopes s' x) = s_host (scopes s1 x)).
  { intros x. rewrite Es. deq x gs; reflexivity. }
  assert (EC : forall x, s_children (scopes s' x) = s_children (scopes s1 x)).
  { intros x. rewrite Es. deq x gs; reflexivity. }
  assert (ET : forall x, s_tasks (scopes s' x) = if Nat.eqb x gs then add t (s_tasks (scopes s1 gs))
                                                 else s_tasks (scopes s1 x)).
  { intros x. rewrite Es. deq x gs; reflexivity. }
  assert (Ek : forall x, x <> t -> tasks s' x = tasks s1 x).
  { intros x Hx. unfold s', spawn_struct. cbn. unfold upd. deq x (ntask s); [contradiction|reflexivity]. }
  assert (Ekt : k_cur (tasks s' t) = Some gs /\ k_group (tasks s' t) = Some g /\
                k_hscope (tasks s' t) = hs /\ k_tdran (tasks s' t) = false).
  { unfold s', spawn_struct. cbn. unfold upd. rewrite Nat.eqb_refl. cbn. repeat split. }
  destruct Ekt as [Kc [Kg [Kh Kd]]].
  assert (Egs : forall x, g_scope (groups s' x) = g_scope (groups s1 x)).
  { intros x. unfold s', spawn_struct. cbn. unfold upd. deq x g; reflexivity. }
  assert (Egt : forall x, g_tasks (groups s' x) = if Nat.eqb x g then add t (g_tasks (groups s1 g))
                                                  else g_tasks (groups s1 x)).
  { intros x. unfold s', spawn_struct. cbn. unfold upd. deq x g; reflexivity. }
  assert (Alt : forall x : nat, alloc_t s' x <-> alloc_t s1 x \/ x = t).
  { intros x. unfold alloc_t, s', spawn_struct, t, s1. cbn. destruct (tr_cnt _ T) as [_ [B _]]. lia. }
  assert (Old : forall x, alloc_t s1 x -> x <> t) by (intros x; unfold alloc_t, t, s1; cbn; lia).
  assert (Als : forall x, alloc_s s' x <-> alloc_s s1 x) by (intros x; reflexivity).
  assert (Alg : forall x, alloc_g s' x <-> alloc_g s1 x) by (intros x; reflexivity).
  assert (Ecur : forall x, k_cur (tasks s' x) = if Nat.eqb x t then Some gs else k_cur (tasks s1 x)).
  { intros x. deq x t; [exact Kc|now rewrite Ek]. }
  assert (Bs : forall x, x <> t -> base s' x = base s1 x).
  { intros x Hx. unfold base. rewrite (Ek x Hx). destruct (k_group (tasks s1 x)); [now rewrite Egs|reflexivity]. }
  assert (Ng : forall x, notg s' x <-> notg s1 x).
  { intros x. unfold notg. split; intros N y Hy; [rewrite <- Egs|rewrite Egs]; now apply N. }
  assert (Gold : forall x, alloc_g s1 x -> g_scope (groups s1 x) < hs).
  { intros x A. apply (tr_gscope _ T x A). }
  assert (Hold : forall x g', alloc_t s1 x -> k_group (tasks s1 x) = Some g' -> k_hscope (tasks s1 x) < hs).
  { intros x g' A G. destruct (tr_kgroup _ T x g' A G) as [_ [[_ A2] _]]. exact A2. }
  constructor.
  - cbn. destruct (tr_cnt _ T1) as [A [B C]]. repeat split; try assumption. lia.
  - intros x. rewrite EA. apply (tr_act_alloc _ T1).
  - intros x. rewrite EA, EH. intros Ha. destruct (tr_host_act _ T1 x Ha) as [t' [E A]].
    exists t'. split; [exact E|apply Alt; now left].
  - intros x. rewrite EA, EH. apply (tr_host_inact _ T1).
  - intros p x. rewrite EC, EA, EP. apply (tr_child _ T1).
  - intros x t'. rewrite ET, Ecur. deq x gs.
    + rewrite in_add. deq t' t.
      * split; [reflexivity|intros _; now right].
      * rewrite (tr_task _ T1 gs t'). split; [intros [H|H]; [exact H|contradiction]|intros H; now left].
    + deq t' t.
      * rewrite (tr_task _ T1 x t), Fc. split; [discriminate|intros [= E]; congruence].
      * apply (tr_task _ T1).
  - intros p. rewrite EC. apply (tr_nd_c _ T1).
  - intros x. rewrite ET. deq x gs; [apply nodup_add|]; apply (tr_nd_t _ T1).
  - intros t' x. rewrite Ecur, EA. deq t' t; [intros [= <-]; exact Act1|apply (tr_cur_act _ T1)].
  - intros t' x. rewrite Ecur. deq t' t.
    + intros _. apply Alt. now right.
    + intros E. apply Alt. left. now apply (tr_cur_alloc _ T1 t' x).
  - intros x p. rewrite !EA, EP. apply (tr_par_act _ T1).
  - destruct (tr_rank _ T1) as [rk Hrk]. exists rk. intros x p. rewrite EA, EP. apply Hrk.
  - intros t' A D. apply Alt in A. destruct A as [A| ->].
    + pose proof (Old t' A) as Hn. rewrite (Ek t' Hn) in *.
      destruct (tr_stack _ T1 t' A D) as [l [S C]]. exists l. split.
      * eapply stack_ext; [exact S|now apply Bs|]. intros x _. now rewrite EH, EA, EP.
      * intros x. rewrite EA, EH. apply C.
    + exists []. split.
      * rewrite Kc. replace (Some gs) with (base s' t); [apply stack_nil|].
        unfold base. rewrite Kg, Egs. reflexivity.
      * intros x _. rewrite EH. intros Hx. now apply Fh in Hx.
  - intros t' D. deq t' t; [congruence|]. rewrite (Ek t' n) in *.
    destruct (tr_tdran _ T1 t' D) as [E N]. split; [exact E|]. intros x. rewrite EH. apply N.
  - intros x A. rewrite Egs. apply (tr_gscope _ T1 x A).
  - intros g1 g2 A1 A2. rewrite !Egs. now apply (tr_gscope_inj _ T1).
  - intros x N. rewrite Egs. now apply (tr_gblank _ T1).
  - intros t' g' A G. apply Alt in A. destruct A as [A| ->].
    + rewrite (Ek t' (Old t' A)) in *. rewrite Ng. now apply (tr_kgroup _ T1).
    + rewrite Kg in G. inversion G; subst g'. rewrite Kh. split; [exact Ag|]. split.
      * unfold alloc_s, hs, s', spawn_struct. cbn. destruct (tr_cnt _ T) as [A _]. lia.
      * apply Ng. intros y Hy E. pose proof (Gold y Hy). lia.
  - intros t1 t2 A1 A2 G1 G2 E. apply Alt in A1, A2. destruct A1 as [A1| ->], A2 as [A2| ->].
    + rewrite (Ek t1 (Old t1 A1)), (Ek t2 (Old t2 A2)) in *. now apply (tr_hscope_inj _ T1).
    + rewrite (Ek t1 (Old t1 A1)), Kh in *. destruct (k_group (tasks s1 t1)) as [g'|] eqn:G; [|now elim G1].
      pose proof (Hold t1 g' A1 G). lia.
    + rewrite (Ek t2 (Old t2 A2)), Kh in *. destruct (k_group (tasks s1 t2)) as [g'|] eqn:G; [|now elim G2].
      pose proof (Hold t2 g' A2 G). lia.
    + reflexivity.
  - intros t' g' A G D. rewrite Egt. apply Alt in A. destruct A as [A| ->].
    + rewrite (Ek t' (Old t' A)) in *. pose proof (tr_member _ T1 t' g' A G D) as M.
      deq g' g; [apply in_add; now left|exact M].
    + rewrite Kg in G. inversion G; subst g'. rewrite Nat.eqb_refl. apply in_add. now right.
  - intros t' g' A. rewrite Egt, Egs, EA. deq g' g.
    + intros _. exact Act1.
    + apply (tr_gact _ T1 t' g' A).
  - intros t' g' A G D. rewrite Egs, EH. apply Alt in A. destruct A as [A| ->].
    + rewrite (Ek t' (Old t' A)) in *. now apply (tr_ghost _ T1).
    + apply Fh.
  - intros t' g' A G. rewrite Egs, EA, EP, EH. apply Alt in A. destruct A as [A| ->].
    + rewrite (Ek t' (Old t' A)) in *. now apply (tr_hpar _ T1).
    + rewrite Kh, Ihs. discriminate.
Qed.

(* ---------------- the done-callback of a group child ---------------- *)
Definition td_struct (s : st) (t : tid) (g : gid) : st :=
  let s1 := match k_cur (tasks s t) with
            | Some c => upd_scope s c (fun x => sc_tasks (del t (s_tasks x)) x)
            | None => s
            end in
  let s2 := upd_group s1 g (fun x => gr_tasks (del t (g_tasks x)) x) in
  upd_task s2 t (fun x => tk_tdran true (tk_cur None x)).

Definition td_tail (s3 : st) (k : task) (g : gid) (t : tid) : st :=
  let s4 := match g_fut (groups s3 g), g_tasks (groups s3 g) with
            | Some f, [] => fut_complete s3 f (FRes 0)
            | _, _ => s3
            end in
  let exc := match k_done k with
             | Some (OExc e) => Some e
             | Some (OCanc e) => Some e
             | _ => None
             end in
  let sf := k_startfut k in
  let sf_state := match sf with Some f => Some (f_st (futs s4 f)) | None => None end in
  match exc with
  | Some e =>
      match sf_state with
      | Some (FCanc _) =>
          if is_cancel e then s4 else
          let s5 := upd_group s4 g (fun x => gr_excs (g_excs x ++ [(t, e)]) x) in
          (* F23: a failed child calls cancel() on the group's own scope; cancel() is a no-op when it has been
             called before, so the test `if not cancel_called` of the source is folded into scope_cancel *)
          scope_cancel s5 (g_scope (groups s5 g)) false
      | Some FPend =>
          match sf with Some f => fut_complete s4 f (FExc e) | None => s4 end
      | _ =>
          if is_cancel e then
            if eff_cancelled s4 (g_scope (groups s4 g)) then s4 else scope_cancel s4 (g_scope (groups s4 g)) false
          else
            let s5 := upd_group s4 g (fun x => gr_excs (g_excs x ++ [(t, e)]) x) in
            scope_cancel s5 (g_scope (groups s5 g)) false
      end
  | None =>
      match sf, sf_state with
      | Some f, Some FPend => fut_complete s4 f (FExc ERuntime)
      | _, _ => s4
      end
  end.

Lemma scope_cancel_idem s c b : (if s_cancelled (scopes s c) then s else scope_cancel s c b) = scope_cancel s c b.
Proof. unfold scope_cancel. destruct (s_cancelled (scopes s c)); reflexivity. Qed.

Lemma run_task_done_eq s0 t :
  run_task_done s0 t =
  match k_group (tasks s0 t) with
  | None => set_running s0 None
  | Some g => td_tail (td_struct (set_running s0 None) t g) (tasks s0 t) g t
  end.
Proof.
  unfold run_task_done. cbn [tasks set_running]. destruct (k_group (tasks s0 t)) as [g|]; [|reflexivity].
  unfold td_tail, td_struct. cbn zeta. cbn [tasks set_running].
  destruct (k_done (tasks s0 t)) as [[v|e|e]|]; try reflexivity.
  - destruct (k_startfut (tasks s0 t)) as [f|].
    + match goal with |- context [f_st (futs ?a f)] => destruct (f_st (futs a f)) end; try reflexivity;
        destruct (is_cancel e); try reflexivity; apply scope_cancel_idem.
    + destruct (is_cancel e); try reflexivity; apply scope_cancel_idem.
  - destruct (k_startfut (tasks s0 t)) as [f|].
    + match goal with |- context [f_st (futs ?a f)] => destruct (f_st (futs a f)) end; try reflexivity;
        destruct (is_cancel e); try reflexivity; apply scope_cancel_idem.
    + destruct (is_cancel e); try reflexivity; apply scope_cancel_idem.
Qed.

Lemma treq_td_tail s3 k g t : treq s3 (td_tail s3 k g t).
Proof.
  unfold td_tail.
  set (s4 := match g_fut (groups s3 g) with
             | Some f => match g_tasks (groups s3 g) with [] => fut_complete s3 f (FRes 0) | _ :: _ => s3 end
             | None => s3 end).
  assert (K4 : treq s3 s4).
  { unfold s4. destruct (g_fut (groups s3 g)); [|apply treq_refl].
    destruct (g_tasks (groups s3 g)); [apply treq_fut_complete|apply treq_refl]. }
  clearbody s4.
  assert (Kx : forall e, treq s4 (upd_group s4 g (fun x => gr_excs (g_excs x ++ [(t, e)]) x))).
  { intros e. apply treq_upd_group. intros x; reflexivity. }
  assert (Kc : forall a, treq a (if eff_cancelled a (g_scope (groups a g)) then a
                                 else scope_cancel a (g_scope (groups a g)) false)).
  { intros a. destruct (eff_cancelled a _); [apply treq_refl|apply treq_scope_cancel]. }
  assert (Kc2 : forall a, treq a (scope_cancel a (g_scope (groups a g)) false)) by (intros a; apply treq_scope_cancel).
  eapply treq_trans; [exact K4|].
  destruct (k_done k) as [[v|e|e]|].
  - destruct (k_startfut k) as [f|]; [|apply treq_refl].
    destruct (f_st (futs s4 f)); try apply treq_refl. apply treq_fut_complete.
  - destruct (k_startfut k) as [f|].
    + destruct (f_st (futs s4 f)).
      * apply treq_fut_complete.
      * destruct (is_cancel e); [apply Kc|]. eapply treq_trans; [apply Kx|apply Kc2].
      * destruct (is_cancel e); [apply Kc|]. eapply treq_trans; [apply Kx|apply Kc2].
      * destruct (is_cancel e); [apply treq_refl|]. eapply treq_trans; [apply Kx|apply Kc2].
    + destruct (is_cancel e); [apply Kc|]. eapply treq_trans; [apply Kx|apply Kc2].
  - destruct (k_startfut k) as [f|].
    + destruct (f_st (futs s4 f)).
      * apply treq_fut_complete.
      * destruct (is_cancel e); [apply Kc|]. eapply treq_trans; [apply Kx|apply Kc2].
      * destruct (is_cancel e); [apply Kc|]. eapply treq_trans; [apply Kx|apply Kc2].
      * destruct (is_cancel e); [apply treq_refl|]. eapply treq_trans; [apply Kx|apply Kc2].
    + destruct (is_cancel e); [apply Kc|]. eapply treq_trans; [apply Kx|apply Kc2].
  - destruct (k_startfut k) as [f|]; [|apply treq_refl].
    destruct (f_st (futs s4 f)); try apply treq_refl. apply treq_fut_complete.
Qed.

Lemma Tree_td s t g :
  Tree s -> (forall x, s_host (scopes s x) <> Some t) -> Tree (td_struct s t g).
Proof.
  intros T Hn. set (s' := td_struct s t g).
  assert (Es : forall x, scopes s' x = if opt_eqb (k_cur (tasks s t)) x
                                       then sc_tasks (del t (s_tasks (scopes s x))) (scopes s x) else scopes s x).
  { intros x. unfold s', td_struct. destruct (k_cur (tasks s t)) as [c|]; cbn; [|reflexivity].
    unfold upd. rewrite (Nat.eqb_sym c x). deq x c; reflexivity. }
  assert (EA : forall x, s_active (scopes s' x) = s_active (scopes s x)).
  { intros x. rewrite Es. destruct (opt_eqb _ x); reflexivity. }
  assert (EP : forall x, s_parent (scopes s' x) = s_parent (scopes s x)).
  { intros x. rewrite Es. destruct (opt_eqb _ x); reflexivity. }
  assert (EH : forall x, s_host (scopes s' x) = s_host (scopes s x)).
  { intros x. rewrite Es. destruct (opt_eqb _ x); reflexivity. }
  assert (EC : forall x, s_children (scopes s' x) = s_children (scopes s x)).
  { intros x. rewrite Es. destruct (opt_eqb _ x); reflexivity. }
  assert (ET : forall x, s_tasks (scopes s' x) = if opt_eqb (k_cur (tasks s t)) x
                                                 then del t (s_tasks (scopes s x)) else s_tasks (scopes s x)).
  { intros x. rewrite Es. destruct (opt_eqb _ x); reflexivity. }
  assert (Ek : forall x, tasks s' x = if Nat.eqb x t then tk_tdran true (tk_cur None (tasks s t)) else tasks s x).
  { intros x. unfold s', td_struct. cbn. unfold upd. destruct (k_cur (tasks s t)); reflexivity. }
  assert (Ecur : forall x, k_cur (tasks s' x) = if Nat.eqb x t then None else k_cur (tasks s x)).
  { intros x. rewrite Ek. deq x t; reflexivity. }
  assert (Egrp : forall x, k_group (tasks s' x) = k_group (tasks s x)).
  { intros x. rewrite Ek. deq x t; reflexivity. }
  assert (Ehs : forall x, k_hscope (tasks s' x) = k_hscope (tasks s x)).
  { intros x. rewrite Ek. deq x t; reflexivity. }
  assert (Etd : forall x, k_tdran (tasks s' x) = if Nat.eqb x t then true else k_tdran (tasks s x)).
  { intros x. rewrite Ek. deq x t; reflexivity. }
  assert (Egs : forall x, g_scope (groups s' x) = g_scope (groups s x)).
  { intros x. unfold s', td_struct. cbn. unfold upd. destruct (k_cur (tasks s t)); deq x g; reflexivity. }
  assert (Egt : forall x, g_tasks (groups s' x) = if Nat.eqb x g then del t (g_tasks (groups s g))
                                                  else g_tasks (groups s x)).
  { intros x. unfold s', td_struct. cbn. unfold upd. destruct (k_cur (tasks s t)); deq x g; reflexivity. }
  assert (Cn : ntask s' = ntask s /\ nscope s' = nscope s /\ ngroup s' = ngroup s).
  { unfold s', td_struct. destruct (k_cur (tasks s t)); repeat split; reflexivity. }
  destruct Cn as [Cn1 [Cn2 Cn3]].
  assert (Alt : forall x, alloc_t s' x <-> alloc_t s x) by (intros x; unfold alloc_t; now rewrite Cn1).
  assert (Als : forall x, alloc_s s' x <-> alloc_s s x) by (intros x; unfold alloc_s; now rewrite Cn2).
  assert (Alg : forall x, alloc_g s' x <-> alloc_g s x) by (intros x; unfold alloc_g; now rewrite Cn3).
  assert (Bs : forall x, base s' x = base s x).
  { intros x. unfold base. rewrite Egrp. destruct (k_group (tasks s x)); [now rewrite Egs|reflexivity]. }
  assert (Ng : forall x, notg s' x <-> notg s x).
  { intros x. unfold notg. split; intros N y Hy; [rewrite <- Egs|rewrite Egs]; apply N; now apply Alg. }
  constructor.
  - rewrite Cn1, Cn2, Cn3. apply T.
  - intros x. rewrite EA, Als. apply T.
  - intros x. rewrite EA, EH. intros Ha. destruct (tr_host_act _ T x Ha) as [t' [E A]].
    exists t'. split; [exact E|now apply Alt].
  - intros x. rewrite EA, EH. apply T.
  - intros p x. rewrite EC, EA, EP. apply T.
  - intros x t'. rewrite ET, Ecur. destruct (opt_eqb (k_cur (tasks s t)) x) eqn:E.
    + apply opt_eqb_true in E. rewrite in_del. deq t' t.
      * split; [intros [_ H]; contradiction|discriminate].
      * rewrite (tr_task _ T x t'). split; [intros [H _]; exact H|intros H; now split].
    + apply opt_eqb_false in E. deq t' t.
      * rewrite (tr_task _ T x t). split; [contradiction|discriminate].
      * apply T.
  - intros p. rewrite EC. apply T.
  - intros x. rewrite ET. destruct (opt_eqb _ x); [apply nodup_del|]; apply T.
  - intros t' x. rewrite Ecur, EA. deq t' t; [discriminate|apply T].
  - intros t' x. rewrite Ecur, Alt. deq t' t; [discriminate|apply T].
  - intros x p. rewrite !EA, EP. apply T.
  - destruct (tr_rank _ T) as [rk Hrk]. exists rk. intros x p. rewrite EA, EP. apply Hrk.
  - intros t'. rewrite Alt, Etd, Ecur. deq t' t; [discriminate|]. intros A D.
    destruct (tr_stack _ T t' A D) as [l [S C]]. exists l. split.
    + eapply stack_ext; [exact S|apply Bs|]. intros x _. now rewrite EH, EA, EP.
    + intros x. rewrite EA, EH. apply C.
  - intros t'. rewrite Etd, Ecur. deq t' t.
    + intros _. split; [reflexivity|]. intros x. rewrite EH. apply Hn.
    + intros D. destruct (tr_tdran _ T t' D) as [E N]. split; [exact E|]. intros x. rewrite EH. apply N.
  - intros x. rewrite Alg, Egs, Als. apply T.
  - intros g1 g2. rewrite !Alg, !Egs. apply T.
  - intros x. rewrite Alg, Egs. apply T.
  - intros t' g'. rewrite Alt, Egrp, Ehs, Alg, Als, Ng. apply T.
  - intros t1 t2. rewrite !Alt, !Egrp, !Ehs. apply T.
  - intros t' g'. rewrite Alt, Egrp, Etd, Egt. deq t' t; [discriminate|]. intros A G D.
    pose proof (tr_member _ T t' g' A G D) as M. deq g' g; [apply in_del; now split|exact M].
  - intros t' g'. rewrite Alg, Egt, Egs, EA. intros A Hin. apply (tr_gact _ T t' g' A).
    deq g' g; [apply in_del in Hin; apply Hin|exact Hin].
  - intros t' g'. rewrite Alt, Egrp, Etd, Egs, EH. deq t' t; [discriminate|]. apply T.
  - intros t' g'. rewrite Alt, Egrp, Ehs, Egs, EA, EP, EH. apply T.
Qed.

(* ================= control-state facts needed by the tree invariant ================= *)
Definition ctl_scope (c : ctl) : option sid :=
  match c with
  | CYield (YShield x) => Some x
  | CAexitWait _ x _ => Some x
  | CAexitCk _ x _ => Some x
  | CStartJoin _ x _ _ => Some x
  | _ => None
  end.

Definition cok (s : st) (t : tid) : Prop :=
  (k_ctl (tasks s t) = CNew ->
     k_cur (tasks s t) = base s t /\ k_group (tasks s t) <> None /\ forall x, s_host (scopes s x) <> Some t) /\
  (forall g c e, k_ctl (tasks s t) = CAexitCk g c e ->
     k_cur (tasks s t) = Some c /\ k_waiter (tasks s t) = None) /\
  (forall c, ctl_scope (k_ctl (tasks s t)) = Some c -> alloc_s s c /\ notg s c) /\
  (k_ctl (tasks s t) = CDone -> forall x, s_host (scopes s x) <> Some t) /\
  (k_tdran (tasks s t) = true -> k_ctl (tasks s t) = CDone).

Record Ctl (s : st) : Prop := {
  c_ok : forall t, alloc_t s t -> cok s t;
  c_unalloc : forall t, ~ alloc_t s t -> k_ctl (tasks s t) = CDone;
  c_td : forall t, In (HTaskDone t) (ready s) -> alloc_t s t /\ k_ctl (tasks s t) = CDone
}.

Definition cokx (s : st) (t : tid) : Prop :=
  (alloc_t s t -> cok s t) /\ (~ alloc_t s t -> k_ctl (tasks s t) = CDone) /\
  (In (HTaskDone t) (ready s) -> alloc_t s t /\ k_ctl (tasks s t) = CDone).

Record creq (l : list tid) (s s' : st) : Prop := {
  cq_tcb : tcb l s s';
  cq_alloc_t : forall t, alloc_t s t -> alloc_t s' t;
  cq_alloc_t' : forall t, alloc_t s' t -> alloc_t s t \/ In t l;
  cq_host : forall t x, ~ In t l -> s_host (scopes s' x) = Some t -> s_host (scopes s x) = Some t;
  cq_base : forall t, ~ In t l -> alloc_t s t -> base s' t = base s t;
  cq_alloc_s : forall c, alloc_s s c -> alloc_s s' c;
  cq_notg : forall c, alloc_s s c -> notg s c -> notg s' c;
  cq_td : forall t, In (HTaskDone t) (ready s') -> In (HTaskDone t) (ready s) \/ In t l;
  cq_ids : forall t, alloc_t s t -> k_group (tasks s' t) = k_group (tasks s t) /\
                                    k_hscope (tasks s' t) = k_hscope (tasks s t) /\
                                    k_tdran (tasks s' t) = k_tdran (tasks s t)
}.

Lemma creq_refl l s : creq l s s.
Proof. constructor; auto. apply tcb_refl. Qed.

Lemma creq_trans l a b c : creq l a b -> creq l b c -> creq l a c.
Proof.
  intros H1 H2. constructor.
  - eapply tcb_trans; [apply H1|apply H2].
  - intros t A. apply H2, H1, A.
  - intros t A. apply (cq_alloc_t' _ _ _ H2) in A. destruct A as [A|A]; [|now right]. now apply (cq_alloc_t' _ _ _ H1).
  - intros t x N E. apply (cq_host _ _ _ H1 t x N). now apply (cq_host _ _ _ H2 t x N).
  - intros t N A. rewrite (cq_base _ _ _ H2 t N (cq_alloc_t _ _ _ H1 t A)). now apply (cq_base _ _ _ H1).
  - intros x A. apply H2, H1, A.
  - intros x A N. apply (cq_notg _ _ _ H2); [now apply H1|now apply (cq_notg _ _ _ H1)].
  - intros t A. apply (cq_td _ _ _ H2) in A. destruct A as [A|A]; [|now right]. now apply (cq_td _ _ _ H1).
  - intros t A. destruct (cq_ids _ _ _ H1 t A) as [E1 [E2 E3]].
    destruct (cq_ids _ _ _ H2 t (cq_alloc_t _ _ _ H1 t A)) as [F1 [F2 F3]].
    rewrite F1, F2, F3. now repeat split.
Qed.

Lemma creq_treq l s s' : treq s s' -> tcb l s s' -> rq_td s s' -> creq l s s'.
Proof.
  intros H Hc Hr. constructor.
  - exact Hc.
  - intros t. now rewrite (tq_alloc_t _ _ H).
  - intros t A. left. now apply (tq_alloc_t _ _ H).
  - intros t x _. now rewrite (tq_host _ _ H).
  - intros t _ _. apply (tq_base _ _ H).
  - intros x. now rewrite (tq_alloc_s _ _ H).
  - intros x _. now rewrite (tq_notg _ _ H).
  - intros t A. left. now apply Hr.
  - intros t _. now rewrite (tq_group _ _ H), (tq_hscope _ _ H), (tq_tdran _ _ H).
Qed.

Record creq0 (l : list tid) (s s' : st) : Prop := {
  c0_tcb : tcb l s s';
  c0_alloc_t : forall t, alloc_t s t -> alloc_t s' t;
  c0_alloc_t' : forall t, alloc_t s' t -> alloc_t s t \/ In t l;
  c0_host : forall t x, ~ In t l -> s_host (scopes s' x) = Some t -> s_host (scopes s x) = Some t;
  c0_base : forall t, ~ In t l -> alloc_t s t -> base s' t = base s t;
  c0_alloc_s : forall c, alloc_s s c -> alloc_s s' c;
  c0_notg : forall c, alloc_s s c -> notg s c -> notg s' c;
  c0_td : forall t, In (HTaskDone t) (ready s') -> In (HTaskDone t) (ready s) \/ In t l
}.

Lemma creq_creq0 l s s' : creq l s s' -> creq0 l s s'.
Proof. intros Q. constructor; apply Q. Qed.

Lemma Ctl_step0 l s s' :
  Ctl s -> creq0 l s s' -> (forall t, In t l -> cokx s' t) -> Ctl s'.
Proof.
  intros C Q Hl.
  assert (Same : forall t, ~ In t l -> tk_core (tasks s' t) = tk_core (tasks s t)) by apply Q.
  constructor.
  - intros t A. destruct (in_dec Nat.eq_dec t l) as [Hin|Hn]; [destruct (Hl t Hin) as [H _]; now apply H|].
    destruct (c0_alloc_t' _ _ _ Q t A) as [A0|A0]; [|contradiction].
    pose proof (Same t Hn) as E. destruct (c_ok _ C t A0) as [K1 [K2 [K3 [K4 K5]]]].
    unfold cok. rewrite (tcore_ctl _ _ E), (tcore_cur _ _ E), (tcore_group _ _ E), (tcore_waiter _ _ E),
      (tcore_tdran _ _ E).
    assert (Hh : (forall x, s_host (scopes s x) <> Some t) -> forall x, s_host (scopes s' x) <> Some t).
    { intros N x Hx. apply (N x). now apply (c0_host _ _ _ Q t x Hn). }
    refine (conj _ (conj _ (conj _ (conj _ _)))).
    + intros Hc. destruct (K1 Hc) as [E1 [E2 E3]]. rewrite (c0_base _ _ _ Q t Hn A0). auto.
    + exact K2.
    + intros c Hc. destruct (K3 c Hc) as [A1 N1]. split; [exact (c0_alloc_s _ _ _ Q c A1)|now apply (c0_notg _ _ _ Q)].
    + intros Hc. auto.
    + exact K5.
  - intros t A. destruct (in_dec Nat.eq_dec t l) as [Hin|Hn]; [destruct (Hl t Hin) as [_ [H _]]; now apply H|].
    rewrite (tcore_ctl _ _ (Same t Hn)). apply (c_unalloc _ C). intros A0. apply A. exact (c0_alloc_t _ _ _ Q t A0).
  - intros t Hin. destruct (in_dec Nat.eq_dec t l) as [Hl'|Hn]; [destruct (Hl t Hl') as [_ [_ H]]; now apply H|].
    rewrite (tcore_ctl _ _ (Same t Hn)).
    destruct (c0_td _ _ _ Q t Hin) as [H|H]; [|contradiction].
    destruct (c_td _ C t H) as [A E]. split; [exact (c0_alloc_t _ _ _ Q t A)|exact E].
Qed.

Lemma Ctl_step l s s' :
  Ctl s -> creq l s s' -> (forall t, In t l -> cokx s' t) -> Ctl s'.
Proof. intros C Q. apply (Ctl_step0 l s s' C (creq_creq0 _ _ _ Q)). Qed.

(* the running invariant inside one op *)
Definition Run (l : list tid) (s0 s : st) : Prop := Tree s /\ creq l s0 s /\ rq_td s0 s.

Lemma run_treq l s0 s s' : Run l s0 s -> treq s s' -> tcb l s s' -> rq_td s s' -> Run l s0 s'.
Proof.
  intros [T [Q R]] H Hc Hr. split; [eapply Tree_treq; eauto|]. split; [|eapply rq_td_trans; eauto].
  eapply creq_trans; [exact Q|now apply creq_treq].
Qed.

Lemma run_new_scope l s0 s d sh : Run l s0 s -> Run l s0 (fst (new_scope s d sh)).
Proof.
  intros [T [Q R]]. split; [now apply Tree_new_scope|]. split; [|exact R]. eapply creq_trans; [exact Q|].
  constructor.
  - apply tcb_same_tasks. reflexivity.
  - intros t A. exact A.
  - intros t A. left. exact A.
  - intros t x _. now rewrite (tn_H s d sh T).
  - intros t _ _. reflexivity.
  - intros x. apply tn_alloc_s.
  - intros x _ N. exact N.
  - intros t A. left. exact A.
  - intros t _. now repeat split.
Qed.

Lemma run_enter l s0 s c t :
  Run l s0 s -> In t l -> alloc_t s t -> k_tdran (tasks s t) = false -> alloc_s s c ->
  (s_active (scopes s c) = false ->
   forall t' g, alloc_t s t' -> k_group (tasks s t') = Some g -> k_hscope (tasks s t') = c ->
     t' = t /\ k_cur (tasks s t) = Some (g_scope (groups s g))) ->
  (s_active (scopes s c) = false ->
   forall g, k_group (tasks s t) = Some g -> g_scope (groups s g) <> c) ->
  Run l s0 (fst (scope_enter s c t)).
Proof.
  intros [T [Q R]] Hin At Dt Ac Hh0 Hg0.
  destruct (s_active (scopes s c)) eqn:Ic.
  { rewrite (scope_enter_fail s c t Ic). exact (conj T (conj Q R)). }
  pose proof (Hh0 eq_refl) as Hh. pose proof (Hg0 eq_refl) as Hg.
  destruct (scope_enter_spec s c t Ic) as [_ K].
  pose proof (Tree_enter s c t T At Dt Ac Ic Hh Hg) as T'.
  split; [eapply Tree_treq; eauto|].
  split; [|eapply rq_td_trans; [exact R|apply rq_td_scope_enter]]. eapply creq_trans; [exact Q|].
  set (s' := fst (scope_enter s c t)) in *.
  constructor.
  - now apply tcb_scope_enter.
  - intros x A. apply (tq_alloc_t _ _ K). now apply (te_alloc_t s c t T Ic).
  - intros x A. left. apply (tq_alloc_t _ _ K) in A. now apply (te_alloc_t s c t T Ic) in A.
  - intros t' x N. rewrite (tq_host _ _ K), (te_H s c t T Ic). deq x c; [|auto].
    intros [= E]. subst t'. contradiction.
  - intros t' _ _. rewrite (tq_base _ _ K). apply (te_base s c t T Ic).
  - intros x A. apply (tq_alloc_s _ _ K). now apply (te_alloc_s s c t T Ic).
  - intros x _ N. apply (tq_notg _ _ K). now apply (te_notg s c t T Ic).
  - intros t' A. left. now apply (rq_td_scope_enter s c t).
  - intros t' _. rewrite (tq_group _ _ K), (tq_hscope _ _ K), (tq_tdran _ _ K).
    now rewrite (te_group s c t T Ic), (te_hscope s c t T Ic), (te_tdran s c t T Ic).
Qed.

Lemma treq_exit_result s c t exc : exit_ok s c t -> treq (xstate s c t) (fst (scope_exit s c t exc)).
Proof.
  intros Hok. destruct (scope_exit_spec s c t exc Hok) as [s6 [K E]]. rewrite E. unfold xstate.
  apply treq_upd_scope_congr.
  - intros x y H. unfold sc_tree in *. cbn. now inversion H.
  - apply kframe_treq. eapply kframe_trans; [apply kframe_restart|exact K].
Qed.

Lemma run_exit l s0 s c t exc :
  Run l s0 s -> In t l ->
  (exit_ok s c t ->
     (forall x, ~ In x (s_children (scopes s c))) /\
     (forall t', In t' (s_tasks (scopes s c)) -> t' = t) /\
     (forall g, alloc_g s g -> g_scope (groups s g) = c -> g_tasks (groups s g) = [])) ->
  Run l s0 (fst (scope_exit s c t exc)).
Proof.
  intros [T [Q R]] Hin Hside.
  destruct (exit_ok_dec s c t) as [Hok|Hno].
  2:{ rewrite (scope_exit_fail s c t exc Hno). exact (conj T (conj Q R)). }
  destruct (Hside Hok) as [NC [NT NG]].
  pose proof (treq_exit_result s c t exc Hok) as K.
  pose proof (Tree_exit s c t T Hok NC NT NG) as T'.
  split; [eapply Tree_treq; eauto|].
  split; [|eapply rq_td_trans; [exact R|apply rq_td_scope_exit]]. eapply creq_trans; [exact Q|].
  set (s' := fst (scope_exit s c t exc)) in *.
  constructor.
  - now apply tcb_scope_exit.
  - intros x A. apply (tq_alloc_t _ _ K). now apply (tx_alloc_t s c t T Hok).
  - intros x A. left. apply (tq_alloc_t _ _ K) in A. now apply (tx_alloc_t s c t T Hok) in A.
  - intros t' x N. rewrite (tq_host _ _ K), (tx_H s c t T Hok). deq x c; [discriminate|auto].
  - intros t' _ _. rewrite (tq_base _ _ K). apply (tx_base s c t T Hok).
  - intros x A. apply (tq_alloc_s _ _ K). now apply (tx_alloc_s s c t T Hok).
  - intros x _ N. apply (tq_notg _ _ K). now apply (tx_notg s c t T Hok).
  - intros t' A. left. now apply (rq_td_scope_exit s c t exc).
  - intros t' _. rewrite (tq_group _ _ K), (tq_hscope _ _ K), (tq_tdran _ _ K).
    now rewrite (tx_group s c t T Hok), (tx_hscope s c t T Hok), (tx_tdran s c t T Hok).
Qed.

Lemma stack_bottom s t o l : stack s t o l ->
  forall x p, In x l -> s_parent (scopes s x) = Some p -> s_host (scopes s p) <> Some t -> Some p = base s t.
Proof.
  induction 1 as [|y l Hh Ha Hs IH]; intros x p Hx Hp Hn; [destruct Hx|].
  destruct Hx as [<-|Hx]; [|now apply (IH x p)].
  rewrite Hp in Hs. inversion Hs; subst; [reflexivity|contradiction].
Qed.

Lemma not_tdran_of_host s t x : Tree s -> s_host (scopes s x) = Some t -> k_tdran (tasks s t) = false.
Proof.
  intros T H. destruct (k_tdran (tasks s t)) eqn:D; [|reflexivity].
  destruct (tr_tdran _ T t D) as [_ N]. now apply N in H.
Qed.

Lemma not_tdran_of_cur s t x : Tree s -> k_cur (tasks s t) = Some x -> k_tdran (tasks s t) = false.
Proof.
  intros T H. destruct (k_tdran (tasks s t)) eqn:D; [|reflexivity].
  destruct (tr_tdran _ T t D) as [E _]. congruence.
Qed.

Lemma exit_side s c t :
  Tree s -> exit_ok s c t ->
  (forall g, alloc_g s g -> g_scope (groups s g) = c -> g_tasks (groups s g) = []) ->
  (forall x, ~ In x (s_children (scopes s c))) /\
  (forall t', In t' (s_tasks (scopes s c)) -> t' = t) /\
  (forall g, alloc_g s g -> g_scope (groups s g) = c -> g_tasks (groups s g) = []).
Proof.
  intros T [Ha [Hh Hc]] NG.
  assert (Based : forall t', alloc_t s t' -> k_tdran (tasks s t') = false -> Some c = base s t' -> False).
  { intros t' A D B. unfold base in B. destruct (k_group (tasks s t')) as [g'|] eqn:G; [|discriminate].
    inversion B as [E]. destruct (tr_kgroup _ T t' g' A G) as [Ag _].
    pose proof (tr_member _ T t' g' A G D) as M. rewrite (NG g' Ag (eq_sym E)) in M. destruct M. }
  destruct (tr_rank _ T) as [rk Hrk].
  refine (conj _ (conj _ NG)).
  - intros x Hx. apply (tr_child _ T) in Hx. destruct Hx as [Hax Hpx].
    destruct (tr_host_act _ T x Hax) as [t' [Hhx At']].
    pose proof (not_tdran_of_host s t' x T Hhx) as Dt'.
    destruct (tr_stack _ T t' At' Dt') as [l [S C]]. pose proof (C x Hax Hhx) as Hin.
    destruct (Nat.eq_dec t' t) as [->|Hne].
    + rewrite Hc in S. inversion S as [E0|y l' Hh' Ha' S' E1]; subst; [destruct Hin|].
      destruct Hin as [<-|Hin].
      * specialize (Hrk c c Hax Hpx). lia.
      * pose proof (stack_tail_rank s t c l' rk Hrk S Ha x Hin). specialize (Hrk x c Hax Hpx). lia.
    + apply (Based t' At' Dt'). eapply stack_bottom; eauto. congruence.
  - intros t' Ht'. apply (tr_task _ T) in Ht'.
    destruct (Nat.eq_dec t' t) as [->|Hne]; [reflexivity|exfalso].
    pose proof (tr_cur_alloc _ T t' c Ht') as At'. pose proof (not_tdran_of_cur s t' c T Ht') as Dt'.
    destruct (tr_stack _ T t' At' Dt') as [l [S _]]. rewrite Ht' in S.
    inversion S as [E0|y l' Hh' Ha' S' E1]; subst.
    + now apply (Based t' At' Dt').
    + congruence.
Qed.

Lemma exit_side_pub s c t :
  Tree s -> notg s c -> exit_ok s c t ->
  (forall x, ~ In x (s_children (scopes s c))) /\
  (forall t', In t' (s_tasks (scopes s c)) -> t' = t) /\
  (forall g, alloc_g s g -> g_scope (groups s g) = c -> g_tasks (groups s g) = []).
Proof.
  intros T N Hok. apply exit_side; [exact T|exact Hok|]. intros g A E. now apply N in E.
Qed.

Lemma exit_side_group s g t :
  Tree s -> alloc_g s g -> g_tasks (groups s g) = [] -> exit_ok s (g_scope (groups s g)) t ->
  (forall x, ~ In x (s_children (scopes s (g_scope (groups s g))))) /\
  (forall t', In t' (s_tasks (scopes s (g_scope (groups s g)))) -> t' = t) /\
  (forall g', alloc_g s g' -> g_scope (groups s g') = g_scope (groups s g) -> g_tasks (groups s g') = []).
Proof.
  intros T A E Hok. apply exit_side; [exact T|exact Hok|]. intros g' A' E'.
  now rewrite (tr_gscope_inj _ T g' g A' A E').
Qed.

(* ---- creq facts of the structural steps ---- *)
Lemma sp_host s g sf x : Tree s -> s_host (scopes (spawn_struct s g sf) x) = s_host (scopes s x).
Proof.
  intros T. unfold spawn_struct. cbn. unfold upd.
  destruct (Nat.eqb x (g_scope (groups s g))) eqn:E1; cbn.
  - apply Nat.eqb_eq in E1. subst x. destruct (Nat.eqb_spec (g_scope (groups s g)) (nscope s)); [|reflexivity].
    cbn. rewrite e. symmetry. apply (tr_host_inact _ T). apply tn_inactive. exact T.
  - destruct (Nat.eqb_spec x (nscope s)); [|reflexivity].
    cbn. subst x. symmetry. apply (tr_host_inact _ T). apply tn_inactive. exact T.
Qed.

Lemma sp_task_other s g sf x : x <> ntask s -> tasks (spawn_struct s g sf) x = tasks s x.
Proof. intros H. unfold spawn_struct. cbn. unfold upd. deq x (ntask s); [contradiction|reflexivity]. Qed.

Lemma sp_gscope s g sf x : g_scope (groups (spawn_struct s g sf) x) = g_scope (groups s x).
Proof. unfold spawn_struct. cbn. unfold upd. deq x g; reflexivity. Qed.

Lemma run_spawn l s0 s g sf :
  Run l s0 s -> In (ntask s) l -> alloc_g s g -> s_active (scopes s (g_scope (groups s g))) = true ->
  Run l s0 (fst (spawn_task s g sf)).
Proof.
  intros [T [Q R]] Hin Ag Ha. rewrite spawn_task_eq. cbn [fst].
  set (s1 := spawn_struct s g sf).
  set (s' := call_soon (restart s1 (Some (g_scope (groups s g)))) (HStep (ntask s))).
  assert (K : kframe s1 (restart s1 (Some (g_scope (groups s g))))) by apply kframe_restart.
  assert (K' : treq s1 s').
  { eapply treq_trans; [apply kframe_treq, K|apply treq_call_soon]. }
  split; [apply (Tree_treq s1 s'); [apply Tree_spawn; assumption|exact K']|].
  assert (R' : rq_td s s').
  { intros t' A. cbn in A. apply in_app_or in A. destruct A as [A|[A|[]]]; [|discriminate].
    apply (rq_td_kframe _ _ K) in A. exact A. }
  split; [|eapply rq_td_trans; [exact R|exact R']].
  eapply creq_trans; [exact Q|].
  assert (N1 : ntask s' = S (ntask s)) by (rewrite (tq_ntask _ _ K'); reflexivity).
  assert (N2 : nscope s' = S (nscope s)) by (rewrite (tq_nscope _ _ K'); reflexivity).
  assert (N3 : ngroup s' = ngroup s) by (rewrite (tq_ngroup _ _ K'); reflexivity).
  constructor.
  - intros t' N. assert (t' <> ntask s) by (intros ->; contradiction).
    change (tasks s' t') with (tasks (restart s1 (Some (g_scope (groups s g)))) t').
    rewrite (kf_tasks _ _ K t'). unfold s1. now rewrite sp_task_other.
  - intros x. unfold alloc_t. rewrite N1. lia.
  - intros x. unfold alloc_t. rewrite N1. intros A. destruct (Nat.eq_dec x (ntask s)) as [->|N]; [now right|left; lia].
  - intros t' x _. rewrite (tq_host _ _ K'). unfold s1. now rewrite sp_host.
  - intros t' N A. rewrite (tq_base _ _ K'). unfold base, s1.
    assert (t' <> ntask s) by (intros ->; contradiction). rewrite sp_task_other by assumption.
    destruct (k_group (tasks s t')); [now rewrite sp_gscope|reflexivity].
  - intros x. unfold alloc_s. rewrite N2. lia.
  - intros x _ N. apply (tq_notg _ _ K'). intros y Hy. unfold s1. rewrite sp_gscope. apply N.
    unfold alloc_g in *. exact Hy.
  - intros t' A. left. now apply R'.
  - intros t' A. assert (t' <> ntask s) by (unfold alloc_t in A; lia).
    rewrite (tq_group _ _ K'), (tq_hscope _ _ K'), (tq_tdran _ _ K'). unfold s1.
    rewrite sp_task_other by assumption. now repeat split.
Qed.

Lemma run_group_new l s0 s : Run l s0 s -> Run l s0 (gnew_struct s).
Proof.
  intros [T [Q R]]. split; [now apply Tree_group_new|]. split; [|exact R]. eapply creq_trans; [exact Q|].
  constructor.
  - apply tcb_same_tasks. reflexivity.
  - intros t A. exact A.
  - intros t A. left. exact A.
  - intros t x _. change (scopes (gnew_struct s) x) with (scopes (fst (new_scope s None false)) x).
    now rewrite (tn_H s None false T).
  - intros t _ A. unfold base. change (tasks (gnew_struct s) t) with (tasks s t).
    destruct (k_group (tasks s t)) as [g|] eqn:G; [|reflexivity].
    destruct (tr_kgroup _ T t g A G) as [[_ Ag] _].
    unfold gnew_struct. cbn. unfold upd. deq g (ngroup s); [lia|reflexivity].
  - intros x. unfold alloc_s. cbn. lia.
  - intros x [_ A] N y Hy. unfold gnew_struct. cbn. unfold upd. deq y (ngroup s).
    + cbn. lia.
    + apply N. unfold alloc_g in *. cbn in Hy. lia.
  - intros t A. left. exact A.
  - intros t _. now repeat split.
Qed.

Lemma run_new_root l s0 s : Run l s0 s -> In (ntask s) l -> Run l s0 (root_struct s).
Proof.
  intros [T [Q R]] Hin. split; [now apply Tree_new_root|]. split; [|exact R]. eapply creq_trans; [exact Q|].
  constructor.
  - intros t' N. assert (t' <> ntask s) by (intros ->; contradiction).
    unfold root_struct. cbn. unfold upd. deq t' (ntask s); [contradiction|reflexivity].
  - intros x. unfold alloc_t. cbn. lia.
  - intros x. unfold alloc_t. cbn. intros A. destruct (Nat.eq_dec x (ntask s)) as [->|N]; [now right|left; lia].
  - intros t x _ E. exact E.
  - intros t' N A. assert (t' <> ntask s) by (intros ->; contradiction).
    unfold base, root_struct. cbn. unfold upd. deq t' (ntask s); [contradiction|reflexivity].
  - intros x A. exact A.
  - intros x _ N. exact N.
  - intros t A. left. exact A.
  - intros t' A. assert (t' <> ntask s) by (unfold alloc_t in A; lia).
    unfold root_struct. cbn. unfold upd. deq t' (ntask s); [contradiction|now repeat split].
Qed.

Lemma creq_finish l s t o : In t l -> creq l s (finish_task s t o).
Proof.
  intros Hin. pose proof (treq_finish_task s t o) as K.
  constructor.
  - now apply tcb_finish_task.
  - intros x. now rewrite (tq_alloc_t _ _ K).
  - intros x A. left. now apply (tq_alloc_t _ _ K).
  - intros t' x _. now rewrite (tq_host _ _ K).
  - intros t' _ _. apply (tq_base _ _ K).
  - intros x. now rewrite (tq_alloc_s _ _ K).
  - intros x _. now rewrite (tq_notg _ _ K).
  - intros t' A. unfold finish_task in A. cbn [ready set_running] in A.
    destruct (k_group (tasks s t)); cbn in A; [|now left].
    apply in_app_or in A. destruct A as [A|[A|[]]]; [now left|]. inversion A; subst. now right.
  - intros t' _. now rewrite (tq_group _ _ K), (tq_hscope _ _ K), (tq_tdran _ _ K).
Qed.
