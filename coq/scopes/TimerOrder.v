(* C06, the order in which ATick hands due timers to the ready queue: by (when, id).  Needs the invariant that the
   timer list is in creation order (ids strictly increasing, all below ntimer), proved for EVERY op sequence (no side
   condition) by a second instance of the generic step walk. *)
From AV Require Import Base Machine ChainFrame ChainThms ChainWalk TimerInv TimerThms.
From Coq Require Import ZifyBool Sorted.

Definition id_lt (a b : timer) : Prop := tm_id a < tm_id b.

Record ids_sorted (s : st) : Prop := mk_ids_sorted {
  is_sorted : StronglySorted id_lt (timers s);
  is_bound : forall x, In x (timers s) -> tm_id x < ntimer s
}.

Lemma sorted_filter {A} (R : A -> A -> Prop) (p : A -> bool) l : StronglySorted R l -> StronglySorted R (filter p l).
Proof.
  induction 1 as [|x l Hs IH Hx]; cbn [filter]; [constructor|]. destruct (p x); [|exact IH].
  constructor; [exact IH|]. rewrite Forall_forall in *. intros y Hy. apply filter_In in Hy. apply Hx, Hy.
Qed.

Definition RO (s s' : st) : Prop := ids_sorted s -> ids_sorted s'.

Lemma ro_same s s' : timers s' = timers s -> ntimer s' = ntimer s -> RO s s'.
Proof. intros E1 E2 [H1 H2]. constructor; rewrite ?E1, ?E2; assumption. Qed.

Lemma ro_filter s s' p : timers s' = filter p (timers s) -> ntimer s' = ntimer s -> RO s s'.
Proof.
  intros E1 E2 [H1 H2]. constructor; rewrite E1, ?E2; [now apply sorted_filter|].
  intros x Hx. apply filter_In in Hx. apply H2, Hx.
Qed.

Lemma ro_call_at s w what : RO s (fst (call_at s w what)).
Proof.
  intros [H1 H2]. constructor; cbn [call_at fst timers ntimer].
  - induction (timers s) as [|y l IH]; cbn [app]; [repeat constructor|].
    inversion H1 as [|? ? Hs Hy]; subst. constructor.
    + apply IH; [exact Hs|]. intros x Hx. apply H2. now right.
    + apply Forall_app. split; [exact Hy|]. constructor; [|constructor]. unfold id_lt. cbn [tm_id]. apply H2. now left.
  - intros x Hx. apply in_app_iff in Hx. destruct Hx as [Hx|[<-|[]]]; [specialize (H2 x Hx); lia|cbn; lia].
Qed.

Lemma ro_trans a b c : RO a b -> RO b c -> RO a c.
Proof. unfold RO. auto. Qed.

Lemma ro_frame a b : frame a b -> RO a b.
Proof. intros F. apply ro_same; [apply (fr_timers _ _ F)|apply (fr_ntimer _ _ F)]. Qed.

Lemma ro_tframe a b : tframe a b -> RO a b.
Proof. intros F. apply ro_same; [apply (tf_timers _ _ F)|apply (tf_ntimer _ _ F)]. Qed.

Lemma ro_cancel_timeout s c : RO s (cancel_timeout s c).
Proof.
  unfold cancel_timeout. destruct (s_timeout (scopes s c)) as [tm|]; [|unfold RO; auto].
  eapply (ro_filter s); reflexivity.
Qed.

Lemma ro_scope_cancel s c b : RO s (scope_cancel s c b).
Proof.
  unfold scope_cancel. destruct (s_cancelled (scopes s c)); [unfold RO; auto|].
  set (s2 := upd_scope (cancel_timeout s c) c _).
  assert (H2 : RO s s2).
  { eapply ro_trans; [apply ro_cancel_timeout|]. apply ro_same; reflexivity. }
  destruct (s_host (scopes s2 c)); [|exact H2]. eapply ro_trans; [exact H2|apply ro_frame, frame_deliver_top].
Qed.

Lemma ro_scope_timeout s c : RO s (scope_timeout s c).
Proof.
  unfold scope_timeout. destruct (s_deadline (scopes s c)) as [d|]; [|unfold RO; auto].
  destruct (Z.leb d (now s)); [apply ro_scope_cancel|].
  pose proof (ro_call_at s d (TScope c)) as H. cbn [call_at] in *.
  eapply ro_trans; [exact H|]. apply ro_same; reflexivity.
Qed.

Lemma ro_scope_enter s c t : RO s (fst (scope_enter s c t)).
Proof.
  unfold scope_enter. destruct (s_active (scopes s c)); [unfold RO; auto|]. cbv zeta. cbn [fst].
  match goal with |- context [scope_timeout ?a c] => set (s3 := a) end.
  assert (H3 : RO s s3).
  { unfold s3. destruct (k_cur (tasks s t)); apply ro_same; reflexivity. }
  assert (H5 : RO s (upd_scope (scope_timeout s3 c) c (sc_active true))).
  { eapply ro_trans; [exact H3|]. eapply ro_trans; [apply ro_scope_timeout|]. apply ro_same; reflexivity. }
  destruct (s_cancelled _); [|exact H5]. eapply ro_trans; [exact H5|apply ro_frame, frame_deliver_top].
Qed.

Lemma ro_scope_exit s c t exc : RO s (fst (scope_exit s c t exc)).
Proof.
  destruct (exit_guards s c t) eqn:G.
  - eapply ro_trans; [|apply ro_tframe, (exit_tframe s c t exc G)].
    eapply ro_trans; [|apply ro_cancel_timeout]. apply ro_same; reflexivity.
  - rewrite (scope_exit_guards_fail s c t exc G). unfold RO; auto.
Qed.

Lemma ro_set_deadline s c d : RO s (set_deadline_body s c d).
Proof.
  unfold set_deadline_body. cbv zeta.
  assert (H1 : RO s (cancel_timeout (upd_scope s c (sc_deadline d)) c)).
  { eapply ro_trans; [|apply ro_cancel_timeout]. apply ro_same; reflexivity. }
  destruct (_ && _); [|exact H1]. eapply ro_trans; [exact H1|apply ro_scope_timeout].
Qed.

Lemma ro_spawn s g sf : RO s (fst (spawn_task s g sf)).
Proof.
  unfold spawn_task. cbv zeta.
  change (new_scope s None false) with (fst (new_scope s None false), snd (new_scope s None false)). cbv iota.
  cbn [fst].
  eapply ro_trans; [|apply ro_frame; now apply frame_call_soon].
  eapply ro_trans; [|apply ro_frame, frame_restart].
  apply ro_same; reflexivity.
Qed.

Lemma ro_walk : walk_hyps RO (ok_always (fun _ _ => True) (fun _ _ _ => True) (fun _ _ => True)).
Proof.
  constructor.
  - unfold RO; auto.
  - apply ro_trans.
  - apply ro_frame.
  - exact I.
  - intros s d sh. apply ro_same; reflexivity.
  - intros s d sh t _. eapply ro_trans; [|apply ro_scope_enter]. apply ro_same; reflexivity.
  - intros s c t _. apply ro_scope_enter.
  - intros s g t _. apply ro_scope_enter.
  - intros s t _. apply ro_scope_enter.
  - apply ro_scope_exit.
  - intros s c _. apply ro_scope_cancel.
  - intros s g. apply ro_scope_cancel.
  - intros s t. apply ro_scope_cancel.
  - intros s c d _. apply ro_set_deadline.
  - intros s. apply ro_same; reflexivity.
  - apply ro_spawn.
  - intros s t f w.
    apply ro_trans with (suspend_on (fst (call_at s w (TSleep f))) t f); [|apply ro_same; reflexivity].
    apply ro_trans with (fst (call_at s w (TSleep f))); [apply ro_call_at|apply ro_frame, frame_suspend_on].
  - intros s t f. apply ro_same; reflexivity.
  - intros s t f tm _. eapply (ro_filter s); reflexivity.
  - intros s f tm. apply ro_same; reflexivity.
  - intros s c tm _ _. eapply ro_trans; [|apply ro_scope_timeout]. apply ro_same; reflexivity.
  - intros s. apply ro_same; reflexivity.
  - intros s dt _. unfold tick. cbv zeta. eapply (ro_filter s); reflexivity.
Qed.

Theorem step_ids_sorted s o : ids_sorted s -> ids_sorted (fst (step s o)).
Proof.
  apply (walk_step ro_walk), op_ok_always. destruct o; exact I.
Qed.

Theorem reach_ids_sorted ops : ids_sorted (final step init ops).
Proof.
  apply (final_inv step ids_sorted step_ids_sorted). constructor; [constructor|intros x []].
Qed.

(* ---------------- insertion sort of the due timers is by (when, id) ---------------- *)
Definition when_id_lt (a b : timer) : Prop :=
  (tm_when a < tm_when b)%Z \/ (tm_when a = tm_when b /\ tm_id a < tm_id b).

Lemma insert_timer_lex x l :
  StronglySorted when_id_lt l -> (forall y, In y l -> tm_id y < tm_id x) -> StronglySorted when_id_lt (insert_timer x l).
Proof.
  induction 1 as [|y l Hs IH Hy]; intros Hid; cbn [insert_timer]; [repeat constructor|].
  destruct (Z.ltb (tm_when x) (tm_when y)) eqn:E.
  - constructor; [constructor; assumption|]. constructor; [left; lia|].
    rewrite Forall_forall in *. intros z Hz. specialize (Hy z Hz). unfold when_id_lt in *. left. lia.
  - constructor; [apply IH; intros z Hz; apply Hid; now right|].
    rewrite Forall_forall in *. intros z Hz. apply in_insert_timer in Hz. destruct Hz as [->|Hz]; [|now apply Hy].
    pose proof (Hid y (or_introl eq_refl)). unfold when_id_lt. lia.
Qed.

Lemma sort_timers_lex_acc l : forall acc,
  StronglySorted when_id_lt acc -> StronglySorted id_lt l ->
  (forall y x, In y acc -> In x l -> tm_id y < tm_id x) ->
  StronglySorted when_id_lt (fold_left (fun a x => insert_timer x a) l acc).
Proof.
  induction l as [|x l IH]; intros acc Ha Hl Hlt; cbn [fold_left]; [exact Ha|].
  inversion Hl as [|? ? Hs Hx]; subst. apply IH; [|exact Hs|].
  - apply insert_timer_lex; [exact Ha|]. intros y Hy. apply Hlt; [exact Hy|now left].
  - intros y z Hy Hz. apply in_insert_timer in Hy. destruct Hy as [->|Hy].
    + rewrite Forall_forall in Hx. apply Hx, Hz.
    + apply Hlt; [exact Hy|now right].
Qed.

Lemma sort_timers_lex l : StronglySorted id_lt l -> StronglySorted when_id_lt (sort_timers l).
Proof. intros H. apply sort_timers_lex_acc; [constructor|exact H|intros y x []]. Qed.

(* the callbacks ATick appends to the ready queue are in (when, id) order, for every op sequence *)
Theorem tick_order ops dt :
  (0 <= dt)%Z ->
  let s := final step init ops in
  let s' := fst (step s (ATick dt)) in
  exists moved, ready s' = ready s ++ map handle_of_timer moved /\
                (forall x, In x moved <-> In x (timers s) /\ (tm_when x <= now s')%Z) /\
                StronglySorted when_id_lt moved.
Proof.
  intros Hdt s s'. pose proof (reach_ids_sorted ops) as [Hs _]. fold s in Hs.
  unfold s', step. cbn [actor]. assert (E : Z.ltb dt 0 = false) by lia. rewrite E. cbn [fst].
  unfold tick. cbv zeta. cbn [set_ready set_timers set_now now timers ready].
  exists (sort_timers (filter (fun x => Z.leb (tm_when x) (now s + dt)) (timers s))).
  refine (conj eq_refl (conj _ _)).
  - intros x. rewrite in_sort_timers, filter_In, Z.leb_le. tauto.
  - apply sort_timers_lex, sorted_filter, Hs.
Qed.

(* ====================================================================================================== *)
(* deadline timers in the heap are strictly in the future (every op sequence, no side condition)            *)
(* ====================================================================================================== *)
Definition heap_future (s : st) : Prop :=
  forall x c, In x (timers s) -> tm_what x = TScope c -> (now s < tm_when x)%Z.

Definition RH (s s' : st) : Prop := heap_future s -> heap_future s'.

Lemma rh_same s s' : timers s' = timers s -> now s' = now s -> RH s s'.
Proof. intros E1 E2 H x c. rewrite E1, E2. apply H. Qed.

Lemma rh_filter s s' p : timers s' = filter p (timers s) -> now s' = now s -> RH s s'.
Proof. intros E1 E2 H x c Hx. rewrite E1 in Hx. apply filter_In in Hx. rewrite E2. apply H, Hx. Qed.

Lemma rh_trans a b c : RH a b -> RH b c -> RH a c.
Proof. unfold RH. auto. Qed.

Lemma rh_frame a b : frame a b -> RH a b.
Proof. intros F. apply rh_same; [apply (fr_timers _ _ F)|apply (fr_now _ _ F)]. Qed.

Lemma rh_tframe a b : tframe a b -> RH a b.
Proof. intros F. apply rh_same; [apply (tf_timers _ _ F)|apply (tf_now _ _ F)]. Qed.

Lemma rh_cancel_timeout s c : RH s (cancel_timeout s c).
Proof.
  unfold cancel_timeout. destruct (s_timeout (scopes s c)) as [tm|]; [|unfold RH; auto].
  eapply (rh_filter s); reflexivity.
Qed.

Lemma rh_scope_cancel s c b : RH s (scope_cancel s c b).
Proof.
  unfold scope_cancel. destruct (s_cancelled (scopes s c)); [unfold RH; auto|].
  set (s2 := upd_scope (cancel_timeout s c) c _).
  assert (H2 : RH s s2) by (eapply rh_trans; [apply rh_cancel_timeout|apply rh_same; reflexivity]).
  destruct (s_host (scopes s2 c)); [|exact H2]. eapply rh_trans; [exact H2|apply rh_frame, frame_deliver_top].
Qed.

Lemma rh_scope_timeout s c : RH s (scope_timeout s c).
Proof.
  unfold scope_timeout. destruct (s_deadline (scopes s c)) as [d|]; [|unfold RH; auto].
  destruct (Z.leb d (now s)) eqn:E; [apply rh_scope_cancel|].
  cbn [call_at]. intros H x c' Hx Hw. cbn [upd_scope set_scopes timers now] in *.
  apply in_app_iff in Hx. destruct Hx as [Hx|[<-|[]]]; [now apply (H x c')|]. cbn [tm_when]. lia.
Qed.

Lemma rh_scope_enter s c t : RH s (fst (scope_enter s c t)).
Proof.
  unfold scope_enter. destruct (s_active (scopes s c)); [unfold RH; auto|]. cbv zeta. cbn [fst].
  match goal with |- context [scope_timeout ?a c] => set (s3 := a) end.
  assert (H3 : RH s s3) by (unfold s3; destruct (k_cur (tasks s t)); apply rh_same; reflexivity).
  assert (H5 : RH s (upd_scope (scope_timeout s3 c) c (sc_active true))).
  { eapply rh_trans; [exact H3|]. eapply rh_trans; [apply rh_scope_timeout|]. apply rh_same; reflexivity. }
  destruct (s_cancelled _); [|exact H5]. eapply rh_trans; [exact H5|apply rh_frame, frame_deliver_top].
Qed.

Lemma rh_scope_exit s c t exc : RH s (fst (scope_exit s c t exc)).
Proof.
  destruct (exit_guards s c t) eqn:G.
  - eapply rh_trans; [|apply rh_tframe, (exit_tframe s c t exc G)].
    eapply rh_trans; [|apply rh_cancel_timeout]. apply rh_same; reflexivity.
  - rewrite (scope_exit_guards_fail s c t exc G). unfold RH; auto.
Qed.

Lemma rh_set_deadline s c d : RH s (set_deadline_body s c d).
Proof.
  unfold set_deadline_body. cbv zeta.
  assert (H1 : RH s (cancel_timeout (upd_scope s c (sc_deadline d)) c)).
  { eapply rh_trans; [|apply rh_cancel_timeout]. apply rh_same; reflexivity. }
  destruct (_ && _); [|exact H1]. eapply rh_trans; [exact H1|apply rh_scope_timeout].
Qed.

Lemma rh_spawn s g sf : RH s (fst (spawn_task s g sf)).
Proof.
  unfold spawn_task. cbv zeta.
  change (new_scope s None false) with (fst (new_scope s None false), snd (new_scope s None false)). cbv iota.
  cbn [fst].
  eapply rh_trans; [|apply rh_frame; now apply frame_call_soon].
  eapply rh_trans; [|apply rh_frame, frame_restart].
  apply rh_same; reflexivity.
Qed.

Lemma rh_walk : walk_hyps RH (ok_always (fun _ _ => True) (fun _ _ _ => True) (fun _ dt => (0 <= dt)%Z)).
Proof.
  constructor.
  - unfold RH; auto.
  - apply rh_trans.
  - apply rh_frame.
  - exact I.
  - intros s d sh. apply rh_same; reflexivity.
  - intros s d sh t _. eapply rh_trans; [|apply rh_scope_enter]. apply rh_same; reflexivity.
  - intros s c t _. apply rh_scope_enter.
  - intros s g t _. apply rh_scope_enter.
  - intros s t _. apply rh_scope_enter.
  - apply rh_scope_exit.
  - intros s c _. apply rh_scope_cancel.
  - intros s g. apply rh_scope_cancel.
  - intros s t. apply rh_scope_cancel.
  - intros s c d _. apply rh_set_deadline.
  - intros s. apply rh_same; reflexivity.
  - apply rh_spawn.
  - intros s t f w.
    apply rh_trans with (suspend_on (fst (call_at s w (TSleep f))) t f); [|apply rh_same; reflexivity].
    apply rh_trans with (fst (call_at s w (TSleep f))); [|apply rh_frame, frame_suspend_on].
    intros H x c Hx Hw. cbn [call_at fst timers now] in *. apply in_app_iff in Hx.
    destruct Hx as [Hx|[<-|[]]]; [now apply (H x c)|discriminate].
  - intros s t f. apply rh_same; reflexivity.
  - intros s t f tm _. eapply (rh_filter s); reflexivity.
  - intros s f tm. apply rh_same; reflexivity.
  - intros s c tm _ _. eapply rh_trans; [|apply rh_scope_timeout]. apply rh_same; reflexivity.
  - intros s. apply rh_same; reflexivity.
  - intros s dt Hdt H x c Hx Hw. unfold tick in *. cbv zeta in *. cbn [set_ready set_timers set_now timers now] in *.
    apply filter_In in Hx. destruct Hx as [_ Hx]. apply negb_true_iff, Z.leb_gt in Hx. exact Hx.
Qed.

Theorem step_heap_future s o : heap_future s -> heap_future (fst (step s o)).
Proof.
  destruct o; try (apply (walk_step rh_walk), op_ok_always; exact I).
  unfold step. cbn [actor]. destruct (Z.ltb dt 0) eqn:E; cbn [fst]; [auto|].
  apply (wh_tick _ _ rh_walk). cbn. lia.
Qed.

Theorem reach_heap_future ops : heap_future (final step init ops).
Proof. apply (final_inv step heap_future step_heap_future). intros x c []. Qed.

(* never missed, strong form: once the deadline of an active, uncancelled scope is due, its _timeout callback is
   in the ready queue (exactly once) ... *)
Theorem due_timeout_is_ready s c d :
  reach_wf s -> s_active (scopes s c) = true -> s_cancelled (scopes s c) = false ->
  s_deadline (scopes s c) = Some d -> (d <= now s)%Z ->
  exists tm, s_timeout (scopes s c) = Some tm /\ In (HTimeout c tm) (ready s) /\ live s tm = 1.
Proof.
  intros R Ha Ec Ed Hd. destruct (reach_tinv s R) as [G P].
  destruct (pi_never_missed _ _ _ (P c) d Ha Ec Ed) as [tm Et]. exists tm. split; [exact Et|].
  destruct (pi_armed _ _ _ (P c) tm Et Ec) as [_ [[d' Hin]|Hr]].
  - exfalso. destruct R as (ops & _ & ->). pose proof (reach_heap_future ops _ c Hin eq_refl) as Hf.
    destruct (pi_timer _ _ _ (P c) _ Hin eq_refl) as [_ E]. cbn [tm_when] in *. rewrite Ed in E. injection E as <-. lia.
  - split; [exact Hr|]. pose proof (gi_uniq _ G tm). pose proof (rcount_in tm (ready s) _ Hr) as H1.
    cbn in H1. rewrite Nat.eqb_refl in H1. specialize (H1 eq_refl). unfold live in *. lia.
Qed.

(* ... and running that callback cancels the scope with reason "deadline" *)
Theorem timeout_run_cancels s c tm :
  reach_wf s -> In (HTimeout c tm) (ready s) ->
  let s' := fst (step s (ARun (HTimeout c tm))) in
  s_cancelled (scopes s' c) = true /\
  (s_cancelled (scopes s c) = false -> s_bydeadline (scopes s' c) = true) /\
  ~ In (HTimeout c tm) (ready s') /\ now s' = now s.
Proof.
  intros R Hin. destruct (reach_tinv s R) as [G P]. destruct (pi_ready _ _ _ (P c) tm Hin) as (Et & d & Ed & Hd).
  unfold step. cbn [actor]. unfold run_handle.
  assert (Ex : existsb (handle_eqb (HTimeout c tm)) (ready s) = true).
  { apply existsb_exists. exists (HTimeout c tm). split; [exact Hin|apply handle_eqb_refl]. }
  rewrite Ex. cbn [negb fst]. fold (pop s (HTimeout c tm)).
  set (s1 := set_running (pop s (HTimeout c tm)) None).
  assert (E4 : scope_timeout s1 c = scope_cancel s1 c true).
  { unfold scope_timeout. change (s_deadline (scopes s1 c)) with (s_deadline (scopes s c)). rewrite Ed.
    change (now s1) with (now s). assert (El : Z.leb d (now s) = true) by lia. now rewrite El. }
  rewrite E4. cbn [set_running scopes ready now].
  assert (L1 : rcount tm (ready s1) = 0).
  { pose proof (gi_uniq _ G tm) as Hu. unfold live in Hu.
    pose proof (rcount_remove_first_in tm (HTimeout c tm) (ready s) Hin) as H1. cbn in H1. rewrite Nat.eqb_refl in H1.
    specialize (H1 eq_refl). unfold s1, pop. cbn [set_running set_ready ready]. lia. }
  assert (N1 : ~ In (HTimeout c tm) (ready s1)).
  { intros H. pose proof (rcount_in tm (ready s1) _ H) as H1. cbn [is_timer_handle] in H1. rewrite Nat.eqb_refl in H1.
    specialize (H1 eq_refl). lia. }
  refine (conj (scope_cancel_cancels s1 c true) (conj _ (conj _ _))).
  - intros Ec. unfold scope_cancel. change (s_cancelled (scopes s1 c)) with (s_cancelled (scopes s c)). rewrite Ec.
    set (s2 := upd_scope (cancel_timeout s1 c) c _).
    assert (E2 : s_bydeadline (scopes s2 c) = true) by (unfold s2; now rewrite scopes_upd_same).
    destruct (s_host (scopes s2 c)); [|exact E2].
    now rewrite (ce_bydeadline _ _ (df_scopes _ _ (deliver_top_dframe s2 c) c)).
  - (* the ready queue only loses timer handles or gains soft ones *)
    assert (Sub : forall a, (forall h, is_th h = true -> In h (ready (scope_cancel a c true)) -> In h (ready a))).
    { intros a h Hh. unfold scope_cancel. destruct (s_cancelled (scopes a c)); [auto|].
      set (a2 := upd_scope (cancel_timeout a c) c _).
      assert (K : In h (ready a2) -> In h (ready a)).
      { unfold a2, cancel_timeout. destruct (s_timeout (scopes a c)); [|auto].
        cbn [upd_scope set_scopes timer_cancel set_ready set_timers ready]. intros K. apply filter_In in K. tauto. }
      destruct (s_host (scopes a2 c)); [|exact K]. intros H. apply K.
      destruct (df_ready _ _ (deliver_top_dframe a2 c)) as (l & El & Fl). rewrite El in H. apply in_app_iff in H.
      destruct H as [H|H]; [exact H|]. exfalso. rewrite Forall_forall in Fl. specialize (Fl h H).
      destruct h; cbn in Hh, Fl; try discriminate; contradiction. }
    intros H. apply N1. now apply (Sub s1 (HTimeout c tm) eq_refl).
  - unfold scope_cancel. destruct (s_cancelled (scopes s1 c)); [reflexivity|].
    set (s2 := upd_scope (cancel_timeout s1 c) c _).
    assert (E2 : now s2 = now s) by (unfold s2; destruct (cancel_timeout_fields s1 c) as (K & _); exact K).
    destruct (s_host (scopes s2 c)); [|exact E2]. now rewrite (df_now _ _ (deliver_top_dframe s2 c)).
Qed.
