(* A delivery callback in the ready queue belongs to a cancelled, allocated scope - in every state reachable in
   the generated domain.  (Needed by DebtInv: a stale callback of a scope that is not cancelled would create a
   debt nobody pays.)  Carried along: parents, hosts and current scopes are allocated scope ids. *)
From Coq Require Import ZArith Lia.
From AV Require Import Base Machine ScopeFrames DeliverInv TreeInv DeliverAlive PotentialInv TreeStep KernelInv DebtInv.

Record HDI (s : st) : Prop := {
  hd_c : forall c, In (HDeliver c) (ready s) -> s_cancelled (scopes s c) = true /\ c < nscope s;
  hd_p : forall x p, s_parent (scopes s x) = Some p -> p < nscope s;
  hd_h : forall c, s_host (scopes s c) <> None -> c < nscope s;
  hd_k : forall t x, k_cur (tasks s t) = Some x -> x < nscope s
}.

Definition hstep (a b : st) : Prop := HDI a -> HDI b.
Lemma hstep_refl a : hstep a a. Proof. intros H; exact H. Qed.
Lemma hstep_trans a b c : hstep a b -> hstep b c -> hstep a c.
Proof. intros H1 H2 H. apply H2, H1, H. Qed.

(* no new delivery callback *)
Definition rdq (a b : st) : Prop := forall c, In (HDeliver c) (ready b) -> In (HDeliver c) (ready a).
Lemma rdq_refl a : rdq a a. Proof. intros c H; exact H. Qed.
Lemma rdq_trans a b c : rdq a b -> rdq b c -> rdq a c.
Proof. intros H1 H2 x H. apply H1, H2, H. Qed.
Lemma rdq_same a b : ready b = ready a -> rdq a b.
Proof. intros E c. now rewrite E. Qed.
Lemma rdq_soon a b h : ready b = ready a ++ [h] -> (forall c, h <> HDeliver c) -> rdq a b.
Proof.
  intros E Hh c H. rewrite E in H. apply in_app_or in H. destruct H as [H|[H|[]]]; [exact H|]. now elim (Hh c).
Qed.

Lemma rdq_fut_complete s f v : rdq s (fut_complete s f v).
Proof.
  unfold fut_complete. destruct (f_st (futs s f)); try apply rdq_refl.
  destruct (f_waiter (futs s f)); [|now apply rdq_same]. apply (rdq_soon _ _ (HWake t f)); [reflexivity|discriminate].
Qed.

Lemma rdq_task_cancel s t o : rdq s (task_cancel s t o).
Proof.
  unfold task_cancel. destruct (k_done (tasks s t)); [apply rdq_refl|].
  destruct (k_waiter (tasks s t)) as [f|]; [|now apply rdq_same].
  destruct (fut_pending _ f); [|now apply rdq_same].
  eapply rdq_trans; [|apply rdq_fut_complete]. now apply rdq_same.
Qed.

Lemma rdq_suspend_on s t f : rdq s (suspend_on s t f).
Proof.
  unfold suspend_on. destruct (f_st (futs s f)); try (apply (rdq_soon _ _ (HWake t f)); [reflexivity|discriminate]).
  destruct (k_must (tasks s t)); [|now apply rdq_same].
  set (s2 := upd_task (upd_fut s f (fun x => mkFut (f_st x) (Some t))) t (tk_waiter (Some f))).
  apply (rdq_trans s s2); [now apply rdq_same|].
  apply (rdq_trans s2 (fut_complete s2 f (FCanc (k_msg (tasks s t))))); [apply rdq_fut_complete|now apply rdq_same].
Qed.

Lemma rdq_park s t : rdq s (park s t).
Proof.
  unfold park, new_fut. eapply rdq_trans; [|now apply rdq_same]. eapply rdq_trans; [|apply rdq_suspend_on]. now apply rdq_same.
Qed.

Lemma rdq_ret s t r : rdq s (fst (ret_to_puppet s t r)).
Proof.
  unfold ret_to_puppet. cbn [fst]. eapply rdq_trans; [|now apply rdq_same]. eapply rdq_trans; [|apply rdq_park].
  destruct r; now apply rdq_same.
Qed.

Lemma rdq_fold_fut_complete v fs : forall a, rdq a (fold_left (fun a f => fut_complete a f v) fs a).
Proof.
  induction fs as [|f fs IH]; intros a; cbn [fold_left]; [apply rdq_refl|].
  eapply rdq_trans; [apply rdq_fut_complete|apply IH].
Qed.

Lemma rdq_event_set s e : rdq s (event_set s e).
Proof.
  unfold event_set. destruct (e_set (events s e)); [apply rdq_refl|].
  eapply rdq_trans; [|apply rdq_fold_fut_complete]. now apply rdq_same.
Qed.

Lemma rdq_event_wait s t e : rdq s (fst (event_wait s t e)).
Proof.
  unfold event_wait. destruct (e_set (events s e)); cbn [fst]; [apply (rdq_soon _ _ (HStep t)); [reflexivity|discriminate]|].
  unfold new_fut. cbn [fst]. eapply rdq_trans; [|apply rdq_suspend_on]. now apply rdq_same.
Qed.

Lemma rdq_finish_task s t o : rdq s (finish_task s t o).
Proof.
  unfold finish_task. destruct (k_group (tasks s t)); [|now apply rdq_same].
  apply (rdq_soon _ _ (HTaskDone t)); [reflexivity|discriminate].
Qed.

Lemma rdq_timer_cancel s tm : rdq s (timer_cancel s tm).
Proof. intros c H. cbn in H. apply filter_In in H. apply H. Qed.

Lemma rdq_cancel_timeout s c : rdq s (cancel_timeout s c).
Proof.
  unfold cancel_timeout. destruct (s_timeout (scopes s c)); [|apply rdq_refl].
  eapply rdq_trans; [apply rdq_timer_cancel|now apply rdq_same].
Qed.

Lemma rdq_tick s dt : rdq s (tick s dt).
Proof.
  intros c H. cbn in H. apply in_app_or in H. destruct H as [H|H]; [exact H|exfalso].
  apply in_map_iff in H. destruct H as [x [E _]]. unfold handle_of_timer in E. destruct (tm_what x); discriminate.
Qed.

Lemma rdq_remove_first s h : rdq s (set_ready s (remove_first h (ready s))).
Proof.
  intros c H. cbn [ready set_ready] in H. revert H. generalize (ready s) as l. induction l as [|x l IH]; cbn [remove_first In]; [auto|].
  destruct (handle_eqb x h); [intros H; now right|]. cbn [In]. intros [H|H]; [now left|right; now apply IH].
Qed.

(* ---------------- neutral steps ---------------- *)
Lemma HDI_neutral a b :
  HDI a -> treq a b -> (forall x, s_cancelled (scopes a x) = true -> s_cancelled (scopes b x) = true) -> rdq a b -> HDI b.
Proof.
  intros [C P H K] Q M R. constructor.
  - intros c Hc. destruct (C c (R c Hc)) as [C1 C2]. split; [now apply M|now rewrite (tq_nscope _ _ Q)].
  - intros x p. rewrite (tq_parent _ _ Q), (tq_nscope _ _ Q). apply P.
  - intros c. rewrite (tq_host _ _ Q), (tq_nscope _ _ Q). apply H.
  - intros t x. rewrite (tq_cur _ _ Q), (tq_nscope _ _ Q). apply K.
Qed.

Lemma HDI_ssame a b : HDI a -> treq a b -> ssame a b -> rdq a b -> HDI b.
Proof. intros H Q [E _] R. apply (HDI_neutral a b H Q); [|exact R]. intros x. now rewrite E. Qed.

(* ---------------- a delivery ---------------- *)
Lemma deliver_inv' (P : st -> Prop) origin :
  (forall self a r t, P a -> P (fst (deliver_task self origin (a, r) t))) ->
  (forall a b, P a -> P (upd_scope a origin (sc_chandle b))) ->
  (forall a, P a -> P (call_soon a (HDeliver origin))) ->
  forall fu a self, P a -> P (fst (deliver fu a self origin)).
Proof.
  intros H1 H2 H3. induction fu as [|fu IH]; intros a self Pa; [exact Pa|]. rewrite deliver_unfold.
  assert (F1 : forall l b r, P b -> P (fst (fold_left (deliver_task self origin) l (b, r)))).
  { induction l as [|t l IHl]; intros b r Pb; cbn [fold_left]; [exact Pb|].
    pose proof (H1 self b r t Pb) as Q. destruct (deliver_task self origin (b, r) t) as [b1 r1]. now apply IHl. }
  pose proof (F1 (s_tasks (scopes a self)) a false Pa) as P1.
  destruct (fold_left (deliver_task self origin) (s_tasks (scopes a self)) (a, false)) as [s1 r1]. cbn [fst] in P1.
  assert (F2 : forall l b r, P b -> P (fst (fold_left (dstep fu origin) l (b, r)))).
  { induction l as [|c l IHl]; intros b r Pb; cbn [fold_left]; [exact Pb|].
    assert (Q : P (fst (dstep fu origin (b, r) c))).
    { unfold dstep. destruct (negb (s_shield (scopes b c)) && negb (s_cancelled (scopes b c))); [|exact Pb].
      pose proof (IH b c Pb) as Q. destruct (deliver fu b c origin) as [b' r']. exact Q. }
    destruct (dstep fu origin (b, r) c) as [b1 r1']. now apply IHl. }
  pose proof (F2 (s_children (scopes s1 self)) s1 r1 P1) as P2.
  destruct (fold_left (dstep fu origin) (s_children (scopes s1 self)) (s1, r1)) as [s2 r2]. cbn [fst] in P2.
  destruct (Nat.eqb_spec origin self) as [<-|Hne]; [|exact P2]. destruct r2; cbn [fst]; [apply H3, H2, P2|apply H2, P2].
Qed.

Lemma rdq_deliver_task self origin a r t : rdq a (fst (deliver_task self origin (a, r) t)).
Proof.
  unfold deliver_task. destruct (k_done (tasks a t)); [apply rdq_refl|].
  destruct (k_must (tasks a t)); [apply rdq_refl|].
  destruct (_ && _); [|apply rdq_refl].
  destruct (match k_waiter (tasks a t) with Some f => fut_pending a f | None => true end); [|apply rdq_refl].
  cbn [fst]. set (a1 := task_cancel a t (S origin)).
  destruct (opt_eqb (s_host (scopes a1 origin)) t); [|apply rdq_task_cancel].
  eapply rdq_trans; [apply rdq_task_cancel|now apply rdq_same].
Qed.

Lemma H_deliver_top s c : s_cancelled (scopes s c) = true -> c < nscope s -> hstep s (deliver_top s c).
Proof.
  intros Hc Ha H. unfold deliver_top.
  apply (deliver_inv' (fun a => HDI a /\ s_cancelled (scopes a c) = true /\ c < nscope a) c); [| | |now repeat split].
  - intros self a r t [Da [Ca Aa]]. pose proof (kframe_deliver_task self c a r t) as K.
    split; [|split].
    + apply (HDI_neutral a); [exact Da|apply kframe_treq, K| |apply rdq_deliver_task].
      intros x. now rewrite (core_cancelled _ _ (kf_scopes _ _ K x)).
    + now rewrite (core_cancelled _ _ (kf_scopes _ _ K c)).
    + now rewrite (kf_nscope _ _ K).
  - intros a b [Da [Ca Aa]]. split; [|split; [|exact Aa]].
    + apply (HDI_neutral a); [exact Da|apply treq_upd_scope; intros k; reflexivity| |now apply rdq_same].
      intros x. cbn. unfold upd. destruct (Nat.eqb_spec x c); [subst|]; auto.
    + cbn. unfold upd. now rewrite Nat.eqb_refl.
  - intros a [Da [Ca Aa]]. split; [|now split]. destruct Da as [C P Hh K]. constructor; auto.
    intros x Hx. cbn in Hx. apply in_app_or in Hx. destruct Hx as [Hx|[Hx|[]]]; [now apply C|].
    inversion Hx; subst x. now split.
Qed.

Lemma H_restart s x : (forall c, x = Some c -> c < nscope s) -> hstep s (restart s x).
Proof.
  intros Hx H. unfold restart. generalize (nscope s) at 1 as fuel. intros fuel. revert x Hx.
  induction fuel as [|fu IH]; intros x Hx; cbn [restart_from]; [exact H|].
  destruct x as [c|]; [|exact H].
  destruct (s_cancelled (scopes s c)) eqn:Ec.
  - destruct (s_chandle (scopes s c)); [exact H|]. apply H_deliver_top; auto.
  - destruct (s_shield (scopes s c)); [exact H|]. apply IH. intros p Hp. now apply (hd_p _ H c p).
Qed.

Lemma H_scope_cancel s c b : hstep s (scope_cancel s c b).
Proof.
  intros H. unfold scope_cancel. destruct (s_cancelled (scopes s c)); [exact H|].
  set (s2 := upd_scope (cancel_timeout s c) c (fun x => sc_bydeadline b (sc_cancelled true x))).
  assert (H2 : HDI s2).
  { apply (HDI_neutral s); [exact H| | |].
    - eapply treq_trans; [apply treq_cancel_timeout|apply treq_upd_scope; intros k; reflexivity].
    - intros x Hx. unfold s2. cbn [scopes upd_scope set_scopes]. unfold upd.
      destruct (Nat.eqb_spec x c); [reflexivity|].
      now rewrite (vw_cancelled _ _ (dq_scope _ _ (dq_cancel_timeout s c) x)).
    - eapply rdq_trans; [apply rdq_cancel_timeout|now apply rdq_same]. }
  assert (C2 : s_cancelled (scopes s2 c) = true) by (unfold s2; cbn; unfold upd; now rewrite Nat.eqb_refl).
  destruct (s_host (scopes s2 c)) eqn:Eh; [|exact H2].
  apply H_deliver_top; [exact C2| |exact H2]. apply (hd_h _ H2 c). rewrite Eh. discriminate.
Qed.

Lemma H_scope_timeout s c : hstep s (scope_timeout s c).
Proof.
  intros H. unfold scope_timeout. destruct (s_deadline (scopes s c)); [|exact H].
  destruct (Z.leb z (now s)); [now apply H_scope_cancel|].
  apply (HDI_neutral s); [exact H|apply treq_scope_timeout_arm| |now apply rdq_same].
  intros x. cbn. unfold upd. destruct (Nat.eqb_spec x c); [subst|]; auto.
Qed.
