(* A delivery callback in the ready queue belongs to a cancelled, allocated scope - in every state reachable in
   the generated domain.  (Needed by DebtInv: a stale callback of a scope that is not cancelled would create a
   debt nobody pays.)  Carried along: parents, hosts and current scopes are allocated scope ids. *)
From Coq Require Import ZArith Lia.
From AV Require Import Base Machine ScopeFrames DeliverInv TreeInv DeliverAlive PotentialInv TreeStep KernelInv DebtInv.

Record HDI (s : st) : Prop := {
  hd_c : forall c, In (HDeliver c) (ready s) -> s_cancelled (scopes s c) = true /\ c < nscope s;
  hd_p : forall x p, s_parent (scopes s x) = Some p -> p < nscope s;
  hd_h : forall c, s_host (scopes s c) <> None -> c < nscope s;
  hd_k : forall t x, k_cur (tasks s t) = Some x -> x < nscope s
}.

Definition hstep (a b : st) : Prop := HDI a -> HDI b.
Lemma hstep_refl a : hstep a a. Proof. intros H; exact H. Qed.
Lemma hstep_trans a b c : hstep a b -> hstep b c -> hstep a c.
Proof. intros H1 H2 H. apply H2, H1, H. Qed.

(* no new delivery callback *)
Definition rdq (a b : st) : Prop := forall c, In (HDeliver c) (ready b) -> In (HDeliver c) (ready a).
Lemma rdq_refl a : rdq a a. Proof. intros c H; exact H. Qed.
Lemma rdq_trans a b c : rdq a b -> rdq b c -> rdq a c.
Proof. intros H1 H2 x H. apply H1, H2, H. Qed.
Lemma rdq_same a b : ready b = ready a -> rdq a b.
Proof. intros E c. now rewrite E. Qed.
Lemma rdq_soon a b h : ready b = ready a ++ [h] -> (forall c, h <> HDeliver c) -> rdq a b.
Proof.
  intros E Hh c H. rewrite E in H. apply in_app_or in H. destruct H as [H|[H|[]]]; [exact H|]. now elim (Hh c).
Qed.

Lemma rdq_fut_complete s f v : rdq s (fut_complete s f v).
Proof.
  unfold fut_complete. destruct (f_st (futs s f)); try apply rdq_refl.
  destruct (f_waiter (futs s f)); [|now apply rdq_same]. apply (rdq_soon _ _ (HWake t f)); [reflexivity|discriminate].
Qed.

Lemma rdq_task_cancel s t o : rdq s (task_cancel s t o).
Proof.
  unfold task_cancel. destruct (k_done (tasks s t)); [apply rdq_refl|].
  destruct (k_waiter (tasks s t)) as [f|]; [|now apply rdq_same].
  destruct (fut_pending _ f); [|now apply rdq_same].
  eapply rdq_trans; [|apply rdq_fut_complete]. now apply rdq_same.
Qed.

Lemma rdq_suspend_on s t f : rdq s (suspend_on s t f).
Proof.
  unfold suspend_on. destruct (f_st (futs s f)); try (apply (rdq_soon _ _ (HWake t f)); [reflexivity|discriminate]).
  destruct (k_must (tasks s t)); [|now apply rdq_same].
  set (s2 := upd_task (upd_fut s f (fun x => mkFut (f_st x) (Some t))) t (tk_waiter (Some f))).
  apply (rdq_trans s s2); [now apply rdq_same|].
  apply (rdq_trans s2 (fut_complete s2 f (FCanc (k_msg (tasks s t))))); [apply rdq_fut_complete|now apply rdq_same].
Qed.

Lemma rdq_park s t : rdq s (park s t).
Proof.
  unfold park, new_fut. eapply rdq_trans; [|now apply rdq_same]. eapply rdq_trans; [|apply rdq_suspend_on]. now apply rdq_same.
Qed.

Lemma rdq_ret s t r : rdq s (fst (ret_to_puppet s t r)).
Proof.
  unfold ret_to_puppet. cbn [fst]. eapply rdq_trans; [|now apply rdq_same]. eapply rdq_trans; [|apply rdq_park].
  destruct r; now apply rdq_same.
Qed.

Lemma rdq_fold_fut_complete v fs : forall a, rdq a (fold_left (fun a f => fut_complete a f v) fs a).
Proof.
  induction fs as [|f fs IH]; intros a; cbn [fold_left]; [apply rdq_refl|].
  eapply rdq_trans; [apply rdq_fut_complete|apply IH].
Qed.

Lemma rdq_event_set s e : rdq s (event_set s e).
Proof.
  unfold event_set. destruct (e_set (events s e)); [apply rdq_refl|].
  eapply rdq_trans; [|apply rdq_fold_fut_complete]. now apply rdq_same.
Qed.

Lemma rdq_event_wait s t e : rdq s (fst (event_wait s t e)).
Proof.
  unfold event_wait. destruct (e_set (events s e)); cbn [fst]; [apply (rdq_soon _ _ (HStep t)); [reflexivity|discriminate]|].
  unfold new_fut. cbn [fst]. eapply rdq_trans; [|apply rdq_suspend_on]. now apply rdq_same.
Qed.

Lemma rdq_finish_task s t o : rdq s (finish_task s t o).
Proof.
  unfold finish_task. destruct (k_group (tasks s t)); [|now apply rdq_same].
  apply (rdq_soon _ _ (HTaskDone t)); [reflexivity|discriminate].
Qed.

Lemma rdq_timer_cancel s tm : rdq s (timer_cancel s tm).
Proof. intros c H. cbn in H. apply filter_In in H. apply H. Qed.

Lemma rdq_cancel_timeout s c : rdq s (cancel_timeout s c).
Proof.
  unfold cancel_timeout. destruct (s_timeout (scopes s c)); [|apply rdq_refl].
  eapply rdq_trans; [apply rdq_timer_cancel|now apply rdq_same].
Qed.

Lemma rdq_tick s dt : rdq s (tick s dt).
Proof.
  intros c H. cbn in H. apply in_app_or in H. destruct H as [H|H]; [exact H|exfalso].
  apply in_map_iff in H. destruct H as [x [E _]]. unfold handle_of_timer in E. destruct (tm_what x); discriminate.
Qed.

Lemma rdq_remove_first s h : rdq s (set_ready s (remove_first h (ready s))).
Proof.
  intros c H. cbn [ready set_ready] in H. revert H. generalize (ready s) as l. induction l as [|x l IH]; cbn [remove_first In]; [auto|].
  destruct (handle_eqb x h); [intros H; now right|]. cbn [In]. intros [H|H]; [now left|right; now apply IH].
Qed.

(* ---------------- neutral steps ---------------- *)
Lemma HDI_neutral a b :
  HDI a -> treq a b -> (forall x, s_cancelled (scopes a x) = true -> s_cancelled (scopes b x) = true) -> rdq a b -> HDI b.
Proof.
  intros [C P H K] Q M R. constructor.
  - intros c Hc. destruct (C c (R c Hc)) as [C1 C2]. split; [now apply M|now rewrite (tq_nscope _ _ Q)].
  - intros x p. rewrite (tq_parent _ _ Q), (tq_nscope _ _ Q). apply P.
  - intros c. rewrite (tq_host _ _ Q), (tq_nscope _ _ Q). apply H.
  - intros t x. rewrite (tq_cur _ _ Q), (tq_nscope _ _ Q). apply K.
Qed.

Lemma HDI_ssame a b : HDI a -> treq a b -> ssame a b -> rdq a b -> HDI b.
Proof. intros H Q [E _] R. apply (HDI_neutral a b H Q); [|exact R]. intros x. now rewrite E. Qed.

(* ---------------- a delivery ---------------- *)
Lemma deliver_inv' (P : st -> Prop) origin :
  (forall self a r t, P a -> P (fst (deliver_task self origin (a, r) t))) ->
  (forall a b, P a -> P (upd_scope a origin (sc_chandle b))) ->
  (forall a, P a -> P (call_soon a (HDeliver origin))) ->
  forall fu a self, P a -> P (fst (deliver fu a self origin)).
Proof.
  intros H1 H2 H3. induction fu as [|fu IH]; intros a self Pa; [exact Pa|]. rewrite deliver_unfold.
  assert (F1 : forall l b r, P b -> P (fst (fold_left (deliver_task self origin) l (b, r)))).
  { induction l as [|t l IHl]; intros b r Pb; cbn [fold_left]; [exact Pb|].
    pose proof (H1 self b r t Pb) as Q. destruct (deliver_task self origin (b, r) t) as [b1 r1]. now apply IHl. }
  pose proof (F1 (s_tasks (scopes a self)) a false Pa) as P1.
  destruct (fold_left (deliver_task self origin) (s_tasks (scopes a self)) (a, false)) as [s1 r1]. cbn [fst] in P1.
  assert (F2 : forall l b r, P b -> P (fst (fold_left (dstep fu origin) l (b, r)))).
  { induction l as [|c l IHl]; intros b r Pb; cbn [fold_left]; [exact Pb|].
    assert (Q : P (fst (dstep fu origin (b, r) c))).
    { unfold dstep. destruct (negb (s_shield (scopes b c)) && negb (s_cancelled (scopes b c))); [|exact Pb].
      pose proof (IH b c Pb) as Q. destruct (deliver fu b c origin) as [b' r']. exact Q. }
    destruct (dstep fu origin (b, r) c) as [b1 r1']. now apply IHl. }
  pose proof (F2 (s_children (scopes s1 self)) s1 r1 P1) as P2.
  destruct (fold_left (dstep fu origin) (s_children (scopes s1 self)) (s1, r1)) as [s2 r2]. cbn [fst] in P2.
  destruct (Nat.eqb_spec origin self) as [<-|Hne]; [|exact P2]. destruct r2; cbn [fst]; [apply H3, H2, P2|apply H2, P2].
Qed.

Lemma rdq_deliver_task self origin a r t : rdq a (fst (deliver_task self origin (a, r) t)).
Proof.
  unfold deliver_task. destruct (k_done (tasks a t)); [apply rdq_refl|].
  destruct (k_must (tasks a t)); [apply rdq_refl|].
  destruct (_ && _); [|apply rdq_refl].
  destruct (match k_waiter (tasks a t) with Some f => fut_pending a f | None => true end); [|apply rdq_refl].
  cbn [fst]. set (a1 := task_cancel a t (S origin)).
  destruct (opt_eqb (s_host (scopes a1 origin)) t); [|apply rdq_task_cancel].
  eapply rdq_trans; [apply rdq_task_cancel|now apply rdq_same].
Qed.

Lemma H_deliver_top s c : s_cancelled (scopes s c) = true -> c < nscope s -> hstep s (deliver_top s c).
Proof.
  intros Hc Ha H. unfold deliver_top.
  apply (deliver_inv' (fun a => HDI a /\ s_cancelled (scopes a c) = true /\ c < nscope a) c); [| | |exact (conj H (conj Hc Ha))].
  - intros self a r t [Da [Ca Aa]]. pose proof (kframe_deliver_task self c a r t) as K.
    split; [|split].
    + apply (HDI_neutral a); [exact Da|apply kframe_treq, K| |apply rdq_deliver_task].
      intros x. now rewrite (core_cancelled _ _ (kf_scopes _ _ K x)).
    + now rewrite (core_cancelled _ _ (kf_scopes _ _ K c)).
    + now rewrite (kf_nscope _ _ K).
  - intros a b [Da [Ca Aa]]. split; [|split; [|exact Aa]].
    + apply (HDI_neutral a); [exact Da|apply treq_upd_scope; intros k; reflexivity| |now apply rdq_same].
      intros x. cbn. unfold upd. destruct (Nat.eqb_spec x c); [subst|]; auto.
    + cbn. unfold upd. now rewrite Nat.eqb_refl.
  - intros a [Da [Ca Aa]]. split; [|now split]. destruct Da as [C P Hh K]. constructor; auto.
    intros x Hx. cbn in Hx. apply in_app_or in Hx. destruct Hx as [Hx|[Hx|[]]]; [now apply C|].
    inversion Hx; subst x. now split.
Qed.

Lemma H_restart s x : (forall c, x = Some c -> c < nscope s) -> hstep s (restart s x).
Proof.
  intros Hx H. unfold restart. generalize (nscope s) at 1 as fuel. intros fuel. revert x Hx.
  induction fuel as [|fu IH]; intros x Hx; cbn [restart_from]; [exact H|].
  destruct x as [c|]; [|exact H].
  destruct (s_cancelled (scopes s c)) eqn:Ec.
  - destruct (s_chandle (scopes s c)); [exact H|]. apply H_deliver_top; auto.
  - destruct (s_shield (scopes s c)); [exact H|]. apply IH. intros p Hp. now apply (hd_p _ H c p).
Qed.

Lemma H_scope_cancel s c b : hstep s (scope_cancel s c b).
Proof.
  intros H. unfold scope_cancel. destruct (s_cancelled (scopes s c)); [exact H|].
  set (s2 := upd_scope (cancel_timeout s c) c (fun x => sc_bydeadline b (sc_cancelled true x))).
  assert (H2 : HDI s2).
  { apply (HDI_neutral s); [exact H| | |].
    - eapply treq_trans; [apply treq_cancel_timeout|apply treq_upd_scope; intros k; reflexivity].
    - intros x Hx. unfold s2. cbn [scopes upd_scope set_scopes]. unfold upd.
      destruct (Nat.eqb_spec x c); [reflexivity|].
      now rewrite (vw_cancelled _ _ (dq_scope _ _ (dq_cancel_timeout s c) x)).
    - eapply rdq_trans; [apply rdq_cancel_timeout|now apply rdq_same]. }
  assert (C2 : s_cancelled (scopes s2 c) = true) by (unfold s2; cbn; unfold upd; now rewrite Nat.eqb_refl).
  destruct (s_host (scopes s2 c)) eqn:Eh; [|exact H2].
  apply H_deliver_top; [exact C2| |exact H2]. apply (hd_h _ H2 c). rewrite Eh. discriminate.
Qed.

Lemma H_scope_timeout s c : hstep s (scope_timeout s c).
Proof.
  intros H. pose proof (treq_scope_timeout s c) as Q. unfold scope_timeout in *.
  destruct (s_deadline (scopes s c)); [|exact H].
  destruct (Z.leb z (now s)); [now apply H_scope_cancel|].
  apply (HDI_neutral s); [exact H|exact Q| |now apply rdq_same].
  intros x. cbn. unfold upd. destruct (Nat.eqb_spec x c); [subst|]; auto.
Qed.

(* ---------------- frames with explicit fields ---------------- *)
Lemma HDI_frame a b :
  HDI a -> nscope a <= nscope b ->
  (forall x p, s_parent (scopes b x) = Some p -> s_parent (scopes a x) = Some p \/ p < nscope b) ->
  (forall c, s_host (scopes b c) <> None -> s_host (scopes a c) <> None \/ c < nscope b) ->
  (forall t x, k_cur (tasks b t) = Some x -> k_cur (tasks a t) = Some x \/ x < nscope b) ->
  (forall c, c < nscope a -> s_cancelled (scopes a c) = true -> s_cancelled (scopes b c) = true) ->
  rdq a b -> HDI b.
Proof.
  intros [C P H K] N Fp Fh Fk M R. constructor.
  - intros c Hc. destruct (C c (R c Hc)) as [C1 C2]. split; [now apply M|lia].
  - intros x p Hp. destruct (Fp x p Hp) as [E|E]; [|exact E]. pose proof (P x p E). lia.
  - intros c Hc. destruct (Fh c Hc) as [E|E]; [|exact E]. pose proof (H c E). lia.
  - intros t x Hx. destruct (Fk t x Hx) as [E|E]; [|exact E]. pose proof (K t x E). lia.
Qed.

Lemma H_upd_scope s c g :
  (forall k, s_parent (g k) = s_parent k /\ s_host (g k) = s_host k /\ (s_cancelled k = true -> s_cancelled (g k) = true)) ->
  hstep s (upd_scope s c g).
Proof.
  intros Hg H. apply (HDI_frame s); [exact H|cbn; lia| | | | |now apply rdq_same].
  - intros x p. cbn. unfold upd. destruct (Nat.eqb_spec x c); [subst; rewrite (proj1 (Hg _))|]; auto.
  - intros x. cbn. unfold upd. destruct (Nat.eqb_spec x c); [subst; rewrite (proj1 (proj2 (Hg _)))|]; auto.
  - intros t x. cbn. auto.
  - intros x _. cbn. unfold upd. destruct (Nat.eqb_spec x c); [subst; apply Hg|]; auto.
Qed.

Record hq (a b : st) : Prop := {
  hq_t : treq a b;
  hq_m : forall x, s_cancelled (scopes a x) = true -> s_cancelled (scopes b x) = true;
  hq_r : rdq a b
}.

Lemma hq_refl a : hq a a.
Proof. constructor; [apply treq_refl|auto|apply rdq_refl]. Qed.

Lemma hq_trans a b c : hq a b -> hq b c -> hq a c.
Proof.
  intros [A1 A2 A3] [B1 B2 B3]. constructor; [eapply treq_trans; eauto|auto|eapply rdq_trans; eauto].
Qed.

Lemma HDI_hq a b : HDI a -> hq a b -> HDI b.
Proof. intros H [Q M R]. now apply (HDI_neutral a). Qed.

Lemma hstep_hq a b : hq a b -> hstep a b.
Proof. intros Q H. now apply (HDI_hq a). Qed.

Lemma hq_ss a b : treq a b -> ssame a b -> rdq a b -> hq a b.
Proof. intros Q [E _] R. constructor; auto. intros x. now rewrite E. Qed.

Lemma hq_begin_act s t : hq s (begin_act s t).
Proof. apply hq_ss; [apply treq_begin_act|apply ss_begin_act|now apply rdq_same]. Qed.
Lemma hq_ret s t r : hq s (fst (ret_to_puppet s t r)).
Proof. apply hq_ss; [apply treq_ret_to_puppet|apply ss_ret|apply rdq_ret]. Qed.
Lemma hq_park s t : hq s (park s t).
Proof. apply hq_ss; [apply treq_park|apply ss_park|apply rdq_park]. Qed.
Lemma hq_incoming s t fo : hq s (fst (incoming s t fo)).
Proof. apply hq_ss; [apply treq_incoming|apply ss_incoming|now apply rdq_same]. Qed.
Lemma hq_fut_complete s f v : hq s (fut_complete s f v).
Proof. apply hq_ss; [apply treq_fut_complete|apply ss_fut_complete|apply rdq_fut_complete]. Qed.
Lemma hq_task_cancel s t o : hq s (task_cancel s t o).
Proof. apply hq_ss; [apply treq_task_cancel|apply ss_task_cancel|apply rdq_task_cancel]. Qed.
Lemma hq_event_set s e : hq s (event_set s e).
Proof. apply hq_ss; [apply treq_event_set|apply ss_event_set|apply rdq_event_set]. Qed.
Lemma hq_event_wait s t e : hq s (fst (event_wait s t e)).
Proof. apply hq_ss; [apply treq_event_wait|apply ss_event_wait|apply rdq_event_wait]. Qed.
Lemma hq_event_unwait s e fo : hq s (event_unwait s e fo).
Proof. apply hq_ss; [apply treq_event_unwait|apply ss_event_unwait|destruct fo; now apply rdq_same]. Qed.
Lemma hq_finish_task s t o : hq s (finish_task s t o).
Proof. apply hq_ss; [apply treq_finish_task|apply ss_finish_task|apply rdq_finish_task]. Qed.
Lemma hq_timer_cancel s tm : hq s (timer_cancel s tm).
Proof. apply hq_ss; [apply treq_timer_cancel|apply ss_timer_cancel|apply rdq_timer_cancel]. Qed.
Lemma hq_tick s dt : hq s (tick s dt).
Proof. apply hq_ss; [apply treq_tick|apply ss_tick|apply rdq_tick]. Qed.
Lemma hq_suspend_on s t f : hq s (suspend_on s t f).
Proof. apply hq_ss; [apply treq_suspend_on|apply ss_suspend_on|apply rdq_suspend_on]. Qed.
Lemma hq_set_running s v : hq s (set_running s v).
Proof. apply hq_ss; [apply treq_set_running|now split|now apply rdq_same]. Qed.
Lemma hq_upd_group s g f : (forall k, gr_tree (f k) = gr_tree k) -> hq s (upd_group s g f).
Proof. intros H. apply hq_ss; [now apply treq_upd_group|now split|now apply rdq_same]. Qed.
Lemma hq_upd_task s t g : (forall k, tk_tree (g k) = tk_tree k) -> hq s (upd_task s t g).
Proof. intros H. apply hq_ss; [now apply treq_upd_task|now split|now apply rdq_same]. Qed.
Lemma hq_set_ctl s t c : hq s (set_ctl s t c).
Proof. apply hq_ss; [apply treq_set_ctl|now split|now apply rdq_same]. Qed.
Lemma hq_bare_yield s t : hq s (bare_yield s t).
Proof. apply hq_ss; [apply treq_bare_yield|now split|apply (rdq_soon _ _ (HStep t)); [reflexivity|discriminate]]. Qed.
Lemma hq_new_fut s : hq s (fst (new_fut s)).
Proof. apply hq_ss; [apply treq_new_fut|now split|now apply rdq_same]. Qed.
Lemma hq_call_at s w x : hq s (fst (call_at s w x)).
Proof. apply hq_ss; [apply treq_call_at|now split|now apply rdq_same]. Qed.
Lemma hq_cancel_timeout s c : hq s (cancel_timeout s c).
Proof.
  constructor; [apply treq_cancel_timeout| |apply rdq_cancel_timeout].
  intros x. now rewrite (vw_cancelled _ _ (dq_scope _ _ (dq_cancel_timeout s c) x)).
Qed.
Lemma hq_upd_scope s c g :
  (forall k, sc_tree (g k) = sc_tree k) -> (forall k, s_cancelled k = true -> s_cancelled (g k) = true) -> hq s (upd_scope s c g).
Proof.
  intros H1 H2. constructor; [now apply treq_upd_scope| |now apply rdq_same].
  intros x. cbn. unfold upd. destruct (Nat.eqb_spec x c); [subst|]; auto.
Qed.

(* ---------------- entering, leaving, creating ---------------- *)
Lemma H_enter s c t : c < nscope s -> hstep s (fst (scope_enter s c t)).
Proof.
  intros Ac H. destruct (s_active (scopes s c)) eqn:Ea; [now rewrite (scope_enter_fail s c t Ea)|].
  rewrite (scope_enter_eq s c t Ea).
  assert (H3 : HDI (enter_s3 s c t)).
  { unfold enter_s3. set (par := k_cur (tasks s t)).
    set (s1 := upd_scope s c (fun x => sc_parent par (sc_tasks (add t (s_tasks x)) (sc_host (Some t) x)))).
    set (s2 := upd_task s1 t (tk_cur (Some c))).
    assert (H2 : HDI s2).
    { apply (HDI_frame s); [exact H|cbn; lia| | | | |now apply rdq_same].
      - intros x p. unfold s2, s1. cbn. unfold upd. destruct (Nat.eqb_spec x c) as [->|Hx]; [|auto].
        cbn. intros E. right. unfold par in E. now apply (hd_k _ H t p).
      - intros x. unfold s2, s1. cbn. unfold upd. destruct (Nat.eqb_spec x c) as [->|Hx]; [|auto]. intros _. now right.
      - intros t' x. unfold s2, s1. cbn. unfold upd. destruct (Nat.eqb_spec t' t) as [->|Ht]; [|auto].
        cbn. intros E. inversion E; subst x. now right.
      - intros x _. unfold s2, s1. cbn. unfold upd. destruct (Nat.eqb_spec x c) as [->|Hx]; auto. }
    destruct par as [p|]; [|exact H2]. apply H_upd_scope; [|exact H2]. intros k; now repeat split. }
  assert (H5 : HDI (enter_s5 s c t)).
  { unfold enter_s5. apply H_upd_scope; [intros k; now repeat split|]. now apply H_scope_timeout. }
  destruct (s_cancelled (scopes (enter_s5 s c t) c)) eqn:Ec; [|exact H5].
  apply H_deliver_top; [exact Ec| |exact H5].
  unfold enter_s5. cbn [nscope upd_scope set_scopes].
  rewrite (tq_nscope _ _ (treq_scope_timeout (enter_s3 s c t) c)). unfold enter_s3.
  destruct (k_cur (tasks s t)); exact Ac.
Qed.

Lemma H_new_scope s d sh : hstep s (fst (new_scope s d sh)).
Proof.
  intros H. apply (HDI_frame s); [exact H|cbn; lia| | | | |now apply rdq_same].
  - intros x p. cbn. unfold upd. destruct (Nat.eqb_spec x (nscope s)); [cbn; discriminate|auto].
  - intros x. cbn. unfold upd. destruct (Nat.eqb_spec x (nscope s)); [cbn; intros E; now elim E|auto].
  - intros t x. cbn. auto.
  - intros x Hx. cbn. unfold upd. destruct (Nat.eqb_spec x (nscope s)); [lia|auto].
Qed.

Lemma iter_uncancel_ready n t : forall a, ready (iter n (fun a => task_uncancel a t) a) = ready a.
Proof. induction n as [|n IH]; intros a; cbn [iter]; [reflexivity|]. now rewrite IH. Qed.

Lemma iter_uncancel_cur n t : forall a x, k_cur (tasks (iter n (fun a => task_uncancel a t) a) x) = k_cur (tasks a x).
Proof.
  induction n as [|n IH]; intros a x; cbn [iter]; [reflexivity|]. rewrite IH.
  unfold task_uncancel. cbn. unfold upd. destruct (Nat.eqb_spec x t); [subst|]; reflexivity.
Qed.

Lemma H_exit s c t exc : hstep s (fst (scope_exit s c t exc)).
Proof.
  intros H. unfold scope_exit.
  destruct (s_active (scopes s c)) eqn:Ha; cbn [negb]; [|exact H].
  destruct (opt_eqb (s_host (scopes s c)) t) eqn:Hh; cbn [negb]; [|exact H].
  destruct (opt_eqb (k_cur (tasks s t)) c) eqn:Hc; cbn [negb]; [|exact H].
  fold (exit_struct s c t).
  set (par := s_parent (scopes s c)).
  assert (H4 : HDI (exit_struct s c t)).
  { apply (HDI_frame s); [exact H|rewrite (in_nscope _ _ (exit_struct_inert s c t)); lia| | | | |].
    - intros x p. rewrite (vw_parent _ _ (exit_struct_view s c t x)). auto.
    - intros x. rewrite (vw_host _ _ (exit_struct_view s c t x)). auto.
    - intros t' x. rewrite exit_struct_task. destruct (Nat.eqb_spec t' t) as [->|Ht]; [|auto].
      intros E. right. rewrite (in_nscope _ _ (exit_struct_inert s c t)). apply (hd_p _ H c x). exact E.
    - intros x _. now rewrite (vw_cancelled _ _ (exit_struct_view s c t x)).
    - intros x Hx. unfold exit_struct in Hx. cbn [ready upd_task set_tasks] in Hx.
      assert (E : ready (match par with
                         | Some p => upd_scope (upd_scope (cancel_timeout (upd_scope s c (sc_active false)) c) c
                                        (fun x => sc_tasks (del t (s_tasks x)) x)) p
                                        (fun x => sc_tasks (add t (s_tasks x)) (sc_children (del c (s_children x)) x))
                         | None => upd_scope (cancel_timeout (upd_scope s c (sc_active false)) c) c
                                        (fun x => sc_tasks (del t (s_tasks x)) x)
                         end) = ready (cancel_timeout (upd_scope s c (sc_active false)) c)) by (destruct par; reflexivity).
      fold par in Hx. rewrite E in Hx. now apply (rdq_cancel_timeout _ c) in Hx. }
  set (s5 := restart (exit_struct s c t) par).
  assert (H5 : HDI s5).
  { apply H_restart; [|exact H4]. intros p Hp. rewrite (in_nscope _ _ (exit_struct_inert s c t)).
    unfold par in Hp. now apply (hd_p _ H c p). }
  clearbody s5. set (n := s_pending (scopes s5 c)).
  (* every outcome differs from s5 in the debts, the counter of t, caught, and the host of c only *)
  assert (Tail : forall sB, nscope sB = nscope s5 -> ready sB = ready s5 ->
             (forall x, s_parent (scopes sB x) = s_parent (scopes s5 x) /\ s_host (scopes sB x) = s_host (scopes s5 x) /\ s_cancelled (scopes sB x) = s_cancelled (scopes s5 x)) ->
             (forall x, k_cur (tasks sB x) = k_cur (tasks s5 x)) ->
             HDI (upd_scope sB c (sc_host None))).
  { intros sB En Er Es Ek. apply (HDI_frame s5); [exact H5|cbn; lia| | | | |].
    - intros x p. cbn. unfold upd. destruct (Nat.eqb_spec x c) as [->|Hx]; cbn; rewrite (proj1 (Es _)); auto.
    - intros x. cbn. unfold upd. destruct (Nat.eqb_spec x c) as [->|Hx]; cbn; [intros E; now elim E|].
      rewrite (proj1 (proj2 (Es _))). auto.
    - intros t' x. cbn. rewrite Ek. auto.
    - intros x _. cbn. unfold upd. destruct (Nat.eqb_spec x c) as [->|Hx]; cbn; rewrite (proj2 (proj2 (Es _))); auto.
    - intros x. cbn. now rewrite Er. }
  set (sA := upd_scope (iter n (fun a => task_uncancel a t) s5) c (sc_pending 0)).
  pose proof (iter_uncancel_spec n t s5) as [U1 [U2 _]].
  assert (TA : forall g, (forall k, s_parent (g k) = s_parent k /\ s_host (g k) = s_host k /\ s_cancelled (g k) = s_cancelled k) ->
             HDI (upd_scope (upd_scope sA c g) c (sc_host None))).
  { intros g Hg. apply Tail.
    - cbn. exact U2.
    - cbn. apply iter_uncancel_ready.
    - intros x. unfold sA. cbn [scopes upd_scope set_scopes]. rewrite U1. unfold upd.
      destruct (Nat.eqb_spec x c) as [->|Hx]; [|now repeat split]. rewrite ?Nat.eqb_refl.
      destruct (Hg (sc_pending 0 (scopes s5 c))) as [G1 [G2 G3]]. now rewrite G1, G2, G3.
    - intros x. cbn. apply iter_uncancel_cur. }
  assert (PayA : HDI (upd_scope sA c (sc_host None))).
  { apply Tail.
    - cbn. exact U2.
    - cbn. apply iter_uncancel_ready.
    - intros x. unfold sA. cbn [scopes upd_scope set_scopes]. rewrite U1. unfold upd.
      destruct (Nat.eqb_spec x c) as [->|Hx]; now repeat split.
    - intros x. cbn. apply iter_uncancel_cur. }
  assert (PayC : HDI (upd_scope (upd_scope sA c (sc_caught true)) c (sc_host None))) by (apply TA; intros k; now repeat split).
  destruct (s_cancelled (scopes s5 c) && negb (parent_visible s5 c)).
  - destruct exc as [e|].
    + destruct e; cbn [is_anyio_cancel].
      * destruct o; cbn [fst]; assumption.
      * cbn [fst]. exact PayA.
      * cbn [fst]. exact PayA.
      * cbn [fst]. exact PayA.
      * destruct (split_exn (EGroup l)) as [[m|] [r|]]; cbn [fst]; assumption.
    + cbn [fst]. exact PayA.
  - cbn [fst]. fold n. destruct (Nat.eqb n 0).
    + apply Tail; auto.
    + destruct par as [p|]; [|exact PayA].
      destruct (opt_eqb (s_host (scopes s5 p)) t); [|exact PayA].
      apply Tail; [reflexivity|reflexivity| |reflexivity].
      intros x. cbn. unfold upd. destruct (Nat.eqb_spec x c) as [->|Hx]; [rewrite ?Nat.eqb_refl|];
        try (destruct (Nat.eqb_spec c p)); try (destruct (Nat.eqb_spec x p)); try subst; now repeat split.
Qed.

Lemma H_spawn s g sf : g_scope (groups s g) < nscope s -> hstep s (fst (spawn_task s g sf)).
Proof.
  intros Ag H. rewrite spawn_task_eq. cbn [fst].
  pose proof (H_new_scope s None false H) as H1. set (s1 := fst (new_scope s None false)) in *.
  assert (N1 : nscope s1 = S (nscope s)) by reflexivity.
  assert (H4 : HDI (spawn_struct s g sf)).
  { apply (HDI_frame s1); [exact H1|unfold spawn_struct; cbn; lia| | | | |].
    - intros x p. unfold spawn_struct. fold s1. cbn. unfold upd.
      destruct (Nat.eqb_spec x (g_scope (groups s g))) as [->|Hx]; cbn; auto.
    - intros x. unfold spawn_struct. fold s1. cbn. unfold upd.
      destruct (Nat.eqb_spec x (g_scope (groups s g))) as [->|Hx]; cbn; auto.
    - intros t x. unfold spawn_struct. fold s1. cbn. unfold upd. destruct (Nat.eqb_spec t (ntask s)) as [->|Ht]; [|auto].
      cbn. intros E. inversion E; subst x. right. lia.
    - intros x _. unfold spawn_struct. fold s1. cbn. unfold upd.
      destruct (Nat.eqb_spec x (g_scope (groups s g))) as [->|Hx]; cbn; auto.
    - apply rdq_same. reflexivity. }
  assert (N4 : nscope (spawn_struct s g sf) = S (nscope s)) by reflexivity.
  apply (HDI_hq (restart (spawn_struct s g sf) (Some (g_scope (groups s g))))).
  - apply H_restart; [|exact H4]. intros c Hc. inversion Hc; subst c. lia.
  - apply hq_ss; [apply treq_call_soon|now split|apply (rdq_soon _ _ (HStep (ntask s))); [reflexivity|discriminate]].
Qed.

Lemma H_run_task_done s t : hstep s (run_task_done s t).
Proof.
  intros H. unfold run_task_done. cbn [tasks set_running].
  destruct (k_group (tasks s t)) as [g|]; [|now apply (HDI_hq s), hq_set_running].
  set (s3 := upd_task _ t _).
  assert (H3 : HDI s3).
  { apply (HDI_frame s); [exact H|unfold s3; destruct (k_cur (tasks s t)); cbn; lia| | | | |].
    - intros x p. unfold s3. destruct (k_cur (tasks s t)) as [c|]; cbn; unfold upd; auto.
      destruct (Nat.eqb_spec x c) as [->|Hx]; cbn; auto.
    - intros x. unfold s3. destruct (k_cur (tasks s t)) as [c|]; cbn; unfold upd; auto.
      destruct (Nat.eqb_spec x c) as [->|Hx]; cbn; auto.
    - intros t' x. unfold s3. cbn. unfold upd. destruct (Nat.eqb_spec t' t) as [->|Ht]; [cbn; discriminate|].
      destruct (k_cur (tasks s t)); cbn; auto.
    - intros x _. unfold s3. destruct (k_cur (tasks s t)) as [c|]; cbn; unfold upd; auto.
      destruct (Nat.eqb_spec x c) as [->|Hx]; cbn; auto.
    - apply rdq_same. unfold s3. destruct (k_cur (tasks s t)); reflexivity. }
  clearbody s3.
  set (s4 := match g_fut (groups s3 g) with
             | Some f => match g_tasks (groups s3 g) with [] => fut_complete s3 f (FRes 0) | _ :: _ => s3 end
             | None => s3 end).
  assert (H4 : HDI s4).
  { unfold s4. destruct (g_fut (groups s3 g)); [|exact H3].
    destruct (g_tasks (groups s3 g)); [apply (HDI_hq s3); [exact H3|apply hq_fut_complete]|exact H3]. }
  clearbody s4.
  assert (Kc : forall a, hstep a (if eff_cancelled a (g_scope (groups a g)) then a
                                  else scope_cancel a (g_scope (groups a g)) false)).
  { intros a. destruct (eff_cancelled a _); [apply hstep_refl|apply H_scope_cancel]. }
  assert (Kc2 : forall a, hstep a (if s_cancelled (scopes a (g_scope (groups a g))) then a
                                   else scope_cancel a (g_scope (groups a g)) false)).
  { intros a. destruct (s_cancelled _); [apply hstep_refl|apply H_scope_cancel]. }
  assert (Kx : forall e, hstep s4 (upd_group s4 g (fun x => gr_excs (g_excs x ++ [(t, e)]) x))).
  { intros e. apply hstep_hq, hq_upd_group. intros k; reflexivity. }
  assert (Kf : forall f v, hstep s4 (fut_complete s4 f v)) by (intros f v; apply hstep_hq, hq_fut_complete).
  destruct (k_done (tasks s t)) as [[v|e|e]|].
  - destruct (k_startfut (tasks s t)) as [f|]; [|exact H4].
    destruct (f_st (futs s4 f)); try exact H4. now apply Kf.
  - destruct (k_startfut (tasks s t)) as [f|].
    + destruct (f_st (futs s4 f)).
      * now apply Kf.
      * destruct (is_cancel e); [now apply Kc|]. apply Kc2. now apply Kx.
      * destruct (is_cancel e); [now apply Kc|]. apply Kc2. now apply Kx.
      * destruct (is_cancel e); [exact H4|]. apply Kc2. now apply Kx.
    + destruct (is_cancel e); [now apply Kc|]. apply Kc2. now apply Kx.
  - destruct (k_startfut (tasks s t)) as [f|].
    + destruct (f_st (futs s4 f)).
      * now apply Kf.
      * destruct (is_cancel e); [now apply Kc|]. apply Kc2. now apply Kx.
      * destruct (is_cancel e); [now apply Kc|]. apply Kc2. now apply Kx.
      * destruct (is_cancel e); [exact H4|]. apply Kc2. now apply Kx.
    + destruct (is_cancel e); [now apply Kc|]. apply Kc2. now apply Kx.
  - destruct (k_startfut (tasks s t)) as [f|]; [|exact H4].
    destruct (f_st (futs s4 f)); try exact H4. now apply Kf.
Qed.

Lemma H_ret s t r : hstep s (fst (ret_to_puppet s t r)).
Proof. apply hstep_hq, hq_ret. Qed.

Lemma H_aexit_raise s t g e : hstep s (fst (aexit_raise s t g e)).
Proof.
  intros H. unfold aexit_raise. pose proof (H_exit s (g_scope (groups s g)) t (Some e) H) as K1.
  destruct (scope_exit s (g_scope (groups s g)) t (Some e)) as [s1 x]. cbn [fst] in K1.
  assert (K2 : HDI (upd_group s1 g (gr_left true))) by (apply (HDI_hq s1); [exact K1|apply hq_upd_group; intros k; reflexivity]).
  destruct x; cbn [fst]; try exact K2.
  apply (HDI_hq _ _ K2). apply hq_upd_task. intros k; reflexivity.
Qed.

Lemma H_aexit_finish s t g exc : hstep s (fst (aexit_finish s t g exc)).
Proof.
  intros H. unfold aexit_finish. destruct (map snd (g_excs (groups s g))) as [|e0 l]; [|now apply H_aexit_raise].
  destruct exc as [e|]; [now apply H_aexit_raise|].
  pose proof (H_exit s (g_scope (groups s g)) t None H) as K1.
  destruct (scope_exit s (g_scope (groups s g)) t None) as [s1 x]. cbn [fst] in K1.
  destruct x; cbn [fst]; (apply (HDI_hq s1); [exact K1|apply hq_upd_group; intros k; reflexivity]).
Qed.

Lemma H_new_enter s d sh t : hstep s (fst (scope_enter (fst (new_scope s d sh)) (nscope s) t)).
Proof. intros H. apply H_enter; [cbn; lia|now apply H_new_scope]. Qed.

Lemma H_wof s t g ws exc : hstep s (fst (aexit_wait_or_finish s t g ws exc)).
Proof.
  intros H. unfold aexit_wait_or_finish. destruct (g_tasks (groups s g)) as [|c0 cs].
  - destruct ws as [w|].
    + pose proof (H_exit s w t None H) as K1. destruct (scope_exit s w t None) as [s1 x]. cbn [fst] in K1.
      destruct x.
      * pose proof (H_aexit_finish s1 t g exc K1) as K2. destruct (aexit_finish s1 t g exc) as [s2 r]. now apply H_ret.
      * pose proof (H_aexit_finish s1 t g exc K1) as K2. destruct (aexit_finish s1 t g exc) as [s2 r]. now apply H_ret.
      * pose proof (H_aexit_raise s1 t g e K1) as K2. destruct (aexit_raise s1 t g e) as [s2 r]. now apply H_ret.
    + pose proof (H_aexit_finish s t g exc H) as K2. destruct (aexit_finish s t g exc) as [s2 r]. now apply H_ret.
  - assert (Tail : forall a w, HDI a ->
              HDI (fst (let '(s1, f) := new_fut a in
                        blocked (set_ctl (suspend_on (upd_group s1 g (gr_fut (Some f))) t f) t (CAexitWait g w exc))))).
    { intros a w Ha. unfold new_fut. cbv zeta. cbn [fst blocked].
      match goal with |- HDI (set_running (set_ctl (suspend_on ?b t ?f) t ?c) None) =>
        apply (HDI_hq (suspend_on b t f)); [|eapply hq_trans; [apply hq_set_ctl|apply hq_set_running]];
        apply (HDI_hq b); [|apply hq_suspend_on] end.
      apply (HDI_hq (fst (new_fut a))); [apply (HDI_hq a); [exact Ha|apply hq_new_fut]|].
      apply hq_upd_group. intros k; reflexivity. }
    destruct ws as [w|]; [now apply Tail|].
    unfold new_scope. cbv zeta. cbn [fst]. apply Tail. now apply (H_new_enter s None false t).
Qed.

Lemma H_same_fields a b :
  HDI a -> nscope b = nscope a -> scopes b = scopes a -> (forall t, k_cur (tasks b t) = k_cur (tasks a t)) ->
  rdq a b -> HDI b.
Proof.
  intros H N Es Et R. apply (HDI_frame a); [exact H|lia| | | | |exact R].
  - intros x p. rewrite Es. auto.
  - intros x. rewrite Es. auto.
  - intros t x. rewrite Et. auto.
  - intros x _. now rewrite Es.
Qed.

Lemma H_block s s1 t c : hstep s s1 -> hstep s (fst (blocked (set_ctl s1 t c))).
Proof.
  intros K H. cbn [fst blocked]. apply (HDI_hq s1); [now apply K|]. eapply hq_trans; [apply hq_set_ctl|apply hq_set_running].
Qed.

Lemma H_puppet_op s0 t o : Tree s0 -> op_ok s0 o = true -> hstep s0 (fst (puppet_op s0 t o)).
Proof.
  intros T Hok H0. unfold puppet_op.
  assert (Kt : treq s0 (begin_act s0 t)) by apply treq_begin_act.
  assert (H : HDI (begin_act s0 t)) by (apply (HDI_hq s0); [exact H0|apply hq_begin_act]).
  set (s := begin_act s0 t) in *.
  assert (Q : forall s1 r, hstep s s1 -> HDI (fst (ret_to_puppet s1 t r))).
  { intros s1 r K. apply H_ret. now apply K. }
  assert (B : forall s1 c, hstep s s1 -> HDI (fst (blocked (set_ctl s1 t c)))).
  { intros s1 c K. now apply (H_block s s1 t c K). }
  assert (Na : forall x, s_active (scopes s x) = true -> x < nscope s).
  { intros x Hx. rewrite (tq_active _ _ Kt) in Hx. rewrite (tq_nscope _ _ Kt). apply (tr_act_alloc _ T x Hx). }
  assert (Ga : forall g, group_active s g = true -> g_scope (groups s g) < nscope s).
  { intros g Hg. unfold group_active in Hg. apply andb_true_iff in Hg. now apply Na. }
  destruct o; try exact H0.
  - unfold new_scope. cbv zeta. apply Q. apply (H_new_scope s d sh).
  - (* AEnter *)
    assert (Ac : c < nscope s).
    { cbn [op_ok] in Hok. apply andb_true_iff in Hok. destruct Hok as [Hok _]. apply andb_true_iff in Hok.
      destruct Hok as [_ Hok]. apply Nat.ltb_lt in Hok. now rewrite (tq_nscope _ _ Kt). }
    pose proof (H_enter s c t Ac) as K. destruct (scope_enter s c t) as [s1 e]. now apply Q.
  - (* AExit *)
    pose proof (H_exit s c t (k_held (tasks s t))) as K.
    destruct (scope_exit s c t (k_held (tasks s t))) as [s1 x]. cbn [fst] in K. destruct x.
    + assert (K2 : hstep s (upd_task s1 t (tk_held None))).
      { eapply hstep_trans; [exact K|]. apply hstep_hq, hq_upd_task. intros k; reflexivity. }
      destruct (_ && _); now apply Q.
    + now apply Q.
    + now apply Q.
  - apply Q. apply H_scope_cancel.
  - (* ASetShield *)
    destruct (Bool.eqb _ b); [apply Q, hstep_refl|]. apply Q. destruct b.
    + apply H_upd_scope. intros k; now repeat split.
    + apply (hstep_trans s (upd_scope s c (sc_shield false))); [apply H_upd_scope; intros k; now repeat split|].
      intros H1. apply H_restart; [|exact H1]. intros p Hp. now apply (hd_p _ H1 c p).
  - (* ASetDeadline *)
    apply Q. set (s1 := cancel_timeout _ c).
    assert (K : hstep s s1).
    { unfold s1. apply (hstep_trans s (upd_scope s c (sc_deadline d))); [apply H_upd_scope; intros k; now repeat split|].
      apply hstep_hq, hq_cancel_timeout. }
    destruct (_ && _); [|exact K]. eapply hstep_trans; [exact K|apply H_scope_timeout].
  - (* AGroupNew *)
    unfold new_scope. cbv zeta. apply Q. intros H1.
    apply (H_same_fields (fst (new_scope s None false))); [now apply H_new_scope|reflexivity|reflexivity|reflexivity|now apply rdq_same].
  - (* AGroupEnter *)
    destruct (g_entered (groups s g)); [apply Q, hstep_refl|].
    set (s1 := upd_group s g (gr_entered true)).
    assert (Ag : g_scope (groups s1 g) < nscope s1).
    { cbn [op_ok] in Hok. apply andb_true_iff in Hok. destruct Hok as [G1 G2]. apply Nat.ltb_lt in G1, G2.
      assert (A : alloc_g s0 g) by (split; assumption).
      pose proof (tr_gscope _ T g A) as [_ L]. unfold s1. cbn. unfold upd. now rewrite Nat.eqb_refl. }
    pose proof (H_enter s1 (g_scope (groups s1 g)) t Ag) as K.
    destruct (scope_enter _ _ t) as [s2 e]. cbn [fst] in K. apply Q.
    apply (hstep_trans s s1); [apply hstep_hq, hq_upd_group; intros k; reflexivity|exact K].
  - (* AGroupExit *)
    set (s1 := match k_held (tasks s t) with Some e => _ | None => s end).
    assert (H1 : HDI s1).
    { unfold s1. destruct (k_held (tasks s t)) as [e|]; [|exact H]. cbv zeta.
      destruct (is_cancel e); [now apply H_scope_cancel|].
      apply (HDI_hq (scope_cancel s (g_scope (groups s g)) false)); [now apply H_scope_cancel|].
      apply hq_upd_group. intros k; reflexivity. }
    destruct (g_tasks (groups s1 g)) eqn:Eg.
    + unfold new_scope. cbv zeta. cbn [fst blocked].
      match goal with |- HDI (set_running (set_ctl (bare_yield ?a t) t ?c) None) =>
        apply (HDI_hq a); [|eapply hq_trans; [apply hq_bare_yield|eapply hq_trans; [apply hq_set_ctl|apply hq_set_running]]] end.
      now apply (H_new_enter s1 None true t).
    + now apply H_wof.
  - (* ASpawn *)
    destruct (group_active s g) eqn:Eg; cbn [negb]; [|apply Q, hstep_refl].
    pose proof (H_spawn s g None (Ga g Eg)) as K. destruct (spawn_task s g None) as [s1 c]. now apply Q.
  - (* AStart *)
    destruct (group_active s g) eqn:Eg; cbn [negb]; [|apply Q, hstep_refl].
    unfold new_fut. cbv zeta.
    match goal with |- context [spawn_task ?a g ?sf] =>
      assert (K : hstep s (fst (spawn_task a g sf))) by
        (apply (hstep_trans s a); [apply hstep_hq, (hq_new_fut s)|apply H_spawn; exact (Ga g Eg)]);
      destruct (spawn_task a g sf) as [s2 c] end.
    cbn [fst blocked] in *.
    apply (HDI_hq (suspend_on s2 t (nfut s))); [|eapply hq_trans; [apply hq_set_ctl|apply hq_set_running]].
    apply (HDI_hq s2); [now apply K|apply hq_suspend_on].
  - (* AStarted *)
    destruct (k_startfut (tasks s t)) as [f|]; [|apply Q, hstep_refl].
    destruct (f_st (futs s f)); apply Q; try apply hstep_refl. apply hstep_hq, hq_fut_complete.
  - destruct (e_set _); apply Q; [apply hstep_refl|apply H_scope_cancel].
  - pose proof (hq_event_wait s t (k_hevent (tasks s h))) as K.
    destruct (event_wait s t (k_hevent (tasks s h))) as [s1 f]. cbn [fst] in K. apply B. now apply hstep_hq.
  - apply B. apply hstep_hq, hq_bare_yield.
  - destruct (ckif_spins _ _ _); [apply B, hstep_hq, hq_bare_yield|apply Q, hstep_refl].
  - (* AShieldCk *)
    unfold new_scope. cbv zeta. cbn [fst blocked].
    match goal with |- HDI (set_running (set_ctl (bare_yield ?a t) t ?c) None) =>
      apply (HDI_hq a); [|eapply hq_trans; [apply hq_bare_yield|eapply hq_trans; [apply hq_set_ctl|apply hq_set_running]]] end.
    now apply (H_new_enter s None true t).
  - (* ASleep *)
    unfold new_fut. cbv zeta. destruct d as [dt|].
    + unfold call_at. cbv zeta. cbn [fst blocked].
      match goal with |- HDI (set_running (set_ctl (suspend_on ?a t ?f) t ?c) None) =>
        apply (HDI_hq (suspend_on a t f)); [|eapply hq_trans; [apply hq_set_ctl|apply hq_set_running]];
        apply (HDI_hq a); [|apply hq_suspend_on] end.
      apply (HDI_hq (fst (new_fut s))); [apply (HDI_hq s); [exact H|apply hq_new_fut]|].
      apply (hq_call_at (fst (new_fut s))).
    + cbn [fst blocked].
      match goal with |- HDI (set_running (set_ctl (suspend_on ?a t ?f) t ?c) None) =>
        apply (HDI_hq (suspend_on a t f)); [|eapply hq_trans; [apply hq_set_ctl|apply hq_set_running]];
        apply (HDI_hq a); [|apply hq_suspend_on] end.
      apply (HDI_hq s); [exact H|apply hq_new_fut].
  - apply Q. apply hstep_hq, hq_upd_task. intros k; reflexivity.
  - apply Q. apply hstep_hq, hq_upd_task. intros k; reflexivity.
  - apply Q. apply hstep_hq, hq_upd_task. intros k; reflexivity.
  - apply Q. apply hstep_hq. apply hq_ss; [apply treq_task_uncancel|now split|now apply rdq_same].
  - cbn [fst]. apply (HDI_hq (park s t)); [apply (HDI_hq s); [exact H|apply hq_park]|apply hq_set_running].
  - (* AFailAt *)
    unfold new_scope. cbv zeta.
    match goal with |- context [scope_enter ?a ?c t] =>
      assert (K : hstep s (fst (scope_enter a c t))) by (apply (H_new_enter s d sh t));
      destruct (scope_enter a c t) as [s2 e] end.
    cbn [fst] in K. now apply Q.
Qed.

Lemma H_puppet_finish s0 t v : hstep s0 (fst (puppet_finish s0 t v)).
Proof.
  intros H0. unfold puppet_finish.
  set (s := begin_act s0 t).
  set (raw := match k_held (tasks s t) with Some e => OExc e | None => ORet v end).
  set (s1 := upd_task s t (tk_final (Some raw))).
  assert (H1 : HDI s1).
  { apply (HDI_hq s); [apply (HDI_hq s0); [exact H0|apply hq_begin_act]|]. apply hq_upd_task. intros k; reflexivity. }
  destruct (k_group (tasks s t)).
  - set (s2 := upd_task s1 t _). set (s3 := event_set s2 (k_hevent (tasks s t))).
    assert (H3 : HDI s3).
    { apply (HDI_hq s2); [|apply hq_event_set]. apply (HDI_hq s1); [exact H1|]. apply hq_upd_task. intros k. destruct raw; reflexivity. }
    pose proof (H_exit s3 (k_hscope (tasks s t)) t (k_held (tasks s t)) H3) as H4.
    destruct (scope_exit s3 (k_hscope (tasks s t)) t (k_held (tasks s t))) as [s4 x]. cbn [fst] in H4.
    destruct x; cbn [fst]; (apply (HDI_hq s4); [exact H4|apply hq_finish_task]).
  - cbn [fst]. apply (HDI_hq s1); [exact H1|apply hq_finish_task].
Qed.

Lemma H_resume s0 t fo : Tree s0 -> Ctl s0 -> hstep s0 (fst (resume s0 t fo)).
Proof.
  intros T C H0. unfold resume.
  pose proof (hq_incoming s0 t fo) as Q0. pose proof (treq_incoming s0 t fo) as Kt.
  pose proof (incoming_ctl s0 t fo) as Ec.
  assert (Eg : k_group (tasks (fst (incoming s0 t fo)) t) = k_group (tasks s0 t)) by apply (tq_group _ _ Kt).
  assert (Ehs : k_hscope (tasks (fst (incoming s0 t fo)) t) = k_hscope (tasks s0 t)).
  { pose proof (tq_tasks _ _ Kt t) as E. unfold tk_tree in E. now inversion E. }
  destruct (incoming s0 t fo) as [s inc]. cbn [fst] in *.
  assert (H : HDI s) by now apply (HDI_hq s0).
  assert (Q : forall s1 r, hstep s s1 -> HDI (fst (ret_to_puppet s1 t r))).
  { intros s1 r K. apply H_ret. now apply K. }
  destruct (k_ctl (tasks s t)) eqn:Ectl; try exact H0.
  - (* CNew *)
    set (s1 := upd_task s t (tk_started true)).
    assert (H1 : HDI s1) by (apply (HDI_hq s); [exact H|apply hq_upd_task; intros k; reflexivity]).
    destruct inc as [e|].
    + cbn [fst]. apply (HDI_hq s1); [exact H1|apply hq_finish_task].
    + cbn [fst]. set (s2 := match k_group (tasks s1 t) with Some _ => _ | None => s1 end).
      assert (H2 : HDI s2).
      { unfold s2. destruct (k_group (tasks s1 t)) as [g|] eqn:Eg1; [|exact H1]. apply H_enter; [|exact H1].
        assert (A : alloc_t s0 t).
        { destruct (alloc_t_dec s0 t) as [A|A]; [exact A|]. rewrite (c_unalloc _ C t A) in Ec. congruence. }
        assert (Eg0 : k_group (tasks s0 t) = Some g).
        { rewrite <- Eg. unfold s1 in Eg1. cbn in Eg1. unfold upd in Eg1. rewrite Nat.eqb_refl in Eg1. exact Eg1. }
        destruct (tr_kgroup _ T t g A Eg0) as [_ [[_ L] _]].
        unfold s1. cbn [nscope upd_task set_tasks tasks k_hscope]. unfold upd. rewrite Nat.eqb_refl. cbn.
        rewrite Ehs, (tq_nscope _ _ Kt). exact L. }
      apply (HDI_hq (park s2 t)); [apply (HDI_hq s2); [exact H2|apply hq_park]|apply hq_set_running].
  - (* CIdle *)
    cbn [fst]. set (s1 := match inc with Some e => upd_task s t (tk_held (Some e)) | None => s end).
    assert (H1 : HDI s1) by (unfold s1; destruct inc; [apply (HDI_hq s); [exact H|apply hq_upd_task; intros k; reflexivity]|exact H]).
    apply (HDI_hq (park s1 t)); [apply (HDI_hq s1); [exact H1|apply hq_park]|apply hq_set_running].
  - (* CYield *)
    destruct k as [| |c].
    + apply Q, hstep_refl.
    + destruct inc; [apply Q, hstep_refl|]. destruct (ckif_spins _ _ _); [|apply Q, hstep_refl]. cbn [fst blocked].
      apply (HDI_hq s); [exact H|eapply hq_trans; [apply hq_bare_yield|apply hq_set_running]].
    + pose proof (H_exit s c t inc) as K. destruct (scope_exit s c t inc) as [s1 x]. cbn [fst] in K.
      destruct x; now apply Q.
  - apply Q. apply hstep_hq, hq_timer_cancel.
  - (* CAexitWait *)
    set (s1 := upd_group s g (gr_fut None)).
    assert (H1 : HDI s1) by (apply (HDI_hq s); [exact H|apply hq_upd_group; intros k; reflexivity]).
    destruct inc as [e|].
    + apply H_wof. apply H_scope_cancel. apply H_upd_scope; [intros k; now repeat split|exact H1].
    + now apply H_wof.
  - (* CAexitCk *)
    pose proof (H_exit s sc t inc H) as H1. destruct (scope_exit s sc t inc) as [s1 x]. cbn [fst] in H1.
    destruct x as [| |e].
    + now apply H_wof.
    + destruct inc as [e|]; [|now apply H_wof].
      destruct (is_cancel e).
      * apply H_wof. now apply H_scope_cancel.
      * pose proof (H_aexit_raise s1 t g e H1) as H2. destruct (aexit_raise s1 t g e) as [s2 r]. now apply H_ret.
    + pose proof (H_aexit_raise s1 t g e H1) as H2. destruct (aexit_raise s1 t g e) as [s2 r]. now apply H_ret.
  - (* CStartWait *)
    destruct inc as [e|]; [|apply Q, hstep_refl].
    destruct (handle_pending s child); [|destruct (f_st (futs s _)); apply Q, hstep_refl].
    unfold new_scope. cbv zeta.
    set (s1 := scope_cancel s (k_hscope (tasks s child)) false).
    match goal with |- context [scope_enter ?a ?c t] => set (s3 := fst (scope_enter a c t)) end.
    assert (H3 : HDI s3) by (unfold s3; apply (H_new_enter s1 None true t); now apply H_scope_cancel).
    pose proof (hq_event_wait s3 t (k_hevent (tasks s3 child))) as K4.
    destruct (event_wait s3 t (k_hevent (tasks s3 child))) as [s4 wf]. cbn [fst blocked] in *.
    apply (HDI_hq s4); [now apply (HDI_hq s3)|eapply hq_trans; [apply hq_set_ctl|apply hq_set_running]].
  - (* CStartJoin *)
    set (s1 := event_unwait s (k_hevent (tasks s child)) f).
    assert (H1 : HDI s1) by (apply (HDI_hq s); [exact H|apply hq_event_unwait]).
    pose proof (H_exit s1 sc t inc H1) as K. destruct (scope_exit s1 sc t inc) as [s2 x]. cbn [fst] in K.
    destruct x; [| destruct inc |]; apply H_ret; exact K.
  - apply Q. apply hstep_hq, hq_event_unwait.
Qed.

Lemma H_run_handle s h : Tree s -> Ctl s -> hstep s (fst (run_handle s h)).
Proof.
  intros T C H. unfold run_handle. destruct (existsb (handle_eqb h) (ready s)) eqn:Ex; cbn [negb]; [|exact H].
  apply existsb_handle in Ex.
  set (s1 := set_ready s (remove_first h (ready s))).
  assert (Q1 : hq s s1) by (apply hq_ss; [apply treq_set_ready|now split|apply rdq_remove_first]).
  assert (H1 : HDI s1) by now apply (HDI_hq s).
  assert (T1 : Tree s1) by (apply (Tree_treq s); [exact T|apply treq_set_ready]).
  assert (C1 : Ctl s1).
  { apply (Ctl_step0 [] s s1 C); [|intros x []]. apply creq_creq0.
    apply creq_treq; [apply treq_set_ready|apply tcb_same_tasks; reflexivity|apply rq_td_remove_first]. }
  destruct h; cbn [fst].
  - now apply H_resume.
  - now apply H_resume.
  - destruct (hd_c _ H s0 Ex) as [Cc Ac].
    apply (HDI_hq (deliver_top (set_running s1 None) s0)); [|apply hq_set_running].
    apply H_deliver_top; [exact Cc|exact Ac|]. apply (HDI_hq s1); [exact H1|apply hq_set_running].
  - now apply H_run_task_done.
  - apply (HDI_hq s1); [exact H1|apply hq_fut_complete].
  - apply (HDI_hq (scope_timeout (set_running s1 None) s0)); [|apply hq_set_running].
    apply H_scope_timeout. apply (HDI_hq s1); [exact H1|apply hq_set_running].
Qed.

Theorem H_step s o : SInv s -> op_ok s o = true -> hstep s (fst (step s o)).
Proof.
  intros [[T C] _] Hok H. unfold step. destruct (actor o) as [t|].
  - destruct (negb (idle s t)); [exact H|]. destruct o; try (now apply H_puppet_op). now apply H_puppet_finish.
  - destruct o; try exact H.
    + (* ANewRoot *)
      unfold new_root. cbn [fst].
      match goal with |- HDI (set_running (park ?a ?t) None) => set (s1 := a) end.
      apply (HDI_hq (park s1 (ntask s))); [|apply hq_set_running].
      apply (HDI_hq s1); [|apply hq_park].
      apply (H_same_fields s); [exact H|reflexivity|reflexivity| |now apply rdq_same].
      intros t. unfold s1. cbn. unfold upd. destruct (Nat.eqb_spec t (ntask s)) as [->|Ht]; [|reflexivity].
      cbn. destruct (k_cur (tasks s (ntask s))) as [x|] eqn:E; [|reflexivity].
      exfalso. pose proof (tr_cur_alloc _ T _ _ E) as A. unfold alloc_t in A. lia.
    + cbn [fst]. apply (HDI_hq s); [exact H|apply hq_task_cancel].
    + cbn [fst]. apply (HDI_hq (scope_cancel (set_running s None) c false)); [|apply hq_set_running].
      apply H_scope_cancel. apply (HDI_hq s); [exact H|apply hq_set_running].
    + now apply H_run_handle.
    + destruct (Z.ltb dt 0); [exact H|]. cbn [fst]. apply (HDI_hq s); [exact H|apply hq_tick].
Qed.

Lemma HDI_init : HDI init.
Proof. constructor; cbn; [intros c []|discriminate|intros c H; now elim H|discriminate]. Qed.

Lemma hdi_final ops : forall s, SInv s -> HDI s -> ops_ok s ops = true -> HDI (final step s ops).
Proof.
  induction ops as [|o r IH]; intros s I H Hok; cbn in *; [exact H|].
  apply andb_true_iff in Hok. destruct Hok as [Ho Hr]. apply IH; [now apply step_inv|now apply H_step|exact Hr].
Qed.

Theorem reach_hdi s : reach_ok s -> HDI s.
Proof. intros [ops [H ->]]. apply hdi_final; [apply sinv_init|apply HDI_init|exact H]. Qed.

(* a delivery callback in the ready queue of a reachable state belongs to a cancelled scope *)
Corollary deliver_handle_cancelled s c :
  reach_ok s -> In (HDeliver c) (ready s) -> s_cancelled (scopes s c) = true.
Proof. intros R H. apply (hd_c _ (reach_hdi s R) c H). Qed.
