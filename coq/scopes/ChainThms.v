(* C04 (containment) clauses about the S machine:
   - what CancelScope.__exit__ returns and when it sets cancelled_caught  (absorb_iff, caught_iff_absorbed,
     non_cancel_passes_through), with the frame lemma saying in which state the two tests are evaluated;
   - which tasks one run of _deliver_cancellation can touch (cancel_only_if_effectively_cancelled,
     shielded_never_visited). *)
From AV Require Import Base Machine ChainFrame.

(* ====================================================================================================== *)
(* 1. scope_exit                                                                                            *)
(* ====================================================================================================== *)

(* the three RuntimeError guards of __exit__ *)
Definition exit_guards (s : st) (c : sid) (t : tid) : bool :=
  s_active (scopes s c) && opt_eqb (s_host (scopes s c)) t && opt_eqb (k_cur (tasks s t)) c.

(* state after the bookkeeping of lines 478-488: inactive, timer cancelled, task handed back to the parent *)
Definition exit_unlinked (s : st) (c : sid) (t : tid) : st :=
  let s1 := cancel_timeout (upd_scope s c (sc_active false)) c in
  let s2 := upd_scope s1 c (fun x => sc_tasks (del t (s_tasks x)) x) in
  let par := s_parent (scopes s c) in
  let s3 := match par with
            | Some p => upd_scope s2 p (fun x => sc_tasks (add t (s_tasks x)) (sc_children (del c (s_children x)) x))
            | None => s2
            end in
  upd_task s3 t (tk_cur par).

(* ... and after _restart_cancellation_in_parent (line 492): THE state in which `_cancel_called` and
   `_parent_cancellation_is_visible_to_us` are evaluated by line 497 *)
Definition exit_mid (s : st) (c : sid) (t : tid) : st :=
  restart (exit_unlinked s c t) (s_parent (scopes s c)).

(* lines 497-553 as a function of that state *)
Definition exit_tail (s5 : st) (c : sid) (t : tid) (par : option sid) (exc : option exn) : st * exit_res :=
  let fin (a : st) := upd_scope a c (sc_host None) in
  if s_cancelled (scopes s5 c) && negb (parent_visible s5 c) then
    let n := s_pending (scopes s5 c) in
    let s6 := upd_scope (iter n (fun a => task_uncancel a t) s5) c (sc_pending 0) in
    match exc with
    | Some (EGroup l) =>
        match split_exn (EGroup l) with
        | (None, _) => (fin s6, XFalse)
        | (Some _, None) => (fin (upd_scope s6 c (sc_caught true)), XTrue)
        | (Some _, Some r) => (fin (upd_scope s6 c (sc_caught true)), XRaise r)
        end
    | Some e =>
        if is_anyio_cancel e then (fin (upd_scope s6 c (sc_caught true)), XTrue) else (fin s6, XFalse)
    | None => (fin s6, XFalse)
    end
  else
    let n := s_pending (scopes s5 c) in
    let s6 :=
      if Nat.eqb n 0 then s5 else
      match par with
      | Some p =>
          if opt_eqb (s_host (scopes s5 p)) t
          then upd_scope (upd_scope s5 p (fun x => sc_pending (s_pending x + n) x)) c (sc_pending 0)
          else upd_scope (iter n (fun a => task_uncancel a t) s5) c (sc_pending 0)
      | None => upd_scope (iter n (fun a => task_uncancel a t) s5) c (sc_pending 0)
      end in
    (fin s6, XFalse).

Lemma scope_exit_guards_fail s c t exc :
  exit_guards s c t = false -> scope_exit s c t exc = (s, XRaise ERuntime).
Proof.
  unfold exit_guards, scope_exit. cbv zeta.
  destruct (s_active (scopes s c)); cbn [negb andb]; [|reflexivity].
  destruct (opt_eqb (s_host (scopes s c)) t); cbn [negb andb]; [|reflexivity].
  destruct (opt_eqb (k_cur (tasks s t)) c); cbn [negb]; [discriminate|reflexivity].
Qed.

Lemma scope_exit_eq s c t exc :
  exit_guards s c t = true ->
  scope_exit s c t exc = exit_tail (exit_mid s c t) c t (s_parent (scopes s c)) exc.
Proof.
  unfold exit_guards. intros H. apply andb_true_iff in H. destruct H as [H H3].
  apply andb_true_iff in H. destruct H as [H1 H2].
  unfold scope_exit. cbv zeta. rewrite H1, H2, H3. cbn [negb]. reflexivity.
Qed.

(* what __exit__ decides once it has established that the scope absorbs *)
Definition absorb_res (exc : option exn) : exit_res :=
  match exc with
  | Some (EGroup l) =>
      match split_exn (EGroup l) with
      | (None, _) => XFalse
      | (Some _, None) => XTrue
      | (Some _, Some r) => XRaise r
      end
  | Some e => if is_anyio_cancel e then XTrue else XFalse
  | None => XFalse
  end.

Lemma exit_tail_res s5 c t par exc :
  snd (exit_tail s5 c t par exc) =
  if s_cancelled (scopes s5 c) && negb (parent_visible s5 c) then absorb_res exc else XFalse.
Proof.
  unfold exit_tail, absorb_res. cbv zeta.
  destruct (s_cancelled (scopes s5 c) && negb (parent_visible s5 c)); [|reflexivity].
  destruct exc as [e|]; [|reflexivity].
  destruct e as [o|n| | |l]; try reflexivity.
  - destruct (is_anyio_cancel (ECancel o)); reflexivity.
  - destruct (split_exn (EGroup l)) as [[m|] [r|]]; reflexivity.
Qed.

Definition absorbed (r : exit_res) : bool := match r with XFalse => false | _ => true end.

(* the non-absorbing branch: hand the pending uncancellations to the parent (or undo them) *)
Definition exit_handover (s5 : st) (c : sid) (t : tid) (par : option sid) : st :=
  let n := s_pending (scopes s5 c) in
  if Nat.eqb n 0 then s5 else
  match par with
  | Some p =>
      if opt_eqb (s_host (scopes s5 p)) t
      then upd_scope (upd_scope s5 p (fun x => sc_pending (s_pending x + n) x)) c (sc_pending 0)
      else upd_scope (iter n (fun a => task_uncancel a t) s5) c (sc_pending 0)
  | None => upd_scope (iter n (fun a => task_uncancel a t) s5) c (sc_pending 0)
  end.

(* exit_tail in a form that separates the decision from the state update *)
Lemma exit_tail_eq s5 c t par exc :
  exit_tail s5 c t par exc =
  if s_cancelled (scopes s5 c) && negb (parent_visible s5 c) then
    let s6 := upd_scope (iter (s_pending (scopes s5 c)) (fun a => task_uncancel a t) s5) c (sc_pending 0) in
    (upd_scope (if absorbed (absorb_res exc) then upd_scope s6 c (sc_caught true) else s6) c (sc_host None),
     absorb_res exc)
  else (upd_scope (exit_handover s5 c t par) c (sc_host None), XFalse).
Proof.
  unfold exit_tail, absorb_res, exit_handover. cbv zeta.
  destruct (s_cancelled (scopes s5 c) && negb (parent_visible s5 c)); [|reflexivity].
  destruct exc as [e|]; [|reflexivity].
  destruct e as [o|n| | |l]; try reflexivity.
  - destruct o; reflexivity.
  - destruct (split_exn (EGroup l)) as [[m|] [r|]]; reflexivity.
Qed.

(* ---- the frame: the fields the two tests read are not touched by the bookkeeping ---- *)
Record xcore_eq (a b : scope) : Prop := mk_xcore_eq {
  xc_cancelled : s_cancelled a = s_cancelled b;
  xc_shield : s_shield a = s_shield b;
  xc_parent : s_parent a = s_parent b;
  xc_caught : s_caught a = s_caught b;
  xc_deadline : s_deadline a = s_deadline b;
  xc_bydeadline : s_bydeadline a = s_bydeadline b
}.

Record xframe (s s' : st) : Prop := mk_xframe {
  xf_now : now s' = now s;
  xf_nscope : nscope s' = nscope s;
  xf_scopes : forall x, xcore_eq (scopes s' x) (scopes s x)
}.

Lemma xcore_eq_refl a : xcore_eq a a.
Proof. constructor; reflexivity. Qed.

Lemma xframe_refl s : xframe s s.
Proof. constructor; try reflexivity. intros x; apply xcore_eq_refl. Qed.

Lemma xframe_trans a b c : xframe a b -> xframe b c -> xframe a c.
Proof.
  intros [n1 m1 H1] [n2 m2 H2]. constructor; try congruence.
  intros x. destruct (H1 x), (H2 x). constructor; congruence.
Qed.

Lemma dframe_xframe s s' : dframe s s' -> xframe s s'.
Proof.
  intros H. constructor; [apply (df_now _ _ H)|apply (df_nscope _ _ H)|].
  intros x. destruct (df_scopes _ _ H x). constructor; assumption.
Qed.

Lemma xframe_upd_scope s x g : (forall c, xcore_eq (g c) c) -> xframe s (upd_scope s x g).
Proof.
  intros Hg. constructor; try reflexivity. intros y. cbn [upd_scope set_scopes scopes].
  rewrite upd_eq. destruct (Nat.eqb y x) eqn:E; [|apply xcore_eq_refl].
  apply Nat.eqb_eq in E. subst y. apply Hg.
Qed.

Lemma xframe_upd_task s t g : xframe s (upd_task s t g).
Proof. constructor; try reflexivity. intros y; apply xcore_eq_refl. Qed.

Lemma xframe_timer_cancel s tm : xframe s (timer_cancel s tm).
Proof. constructor; try reflexivity. intros y; apply xcore_eq_refl. Qed.

Lemma xframe_cancel_timeout s c : xframe s (cancel_timeout s c).
Proof.
  unfold cancel_timeout. destruct (s_timeout (scopes s c)); [|apply xframe_refl].
  eapply xframe_trans; [apply xframe_timer_cancel|]. apply xframe_upd_scope. intros x. constructor; reflexivity.
Qed.

Lemma exit_unlinked_xframe s c t : xframe s (exit_unlinked s c t).
Proof.
  unfold exit_unlinked. cbv zeta.
  eapply xframe_trans; [|apply xframe_upd_task].
  assert (H2 : xframe s (upd_scope (cancel_timeout (upd_scope s c (sc_active false)) c) c
                                   (fun x => sc_tasks (del t (s_tasks x)) x))).
  { eapply xframe_trans; [|apply xframe_upd_scope; intros x; constructor; reflexivity].
    eapply xframe_trans; [|apply xframe_cancel_timeout].
    apply xframe_upd_scope. intros x; constructor; reflexivity. }
  destruct (s_parent (scopes s c)); [|exact H2].
  eapply xframe_trans; [exact H2|]. apply xframe_upd_scope. intros x; constructor; reflexivity.
Qed.

Lemma exit_mid_xframe s c t : xframe s (exit_mid s c t).
Proof.
  unfold exit_mid. eapply xframe_trans; [apply exit_unlinked_xframe|].
  apply dframe_xframe, restart_dframe.
Qed.

Lemma xframe_chain_fields s s' : xframe s s' ->
  forall c, s_cancelled (scopes s' c) = s_cancelled (scopes s c) /\
            s_shield (scopes s' c) = s_shield (scopes s c) /\
            s_parent (scopes s' c) = s_parent (scopes s c).
Proof. intros H c. destruct (xf_scopes _ _ H c). auto. Qed.

(* the frame lemma asked for: evaluating the two tests before the bookkeeping of __exit__ (in the state the
   caller sees) or where the code evaluates them (exit_mid: after unlinking and after the cancellation restart,
   which may change only _cancel_handle / _pending_uncancellations / the ready queue / task cancel flags)
   gives the same answers *)
Theorem exit_tests_frame s c t :
  s_cancelled (scopes (exit_mid s c t) c) = s_cancelled (scopes s c) /\
  parent_visible (exit_mid s c t) c = parent_visible s c /\
  (forall x, eff_cancelled (exit_mid s c t) x = eff_cancelled s x).
Proof.
  pose proof (exit_mid_xframe s c t) as H. refine (conj _ (conj _ _)).
  - apply (xc_cancelled _ _ (xf_scopes _ _ H c)).
  - apply parent_visible_ext; [apply (xf_nscope _ _ H)|apply xframe_chain_fields, H].
  - intros x. unfold eff_cancelled. rewrite (xf_nscope _ _ H).
    apply eff_cancelled_from_ext, xframe_chain_fields, H.
Qed.

(* ---- results ---- *)
Theorem scope_exit_result s c t exc :
  exit_guards s c t = true ->
  snd (scope_exit s c t exc) =
  if s_cancelled (scopes s c) && negb (parent_visible s c) then absorb_res exc else XFalse.
Proof.
  intros G. rewrite (scope_exit_eq s c t exc G), exit_tail_res.
  destruct (exit_tests_frame s c t) as (-> & -> & _). reflexivity.
Qed.

(* the exception (possibly a group) consists of AnyIO cancellations only *)
Definition only_anyio_cancel (exc : option exn) : Prop :=
  (exists e, exc = Some e /\ is_anyio_cancel e = true) \/
  (exists l m, exc = Some (EGroup l) /\ split_exn (EGroup l) = (Some m, None)).

(* a group that contains AnyIO cancellations and something else; r = the something else *)
Definition anyio_cancel_and_rest (exc : option exn) (r : exn) : Prop :=
  exists l m, exc = Some (EGroup l) /\ split_exn (EGroup l) = (Some m, Some r).

Lemma absorb_res_true exc : absorb_res exc = XTrue <-> only_anyio_cancel exc.
Proof.
  unfold absorb_res, only_anyio_cancel. destruct exc as [e|].
  - destruct e as [o|n| | |l].
    + destruct (is_anyio_cancel (ECancel o)) eqn:E.
      * split; auto. intros _. left. eauto.
      * split; [discriminate|]. intros [(e & H & H2)|(l & m & H & _)]; [|discriminate].
        injection H as <-. congruence.
    + split; [discriminate|]. intros [(e & H & H2)|(l & m & H & _)]; [|discriminate].
      injection H as <-. discriminate.
    + split; [discriminate|]. intros [(e & H & H2)|(l & m & H & _)]; [|discriminate].
      injection H as <-. discriminate.
    + split; [discriminate|]. intros [(e & H & H2)|(l & m & H & _)]; [|discriminate].
      injection H as <-. discriminate.
    + destruct (split_exn (EGroup l)) as [[m|] [r|]] eqn:E.
      * split; [discriminate|]. intros [(e & H & H2)|(l' & m' & H & H2)].
        -- injection H as <-. discriminate.
        -- injection H as <-. congruence.
      * split; auto. intros _. right. exists l, m. auto.
      * split; [discriminate|]. intros [(e & H & H2)|(l' & m' & H & H2)].
        -- injection H as <-. discriminate.
        -- injection H as <-. congruence.
      * split; [discriminate|]. intros [(e & H & H2)|(l' & m' & H & H2)].
        -- injection H as <-. discriminate.
        -- injection H as <-. congruence.
  - split; [discriminate|]. intros [(e & H & _)|(l & m & H & _)]; discriminate.
Qed.

Lemma absorb_res_raise exc r : absorb_res exc = XRaise r <-> anyio_cancel_and_rest exc r.
Proof.
  unfold absorb_res, anyio_cancel_and_rest. destruct exc as [e|].
  - destruct e as [o|n| | |l].
    + destruct (is_anyio_cancel (ECancel o)); (split; [discriminate|]); intros (l & m & H & _); discriminate.
    + split; [discriminate|]. intros (l & m & H & _); discriminate.
    + split; [discriminate|]. intros (l & m & H & _); discriminate.
    + split; [discriminate|]. intros (l & m & H & _); discriminate.
    + destruct (split_exn (EGroup l)) as [[m|] [r0|]] eqn:E.
      * split.
        -- intros H. injection H as ->. exists l, m. auto.
        -- intros (l' & m' & H & H2). injection H as <-. rewrite E in H2. now injection H2 as _ ->.
      * split; [discriminate|]. intros (l' & m' & H & H2). injection H as <-. congruence.
      * split; [discriminate|]. intros (l' & m' & H & H2). injection H as <-. congruence.
      * split; [discriminate|]. intros (l' & m' & H & H2). injection H as <-. congruence.
  - split; [discriminate|]. intros (l & m & H & _); discriminate.
Qed.

(* absorb_iff, clause 1: __exit__ swallows  <->  the scope was itself cancelled, no cancelled enclosing scope is
   visible to it, and the exception consists of AnyIO cancellations only *)
Theorem absorb_iff s c t exc :
  exit_guards s c t = true ->
  (snd (scope_exit s c t exc) = XTrue <->
   s_cancelled (scopes s c) = true /\ parent_visible s c = false /\ only_anyio_cancel exc).
Proof.
  intros G. rewrite (scope_exit_result s c t exc G).
  destruct (s_cancelled (scopes s c)), (parent_visible s c); cbn [negb andb].
  2: { rewrite absorb_res_true. tauto. }
  all: split; [discriminate|intros (? & ? & ?); discriminate].
Qed.

(* clause 2: a group with cancellations and other leaves: the others are re-raised without the cancellations *)
Theorem absorb_rest_iff s c t exc r :
  exit_guards s c t = true ->
  (snd (scope_exit s c t exc) = XRaise r <->
   s_cancelled (scopes s c) = true /\ parent_visible s c = false /\ anyio_cancel_and_rest exc r).
Proof.
  intros G. rewrite (scope_exit_result s c t exc G).
  destruct (s_cancelled (scopes s c)), (parent_visible s c); cbn [negb andb].
  2: { rewrite absorb_res_raise. tauto. }
  all: split; [discriminate|intros (? & ? & ?); discriminate].
Qed.

(* clause 3: in every other case the exception passes through *)
Theorem absorb_otherwise s c t exc :
  exit_guards s c t = true ->
  (snd (scope_exit s c t exc) = XFalse <->
   ~ (s_cancelled (scopes s c) = true /\ parent_visible s c = false /\
      (only_anyio_cancel exc \/ exists r, anyio_cancel_and_rest exc r))).
Proof.
  intros G. split.
  - intros H (Hc & Hp & [Ho|[r Hr]]).
    + assert (X : snd (scope_exit s c t exc) = XTrue) by (apply absorb_iff; auto). congruence.
    + assert (X : snd (scope_exit s c t exc) = XRaise r) by (apply absorb_rest_iff; auto). congruence.
  - intros H. destruct (snd (scope_exit s c t exc)) as [| |r] eqn:E; [|reflexivity|]; exfalso; apply H.
    + apply (absorb_iff s c t exc G) in E. tauto.
    + apply (absorb_rest_iff s c t exc r G) in E. destruct E as (? & ? & ?). eauto.
Qed.

(* exceptions other than AnyIO cancellations always pass through: a non-group exception that is not an AnyIO
   cancellation, a group without any, or no exception at all never makes __exit__ return True or raise *)
Definition no_anyio_cancel (exc : option exn) : Prop :=
  match exc with
  | None => True
  | Some (EGroup l) => fst (split_exn (EGroup l)) = None
  | Some e => is_anyio_cancel e = false
  end.

Theorem non_cancel_passes_through s c t exc :
  exit_guards s c t = true -> no_anyio_cancel exc ->
  snd (scope_exit s c t exc) = XFalse /\
  s_caught (scopes (fst (scope_exit s c t exc)) c) = s_caught (scopes s c).
Proof.
  intros G H. assert (A : absorb_res exc = XFalse).
  { unfold absorb_res. destruct exc as [e|]; [|reflexivity].
    destruct e as [o|n| | |l]; unfold no_anyio_cancel in H; try reflexivity.
    - now rewrite H.
    - destruct (split_exn (EGroup l)) as [[m|] r]; [discriminate|reflexivity]. }
  split.
  - rewrite (scope_exit_result s c t exc G). destruct (_ && _); [exact A|reflexivity].
  - rewrite (scope_exit_eq s c t exc G), exit_tail_eq, A. cbn [absorbed].
    pose proof (exit_mid_xframe s c t) as X. rewrite <- (xc_caught _ _ (xf_scopes _ _ X c)).
    set (s5 := exit_mid s c t).
    assert (U : forall a, s_caught (scopes (upd_scope a c (sc_host None)) c) = s_caught (scopes a c)).
    { intros a. cbn [upd_scope set_scopes scopes]. now rewrite upd_same. }
    assert (P : forall a, s_caught (scopes (upd_scope a c (sc_pending 0)) c) = s_caught (scopes a c)).
    { intros a. cbn [upd_scope set_scopes scopes]. now rewrite upd_same. }
    assert (I : forall n a, s_caught (scopes (iter n (fun a => task_uncancel a t) a) c) = s_caught (scopes a c)).
    { intros n a. pose proof (dframe_iter_uncancel n t a) as D. apply (ce_caught _ _ (df_scopes _ _ D c)). }
    destruct (s_cancelled (scopes s5 c) && negb (parent_visible s5 c)); cbv zeta; cbn [fst].
    + now rewrite U, P, I.
    + rewrite U. unfold exit_handover. cbv zeta.
      destruct (Nat.eqb (s_pending (scopes s5 c)) 0); [reflexivity|].
      destruct (s_parent (scopes s c)) as [p|].
      * destruct (opt_eqb (s_host (scopes s5 p)) t).
        -- rewrite P. cbn [upd_scope set_scopes scopes]. rewrite upd_eq.
           destruct (Nat.eqb c p) eqn:E; [|reflexivity]. apply Nat.eqb_eq in E. now subst p.
        -- now rewrite P, I.
      * now rewrite P, I.
Qed.

(* a relation like xframe but ignoring cancelled_caught: now, nscope and the chain/deadline fields *)
Definition cframe (a b : st) : Prop :=
  now b = now a /\ nscope b = nscope a /\
  forall x, s_cancelled (scopes b x) = s_cancelled (scopes a x) /\
            s_shield (scopes b x) = s_shield (scopes a x) /\
            s_parent (scopes b x) = s_parent (scopes a x) /\
            s_deadline (scopes b x) = s_deadline (scopes a x) /\
            s_bydeadline (scopes b x) = s_bydeadline (scopes a x).

Lemma cframe_xframe a b : xframe a b -> cframe a b.
Proof. intros [H1 H2 H3]. refine (conj H1 (conj H2 _)). intros x. destruct (H3 x). auto. Qed.

Lemma cframe_trans a b d : cframe a b -> cframe b d -> cframe a d.
Proof.
  intros (A1 & A2 & A3) (B1 & B2 & B3). refine (conj _ (conj _ _)); try congruence.
  intros x. destruct (A3 x) as (? & ? & ? & ? & ?), (B3 x) as (? & ? & ? & ? & ?).
  repeat split; congruence.
Qed.

Lemma cframe_upd_scope a x g :
  (forall k, s_cancelled (g k) = s_cancelled k /\ s_shield (g k) = s_shield k /\ s_parent (g k) = s_parent k /\
             s_deadline (g k) = s_deadline k /\ s_bydeadline (g k) = s_bydeadline k) ->
  cframe a (upd_scope a x g).
Proof.
  intros Hg. refine (conj eq_refl (conj eq_refl _)). intros y. cbn [upd_scope set_scopes scopes].
  rewrite upd_eq. destruct (Nat.eqb y x) eqn:E; [|auto]. apply Nat.eqb_eq in E. subst y. apply Hg.
Qed.

Lemma exit_handover_xframe s5 c t par : xframe s5 (exit_handover s5 c t par).
Proof.
  unfold exit_handover. cbv zeta. destruct (Nat.eqb (s_pending (scopes s5 c)) 0); [apply xframe_refl|].
  assert (K : xframe s5 (upd_scope (iter (s_pending (scopes s5 c)) (fun a => task_uncancel a t) s5) c (sc_pending 0))).
  { eapply xframe_trans; [apply dframe_xframe, dframe_iter_uncancel|].
    apply xframe_upd_scope. intros k; constructor; reflexivity. }
  destruct par as [p|]; [|exact K]. destruct (opt_eqb (s_host (scopes s5 p)) t); [|exact K].
  eapply xframe_trans; apply xframe_upd_scope; intros k; constructor; reflexivity.
Qed.

(* caught_iff_absorbed: cancelled_caught of the exited scope after __exit__ = its old value, or it absorbed now
   (returned True, or re-raised the rest of a group); no other scope's flag moves *)
Theorem caught_iff_absorbed s c t exc :
  exit_guards s c t = true ->
  s_caught (scopes (fst (scope_exit s c t exc)) c) =
    s_caught (scopes s c) || absorbed (snd (scope_exit s c t exc)) /\
  (forall x, x <> c -> s_caught (scopes (fst (scope_exit s c t exc)) x) = s_caught (scopes s x)).
Proof.
  intros G. rewrite (scope_exit_eq s c t exc G), exit_tail_eq.
  pose proof (exit_mid_xframe s c t) as X.
  set (s5 := exit_mid s c t) in *.
  assert (U : forall a x, s_caught (scopes (upd_scope a c (sc_host None)) x) = s_caught (scopes a x)).
  { intros a x. cbn [upd_scope set_scopes scopes]. rewrite upd_eq. destruct (Nat.eqb x c) eqn:E; [|reflexivity].
    apply Nat.eqb_eq in E. now subst x. }
  assert (X5 : forall x, s_caught (scopes s5 x) = s_caught (scopes s x)).
  { intros x. apply (xc_caught _ _ (xf_scopes _ _ X x)). }
  destruct (s_cancelled (scopes s5 c) && negb (parent_visible s5 c)); cbv zeta; cbn [fst snd].
  - assert (X6 : forall x, s_caught (scopes (upd_scope (iter (s_pending (scopes s5 c)) (fun a => task_uncancel a t) s5)
                                                       c (sc_pending 0)) x) = s_caught (scopes s x)).
    { intros x. rewrite <- X5. apply xc_caught. apply xf_scopes.
      eapply xframe_trans; [apply dframe_xframe, dframe_iter_uncancel|].
      apply xframe_upd_scope. intros k; constructor; reflexivity. }
    destruct (absorbed (absorb_res exc)).
    + split.
      * rewrite U. cbn [upd_scope set_scopes scopes]. rewrite upd_same. cbn [sc_caught s_caught].
        now rewrite orb_true_r.
      * intros x Hx. rewrite U.
        assert (C2 : forall a, s_caught (scopes (upd_scope a c (sc_caught true)) x) = s_caught (scopes a x)).
        { intros a. cbn [upd_scope set_scopes scopes]. now rewrite upd_other. }
        now rewrite C2, X6.
    + split.
      * now rewrite U, X6, orb_false_r.
      * intros x _. now rewrite U, X6.
  - pose proof (exit_handover_xframe s5 c t (s_parent (scopes s c))) as Hh.
    split.
    + now rewrite U, (xc_caught _ _ (xf_scopes _ _ Hh c)), X5, orb_false_r.
    + intros x _. now rewrite U, (xc_caught _ _ (xf_scopes _ _ Hh x)), X5.
Qed.

(* the remaining chain fields are not touched by __exit__ at all (whatever the guards say) *)
Theorem scope_exit_chain_frame s c t exc : cframe s (fst (scope_exit s c t exc)).
Proof.
  destruct (exit_guards s c t) eqn:G.
  2: { rewrite (scope_exit_guards_fail s c t exc G). cbn [fst]. apply cframe_xframe, xframe_refl. }
  rewrite (scope_exit_eq s c t exc G), exit_tail_eq.
  pose proof (exit_mid_xframe s c t) as X. set (s5 := exit_mid s c t) in *.
  assert (Fin : forall a, cframe s a -> cframe s (upd_scope a c (sc_host None))).
  { intros a Ha. eapply cframe_trans; [exact Ha|]. apply cframe_upd_scope. intros k. auto. }
  destruct (s_cancelled (scopes s5 c) && negb (parent_visible s5 c)); cbv zeta; cbn [fst].
  - assert (Q6 : cframe s (upd_scope (iter (s_pending (scopes s5 c)) (fun a => task_uncancel a t) s5) c (sc_pending 0))).
    { apply cframe_xframe. eapply xframe_trans; [exact X|].
      eapply xframe_trans; [apply dframe_xframe, dframe_iter_uncancel|].
      apply xframe_upd_scope. intros k; constructor; reflexivity. }
    apply Fin. destruct (absorbed (absorb_res exc)); [|exact Q6].
    eapply cframe_trans; [exact Q6|]. apply cframe_upd_scope. intros k. auto.
  - apply Fin, cframe_xframe. eapply xframe_trans; [exact X|apply exit_handover_xframe].
Qed.

(* ---- BaseExceptionGroup.split keeps every leaf on exactly one side ---- *)
Lemma exn_ind' (P : exn -> Prop) :
  (forall o, P (ECancel o)) -> (forall n, P (EErr n)) -> P ERuntime -> P ETimeout ->
  (forall l, Forall P l -> P (EGroup l)) -> forall e, P e.
Proof.
  intros Hc He Hr Ht Hg.
  refine (fix IH (e : exn) : P e :=
            match e with
            | ECancel o => Hc o
            | EErr n => He n
            | ERuntime => Hr
            | ETimeout => Ht
            | EGroup l => Hg l ((fix go (l : list exn) : Forall P l :=
                                   match l with
                                   | [] => Forall_nil P
                                   | x :: r => Forall_cons x (IH x) (go r)
                                   end) l)
            end).
Qed.

Definition oleaves (o : option exn) : list exn := match o with Some m => leaves m | None => [] end.

Lemma oleaves_group (m : list exn) :
  oleaves (match m with [] => None | _ => Some (EGroup m) end) = flat_map leaves m.
Proof. destruct m; reflexivity. Qed.

Theorem split_exn_leaves e :
  oleaves (fst (split_exn e)) = filter is_anyio_cancel (leaves e) /\
  oleaves (snd (split_exn e)) = filter (fun x => negb (is_anyio_cancel x)) (leaves e).
Proof.
  induction e as [o|n| | |l IH] using exn_ind'.
  - cbn [split_exn leaves filter]. destruct (is_anyio_cancel (ECancel o)); split; reflexivity.
  - split; reflexivity.
  - split; reflexivity.
  - split; reflexivity.
  - cbn [split_exn fst snd leaves]. rewrite !oleaves_group.
    induction IH as [|x r [Hx1 Hx2] _ IHr]; [split; reflexivity|].
    destruct IHr as [I1 I2]. cbn [map flat_map]. rewrite !filter_app, <- Hx1, <- Hx2.
    destruct (split_exn x) as [[m|] [q|]]; cbn [fst snd somes flat_map oleaves app];
      rewrite ?I1, ?I2; split; reflexivity.
Qed.

(* ====================================================================================================== *)
(* 2. delivery                                                                                              *)
(* ====================================================================================================== *)

(* a downward path self -> x of length n whose scopes below self are neither shielded nor cancelled *)
Inductive vpath (s : st) : sid -> sid -> nat -> Prop :=
| vp_refl x : vpath s x x 0
| vp_step self c x n :
    In c (s_children (scopes s self)) -> s_shield (scopes s c) = false -> s_cancelled (scopes s c) = false ->
    vpath s c x n -> vpath s self x (S n).

Lemma vlist_vpath fuel : forall s self x,
  In x (vlist fuel s self) -> exists n, n < fuel /\ vpath s self x n.
Proof.
  induction fuel as [|fu IH]; intros s self x H; [destruct H|].
  cbn [vlist] in H. destruct H as [<-|H].
  - exists 0. split; [lia|apply vp_refl].
  - apply in_flat_map in H. destruct H as (c & Hc & Hx).
    destruct (s_shield (scopes s c)) eqn:Es; cbn [negb andb] in Hx; [destruct Hx|].
    destruct (s_cancelled (scopes s c)) eqn:Ec; cbn [negb] in Hx; [destruct Hx|].
    destruct (IH s c x Hx) as (n & Hn & Hp). exists (S n). split; [lia|].
    eapply vp_step; eauto.
Qed.

Lemma vpath_open s self x n : vpath s self x n ->
  x = self \/ (s_shield (scopes s x) = false /\ s_cancelled (scopes s x) = false).
Proof.
  induction 1 as [x|self c x n Hc Hs Hk Hp IH]; [now left|].
  right. destruct IH as [->|IH]; auto.
Qed.

(* shielded_never_visited: one run of _deliver_cancellation started at `self` never enters a shielded scope,
   nor a scope with its own cancellation in progress, other than `self` itself *)
Theorem shielded_never_visited fuel s self x :
  In x (vlist fuel s self) -> x <> self ->
  s_shield (scopes s x) = false /\ s_cancelled (scopes s x) = false.
Proof.
  intros H Hx. destruct (vlist_vpath fuel s self x H) as (n & _ & Hp).
  destruct (vpath_open s self x n Hp) as [->|K]; [contradiction|exact K].
Qed.

(* every task whose record is changed in any way (Task.cancel() is the only thing deliver does to a task) is
   in _tasks of a visited scope *)
Theorem deliver_touches_only_reach fuel s self origin t :
  tasks (fst (deliver fuel s self origin)) t <> tasks s t ->
  exists x, In x (vlist fuel s self) /\ In t (s_tasks (scopes s x)).
Proof.
  intros H. destruct (in_dec Nat.eq_dec t (reach_tasks fuel s self)) as [Hin|Hn].
  - unfold reach_tasks in Hin. apply in_flat_map in Hin. exact Hin.
  - exfalso. apply H. now apply deliver_spec.
Qed.

(* the tree invariant, taken as a hypothesis here (it is proved for all reachable states elsewhere) *)
Record TreeOK (s : st) : Prop := mk_TreeOK {
  tree_child_parent : forall p c, In c (s_children (scopes s p)) -> s_parent (scopes s c) = Some p;
  tree_task_cur : forall t x, In t (s_tasks (scopes s x)) -> k_cur (tasks s t) = Some x
}.

Lemma eff_cancelled_from_mono fuel s : forall x k,
  eff_cancelled_from fuel s x = true -> eff_cancelled_from (fuel + k) s x = true.
Proof.
  induction fuel as [|fu IH]; intros x k H; [destruct x; discriminate|].
  destruct x as [c|]; [|discriminate]. cbn [eff_cancelled_from plus] in *.
  destruct (s_cancelled (scopes s c)); [reflexivity|].
  destruct (s_shield (scopes s c)); [discriminate|]. now apply IH.
Qed.

Lemma vpath_walk_up s self x n : TreeOK s -> vpath s self x n ->
  forall fuel, eff_cancelled_from (n + fuel) s (Some x) = eff_cancelled_from fuel s (Some self).
Proof.
  intros T. induction 1 as [x|self c x n Hc Hs Hk Hp IH]; intros fuel; [reflexivity|].
  replace (S n + fuel) with (n + S fuel) by lia. rewrite IH. cbn [eff_cancelled_from].
  rewrite Hk, Hs. now rewrite (tree_child_parent s T self c Hc).
Qed.

(* cancel_only_if_effectively_cancelled: a task touched by the delivery run of a cancelled scope c sits in a
   scope x reached from c through unshielded, uncancelled children, and the walk from the task's current scope
   finds the cancellation *)
Theorem cancel_only_if_effectively_cancelled s c t :
  TreeOK s -> s_cancelled (scopes s c) = true ->
  tasks (deliver_top s c) t <> tasks s t ->
  exists x n, k_cur (tasks s t) = Some x /\ vpath s c x n /\ n <= nscope s /\
              eff_cancelled_from (S (nscope s)) s (k_cur (tasks s t)) = true.
Proof.
  intros T Hc H. unfold deliver_top in H.
  destruct (deliver_touches_only_reach _ _ _ _ _ H) as (x & Hx & Ht).
  destruct (vlist_vpath _ _ _ _ Hx) as (n & Hn & Hp).
  exists x, n. rewrite (tree_task_cur s T t x Ht). refine (conj eq_refl (conj Hp (conj _ _))); [lia|].
  replace (S (nscope s)) with ((n + 1) + (nscope s - n)) by lia.
  apply eff_cancelled_from_mono. rewrite (vpath_walk_up s c x n T Hp 1). cbn [eff_cancelled_from].
  now rewrite Hc.
Qed.

Corollary cancel_only_if_effectively_cancelled_flat s c t :
  (forall p k, In k (s_children (scopes s p)) -> s_parent (scopes s k) = Some p) ->
  (forall u x, In u (s_tasks (scopes s x)) -> k_cur (tasks s u) = Some x) ->
  s_cancelled (scopes s c) = true ->
  tasks (deliver_top s c) t <> tasks s t ->
  exists x n, k_cur (tasks s t) = Some x /\ vpath s c x n /\ n <= nscope s /\
              (x = c \/ s_shield (scopes s x) = false) /\
              eff_cancelled_from (S (nscope s)) s (k_cur (tasks s t)) = true.
Proof.
  intros T1 T2 Hc H.
  destruct (cancel_only_if_effectively_cancelled s c t (mk_TreeOK s T1 T2) Hc H) as (x & n & E & Hp & Hn & He).
  exists x, n. refine (conj E (conj Hp (conj Hn (conj _ He)))).
  destruct (vpath_open s c x n Hp) as [->|[K _]]; auto.
Qed.

(* with the depth bound of the tree invariant (every downward path is shorter than nscope) this is the machine's
   own `eff_cancelled` of the task's current scope *)
Corollary cancel_only_if_eff_cancelled s c t :
  TreeOK s -> (forall x n, vpath s c x n -> n < nscope s) ->
  s_cancelled (scopes s c) = true ->
  tasks (deliver_top s c) t <> tasks s t ->
  exists x, k_cur (tasks s t) = Some x /\ eff_cancelled s x = true /\
            (x = c \/ s_shield (scopes s x) = false).
Proof.
  intros T D Hc H. unfold deliver_top in H.
  destruct (deliver_touches_only_reach _ _ _ _ _ H) as (x & Hx & Ht).
  destruct (vlist_vpath _ _ _ _ Hx) as (n & Hn & Hp).
  exists x. refine (conj (tree_task_cur s T t x Ht) (conj _ _)).
  - unfold eff_cancelled. pose proof (D x n Hp) as Hd.
    replace (nscope s) with ((n + 1) + (nscope s - n - 1)) by lia.
    apply eff_cancelled_from_mono. rewrite (vpath_walk_up s c x n T Hp 1). cbn [eff_cancelled_from].
    now rewrite Hc.
  - destruct (vpath_open s c x n Hp) as [->|[K _]]; auto.
Qed.

(* a task outside the cancelled subtree, or below a shield, is never touched *)
Corollary outside_reach_untouched fuel s self origin t :
  (forall x, In x (vlist fuel s self) -> ~ In t (s_tasks (scopes s x))) ->
  tasks (fst (deliver fuel s self origin)) t = tasks s t.
Proof.
  intros H. apply deliver_spec. unfold reach_tasks. intros Hin. apply in_flat_map in Hin.
  destruct Hin as (x & Hx & Ht). exact (H x Hx Ht).
Qed.

(* ====================================================================================================== *)
(* 3. non-vacuity                                                                                           *)
(* ====================================================================================================== *)
Definition reach (s : st) : Prop := exists ops, s = final step init ops.

(* task 1 sits in scope 2 inside scope 1; task 2 is about to cancel scope 1 *)
Definition ex_ops : list op :=
  [ANewRoot; ANewScope 1 None false; AEnter 1 1; ANewScope 1 None false; AEnter 1 2; ANewRoot].
Definition ex_state : st := final step init ex_ops.

Example ex_deliver_cancels_nested :
  reach ex_state /\
  let s := upd_scope ex_state 1 (sc_cancelled true) in
  vlist (S (nscope s)) s 1 = [1; 2] /\ s_tasks (scopes s 2) = [1] /\ k_cur (tasks s 1) = Some 2 /\
  k_ncancel (tasks s 1) = 0 /\ k_ncancel (tasks (deliver_top s 1) 1) = 1 /\
  eff_cancelled s 2 = true.
Proof. split; [exists ex_ops; reflexivity|]. vm_compute. repeat split; reflexivity. Qed.

(* the same through the machine's own cancel(): after ACancel by task 2 task 1 has a pending request from scope 1 *)
Example ex_cancel_reaches_nested :
  let s' := final step init (ex_ops ++ [ACancel 2 1]) in
  k_ncancel (tasks s' 1) = 1 /\ s_cancelled (scopes s' 1) = true /\ eff_cancelled s' 2 = true /\
  snd (step s' (ARun (HWake 1 (match k_waiter (tasks ex_state 1) with Some f => f | None => 0 end))))
    = RExc (ECancel 2).
Proof. vm_compute. repeat split; reflexivity. Qed.

(* a shielded child is skipped: same program with scope 2 shielded *)
Example ex_shield_holds :
  let ops := [ANewRoot; ANewScope 1 None false; AEnter 1 1; ANewScope 1 None true; AEnter 1 2; ANewRoot;
              ACancel 2 1] in
  let s' := final step init ops in
  s_cancelled (scopes s' 1) = true /\ k_ncancel (tasks s' 1) = 0 /\ eff_cancelled s' 2 = false.
Proof. vm_compute. repeat split; reflexivity. Qed.

(* exits: the inner scope does not absorb (parent cancellation visible), the cancelled one does *)
Example ex_exit_absorbs :
  let s1 := final step init (ex_ops ++ [ACancel 2 1;
              ARun (HWake 1 (match k_waiter (tasks ex_state 1) with Some f => f | None => 0 end))]) in
  exit_guards (begin_act s1 1) 2 1 = true /\
  snd (step s1 (AExit 1 2 false)) = RRet 0 /\
  let s2 := fst (step s1 (AExit 1 2 false)) in
  s_caught (scopes s2 2) = false /\
  exit_guards (begin_act s2 1) 1 1 = true /\
  snd (step s2 (AExit 1 1 false)) = RRet 1 /\
  s_caught (scopes (fst (step s2 (AExit 1 1 false))) 1) = true.
Proof. vm_compute. repeat split; reflexivity. Qed.

(* a group holding the scope's own cancellation and an error: the error is re-raised without the cancellation,
   cancelled_caught is set *)
Example ex_exit_group_rest :
  let s1 := final step init (ex_ops ++ [ACancel 2 1;
              ARun (HWake 1 (match k_waiter (tasks ex_state 1) with Some f => f | None => 0 end));
              AExit 1 2 false; AWrap 1 7]) in
  k_held (tasks s1 1) = Some (EGroup [ECancel 2; EErr 7]) /\
  exit_guards (begin_act s1 1) 1 1 = true /\
  snd (step s1 (AExit 1 1 false)) = RExc (EGroup [EErr 7]) /\
  s_caught (scopes (fst (step s1 (AExit 1 1 false))) 1) = true.
Proof. vm_compute. repeat split; reflexivity. Qed.

(* an ordinary exception passes through a cancelled scope untouched and does not set cancelled_caught *)
Example ex_exit_non_cancel_passes :
  let s1 := final step init [ANewRoot; ANewScope 1 None false; AEnter 1 1; ACancel 1 1; AHold 1 3] in
  s_cancelled (scopes s1 1) = true /\ exit_guards (begin_act s1 1) 1 1 = true /\
  no_anyio_cancel (k_held (tasks s1 1)) /\
  snd (step s1 (AExit 1 1 false)) = RRet 0 /\
  k_held (tasks (fst (step s1 (AExit 1 1 false))) 1) = Some (EErr 3) /\
  s_caught (scopes (fst (step s1 (AExit 1 1 false))) 1) = false.
Proof. vm_compute. repeat split; reflexivity. Qed.
