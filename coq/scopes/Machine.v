(* S machine: executable model of AnyIO's asyncio cancel scopes, task groups, start(), task handles and
   timeouts on top of a model of the asyncio kernel (tasks, futures, ready queue, timers).
   Transcribed from src/anyio/_backends/_asyncio.py (CancelScope, TaskGroup, checkpoint functions),
   src/anyio/_core/_tasks.py (TaskHandle, fail_at) and CPython 3.12 asyncio (Task.cancel/__step, Future,
   Event, sleep).  Definitions only; proofs live in the Inv_*.v / Thm_*.v files. *)
From AV Require Import Base.

Definition sid := nat.
Definition gid := nat.
Definition eid := nat.
Definition tmid := nat.

(* ---------------- exceptions ---------------- *)
Inductive exn :=
| ECancel (o : nat)        (* CancelledError; o = 0 native, o = S s: "Cancelled via cancel scope s" *)
| EErr (n : nat)           (* an ordinary exception (ValueError n) *)
| ERuntime                 (* RuntimeError raised by the library *)
| ETimeout
| EGroup (l : list exn).   (* BaseExceptionGroup *)

Definition is_cancel (e : exn) : bool := match e with ECancel _ => true | _ => false end.
Definition is_anyio_cancel (e : exn) : bool := match e with ECancel (S _) => true | _ => false end.

Fixpoint somes {A} (l : list (option A)) : list A :=
  match l with [] => [] | Some x :: r => x :: somes r | None :: r => somes r end.

(* BaseExceptionGroup.split(is_anyio_cancellation): (matched, rest) *)
Fixpoint split_exn (e : exn) : option exn * option exn :=
  match e with
  | EGroup l =>
      let parts := map split_exn l in
      let m := somes (map fst parts) in
      let r := somes (map snd parts) in
      (match m with [] => None | _ => Some (EGroup m) end,
       match r with [] => None | _ => Some (EGroup r) end)
  | _ => if is_anyio_cancel e then (Some e, None) else (None, Some e)
  end.

Fixpoint leaves (e : exn) : list exn :=
  match e with
  | EGroup l => flat_map leaves l
  | _ => [e]
  end.

(* ---------------- kernel objects ---------------- *)
Inductive fstate := FPend | FRes (v : nat) | FExc (e : exn) | FCanc (o : nat).

Record fut := mkFut { f_st : fstate; f_waiter : option tid }.

Inductive handle :=
| HStep (t : tid)                (* first step of a new task, or continuation after a bare yield *)
| HWake (t : tid) (f : fid)      (* wake-up of t by completed future f *)
| HDeliver (s : sid)             (* CancelScope._deliver_cancellation re-scheduled *)
| HTaskDone (t : tid)            (* done callback of a finished group child *)
| HSleepDone (f : fid) (tm : tmid)   (* timer of asyncio.sleep fired: _set_result_unless_cancelled *)
| HTimeout (s : sid) (tm : tmid).    (* timer of a scope deadline fired: CancelScope._timeout *)

Inductive twhat := TSleep (f : fid) | TScope (s : sid).
Record timer := mkTimer { tm_id : tmid; tm_when : Z; tm_what : twhat }.

Inductive outcome := ORet (v : nat) | OExc (e : exn) | OCanc (e : exn).

(* control state of a task: where its coroutine is suspended *)
Inductive ykind :=
| YCheckpoint                    (* anyio checkpoint(): sleep(0) *)
| YCkIf                          (* checkpoint_if_cancelled spinning *)
| YShield (sc : sid).            (* cancel_shielded_checkpoint: inside `with CancelScope(shield=True)` *)

Inductive ctl :=
| CNew                           (* created, first step not run yet *)
| CIdle                          (* puppet at a decision point *)
| CYield (k : ykind)
| CSleep (f : fid) (tm : tmid)
| CAexitWait (g : gid) (ws : sid) (exc : option exn)     (* __aexit__: awaiting on_completed_fut *)
| CAexitCk (g : gid) (sc : sid) (exc : option exn)       (* __aexit__: empty-group shielded checkpoint *)
| CStartWait (g : gid) (child : tid) (f : fid)           (* start(): awaiting the start future *)
| CStartJoin (child : tid) (sc : sid) (e : exn) (f : option fid)  (* start(): shielded handle.wait() *)
| CHandleWait (h : tid) (f : option fid)                 (* handle.wait(): event future / checkpoint *)
| CDone.

Record task := mkTask {
  k_ctl : ctl;
  k_started : bool;
  k_done : option outcome;
  k_waiter : option fid;          (* Task._fut_waiter *)
  k_must : bool;                  (* Task._must_cancel *)
  k_msg : nat;                    (* origin carried by Task._cancel_message *)
  k_ncancel : nat;                (* Task._num_cancels_requested *)
  k_cur : option sid;             (* _task_states[task].cancel_scope *)
  k_held : option exn;            (* puppet register: the exception the program currently holds *)
  k_group : option gid;           (* group it was spawned into *)
  k_hscope : sid;                 (* TaskHandle._cancel_scope *)
  k_hevent : eid;                 (* TaskHandle._finished_event *)
  k_hexc : option exn;            (* TaskHandle._exception *)
  k_hret : option nat;            (* TaskHandle._return_value *)
  k_startfut : option fid;        (* task_status future of start() *)
  k_final : option outcome;       (* ghost: how the puppet's coroutine ended (AFinish) *)
  k_tdran : bool                  (* ghost: task_done callback ran *)
}.

Record scope := mkScope {
  s_deadline : option Z;          (* None = +inf *)
  s_shield : bool;
  s_parent : option sid;
  s_children : list sid;
  s_cancelled : bool;             (* _cancel_called *)
  s_caught : bool;
  s_active : bool;
  s_timeout : option tmid;        (* _timeout_handle *)
  s_chandle : bool;               (* _cancel_handle is not None *)
  s_tasks : list tid;
  s_host : option tid;
  s_pending : nat;                (* _pending_uncancellations *)
  s_bydeadline : bool             (* ghost: cancelled by its own deadline *)
}.

Record group := mkGroup {
  g_scope : sid;
  g_entered : bool;
  g_excs : list (nat * exn);      (* _exceptions, tagged (ghost) with the task that contributed it; 0 = body *)
  g_tasks : list tid;
  g_fut : option fid;             (* _on_completed_fut *)
  g_ever : list tid;              (* ghost: every task ever spawned into the group *)
  g_left : bool                   (* ghost: __aexit__ has returned / raised *)
}.

Record event := mkEvent { e_set : bool; e_waiters : list fid }.

Record st := mkSt {
  tasks : tid -> task;   ntask : nat;
  scopes : sid -> scope; nscope : nat;
  groups : gid -> group; ngroup : nat;
  futs : fid -> fut;     nfut : nat;
  events : eid -> event; nevent : nat;
  ready : list handle;
  timers : list timer;   ntimer : nat;
  now : Z;
  running : option tid            (* current_task() during the segment being executed *)
}.

Definition task0 : task :=
  mkTask CDone false None None false 0 0 None None None 0 0 None None None None false.
Definition scope0 : scope :=
  mkScope None false None [] false false false None false [] None 0 false.
Definition group0 : group := mkGroup 0 false [] [] None [] false.
Definition fut0 : fut := mkFut FPend None.
Definition event0 : event := mkEvent false [].

(* ids start at 1; 0 means "none" in the codec *)
Definition init : st :=
  mkSt (fun _ => task0) 1 (fun _ => scope0) 1 (fun _ => group0) 1 (fun _ => fut0) 1
       (fun _ => event0) 1 [] [] 1 0%Z None.

(* ---------------- record updates ---------------- *)
Definition set_tasks (s : st) v := mkSt v (ntask s) (scopes s) (nscope s) (groups s) (ngroup s) (futs s) (nfut s) (events s) (nevent s) (ready s) (timers s) (ntimer s) (now s) (running s).
Definition set_scopes (s : st) v := mkSt (tasks s) (ntask s) v (nscope s) (groups s) (ngroup s) (futs s) (nfut s) (events s) (nevent s) (ready s) (timers s) (ntimer s) (now s) (running s).
Definition set_groups (s : st) v := mkSt (tasks s) (ntask s) (scopes s) (nscope s) v (ngroup s) (futs s) (nfut s) (events s) (nevent s) (ready s) (timers s) (ntimer s) (now s) (running s).
Definition set_futs (s : st) v := mkSt (tasks s) (ntask s) (scopes s) (nscope s) (groups s) (ngroup s) v (nfut s) (events s) (nevent s) (ready s) (timers s) (ntimer s) (now s) (running s).
Definition set_events (s : st) v := mkSt (tasks s) (ntask s) (scopes s) (nscope s) (groups s) (ngroup s) (futs s) (nfut s) v (nevent s) (ready s) (timers s) (ntimer s) (now s) (running s).
Definition set_ready (s : st) v := mkSt (tasks s) (ntask s) (scopes s) (nscope s) (groups s) (ngroup s) (futs s) (nfut s) (events s) (nevent s) v (timers s) (ntimer s) (now s) (running s).
Definition set_timers (s : st) v := mkSt (tasks s) (ntask s) (scopes s) (nscope s) (groups s) (ngroup s) (futs s) (nfut s) (events s) (nevent s) (ready s) v (ntimer s) (now s) (running s).
Definition set_now (s : st) v := mkSt (tasks s) (ntask s) (scopes s) (nscope s) (groups s) (ngroup s) (futs s) (nfut s) (events s) (nevent s) (ready s) (timers s) (ntimer s) v (running s).
Definition set_running (s : st) v := mkSt (tasks s) (ntask s) (scopes s) (nscope s) (groups s) (ngroup s) (futs s) (nfut s) (events s) (nevent s) (ready s) (timers s) (ntimer s) (now s) v.

Definition upd_task (s : st) (t : tid) (g : task -> task) : st := set_tasks s (upd (tasks s) t (g (tasks s t))).
Definition upd_scope (s : st) (x : sid) (g : scope -> scope) : st := set_scopes s (upd (scopes s) x (g (scopes s x))).
Definition upd_group (s : st) (x : gid) (g : group -> group) : st := set_groups s (upd (groups s) x (g (groups s x))).
Definition upd_fut (s : st) (x : fid) (g : fut -> fut) : st := set_futs s (upd (futs s) x (g (futs s x))).
Definition upd_event (s : st) (x : eid) (g : event -> event) : st := set_events s (upd (events s) x (g (events s x))).

(* task field setters *)
Definition tk_ctl c (k : task) := mkTask c (k_started k) (k_done k) (k_waiter k) (k_must k) (k_msg k) (k_ncancel k) (k_cur k) (k_held k) (k_group k) (k_hscope k) (k_hevent k) (k_hexc k) (k_hret k) (k_startfut k) (k_final k) (k_tdran k).
Definition tk_started b (k : task) := mkTask (k_ctl k) b (k_done k) (k_waiter k) (k_must k) (k_msg k) (k_ncancel k) (k_cur k) (k_held k) (k_group k) (k_hscope k) (k_hevent k) (k_hexc k) (k_hret k) (k_startfut k) (k_final k) (k_tdran k).
Definition tk_done d (k : task) := mkTask (k_ctl k) (k_started k) d (k_waiter k) (k_must k) (k_msg k) (k_ncancel k) (k_cur k) (k_held k) (k_group k) (k_hscope k) (k_hevent k) (k_hexc k) (k_hret k) (k_startfut k) (k_final k) (k_tdran k).
Definition tk_waiter w (k : task) := mkTask (k_ctl k) (k_started k) (k_done k) w (k_must k) (k_msg k) (k_ncancel k) (k_cur k) (k_held k) (k_group k) (k_hscope k) (k_hevent k) (k_hexc k) (k_hret k) (k_startfut k) (k_final k) (k_tdran k).
Definition tk_must b m (k : task) := mkTask (k_ctl k) (k_started k) (k_done k) (k_waiter k) b m (k_ncancel k) (k_cur k) (k_held k) (k_group k) (k_hscope k) (k_hevent k) (k_hexc k) (k_hret k) (k_startfut k) (k_final k) (k_tdran k).
Definition tk_ncancel n (k : task) := mkTask (k_ctl k) (k_started k) (k_done k) (k_waiter k) (k_must k) (k_msg k) n (k_cur k) (k_held k) (k_group k) (k_hscope k) (k_hevent k) (k_hexc k) (k_hret k) (k_startfut k) (k_final k) (k_tdran k).
Definition tk_cur c (k : task) := mkTask (k_ctl k) (k_started k) (k_done k) (k_waiter k) (k_must k) (k_msg k) (k_ncancel k) c (k_held k) (k_group k) (k_hscope k) (k_hevent k) (k_hexc k) (k_hret k) (k_startfut k) (k_final k) (k_tdran k).
Definition tk_held h (k : task) := mkTask (k_ctl k) (k_started k) (k_done k) (k_waiter k) (k_must k) (k_msg k) (k_ncancel k) (k_cur k) h (k_group k) (k_hscope k) (k_hevent k) (k_hexc k) (k_hret k) (k_startfut k) (k_final k) (k_tdran k).
Definition tk_hres e r (k : task) := mkTask (k_ctl k) (k_started k) (k_done k) (k_waiter k) (k_must k) (k_msg k) (k_ncancel k) (k_cur k) (k_held k) (k_group k) (k_hscope k) (k_hevent k) e r (k_startfut k) (k_final k) (k_tdran k).
Definition tk_final o (k : task) := mkTask (k_ctl k) (k_started k) (k_done k) (k_waiter k) (k_must k) (k_msg k) (k_ncancel k) (k_cur k) (k_held k) (k_group k) (k_hscope k) (k_hevent k) (k_hexc k) (k_hret k) (k_startfut k) o (k_tdran k).
Definition tk_tdran b (k : task) := mkTask (k_ctl k) (k_started k) (k_done k) (k_waiter k) (k_must k) (k_msg k) (k_ncancel k) (k_cur k) (k_held k) (k_group k) (k_hscope k) (k_hevent k) (k_hexc k) (k_hret k) (k_startfut k) (k_final k) b.

(* scope field setters *)
Definition sc_deadline d (c : scope) := mkScope d (s_shield c) (s_parent c) (s_children c) (s_cancelled c) (s_caught c) (s_active c) (s_timeout c) (s_chandle c) (s_tasks c) (s_host c) (s_pending c) (s_bydeadline c).
Definition sc_shield b (c : scope) := mkScope (s_deadline c) b (s_parent c) (s_children c) (s_cancelled c) (s_caught c) (s_active c) (s_timeout c) (s_chandle c) (s_tasks c) (s_host c) (s_pending c) (s_bydeadline c).
Definition sc_parent p (c : scope) := mkScope (s_deadline c) (s_shield c) p (s_children c) (s_cancelled c) (s_caught c) (s_active c) (s_timeout c) (s_chandle c) (s_tasks c) (s_host c) (s_pending c) (s_bydeadline c).
Definition sc_children l (c : scope) := mkScope (s_deadline c) (s_shield c) (s_parent c) l (s_cancelled c) (s_caught c) (s_active c) (s_timeout c) (s_chandle c) (s_tasks c) (s_host c) (s_pending c) (s_bydeadline c).
Definition sc_cancelled b (c : scope) := mkScope (s_deadline c) (s_shield c) (s_parent c) (s_children c) b (s_caught c) (s_active c) (s_timeout c) (s_chandle c) (s_tasks c) (s_host c) (s_pending c) (s_bydeadline c).
Definition sc_caught b (c : scope) := mkScope (s_deadline c) (s_shield c) (s_parent c) (s_children c) (s_cancelled c) b (s_active c) (s_timeout c) (s_chandle c) (s_tasks c) (s_host c) (s_pending c) (s_bydeadline c).
Definition sc_active b (c : scope) := mkScope (s_deadline c) (s_shield c) (s_parent c) (s_children c) (s_cancelled c) (s_caught c) b (s_timeout c) (s_chandle c) (s_tasks c) (s_host c) (s_pending c) (s_bydeadline c).
Definition sc_timeout t (c : scope) := mkScope (s_deadline c) (s_shield c) (s_parent c) (s_children c) (s_cancelled c) (s_caught c) (s_active c) t (s_chandle c) (s_tasks c) (s_host c) (s_pending c) (s_bydeadline c).
Definition sc_chandle b (c : scope) := mkScope (s_deadline c) (s_shield c) (s_parent c) (s_children c) (s_cancelled c) (s_caught c) (s_active c) (s_timeout c) b (s_tasks c) (s_host c) (s_pending c) (s_bydeadline c).
Definition sc_tasks l (c : scope) := mkScope (s_deadline c) (s_shield c) (s_parent c) (s_children c) (s_cancelled c) (s_caught c) (s_active c) (s_timeout c) (s_chandle c) l (s_host c) (s_pending c) (s_bydeadline c).
Definition sc_host h (c : scope) := mkScope (s_deadline c) (s_shield c) (s_parent c) (s_children c) (s_cancelled c) (s_caught c) (s_active c) (s_timeout c) (s_chandle c) (s_tasks c) h (s_pending c) (s_bydeadline c).
Definition sc_pending n (c : scope) := mkScope (s_deadline c) (s_shield c) (s_parent c) (s_children c) (s_cancelled c) (s_caught c) (s_active c) (s_timeout c) (s_chandle c) (s_tasks c) (s_host c) n (s_bydeadline c).
Definition sc_bydeadline b (c : scope) := mkScope (s_deadline c) (s_shield c) (s_parent c) (s_children c) (s_cancelled c) (s_caught c) (s_active c) (s_timeout c) (s_chandle c) (s_tasks c) (s_host c) (s_pending c) b.

(* group field setters *)
Definition gr_entered b (g : group) := mkGroup (g_scope g) b (g_excs g) (g_tasks g) (g_fut g) (g_ever g) (g_left g).
Definition gr_excs l (g : group) := mkGroup (g_scope g) (g_entered g) l (g_tasks g) (g_fut g) (g_ever g) (g_left g).
Definition gr_tasks l (g : group) := mkGroup (g_scope g) (g_entered g) (g_excs g) l (g_fut g) (g_ever g) (g_left g).
Definition gr_fut f (g : group) := mkGroup (g_scope g) (g_entered g) (g_excs g) (g_tasks g) f (g_ever g) (g_left g).
Definition gr_ever l (g : group) := mkGroup (g_scope g) (g_entered g) (g_excs g) (g_tasks g) (g_fut g) l (g_left g).
Definition gr_left b (g : group) := mkGroup (g_scope g) (g_entered g) (g_excs g) (g_tasks g) (g_fut g) (g_ever g) b.

(* ---------------- list-as-set helpers ---------------- *)
Definition mem (x : nat) (l : list nat) : bool := existsb (Nat.eqb x) l.
Definition add (x : nat) (l : list nat) : list nat := if mem x l then l else l ++ [x].
Definition del (x : nat) (l : list nat) : list nat := filter (fun y => negb (Nat.eqb y x)) l.

Definition handle_eqb (a b : handle) : bool :=
  match a, b with
  | HStep t, HStep t' => Nat.eqb t t'
  | HWake t f, HWake t' f' => Nat.eqb t t' && Nat.eqb f f'
  | HDeliver s, HDeliver s' => Nat.eqb s s'
  | HTaskDone t, HTaskDone t' => Nat.eqb t t'
  | HSleepDone f tm, HSleepDone f' tm' => Nat.eqb f f' && Nat.eqb tm tm'
  | HTimeout s tm, HTimeout s' tm' => Nat.eqb s s' && Nat.eqb tm tm'
  | _, _ => false
  end.

Fixpoint remove_first (h : handle) (l : list handle) : list handle :=
  match l with
  | [] => []
  | x :: r => if handle_eqb x h then r else x :: remove_first h r
  end.

Definition call_soon (s : st) (h : handle) : st := set_ready s (ready s ++ [h]).

(* ---------------- kernel: futures ---------------- *)
(* completing a pending future schedules the wake-up of the task awaiting it *)
Definition fut_complete (s : st) (f : fid) (v : fstate) : st :=
  match f_st (futs s f) with
  | FPend =>
      let s1 := upd_fut s f (fun x => mkFut v (f_waiter x)) in
      match f_waiter (futs s f) with
      | Some t => call_soon s1 (HWake t f)
      | None => s1
      end
  | _ => s
  end.

Definition fut_pending (s : st) (f : fid) : bool :=
  match f_st (futs s f) with FPend => true | _ => false end.

Definition new_fut (s : st) : st * fid :=
  let f := nfut s in
  (mkSt (tasks s) (ntask s) (scopes s) (nscope s) (groups s) (ngroup s) (upd (futs s) f fut0) (S f)
        (events s) (nevent s) (ready s) (timers s) (ntimer s) (now s) (running s), f).

(* Task.cancel(msg) with msg carrying origin o *)
Definition task_cancel (s : st) (t : tid) (o : nat) : st :=
  let k := tasks s t in
  match k_done k with
  | Some _ => s
  | None =>
      let s1 := upd_task s t (tk_ncancel (S (k_ncancel k))) in
      match k_waiter k with
      | Some f =>
          if fut_pending s1 f then fut_complete s1 f (FCanc o)
          else upd_task s1 t (tk_must true o)
      | None => upd_task s1 t (tk_must true o)
      end
  end.

Definition task_uncancel (s : st) (t : tid) : st :=
  upd_task s t (fun k => tk_ncancel (pred (k_ncancel k)) k).

(* the task yields future f: add wake-up callback, set _fut_waiter, honour _must_cancel *)
Definition suspend_on (s : st) (t : tid) (f : fid) : st :=
  match f_st (futs s f) with
  | FPend =>
      let s1 := upd_fut s f (fun x => mkFut (f_st x) (Some t)) in
      let s2 := upd_task s1 t (tk_waiter (Some f)) in
      if k_must (tasks s t) then
        upd_task (fut_complete s2 f (FCanc (k_msg (tasks s t)))) t (tk_must false (k_msg (tasks s t)))
      else s2
  | _ =>
      (* add_done_callback on a done future schedules the callback at once *)
      call_soon (upd_task (upd_fut s f (fun x => mkFut (f_st x) (Some t))) t (tk_waiter (Some f))) (HWake t f)
  end.

Definition bare_yield (s : st) (t : tid) : st := call_soon s (HStep t).

(* timers *)
Definition call_at (s : st) (w : Z) (what : twhat) : st * tmid :=
  let tm := ntimer s in
  (mkSt (tasks s) (ntask s) (scopes s) (nscope s) (groups s) (ngroup s) (futs s) (nfut s)
        (events s) (nevent s) (ready s) (timers s ++ [mkTimer tm w what]) (S tm) (now s) (running s), tm).

Definition is_timer_handle (tm : tmid) (h : handle) : bool :=
  match h with
  | HSleepDone _ x => Nat.eqb x tm
  | HTimeout _ x => Nat.eqb x tm
  | _ => false
  end.

(* TimerHandle.cancel(): drop it from the timer heap and, if it already fired, from the ready queue *)
Definition timer_cancel (s : st) (tm : tmid) : st :=
  set_ready (set_timers s (filter (fun x => negb (Nat.eqb (tm_id x) tm)) (timers s)))
            (filter (fun h => negb (is_timer_handle tm h)) (ready s)).

(* asyncio.Event.set() *)
Definition event_set (s : st) (e : eid) : st :=
  if e_set (events s e) then s else
  let s1 := upd_event s e (fun x => mkEvent true (e_waiters x)) in
  fold_left (fun a f => fut_complete a f (FRes 1)) (e_waiters (events s e)) s1.

(* ---------------- scope-chain predicates (specs; tie T regenerates and compares them) ---------------- *)
Fixpoint eff_cancelled_from (fuel : nat) (s : st) (x : option sid) : bool :=
  match fuel, x with
  | S fu, Some c =>
      if s_cancelled (scopes s c) then true
      else if s_shield (scopes s c) then false
      else eff_cancelled_from fu s (s_parent (scopes s c))
  | _, _ => false
  end.

Definition eff_cancelled (s : st) (c : sid) : bool := eff_cancelled_from (nscope s) s (Some c).

Definition parent_visible (s : st) (c : sid) : bool :=
  match s_parent (scopes s c) with
  | Some p => negb (s_shield (scopes s c)) && eff_cancelled s p
  | None => false
  end.

(* checkpoint_if_cancelled's walk: does it find a cancelled scope before a shield / the top? *)
Fixpoint ckif_spins (fuel : nat) (s : st) (x : option sid) : bool :=
  match fuel, x with
  | S fu, Some c =>
      if s_cancelled (scopes s c) then true
      else if s_shield (scopes s c) then false
      else ckif_spins fu s (s_parent (scopes s c))
  | _, _ => false
  end.

(* current_effective_deadline: None = +inf; Some (inl tt) = -inf; Some (inr z) *)
Inductive xtime := XInf | XNegInf | XFin (z : Z).
Definition xmin (a : xtime) (d : option Z) : xtime :=
  match a, d with
  | XNegInf, _ => XNegInf
  | XInf, None => XInf
  | XInf, Some z => XFin z
  | XFin a, None => XFin a
  | XFin a, Some z => XFin (Z.min a z)
  end.
Fixpoint eff_deadline_from (fuel : nat) (s : st) (x : option sid) (acc : xtime) : xtime :=
  match fuel, x with
  | S fu, Some c =>
      let acc1 := xmin acc (s_deadline (scopes s c)) in
      if s_cancelled (scopes s c) then XNegInf
      else if s_shield (scopes s c) then acc1
      else eff_deadline_from fu s (s_parent (scopes s c)) acc1
  | _, _ => acc
  end.

(* ---------------- CancelScope internals ---------------- *)
Definition opt_eqb (o : option nat) (t : nat) : bool :=
  match o with Some x => Nat.eqb x t | None => false end.

(* one task of the loop in _deliver_cancellation (lines 594-612) *)
Definition deliver_task (self origin : sid) (acc : st * bool) (t : tid) : st * bool :=
  let '(a, r) := acc in
  let k := tasks a t in
  match k_done k with
  | Some _ => (a, r)
  | None =>
      if k_must k then (a, true) else
      if negb (opt_eqb (running a) t) && (opt_eqb (s_host (scopes a self)) t || k_started k) then
        let waiter_ok := match k_waiter k with Some f => fut_pending a f | None => true end in
        if waiter_ok then
          let a1 := task_cancel a t (S origin) in
          let a2 := if opt_eqb (s_host (scopes a1 origin)) t
                    then upd_scope a1 origin (fun c => sc_pending (S (s_pending c)) c) else a1 in
          (a2, true)
        else (a, true)
      else (a, true)
  end.

Fixpoint deliver (fuel : nat) (s : st) (self origin : sid) : st * bool :=
  match fuel with
  | 0 => (s, false)
  | S fu =>
      let '(s1, r1) := fold_left (deliver_task self origin) (s_tasks (scopes s self)) (s, false) in
      let '(s2, r2) :=
        fold_left (fun (acc : st * bool) (c : sid) =>
                     let '(a, r) := acc in
                     if negb (s_shield (scopes a c)) && negb (s_cancelled (scopes a c)) then
                       let '(a', r') := deliver fu a c origin in (a', r' || r)
                     else (a, r))
                  (s_children (scopes s1 self)) (s1, r1) in
      if Nat.eqb origin self then
        if r2 then (call_soon (upd_scope s2 self (sc_chandle true)) (HDeliver self), r2)
        else (upd_scope s2 self (sc_chandle false), r2)
      else (s2, r2)
  end.

Definition deliver_top (s : st) (c : sid) : st := fst (deliver (S (nscope s)) s c c).

(* CancelScope._restart_cancellation(scope) *)
Fixpoint restart_from (fuel : nat) (s : st) (x : option sid) : st :=
  match fuel, x with
  | S fu, Some c =>
      if s_cancelled (scopes s c) then
        (if s_chandle (scopes s c) then s else deliver_top s c)
      else if s_shield (scopes s c) then s
      else restart_from fu s (s_parent (scopes s c))
  | _, _ => s
  end.
Definition restart (s : st) (x : option sid) : st := restart_from (nscope s) s x.

Definition cancel_timeout (s : st) (c : sid) : st :=
  match s_timeout (scopes s c) with
  | Some tm => upd_scope (timer_cancel s tm) c (sc_timeout None)
  | None => s
  end.

(* CancelScope.cancel() *)
Definition scope_cancel (s : st) (c : sid) (bydl : bool) : st :=
  if s_cancelled (scopes s c) then s else
  let s1 := cancel_timeout s c in
  let s2 := upd_scope s1 c (fun x => sc_bydeadline bydl (sc_cancelled true x)) in
  match s_host (scopes s2 c) with
  | Some _ => deliver_top s2 c
  | None => s2
  end.

(* CancelScope._timeout() *)
Definition scope_timeout (s : st) (c : sid) : st :=
  match s_deadline (scopes s c) with
  | None => s
  | Some d =>
      if Z.leb d (now s) then scope_cancel s c true
      else let '(s1, tm) := call_at s d (TScope c) in upd_scope s1 c (sc_timeout (Some tm))
  end.

Definition new_scope (s : st) (d : option Z) (sh : bool) : st * sid :=
  let c := nscope s in
  (mkSt (tasks s) (ntask s) (upd (scopes s) c (sc_shield sh (sc_deadline d scope0))) (S c)
        (groups s) (ngroup s) (futs s) (nfut s) (events s) (nevent s) (ready s) (timers s) (ntimer s)
        (now s) (running s), c).

(* CancelScope.__enter__ by task t; None = ok, Some e = raised *)
Definition scope_enter (s : st) (c : sid) (t : tid) : st * option exn :=
  if s_active (scopes s c) then (s, Some ERuntime) else
  let par := k_cur (tasks s t) in
  let s1 := upd_scope s c (fun x => sc_parent par (sc_tasks (add t (s_tasks x)) (sc_host (Some t) x))) in
  let s2 := upd_task s1 t (tk_cur (Some c)) in
  let s3 := match par with
            | Some p => upd_scope s2 p (fun x => sc_tasks (del t (s_tasks x)) (sc_children (add c (s_children x)) x))
            | None => s2
            end in
  let s4 := scope_timeout s3 c in
  let s5 := upd_scope s4 c (sc_active true) in
  let s6 := if s_cancelled (scopes s5 c) then deliver_top s5 c else s5 in
  (s6, None).

Fixpoint iter {A} (n : nat) (f : A -> A) (a : A) : A :=
  match n with 0 => a | S m => iter m f (f a) end.

Inductive exit_res := XTrue | XFalse | XRaise (e : exn).

(* CancelScope.__exit__(exc) by task t *)
Definition scope_exit (s : st) (c : sid) (t : tid) (exc : option exn) : st * exit_res :=
  let sc := scopes s c in
  if negb (s_active sc) then (s, XRaise ERuntime) else
  if negb (opt_eqb (s_host sc) t) then (s, XRaise ERuntime) else
  if negb (opt_eqb (k_cur (tasks s t)) c) then (s, XRaise ERuntime) else
  let s1 := cancel_timeout (upd_scope s c (sc_active false)) c in
  let s2 := upd_scope s1 c (fun x => sc_tasks (del t (s_tasks x)) x) in
  let par := s_parent sc in
  let s3 := match par with
            | Some p => upd_scope s2 p (fun x => sc_tasks (add t (s_tasks x)) (sc_children (del c (s_children x)) x))
            | None => s2
            end in
  let s4 := upd_task s3 t (tk_cur par) in
  let s5 := restart s4 par in
  let fin (a : st) := upd_scope a c (sc_host None) in
  if s_cancelled (scopes s5 c) && negb (parent_visible s5 c) then
    let n := s_pending (scopes s5 c) in
    let s6 := upd_scope (iter n (fun a => task_uncancel a t) s5) c (sc_pending 0) in
    match exc with
    | Some (EGroup l) =>
        match split_exn (EGroup l) with
        | (None, _) => (fin s6, XFalse)
        | (Some _, None) => (fin (upd_scope s6 c (sc_caught true)), XTrue)
        | (Some _, Some r) => (fin (upd_scope s6 c (sc_caught true)), XRaise r)
        end
    | Some e =>
        if is_anyio_cancel e then (fin (upd_scope s6 c (sc_caught true)), XTrue) else (fin s6, XFalse)
    | None => (fin s6, XFalse)
    end
  else
    let n := s_pending (scopes s5 c) in
    let s6 :=
      if Nat.eqb n 0 then s5 else
      match par with
      | Some p =>
          if opt_eqb (s_host (scopes s5 p)) t
          then upd_scope (upd_scope s5 p (fun x => sc_pending (s_pending x + n) x)) c (sc_pending 0)
          else upd_scope (iter n (fun a => task_uncancel a t) s5) c (sc_pending 0)
      | None => upd_scope (iter n (fun a => task_uncancel a t) s5) c (sc_pending 0)
      end in
    (fin s6, XFalse).

(* ---------------- operations ---------------- *)
Inductive op :=
(* puppet ops: task t is at a decision point and performs one API action *)
| ANewScope (t : tid) (d : option Z) (sh : bool)
| AEnter (t : tid) (c : sid)
| AExit (t : tid) (c : sid) (failat : bool)       (* passes the held exception, if any *)
| ACancel (t : tid) (c : sid)
| ASetShield (t : tid) (c : sid) (b : bool)
| ASetDeadline (t : tid) (c : sid) (d : option Z)
| AGroupNew (t : tid)
| AGroupEnter (t : tid) (g : gid)
| AGroupExit (t : tid) (g : gid)                  (* __aexit__ with the held exception, if any *)
| ASpawn (t : tid) (g : gid)
| AStart (t : tid) (g : gid)
| AStarted (t : tid) (v : nat)
| AHandleCancel (t : tid) (h : tid)
| AHandleWait (t : tid) (h : tid)
| AYield (t : tid)
| ACkIf (t : tid)
| AShieldCk (t : tid)
| ASleep (t : tid) (d : option Z)                 (* None = sleep_forever *)
| AHold (t : tid) (n : nat)                       (* the program raises ValueError n and now holds it *)
| ADrop (t : tid)                                 (* the program swallows what it holds *)
| AWrap (t : tid) (n : nat)                       (* holds BaseExceptionGroup [held; ValueError n] *)
| AFinish (t : tid) (v : nat)                     (* coroutine ends: raises held, else returns v *)
| AUncancel (t : tid)
| AEffDeadline (t : tid)
| AFailAt (t : tid) (d : option Z) (sh : bool)    (* fail_at(): create and enter the scope in one go *)
(* environment / scheduler ops *)
| ANewRoot                                        (* a new top-level task appears and runs to its decision point *)
| ANativeCancel (t : tid)                         (* Task.cancel() from outside *)
| AExtCancel (c : sid)                            (* scope.cancel() from a plain callback *)
| ARun (h : handle)
| ATick (dt : Z).

Inductive res :=
| RRet (v : nat)
| RExc (e : exn)
| RBlocked
| RNone
| RTime (x : xtime)
| RRejected.

(* park the puppet at its decision point: it awaits a fresh command future *)
Definition park (s : st) (t : tid) : st :=
  let '(s1, f) := new_fut s in
  upd_task (suspend_on s1 t f) t (tk_ctl CIdle).

Definition set_ctl (s : st) (t : tid) (c : ctl) : st := upd_task s t (tk_ctl c).

(* finish a puppet op: result r goes to the program (exceptions become its held exception), then park *)
Definition ret_to_puppet (s : st) (t : tid) (r : res) : st * res :=
  let s1 := match r with
            | RExc e => upd_task s t (tk_held (Some e))
            | _ => s
            end in
  (set_running (park s1 t) None, r).

Definition blocked (s : st) : st * res := (set_running s None, RBlocked).

(* new task record for a spawned child *)
Definition spawn_task (s : st) (g : gid) (startf : option fid) : st * tid :=
  let t := ntask s in
  let '(s1, hs) := new_scope s None false in
  let e := nevent s1 in
  let k := mkTask CNew false None None false 0 0 (Some (g_scope (groups s1 g))) None (Some g) hs e None None
                  startf None false in
  let s2 := mkSt (upd (tasks s1) t k) (S t) (scopes s1) (nscope s1) (groups s1) (ngroup s1) (futs s1)
                 (nfut s1) (upd (events s1) e event0) (S e) (ready s1) (timers s1) (ntimer s1) (now s1)
                 (running s1) in
  let gs := g_scope (groups s2 g) in
  let s3 := upd_scope s2 gs (fun x => sc_tasks (add t (s_tasks x)) x) in
  let s4 := upd_group s3 g (fun x => gr_ever (g_ever x ++ [t]) (gr_tasks (add t (g_tasks x)) x)) in
  let s5 := restart s4 (Some gs) in
  (call_soon s5 (HStep t), t).

Definition group_active (s : st) (g : gid) : bool :=
  g_entered (groups s g) && s_active (scopes s (g_scope (groups s g))).

(* `except BaseException as exc: if self.cancel_scope.__exit__(...): return True; raise` (lines 820-824) *)
Definition aexit_raise (s : st) (t : tid) (g : gid) (e : exn) : st * res :=
  let gs := g_scope (groups s g) in
  let '(s1, x) := scope_exit s gs t (Some e) in
  let s2 := upd_group s1 g (gr_left true) in
  match x with
  | XTrue => (upd_task s2 t (tk_held None), RRet 1)
  | XFalse => (s2, RExc e)
  | XRaise e' => (s2, RExc e')
  end.

(* the tail of TaskGroup.__aexit__ after all waiting is over (lines 810-826) *)
Definition aexit_finish (s : st) (t : tid) (g : gid) (exc : option exn) : st * res :=
  let gs := g_scope (groups s g) in
  let excs := map snd (g_excs (groups s g)) in
  match excs, exc with
  | _ :: _, _ => aexit_raise s t g (EGroup excs)
  | [], Some e => aexit_raise s t g e
  | [], None =>
      let '(s1, x) := scope_exit s gs t None in
      let s2 := upd_group s1 g (gr_left true) in
      match x with
      | XTrue => (s2, RRet 1)
      | XFalse => (s2, RRet 0)
      | XRaise e' => (s2, RExc e')
      end
  end.

(* enter the wait loop of __aexit__ (or finish at once when no child is left) *)
Definition aexit_wait_or_finish (s : st) (t : tid) (g : gid) (ws : option sid) (exc : option exn)
  : st * res :=
  match g_tasks (groups s g) with
  | _ :: _ =>
      (* (re-)enter the loop body: new on_completed future, await it *)
      let '(s0, w) := match ws with
                      | Some w => (s, w)
                      | None => let '(a, w) := new_scope s None false in
                                (fst (scope_enter a w t), w)
                      end in
      let '(s1, f) := new_fut s0 in
      let s2 := upd_group s1 g (gr_fut (Some f)) in
      blocked (set_ctl (suspend_on s2 t f) t (CAexitWait g w exc))
  | [] =>
      match ws with
      | Some w =>
          let '(s1, x) := scope_exit s w t None in
          match x with
          | XRaise e =>
              (* leaving wait_scope failed: handled by the `except BaseException` clause *)
              let '(s2, r) := aexit_raise s1 t g e in ret_to_puppet s2 t r
          | _ => let '(s2, r) := aexit_finish s1 t g exc in ret_to_puppet s2 t r
          end
      | None => let '(s2, r) := aexit_finish s t g exc in ret_to_puppet s2 t r
      end
  end.

Definition idle (s : st) (t : tid) : bool :=
  match k_ctl (tasks s t), k_waiter (tasks s t) with
  | CIdle, Some f => fut_pending s f && Nat.ltb t (ntask s) && Nat.ltb 0 t
  | _, _ => false
  end.

(* the program starts acting: its command future resolves, the task is running *)
Definition begin_act (s : st) (t : tid) : st :=
  set_running (upd_task s t (tk_waiter None)) (Some t).

Definition handle_pending (s : st) (h : tid) : bool :=
  negb (e_set (events s (k_hevent (tasks s h)))) && negb (s_cancelled (scopes s (k_hscope (tasks s h)))).

(* Event.wait() of anyio on the handle's finished event *)
Definition event_wait (s : st) (t : tid) (e : eid) : st * option fid :=
  if e_set (events s e) then (bare_yield s t, None)
  else
    let '(s1, f) := new_fut s in
    let s2 := upd_event s1 e (fun x => mkEvent (e_set x) (e_waiters x ++ [f])) in
    (suspend_on s2 t f, Some f).

Definition puppet_op (s0 : st) (t : tid) (o : op) : st * res :=
  let s := begin_act s0 t in
  match o with
  | ANewScope _ d sh => let '(s1, c) := new_scope s d sh in ret_to_puppet s1 t (RRet c)
  | AEnter _ c =>
      let '(s1, e) := scope_enter s c t in
      ret_to_puppet s1 t (match e with Some x => RExc x | None => RRet 0 end)
  | AFailAt _ d sh =>
      let '(s1, c) := new_scope s d sh in
      let '(s2, e) := scope_enter s1 c t in
      ret_to_puppet s2 t (match e with Some x => RExc x | None => RRet c end)
  | AExit _ c failat =>
      let exc := k_held (tasks s t) in
      let '(s1, x) := scope_exit s c t exc in
      match x with
      | XTrue =>
          let s2 := upd_task s1 t (tk_held None) in
          if failat && s_caught (scopes s2 c) &&
             match s_deadline (scopes s2 c) with Some d => Z.leb d (now s2) | None => false end
          then ret_to_puppet s2 t (RExc ETimeout) else ret_to_puppet s2 t (RRet 1)
      | XFalse => ret_to_puppet s1 t (RRet 0)
      | XRaise e => ret_to_puppet s1 t (RExc e)
      end
  | ACancel _ c => ret_to_puppet (scope_cancel s c false) t (RRet 0)
  | ASetShield _ c b =>
      if Bool.eqb (s_shield (scopes s c)) b then ret_to_puppet s t (RRet 0) else
      let s1 := upd_scope s c (sc_shield b) in
      ret_to_puppet (if b then s1 else restart s1 (s_parent (scopes s1 c))) t (RRet 0)
  | ASetDeadline _ c d =>
      let s1 := cancel_timeout (upd_scope s c (sc_deadline d)) c in
      let s2 := if s_active (scopes s1 c) && negb (s_cancelled (scopes s1 c)) then scope_timeout s1 c else s1 in
      ret_to_puppet s2 t (RRet 0)
  | AGroupNew _ =>
      let '(s1, c) := new_scope s None false in
      let g := ngroup s1 in
      let s2 := mkSt (tasks s1) (ntask s1) (scopes s1) (nscope s1)
                     (upd (groups s1) g (mkGroup c false [] [] None [] false)) (S g)
                     (futs s1) (nfut s1) (events s1) (nevent s1) (ready s1) (timers s1) (ntimer s1)
                     (now s1) (running s1) in
      ret_to_puppet s2 t (RRet g)
  | AGroupEnter _ g =>
      if g_entered (groups s g) then ret_to_puppet s t (RExc ERuntime) else
      let s1 := upd_group s g (gr_entered true) in
      let '(s2, e) := scope_enter s1 (g_scope (groups s1 g)) t in
      ret_to_puppet s2 t (match e with Some x => RExc x | None => RRet 0 end)
  | AGroupExit _ g =>
      let exc := k_held (tasks s t) in
      let gs := g_scope (groups s g) in
      let s1 := match exc with
                | Some e =>
                    let a := scope_cancel s gs false in
                    if is_cancel e then a else upd_group a g (fun x => gr_excs (g_excs x ++ [(0, e)]) x)
                | None => s
                end in
      match g_tasks (groups s1 g) with
      | [] =>
          (* no children: one shielded checkpoint, then look again *)
          let '(s2, c) := new_scope s1 None true in
          let s3 := fst (scope_enter s2 c t) in
          blocked (set_ctl (bare_yield s3 t) t (CAexitCk g c exc))
      | _ => aexit_wait_or_finish s1 t g None exc
      end
  | ASpawn _ g =>
      if negb (group_active s g) then ret_to_puppet s t (RExc ERuntime) else
      let '(s1, c) := spawn_task s g None in ret_to_puppet s1 t (RRet c)
  | AStart _ g =>
      if negb (group_active s g) then ret_to_puppet s t (RExc ERuntime) else
      let '(s1, f) := new_fut s in
      let '(s2, c) := spawn_task s1 g (Some f) in
      blocked (set_ctl (suspend_on s2 t f) t (CStartWait g c f))
  | AStarted _ v =>
      match k_startfut (tasks s t) with
      | None => ret_to_puppet s t (RRet 0)
      | Some f =>
          match f_st (futs s f) with
          | FPend => ret_to_puppet (fut_complete s f (FRes v)) t (RRet 0)
          | FCanc _ => ret_to_puppet s t (RRet 0)
          | _ => ret_to_puppet s t (RExc ERuntime)
          end
      end
  | AHandleCancel _ h =>
      if e_set (events s (k_hevent (tasks s h))) then ret_to_puppet s t (RRet 0)
      else ret_to_puppet (scope_cancel s (k_hscope (tasks s h)) false) t (RRet 0)
  | AHandleWait _ h =>
      let '(s1, f) := event_wait s t (k_hevent (tasks s h)) in
      blocked (set_ctl s1 t (CHandleWait h f))
  | AYield _ => blocked (set_ctl (bare_yield s t) t (CYield YCheckpoint))
  | ACkIf _ =>
      if ckif_spins (nscope s) s (k_cur (tasks s t))
      then blocked (set_ctl (bare_yield s t) t (CYield YCkIf))
      else ret_to_puppet s t (RRet 0)
  | AShieldCk _ =>
      let '(s1, c) := new_scope s None true in
      let s2 := fst (scope_enter s1 c t) in
      blocked (set_ctl (bare_yield s2 t) t (CYield (YShield c)))
  | ASleep _ d =>
      let '(s1, f) := new_fut s in
      match d with
      | Some dt =>
          let '(s2, tm) := call_at s1 (now s1 + dt)%Z (TSleep f) in
          blocked (set_ctl (suspend_on s2 t f) t (CSleep f tm))
      | None => blocked (set_ctl (suspend_on s1 t f) t (CSleep f 0))
      end
  | AHold _ n => ret_to_puppet (upd_task s t (tk_held (Some (EErr n)))) t (RRet 0)
  | ADrop _ => ret_to_puppet (upd_task s t (tk_held None)) t (RRet 0)
  | AWrap _ n =>
      let l := match k_held (tasks s t) with Some e => [e; EErr n] | None => [EErr n] end in
      ret_to_puppet (upd_task s t (tk_held (Some (EGroup l)))) t (RRet 0)
  | AUncancel _ => ret_to_puppet (task_uncancel s t) t (RRet (pred (k_ncancel (tasks s t))))
  | AEffDeadline _ =>
      (set_running (park s t) None, RTime (eff_deadline_from (nscope s) s (k_cur (tasks s t)) XInf))
  | _ => (s0, RRejected)
  end.

(* ---------------- task completion ---------------- *)
(* the coroutine of task t has ended with `o` (after TaskHandle._run_coro for group children) *)
Definition finish_task (s : st) (t : tid) (o : outcome) : st :=
  let k := tasks s t in
  let d := match o with
           | ORet v => if k_must k then OCanc (ECancel (k_msg k)) else ORet v
           | OExc e => if is_cancel e then OCanc e else OExc e
           | OCanc e => OCanc e
           end in
  let s1 := upd_task s t (fun x => tk_must false (k_msg x) (tk_waiter None (tk_ctl CDone (tk_done (Some d) x)))) in
  let s2 := match k_group k with
            | Some _ => call_soon s1 (HTaskDone t)
            | None => s1
            end in
  set_running s2 None.

(* the puppet's coroutine ends: raise what it holds, else return v *)
Definition puppet_finish (s0 : st) (t : tid) (v : nat) : st * res :=
  let s := begin_act s0 t in
  let k := tasks s t in
  let raw := match k_held k with Some e => OExc e | None => ORet v end in
  let s1 := upd_task s t (tk_final (Some raw)) in
  match k_group k with
  | None => (finish_task s1 t raw, RNone)
  | Some _ =>
      (* TaskHandle._run_coro: record outcome, set the finished event, leave the handle's scope *)
      let s2 := upd_task s1 t (match raw with
                               | ORet r => tk_hres None (Some r)
                               | OExc e => tk_hres (Some e) None
                               | OCanc e => tk_hres (Some e) None
                               end) in
      let s3 := event_set s2 (k_hevent k) in
      let '(s4, x) := scope_exit s3 (k_hscope k) t (k_held k) in
      match x with
      | XTrue => (finish_task s4 t (ORet 0), RNone)
      | XFalse => (finish_task s4 t (match k_held k with Some e => OExc e | None => ORet 0 end), RNone)
      | XRaise e => (finish_task s4 t (OExc e), RNone)
      end
  end.

(* ---------------- resumption of a suspended task ---------------- *)
(* Task.__wakeup / __step: what the coroutine receives *)
Definition incoming (s : st) (t : tid) (fo : option fid) : st * option exn :=
  let k := tasks s t in
  let base := match fo with
              | Some f => match f_st (futs s f) with
                          | FExc e => Some e
                          | FCanc o => Some (ECancel o)
                          | _ => None
                          end
              | None => None
              end in
  let inc := if k_must k then
               match base with
               | Some (ECancel o) => Some (ECancel o)
               | _ => Some (ECancel (k_msg k))
               end
             else base in
  (set_running (upd_task s t (fun x => tk_must false (k_msg x) (tk_waiter None x))) (Some t), inc).

Definition res_of_inc (inc : option exn) : res :=
  match inc with Some e => RExc e | None => RRet 0 end.

Definition event_unwait (s : st) (e : eid) (fo : option fid) : st :=
  match fo with
  | Some f => upd_event s e (fun x => mkEvent (e_set x) (del f (e_waiters x)))
  | None => s
  end.

Definition fut_value (s : st) (f : fid) : nat :=
  match f_st (futs s f) with FRes v => v | _ => 0 end.

Definition resume (s0 : st) (t : tid) (fo : option fid) : st * res :=
  let '(s, inc) := incoming s0 t fo in
  match k_ctl (tasks s t) with
  | CNew =>
      let s1 := upd_task s t (tk_started true) in
      match inc with
      | Some e => (finish_task s1 t (OExc e), RNone)      (* thrown into an unstarted coroutine *)
      | None =>
          let s2 := match k_group (tasks s1 t) with
                    | Some _ => fst (scope_enter s1 (k_hscope (tasks s1 t)) t)
                    | None => s1
                    end in
          (set_running (park s2 t) None, RNone)
      end
  | CIdle =>
      let s1 := match inc with Some e => upd_task s t (tk_held (Some e)) | None => s end in
      (set_running (park s1 t) None, res_of_inc inc)
  | CYield YCheckpoint => ret_to_puppet s t (res_of_inc inc)
  | CYield YCkIf =>
      (* after `await sleep(0)`: re-read the task's own scope and walk again (F46); return once nothing cancelled is
         visible any more *)
      match inc with
      | Some e => ret_to_puppet s t (RExc e)
      | None =>
          if ckif_spins (nscope s) s (k_cur (tasks s t))
          then blocked (bare_yield s t)
          else ret_to_puppet s t (RRet 0)
      end
  | CYield (YShield c) =>
      let '(s1, x) := scope_exit s c t inc in
      match x with
      | XRaise e => ret_to_puppet s1 t (RExc e)
      | XTrue => ret_to_puppet s1 t (RRet 0)
      | XFalse => ret_to_puppet s1 t (res_of_inc inc)
      end
  | CSleep f tm => ret_to_puppet (timer_cancel s tm) t (res_of_inc inc)
  | CAexitWait g ws exc =>
      let s1 := upd_group s g (gr_fut None) in
      match inc with
      | None => aexit_wait_or_finish s1 t g (Some ws) exc
      | Some e =>
          let s2 := upd_scope s1 ws (sc_shield true) in
          let s3 := scope_cancel s2 (g_scope (groups s2 g)) false in
          let exc' := match exc with
                      | None => Some e
                      | Some old => if is_cancel old && negb (is_anyio_cancel e) then Some e else Some old
                      end in
          aexit_wait_or_finish s3 t g (Some ws) exc'
      end
  | CAexitCk g c exc =>
      let '(s1, x) := scope_exit s c t inc in
      match x, inc with
      | XRaise e, _ => let '(s2, r) := aexit_raise s1 t g e in ret_to_puppet s2 t r
      | XTrue, _ => aexit_wait_or_finish s1 t g None exc
      | XFalse, Some e =>
          if is_cancel e then
            (* `except CancelledError` around the checkpoint: treated like a cancellation in the wait loop *)
            let s2 := scope_cancel s1 (g_scope (groups s1 g)) false in
            let exc' := match exc with
                        | None => Some e
                        | Some old => if is_cancel old && negb (is_anyio_cancel e) then Some e else Some old
                        end in
            aexit_wait_or_finish s2 t g None exc'
          else let '(s2, r) := aexit_raise s1 t g e in ret_to_puppet s2 t r
      | XFalse, None => aexit_wait_or_finish s1 t g None exc
      end
  | CStartWait g child f =>
      match inc with
      | None => ret_to_puppet s t (RRet (fut_value s f))
      | Some e =>
          if handle_pending s child then
            let s1 := scope_cancel s (k_hscope (tasks s child)) false in
            let '(s2, c) := new_scope s1 None true in
            let s3 := fst (scope_enter s2 c t) in
            let '(s4, wf) := event_wait s3 t (k_hevent (tasks s3 child)) in
            blocked (set_ctl s4 t (CStartJoin child c e wf))
          else
            (* the child failed before started() and handed its exception to the start future, but the caller
               was natively cancelled before it retrieved it: the future's exception takes precedence (F20) *)
            match f_st (futs s f) with
            | FExc e' => ret_to_puppet s t (RExc e')
            | _ => ret_to_puppet s t (RExc e)
            end
      end
  | CStartJoin child c e wf =>
      let s1 := event_unwait s (k_hevent (tasks s child)) wf in
      let '(s2, x) := scope_exit s1 c t inc in
      match x, inc with
      | XRaise e', _ => ret_to_puppet s2 t (RExc e')
      | XTrue, _ => ret_to_puppet s2 t (RExc e)        (* the join scope absorbed its own cancellation *)
      | XFalse, Some e2 => ret_to_puppet s2 t (RExc e2)
      | XFalse, None => ret_to_puppet s2 t (RExc e)
      end
  | CHandleWait h wf =>
      ret_to_puppet (event_unwait s (k_hevent (tasks s h)) wf) t (res_of_inc inc)
  | CDone => (s0, RRejected)
  end.

(* ---------------- callbacks ---------------- *)
(* TaskGroup._spawn.task_done (lines 836-881) *)
Definition run_task_done (s0 : st) (t : tid) : st :=
  let s := set_running s0 None in
  let k := tasks s t in
  match k_group k with
  | None => s
  | Some g =>
      let s1 := match k_cur k with
                | Some c => upd_scope s c (fun x => sc_tasks (del t (s_tasks x)) x)
                | None => s
                end in
      let s2 := upd_group s1 g (fun x => gr_tasks (del t (g_tasks x)) x) in
      let s3 := upd_task s2 t (fun x => tk_tdran true (tk_cur None x)) in
      let s4 := match g_fut (groups s3 g), g_tasks (groups s3 g) with
                | Some f, [] => fut_complete s3 f (FRes 0)
                | _, _ => s3
                end in
      let exc := match k_done k with
                 | Some (OExc e) => Some e
                 | Some (OCanc e) => Some e
                 | _ => None
                 end in
      let sf := k_startfut k in
      let sf_state := match sf with Some f => Some (f_st (futs s4 f)) | None => None end in
      match exc with
      | Some e =>
          match sf_state with
          | Some (FCanc _) =>
              if is_cancel e then s4 else
              let s5 := upd_group s4 g (fun x => gr_excs (g_excs x ++ [(t, e)]) x) in
              (* F23: a failed child cancels the group's OWN scope unless that one is already cancelled *)
              if s_cancelled (scopes s5 (g_scope (groups s5 g))) then s5 else scope_cancel s5 (g_scope (groups s5 g)) false
          | Some FPend =>
              match sf with Some f => fut_complete s4 f (FExc e) | None => s4 end
          | _ =>
              if is_cancel e then
                if eff_cancelled s4 (g_scope (groups s4 g)) then s4 else scope_cancel s4 (g_scope (groups s4 g)) false
              else
                let s5 := upd_group s4 g (fun x => gr_excs (g_excs x ++ [(t, e)]) x) in
                if s_cancelled (scopes s5 (g_scope (groups s5 g))) then s5 else scope_cancel s5 (g_scope (groups s5 g)) false
          end
      | None =>
          match sf, sf_state with
          | Some f, Some FPend => fut_complete s4 f (FExc ERuntime)
          | _, _ => s4
          end
      end
  end.

Definition handle_of_timer (x : timer) : handle :=
  match tm_what x with
  | TSleep f => HSleepDone f (tm_id x)
  | TScope c => HTimeout c (tm_id x)
  end.

Fixpoint insert_timer (x : timer) (l : list timer) : list timer :=
  match l with
  | [] => [x]
  | y :: r => if Z.ltb (tm_when x) (tm_when y) then x :: y :: r else y :: insert_timer x r
  end.
Definition sort_timers (l : list timer) : list timer := fold_left (fun acc x => insert_timer x acc) l [].

Definition tick (s : st) (dt : Z) : st :=
  let s1 := set_now s (now s + dt)%Z in
  let due := filter (fun x => Z.leb (tm_when x) (now s1)) (timers s1) in
  let rest := filter (fun x => negb (Z.leb (tm_when x) (now s1))) (timers s1) in
  set_ready (set_timers s1 rest) (ready s1 ++ map handle_of_timer (sort_timers due)).

Definition run_handle (s0 : st) (h : handle) : st * res :=
  if negb (existsb (handle_eqb h) (ready s0)) then (s0, RRejected) else
  let s := set_ready s0 (remove_first h (ready s0)) in
  match h with
  | HStep t => resume s t None
  | HWake t f => resume s t (Some f)
  | HDeliver c => (set_running (deliver_top (set_running s None) c) None, RNone)
  | HTaskDone t => (run_task_done s t, RNone)
  | HSleepDone f _ => (fut_complete s f (FRes 0), RNone)
  | HTimeout c _ => (set_running (scope_timeout (set_running s None) c) None, RNone)
  end.

Definition new_root (s : st) : st * res :=
  let t := ntask s in
  let k := mkTask CIdle true None None false 0 0 None None None 0 0 None None None None false in
  let s1 := mkSt (upd (tasks s) t k) (S t) (scopes s) (nscope s) (groups s) (ngroup s) (futs s) (nfut s)
                 (events s) (nevent s) (ready s) (timers s) (ntimer s) (now s) (running s) in
  (set_running (park s1 t) None, RRet t).

Definition actor (o : op) : option tid :=
  match o with
  | ANewScope t _ _ | AEnter t _ | AExit t _ _ | ACancel t _ | ASetShield t _ _ | ASetDeadline t _ _
  | AGroupNew t | AGroupEnter t _ | AGroupExit t _ | ASpawn t _ | AStart t _ | AStarted t _
  | AHandleCancel t _ | AHandleWait t _ | AYield t | ACkIf t | AShieldCk t | ASleep t _ | AHold t _
  | ADrop t | AWrap t _ | AFinish t _ | AUncancel t | AEffDeadline t | AFailAt t _ _ => Some t
  | _ => None
  end.

Definition step (s : st) (o : op) : st * res :=
  match actor o with
  | Some t =>
      if negb (idle s t) then (s, RRejected) else
      match o with
      | AFinish _ v => puppet_finish s t v
      | _ => puppet_op s t o
      end
  | None =>
      match o with
      | ANewRoot => new_root s
      | ANativeCancel t => (task_cancel s t 0, RNone)
      | AExtCancel c => (set_running (scope_cancel (set_running s None) c false) None, RNone)
      | ARun h => run_handle s h
      | ATick dt => if Z.ltb dt 0 then (s, RRejected) else (tick s dt, RNone)
      | _ => (s, RRejected)
      end
  end.

(* ---------------- codec (shared with harness/smachine.py) ---------------- *)
Open Scope Z_scope.

Definition dz (z : Z) : option Z := if Z.ltb z 0 then None else Some z.

Definition find_timeout (s : st) (c : sid) : tmid :=
  match find (fun h => match h with HTimeout c' _ => Nat.eqb c' c | _ => false end) (ready s) with
  | Some (HTimeout _ tm) => tm
  | _ => 0%nat
  end.

Definition resolve (s : st) (c a b d : Z) : op :=
  let t := zn a in
  match c with
  | 0 => ANewScope t (dz b) (zb d)
  | 1 => AEnter t (zn b)
  | 2 => AExit t (zn b) (zb d)
  | 3 => ACancel t (zn b)
  | 4 => ASetShield t (zn b) (zb d)
  | 5 => ASetDeadline t (zn b) (dz d)
  | 6 => AGroupNew t
  | 7 => AGroupEnter t (zn b)
  | 8 => AGroupExit t (zn b)
  | 9 => ASpawn t (zn b)
  | 10 => AStart t (zn b)
  | 11 => AStarted t (zn b)
  | 12 => AHandleCancel t (zn b)
  | 13 => AHandleWait t (zn b)
  | 14 => AYield t
  | 15 => ACkIf t
  | 16 => AShieldCk t
  | 17 => ASleep t (dz b)
  | 18 => AHold t (zn b)
  | 19 => ADrop t
  | 20 => AWrap t (zn b)
  | 21 => AFinish t (zn b)
  | 22 => AUncancel t
  | 23 => AEffDeadline t
  | 24 => AFailAt t (dz b) (zb d)
  | 30 => ANewRoot
  | 31 => ANativeCancel t
  | 32 => AExtCancel t
  | 33 => ARun (HStep t)
  | 34 => ARun (HWake t (match k_waiter (tasks s t) with Some f => f | None => 0%nat end))
  | 35 => ARun (HDeliver t)
  | 36 => ARun (HTaskDone t)
  | 37 => ARun (match k_ctl (tasks s t) with CSleep f tm => HSleepDone f tm | _ => HStep 0%nat end)
  | 38 => ARun (HTimeout t (find_timeout s t))
  | 40 => ATick a
  | _ => ARun (HStep 0%nat)
  end.

Definition leaf_code (e : exn) : Z :=
  match e with
  | ECancel o => 1000 + nz (pred o)
  | EErr n => 2000 + nz n
  | ERuntime => 3000
  | ETimeout => 3001
  | EGroup _ => 3999
  end.

Definition enc_exn (e : exn) : list Z :=
  let l := leaves e in
  (match e with EGroup _ => 1 | _ => 0 end) :: nz (length l) :: map leaf_code l.

Definition enc_res (r : res) : list Z :=
  match r with
  | RRet v => [0; nz v]
  | RExc e => 1 :: enc_exn e
  | RBlocked => [2]
  | RNone => [3]
  | RTime XInf => [4; 0; 0]
  | RTime XNegInf => [4; 1; 0]
  | RTime (XFin z) => [4; 2; z]
  | RRejected => [9]
  end.

Fixpoint seq1 (n : nat) : list nat :=   (* [1; ...; n] *)
  match n with 0%nat => [] | S m => seq1 m ++ [S m] end.

Definition on (o : option nat) : Z := match o with Some x => nz x | None => 0 end.

Definition task_state_code (k : task) : Z :=
  match k_done k with
  | Some (ORet _) => 3 | Some (OExc _) => 4 | Some (OCanc _) => 5
  | None => match k_ctl k with CNew => 0 | CIdle => 1 | _ => 2 end
  end.

Definition handle_status (s : st) (k : task) : Z :=
  match k_group k with
  | None => 0
  | Some _ =>
      if negb (e_set (events s (k_hevent k))) then
        (if s_cancelled (scopes s (k_hscope k)) then 2 else 1)
      else match k_hexc k with
           | Some e => if is_cancel e then 5 else 4
           | None => 3
           end
  end.

(* order-independent summary of an exception: the sum of its leaf codes *)
Definition exn_sum (e : exn) : Z := fold_right Z.add 0 (map leaf_code (leaves e)).

Definition obs_task (s : st) (t : tid) : list Z :=
  let k := tasks s t in
  [task_state_code k; nz (k_ncancel k); bz (k_must k); on (k_cur k); handle_status s k;
   match k_hret k with Some v => nz v + 1 | None => 0 end;          (* TaskHandle._return_value *)
   match k_hexc k with Some e => exn_sum e | None => 0 end].        (* TaskHandle._exception *)

Definition obs_scope (s : st) (c : sid) : list Z :=
  let x := scopes s c in
  [bz (s_active x) + 2 * bz (s_cancelled x) + 4 * bz (s_caught x) + 8 * bz (s_shield x)
   + 16 * bz (s_chandle x) + 32 * bz (match s_timeout x with Some _ => true | None => false end);
   nz (s_pending x); match s_deadline x with Some d => d | None => -1 end; on (s_host x); on (s_parent x);
   nz (length (s_tasks x)); nz (length (s_children x))].

Definition obs_group (s : st) (g : gid) : list Z :=
  let x := groups s g in
  [nz (length (g_tasks x)); if g_left x then 0 else nz (length (g_excs x));
   bz (match g_fut x with Some _ => true | None => false end);
   if g_left x then 0 else fold_right Z.add 0 (map (fun p => exn_sum (snd p)) (g_excs x))].   (* leaves of _exceptions *)

Definition sleeper_of (s : st) (f : fid) : nat :=
  match find (fun t => match k_ctl (tasks s t) with CSleep f' _ => Nat.eqb f' f | _ => false end)
             (seq1 (pred (ntask s))) with
  | Some t => t
  | None => 0%nat
  end.

Definition handle_code (s : st) (h : handle) : Z :=
  match h with
  | HStep t => 1000 + nz t
  | HWake t _ => 2000 + nz t
  | HDeliver c => 3000 + nz c
  | HTaskDone t => 4000 + nz t
  | HSleepDone f _ => 5000 + nz (sleeper_of s f)
  | HTimeout c _ => 6000 + nz c
  end.

Fixpoint zinsert (x : Z) (l : list Z) : list Z :=
  match l with
  | [] => [x]
  | y :: r => if Z.leb x y then x :: y :: r else y :: zinsert x r
  end.
Definition zsort (l : list Z) : list Z := fold_left (fun acc x => zinsert x acc) l [].

Definition observe (s : st) : list Z :=
  [now s; nz (pred (ntask s))] ++ flat_map (obs_task s) (seq1 (pred (ntask s)))
  ++ [nz (pred (nscope s))] ++ flat_map (obs_scope s) (seq1 (pred (nscope s)))
  ++ [nz (pred (ngroup s))] ++ flat_map (obs_group s) (seq1 (pred (ngroup s)))
  ++ [nz (length (ready s))] ++ zsort (map (handle_code s) (ready s))
  ++ [nz (length (timers s))]
  ++ flat_map (fun x => [tm_when x; handle_code s (handle_of_timer x)]) (sort_timers (timers s)).

Fixpoint run_flat (s : st) (l : list Z) (fuel : nat) : list Z :=
  match fuel, l with
  | S fu, c :: a :: b :: d :: r =>
      let '(s1, out) := step s (resolve s c a b d) in
      enc_res out ++ observe s1 ++ run_flat s1 r fu
  | _, _ => []
  end.

Definition run_case (l : list Z) : list Z := run_flat init l (length l).

(* the op list a flat case denotes (for theorems about cases) *)
Fixpoint ops_of_flat (s : st) (l : list Z) (fuel : nat) : list op :=
  match fuel, l with
  | S fu, c :: a :: b :: d :: r =>
      let o := resolve s c a b d in o :: ops_of_flat (fst (step s o)) r fu
  | _, _ => []
  end.
Close Scope Z_scope.
