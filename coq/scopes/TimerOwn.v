(* C06: what fail_at / move_on report, with the provisos of the property text made explicit as predicates over the
   op history (no ghost fields in the machine):
     no_explicit_cancel c ops : the program never calls cancel() on scope c (ACancel / AExtCancel);
     no_redeadline c s ops    : no deadline is assigned to c once it is cancelled ("after it has fired").
   For the scope c created by an AFailAt op (fail_at / fail_after / move_on_at / move_on_after), under these provisos:
   cancel_called c <-> cancelled by its own deadline, and then the deadline is due; hence TimeoutError (resp.
   cancelled_caught) IFF own deadline fired /\ no enclosing cancellation visible at exit /\ the block ended with AnyIO
   cancellations only (resp. with at least one).  The last two conjuncts are the audit's T1 / T2. *)
From AV Require Import Base Machine ChainFrame ChainThms ChainWalk ChainMono TimerInv TimerThms TimerOrder TimerRun.
From Coq Require Import ZifyBool.

(* ====================================================================================================== *)
(* 1. only scope x is affected                                                                              *)
(* ====================================================================================================== *)
Record ex1 (x : sid) (s s' : st) : Prop := mk_ex1 {
  e1_nscope : nscope s' = nscope s;
  e1_now : now s' = now s;
  e1_gs : forall g, g_scope (groups s' g) = g_scope (groups s g);
  e1_hs : forall t, k_hscope (tasks s' t) = k_hscope (tasks s t);
  e1_flags : forall y, y <> x -> s_cancelled (scopes s' y) = s_cancelled (scopes s y) /\
                                  s_bydeadline (scopes s' y) = s_bydeadline (scopes s y) /\
                                  s_deadline (scopes s' y) = s_deadline (scopes s y)
}.

Lemma ex1_refl x s : ex1 x s s.
Proof. constructor; auto. Qed.

Lemma ex1_trans x a b c : ex1 x a b -> ex1 x b c -> ex1 x a c.
Proof.
  intros [A1 A2 A3 A4 A5] [B1 B2 B3 B4 B5]. constructor; try congruence.
  intros y Hy. destruct (A5 y Hy) as (? & ? & ?), (B5 y Hy) as (? & ? & ?). repeat split; congruence.
Qed.

Lemma ex1_frame x a b : frame a b -> ex1 x a b.
Proof.
  intros F. constructor; [apply (fr_nscope _ _ F)|apply (fr_now _ _ F)|apply (fr_gscope _ _ F)|apply (fr_hscope _ _ F)|].
  intros y _. destruct (fr_scopes _ _ F y). auto.
Qed.

Lemma ex1_upd_scope_self x s g : ex1 x s (upd_scope s x g).
Proof. constructor; try reflexivity. intros y Hy. now rewrite (scopes_upd_other s x g y Hy). Qed.

Lemma ex1_upd_scope_keep x s y g :
  (forall k, s_cancelled (g k) = s_cancelled k /\ s_bydeadline (g k) = s_bydeadline k /\ s_deadline (g k) = s_deadline k) ->
  ex1 x s (upd_scope s y g).
Proof.
  intros Hg. constructor; try reflexivity. intros z _. cbn [upd_scope set_scopes scopes]. rewrite upd_eq.
  destruct (Nat.eqb z y) eqn:E; [|auto]. apply Nat.eqb_eq in E. subst z. apply Hg.
Qed.

Lemma ex1_same x s s' :
  nscope s' = nscope s -> now s' = now s -> scopes s' = scopes s -> groups s' = groups s ->
  (forall t, k_hscope (tasks s' t) = k_hscope (tasks s t)) -> ex1 x s s'.
Proof. intros E1 E2 E3 E4 E5. constructor; auto; [intros g; now rewrite E4|intros y _; now rewrite E3]. Qed.

Lemma ex1_cancel_timeout x s c : ex1 x s (cancel_timeout s c).
Proof.
  unfold cancel_timeout. destruct (s_timeout (scopes s c)) as [tm|]; [|apply ex1_refl].
  apply ex1_trans with (timer_cancel s tm); [apply ex1_same; reflexivity|].
  apply ex1_upd_scope_keep. intros k; auto.
Qed.

Lemma ex1_scope_cancel s x b : ex1 x s (scope_cancel s x b).
Proof.
  unfold scope_cancel. destruct (s_cancelled (scopes s x)); [apply ex1_refl|].
  set (s2 := upd_scope (cancel_timeout s x) x _).
  assert (H2 : ex1 x s s2) by (eapply ex1_trans; [apply ex1_cancel_timeout|apply ex1_upd_scope_self]).
  destruct (s_host (scopes s2 x)); [|exact H2]. eapply ex1_trans; [exact H2|apply ex1_frame, frame_deliver_top].
Qed.

Lemma ex1_scope_timeout s x : ex1 x s (scope_timeout s x).
Proof.
  unfold scope_timeout. destruct (s_deadline (scopes s x)) as [d|]; [|apply ex1_refl].
  destruct (Z.leb d (now s)); [apply ex1_scope_cancel|]. cbn [call_at].
  match goal with |- ex1 x s (upd_scope ?a _ _) => apply ex1_trans with a end;
    [apply ex1_same; reflexivity|apply ex1_upd_scope_self].
Qed.

Lemma ex1_scope_enter s x t : ex1 x s (fst (scope_enter s x t)).
Proof.
  unfold scope_enter. destruct (s_active (scopes s x)); [apply ex1_refl|]. cbv zeta. cbn [fst].
  match goal with |- context [scope_timeout ?a x] => set (s3 := a) end.
  assert (H3 : ex1 x s s3).
  { unfold s3.
    match goal with |- ex1 x s (match ?o with Some p => upd_scope ?a p ?g | None => _ end) =>
      assert (H2 : ex1 x s a);
      [|destruct o; [eapply ex1_trans; [exact H2|apply ex1_upd_scope_keep; intros k; auto]|exact H2]] end.
    match goal with |- ex1 x s (upd_task ?a _ _) => apply ex1_trans with a end; [apply ex1_upd_scope_self|].
    apply ex1_frame, frame_upd_task. tkok. }
  assert (H5 : ex1 x s (upd_scope (scope_timeout s3 x) x (sc_active true))).
  { eapply ex1_trans; [exact H3|]. eapply ex1_trans; [apply ex1_scope_timeout|apply ex1_upd_scope_self]. }
  destruct (s_cancelled _); [|exact H5]. eapply ex1_trans; [exact H5|apply ex1_frame, frame_deliver_top].
Qed.

Lemma ex1_set_deadline s x d : ex1 x s (set_deadline_body s x d).
Proof.
  unfold set_deadline_body. cbv zeta.
  assert (H1 : ex1 x s (cancel_timeout (upd_scope s x (sc_deadline d)) x))
    by (eapply ex1_trans; [apply ex1_upd_scope_self|apply ex1_cancel_timeout]).
  destruct (_ && _); [|exact H1]. eapply ex1_trans; [exact H1|apply ex1_scope_timeout].
Qed.

(* ====================================================================================================== *)
(* 2. what happens to one fixed scope c                                                                     *)
(* ====================================================================================================== *)
Section Own.
  Context (c : sid).

  (* c is an allocated scope that is neither a task group's own scope nor a task handle's scope *)
  Definition Tc (s : st) : Prop :=
    (0 < c /\ c < nscope s) /\ (forall g, g_scope (groups s g) <> c) /\ (forall t, k_hscope (tasks s t) <> c).

  (* c can become cancelled only by its deadline, and the reason does not change afterwards *)
  Record own (s s' : st) : Prop := mk_own {
    ow_mono : s_cancelled (scopes s c) = true -> s_cancelled (scopes s' c) = true;
    ow_keep : s_cancelled (scopes s c) = true -> s_bydeadline (scopes s' c) = s_bydeadline (scopes s c);
    ow_new : s_cancelled (scopes s' c) = true -> s_cancelled (scopes s c) = true \/ s_bydeadline (scopes s' c) = true
  }.

  Lemma own_refl s : own s s.
  Proof. constructor; auto. Qed.

  Lemma own_trans a b d : own a b -> own b d -> own a d.
  Proof.
    intros [M1 K1 N1] [M2 K2 N2]. constructor.
    - auto.
    - intros H. rewrite (K2 (M1 H)). auto.
    - intros H. destruct (N2 H) as [Hb|Hb]; [|now right]. destruct (N1 Hb) as [Ha|Ha]; [now left|].
      right. now rewrite (K2 Hb).
  Qed.

  Lemma own_same s s' :
    s_cancelled (scopes s' c) = s_cancelled (scopes s c) -> s_bydeadline (scopes s' c) = s_bydeadline (scopes s c) ->
    own s s'.
  Proof. intros E1 E2. constructor; rewrite ?E1, ?E2; auto. Qed.

  Lemma own_upd_keep s y g :
    (forall k, s_cancelled (g k) = s_cancelled k /\ s_bydeadline (g k) = s_bydeadline k) -> own s (upd_scope s y g).
  Proof.
    intros Hg. apply own_same; cbn [upd_scope set_scopes scopes]; rewrite upd_eq;
      destruct (Nat.eqb_spec c y) as [E|E]; try reflexivity; rewrite <- E; apply Hg.
  Qed.

  Lemma own_ex1 x s s' : x <> c -> ex1 x s s' -> own s s'.
  Proof. intros Hx E. destruct (e1_flags _ _ _ E c (not_eq_sym Hx)) as (E1 & E2 & _). now apply own_same. Qed.

  Lemma own_scope_cancel_true s : own s (scope_cancel s c true).
  Proof.
    unfold scope_cancel. destruct (s_cancelled (scopes s c)) eqn:Ec; [apply own_refl|].
    set (s2 := upd_scope (cancel_timeout s c) c _).
    assert (E2 : s_cancelled (scopes s2 c) = true /\ s_bydeadline (scopes s2 c) = true)
      by (unfold s2; rewrite scopes_upd_same; auto).
    assert (H2 : own s s2) by (constructor; [congruence|congruence|intros _; right; apply E2]).
    destruct (s_host (scopes s2 c)); [|exact H2]. eapply own_trans; [exact H2|].
    pose proof (frame_deliver_top s2 c) as F. destruct (fr_scopes _ _ F c). now apply own_same.
  Qed.

  Lemma own_scope_timeout s x : own s (scope_timeout s x).
  Proof.
    destruct (Nat.eq_dec x c) as [->|Hx]; [|apply (own_ex1 x); [exact Hx|apply ex1_scope_timeout]].
    unfold scope_timeout. destruct (s_deadline (scopes s c)) as [d|]; [|apply own_refl].
    destruct (Z.leb d (now s)); [apply own_scope_cancel_true|]. cbn [call_at].
    apply own_same; now rewrite scopes_upd_same.
  Qed.

  Lemma own_scope_enter s x t : own s (fst (scope_enter s x t)).
  Proof.
    destruct (Nat.eq_dec x c) as [->|Hx]; [|apply (own_ex1 x); [exact Hx|apply ex1_scope_enter]].
    unfold scope_enter. destruct (s_active (scopes s c)); [apply own_refl|]. cbv zeta. cbn [fst].
    match goal with |- context [scope_timeout ?a c] => set (s3 := a) end.
    assert (H3 : own s s3).
    { unfold s3. apply own_same;
        destruct (k_cur (tasks s t)) as [p|]; cbn [upd_scope upd_task set_scopes set_tasks scopes]; rewrite ?upd_eq;
        repeat match goal with |- context [Nat.eqb ?a ?b] => destruct (Nat.eqb_spec a b); subst end; reflexivity. }
    assert (H5 : own s (upd_scope (scope_timeout s3 c) c (sc_active true))).
    { eapply own_trans; [exact H3|]. eapply own_trans; [apply own_scope_timeout|].
      apply own_same; now rewrite scopes_upd_same. }
    destruct (s_cancelled _); [|exact H5]. eapply own_trans; [exact H5|].
    pose proof (frame_deliver_top (upd_scope (scope_timeout s3 c) c (sc_active true)) c) as F.
    destruct (fr_scopes _ _ F c). now apply own_same.
  Qed.

  Lemma own_set_deadline s x d : own s (set_deadline_body s x d).
  Proof.
    destruct (Nat.eq_dec x c) as [->|Hx]; [|apply (own_ex1 x); [exact Hx|apply ex1_set_deadline]].
    unfold set_deadline_body. cbv zeta. set (s1 := cancel_timeout (upd_scope s c (sc_deadline d)) c).
    assert (H1 : own s s1).
    { destruct (cancel_timeout_fields (upd_scope s c (sc_deadline d)) c) as (_ & _ & _ & K).
      destruct (e1_flags _ _ _ (ex1_cancel_timeout (S c) (upd_scope s c (sc_deadline d)) c) c (Nat.neq_succ_diag_r c))
        as (E1 & E2 & _). fold s1 in E1, E2. apply own_same; rewrite ?E1, ?E2, scopes_upd_same; reflexivity. }
    destruct (_ && _); [|exact H1]. eapply own_trans; [exact H1|apply own_scope_timeout].
  Qed.

  Record OD (s s' : st) : Prop := mk_OD {
    od_T : Tc s -> Tc s';
    od_own : Tc s -> own s s'
  }.

  Lemma od_refl s : OD s s.
  Proof. constructor; [auto|intros _; apply own_refl]. Qed.

  Lemma od_trans a b d : OD a b -> OD b d -> OD a d.
  Proof.
    intros [T1 O1] [T2 O2]. constructor; [auto|]. intros T. eapply own_trans; [apply O1, T|apply O2, T1, T].
  Qed.

  (* nothing of the tables changes, nscope may grow, c's flags as in `own` *)
  Lemma od_intro s s' :
    nscope s <= nscope s' -> (forall g, g_scope (groups s' g) = g_scope (groups s g)) ->
    (forall t, k_hscope (tasks s' t) = k_hscope (tasks s t)) -> (Tc s -> own s s') -> OD s s'.
  Proof.
    intros Hn Hg Hh Ho. constructor; [|exact Ho]. intros [[A1 A2] [B C]].
    refine (conj (conj A1 _) (conj _ _)); [lia|intros g; rewrite Hg; apply B|intros t; rewrite Hh; apply C].
  Qed.

  Lemma od_ex1 x s s' : (Tc s -> x <> c) -> ex1 x s s' -> OD s s'.
  Proof.
    intros Hx E. apply od_intro; [rewrite (e1_nscope _ _ _ E); lia|apply (e1_gs _ _ _ E)|apply (e1_hs _ _ _ E)|].
    intros T. apply (own_ex1 x); [now apply Hx|exact E].
  Qed.

  Lemma od_frame a b : frame a b -> OD a b.
  Proof.
    intros F. apply od_intro; [rewrite (fr_nscope _ _ F); lia|apply (fr_gscope _ _ F)|apply (fr_hscope _ _ F)|].
    intros _. destruct (fr_scopes _ _ F c). now apply own_same.
  Qed.

  Lemma od_own_ex1 x s s' : ex1 x s s' -> own s s' -> OD s s'.
  Proof.
    intros E O. apply od_intro; [rewrite (e1_nscope _ _ _ E); lia|apply (e1_gs _ _ _ E)|apply (e1_hs _ _ _ E)|auto].
  Qed.

  Lemma od_new_scope s d sh : OD s (fst (new_scope s d sh)).
  Proof.
    apply od_intro; [cbn; lia|reflexivity|reflexivity|]. intros [[_ A] _].
    apply own_same; cbn [new_scope fst scopes]; now rewrite upd_other by lia.
  Qed.

  Lemma od_scope_exit s x t exc : OD s (fst (scope_exit s x t exc)).
  Proof.
    destruct (scope_exit_chain_frame s x t exc) as (_ & N & K).
    apply od_intro; [lia| | |].
    - destruct (exit_guards s x t) eqn:G; [|now rewrite (scope_exit_guards_fail s x t exc G)].
      intros g. rewrite (tf_gscope _ _ (exit_tframe s x t exc G)).
      unfold cancel_timeout. destruct (s_timeout _); reflexivity.
    - destruct (exit_guards s x t) eqn:G; [|now rewrite (scope_exit_guards_fail s x t exc G)].
      intros u. rewrite (tf_hscope _ _ (exit_tframe s x t exc G)).
      unfold cancel_timeout. destruct (s_timeout _); reflexivity.
    - intros _. destruct (K c) as (K1 & _ & _ & _ & K5). now apply own_same.
  Qed.

  Lemma od_spawn s g sf : OD s (fst (spawn_task s g sf)).
  Proof.
    unfold spawn_task. cbv zeta.
    change (new_scope s None false) with (fst (new_scope s None false), snd (new_scope s None false)). cbv iota.
    cbn [fst].
    eapply od_trans; [|apply od_frame; now apply frame_call_soon].
    eapply od_trans; [|apply od_frame, frame_restart].
    eapply od_trans; [|apply od_frame, frame_upd_group; reflexivity].
    match goal with |- OD s (upd_scope ?a ?y ?g) => apply od_trans with a end.
    - (* new handle scope + new task record: both carry the fresh id nscope s, which is not c *)
      constructor.
      + intros [[A1 A2] [B C]]. refine (conj (conj A1 _) (conj B _)); [cbn; lia|].
        intros u. cbn [tasks]. rewrite upd_eq. destruct (Nat.eqb u (ntask s)); [|apply C]. cbn. lia.
      + intros [[_ A2] _]. apply own_same; cbn [scopes new_scope fst]; now rewrite upd_other by lia.
    - apply (od_own_ex1 (S c)); [apply ex1_upd_scope_keep; intros k; auto|]. apply own_upd_keep. intros k; auto.
  Qed.

  Definition own_oks : oks :=
    mk_oks (fun _ _ => True) (fun _ _ _ => True) (fun _ _ => True) (fun _ => True) (fun _ _ => True) (fun _ _ => True)
           (fun _ _ _ => True) (fun _ x => x <> c).

  Lemma od_walk : walk_hyps OD own_oks.
  Proof.
    constructor; cbn [own_oks ok_enter ok_setdl ok_tick ok_new ok_genter ok_henter ok_trun ok_cancel].
    - apply od_refl.
    - apply od_trans.
    - apply od_frame.
    - exact I.
    - apply od_new_scope.
    - intros s d sh t _. apply od_trans with (fst (new_scope s d sh)); [apply od_new_scope|].
      apply (od_own_ex1 (nscope s)); [apply ex1_scope_enter|apply own_scope_enter].
    - intros s x t _. apply (od_own_ex1 x); [apply ex1_scope_enter|apply own_scope_enter].
    - intros s g t _. apply (od_own_ex1 (g_scope (groups s g))); [apply ex1_scope_enter|apply own_scope_enter].
    - intros s t _. apply (od_own_ex1 (k_hscope (tasks s t))); [apply ex1_scope_enter|apply own_scope_enter].
    - apply od_scope_exit.
    - intros s x Hx. apply (od_ex1 x); [auto|apply ex1_scope_cancel].
    - intros s g. apply (od_ex1 (g_scope (groups s g))); [intros [_ [B _]]; apply B|apply ex1_scope_cancel].
    - intros s t. apply (od_ex1 (k_hscope (tasks s t))); [intros [_ [_ C]]; apply C|apply ex1_scope_cancel].
    - intros s x d _. apply (od_own_ex1 x); [apply ex1_set_deadline|apply own_set_deadline].
    - intros s. constructor.
      + intros [[A1 A2] [B C]]. refine (conj (conj A1 _) (conj _ C)); [cbn; lia|]. intros g. cbn [add_group groups].
        rewrite upd_eq. destruct (Nat.eqb g _); [cbn; lia|apply B].
      + intros [[_ A2] _]. apply own_same; cbn [add_group scopes new_scope fst]; now rewrite upd_other by lia.
    - apply od_spawn.
    - intros s t f w.
      apply od_trans with (suspend_on (fst (call_at s w (TSleep f))) t f).
      + apply od_trans with (fst (call_at s w (TSleep f))); [|apply od_frame, frame_suspend_on].
        apply (od_own_ex1 (S c)); [apply ex1_same; reflexivity|now apply own_same].
      + apply (od_own_ex1 (S c)); [|now apply own_same]. apply ex1_same; try reflexivity.
        intros u. cbn [set_ctl upd_task set_tasks tasks]. rewrite upd_eq. destruct (Nat.eqb u t) eqn:E; [|reflexivity].
        apply Nat.eqb_eq in E. now subst u.
    - intros s t f. apply (od_own_ex1 (S c)); [|now apply own_same]. apply ex1_same; try reflexivity.
      intros u. cbn [set_ctl upd_task set_tasks tasks]. rewrite upd_eq. destruct (Nat.eqb u t) eqn:E; [|reflexivity].
      apply Nat.eqb_eq in E. now subst u.
    - intros s t f tm _. apply (od_own_ex1 (S c)); [apply ex1_same; reflexivity|now apply own_same].
    - intros s f tm. apply (od_own_ex1 (S c)); [apply ex1_same; reflexivity|now apply own_same].
    - intros s x tm _ _.
      match goal with |- OD s (scope_timeout ?a x) => apply od_trans with a end.
      + apply (od_own_ex1 (S c)); [apply ex1_same; reflexivity|now apply own_same].
      + apply (od_own_ex1 x); [apply ex1_scope_timeout|apply own_scope_timeout].
    - intros s. constructor.
      + intros [[A1 A2] [B C]]. refine (conj (conj A1 A2) (conj B _)). intros u. cbn [add_root tasks]. rewrite upd_eq.
        destruct (Nat.eqb u _); [cbn; lia|apply C].
      + intros _. now apply own_same.
    - intros s dt _. apply od_intro; [cbn; lia|reflexivity|reflexivity|]. intros _. now apply own_same.
  Qed.
End Own.

(* ====================================================================================================== *)
(* 3. histories                                                                                             *)
(* ====================================================================================================== *)

(* the program never calls cancel() on scope c *)
Definition no_explicit_cancel (c : sid) (ops : list op) : bool :=
  forallb (fun o => match o with ACancel _ x | AExtCancel x => negb (Nat.eqb x c) | _ => true end) ops.

(* no deadline is assigned to c once it is cancelled (evaluated along the run that starts in s) *)
Fixpoint no_redeadline (c : sid) (s : st) (ops : list op) : bool :=
  match ops with
  | [] => true
  | o :: r =>
      (match o with ASetDeadline _ x _ => negb (Nat.eqb x c && s_cancelled (scopes s c)) | _ => true end)
      && no_redeadline c (fst (step s o)) r
  end.

Lemma own_op_ok c s o :
  match o with ACancel _ x | AExtCancel x => x <> c | _ => True end -> @op_ok (own_oks c) s o.
Proof. destruct o; cbn; auto. destruct h; cbn; auto. Qed.

Lemma own_run c mid : forall s,
  Tc c s -> (s_cancelled (scopes s c) = true -> s_bydeadline (scopes s c) = true) ->
  no_explicit_cancel c mid = true ->
  Tc c (final step s mid) /\
  (s_cancelled (scopes (final step s mid) c) = true -> s_bydeadline (scopes (final step s mid) c) = true).
Proof.
  induction mid as [|o r IH]; intros s T Q H; [auto|]. cbn [no_explicit_cancel forallb] in H.
  apply andb_true_iff in H. destruct H as [Ho Hr]. cbn [final fold_left].
  assert (OK : @op_ok (own_oks c) s o).
  { apply own_op_ok. destruct o; auto; apply negb_true_iff, Nat.eqb_neq in Ho; exact Ho. }
  destruct (walk_step (od_walk c) s o OK) as [T2 O2]. specialize (T2 T). destruct (O2 T) as [M K N].
  apply IH; [exact T2| |exact Hr]. intros H2. destruct (N H2) as [H1|H1]; [|exact H1]. now rewrite (K H1), (Q H1).
Qed.

Lemma step_deadline_same s o c :
  c < nscope s -> (forall t d, o <> ASetDeadline t c d) ->
  s_deadline (scopes (fst (step s o)) c) = s_deadline (scopes s c).
Proof.
  intros Hc Ho.
  destruct o;
    try (match goal with |- context [step s ?o] =>
           exact (sr_deadline _ _ _ (sr_scopes _ _ (walk_step srel_walk s o (op_ok_always _ _ _ s o I)) c Hc)) end).
  - (* ASetDeadline on another scope *)
    assert (Hx : c0 <> c) by (intros ->; exact (Ho t d eq_refl)).
    unfold step. cbn [actor]. destruct (negb (idle s t)); [reflexivity|]. unfold puppet_op. cbv zeta.
    change (s_deadline (scopes (fst (ret_to_puppet (set_deadline_body (begin_act s t) c0 d) t (RRet 0))) c) =
            s_deadline (scopes s c)).
    rewrite (tc_deadline _ _ (fr_scopes _ _ (frame_ret _ t (RRet 0)) c)).
    destruct (e1_flags _ _ _ (ex1_set_deadline (begin_act s t) c0 d) c (not_eq_sym Hx)) as (_ & _ & E). exact E.
  - (* ATick *) unfold step. cbn [actor]. destruct (Z.ltb dt 0); reflexivity.
Qed.

Definition due_inv (c : sid) (s : st) : Prop :=
  s_bydeadline (scopes s c) = true -> s_cancelled (scopes s c) = true /\ due s c.

Lemma due_run c mid : forall s,
  c < nscope s -> due_inv c s -> no_redeadline c s mid = true -> due_inv c (final step s mid).
Proof.
  induction mid as [|o r IH]; intros s Hc D H; [exact D|]. cbn [no_redeadline] in H.
  apply andb_true_iff in H. destruct H as [Ho Hr]. cbn [final fold_left].
  pose proof (step_flags s o) as [Hn K]. destruct (K c Hc) as (_ & A2 & _ & A4).
  apply IH; [lia| |exact Hr]. intros H2. destruct (A4 H2) as [H1|(Q1 & Q2 & Q3)]; [|auto].
  destruct (D H1) as [Dc (d & Ed & Hd)]. split; [auto|]. exists d. split.
  - rewrite step_deadline_same; [exact Ed|exact Hc|]. intros t d' ->. rewrite Nat.eqb_refl, Dc in Ho. discriminate.
  - pose proof (step_now s o). lia.
Qed.

Lemma wf_run_split a : forall s b, wf_run s (a ++ b) -> wf_run s a /\ wf_run (final step s a) b.
Proof.
  induction a as [|o r IH]; intros s b H; [split; [exact I|exact H]|]. destruct H as [H1 H2].
  destruct (IH _ _ H2) as [H3 H4]. split; [split; assumption|exact H4].
Qed.

(* the state after `with fail_at(d0, shield=sh)` has been entered by task t0 *)
Lemma failat_state s1 t0 d0 sh :
  idle s1 t0 = true ->
  exists r, fst (step s1 (AFailAt t0 d0 sh)) =
            fst (ret_to_puppet (fst (scope_enter (fst (new_scope (begin_act s1 t0) d0 sh)) (nscope s1) t0)) t0 r).
Proof.
  intros Hi. unfold step. cbn [actor]. rewrite Hi. cbn [negb]. unfold puppet_op. cbv zeta.
  change (new_scope (begin_act s1 t0) d0 sh)
    with (fst (new_scope (begin_act s1 t0) d0 sh), nscope s1). cbv iota. cbn [fst snd].
  destruct (scope_enter (fst (new_scope (begin_act s1 t0) d0 sh)) (nscope s1) t0) as [sB e]. eexists. reflexivity.
Qed.

Lemma failat_init s1 t0 d0 sh :
  reach_wf s1 -> idle s1 t0 = true ->
  let c := nscope s1 in let s2 := fst (step s1 (AFailAt t0 d0 sh)) in
  Tc c s2 /\ (s_cancelled (scopes s2 c) = true -> s_bydeadline (scopes s2 c) = true) /\ due_inv c s2.
Proof.
  intros R Hi. cbv zeta. destruct (failat_state s1 t0 d0 sh Hi) as [r E]. rewrite E. clear E.
  destruct (reach_tinv s1 R) as [G _]. set (c := nscope s1).
  set (sA := fst (new_scope (begin_act s1 t0) d0 sh)). set (sB := fst (scope_enter sA c t0)).
  assert (TA : Tc c sA).
  { refine (conj (conj (gi_nscope_pos _ G) _) (conj _ _)).
    - unfold sA, c. cbn. lia.
    - intros g. unfold sA. cbn [new_scope fst groups begin_act set_running upd_task set_tasks].
      pose proof (gi_gscope _ G g). unfold c. lia.
    - intros u. unfold sA. cbn [new_scope fst tasks].
      rewrite (fr_hscope _ _ (frame_begin_act s1 t0) u). pose proof (gi_hscope _ G u). unfold c. lia. }
  assert (FA : s_cancelled (scopes sA c) = false /\ s_bydeadline (scopes sA c) = false).
  { unfold sA, c. cbn [new_scope fst scopes begin_act set_running upd_task set_tasks nscope]. rewrite upd_same. auto. }
  assert (OB : OD c sA sB) by (apply (od_own_ex1 c c); [apply ex1_scope_enter|apply own_scope_enter]).
  pose proof (od_T _ _ _ OB TA) as TB. destruct (od_own _ _ _ OB TA) as [_ _ NB].
  pose proof (frame_ret sB t0 r) as F. destruct (fr_scopes _ _ F c) as [Fd Fc _ _ _ Fb].
  refine (conj _ (conj _ _)).
  - apply (od_T _ _ _ (od_frame c _ _ F) TB).
  - rewrite Fc, Fb. intros H. destruct (NB H) as [H'|H']; [|exact H']. rewrite (proj1 FA) in H'. discriminate.
  - unfold due_inv, due. rewrite Fc, Fb, Fd, (fr_now _ _ F). intros H.
    assert (HcA : c < nscope sA) by (unfold sA, c; cbn; lia).
    destruct (sr_bydl _ _ _ (sr_scopes _ _ (srel_scope_enter sA c t0) c HcA) H) as [H'|(Q1 & Q2 & Q3)]; [|auto].
    rewrite (proj2 FA) in H'. discriminate.
Qed.

(* ====================================================================================================== *)
(* 4. what the helpers report                                                                               *)
(* ====================================================================================================== *)

(* cancelled_caught after `__exit__` (AExit with or without the fail_at wrapper) *)
Lemma aexit_caught s t c fa :
  idle s t = true ->
  let s0 := begin_act s t in
  s_caught (scopes (fst (step s (AExit t c fa))) c) =
  s_caught (scopes s c) || (exit_guards s0 c t && absorbed (snd (scope_exit s0 c t (k_held (tasks s0 t))))).
Proof.
  intros Hi s0. unfold step. cbn [actor]. rewrite Hi. cbn [negb]. unfold puppet_op. cbv zeta. fold s0.
  set (exc := k_held (tasks s0 t)).
  assert (K : s_caught (scopes (fst (scope_exit s0 c t exc)) c) =
              s_caught (scopes s c) || (exit_guards s0 c t && absorbed (snd (scope_exit s0 c t exc)))).
  { destruct (exit_guards s0 c t) eqn:G.
    - destruct (caught_iff_absorbed s0 c t exc G) as [K _]. rewrite K. reflexivity.
    - rewrite (scope_exit_guards_fail s0 c t exc G). cbn [fst snd andb]. now rewrite orb_false_r. }
  destruct (scope_exit s0 c t exc) as [s1 x]. cbn [fst snd] in K |- *. rewrite <- K.
  assert (Fr : forall a r, s_caught (scopes (fst (ret_to_puppet a t r)) c) = s_caught (scopes a c)).
  { intros a r. apply (tc_caught _ _ (fr_scopes _ _ (frame_ret a t r) c)). }
  destruct x; [|apply Fr|apply Fr].
  match goal with |- context [if ?b then _ else _] => destruct b end; rewrite Fr; reflexivity.
Qed.

Lemma absorbed_iff exc :
  absorbed (absorb_res exc) = true <-> only_anyio_cancel exc \/ exists r, anyio_cancel_and_rest exc r.
Proof.
  rewrite <- absorb_res_true. split.
  - destruct (absorb_res exc) as [| |r] eqn:E; [now left|discriminate|]. intros _. right. exists r. now apply absorb_res_raise.
  - intros [->|[r H]]; [reflexivity|]. apply absorb_res_raise in H. now rewrite H.
Qed.

Section Helpers.
  Context (pre : list op) (t0 : tid) (d0 : option Z) (sh : bool) (mid : list op).
  Let s1 := final step init pre.
  Let c := nscope s1.                                 (* the scope `fail_at` / `move_on_at` creates and enters *)
  Let s2 := fst (step s1 (AFailAt t0 d0 sh)).
  Let s := final step s2 mid.

  Hypothesis Hwf : wf_run init (pre ++ AFailAt t0 d0 sh :: mid).
  Hypothesis Hacc : idle s1 t0 = true.                (* the helper was really entered *)
  Hypothesis Hexp : no_explicit_cancel c mid = true.
  Hypothesis Hredl : no_redeadline c s2 mid = true.

  (* under the provisos: cancel_called <-> cancelled by the own deadline, and then the deadline has passed *)
  Lemma own_deadline_facts :
    (s_cancelled (scopes s c) = true <-> s_bydeadline (scopes s c) = true) /\
    (s_bydeadline (scopes s c) = true -> exists d, s_deadline (scopes s c) = Some d /\ (d <= now s)%Z).
  Proof.
    destruct (wf_run_split pre init _ Hwf) as [W1 W2]. fold s1 in W2.
    assert (R1 : reach_wf s1) by (exists pre; split; [exact W1|reflexivity]).
    destruct (failat_init s1 t0 d0 sh R1 Hacc) as (T2 & Q2 & D2). fold c s2 in T2, Q2, D2.
    destruct (own_run c mid s2 T2 Q2 Hexp) as [T Q]. fold s in T, Q.
    assert (Hc2 : c < nscope s2) by apply T2.
    pose proof (due_run c mid s2 Hc2 D2 Hredl) as D. fold s in D.
    split; [split; [exact Q|intros H; apply (D H)]|intros H; apply (D H)].
  Qed.

  (* TimeoutError is raised by `with fail_at(...)`  IFF  the scope was cancelled by its own deadline, no enclosing
     cancellation is visible at the exit, and the block ended with AnyIO cancellations only *)
  Theorem timeout_iff_own_deadline t :
    idle s t = true ->
    (snd (step s (AExit t c true)) = RExc ETimeout <->
     exit_guards (begin_act s t) c t = true /\ s_bydeadline (scopes s c) = true /\
     parent_visible s c = false /\ only_anyio_cancel (k_held (tasks s t))).
  Proof.
    intros Hi. destruct own_deadline_facts as [Q D]. rewrite (fail_at_timeout_iff' s t c Hi). split.
    - intros (A & B & C & E & _). rewrite Q in B. auto.
    - intros (A & B & C & E). refine (conj A (conj (proj2 Q B) (conj C (conj E (D B))))).
  Qed.

  (* cancelled_caught of a move_on scope after its exit: set before, or the scope was cancelled by its own deadline,
     no enclosing cancellation is visible at the exit, and the block ended with at least one AnyIO cancellation
     (alone, or in a group whose remainder is re-raised: the T2 case) *)
  Theorem move_on_caught_iff t fa :
    idle s t = true ->
    (s_caught (scopes (fst (step s (AExit t c fa))) c) = true <->
     s_caught (scopes s c) = true \/
     (exit_guards (begin_act s t) c t = true /\ s_bydeadline (scopes s c) = true /\ parent_visible s c = false /\
      (only_anyio_cancel (k_held (tasks s t)) \/ exists r, anyio_cancel_and_rest (k_held (tasks s t)) r))).
  Proof.
    intros Hi. destruct own_deadline_facts as [Q _]. rewrite (aexit_caught s t c fa Hi). set (sa := begin_act s t).
    assert (Hh : k_held (tasks sa t) = k_held (tasks s t)).
    { unfold sa, begin_act. cbn [set_running upd_task set_tasks tasks]. now rewrite upd_same. }
    assert (Pv : parent_visible sa c = parent_visible s c) by (apply parent_visible_ext; [reflexivity|intros x; auto]).
    rewrite Hh, orb_true_iff, andb_true_iff. apply or_iff_compat_l.
    destruct (exit_guards sa c t) eqn:G.
    - rewrite (scope_exit_result sa c t _ G), Pv. change (s_cancelled (scopes sa c)) with (s_cancelled (scopes s c)).
      destruct (s_cancelled (scopes s c)) eqn:Ec, (parent_visible s c) eqn:Ep; cbn [negb andb absorbed].
      + split; [intros [_ H]; discriminate|intros (_ & _ & H & _); discriminate].
      + rewrite absorbed_iff. split; [intros [_ H]; refine (conj eq_refl (conj (proj1 Q eq_refl) (conj eq_refl H)))|].
        intros (_ & _ & _ & H). auto.
      + split; [intros [_ H]; discriminate|intros (_ & _ & H & _); discriminate].
      + split; [intros [_ H]; discriminate|]. intros (_ & B & _). apply Q in B. discriminate.
    - split; [intros [H _]; discriminate|intros (H & _); discriminate].
  Qed.
End Helpers.

(* ====================================================================================================== *)
(* 5. the audit's T1 and T2 on record                                                                       *)
(* ====================================================================================================== *)

(* T1: the fail_at scope 2 (inside scope 1) is cancelled by its own deadline and the task is interrupted by it, but
   the enclosing scope 1 is cancelled before the block is left: no TimeoutError, cancelled_caught stays false, the
   cancellation propagates and the OUTER scope absorbs it.  All provisos hold (no cancel() of scope 2, no deadline
   reassignment); the conjunct that fails is `parent_visible = false`. *)
Definition t1_pre : list op := [ANewRoot; ANewScope 1 None false; AEnter 1 1].
Definition t1_mid : list op := [ASleep 1 None; ATick 5; ARun (HTimeout 2 1); AExtCancel 1].
Definition t1_state : st := final step init (t1_pre ++ AFailAt 1 (Some 5%Z) false :: t1_mid).

Example t1_enclosing_cancellation_hides_timeout :
  let c := nscope (final step init t1_pre) in
  let f := match k_waiter (tasks t1_state 1) with Some f => f | None => 0 end in
  let sa := fst (step t1_state (ARun (HWake 1 f))) in
  c = 2 /\ wf_run init (t1_pre ++ AFailAt 1 (Some 5%Z) false :: t1_mid) /\
  no_explicit_cancel c (t1_mid ++ [ARun (HWake 1 f)]) = true /\
  no_redeadline c (fst (step (final step init t1_pre) (AFailAt 1 (Some 5%Z) false))) (t1_mid ++ [ARun (HWake 1 f)]) = true /\
  snd (step t1_state (ARun (HWake 1 f))) = RExc (ECancel 3) /\          (* interrupted by scope 2's own deadline *)
  s_bydeadline (scopes sa 2) = true /\ parent_visible sa 2 = true /\
  snd (step sa (AExit 1 2 true)) = RRet 0 /\                            (* no TimeoutError, exception passes *)
  let sb := fst (step sa (AExit 1 2 true)) in
  s_caught (scopes sb 2) = false /\ k_held (tasks sb 1) = Some (ECancel 3) /\
  snd (step sb (AExit 1 1 false)) = RRet 1 /\                           (* the outer scope swallows it *)
  s_caught (scopes (fst (step sb (AExit 1 1 false))) 1) = true.
Proof. vm_compute. repeat split; try reflexivity; tauto. Qed.

(* T2: the block ends with a group holding the deadline cancellation and another error: cancelled_caught = True,
   but the remainder is re-raised instead of TimeoutError *)
Definition t2_mid : list op := [ASleep 1 None; ATick 5; ARun (HTimeout 1 1)].
Definition t2_state : st := final step init ([ANewRoot] ++ AFailAt 1 (Some 5%Z) false :: t2_mid).

Example t2_group_remainder_instead_of_timeout :
  let f := match k_waiter (tasks t2_state 1) with Some f => f | None => 0 end in
  let sa := final step t2_state [ARun (HWake 1 f); AWrap 1 7] in
  nscope (final step init [ANewRoot]) = 1 /\
  k_held (tasks sa 1) = Some (EGroup [ECancel 2; EErr 7]) /\ s_bydeadline (scopes sa 1) = true /\
  parent_visible sa 1 = false /\
  snd (step sa (AExit 1 1 true)) = RExc (EGroup [EErr 7]) /\
  s_caught (scopes (fst (step sa (AExit 1 1 true))) 1) = true.
Proof. vm_compute. repeat split; reflexivity. Qed.

(* non-vacuity of timeout_iff_own_deadline (both sides true): TimerThms.dl_fail_at_raises is the run
   [ANewRoot] ++ AFailAt 1 (Some 5) false :: [ASleep 1 None; ATick 5; ARun (HTimeout 1 1); ARun (HWake 1 f)] *)
Example own_deadline_provisos_witness :
  let f := match k_waiter (tasks t2_state 1) with Some f => f | None => 0 end in
  let mid := t2_mid ++ [ARun (HWake 1 f)] in
  wf_run init ([ANewRoot] ++ AFailAt 1 (Some 5%Z) false :: mid) /\
  idle (final step init [ANewRoot]) 1 = true /\
  no_explicit_cancel 1 mid = true /\
  no_redeadline 1 (fst (step (final step init [ANewRoot]) (AFailAt 1 (Some 5%Z) false))) mid = true /\
  let s := final step (fst (step (final step init [ANewRoot]) (AFailAt 1 (Some 5%Z) false))) mid in
  idle s 1 = true /\ snd (step s (AExit 1 1 true)) = RExc ETimeout.
Proof. vm_compute. repeat split; try reflexivity; tauto. Qed.
