(* Frame infrastructure for the S machine (scopes/Machine.v).
   The cancel-scope machinery (deliver, restart, scope_cancel, scope_enter, scope_exit, scope_timeout ...) is
   shown to be a composition of a few primitive moves ([kprim]); invariants are then proved once per primitive.
   [kstar C T] tracks which scopes (C) may change their active/host/parent fields and which tasks (T) may change
   their current-scope pointer. *)
From AV Require Import Base Machine.

Definition reach (s : st) : Prop := exists ops, s = final step init ops.

Lemma reach_step s o : reach s -> reach (fst (step s o)).
Proof. intros [ops ->]. exists (ops ++ [o]). rewrite final_app. reflexivity. Qed.

Lemma reach_init : reach init.
Proof. exists []. reflexivity. Qed.

(* ---------------- task views: the fields the group/kernel invariants look at ---------------- *)
(* a task-record transformer that only touches the cancellation counters / held exception / started flag *)
Definition tk_irrel (g : task -> task) : Prop :=
  forall k, k_ctl (g k) = k_ctl k /\ k_done (g k) = k_done k /\ k_waiter (g k) = k_waiter k /\
            k_cur (g k) = k_cur k /\ k_group (g k) = k_group k /\ k_hscope (g k) = k_hscope k /\
            k_hevent (g k) = k_hevent k /\ k_hexc (g k) = k_hexc k /\ k_hret (g k) = k_hret k /\
            k_startfut (g k) = k_startfut k /\ k_final (g k) = k_final k /\ k_tdran (g k) = k_tdran k.

Lemma irrel_ncancel n : tk_irrel (tk_ncancel n).
Proof. intros k. cbn. tauto. Qed.
Lemma irrel_must b m : tk_irrel (tk_must b m).
Proof. intros k. cbn. tauto. Qed.
Lemma irrel_held h : tk_irrel (tk_held h).
Proof. intros k. cbn. tauto. Qed.
Lemma irrel_started b : tk_irrel (tk_started b).
Proof. intros k. cbn. tauto. Qed.
Lemma irrel_uncancel : tk_irrel (fun k => tk_ncancel (pred (k_ncancel k)) k).
Proof. intros k. cbn. tauto. Qed.

(* a scope-record transformer that keeps active/host/parent and never un-cancels *)
Definition sc_keeps (g : scope -> scope) : Prop :=
  forall x, s_active (g x) = s_active x /\ s_host (g x) = s_host x /\ s_parent (g x) = s_parent x /\
            (s_cancelled x = true -> s_cancelled (g x) = true).

(* ---------------- primitive moves ---------------- *)
Inductive kprim (C : sid -> Prop) (T : tid -> Prop) : st -> st -> Prop :=
| kp_scope s c g : (C c \/ sc_keeps g) ->
                   (s_cancelled (scopes s c) = true -> s_cancelled (g (scopes s c)) = true) ->
                   kprim C T s (upd_scope s c g)
| kp_cancel s t o : kprim C T s (task_cancel s t o)
| kp_task s t g : tk_irrel g -> kprim C T s (upd_task s t g)
| kp_soon s c : kprim C T s (call_soon s (HDeliver c))
| kp_tcancel s tm : kprim C T s (timer_cancel s tm)
| kp_callat s w c : kprim C T s (fst (call_at s w (TScope c)))
| kp_cur s t x : T t -> kprim C T s (upd_task s t (tk_cur x)).

Inductive kstar (C : sid -> Prop) (T : tid -> Prop) : st -> st -> Prop :=
| ks_refl s : kstar C T s s
| ks_snoc s1 s2 s3 : kstar C T s1 s2 -> kprim C T s2 s3 -> kstar C T s1 s3.

Lemma ks_one C T s s' : kprim C T s s' -> kstar C T s s'.
Proof. intros H. eapply ks_snoc; [apply ks_refl|exact H]. Qed.

Lemma ks_trans C T s1 s2 s3 : kstar C T s1 s2 -> kstar C T s2 s3 -> kstar C T s1 s3.
Proof.
  intros H1 H2. revert H1. induction H2 as [|a b c Hab IH Hbc]; intros H1; [exact H1|].
  eapply ks_snoc; [apply IH, H1|exact Hbc].
Qed.

Lemma kprim_weaken (C C' : sid -> Prop) (T T' : tid -> Prop) s s' :
  (forall c, C c -> C' c) -> (forall t, T t -> T' t) -> kprim C T s s' -> kprim C' T' s s'.
Proof.
  intros HC HT H. destruct H.
  - apply kp_scope; [|assumption]. destruct H; [left; auto|right; auto].
  - apply kp_cancel.
  - apply kp_task; assumption.
  - apply kp_soon.
  - apply kp_tcancel.
  - apply kp_callat.
  - apply kp_cur. auto.
Qed.

Lemma kstar_weaken (C C' : sid -> Prop) (T T' : tid -> Prop) s s' :
  (forall c, C c -> C' c) -> (forall t, T t -> T' t) -> kstar C T s s' -> kstar C' T' s s'.
Proof.
  intros HC HT H. induction H; [apply ks_refl|].
  eapply ks_snoc; [eassumption|]. eapply kprim_weaken; eauto.
Qed.

Definition none_s : sid -> Prop := fun _ => False.
Definition none_t : tid -> Prop := fun _ => False.

Lemma kstar_none C T s s' : kstar none_s none_t s s' -> kstar C T s s'.
Proof. apply kstar_weaken; intros ? []. Qed.

(* ---------------- sc_keeps instances ---------------- *)
Lemma keeps_timeout t : sc_keeps (sc_timeout t).
Proof. intros x. cbn. tauto. Qed.
Lemma keeps_chandle b : sc_keeps (sc_chandle b).
Proof. intros x. cbn. tauto. Qed.
Lemma keeps_pending_fun (f : scope -> nat) : sc_keeps (fun c => sc_pending (f c) c).
Proof. intros x. cbn. tauto. Qed.
Lemma keeps_pending n : sc_keeps (sc_pending n).
Proof. intros x. cbn. tauto. Qed.
Lemma keeps_caught b : sc_keeps (sc_caught b).
Proof. intros x. cbn. tauto. Qed.
Lemma keeps_shield b : sc_keeps (sc_shield b).
Proof. intros x. cbn. tauto. Qed.
Lemma keeps_deadline d : sc_keeps (sc_deadline d).
Proof. intros x. cbn. tauto. Qed.
Lemma keeps_cancel b : sc_keeps (fun x => sc_bydeadline b (sc_cancelled true x)).
Proof. intros x. cbn. tauto. Qed.
Lemma keeps_tasks (f : scope -> list tid) : sc_keeps (fun x => sc_tasks (f x) x).
Proof. intros x. cbn. tauto. Qed.
Lemma keeps_tasks_children (f g : scope -> list nat) :
  sc_keeps (fun x => sc_tasks (f x) (sc_children (g x) x)).
Proof. intros x. cbn. tauto. Qed.

Lemma kp_scope_keeps C T s c g : sc_keeps g -> kprim C T s (upd_scope s c g).
Proof. intros H. apply kp_scope; [right; exact H|]. apply H. Qed.

Ltac ks_keeps := eapply ks_one, kp_scope_keeps;
  first [ apply keeps_timeout | apply keeps_chandle | apply keeps_pending_fun | apply keeps_pending
        | apply keeps_caught | apply keeps_shield | apply keeps_deadline | apply keeps_cancel
        | apply keeps_tasks | apply keeps_tasks_children ].

(* ---------------- the scope machinery is made of primitive moves ---------------- *)
Lemma ks_cancel_timeout C T s c : kstar C T s (cancel_timeout s c).
Proof.
  unfold cancel_timeout. destruct (s_timeout (scopes s c)) as [tm|]; [|apply ks_refl].
  eapply ks_trans; [apply ks_one, kp_tcancel|]. ks_keeps.
Qed.

Lemma ks_deliver_task C T self origin a r t :
  kstar C T a (fst (deliver_task self origin (a, r) t)).
Proof.
  unfold deliver_task.
  destruct (k_done (tasks a t)); [apply ks_refl|].
  destruct (k_must (tasks a t)); [apply ks_refl|].
  destruct (negb (opt_eqb (running a) t) && _); [|apply ks_refl].
  destruct (match k_waiter (tasks a t) with Some f => fut_pending a f | None => true end); [|apply ks_refl].
  cbn [fst].
  destruct (opt_eqb (s_host (scopes (task_cancel a t (S origin)) origin)) t).
  - eapply ks_trans; [apply ks_one, kp_cancel|]. ks_keeps.
  - apply ks_one, kp_cancel.
Qed.

Lemma ks_fold {X} C T (f : st * bool -> X -> st * bool) :
  (forall a r x, kstar C T a (fst (f (a, r) x))) ->
  forall l a r, kstar C T a (fst (fold_left f l (a, r))).
Proof.
  intros Hf l. induction l as [|x l IH]; intros a r; cbn [fold_left]; [apply ks_refl|].
  destruct (f (a, r) x) as [a' r'] eqn:E.
  eapply ks_trans; [|apply IH]. specialize (Hf a r x). now rewrite E in Hf.
Qed.

Lemma ks_deliver C T fuel : forall s self origin, kstar C T s (fst (deliver fuel s self origin)).
Proof.
  induction fuel as [|fu IH]; intros s self origin; cbn [deliver]; [apply ks_refl|].
  destruct (fold_left (deliver_task self origin) (s_tasks (scopes s self)) (s, false)) as [s1 r1] eqn:E1.
  assert (K1 : kstar C T s s1).
  { pose proof (ks_fold C T (deliver_task self origin) (ks_deliver_task C T self origin)
                  (s_tasks (scopes s self)) s false) as H. now rewrite E1 in H. }
  match goal with |- context [fold_left ?f ?l (s1, r1)] =>
    destruct (fold_left f l (s1, r1)) as [s2 r2] eqn:E2;
    assert (K2 : kstar C T s1 s2);
    [ pose proof (ks_fold C T f) as H; specialize (fun Hf => H Hf l s1 r1); rewrite E2 in H; apply H | ]
  end.
  { intros a r c. destruct (negb (s_shield (scopes a c)) && negb (s_cancelled (scopes a c))); [|apply ks_refl].
    specialize (IH a c origin). destruct (deliver fu a c origin) as [a' r']. exact IH. }
  destruct (Nat.eqb origin self).
  - destruct r2; cbn [fst].
    + eapply ks_trans; [exact K1|]. eapply ks_trans; [exact K2|].
      eapply ks_trans; [|apply ks_one, kp_soon]. ks_keeps.
    + eapply ks_trans; [exact K1|]. eapply ks_trans; [exact K2|]. ks_keeps.
  - cbn [fst]. eapply ks_trans; eassumption.
Qed.

Lemma ks_deliver_top C T s c : kstar C T s (deliver_top s c).
Proof. apply ks_deliver. Qed.

Lemma ks_restart_from C T fuel : forall s x, kstar C T s (restart_from fuel s x).
Proof.
  induction fuel as [|fu IH]; intros s x; cbn [restart_from]; [apply ks_refl|].
  destruct x as [c|]; [|apply ks_refl].
  destruct (s_cancelled (scopes s c)).
  - destruct (s_chandle (scopes s c)); [apply ks_refl|apply ks_deliver_top].
  - destruct (s_shield (scopes s c)); [apply ks_refl|apply IH].
Qed.

Lemma ks_restart C T s x : kstar C T s (restart s x).
Proof. apply ks_restart_from. Qed.

Lemma ks_scope_cancel C T s c b : kstar C T s (scope_cancel s c b).
Proof.
  unfold scope_cancel. destruct (s_cancelled (scopes s c)); [apply ks_refl|].
  set (s2 := upd_scope (cancel_timeout s c) c _).
  assert (K : kstar C T s s2).
  { eapply ks_trans; [apply ks_cancel_timeout|]. ks_keeps. }
  destruct (s_host (scopes s2 c)); [|exact K].
  eapply ks_trans; [exact K|apply ks_deliver_top].
Qed.

Lemma ks_scope_timeout C T s c : kstar C T s (scope_timeout s c).
Proof.
  unfold scope_timeout. destruct (s_deadline (scopes s c)) as [d|]; [|apply ks_refl].
  destruct (Z.leb d (now s)); [apply ks_scope_cancel|].
  destruct (call_at s d (TScope c)) as [s1 tm] eqn:E.
  eapply ks_trans; [apply ks_one; pose proof (kp_callat C T s d c) as H; rewrite E in H; exact H|].
  ks_keeps.
Qed.

Lemma ks_iter_uncancel C T n t : forall s, kstar C T s (iter n (fun a => task_uncancel a t) s).
Proof.
  induction n as [|n IH]; intros s; cbn [iter]; [apply ks_refl|].
  eapply ks_trans; [|apply IH]. apply ks_one. unfold task_uncancel. apply kp_task, irrel_uncancel.
Qed.

Lemma kp_scope_at (C : sid -> Prop) T s c g : C c ->
  (s_cancelled (scopes s c) = true -> s_cancelled (g (scopes s c)) = true) ->
  kprim C T s (upd_scope s c g).
Proof. intros H H2. apply kp_scope; [left; exact H|exact H2]. Qed.

Ltac ks_at := apply kp_scope_at; [reflexivity|cbn; auto].
Ltac ks_peel tac := eapply ks_snoc; [|tac].

Lemma ks_scope_enter s c t :
  kstar (eq c) (eq t) s (fst (scope_enter s c t)).
Proof.
  unfold scope_enter. destruct (s_active (scopes s c)); [apply ks_refl|]. cbn [fst].
  match goal with |- kstar _ _ _ (if _ then deliver_top ?x _ else _) => set (s5 := x) end.
  assert (K : kstar (eq c) (eq t) s s5).
  { unfold s5. ks_peel ks_at.
    eapply ks_trans; [|apply ks_scope_timeout].
    assert (K2 : kstar (eq c) (eq t) s (upd_task (upd_scope s c (fun x : scope =>
                   sc_parent (k_cur (tasks s t)) (sc_tasks (add t (s_tasks x)) (sc_host (Some t) x))))
                   t (tk_cur (Some c)))).
    { ks_peel ltac:(apply kp_cur; reflexivity). apply ks_one. ks_at. }
    destruct (k_cur (tasks s t)) as [p|]; [|exact K2].
    eapply ks_trans; [exact K2|]. ks_keeps. }
  destruct (s_cancelled (scopes s5 c)); [|exact K].
  eapply ks_trans; [exact K|apply ks_deliver_top].
Qed.

Lemma ks_scope_exit s c t exc :
  kstar (eq c) (eq t) s (fst (scope_exit s c t exc)).
Proof.
  unfold scope_exit.
  destruct (negb (s_active (scopes s c))); [apply ks_refl|].
  destruct (negb (opt_eqb (s_host (scopes s c)) t)); [apply ks_refl|].
  destruct (negb (opt_eqb (k_cur (tasks s t)) c)); [apply ks_refl|].
  match goal with |- context [restart ?x ?p] => set (s4 := x); set (s5 := restart s4 p) end.
  assert (K5 : kstar (eq c) (eq t) s s5).
  { unfold s5. eapply ks_trans; [|apply ks_restart]. unfold s4.
    ks_peel ltac:(apply kp_cur; reflexivity).
    assert (K2 : kstar (eq c) (eq t) s
              (upd_scope (cancel_timeout (upd_scope s c (sc_active false)) c) c
                 (fun x : scope => sc_tasks (del t (s_tasks x)) x))).
    { eapply ks_trans; [|ks_keeps]. eapply ks_trans; [|apply ks_cancel_timeout]. apply ks_one. ks_at. }
    destruct (s_parent (scopes s c)) as [p|]; [|exact K2].
    eapply ks_trans; [exact K2|]. ks_keeps. }
  assert (Kfin : forall a, kstar (eq c) (eq t) a (upd_scope a c (sc_host None))).
  { intros a. apply ks_one. ks_at. }
  assert (Kcaught : forall a, kstar (eq c) (eq t) a (upd_scope a c (sc_caught true))).
  { intros a. ks_keeps. }
  assert (K6 : forall n, kstar (eq c) (eq t) s5
                 (upd_scope (iter n (fun a => task_uncancel a t) s5) c (sc_pending 0))).
  { intros n. eapply ks_trans; [apply ks_iter_uncancel|]. ks_keeps. }
  destruct (s_cancelled (scopes s5 c) && negb (parent_visible s5 c)).
  - set (s6 := upd_scope (iter _ _ s5) c (sc_pending 0)).
    assert (K : kstar (eq c) (eq t) s s6) by (eapply ks_trans; [exact K5|apply K6]).
    destruct exc as [e|].
    + destruct e as [o|n| | |l].
      1-4: destruct (is_anyio_cancel _); cbn [fst];
           repeat (eapply ks_trans; [|apply Kfin]); try (eapply ks_trans; [|apply Kcaught]); exact K.
      destruct (split_exn (EGroup l)) as [[m|] [r|]]; cbn [fst];
        repeat (eapply ks_trans; [|apply Kfin]); try (eapply ks_trans; [|apply Kcaught]); exact K.
    + cbn [fst]. eapply ks_trans; [|apply Kfin]. exact K.
  - cbn [fst]. eapply ks_trans; [|apply Kfin]. eapply ks_trans; [exact K5|].
    destruct (Nat.eqb (s_pending (scopes s5 c)) 0); [apply ks_refl|].
    destruct (s_parent (scopes s c)) as [p|]; [|apply K6].
    destruct (opt_eqb (s_host (scopes s5 p)) t); [|apply K6].
    eapply ks_trans; [|ks_keeps]. ks_keeps.
Qed.
