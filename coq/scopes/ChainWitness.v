(* Non-vacuity witnesses (vm_compute) for the reach_ok request-time theorems of C04: a reachable state of the
   generated domain in which the delivery run of a cancelled scope really changes a task record, two scopes below
   the cancelled one. *)
From AV Require Import Base Machine ScopeFrames DeliverInv TreeInv DeliverAlive PotentialInv TreeStep.
From AV Require Import ChainFrame ChainThms ChainReach ChainWindow.

(* task 1 sits in scope 3 inside scope 2 inside scope 1, cancels scope 1 itself (the delivery skips the running
   task and re-schedules itself) and then yields: the pending HDeliver 1 will now cancel it *)
Definition rq_ops : list op :=
  [ANewRoot; ANewScope 1 None false; AEnter 1 1; ANewScope 1 None false; AEnter 1 2; ANewScope 1 None false;
   AEnter 1 3; ACancel 1 1; AYield 1].
Definition rq_state : st := final step init rq_ops.

Example request_reach_witness :
  reach_ok rq_state /\ s_cancelled (scopes rq_state 1) = true /\ In (HDeliver 1) (ready rq_state) /\
  tasks (deliver_top rq_state 1) 1 <> tasks rq_state 1 /\
  k_must (tasks rq_state 1) = false /\ k_must (tasks (deliver_top rq_state 1) 1) = true /\
  (* what the theorems conclude, checked independently *)
  k_cur (tasks rq_state 1) = Some 3 /\ eff_cancelled rq_state 3 = true /\ s_shield (scopes rq_state 3) = false /\
  vpath rq_state 1 3 2 /\ up rq_state 3 2 = Some 1 /\
  s_cancelled (scopes rq_state 3) = false /\ s_cancelled (scopes rq_state 2) = false /\
  s_shield (scopes rq_state 2) = false.
Proof.
  assert (M : k_must (tasks rq_state 1) = false /\ k_must (tasks (deliver_top rq_state 1) 1) = true)
    by (split; vm_compute; reflexivity).
  split; [exists rq_ops; split; [vm_compute; reflexivity|reflexivity]|].
  split; [vm_compute; reflexivity|]. split; [vm_compute; tauto|].
  split; [intros E; destruct M as [M1 M2]; rewrite E in M2; congruence|].
  split; [apply M|]. split; [apply M|].
  split; [vm_compute; reflexivity|]. split; [vm_compute; reflexivity|]. split; [vm_compute; reflexivity|].
  split.
  - apply (vp_step rq_state 1 2 3 1); [vm_compute; tauto|vm_compute; reflexivity|vm_compute; reflexivity|].
    apply (vp_step rq_state 2 3 3 0); [vm_compute; tauto|vm_compute; reflexivity|vm_compute; reflexivity|].
    apply vp_refl.
  - repeat split; vm_compute; reflexivity.
Qed.
