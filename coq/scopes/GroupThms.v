(* C01 / C02 / C07 clauses as theorems over every op sequence of the S machine (scopes/Machine.v).
   Part 1: consequences of the invariant in a single reachable state. *)
From AV Require Import Base Machine GroupInv GroupInv2 GroupInv3 GroupInv4 GroupInv9.

Lemma reach_inv s : reach s -> Inv s.
Proof. apply reachable. Qed.

(* ------------------------------------------------------------------------------------------------ *)
(* C01: a finished task never runs again *)
Theorem no_step_after_done s t : reach s -> k_done (tasks s t) <> None ->
  k_ctl (tasks s t) = CDone /\ running s <> Some t /\ idle s t = false /\
  (forall h, In h (ready s) -> h <> HStep t /\ forall f, h <> HWake t f) /\
  (forall o, actor o = Some t -> step s o = (s, RRejected)).
Proof.
  intros R Hd. destruct (reach_inv s R) as [[K Ci G J] Hrun].
  pose proof (c_done1 s Ci t Hd) as Hc.
  assert (Hi : idle s t = false) by (unfold idle; rewrite Hc; reflexivity).
  refine (conj Hc (conj _ (conj Hi (conj _ _)))).
  - rewrite Hrun. discriminate.
  - intros h Hh. split.
    + intros ->. destruct (k_step s K t Hh) as [_ [H _]]. contradiction.
    + intros f ->. destruct (k_wake s K t f Hh) as [H _]. destruct (k_w1 s K t f H) as [_ [H2 _]]. contradiction.
  - intros o Ho. unfold step. rewrite Ho, Hi. reflexivity.
Qed.

(* done and task_done-ran are stable facts of a state: they can only be established, never retracted
   (stated on the invariant: a done task is in CDone, which no operation leaves) *)
Theorem done_iff_cdone s t : reach s -> 0 < t < ntask s ->
  (k_done (tasks s t) <> None <-> k_ctl (tasks s t) = CDone).
Proof.
  intros R Hal. destruct (reach_inv s R) as [[K Ci G J] Hrun]. split.
  - apply (c_done1 s Ci t).
  - apply (c_done2 s Ci t). exact Hal.
Qed.

(* C01: the handle of a group child reports how its coroutine actually ended *)
Definition status_code (o : outcome) : Z :=
  match o with
  | ORet _ => 3%Z                                  (* FINISHED *)
  | OExc e => if is_cancel e then 5%Z else 4%Z     (* CANCELLED / FAILED *)
  | OCanc _ => 5%Z
  end.

Theorem handle_outcome_faithful s t o : reach s -> k_group (tasks s t) <> None ->
  k_final (tasks s t) = Some o ->
  e_set (events s (k_hevent (tasks s t))) = true /\
  match o with
  | ORet v => k_hret (tasks s t) = Some v /\ k_hexc (tasks s t) = None
  | OExc e => k_hexc (tasks s t) = Some e /\ k_hret (tasks s t) = None
  | OCanc _ => False
  end /\
  handle_status s (tasks s t) = status_code o.
Proof.
  intros R Hg Hf. destruct (reach_inv s R) as [[K Ci G J] Hrun].
  destruct (h_fin s Ci t o Hg Hf) as [H1 H2]. refine (conj H1 (conj H2 _)).
  unfold handle_status. destruct (k_group (tasks s t)); [|contradiction]. rewrite H1. cbn [negb].
  destruct o as [v|e|e]; cbn in H2.
  - destruct H2 as [_ ->]. reflexivity.
  - destruct H2 as [-> _]. reflexivity.
  - contradiction.
Qed.

(* a done group child whose coroutine never ended (k_final = None) was cancelled before its first step:
   its outcome is a cancellation and its handle stays without a result (the finished event is never set) *)
Theorem done_without_finish_is_cancelled s t : reach s -> k_done (tasks s t) <> None ->
  k_final (tasks s t) = None ->
  (exists e, k_done (tasks s t) = Some (OCanc e) /\ is_cancel e = true) /\
  k_hexc (tasks s t) = None /\ k_hret (tasks s t) = None /\
  (k_group (tasks s t) <> None -> e_set (events s (k_hevent (tasks s t))) = false).
Proof.
  intros R Hd Hf. destruct (reach_inv s R) as [[K Ci G J] Hrun].
  destruct (h_done s Ci t Hd Hf) as [e He]. destruct (h_nofin s Ci t Hf) as [H1 H2].
  refine (conj _ (conj H1 (conj H2 _))).
  - exists e. split; [exact He|]. apply (c_oc s Ci t e), He.
  - intros Hg. destruct (e_set (events s (k_hevent (tasks s t)))) eqn:E; [|reflexivity].
    exfalso. apply (e_hev s J t Hg E). exact Hf.
Qed.

(* every done child has its finished event set, except in the case above *)
Theorem done_child_finished_or_never_started s t : reach s -> k_group (tasks s t) <> None ->
  k_done (tasks s t) <> None ->
  (exists o, k_final (tasks s t) = Some o /\ e_set (events s (k_hevent (tasks s t))) = true) \/
  (k_final (tasks s t) = None /\ exists e, k_done (tasks s t) = Some (OCanc e)).
Proof.
  intros R Hg Hd. destruct (reach_inv s R) as [[K Ci G J] Hrun].
  destruct (k_final (tasks s t)) as [o|] eqn:Ef.
  - left. exists o. split; [reflexivity|]. apply (h_fin s Ci t o Hg Ef).
  - right. split; [reflexivity|]. apply (h_done s Ci t Hd Ef).
Qed.

(* C01: membership bookkeeping: g_tasks = members whose task_done has not run *)
Theorem group_tasks_are_pending_members s g t : reach s ->
  (In t (g_tasks (groups s g)) <-> In t (g_ever (groups s g)) /\ k_tdran (tasks s t) = false).
Proof. intros R. destruct (reach_inv s R) as [[K Ci G J] Hrun]. apply (g_mem s G g t). Qed.

(* once the group's task list is empty every member is done and its task_done callback ran *)
Theorem empty_group_all_joined s g : reach s -> g_tasks (groups s g) = [] ->
  forall t, In t (g_ever (groups s g)) -> k_done (tasks s t) <> None /\ k_tdran (tasks s t) = true.
Proof.
  intros R He t Ht. destruct (reach_inv s R) as [[K Ci G J] Hrun].
  assert (Htd : k_tdran (tasks s t) = true).
  { destruct (k_tdran (tasks s t)) eqn:E; [reflexivity|]. exfalso.
    assert (H : In t (g_tasks (groups s g))) by (apply (g_mem s G g t); auto). rewrite He in H. exact H. }
  split; [apply (c_td s Ci t Htd)|exact Htd].
Qed.

(* ------------------------------------------------------------------------------------------------ *)
(* C02: the exception list of a group *)
Theorem group_excs_exactly_member_errors s g : reach s ->
  NoDup (filter (fun x => negb (Nat.eqb x 0)) (map fst (g_excs (groups s g)))) /\
  (forall t e, In (t, e) (g_excs (groups s g)) -> t <> 0 ->
     k_group (tasks s t) = Some g /\ k_tdran (tasks s t) = true /\ k_done (tasks s t) = Some (OExc e) /\
     is_cancel e = false) /\
  (forall e, In (0, e) (g_excs (groups s g)) -> is_cancel e = false) /\
  (forall t e, In t (g_ever (groups s g)) -> k_tdran (tasks s t) = true -> k_done (tasks s t) = Some (OExc e) ->
     is_cancel e = false /\
     (In (t, e) (g_excs (groups s g)) \/
      exists f, k_startfut (tasks s t) = Some f /\ f_st (futs s f) = FExc e)).
Proof.
  intros R. destruct (reach_inv s R) as [[K Ci G J] Hrun].
  refine (conj (x_nd s G g) (conj _ (conj (x_zero s G g) _))).
  - intros t e H Ht. destruct (x_tags s G g t e H Ht) as [H1 [H2 H3]].
    refine (conj H1 (conj H2 (conj H3 _))). apply (c_oc s Ci t e), H3.
  - intros t e H1 H2 H3. split; [apply (c_oc s Ci t e), H3|apply (x_conv s G g t e H1 H2 H3)].
Qed.

(* the outcome classes are disjoint: OExc never carries a cancellation, OCanc always does *)
Theorem outcome_classes s t e : reach s ->
  (k_done (tasks s t) = Some (OCanc e) -> is_cancel e = true) /\
  (k_done (tasks s t) = Some (OExc e) -> is_cancel e = false).
Proof. intros R. destruct (reach_inv s R) as [[K Ci G J] Hrun]. apply (c_oc s Ci t e). Qed.

(* C02: what __aexit__ raises when the list is not empty (definition-level) *)
Theorem group_raises_group_of_excs s t g exc : map snd (g_excs (groups s g)) <> [] ->
  aexit_finish s t g exc = aexit_raise s t g (EGroup (map snd (g_excs (groups s g)))).
Proof. intros H. unfold aexit_finish. destruct (map snd (g_excs (groups s g))); [contradiction|reflexivity]. Qed.

Theorem group_raises_body_exc_if_no_errors s t g e : g_excs (groups s g) = [] ->
  aexit_finish s t g (Some e) = aexit_raise s t g e.
Proof. intros H. unfold aexit_finish. rewrite H. reflexivity. Qed.

(* C07: corollary of the converse clause: a member's error is never lost *)
Theorem start_no_error_lost s g t e : reach s -> In t (g_ever (groups s g)) ->
  k_tdran (tasks s t) = true -> k_done (tasks s t) = Some (OExc e) ->
  In e (map snd (g_excs (groups s g))) \/
  exists f, k_startfut (tasks s t) = Some f /\ f_st (futs s f) = FExc e.
Proof.
  intros R H1 H2 H3. destruct (group_excs_exactly_member_errors s g R) as [_ [_ [_ H]]].
  destruct (H t e H1 H2 H3) as [_ [Hin|Hf]]; [left|right; exact Hf].
  apply in_map_iff. exists (t, e). auto.
Qed.
