(* Non-vacuity witnesses asked for by the second audit (hunt/audit2.md, item 15 and sections C03/C04/C05): concrete
   runs of the generated domain on which the hypotheses of the run-level / per-op theorems hold and their
   conclusions are visible.  Everything is computed (vm_compute) on states reached from init. *)
From Coq Require Import ZArith Lia.
From AV Require Import Base Machine ScopeFrames DeliverInv TreeInv DeliverAlive PotentialInv TreeStep KernelInv
  PotentialThms DebtInv DebtThms CycleThms CycleMore ActWalk ActThms ChainWindow ReceiptWalk ReceiptRun NativeHonoured NativeAbsorbed.

Ltac vc := vm_compute; reflexivity.

(* ====================================================================================================== *)
(* C04                                                                                                      *)
(* ====================================================================================================== *)
(* task 1 enters scopes 1 > 2 and sleeps (future 6); scope 1 is cancelled from a callback; a new root task appears;
   then task 1's wake-up is run *)
Definition rw_pre : list op :=
  [ANewRoot; ANewScope 1 None false; AEnter 1 1; ANewScope 1 None false; AEnter 1 2; ASleep 1 None].
Definition rw_ops : list op := rw_pre ++ [AExtCancel 1; ANewRoot].

Lemma rw_ok : ops_ok init rw_ops = true. Proof. vc. Qed.
Lemma rw_pre_ok : ops_ok init rw_pre = true. Proof. vc. Qed.
Lemma rw_pre1_ok : ops_ok init (rw_pre ++ [AExtCancel 1]) = true. Proof. vc. Qed.

(* (a): the op AExtCancel 1 does not affect task 1; before it task 1 holds no request, after it it holds one tagged
   with scope 1, and scope 1 is cancelled and visible from its current scope 2 in the state after the op *)
Example request_only_by_visible_delivery_witness :
  let a := final step init rw_pre in
  let b := fst (step a (AExtCancel 1)) in
  ops_ok init rw_pre = true /\ op_ok a (AExtCancel 1) = true /\ ~ In 1 (aff a (AExtCancel 1)) /\
  Held b 1 1 /\ ~ Held a 1 1 /\ ~ OC a 1 1 /\ OC b 1 1.
Proof.
  cbv zeta. split; [vc|]. split; [vc|]. split; [intros H; vm_compute in H; exact H|].
  split; [right; exists 6; split; vc|].
  split.
  { intros [[A _]|[f [A B]]].
    - assert (E : k_must (tasks (final step init rw_pre) 1) = false) by vc. rewrite E in A. discriminate A.
    - assert (E : k_waiter (tasks (final step init rw_pre) 1) = Some 6) by vc. rewrite E in A. injection A as <-.
      assert (E2 : f_st (futs (final step init rw_pre) 6) = FPend) by vc. rewrite E2 in B. discriminate B. }
  split.
  { intros [x [_ [_ C]]]. assert (E : s_cancelled (scopes (final step init rw_pre) 1) = false) by vc.
    rewrite E in C. discriminate C. }
  exists 2. split; [vc|]. split; [|vc].
  apply (vis_up _ 1 2 1); [vc|vc|vc|apply vis_here].
Qed.

(* (b) on the same step: its premises hold for task 1 *)
Example suspended_task_frame_witness :
  let a := final step init rw_pre in
  let b := fst (step a (AExtCancel 1)) in
  ops_ok init rw_pre = true /\ op_ok a (AExtCancel 1) = true /\ 1 < ntask a /\ ~ In 1 (aff a (AExtCancel 1)) /\
  k_cur (tasks b 1) = Some 2 /\ k_cur (tasks a 1) = Some 2 /\
  s_active (scopes a 2) = true /\ s_parent (scopes b 2) = Some 1 /\ s_parent (scopes a 2) = Some 1 /\
  s_cancelled (scopes a 1) = false /\ s_cancelled (scopes b 1) = true.
Proof.
  cbv zeta. split; [vc|]. split; [vc|]. split; [vm_compute; lia|]. split; [intros H; vm_compute in H; exact H|].
  repeat split; vc.
Qed.

(* the affected-task theorem: task 1, holding the request and not yet run, tries to act (AYield 1); the op is
   rejected (the task is not at a decision point) and changes nothing -- the `Same` disjunct.  (The other disjunct
   bounds what a freshly created task can hold; in the model a delivery skips a task that has not started, no run
   with a created task holding a request is known.) *)
Example request_of_affected_task_witness :
  let a := final step init (rw_pre ++ [AExtCancel 1]) in
  ops_ok init (rw_pre ++ [AExtCancel 1]) = true /\ op_ok a (AYield 1) = true /\ MP a /\ In 1 (aff a (AYield 1)) /\
  Held (fst (step a (AYield 1))) 1 1 /\ k_done (tasks (fst (step a (AYield 1))) 1) = None /\
  Same a (fst (step a (AYield 1))).
Proof.
  cbv zeta. split; [vc|]. split; [vc|]. split; [apply (reach_mp _ rw_pre1_ok)|]. split; [now left|].
  split; [right; exists 6; split; vc|]. split; [vc|].
  assert (E : fst (step (final step init (rw_pre ++ [AExtCancel 1])) (AYield 1)) = final step init (rw_pre ++ [AExtCancel 1])).
  { cbn [step actor]. assert (Ei : idle (final step init (rw_pre ++ [AExtCancel 1])) 1 = false) by vc. now rewrite Ei. }
  rewrite E. repeat split; reflexivity.
Qed.

(* a recorded request next to a wait: F19's history up to the native request (7 ops): _must_cancel is set while the
   task still waits on future 4 -- which is not pending (the scope's delivery cancelled it) *)
Example request_excludes_pending_wait_witness :
  let s := final step init (firstn 7 f19_ops) in
  ops_ok init (firstn 7 f19_ops) = true /\
  k_must (tasks s 1) = true /\ k_waiter (tasks s 1) = Some 4 /\ f_st (futs s 4) = FCanc 2.
Proof. vm_compute. repeat split; reflexivity. Qed.

(* the run-level window: the receipt of task 1 at the end of rw_ops is a request placed by the delivery run of
   AExtCancel 1: prefix = rw_pre ++ [AExtCancel 1] (7 of 8 ops), x = 2, n = 1, org = 1; the first disjunct of
   C04_receipt_visible_unless_shield_raised is false (the future was cancelled, it carries no exception), the
   second holds with a non-trivial prefix and the walk at receipt still finds the cancelled scope *)
Example receipt_window_witness :
  let pre := rw_pre ++ [AExtCancel 1] in let post := [ANewRoot] in
  let s0 := final step init pre in let s1 := final step init rw_ops in
  ops_ok init rw_ops = true /\ receives s1 (HWake 1 6) 1 1 /\
  snd (step s1 (ARun (HWake 1 6))) = RExc (ECancel 2) /\
  f_st (futs s1 6) = FCanc 2 /\
  rw_ops = pre ++ post /\
  k_cur (tasks s0 1) = Some 2 /\ k_cur (tasks s1 1) = Some 2 /\ up s0 2 1 = Some 1 /\
  s_cancelled (scopes s0 1) = true /\
  (forall j y, j < 1 -> up s0 2 j = Some y -> s_cancelled (scopes s0 y) = false /\ s_shield (scopes s0 y) = false) /\
  eff_cancelled s1 2 = true.
Proof.
  cbv zeta. split; [vc|]. split.
  { split; [vm_compute; now left|]. right. exists 6. split; [reflexivity|vc]. }
  split; [vc|]. split; [vc|]. split; [vc|]. split; [vc|]. split; [vc|]. split; [vc|]. split; [vc|]. split; [|vc].
  intros j y Hj Hy. assert (j = 0) by lia. subst j. cbn [up] in Hy. injection Hy as <-. split; vc.
Qed.

(* ====================================================================================================== *)
(* C05: a native request with other tasks acting between the request and the receipt                        *)
(* ====================================================================================================== *)
(* task 1 sleeps (future 2); Task.cancel() on it; then a second root task appears, creates and enters scope 1,
   cancels it, the scope's delivery callback runs (it cancels task 2's own wait), time passes; task 1 is in aff of
   none of these ops; its wake-up then raises the native CancelledError *)
Definition nat_ops : list op :=
  [ANewRoot; ANewScope 2 None false; AEnter 2 1; ACancel 2 1; ARun (HDeliver 1); ATick 3].

Lemma nat_a_ok : ops_ok init nat_pre = true. Proof. vc. Qed.

Lemma nat_unaffected :
  unaffected 1 (fst (step (final step init nat_pre) (ANativeCancel 1))) nat_ops.
Proof.
  unfold nat_ops. cbn [unaffected].
  repeat split; try (intros H; vm_compute in H; destruct H as [H|H]; [discriminate H|exact H]);
    try (intros H; vm_compute in H; exact H).
Qed.

Example native_request_run_premises :
  let a := final step init nat_pre in
  let a1 := fst (step a (ANativeCancel 1)) in
  let s := final step a1 nat_ops in
  ops_ok init nat_pre = true /\ k_done (tasks a 1) = None /\ 1 < ntask a /\ wait_cancelled_by_scope a 1 = false /\
  ops_ok a1 nat_ops = true /\ unaffected 1 a1 nat_ops /\
  ready s = [HWake 1 2; HWake 2 6; HDeliver 1] /\ s_cancelled (scopes s 1) = true /\
  snd (step s (ARun (HWake 1 2))) = RExc (ECancel 0).
Proof.
  cbv zeta. split; [vc|]. split; [vc|]. split; [vm_compute; lia|]. split; [vc|]. split; [vc|].
  split; [exact nat_unaffected|]. repeat split; vc.
Qed.

Lemma final_nil' (s : st) : final step s [] = s.
Proof. reflexivity. Qed.

Example native_request_run_instance :
  let a := final step init nat_pre in
  let a1 := fst (step a (ANativeCancel 1)) in
  let s := final step a1 nat_ops in
  NHeld s 1 /\ receives_native s (HWake 1 2) 1.
Proof.
  cbv zeta.
  assert (R : reach_ok (final step init nat_pre)) by (exists nat_pre; split; [exact nat_a_ok|reflexivity]).
  pose proof native_request_run_premises as P. cbv zeta in P.
  destruct P as (_ & Hd & At & Hw & Hok & Hu & Hr & _).
  pose proof (native_request_honoured (final step init nat_pre) 1 nat_ops R Hd At Hw Hok Hu) as HH. cbv zeta in HH.
  destruct HH as [Hn Hrec]. split; [exact Hn|]. apply Hrec; [rewrite Hr; now left|]. right. now exists 2.
Qed.

(* one op of that run for C05_native_request_stays_pending: the delivery callback of scope 1 runs while task 1
   holds the native request *)
Example native_request_stays_pending_witness :
  let a := final step (fst (step (final step init nat_pre) (ANativeCancel 1))) (firstn 4 nat_ops) in
  ops_ok init (nat_pre ++ ANativeCancel 1 :: firstn 4 nat_ops) = true /\
  op_ok a (ARun (HDeliver 1)) = true /\ In (HDeliver 1) (ready a) /\ ~ In 1 (aff a (ARun (HDeliver 1))) /\
  k_waiter (tasks a 1) = Some 2 /\ f_st (futs a 2) = FCanc 0 /\
  f_st (futs (fst (step a (ARun (HDeliver 1)))) 2) = FCanc 0 /\
  k_waiter (tasks (fst (step a (ARun (HDeliver 1)))) 2) = Some 6 /\
  f_st (futs (fst (step a (ARun (HDeliver 1)))) 6) = FCanc 2.
Proof.
  cbv zeta. split; [vc|]. split; [vc|]. split; [vm_compute; right; now left|]. split; [intros H; vm_compute in H; exact H|].
  repeat split; vc.
Qed.

(* ====================================================================================================== *)
(* C03: the reached cancelled scope of the new-task witness is hosted                                        *)
(* ====================================================================================================== *)
Example nt_host : s_host (scopes (final step init nt_pre) 1) = Some 1.
Proof. vc. Qed.

Example nt_premises_host :
  let s := final step init nt_pre in
  s_host (scopes s 1) <> None /\
  (reach_ok s /\ running s <> Some 2 /\ k_ctl (tasks s 2) = CNew /\ k_started (tasks s 2) = false /\
   k_waiter (tasks s 2) = None /\ k_done (tasks s 2) = None /\ In (HStep 2) (ready s) /\ 2 < ntask s /\
   s_cancelled (scopes s 1) = true /\ reaches s 2 1 /\ k_must (tasks s 2) = false /\
   wokn 2 s nt_ops /\ exists s', wcyc (length (ready s)) s nt_ops s').
Proof. cbv zeta. split; [rewrite nt_host; intros H; discriminate H|exact nt_premises]. Qed.

(* the task-group witness of C03_cancel_latency_any_activity lies outside the FIFO theorem: cycle_ok fails on it (the
   second head run resumes the host inside TaskGroup.__aexit__, a frame that is not simple_ctl) *)
Lemma grp_ready : ready (final step init grp_pre) = [HWake 2 8; HWake 1 9; HDeliver 1].
Proof. vc. Qed.
Lemma grp_ready1 : hd (HStep 0) (ready (run_head (final step init grp_pre))) = HWake 1 9.
Proof. vc. Qed.
Lemma grp_ctl1 : simple_ctl (k_ctl (tasks (run_head (final step init grp_pre)) 1)) = false.
Proof. vc. Qed.

Example grp_cycle_ok_fails :
  ~ cycle_ok 3 11 (length (ready (final step init grp_pre))) (final step init grp_pre).
Proof.
  rewrite grp_ready. cbn [length cycle_ok]. rewrite grp_ready. intros [[E _]|[_ H]]; [discriminate E|].
  destruct (ready (run_head (final step init grp_pre))) as [|h r] eqn:Er; [pose proof grp_ready1 as G; rewrite Er in G; discriminate G|].
  pose proof grp_ready1 as G. rewrite Er in G. cbn [hd] in G. subst h.
  destruct H as [[E _]|[[_ [_ [_ B]]] _]]; [discriminate E|]. rewrite grp_ctl1 in B. discriminate B.
Qed.

(* ====================================================================================================== *)
(* C05: entry-relative restoration, a root task and a task-group child                                      *)
(* ====================================================================================================== *)
Lemma clean_none s t : k_cur (tasks s t) = None -> clean s t.
Proof. intros E x y Hx. rewrite E in Hx. discriminate Hx. Qed.

Lemma clean_chain2 s t x p :
  k_cur (tasks s t) = Some x -> s_parent (scopes s x) = Some p -> s_parent (scopes s p) = None ->
  s_cancelled (scopes s x) = false -> s_cancelled (scopes s p) = false -> clean s t.
Proof.
  intros Ec Ex Ep Cx Cp x' y Hx A. rewrite Ec in Hx. injection Hx as <-.
  inversion A as [|x0 p0 H0 A0]; subst; [exact Cx|]. rewrite Ex in H0. injection H0 as <-.
  inversion A0 as [|x1 p1 H1 A1]; subst; [exact Cp|]. rewrite Ep in H1. discriminate H1.
Qed.

(* root task 1: enters 1 > 2 > 3, scopes 1 and 3 are cancelled, the delivery of 3 hits the sleeping task, scope 3
   hands its debt to 2, the task leaves 3, 2 and 1 *)
Definition root_ops : list op := tl handover_pre ++ handover_mid ++ handover_post.

Lemma root_ok2 : ops_ok2 init (ANewRoot :: root_ops) = true. Proof. vc. Qed.

Example back_at_entry_root_instance :
  let s0 := final step init [ANewRoot] in
  reach_ok2 s0 /\ ops_ok2 s0 root_ops = true /\ alloc_t s0 1 /\ k_group (tasks s0 1) = None /\
  clean s0 1 /\ clean (final step s0 root_ops) 1 /\
  ext_count s0 root_ops 1 = 0%Z /\ k_ncancel (tasks s0 1) = 0 /\ k_ncancel (tasks (final step s0 root_ops) 1) = 0 /\
  (* in between the count was raised by the deliveries *)
  k_ncancel (tasks (final step s0 (tl handover_pre ++ handover_mid)) 1) = 1.
Proof.
  cbv zeta. split; [exists [ANewRoot]; split; [vc|reflexivity]|]. split; [vc|].
  split; [split; vm_compute; lia|]. split; [vc|]. split; [apply clean_none; vc|]. split; [apply clean_none; vc|].
  repeat split; vc.
Qed.

(* a task-group child (task 2, group 1, handle scope 2 inside the group scope 1): it enters its own scope 3,
   cancels it, sleeps; the delivery raises its counter to 1; it receives the cancellation and leaves the scope,
   which absorbs it and takes its uncancel back.  No scope on the child's chain (2, 1) is cancelled at either end.
   This is an instance of C05_cancelling_back_at_entry_lower (the theorem for every task) in which the bound is
   attained; C05_cancelling_back_at_entry itself is about root tasks only *)
Definition child_own : list op :=
  [AEnter 2 3; ACancel 2 3; ASleep 2 None; ARun (HDeliver 3); ARun (HWake 2 9); AExit 2 3 false].

Example back_at_entry_child_instance :
  let s0 := final step init child_pre in
  let s1 := final step s0 child_own in
  reach_ok2 s0 /\ ops_ok2 s0 child_own = true /\ alloc_t s0 2 /\ k_group (tasks s0 2) = Some 1 /\
  clean s0 2 /\ clean s1 2 /\
  ext_count s0 child_own 2 = 0%Z /\ k_ncancel (tasks s0 2) = 0 /\ k_ncancel (tasks s1 2) = 0 /\
  k_ncancel (tasks (final step s0 (firstn 4 child_own)) 2) = 1.
Proof.
  cbv zeta. split; [exists child_pre; split; [vc|reflexivity]|]. split; [vc|].
  split; [split; vm_compute; lia|]. split; [vc|].
  split; [apply (clean_chain2 _ 2 2 1); vc|]. split; [apply (clean_chain2 _ 2 2 1); vc|].
  repeat split; vc.
Qed.

(* ====================================================================================================== *)
(* C03: checkpoint under the FIFO loop with a bystander queued in front (audit 2, 2.1)                       *)
(* ====================================================================================================== *)
(* task 1 enters scope 1; a second root task 2 goes into a checkpoint (its step is queued first); task 1 cancels its own
   scope (the delivery skips the running task and re-schedules itself) and goes into a checkpoint:
   ready = [HStep 2; HDeliver 1; HStep 1].  The head run resumes the bystander task 2 (frame CYield YCheckpoint) *)
Definition ckb_ops : list op :=
  [ANewRoot; ANewScope 1 None false; AEnter 1 1; ANewRoot; AYield 2; ACancel 1 1; AYield 1].

Example ckb_premises :
  let s := final step init ckb_ops in
  reach_ok s /\ running s <> Some 1 /\ s_cancelled (scopes s 1) = true /\ s_host (scopes s 1) <> None /\
  reaches s 1 1 /\ k_started (tasks s 1) = true /\ k_waiter (tasks s 1) = None /\
  k_ctl (tasks s 1) = CYield YCheckpoint /\ ready s = [HStep 2; HDeliver 1] ++ HStep 1 :: [] /\
  ~ In (HStep 1) [HStep 2; HDeliver 1] /\ In (HDeliver 1) [HStep 2; HDeliver 1] /\
  k_ctl (tasks s 2) = CYield YCheckpoint /\
  CycleMore.cycle_okc 1 (length (ready s)) s.
Proof.
  cbv zeta. set (s := final step init ckb_ops).
  assert (R : reach_ok s) by (exists ckb_ops; split; [vc|reflexivity]).
  assert (E1 : ready s = [HStep 2; HDeliver 1; HStep 1]) by vc.
  refine (conj R _). repeat (match goal with |- _ /\ _ => split end).
  - assert (E : running s = None) by vc. rewrite E. intros H; discriminate H.
  - vc.
  - assert (E : s_host (scopes s 1) = Some 1) by vc. rewrite E. intros H; discriminate H.
  - split; [vc|]. exists 1. split; [vc|apply vis_here].
  - vc.
  - vc.
  - vc.
  - exact E1.
  - intros [H|[H|[]]]; discriminate H.
  - right. now left.
  - vc.
  - rewrite E1. cbn [length CycleMore.cycle_okc]. rewrite E1. right. split.
    { split; [vc|]. split; [intros H; discriminate H|]. split; [intros H; discriminate H|vc]. }
    assert (E2 : ready (run_head s) = [HDeliver 1; HStep 1]) by vc. rewrite E2. right. split.
    { split; [vc|]. split; [intros H; discriminate H|exact I]. }
    assert (E3 : ready (run_head (run_head s)) = [HStep 1; HDeliver 1]) by vc. rewrite E3. now left.
Qed.
