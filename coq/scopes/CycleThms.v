(* FIFO event-loop cycles of the S machine: the loop goes idle once every task is done (C05), and the
   bounded-response statements of C03. *)
From Coq Require Import ZArith Lia.
From AV Require Import Base Machine ScopeFrames DeliverInv TreeInv DeliverAlive PotentialInv TreeStep KernelInv
                       DeliverThms TimerInv TimerThms CheckpointFacts.

(* one callback: the head of the ready queue is run *)
Definition run_head (s : st) : st :=
  match ready s with [] => s | h :: _ => fst (step s (ARun h)) end.

(* one iteration of the loop: the callbacks that were ready at its start, in order; what they schedule runs
   in the next iteration *)
Definition fifo_cycle (s : st) : st := iter (length (ready s)) run_head s.

Lemma run_head_cons s h r : ready s = h :: r ->
  run_head s = fst (match h with
                    | HStep t => resume (set_ready s r) t None
                    | HWake t f => resume (set_ready s r) t (Some f)
                    | HDeliver c => (set_running (deliver_top (set_running (set_ready s r) None) c) None, RNone)
                    | HTaskDone t => (run_task_done (set_ready s r) t, RNone)
                    | HSleepDone f _ => (fut_complete (set_ready s r) f (FRes 0), RNone)
                    | HTimeout c _ => (set_running (scope_timeout (set_running (set_ready s r) None) c) None, RNone)
                    end).
Proof.
  intros E. unfold run_head. rewrite E. cbn [step actor]. unfold run_handle. rewrite E.
  cbn [existsb remove_first]. rewrite handle_eqb_refl. cbn [orb negb]. reflexivity.
Qed.

(* ================= C05: the loop goes idle ================= *)
(* every task has finished *)
Definition all_done (s : st) : Prop :=
  forall t, k_ctl (tasks s t) = CDone /\ (alloc_t s t -> k_done (tasks s t) <> None).

(* what the drain needs, stable under the callbacks that can still run *)
Record Drain (s : st) : Prop := {
  dr_ctl : forall t, k_ctl (tasks s t) = CDone;
  dr_members : forall x t, In t (s_tasks (scopes s x)) -> k_done (tasks s t) <> None;
  dr_notimeout : forall c tm, ~ In (HTimeout c tm) (ready s)
}.

(* delivery among finished tasks: nothing but the handle flag changes *)
Record cheq (a b : st) : Prop := {
  ce_tasks : tasks b = tasks a;
  ce_ready : ready b = ready a;
  ce_timers : timers b = timers a;
  ce_scopes : forall x, sc_core (scopes b x) = sc_core (scopes a x)
}.

Lemma cheq_refl a : cheq a a.
Proof. constructor; auto. Qed.

Lemma cheq_trans a b c : cheq a b -> cheq b c -> cheq a c.
Proof.
  intros H1 H2. constructor.
  - now rewrite (ce_tasks _ _ H2), (ce_tasks _ _ H1).
  - now rewrite (ce_ready _ _ H2), (ce_ready _ _ H1).
  - now rewrite (ce_timers _ _ H2), (ce_timers _ _ H1).
  - intros x. now rewrite (ce_scopes _ _ H2), (ce_scopes _ _ H1).
Qed.

Definition members_done (s : st) : Prop :=
  forall x t, In t (s_tasks (scopes s x)) -> k_done (tasks s t) <> None.

Lemma members_done_cheq a b : members_done a -> cheq a b -> members_done b.
Proof.
  intros M H x t Hin. rewrite (core_tasks _ _ (ce_scopes _ _ H x)) in Hin. rewrite (ce_tasks _ _ H). now apply (M x t).
Qed.

Lemma deliver_done origin fu : forall a self, members_done a ->
  cheq a (fst (deliver fu a self origin)) /\ snd (deliver fu a self origin) = false.
Proof.
  induction fu as [|fu IH]; intros a self M; [split; [apply cheq_refl|reflexivity]|].
  rewrite deliver_unfold.
  assert (F1 : forall l b, (forall t, In t l -> k_done (tasks b t) <> None) ->
               fold_left (deliver_task self origin) l (b, false) = (b, false)).
  { induction l as [|t l IHl]; intros b Hl; cbn [fold_left]; [reflexivity|].
    assert (E : deliver_task self origin (b, false) t = (b, false)).
    { unfold deliver_task. destruct (k_done (tasks b t)) eqn:Ed; [reflexivity|]. exfalso. now apply (Hl t (or_introl eq_refl)). }
    rewrite E. apply IHl. intros x Hx. apply Hl. now right. }
  rewrite (F1 (s_tasks (scopes a self)) a (fun t H => M self t H)).
  assert (F2 : forall l b, members_done b -> cheq b (fst (fold_left (dstep fu origin) l (b, false))) /\
                                            snd (fold_left (dstep fu origin) l (b, false)) = false).
  { induction l as [|c l IHl]; intros b Mb; cbn [fold_left]; [split; [apply cheq_refl|reflexivity]|].
    unfold dstep at 2 4. destruct (negb (s_shield (scopes b c)) && negb (s_cancelled (scopes b c))).
    - destruct (IH b c Mb) as [H1 H2]. destruct (deliver fu b c origin) as [b' r']. cbn [fst snd] in *. subst r'.
      cbn [orb]. destruct (IHl b' (members_done_cheq _ _ Mb H1)) as [H3 H4].
      split; [eapply cheq_trans; eauto|exact H4].
    - now apply IHl. }
  destruct (F2 (s_children (scopes a self)) a M) as [H1 H2].
  destruct (fold_left (dstep fu origin) (s_children (scopes a self)) (a, false)) as [s2 r2]. cbn [fst snd] in *. subst r2.
  destruct (Nat.eqb origin self); cbn [fst snd]; [|split; [exact H1|reflexivity]].
  split; [|reflexivity]. eapply cheq_trans; [exact H1|]. constructor; try reflexivity.
  intros x. cbn. unfold upd. destruct (Nat.eqb_spec x self); [subst|]; reflexivity.
Qed.

(* the measure: a task-done callback can schedule two wake-ups, a sleep timer callback one *)
Definition hw (h : handle) : nat :=
  match h with HTaskDone _ => 3 | HSleepDone _ _ => 2 | _ => 1 end.
Fixpoint mu (l : list handle) : nat := match l with [] => 0 | h :: r => hw h + mu r end.

Lemma mu_app a b : mu (a ++ b) = mu a + mu b.
Proof. induction a as [|h a IH]; cbn; [reflexivity|]. rewrite IH. lia. Qed.

Lemma mu_filter P l : mu (filter P l) <= mu l.
Proof. induction l as [|h l IH]; cbn; [lia|]. destruct (P h); cbn; lia. Qed.

Lemma mu_le_3len l : mu l <= 3 * length l.
Proof. induction l as [|h l IH]; cbn [mu length]; [lia|]. destruct h; cbn [hw]; lia. Qed.

(* effect of one helper on a draining loop: k = number of callbacks it may add *)
Definition drel (k : nat) (a b : st) : Prop :=
  Drain a -> Drain b /\ mu (ready b) <= mu (ready a) + k /\ incl (timers b) (timers a).

Lemma drel_refl a : drel 0 a a.
Proof. intros D. split; [exact D|]. split; [lia|apply incl_refl]. Qed.

Lemma drel_trans k1 k2 a b c : drel k1 a b -> drel k2 b c -> drel (k1 + k2) a c.
Proof.
  intros H1 H2 D. destruct (H1 D) as [Db [M1 I1]]. destruct (H2 Db) as [Dc [M2 I2]].
  split; [exact Dc|]. split; [lia|]. eapply incl_tran; eauto.
Qed.

Lemma drel_weaken k k' a b : k <= k' -> drel k a b -> drel k' a b.
Proof. intros Hk H D. destruct (H D) as [Db [M I]]. split; [exact Db|]. split; [lia|exact I]. Qed.

Lemma drel_fut_complete s f v : drel 1 s (fut_complete s f v).
Proof.
  intros [D1 D2 D3]. unfold fut_complete. destruct (f_st (futs s f)); try (split; [now constructor|split; [lia|apply incl_refl]]).
  destruct (f_waiter (futs s f)) as [w|].
  - split; [|split; [|apply incl_refl]].
    + constructor; [exact D1|exact D2|]. intros c tm H. cbn in H. apply in_app_or in H.
      destruct H as [H|[H|[]]]; [now apply (D3 c tm)|discriminate].
    + cbn. rewrite mu_app. cbn. lia.
  - split; [now constructor|split; [cbn; lia|apply incl_refl]].
Qed.

Lemma drel_same a b : tasks b = tasks a -> ready b = ready a -> timers b = timers a ->
  (forall x, s_tasks (scopes b x) = s_tasks (scopes a x)) -> drel 0 a b.
Proof.
  intros E1 E2 E3 E4 [D1 D2 D3]. split; [|split; [rewrite E2; lia|rewrite E3; apply incl_refl]].
  constructor.
  - intros t. rewrite E1. apply D1.
  - intros x t. rewrite E4, E1. apply D2.
  - intros c tm. rewrite E2. apply D3.
Qed.

Lemma drel_cheq a b : cheq a b -> drel 0 a b.
Proof.
  intros H. apply drel_same; [apply H|apply H|apply H|]. intros x. apply (core_tasks _ _ (ce_scopes _ _ H x)).
Qed.

Lemma drel_cancel_timeout s c : drel 0 s (cancel_timeout s c).
Proof.
  unfold cancel_timeout. destruct (s_timeout (scopes s c)) as [tm|]; [|apply drel_refl].
  intros [D1 D2 D3]. split; [|split].
  - constructor.
    + exact D1.
    + intros x t. cbn. unfold upd. destruct (Nat.eqb_spec x c); [subst|]; apply D2.
    + intros c' tm' H. cbn in H. apply filter_In in H. now apply (D3 c' tm').
  - cbn. pose proof (mu_filter (fun h => negb (is_timer_handle tm h)) (ready s)). lia.
  - cbn. intros x H. apply filter_In in H. apply H.
Qed.

Lemma drel_scope_cancel s c b : drel 0 s (scope_cancel s c b).
Proof.
  unfold scope_cancel. destruct (s_cancelled (scopes s c)); [apply drel_refl|].
  set (s2 := upd_scope (cancel_timeout s c) c _).
  assert (K : drel 0 s s2).
  { apply (drel_trans 0 0 s (cancel_timeout s c)); [apply drel_cancel_timeout|].
    apply drel_same; try reflexivity. intros x. cbn. unfold upd. destruct (Nat.eqb_spec x c); [subst|]; reflexivity. }
  destruct (s_host (scopes s2 c)); [|exact K].
  apply (drel_trans 0 0 s s2); [exact K|]. intros D. apply drel_cheq; [|exact D].
  apply (deliver_done c (S (nscope s2)) s2 c). exact (dr_members _ D).
Qed.

Lemma drel_td_tail s3 k g t : drel 2 s3 (td_tail s3 k g t).
Proof.
  unfold td_tail.
  set (s4 := match g_fut (groups s3 g) with
             | Some f => match g_tasks (groups s3 g) with [] => fut_complete s3 f (FRes 0) | _ :: _ => s3 end
             | None => s3 end).
  assert (K4 : drel 1 s3 s4).
  { unfold s4. destruct (g_fut (groups s3 g)); [|apply (drel_weaken 0); [lia|apply drel_refl]].
    destruct (g_tasks (groups s3 g)); [apply drel_fut_complete|apply (drel_weaken 0); [lia|apply drel_refl]]. }
  clearbody s4.
  assert (Kx : forall e, drel 0 s4 (upd_group s4 g (fun x => gr_excs (g_excs x ++ [(t, e)]) x))).
  { intros e. apply drel_same; reflexivity. }
  assert (Kc : forall a, drel 0 a (if eff_cancelled a (g_scope (groups a g)) then a
                                   else scope_cancel a (g_scope (groups a g)) false)).
  { intros a. destruct (eff_cancelled a _); [apply drel_refl|apply drel_scope_cancel]. }
  assert (W0 : forall b, drel 0 s4 b -> drel 2 s3 b).
  { intros b H. apply (drel_weaken (1 + 0)); [lia|]. now apply (drel_trans 1 0 s3 s4). }
  assert (W1 : forall b, drel 1 s4 b -> drel 2 s3 b).
  { intros b H. now apply (drel_trans 1 1 s3 s4). }
  assert (Kxc : forall e, drel 0 s4 (let s5 := upd_group s4 g (fun x => gr_excs (g_excs x ++ [(t, e)]) x) in
                                     scope_cancel s5 (g_scope (groups s5 g)) false)).
  { intros e. cbv zeta. apply (drel_trans 0 0 s4 _ _ (Kx e)). apply drel_scope_cancel. }
  destruct (k_done k) as [[v|e|e]|].
  - destruct (k_startfut k) as [f|]; [|apply W0, drel_refl].
    destruct (f_st (futs s4 f)); try (apply W0, drel_refl). apply W1, drel_fut_complete.
  - destruct (k_startfut k) as [f|].
    + destruct (f_st (futs s4 f)).
      * apply W1, drel_fut_complete.
      * destruct (is_cancel e); [apply W0, Kc|apply W0, Kxc].
      * destruct (is_cancel e); [apply W0, Kc|apply W0, Kxc].
      * destruct (is_cancel e); [apply W0, drel_refl|apply W0, Kxc].
    + destruct (is_cancel e); [apply W0, Kc|apply W0, Kxc].
  - destruct (k_startfut k) as [f|].
    + destruct (f_st (futs s4 f)).
      * apply W1, drel_fut_complete.
      * destruct (is_cancel e); [apply W0, Kc|apply W0, Kxc].
      * destruct (is_cancel e); [apply W0, Kc|apply W0, Kxc].
      * destruct (is_cancel e); [apply W0, drel_refl|apply W0, Kxc].
    + destruct (is_cancel e); [apply W0, Kc|apply W0, Kxc].
  - destruct (k_startfut k) as [f|]; [|apply W0, drel_refl].
    destruct (f_st (futs s4 f)); try (apply W0, drel_refl). apply W1, drel_fut_complete.
Qed.

Lemma drel_td_struct s t g : drel 0 s (td_struct s t g).
Proof.
  intros [D1 D2 D3].
  assert (Ek : forall x, k_ctl (tasks (td_struct s t g) x) = k_ctl (tasks s x) /\
                         k_done (tasks (td_struct s t g) x) = k_done (tasks s x)).
  { intros x. unfold td_struct. destruct (k_cur (tasks s t)); cbn; unfold upd;
      (destruct (Nat.eqb_spec x t) as [->|]; now split). }
  assert (Er : ready (td_struct s t g) = ready s /\ timers (td_struct s t g) = timers s).
  { unfold td_struct. destruct (k_cur (tasks s t)); now split. }
  destruct Er as [Er Et].
  split; [|split; [rewrite Er; lia|rewrite Et; apply incl_refl]].
  constructor.
  - intros x. destruct (Ek x) as [E _]. rewrite E. apply D1.
  - intros x t' Hin. destruct (Ek t') as [_ E]. rewrite E. apply (D2 x).
    unfold td_struct in Hin. destruct (k_cur (tasks s t)) as [c|]; cbn in Hin; [|exact Hin].
    unfold upd in Hin. destruct (Nat.eqb_spec x c) as [->|]; [|exact Hin]. cbn in Hin. apply in_del in Hin. apply Hin.
  - intros c tm. rewrite Er. apply D3.
Qed.

(* one callback of the draining loop *)
Lemma drain_step s h r : Drain s -> ready s = h :: r ->
  Drain (run_head s) /\ mu (ready (run_head s)) < mu (ready s) /\ incl (timers (run_head s)) (timers s).
Proof.
  intros D E. rewrite (run_head_cons s h r E). rewrite E. cbn [mu].
  set (s1 := set_ready s r).
  assert (D1 : Drain s1).
  { destruct D as [A B C]. constructor; [exact A|exact B|]. intros c tm H. apply (C c tm). rewrite E. now right. }
  assert (Rej : forall t fo, fst (resume s1 t fo) = s1).
  { intros t fo. unfold resume. pose proof (incoming_ctl s1 t fo) as Ec.
    destruct (incoming s1 t fo) as [s2 inc]. cbn [fst] in Ec. rewrite Ec, (dr_ctl _ D1 t). reflexivity. }
  destruct h as [t|t f|c|t|f tm|c tm]; cbn [hw].
  - rewrite Rej. split; [exact D1|]. split; [cbn; lia|apply incl_refl].
  - rewrite Rej. split; [exact D1|]. split; [cbn; lia|apply incl_refl].
  - cbn [fst].
    assert (K : drel 0 s1 (set_running (deliver_top (set_running s1 None) c) None)).
    { apply (drel_trans 0 0 s1 (set_running s1 None)); [apply drel_same; reflexivity|].
      apply (drel_trans 0 0 _ (deliver_top (set_running s1 None) c)); [|apply drel_same; reflexivity].
      intros D0. apply drel_cheq; [|exact D0]. apply (deliver_done c (S (nscope (set_running s1 None)))). exact (dr_members _ D0). }
    destruct (K D1) as [D2 [M I]]. split; [exact D2|]. split; [cbn in M; cbn; lia|exact I].
  - cbn [fst]. rewrite run_task_done_eq. change (tasks s1 t) with (tasks s t).
    destruct (k_group (tasks s t)) as [g|].
    + assert (K : drel 2 s1 (td_tail (td_struct (set_running s1 None) t g) (tasks s t) g t)).
      { apply (drel_trans 0 2 s1 (set_running s1 None)); [apply drel_same; reflexivity|].
        apply (drel_trans 0 2 _ (td_struct (set_running s1 None) t g)); [apply drel_td_struct|apply drel_td_tail]. }
      destruct (K D1) as [D2 [M I]]. split; [exact D2|]. split; [cbn in M; lia|exact I].
    + destruct (drel_same s1 (set_running s1 None) eq_refl eq_refl eq_refl (fun _ => eq_refl) D1) as [D2 [M I]].
      split; [exact D2|]. split; [cbn in M; cbn; lia|exact I].
  - cbn [fst]. destruct (drel_fut_complete s1 f (FRes 0) D1) as [D2 [M I]].
    split; [exact D2|]. split; [cbn in M; lia|exact I].
  - exfalso. apply (dr_notimeout _ D c tm). rewrite E. now left.
Qed.

Lemma drain_runs n : forall s, Drain s -> mu (ready s) <= n ->
  exists k, k <= n /\ ready (iter k run_head s) = [] /\ incl (timers (iter k run_head s)) (timers s).
Proof.
  induction n as [|n IH]; intros s D M.
  - exists 0. split; [lia|]. split; [|apply incl_refl]. cbn. destruct (ready s) as [|h r]; [reflexivity|].
    cbn in M. destruct h; cbn in M; lia.
  - destruct (ready s) as [|h r] eqn:E.
    + exists 0. split; [lia|]. split; [exact E|apply incl_refl].
    + destruct (drain_step s h r D E) as [D' [M' I']]. rewrite E in M'.
      destruct (IH (run_head s) D' ltac:(lia)) as [k [Hk [Hr Hi]]].
      exists (S k). split; [lia|]. cbn [iter]. split; [exact Hr|]. eapply incl_tran; eauto.
Qed.

Lemma ops_ok_wf ops : forall s, ops_ok s ops = true -> wf_run s ops.
Proof.
  induction ops as [|o r IH]; intros s H; cbn in *; [exact I|].
  apply andb_true_iff in H. destruct H as [H1 H2]. split; [|now apply IH].
  destruct o; cbn; try exact I. cbn [op_ok] in H1. rewrite !andb_true_iff, !Nat.ltb_lt in H1. lia.
Qed.

Lemma reach_ok_wf s : reach_ok s -> reach_wf s.
Proof. intros [ops [H E]]. exists ops. split; [now apply ops_ok_wf|exact E]. Qed.

(* with every task done no scope is active any more *)
Lemma all_done_inactive s c : reach_ok s -> all_done s -> s_active (scopes s c) = false.
Proof.
  intros R AD. destruct (s_active (scopes s c)) eqn:Ea; [|reflexivity]. exfalso.
  destruct (reach_sinv s R) as [[T C] _]. destruct (tr_host_act _ T c Ea) as [t [Hh A]].
  destruct (c_ok _ C t A) as [_ [_ [_ [Kd _]]]]. apply (Kd (proj1 (AD t)) c Hh).
Qed.

(* C05 loop_goes_idle: once every task is done, running the remaining callbacks empties the ready queue within
   3 * length (ready s) callback runs (a task-done callback may schedule two wake-ups, a sleep-timer callback
   one; a delivery callback never re-schedules itself); no timer is added meanwhile, and the timers that remain
   are sleep timers only: no deadline timer of any scope is left *)
Theorem loop_goes_idle s :
  reach_ok s -> all_done s ->
  exists k, k <= 3 * length (ready s) /\
            ready (iter k run_head s) = [] /\
            incl (timers (iter k run_head s)) (timers s) /\
            (forall x, In x (timers (iter k run_head s)) -> exists f, tm_what x = TSleep f).
Proof.
  intros R AD. pose proof (reach_ok_wf s R) as W. destruct (reach_sinv s R) as [[T C] _].
  assert (D : Drain s).
  { constructor.
    - intros t. apply AD.
    - intros x t Hin. apply (tr_task _ T) in Hin. apply AD. now apply (tr_cur_alloc _ T t x).
    - intros c tm. destruct (no_timer_after_exit s c W (all_done_inactive s c R AD)) as [_ [_ H]]. apply H. }
  destruct (drain_runs (mu (ready s)) s D (le_n _)) as [k [Hk [Hr Hi]]].
  exists k. split; [pose proof (mu_le_3len (ready s)); lia|]. split; [exact Hr|]. split; [exact Hi|].
  intros x Hx. apply Hi in Hx. destruct (tm_what x) as [f|c] eqn:Ew; [now exists f|exfalso].
  destruct (no_timer_after_exit s c W (all_done_inactive s c R AD)) as [_ [H _]]. now apply (H x Hx).
Qed.

(* non-vacuity: a child finishes, its parent leaves the group and finishes; the loop then drains *)
Definition idle_ops : list op :=
  [ANewRoot; AGroupNew 1; AGroupEnter 1 1; ASpawn 1 1; ARun (HStep 2); AFinish 2 0; ARun (HTaskDone 2);
   AGroupExit 1 1; ARun (HStep 1); AFinish 1 0].

Example idle_ok : ops_ok init idle_ops = true.
Proof. vm_compute. reflexivity. Qed.

Example idle_all_done :
  let s := final step init idle_ops in
  (forall t, t < 4 -> k_ctl (tasks s t) = CDone) /\ k_done (tasks s 1) <> None /\ k_done (tasks s 2) <> None /\
  ntask s = 3.
Proof.
  cbv zeta. split; [|vm_compute; repeat split; discriminate].
  intros t Ht. destruct t as [|[|[|[|t]]]]; try lia; vm_compute; reflexivity.
Qed.

(* ================= C03: bounded response under FIFO ================= *)
(* the callbacks run in n iterations of run_head, with the state each one starts from *)
Fixpoint heads (n : nat) (s : st) : list (st * handle) :=
  match n with
  | 0 => []
  | S m => match ready s with [] => [] | h :: _ => (s, h) :: heads m (run_head s) end
  end.

(* ---------------- what a callback can do to a task t blocked on future f that it does not resume ---------------- *)
Section Bystander.
  Variables (t : tid) (f : fid).

  Record byst (a b : st) : Prop := {
    by_core : tk_core (tasks b t) = tk_core (tasks a t);
    by_fw : f_waiter (futs b f) = f_waiter (futs a f);
    by_keep : In (HWake t f) (ready a) -> In (HWake t f) (ready b);
    by_done : f_st (futs a f) <> FPend -> f_st (futs b f) = f_st (futs a f);
    by_pend : f_st (futs a f) = FPend -> f_waiter (futs a f) = Some t -> k_waiter (tasks a t) = Some f ->
              k_must (tasks a t) = false ->
              (f_st (futs b f) = FPend /\ k_must (tasks b t) = false) \/
              (f_st (futs b f) <> FPend /\ In (HWake t f) (ready b))
  }.

  Lemma byst_refl a : byst a a.
  Proof. constructor; auto. Qed.

  Lemma byst_trans a b c : byst a b -> byst b c -> byst a c.
  Proof.
    intros H1 H2. constructor.
    - now rewrite (by_core _ _ H2), (by_core _ _ H1).
    - now rewrite (by_fw _ _ H2), (by_fw _ _ H1).
    - intros H. apply H2, H1, H.
    - intros H. rewrite (by_done _ _ H2); [now apply H1|]. now rewrite (by_done _ _ H1).
    - intros Hp Hw Hk Hm. destruct (by_pend _ _ H1 Hp Hw Hk Hm) as [[P M]|[P I]].
      + apply (by_pend _ _ H2 P); [now rewrite (by_fw _ _ H1)|now rewrite (tcore_waiter _ _ (by_core _ _ H1))|exact M].
      + right. split; [now rewrite (by_done _ _ H2 P)|now apply H2].
  Qed.

  (* the step does not touch t's record nor f at all *)
  Lemma byst_exact a b :
    tasks b t = tasks a t -> futs b f = futs a f -> (In (HWake t f) (ready a) -> In (HWake t f) (ready b)) ->
    byst a b.
  Proof.
    intros E1 E2 E3. constructor; rewrite ?E1, ?E2; auto.
  Qed.

  Lemma byst_fut_complete a g v : v <> FPend -> byst a (fut_complete a g v).
  Proof.
    intros Hv. unfold fut_complete. destruct (f_st (futs a g)) eqn:Eg; try apply byst_refl.
    destruct (Nat.eq_dec g f) as [->|Hne].
    - set (s1 := upd_fut a f (fun x => mkFut v (f_waiter x))).
      set (b := match f_waiter (futs a f) with Some w => call_soon s1 (HWake w f) | None => s1 end).
      assert (Et : tasks b = tasks a) by (unfold b; destruct (f_waiter (futs a f)); reflexivity).
      assert (Ef : futs b f = mkFut v (f_waiter (futs a f))).
      { unfold b, s1. destruct (f_waiter (futs a f)) eqn:Ew; cbn; unfold upd; rewrite Nat.eqb_refl; now rewrite Ew. }
      constructor.
      + now rewrite Et.
      + now rewrite Ef.
      + intros H. unfold b. destruct (f_waiter (futs a f)); cbn; [apply in_or_app; now left|exact H].
      + intros H. congruence.
      + intros _ Hw _ _. right. rewrite Ef. split; [exact Hv|]. unfold b. rewrite Hw. cbn.
        apply in_or_app. right. now left.
    - apply byst_exact.
      + destruct (f_waiter (futs a g)); reflexivity.
      + destruct (f_waiter (futs a g)); cbn; unfold upd; destruct (Nat.eqb_spec f g); congruence.
      + intros H. destruct (f_waiter (futs a g)); cbn; [apply in_or_app; now left|exact H].
  Qed.

  Lemma byst_deliver_top a c : wait_link a -> byst a (deliver_top a c).
  Proof.
    intros WL. pose proof (kframe_deliver_top a c) as K. constructor.
    - apply (kf_tasks _ _ K t).
    - apply (kf_fwaiter _ _ K f).
    - intros H. destruct (kf_ready _ _ K) as [l [E _]]. rewrite E. apply in_or_app. now left.
    - apply (kf_fdone _ _ K f).
    - intros Hp Hw Hk Hm. destruct (deliver_top_task a c t WL) as [[E1 E2]|R].
      + left. rewrite E1, (E2 f Hk). now split.
      + destruct R as [[_ [_ Hn]]|[f' [_ [Hw' [Hf Hr]]]]].
        * rewrite (tcore_waiter _ _ (kf_tasks _ _ K t)), Hk in Hn. discriminate.
        * rewrite (tcore_waiter _ _ (kf_tasks _ _ K t)), Hk in Hw'. inversion Hw'; subst f'.
          right. split; [rewrite Hf; discriminate|exact Hr].
  Qed.

  Lemma byst_upd_task_other a t' g : t' <> t -> byst a (upd_task a t' g).
  Proof.
    intros Hne. apply byst_exact; [|reflexivity|auto]. cbn. unfold upd.
    destruct (Nat.eqb_spec t t'); [congruence|reflexivity].
  Qed.

  Lemma byst_same_tf a b : tasks b = tasks a -> futs b = futs a ->
    (forall h, is_timer_handle 0 h = false -> (forall tm, is_timer_handle tm h = false) -> In h (ready a) -> In h (ready b)) ->
    byst a b.
  Proof.
    intros E1 E2 E3. apply byst_exact; [now rewrite E1|now rewrite E2|]. apply E3; reflexivity.
  Qed.

  Lemma byst_timer_cancel a tm : byst a (timer_cancel a tm).
  Proof.
    apply byst_exact; [reflexivity|reflexivity|]. intros H. cbn. apply filter_In. split; [exact H|reflexivity].
  Qed.

  Lemma byst_cancel_timeout a c : byst a (cancel_timeout a c).
  Proof.
    unfold cancel_timeout. destruct (s_timeout (scopes a c)); [|apply byst_refl].
    eapply byst_trans; [apply byst_timer_cancel|]. apply byst_exact; [reflexivity|reflexivity|intros Hk; exact Hk].
  Qed.

  Lemma byst_scope_cancel a c b : wait_link a -> byst a (scope_cancel a c b).
  Proof.
    intros WL. unfold scope_cancel. destruct (s_cancelled (scopes a c)); [apply byst_refl|].
    set (s2 := upd_scope (cancel_timeout a c) c _).
    assert (K : byst a s2) by (eapply byst_trans; [apply byst_cancel_timeout|apply byst_exact; [reflexivity|reflexivity|intros Hk; exact Hk]]).
    destruct (s_host (scopes s2 c)); [|exact K].
    eapply byst_trans; [exact K|]. apply byst_deliver_top.
    assert (W2 : wait_link (cancel_timeout a c)).
    { unfold cancel_timeout. destruct (s_timeout (scopes a c)); exact WL. }
    exact W2.
  Qed.

  (* parking another task on a fresh future *)
  Lemma byst_suspend_other a t' g : t' <> t -> g <> f -> byst a (suspend_on a t' g).
  Proof.
    intros Ht Hg. unfold suspend_on.
    set (s2 := upd_task (upd_fut a g (fun x => mkFut (f_st x) (Some t'))) t' (tk_waiter (Some g))).
    assert (K : byst a s2).
    { apply byst_exact; [| |intros Hk; exact Hk].
      - cbn. unfold upd. destruct (Nat.eqb_spec t t'); [congruence|reflexivity].
      - cbn. unfold upd. destruct (Nat.eqb_spec f g); [congruence|reflexivity]. }
    assert (Kc : forall h, byst s2 (call_soon s2 h)).
    { intros h. apply byst_exact; [reflexivity|reflexivity|]. intros H. cbn. apply in_or_app. now left. }
    destruct (f_st (futs a g)); try (eapply byst_trans; [exact K|apply Kc]).
    destruct (k_must (tasks a t')); [|exact K].
    eapply byst_trans; [exact K|].
    apply (byst_trans s2 (fut_complete s2 g (FCanc (k_msg (tasks a t'))))); [apply byst_fut_complete; discriminate|].
    now apply byst_upd_task_other.
  Qed.

  Lemma byst_park_other a t' : t' <> t -> f < nfut a -> byst a (park a t').
  Proof.
    intros Ht Hf. unfold park, new_fut.
    eapply byst_trans; [|now apply byst_upd_task_other].
    eapply byst_trans; [|apply byst_suspend_other; [exact Ht|lia]].
    apply byst_exact; [reflexivity| |intros Hk; exact Hk]. cbn. unfold upd. destruct (Nat.eqb_spec f (nfut a)); [lia|reflexivity].
  Qed.

  Lemma byst_ret_other a t' r : t' <> t -> f < nfut a -> byst a (fst (ret_to_puppet a t' r)).
  Proof.
    intros Ht Hf. unfold ret_to_puppet. cbn [fst].
    set (s1 := match r with RExc e => upd_task a t' (tk_held (Some e)) | _ => a end).
    assert (K1 : byst a s1 /\ nfut s1 = nfut a).
    { unfold s1. destruct r; try (split; [apply byst_refl|reflexivity]). split; [now apply byst_upd_task_other|reflexivity]. }
    destruct K1 as [K1 E1].
    eapply byst_trans; [exact K1|]. eapply byst_trans; [apply byst_park_other; [exact Ht|now rewrite E1]|].
    apply byst_exact; [reflexivity|reflexivity|intros Hk; exact Hk].
  Qed.

  Lemma byst_incoming_other a t' fo : t' <> t -> byst a (fst (incoming a t' fo)).
  Proof.
    intros Ht. unfold incoming. cbn [fst].
    match goal with |- byst a (set_running ?x ?v) => apply (byst_trans a x) end;
      [now apply byst_upd_task_other|apply byst_exact; [reflexivity|reflexivity|intros Hk; exact Hk]].
  Qed.
End Bystander.

(* ---------------- the walk to the cancelled scope, across callbacks ---------------- *)
Lemma reaches_dq a b t c : dq a b -> reaches a t c -> reaches b t c.
Proof.
  intros Q [D [x [Hc Hv]]]. split; [now rewrite (dq_done _ _ Q)|]. exists x. split; [now rewrite (dq_cur _ _ Q)|].
  apply (vis_view b a c x); [|exact Hv]. intros y. pose proof (dq_scope _ _ Q y) as E.
  now rewrite (vw_shield _ _ E), (vw_cancelled _ _ E), (vw_parent _ _ E).
Qed.

(* cancelling x either leaves the walk to c intact or puts x on it *)
Lemma vis_cancel_split a b x c k :
  (forall y, y <> x -> scopes b y = scopes a y) ->
  s_parent (scopes b x) = s_parent (scopes a x) -> s_shield (scopes b x) = s_shield (scopes a x) ->
  vis a c k -> vis b c k \/ vis b x k.
Proof.
  intros Eo Ep Es H. induction H as [|y p E1 E2 E3 H IH]; [left; apply vis_here|].
  destruct (Nat.eq_dec y x) as [->|Hne]; [right; apply vis_here|].
  destruct IH as [IH|IH]; [left|right]; (eapply vis_up; [| | |exact IH]); rewrite (Eo y Hne); assumption.
Qed.

Section Track.
  Variables (t : tid) (f : fid) (c : sid).

  (* t can take a request and is blocked on the pending future f *)
  Definition elig_t (s : st) : Prop :=
    k_done (tasks s t) = None /\ k_must (tasks s t) = false /\ k_started (tasks s t) = true /\
    k_waiter (tasks s t) = Some f /\ f_st (futs s f) = FPend.

  Definition trk (s : st) : Prop :=
    reaches s t c /\ s_cancelled (scopes s c) = true /\ s_host (scopes s c) <> None.

  Record Good (s : st) : Prop := {
    gd_tl : TreeL s;
    gd_k : KInv s;
    gd_run : running s <> Some t;
    gd_host : forall y, s_active (scopes s y) = true -> s_host (scopes s y) <> None
  }.

  Lemma Good_kframe a b : Good a -> kframe a b -> Good b.
  Proof.
    intros [G1 G2 G3 G4] K. constructor.
    - now apply (TreeL_kframe a).
    - apply (KInv_kq a); [exact G2|now apply kq_kframe].
    - now rewrite (kf_running _ _ K).
    - intros y. rewrite (core_active _ _ (kf_scopes _ _ K y)), (core_host _ _ (kf_scopes _ _ K y)). apply G4.
  Qed.

  (* same links, hosts, kernel objects *)
  Lemma Good_same a b :
    Good a -> nscope b = nscope a -> running b <> Some t ->
    (forall x, s_active (scopes b x) = s_active (scopes a x) /\ s_parent (scopes b x) = s_parent (scopes a x) /\
               s_children (scopes b x) = s_children (scopes a x) /\ s_tasks (scopes b x) = s_tasks (scopes a x) /\
               s_host (scopes b x) = s_host (scopes a x)) ->
    tasks b = tasks a -> futs b = futs a -> nfut b = nfut a -> Good b.
  Proof.
    intros [G1 G2 G3 G4] En Er Es Et Ef Enf. constructor.
    - apply (TreeL_ext a b G1 En); [intros x; destruct (Es x) as [A [B [C [D _]]]]; now repeat split|intros x; now rewrite Et].
    - apply (KInv_kq a); [exact G2|]. now apply kq_tasks_same.
    - exact Er.
    - intros y. destruct (Es y) as [A [_ [_ [_ H]]]]. rewrite A, H. apply G4.
  Qed.

  (* the delivery of a scope t reaches cancels t's wait *)
  Lemma deliver_hits a x :
    Good a -> elig_t a -> reaches a t x -> f_st (futs (deliver_top a x) f) <> FPend.
  Proof.
    intros G [Hd [Hm [Hs [Hw Hp]]]] [_ [k [Hc Hv]]].
    destruct (deliver_top_spec a x (k_link _ (gd_k _ G))) as [K [_ [Req _]]].
    assert (R : requested (deliver_top a x) t (S x)).
    { apply (Req k t); [now apply vis_dreach; [apply G| |]|].
      unfold elig. refine (conj Hd (conj Hm (conj _ (conj (or_intror Hs) _)))).
      - apply (gd_run _ G).
      - now rewrite Hw. }
    destruct R as [[_ [_ Hn]]|[f' [_ [Hw' [Hf _]]]]].
    - rewrite (tcore_waiter _ _ (kf_tasks _ _ K t)), Hw in Hn. discriminate.
    - rewrite (tcore_waiter _ _ (kf_tasks _ _ K t)), Hw in Hw'. inversion Hw'; subst f'. rewrite Hf. discriminate.
  Qed.

  Lemma trk_kframe a b : kframe a b -> trk a -> trk b.
  Proof.
    intros K [R [C H]]. split; [now apply (reaches_kframe a b t c K)|].
    split; [now rewrite (core_cancelled _ _ (kf_scopes _ _ K c))|now rewrite (core_host _ _ (kf_scopes _ _ K c))].
  Qed.

  Lemma trk_dq a b : dq a b -> trk a -> trk b.
  Proof.
    intros Q [R [C H]]. pose proof (dq_scope _ _ Q c) as E. split; [now apply (reaches_dq a b)|].
    split; [now rewrite (vw_cancelled _ _ E)|now rewrite (vw_host _ _ E)].
  Qed.

  (* cancel(): the walk to c survives, or the cancelled scope was on it and its delivery hit t *)
  Lemma cancel_keeps_or_hits a x bdl :
    Good a -> elig_t a -> trk a ->
    Good (scope_cancel a x bdl) /\
    (f_st (futs (scope_cancel a x bdl) f) = FPend -> trk (scope_cancel a x bdl)).
  Proof.
    intros G El Tk. unfold scope_cancel. destruct (s_cancelled (scopes a x)) eqn:Ex; [split; [exact G|auto]|].
    set (s1 := cancel_timeout a x).
    assert (G1 : Good s1).
    { pose proof (treq_cancel_timeout a x) as K. apply (Good_same a s1 G).
      - apply (tq_nscope _ _ K).
      - unfold s1, cancel_timeout. destruct (s_timeout (scopes a x)); [cbn|]; apply G.
      - intros y. now rewrite (tq_active _ _ K), (tq_parent _ _ K), (tq_children _ _ K), (tq_stasks _ _ K), (tq_host _ _ K).
      - unfold s1, cancel_timeout. destruct (s_timeout (scopes a x)); reflexivity.
      - unfold s1, cancel_timeout. destruct (s_timeout (scopes a x)); reflexivity.
      - unfold s1, cancel_timeout. destruct (s_timeout (scopes a x)); reflexivity. }
    assert (T1 : trk s1) by (apply (trk_dq a); [apply dq_cancel_timeout|exact Tk]).
    assert (E1 : elig_t s1).
    { destruct El as [A [B [C [D E]]]]. unfold elig_t, s1, cancel_timeout.
      destruct (s_timeout (scopes a x)); cbn; now repeat split. }
    assert (Ex1 : s_cancelled (scopes s1 x) = false).
    { unfold s1. rewrite (vw_cancelled _ _ (dq_scope _ _ (dq_cancel_timeout a x) x)). exact Ex. }
    set (s2 := upd_scope s1 x (fun y => sc_bydeadline bdl (sc_cancelled true y))).
    assert (Eo : forall y, y <> x -> scopes s2 y = scopes s1 y).
    { intros y Hy. unfold s2. cbn. unfold upd. destruct (Nat.eqb_spec y x); [contradiction|reflexivity]. }
    assert (Ec2 : scopes s2 x = sc_bydeadline bdl (sc_cancelled true (scopes s1 x))).
    { unfold s2. cbn. unfold upd. now rewrite Nat.eqb_refl. }
    assert (G2 : Good s2).
    { apply (Good_same s1 s2 G1); try reflexivity; [apply G1|].
      intros y. destruct (Nat.eq_dec y x) as [->|Hy]; [rewrite Ec2|rewrite (Eo y Hy)]; now repeat split. }
    assert (E2 : elig_t s2) by exact E1.
    destruct T1 as [[Hd [k [Hc Hv]]] [Cc Hh]].
    assert (Hxc : x <> c) by (intros ->; congruence).
    assert (Cc2 : s_cancelled (scopes s2 c) = true /\ s_host (scopes s2 c) <> None).
    { rewrite (Eo c (fun E => Hxc (eq_sym E))). now split. }
    destruct (vis_cancel_split s1 s2 x c k Eo) as [V|V]; [now rewrite Ec2|now rewrite Ec2|exact Hv| |].
    - (* the walk to c is intact *)
      assert (T2 : trk s2) by (split; [split; [exact Hd|exists k; now split]|exact Cc2]).
      destruct (s_host (scopes s2 x)); [|split; [exact G2|intros _; exact T2]].
      split; [apply (Good_kframe s2); [exact G2|apply kframe_deliver_top]|].
      intros _. apply (trk_kframe s2); [apply kframe_deliver_top|exact T2].
    - (* x is on t's walk: it is active, hence hosted, and its delivery reaches t *)
      assert (Ax : s_active (scopes s2 x) = true).
      { pose proof (tl_cur_act _ (gd_tl _ G2) t k Hc) as Ak. clear - V Ak G2.
        induction V as [|y p F1 F2 F3 V IH]; [exact Ak|]. apply IH. apply (tl_par_act _ (gd_tl _ G2) y p Ak F3). }
      destruct (s_host (scopes s2 x)) eqn:Ehx; [|exfalso; now apply (gd_host _ G2 x Ax)].
      split; [apply (Good_kframe s2); [exact G2|apply kframe_deliver_top]|].
      intros Hp. exfalso. apply (deliver_hits s2 x G2 E2); [|exact Hp]. split; [exact Hd|]. exists k. now split.
  Qed.
End Track.

Section Steps.
  Variables (t : tid) (f : fid) (c : sid).

  Definition Out (a b : st) : Prop :=
    Good t a ->
    Good t b /\ byst t f a b /\ (elig_t t f a -> trk t c a -> f_st (futs b f) = FPend -> trk t c b).

  Lemma elig_byst a b : KInv a -> byst t f a b -> elig_t t f a -> f_st (futs b f) = FPend -> elig_t t f b.
  Proof.
    intros K B [Hd [Hm [Hs [Hw Hp]]]] Hpb. pose proof (by_core _ _ _ _ B) as E.
    unfold elig_t. rewrite (tcore_done _ _ E), (tcore_started _ _ E), (tcore_waiter _ _ E).
    refine (conj Hd (conj _ (conj Hs (conj Hw Hpb)))).
    destruct (by_pend _ _ _ _ B Hp (k_link _ K t f Hw Hp) Hw Hm) as [[_ M]|[N _]]; [exact M|congruence].
  Qed.

  Lemma out_refl a : Out a a.
  Proof. intros G. split; [exact G|]. split; [apply byst_refl|auto]. Qed.

  Lemma out_trans a b d : Out a b -> Out b d -> Out a d.
  Proof.
    intros H1 H2 G. destruct (H1 G) as [Gb [B1 T1]]. destruct (H2 Gb) as [Gd [B2 T2]].
    split; [exact Gd|]. split; [eapply byst_trans; eauto|].
    intros El Tk Hp.
    assert (Hpb : f_st (futs b f) = FPend).
    { destruct (f_st (futs b f)) eqn:E; [reflexivity| | |];
        (rewrite (by_done _ _ _ _ B2) in Hp; [congruence|rewrite E; discriminate]). }
    apply T2; [now apply (elig_byst a b (gd_k _ _ G))|now apply T1|exact Hp].
  Qed.

  (* a step that keeps the delivery view, t's record and f *)
  Lemma out_neutral a b : (Good t a -> Good t b) -> byst t f a b -> dq a b -> Out a b.
  Proof. intros HG B Q G. split; [now apply HG|]. split; [exact B|]. intros _ Tk _. now apply (trk_dq t c a). Qed.

  Lemma out_fut_complete a g v : v <> FPend -> Out a (fut_complete a g v).
  Proof.
    intros Hv. apply out_neutral; [|now apply byst_fut_complete|apply dq_fut_complete].
    intros G. apply (Good_kframe t a); [exact G|apply kframe_fut_complete].
  Qed.

  Lemma out_deliver_top a x : Out a (deliver_top a x).
  Proof.
    intros G. split; [apply (Good_kframe t a); [exact G|apply kframe_deliver_top]|].
    split; [apply byst_deliver_top, (gd_k _ _ G)|]. intros _ Tk _. apply (trk_kframe t c a); [apply kframe_deliver_top|exact Tk].
  Qed.

  Lemma out_scope_cancel a x b : Out a (scope_cancel a x b).
  Proof.
    intros G. split; [|split; [apply byst_scope_cancel, (gd_k _ _ G)|]].
    - destruct (s_cancelled (scopes a x)) eqn:Ex; [unfold scope_cancel; now rewrite Ex|].
      (* Good t does not depend on t: reuse the tracking lemma's first half through a trivial instance *)
      unfold scope_cancel. rewrite Ex.
      set (s1 := cancel_timeout a x).
      assert (G1 : Good t s1).
      { pose proof (treq_cancel_timeout a x) as K. apply (Good_same t a s1 G).
        - apply (tq_nscope _ _ K).
        - unfold s1, cancel_timeout. destruct (s_timeout (scopes a x)); [cbn|]; apply G.
        - intros y. now rewrite (tq_active _ _ K), (tq_parent _ _ K), (tq_children _ _ K), (tq_stasks _ _ K), (tq_host _ _ K).
        - unfold s1, cancel_timeout. destruct (s_timeout (scopes a x)); reflexivity.
        - unfold s1, cancel_timeout. destruct (s_timeout (scopes a x)); reflexivity.
        - unfold s1, cancel_timeout. destruct (s_timeout (scopes a x)); reflexivity. }
      set (s2 := upd_scope s1 x (fun y => sc_bydeadline b (sc_cancelled true y))).
      assert (G2 : Good t s2).
      { apply (Good_same t s1 s2 G1); try reflexivity; [apply G1|].
        intros y. unfold s2. cbn. unfold upd. destruct (Nat.eqb_spec y x); [subst|]; now repeat split. }
      destruct (s_host (scopes s2 x)); [|exact G2]. apply (Good_kframe t s2); [exact G2|apply kframe_deliver_top].
    - intros El Tk Hp. now apply (cancel_keeps_or_hits t f c a x b G El Tk).
  Qed.

  Lemma Good_set_running a : Good t a -> Good t (set_running a None).
  Proof. intros G. apply (Good_same t a _ G); try reflexivity; [cbn; discriminate|]. intros x; now repeat split. Qed.

  Lemma out_set_running a : Out a (set_running a None).
  Proof.
    apply out_neutral; [apply Good_set_running| |apply dq_set_running].
    apply byst_exact; [reflexivity|reflexivity|intros Hk; exact Hk].
  Qed.

  Lemma out_scope_timeout a x : Out a (scope_timeout a x).
  Proof.
    unfold scope_timeout. destruct (s_deadline (scopes a x)); [|apply out_refl].
    destruct (Z.leb z (now a)); [apply out_scope_cancel|].
    apply out_neutral.
    - intros G. apply (Good_same t a _ G); try reflexivity; [apply G|].
      intros y. cbn. unfold upd. destruct (Nat.eqb_spec y x); [subst|]; now repeat split.
    - apply byst_exact; [reflexivity|reflexivity|intros Hk; exact Hk].
    - constructor; auto. intros y. cbn. unfold upd. destruct (Nat.eqb_spec y x); [subst|]; reflexivity.
  Qed.

  Lemma out_upd_group a g h : Out a (upd_group a g h).
  Proof.
    apply out_neutral; [|apply byst_exact; [reflexivity|reflexivity|intros Hk; exact Hk]|apply dq_upd_group].
    intros G. apply (Good_same t a _ G); try reflexivity; [apply G|]. intros y; now repeat split.
  Qed.

  Lemma out_td_tail s3 k g t' : Out s3 (td_tail s3 k g t').
  Proof.
    unfold td_tail.
    set (s4 := match g_fut (groups s3 g) with
               | Some f0 => match g_tasks (groups s3 g) with [] => fut_complete s3 f0 (FRes 0) | _ :: _ => s3 end
               | None => s3 end).
    assert (K4 : Out s3 s4).
    { unfold s4. destruct (g_fut (groups s3 g)); [|apply out_refl].
      destruct (g_tasks (groups s3 g)); [apply out_fut_complete; discriminate|apply out_refl]. }
    clearbody s4.
    assert (Kc : forall a, Out a (if eff_cancelled a (g_scope (groups a g)) then a
                                  else scope_cancel a (g_scope (groups a g)) false)).
    { intros a. destruct (eff_cancelled a _); [apply out_refl|apply out_scope_cancel]. }
    assert (Kxc : forall e, Out s4 (let s5 := upd_group s4 g (fun x => gr_excs (g_excs x ++ [(t', e)]) x) in
                                    scope_cancel s5 (g_scope (groups s5 g)) false)).
    { intros e. cbv zeta. eapply out_trans; [apply out_upd_group|apply out_scope_cancel]. }
    apply (out_trans s3 s4); [exact K4|].
    destruct (k_done k) as [[v|e|e]|].
    - destruct (k_startfut k) as [f0|]; [|apply out_refl].
      destruct (f_st (futs s4 f0)); try apply out_refl. apply out_fut_complete; discriminate.
    - destruct (k_startfut k) as [f0|].
      + destruct (f_st (futs s4 f0)).
        * apply out_fut_complete; discriminate.
        * destruct (is_cancel e); [apply Kc|apply Kxc].
        * destruct (is_cancel e); [apply Kc|apply Kxc].
        * destruct (is_cancel e); [apply out_refl|apply Kxc].
      + destruct (is_cancel e); [apply Kc|apply Kxc].
    - destruct (k_startfut k) as [f0|].
      + destruct (f_st (futs s4 f0)).
        * apply out_fut_complete; discriminate.
        * destruct (is_cancel e); [apply Kc|apply Kxc].
        * destruct (is_cancel e); [apply Kc|apply Kxc].
        * destruct (is_cancel e); [apply out_refl|apply Kxc].
      + destruct (is_cancel e); [apply Kc|apply Kxc].
    - destruct (k_startfut k) as [f0|]; [|apply out_refl].
      destruct (f_st (futs s4 f0)); try apply out_refl. apply out_fut_complete; discriminate.
  Qed.
End Steps.

(* the callback kinds covered: everything but the resumption of a library frame (task start, shielded
   checkpoint, TaskGroup.__aexit__, start()) *)
Definition simple_ctl (k : ctl) : bool :=
  match k with
  | CIdle | CYield YCheckpoint | CYield YCkIf | CSleep _ _ | CHandleWait _ _ | CDone => true
  | _ => false
  end.

Section StepOut.
  Variables (t : tid) (f : fid) (c : sid).

  Lemma Good_treq a b : Good t a -> treq a b -> KInv b -> running b <> Some t -> Good t b.
  Proof.
    intros G K Kb Rb. constructor; [now apply (TreeL_treq a); [apply G|]|exact Kb|exact Rb|].
    intros y. rewrite (tq_active _ _ K), (tq_host _ _ K). apply G.
  Qed.

  Lemma out_resume_simple a t' fo :
    t' <> t -> f < nfut a -> simple_ctl (k_ctl (tasks a t')) = true -> Out t f c a (fst (resume a t' fo)).
  Proof.
    intros Ht Hf Hs. unfold resume.
    pose proof (incoming_ctl a t' fo) as Ec.
    pose proof (byst_incoming_other t f a t' fo Ht) as B0.
    pose proof (dq_incoming a t' fo) as Q0. pose proof (treq_incoming a t' fo) as T0.
    pose proof (kq_incoming a t' fo) as Kq0.
    assert (Nf : nfut (fst (incoming a t' fo)) = nfut a) by reflexivity.
    assert (Rn : running (fst (incoming a t' fo)) = Some t') by reflexivity.
    destruct (incoming a t' fo) as [s inc]. cbn [fst] in *. rewrite Ec.
    assert (O0 : Out t f c a s).
    { apply out_neutral; [|exact B0|exact Q0]. intros G. apply (Good_treq a s G T0); [apply (KInv_kq a); [apply G|exact Kq0]|].
      rewrite Rn. intros E. inversion E. now apply Ht. }
    (* the two ways the resumed task goes on: back to its program, or yielding again *)
    assert (Ret : forall s1 r, Out t f c a s1 -> nfut s1 = nfut a -> Out t f c a (fst (ret_to_puppet s1 t' r))).
    { intros s1 r O1 E1. apply (out_trans t f c a s1); [exact O1|]. apply out_neutral.
      - intros G. apply (Good_treq s1 _ G (treq_ret_to_puppet s1 t' r)); [apply K_ret, G|cbn; discriminate].
      - apply byst_ret_other; [exact Ht|now rewrite E1].
      - apply dq_ret_to_puppet. }
    destruct (k_ctl (tasks a t')) as [| |[| |x]| | | | | | |] eqn:Ectl; try discriminate.
    - (* CIdle *)
      cbn [fst].
      set (s1 := match inc with Some e => upd_task s t' (tk_held (Some e)) | None => s end).
      assert (O1 : Out t f c s s1).
      { unfold s1. destruct inc; [|apply out_refl]. apply out_neutral.
        - intros G. apply (Good_treq s _ G); [apply treq_upd_task; intros k; reflexivity| |apply G].
          apply (KInv_kq s); [apply G|apply kq_upd_task; intros k; now left].
        - now apply byst_upd_task_other.
        - apply dq_upd_task. intros k; now split. }
      assert (E1 : nfut s1 = nfut a) by (unfold s1; destruct inc; exact Nf).
      apply (out_trans t f c a s); [exact O0|]. apply (out_trans t f c s s1); [exact O1|]. apply out_neutral.
      + intros G. apply (Good_treq s1 _ G); [eapply treq_trans; [apply treq_park|apply treq_set_running]| |cbn; discriminate].
        apply (KInv_kq (park s1 t')); [apply K_park, G|apply kq_set_running].
      + eapply byst_trans; [apply byst_park_other; [exact Ht|now rewrite E1]|].
        apply byst_exact; [reflexivity|reflexivity|intros Hk; exact Hk].
      + eapply dq_trans; [apply dq_park|apply dq_set_running].
    - now apply Ret.
    - destruct inc; [now apply Ret|]. destruct (ckif_spins _ _ _); [|now apply Ret]. cbn [fst blocked].
      apply (out_trans t f c a s); [exact O0|]. apply out_neutral.
      + intros G. apply (Good_same t s _ G); try reflexivity; [cbn; discriminate|]. intros y; now repeat split.
      + apply byst_exact; [reflexivity|reflexivity|]. intros Hk. cbn. apply in_or_app. now left.
      + eapply dq_trans; [apply dq_call_soon|apply dq_set_running].
    - (* CSleep *)
      apply Ret; [|exact Nf]. apply (out_trans t f c a s); [exact O0|]. apply out_neutral.
      + intros G. apply (Good_same t s _ G); try reflexivity; [apply G|]. intros y; now repeat split.
      + apply byst_timer_cancel.
      + apply dq_timer_cancel.
    - (* CHandleWait *)
      apply Ret; [|destruct f0; exact Nf]. apply (out_trans t f c a s); [exact O0|]. apply out_neutral.
      + intros G. destruct f0; [|exact G]. apply (Good_same t s _ G); try reflexivity; [apply G|]. intros y; now repeat split.
      + destruct f0; [apply byst_exact; [reflexivity|reflexivity|intros Hk; exact Hk]|apply byst_refl].
      + apply dq_event_unwait.
    - (* CDone: the callback is dropped *)
      cbn [fst]. apply out_refl.
  Qed.
End StepOut.

Section Callback.
  Variables (t : tid) (f : fid) (c : sid).

  (* a callback other than t's own wake-up, of one of the covered kinds *)
  Definition bystander (s : st) (h : handle) : Prop :=
    op_ok s (ARun h) = true /\ h <> HWake t f /\
    match h with
    | HStep t' | HWake t' _ => t' <> t /\ simple_ctl (k_ctl (tasks s t')) = true
    | _ => True
    end.

  Lemma trk_view a b :
    (forall y, sc_view (scopes b y) = sc_view (scopes a y)) ->
    k_cur (tasks b t) = k_cur (tasks a t) -> k_done (tasks b t) = k_done (tasks a t) ->
    trk t c a -> trk t c b.
  Proof.
    intros V Ec Ed [[D [x [Hc Hv]]] [Cc Hh]]. pose proof (V c) as E.
    split; [|split; [now rewrite (vw_cancelled _ _ E)|now rewrite (vw_host _ _ E)]].
    split; [now rewrite Ed|]. exists x. split; [now rewrite Ec|].
    apply (vis_view b a c x); [|exact Hv]. intros y. pose proof (V y) as Ey.
    now rewrite (vw_shield _ _ Ey), (vw_cancelled _ _ Ey), (vw_parent _ _ Ey).
  Qed.

  Lemma out_td_struct a t' g :
    Tree a -> (forall x, s_host (scopes a x) <> Some t') -> t' <> t -> Out t f c a (td_struct a t' g).
  Proof.
    intros T Hn Ht G. set (b := td_struct a t' g).
    assert (Es : forall y, sc_view (scopes b y) = sc_view (scopes a y) /\ s_active (scopes b y) = s_active (scopes a y)).
    { intros y. unfold b, td_struct. destruct (k_cur (tasks a t')) as [x|]; cbn; [|now split].
      unfold upd. destruct (Nat.eqb_spec y x); [subst|]; now split. }
    assert (Ek : forall x, x <> t' -> tasks b x = tasks a x).
    { intros x Hx. unfold b, td_struct. destruct (k_cur (tasks a t')); cbn; unfold upd;
        (destruct (Nat.eqb_spec x t'); [contradiction|reflexivity]). }
    assert (Ew : forall x, k_waiter (tasks b x) = k_waiter (tasks a x)).
    { intros x. unfold b, td_struct. destruct (k_cur (tasks a t')); cbn; unfold upd;
        (destruct (Nat.eqb_spec x t') as [->|]; reflexivity). }
    assert (Em : futs b = futs a /\ nfut b = nfut a /\ ready b = ready a /\ running b = running a).
    { unfold b, td_struct. destruct (k_cur (tasks a t')); now repeat split. }
    destruct Em as [Ef [Enf [Er Ern]]].
    assert (Htt : t <> t') by congruence.
    split; [|split].
    - constructor.
      + apply Tree_TreeL. now apply Tree_td.
      + apply (KInv_kq a); [apply G|]. apply kq_same; [exact Enf|exact Ef|]. intros x. left. apply Ew.
      + rewrite Ern. apply G.
      + intros y. destruct (Es y) as [V A]. rewrite A, (vw_host _ _ V). apply G.
    - apply byst_exact; [now apply Ek|now rewrite Ef|now rewrite Er].
    - intros _ Tk _. apply (trk_view a b); [intros y; apply Es|now rewrite (Ek t Htt)|now rewrite (Ek t Htt)|exact Tk].
  Qed.

  Lemma callback_out s h r :
    reach_ok s -> k_ctl (tasks s t) <> CDone -> k_waiter (tasks s t) = Some f ->
    ready s = h :: r -> bystander s h ->
    Out t f c s (run_head s) /\
    (h = HDeliver c -> Good t s -> elig_t t f s -> trk t c s -> f_st (futs (run_head s) f) <> FPend).
  Proof.
    intros R Nd Hw E [Hok [Hne Hk]].
    destruct (reach_sinv s R) as [[T C] _].
    set (s1 := set_ready s r).
    assert (Hf : f < nfut s).
    { destruct R as [ops [_ ->]]. apply (k_alloc _ (reach_kinv ops) t f Hw). }
    assert (O1 : Out t f c s s1).
    { intros G. split; [|split].
      - apply (Good_same t s s1 G); try reflexivity; [apply G|]. intros y; now repeat split.
      - apply byst_exact; [reflexivity|reflexivity|]. intros Hi. rewrite E in Hi. destruct Hi as [Hi|Hi]; [now elim Hne|exact Hi].
      - intros _ Tk _. apply (trk_view s s1); auto. }
    rewrite (run_head_cons s h r E).
    destruct h as [t'|t' f'|c'|t'|g tm|x tm].
    - split; [|discriminate]. destruct Hk as [Ht Hs]. apply (out_trans t f c s s1); [exact O1|].
      now apply out_resume_simple.
    - split; [|discriminate]. destruct Hk as [Ht Hs]. apply (out_trans t f c s s1); [exact O1|].
      now apply out_resume_simple.
    - cbn [fst]. split.
      + apply (out_trans t f c s s1); [exact O1|]. apply (out_trans t f c s1 (set_running s1 None)); [apply out_set_running|].
        apply (out_trans t f c _ (deliver_top (set_running s1 None) c')); [apply out_deliver_top|apply out_set_running].
      + intros Ec G El Tk. inversion Ec; subst c'.
        change (futs (set_running (deliver_top (set_running s1 None) c) None) f) with (futs (deliver_top (set_running s1 None) c) f).
        destruct (O1 G) as [G1 _].
        assert (Tk1 : trk t c (set_running s1 None)) by (apply (trk_view s); auto).
        apply (deliver_hits t f (set_running s1 None) c); [now apply Good_set_running|exact El|apply Tk1].
    - (* HTaskDone *)
      split; [|discriminate]. cbn [fst]. fold s1. rewrite run_task_done_eq.
      assert (Hin : In (HTaskDone t') (ready s)) by (rewrite E; now left).
      destruct (c_td _ C t' Hin) as [A' Ed].
      assert (Ht : t' <> t) by (intros ->; contradiction).
      destruct (c_ok _ C t' A') as [_ [_ [_ [Kd _]]]]. specialize (Kd Ed).
      apply (out_trans t f c s s1); [exact O1|].
      destruct (k_group (tasks s1 t')) as [g|]; [|apply out_set_running].
      apply (out_trans t f c s1 (set_running s1 None)); [apply out_set_running|].
      apply (out_trans t f c _ (td_struct (set_running s1 None) t' g)); [|apply out_td_tail].
      apply out_td_struct; [|exact Kd|exact Ht].
      apply (Tree_treq s); [exact T|]. eapply treq_trans; [apply treq_set_ready|apply treq_set_running].
    - (* HSleepDone *)
      split; [|discriminate]. cbn [fst]. apply (out_trans t f c s s1); [exact O1|]. apply out_fut_complete. discriminate.
    - (* HTimeout *)
      split; [|discriminate]. cbn [fst]. apply (out_trans t f c s s1); [exact O1|].
      apply (out_trans t f c s1 (set_running s1 None)); [apply out_set_running|].
      apply (out_trans t f c _ (scope_timeout (set_running s1 None) x)); [apply out_scope_timeout|apply out_set_running].
  Qed.
End Callback.

(* ---------------- FIFO positions: callbacks only leave the queue at its head, except cancelled timer callbacks --- *)
Definition nontimer (h : handle) : bool :=
  match h with HSleepDone _ _ | HTimeout _ _ => false | _ => true end.

Definition rsh (a b : st) : Prop :=
  exists P new, ready b = filter P (ready a) ++ new /\ forall h, nontimer h = true -> P h = true.

Lemma filter_true {A} (l : list A) : filter (fun _ => true) l = l.
Proof. induction l as [|h l IH]; cbn; [reflexivity|now rewrite IH]. Qed.

Lemma rsh_refl a : rsh a a.
Proof. exists (fun _ => true), []. split; [|auto]. now rewrite app_nil_r, filter_true. Qed.

Lemma filter_filter {A} (P Q : A -> bool) l : filter Q (filter P l) = filter (fun x => P x && Q x) l.
Proof.
  induction l as [|x l IH]; cbn; [reflexivity|]. destruct (P x); cbn; [destruct (Q x); cbn; now rewrite IH|exact IH].
Qed.

Lemma rsh_trans a b c : rsh a b -> rsh b c -> rsh a c.
Proof.
  intros [P [n1 [E1 H1]]] [Q [n2 [E2 H2]]]. exists (fun x => P x && Q x), (filter Q n1 ++ n2). split.
  - rewrite E2, E1, filter_app, filter_filter, app_assoc. reflexivity.
  - intros h Hh. now rewrite (H1 h Hh), (H2 h Hh).
Qed.

Lemma rsh_append a b l : ready b = ready a ++ l -> rsh a b.
Proof.
  intros E. exists (fun _ => true), l. split; [|auto]. now rewrite E, filter_true.
Qed.

Lemma rsh_same a b : ready b = ready a -> rsh a b.
Proof. intros E. apply (rsh_append a b []). now rewrite app_nil_r. Qed.

Lemma rsh_kframe a b : kframe a b -> rsh a b.
Proof. intros K. destruct (kf_ready _ _ K) as [l [E _]]. now apply (rsh_append a b l). Qed.

Lemma rsh_timer_cancel a tm : rsh a (timer_cancel a tm).
Proof.
  exists (fun h => negb (is_timer_handle tm h)), []. split; [cbn; now rewrite app_nil_r|].
  intros h Hh. destruct h; cbn in *; try reflexivity; discriminate.
Qed.

Lemma rsh_cancel_timeout a c : rsh a (cancel_timeout a c).
Proof.
  unfold cancel_timeout. destruct (s_timeout (scopes a c)); [|apply rsh_refl].
  eapply rsh_trans; [apply rsh_timer_cancel|apply rsh_same; reflexivity].
Qed.

Lemma rsh_scope_cancel a c b : rsh a (scope_cancel a c b).
Proof.
  unfold scope_cancel. destruct (s_cancelled (scopes a c)); [apply rsh_refl|].
  set (s2 := upd_scope (cancel_timeout a c) c _).
  assert (K : rsh a s2) by (eapply rsh_trans; [apply rsh_cancel_timeout|apply rsh_same; reflexivity]).
  destruct (s_host (scopes s2 c)); [|exact K]. eapply rsh_trans; [exact K|apply rsh_kframe, kframe_deliver_top].
Qed.

Lemma rsh_scope_timeout a c : rsh a (scope_timeout a c).
Proof.
  unfold scope_timeout. destruct (s_deadline (scopes a c)); [|apply rsh_refl].
  destruct (Z.leb z (now a)); [apply rsh_scope_cancel|apply rsh_same; reflexivity].
Qed.

Lemma rsh_suspend_on a t g : rsh a (suspend_on a t g).
Proof.
  unfold suspend_on.
  set (s2 := upd_task (upd_fut a g (fun x => mkFut (f_st x) (Some t))) t (tk_waiter (Some g))).
  assert (K : rsh a s2) by (apply rsh_same; reflexivity).
  destruct (f_st (futs a g)); try (eapply rsh_trans; [exact K|apply (rsh_append _ _ [HWake t g]); reflexivity]).
  destruct (k_must (tasks a t)); [|exact K].
  eapply rsh_trans; [exact K|]. eapply rsh_trans; [apply rsh_kframe, kframe_fut_complete|apply rsh_same; reflexivity].
Qed.

Lemma rsh_park a t : rsh a (park a t).
Proof.
  unfold park, new_fut. eapply rsh_trans; [|apply rsh_same; reflexivity].
  eapply rsh_trans; [|apply rsh_suspend_on]. apply rsh_same; reflexivity.
Qed.

Lemma rsh_ret a t r : rsh a (fst (ret_to_puppet a t r)).
Proof.
  unfold ret_to_puppet. cbn [fst].
  set (s1 := match r with RExc e => upd_task a t (tk_held (Some e)) | _ => a end).
  assert (K1 : rsh a s1) by (unfold s1; destruct r; apply rsh_same; reflexivity).
  eapply rsh_trans; [exact K1|]. eapply rsh_trans; [apply rsh_park|apply rsh_same; reflexivity].
Qed.

Lemma rsh_resume_simple a t fo : simple_ctl (k_ctl (tasks a t)) = true -> rsh a (fst (resume a t fo)).
Proof.
  intros Hs. unfold resume. pose proof (incoming_ctl a t fo) as Ec.
  assert (K0 : rsh a (fst (incoming a t fo))) by (apply rsh_same; reflexivity).
  destruct (incoming a t fo) as [s inc]. cbn [fst] in *. rewrite Ec.
  destruct (k_ctl (tasks a t)) as [| |[| |x]| | | | | | |]; try discriminate.
  - cbn [fst]. eapply rsh_trans; [exact K0|].
    set (s1 := match inc with Some e => upd_task s t (tk_held (Some e)) | None => s end).
    assert (K1 : rsh s s1) by (unfold s1; destruct inc; apply rsh_same; reflexivity).
    eapply rsh_trans; [exact K1|]. eapply rsh_trans; [apply rsh_park|apply rsh_same; reflexivity].
  - eapply rsh_trans; [exact K0|apply rsh_ret].
  - destruct inc; [eapply rsh_trans; [exact K0|apply rsh_ret]|].
    destruct (ckif_spins _ _ _); [|eapply rsh_trans; [exact K0|apply rsh_ret]]. cbn [fst blocked].
    eapply rsh_trans; [exact K0|]. apply (rsh_append _ _ [HStep t]). reflexivity.
  - eapply rsh_trans; [exact K0|]. eapply rsh_trans; [apply rsh_timer_cancel|apply rsh_ret].
  - eapply rsh_trans; [exact K0|]. eapply rsh_trans; [|apply rsh_ret]. destruct f; apply rsh_same; reflexivity.
  - cbn [fst]. apply rsh_refl.
Qed.

Lemma rsh_td_tail s3 k g t : rsh s3 (td_tail s3 k g t).
Proof.
  unfold td_tail.
  set (s4 := match g_fut (groups s3 g) with
             | Some f0 => match g_tasks (groups s3 g) with [] => fut_complete s3 f0 (FRes 0) | _ :: _ => s3 end
             | None => s3 end).
  assert (K4 : rsh s3 s4).
  { unfold s4. destruct (g_fut (groups s3 g)); [|apply rsh_refl].
    destruct (g_tasks (groups s3 g)); [apply rsh_kframe, kframe_fut_complete|apply rsh_refl]. }
  clearbody s4.
  assert (Kc : forall a, rsh a (if eff_cancelled a (g_scope (groups a g)) then a
                                else scope_cancel a (g_scope (groups a g)) false)).
  { intros a. destruct (eff_cancelled a _); [apply rsh_refl|apply rsh_scope_cancel]. }
  assert (Kxc : forall e, rsh s4 (let s5 := upd_group s4 g (fun x => gr_excs (g_excs x ++ [(t, e)]) x) in
                                  scope_cancel s5 (g_scope (groups s5 g)) false)).
  { intros e. cbv zeta. apply (rsh_trans s4 (upd_group s4 g (fun x => gr_excs (g_excs x ++ [(t, e)]) x)));
      [apply rsh_same; reflexivity|apply rsh_scope_cancel]. }
  assert (Kf : forall f0 v, rsh s4 (fut_complete s4 f0 v)) by (intros; apply rsh_kframe, kframe_fut_complete).
  eapply rsh_trans; [exact K4|].
  destruct (k_done k) as [[v|e|e]|].
  - destruct (k_startfut k) as [f0|]; [|apply rsh_refl]. destruct (f_st (futs s4 f0)); try apply rsh_refl. apply Kf.
  - destruct (k_startfut k) as [f0|].
    + destruct (f_st (futs s4 f0)); [apply Kf| | |]; (destruct (is_cancel e); [try apply Kc; try apply rsh_refl|apply Kxc]).
    + destruct (is_cancel e); [apply Kc|apply Kxc].
  - destruct (k_startfut k) as [f0|].
    + destruct (f_st (futs s4 f0)); [apply Kf| | |]; (destruct (is_cancel e); [try apply Kc; try apply rsh_refl|apply Kxc]).
    + destruct (is_cancel e); [apply Kc|apply Kxc].
  - destruct (k_startfut k) as [f0|]; [|apply rsh_refl]. destruct (f_st (futs s4 f0)); try apply rsh_refl. apply Kf.
Qed.

(* one covered callback: the rest of the queue keeps its order, new callbacks go to the end *)
Lemma rsh_run_head s h r :
  ready s = h :: r ->
  match h with HStep t' | HWake t' _ => simple_ctl (k_ctl (tasks s t')) = true | _ => True end ->
  exists P new, ready (run_head s) = filter P r ++ new /\ forall x, nontimer x = true -> P x = true.
Proof.
  intros E Hk. rewrite (run_head_cons s h r E). set (s1 := set_ready s r).
  assert (G : forall b, rsh s1 b -> exists P new, ready b = filter P r ++ new /\ forall x, nontimer x = true -> P x = true).
  { intros b Hb. exact Hb. }
  apply G. destruct h as [t'|t' f'|c'|t'|g tm|x tm]; cbn [fst].
  - now apply rsh_resume_simple.
  - now apply rsh_resume_simple.
  - eapply rsh_trans; [apply (rsh_same s1 (set_running s1 None)); reflexivity|].
    eapply rsh_trans; [apply rsh_kframe, kframe_deliver_top|apply rsh_same; reflexivity].
  - rewrite run_task_done_eq. destruct (k_group (tasks s1 t')) as [g|]; [|apply rsh_same; reflexivity].
    eapply rsh_trans; [|apply rsh_td_tail]. apply rsh_same. unfold td_struct. destruct (k_cur _); reflexivity.
  - apply rsh_kframe, kframe_fut_complete.
  - eapply rsh_trans; [apply (rsh_same s1 (set_running s1 None)); reflexivity|].
    eapply rsh_trans; [apply rsh_scope_timeout|apply rsh_same; reflexivity].
Qed.

Lemma filter_len {A} (P : A -> bool) l : length (filter P l) <= length l.
Proof. induction l as [|x l IH]; cbn; [lia|]. destruct (P x); cbn; lia. Qed.

Lemma position_step s h pre h0 post :
  ready s = h :: pre ++ h0 :: post -> nontimer h0 = true ->
  match h with HStep t' | HWake t' _ => simple_ctl (k_ctl (tasks s t')) = true | _ => True end ->
  exists pre' post', ready (run_head s) = pre' ++ h0 :: post' /\ length pre' <= length pre.
Proof.
  intros E H0 Hk. destruct (rsh_run_head s h _ E Hk) as [P [new [Er HP]]].
  rewrite filter_app in Er. cbn [filter] in Er. rewrite (HP h0 H0) in Er.
  exists (filter P pre), (filter P post ++ new). split; [rewrite Er, <- app_assoc; reflexivity|apply filter_len].
Qed.

Lemma fstate_pending_dec (x : fstate) : x = FPend \/ x <> FPend.
Proof. destruct x; [now left| | |]; right; discriminate. Qed.

(* ---------------- the two-cycle bound ---------------- *)
Definition wait_ctl (k : ctl) : bool :=
  match k with CIdle | CYield YCheckpoint | CYield YCkIf | CSleep _ _ | CHandleWait _ _ => true | _ => false end.

Section Latency.
  Variables (t : tid) (f : fid) (c : sid).

  Record LInv (s : st) : Prop := {
    li_reach : reach_ok s;
    li_run : running s <> Some t;
    li_waiter : k_waiter (tasks s t) = Some f;
    li_started : k_started (tasks s t) = true;
    li_done : k_done (tasks s t) = None;
    li_ctl : wait_ctl (k_ctl (tasks s t)) = true;
    li_cases : (f_st (futs s f) = FPend /\ k_must (tasks s t) = false /\ trk t c s) \/
               (f_st (futs s f) <> FPend /\ In (HWake t f) (ready s))
  }.

  (* the next n callbacks: t's own wake-up once its future is done, or covered callbacks of others *)
  Fixpoint cycle_ok (n : nat) (s : st) : Prop :=
    match n with
    | 0 => True
    | S m => match ready s with
             | [] => True
             | h :: _ => (h = HWake t f /\ f_st (futs s f) <> FPend) \/
                         (bystander t f s h /\ cycle_ok m (run_head s))
             end
    end.

  Lemma LInv_Good s : LInv s -> Good t s.
  Proof.
    intros L. pose proof (reach_tree s (li_reach _ L)) as T. constructor.
    - now apply Tree_TreeL.
    - destruct (li_reach _ L) as [ops [_ ->]]. apply reach_kinv.
    - apply L.
    - intros y Ha. destruct (tr_host_act _ T y Ha) as [x [E _]]. rewrite E. discriminate.
  Qed.

  Lemma run_head_step s h r : ready s = h :: r -> run_head s = fst (step s (ARun h)).
  Proof. intros E. unfold run_head. now rewrite E. Qed.

  Lemma linv_step s h r :
    LInv s -> ready s = h :: r -> bystander t f s h ->
    LInv (run_head s) /\
    (h = HDeliver c -> f_st (futs (run_head s) f) <> FPend) /\
    (f_st (futs s f) <> FPend -> f_st (futs (run_head s) f) <> FPend).
  Proof.
    intros L E B. pose proof (LInv_Good s L) as G.
    assert (Nd : k_ctl (tasks s t) <> CDone).
    { pose proof (li_ctl _ L) as H. destruct (k_ctl (tasks s t)); try discriminate; cbn in H; congruence. }
    destruct (callback_out t f c s h r (li_reach _ L) Nd (li_waiter _ L) E B) as [O Hd].
    destruct (O G) as [G' [By Tp]]. pose proof (by_core _ _ _ _ By) as Ec.
    assert (R' : reach_ok (run_head s)).
    { rewrite (run_head_step s h r E). apply reach_ok_step; [apply L|apply B]. }
    assert (Keep : f_st (futs s f) <> FPend -> f_st (futs (run_head s) f) <> FPend).
    { intros Hn. now rewrite (by_done _ _ _ _ By Hn). }
    split; [|split; [|exact Keep]].
    - constructor.
      + exact R'.
      + apply G'.
      + rewrite (tcore_waiter _ _ Ec). apply L.
      + rewrite (tcore_started _ _ Ec). apply L.
      + rewrite (tcore_done _ _ Ec). apply L.
      + rewrite (tcore_ctl _ _ Ec). apply L.
      + destruct (li_cases _ L) as [[Hp [Hm Tk]]|[Hn Hin]].
        * assert (El : elig_t t f s) by (repeat split; try apply L; assumption).
          destruct (by_pend _ _ _ _ By Hp (k_link _ (gd_k _ _ G) t f (li_waiter _ L) Hp) (li_waiter _ L) Hm) as [[P M]|[P I]].
          -- left. split; [exact P|]. split; [exact M|now apply Tp].
          -- right. now split.
        * right. split; [now apply Keep|now apply (by_keep _ _ _ _ By)].
    - intros Eh. destruct (li_cases _ L) as [[Hp [Hm Tk]]|[Hn _]]; [|now apply Keep].
      apply Hd; [exact Eh|exact G| |exact Tk]. repeat split; try apply L; assumption.
  Qed.

  Definition found (tr : list (st * handle)) : Prop :=
    exists si, In (si, HWake t f) tr /\ LInv si /\ f_st (futs si f) <> FPend.

  Lemma heads_cons n s h r : ready s = h :: r -> heads (S n) s = (s, h) :: heads n (run_head s).
  Proof. intros E. cbn. now rewrite E. Qed.

  (* once the future is done: the wake-up is in the queue and stays until it runs *)
  Lemma phase_done n : forall s, LInv s -> f_st (futs s f) <> FPend -> cycle_ok n s ->
    found (heads n s) \/ (LInv (iter n run_head s) /\ f_st (futs (iter n run_head s) f) <> FPend).
  Proof.
    induction n as [|n IH]; intros s L Hn Ok; [right; now split|].
    destruct (ready s) as [|h r] eqn:E.
    { exfalso. destruct (li_cases _ L) as [[Hp _]|[_ Hin]]; [contradiction|]. rewrite E in Hin. destruct Hin. }
    cbn [cycle_ok] in Ok. rewrite E in Ok. destruct Ok as [[-> _]|[B Ok]].
    - left. exists s. split; [rewrite (heads_cons n s _ r E); now left|now split].
    - destruct (linv_step s h r L E B) as [L' [_ Keep]].
      destruct (IH (run_head s) L' (Keep Hn) Ok) as [[si [Hi Hs]]|Hr].
      + left. exists si. split; [rewrite (heads_cons n s h r E); now right|exact Hs].
      + right. exact Hr.
  Qed.

  (* a non-timer callback at position < n is run among the next n, unless t is woken first *)
  Lemma phase_wake n : forall s pre post, LInv s -> f_st (futs s f) <> FPend ->
    ready s = pre ++ HWake t f :: post -> length pre < n -> cycle_ok n s -> found (heads n s).
  Proof.
    induction n as [|n IH]; intros s pre post L Hn E Hl Ok; [lia|].
    destruct pre as [|h pre]; cbn [app] in E.
    - exists s. split; [rewrite (heads_cons n s _ _ E); now left|now split].
    - cbn [cycle_ok] in Ok. rewrite E in Ok. destruct Ok as [[-> _]|[B Ok]].
      + exists s. split; [rewrite (heads_cons n s _ _ E); now left|now split].
      + destruct (linv_step s h _ L E B) as [L' [_ Keep]].
        destruct (position_step s h pre (HWake t f) post E eq_refl) as [pre' [post' [E' Hl']]].
        { destruct B as [_ [_ Hk]]. destruct h; try exact I; apply Hk. }
        cbn [length] in Hl.
        destruct (IH (run_head s) pre' post' L' (Keep Hn) E' ltac:(lia) Ok) as [si [Hi Hs]].
        exists si. split; [rewrite (heads_cons n s h _ E); now right|exact Hs].
  Qed.

  (* first cycle: the delivery callback of c is reached, or the future is done before that *)
  Lemma phase_deliver n : forall s pre post, LInv s ->
    ready s = pre ++ HDeliver c :: post -> length pre < n -> cycle_ok n s ->
    found (heads n s) \/ (LInv (iter n run_head s) /\ f_st (futs (iter n run_head s) f) <> FPend).
  Proof.
    induction n as [|n IH]; intros s pre post L E Hl Ok; [lia|].
    destruct (fstate_pending_dec (f_st (futs s f))) as [Hp|Hn]; [|now apply phase_done].
    destruct pre as [|h pre]; cbn [app] in E.
    - cbn [cycle_ok] in Ok. rewrite E in Ok. destruct Ok as [[Eh _]|[B Ok]]; [discriminate|].
      destruct (linv_step s _ _ L E B) as [L' [Hd _]]. cbn [iter].
      destruct (phase_done n (run_head s) L' (Hd eq_refl) Ok) as [[si [Hi Hs]]|Hr].
      + left. exists si. split; [rewrite (heads_cons n s _ _ E); now right|exact Hs].
      + right. exact Hr.
    - cbn [cycle_ok] in Ok. rewrite E in Ok. destruct Ok as [[_ Hd]|[B Ok]]; [contradiction|].
      destruct (linv_step s h _ L E B) as [L' _].
      destruct (position_step s h pre (HDeliver c) post E eq_refl) as [pre' [post' [E' Hl']]].
      { destruct B as [_ [_ Hk]]. destruct h; try exact I; apply Hk. }
      cbn [length] in Hl. cbn [iter].
      destruct (IH (run_head s) pre' post' L' E' ltac:(lia) Ok) as [[si [Hi Hs]]|Hr].
      + left. exists si. split; [rewrite (heads_cons n s h _ E); now right|exact Hs].
      + right. exact Hr.
  Qed.
End Latency.

Lemma heads_in n : forall s si h, In (si, h) (heads n s) -> exists r, ready si = h :: r.
Proof.
  induction n as [|n IH]; intros s si h H; [destruct H|]. cbn in H. destruct (ready s) as [|h0 r] eqn:E; [destruct H|].
  destruct H as [H|H]; [inversion H; subst; now exists r|now apply (IH (run_head s))].
Qed.

Lemma wake_result t f si r :
  k_waiter (tasks si t) = Some f -> wait_ctl (k_ctl (tasks si t)) = true -> ready si = HWake t f :: r ->
  f_st (futs si f) <> FPend ->
  (exists o, snd (step si (ARun (HWake t f))) = RExc (ECancel o)) \/
  (exists v, f_st (futs si f) = FRes v) \/ (exists e, f_st (futs si f) = FExc e).
Proof.
  intros Hw Hc E Hn. destruct (f_st (futs si f)) as [|v|e|o] eqn:Ef; [now elim Hn|right; left; now exists v|right; right; now exists e|].
  left. exists o. cbn [step actor]. unfold run_handle. rewrite E. cbn [existsb remove_first]. rewrite handle_eqb_refl.
  cbn [orb negb]. set (s1 := set_ready si r).
  unfold resume. pose proof (incoming_ctl s1 t (Some f)) as Ec.
  assert (Hi : snd (incoming s1 t (Some f)) = Some (ECancel o)).
  { unfold incoming. cbn [snd]. change (futs s1 f) with (futs si f). rewrite Ef.
    destruct (k_must (tasks s1 t)); reflexivity. }
  destruct (incoming s1 t (Some f)) as [s2 inc]. cbn [fst snd] in *. subst inc. rewrite Ec.
  change (tasks s1 t) with (tasks si t).
  destruct (k_ctl (tasks si t)) as [| |[| |x]| | | | | | |]; try discriminate; reflexivity.
Qed.

(* C03 cancel_latency_le_2_cycles.  At a cycle boundary of a reachable state, task t is blocked on the pending
   future f (not yet cancelled: no request is pending on it), it has started, and it reaches the cancelled,
   hosted scope c.  If the callbacks of this and the next FIFO cycle are of the covered kinds (cycle_ok: t's own
   wake-up once f is done; or, for other tasks, delivery, task-done, sleep-timer and deadline callbacks and the
   resumption of tasks that go straight back to their program or yield again), then within these two cycles t's
   wake-up runs, and it raises a cancellation (with the origin of whichever scope delivered first: c or a nearer
   scope cancelled meanwhile) unless somebody completed f with a result or an exception first. *)
Theorem cancel_latency_le_2_cycles t f c s :
  reach_ok s -> running s <> Some t ->
  s_cancelled (scopes s c) = true -> s_host (scopes s c) <> None -> reaches s t c ->
  k_must (tasks s t) = false -> k_started (tasks s t) = true ->
  k_waiter (tasks s t) = Some f -> f_st (futs s f) = FPend -> wait_ctl (k_ctl (tasks s t)) = true ->
  cycle_ok t f (length (ready s)) s -> cycle_ok t f (length (ready (fifo_cycle s))) (fifo_cycle s) ->
  exists si,
    In (si, HWake t f) (heads (length (ready s)) s ++ heads (length (ready (fifo_cycle s))) (fifo_cycle s)) /\
    ((exists o, snd (step si (ARun (HWake t f))) = RExc (ECancel o)) \/
     (exists v, f_st (futs si f) = FRes v) \/ (exists e, f_st (futs si f) = FExc e)).
Proof.
  intros R Hr Cc Hh Rt Hm Hs Hw Hp Hctl Ok1 Ok2.
  assert (L : LInv t f c s).
  { constructor; try assumption; [apply Rt|]. left. split; [exact Hp|]. split; [exact Hm|]. exact (conj Rt (conj Cc Hh)). }
  destruct (delivery_alive s c R Cc Hh (ex_intro _ t Rt)) as [_ Hin].
  destruct (in_split _ _ Hin) as [pre [post E]].
  assert (Hl : length pre < length (ready s)) by (rewrite E, app_length; cbn; lia).
  assert (Fin : forall n s0, found t f c (heads n s0) ->
            exists si, In (si, HWake t f) (heads n s0) /\
              ((exists o, snd (step si (ARun (HWake t f))) = RExc (ECancel o)) \/
               (exists v, f_st (futs si f) = FRes v) \/ (exists e, f_st (futs si f) = FExc e))).
  { intros n s0 [si [Hi [Li Hn]]]. exists si. split; [exact Hi|].
    destruct (heads_in n s0 si _ Hi) as [r Er]. apply (wake_result t f si r); try assumption; apply Li. }
  destruct (phase_deliver t f c (length (ready s)) s pre post L E Hl Ok1) as [F|[L1 Hn1]].
  - destruct (Fin _ _ F) as [si [Hi Hres]]. exists si. split; [apply in_or_app; now left|exact Hres].
  - fold (fifo_cycle s) in L1, Hn1.
    destruct (li_cases _ _ _ _ L1) as [[Hp1 _]|[_ Hin1]]; [contradiction|].
    destruct (in_split _ _ Hin1) as [pre1 [post1 E1]].
    assert (Hl1 : length pre1 < length (ready (fifo_cycle s))) by (rewrite E1, app_length; cbn; lia).
    pose proof (phase_wake t f c _ (fifo_cycle s) pre1 post1 L1 Hn1 E1 Hl1 Ok2) as F.
    destruct (Fin _ _ F) as [si [Hi Hres]]. exists si. split; [apply in_or_app; now right|exact Hres].
Qed.

(* ================= the same for a task suspended in a bare yield (checkpoint_if_cancelled spin) ================= *)
Section Bare.
  Variables (t : tid) (c : sid).

  (* what a callback does to the yielding task t it does not resume: nothing, or it records a request *)
  Record bym (a b : st) : Prop := {
    bm_core : tk_core (tasks b t) = tk_core (tasks a t);
    bm_must : k_must (tasks a t) = true -> k_must (tasks b t) = true
  }.

  Lemma bym_refl a : bym a a. Proof. constructor; auto. Qed.

  Lemma bym_trans a b d : bym a b -> bym b d -> bym a d.
  Proof.
    intros H1 H2. constructor; [now rewrite (bm_core _ _ H2), (bm_core _ _ H1)|]. intros H. apply H2, H1, H.
  Qed.

  Lemma bym_exact a b : tasks b t = tasks a t -> bym a b.
  Proof. intros E. constructor; now rewrite E. Qed.

  Lemma tsame_fut_complete a g v : tasks (fut_complete a g v) t = tasks a t.
  Proof. now rewrite fut_complete_tasks. Qed.

  Lemma tsame_upd_other a t' g : t' <> t -> tasks (upd_task a t' g) t = tasks a t.
  Proof. intros H. cbn. unfold upd. destruct (Nat.eqb_spec t t'); [congruence|reflexivity]. Qed.

  Lemma tsame_suspend_other a t' g : t' <> t -> tasks (suspend_on a t' g) t = tasks a t.
  Proof.
    intros H. unfold suspend_on.
    set (s2 := upd_task (upd_fut a g (fun x => mkFut (f_st x) (Some t'))) t' (tk_waiter (Some g))).
    assert (E2 : tasks s2 t = tasks a t) by (unfold s2; now rewrite tsame_upd_other).
    destruct (f_st (futs a g)); try exact E2.
    destruct (k_must (tasks a t')); [|exact E2]. now rewrite tsame_upd_other, tsame_fut_complete.
  Qed.

  Lemma tsame_park_other a t' : t' <> t -> tasks (park a t') t = tasks a t.
  Proof. intros H. unfold park, new_fut. now rewrite tsame_upd_other, tsame_suspend_other. Qed.

  Lemma tsame_ret_other a t' r : t' <> t -> tasks (fst (ret_to_puppet a t' r)) t = tasks a t.
  Proof.
    intros H. unfold ret_to_puppet. cbn [fst tasks set_running]. rewrite tsame_park_other by exact H.
    destruct r; try reflexivity. now apply tsame_upd_other.
  Qed.

  Lemma bym_deliver_top a x : wait_link a -> k_waiter (tasks a t) = None -> bym a (deliver_top a x).
  Proof.
    intros WL Hw. pose proof (kframe_deliver_top a x) as K. constructor; [apply (kf_tasks _ _ K t)|].
    intros Hm. destruct (deliver_top_task a x t WL) as [[E _]|[[M _]|[f' [_ [Hw' _]]]]].
    - now rewrite E.
    - exact M.
    - rewrite (tcore_waiter _ _ (kf_tasks _ _ K t)), Hw in Hw'. discriminate.
  Qed.

  Lemma bym_scope_cancel a x b : wait_link a -> k_waiter (tasks a t) = None -> bym a (scope_cancel a x b).
  Proof.
    intros WL Hw. unfold scope_cancel. destruct (s_cancelled (scopes a x)); [apply bym_refl|].
    set (s2 := upd_scope (cancel_timeout a x) x _).
    assert (E2 : tasks s2 = tasks a) by (unfold s2, cancel_timeout; destruct (s_timeout (scopes a x)); reflexivity).
    assert (F2 : futs s2 = futs a) by (unfold s2, cancel_timeout; destruct (s_timeout (scopes a x)); reflexivity).
    destruct (s_host (scopes s2 x)); [|apply bym_exact; now rewrite E2].
    eapply bym_trans; [apply bym_exact; now rewrite E2|]. apply bym_deliver_top; [|now rewrite E2].
    intros tt ff. rewrite E2, F2. apply WL.
  Qed.

  Definition elig_y (s : st) : Prop :=
    k_done (tasks s t) = None /\ k_must (tasks s t) = false /\ k_started (tasks s t) = true /\
    k_waiter (tasks s t) = None.

  Lemma deliver_hits_y a x : Good t a -> elig_y a -> reaches a t x -> k_must (tasks (deliver_top a x) t) = true.
  Proof.
    intros G [Hd [Hm [Hs Hw]]] [_ [k [Hc Hv]]].
    destruct (deliver_top_spec a x (k_link _ (gd_k _ _ G))) as [K [_ [Req _]]].
    assert (R : requested (deliver_top a x) t (S x)).
    { apply (Req k t); [now apply vis_dreach; [apply G| |]|].
      unfold elig. refine (conj Hd (conj Hm (conj (gd_run _ _ G) (conj (or_intror Hs) _)))). now rewrite Hw. }
    destruct R as [[M _]|[f' [_ [Hw' _]]]]; [exact M|].
    rewrite (tcore_waiter _ _ (kf_tasks _ _ K t)), Hw in Hw'. discriminate.
  Qed.

  Definition Outy (a b : st) : Prop :=
    Good t a ->
    Good t b /\ bym a b /\ (elig_y a -> trk t c a -> k_must (tasks b t) = false -> trk t c b).

  Lemma elig_bym a b : bym a b -> elig_y a -> k_must (tasks b t) = false -> elig_y b.
  Proof.
    intros B [Hd [Hm [Hs Hw]]] Hmb. pose proof (bm_core _ _ B) as E. unfold elig_y.
    now rewrite (tcore_done _ _ E), (tcore_started _ _ E), (tcore_waiter _ _ E).
  Qed.

  Lemma outy_refl a : Outy a a.
  Proof. intros G. split; [exact G|]. split; [apply bym_refl|auto]. Qed.

  Lemma outy_trans a b d : Outy a b -> Outy b d -> Outy a d.
  Proof.
    intros H1 H2 G. destruct (H1 G) as [Gb [B1 T1]]. destruct (H2 Gb) as [Gd [B2 T2]].
    split; [exact Gd|]. split; [eapply bym_trans; eauto|]. intros El Tk Hm.
    assert (Hmb : k_must (tasks b t) = false).
    { destruct (k_must (tasks b t)) eqn:E; [|reflexivity]. rewrite (bm_must _ _ B2 E) in Hm. discriminate. }
    apply T2; [now apply (elig_bym a b)|now apply T1|exact Hm].
  Qed.

  Lemma outy_neutral a b : (Good t a -> Good t b) -> tasks b t = tasks a t -> dq a b -> Outy a b.
  Proof.
    intros HG E Q G. split; [now apply HG|]. split; [now apply bym_exact|]. intros _ Tk _. now apply (trk_dq t c a).
  Qed.

  Lemma outy_fut_complete a g v : Outy a (fut_complete a g v).
  Proof.
    apply outy_neutral; [|apply tsame_fut_complete|apply dq_fut_complete].
    intros G. apply (Good_kframe t a); [exact G|apply kframe_fut_complete].
  Qed.

  Lemma outy_set_running a : Outy a (set_running a None).
  Proof. apply outy_neutral; [apply Good_set_running|reflexivity|apply dq_set_running]. Qed.

  Lemma outy_upd_group a g h : Outy a (upd_group a g h).
  Proof.
    apply outy_neutral; [|reflexivity|apply dq_upd_group].
    intros G. apply (Good_same t a _ G); try reflexivity; [apply G|]. intros y; now repeat split.
  Qed.

  Lemma outy_deliver_top a x : k_waiter (tasks a t) = None -> Outy a (deliver_top a x).
  Proof.
    intros Hw G. split; [apply (Good_kframe t a); [exact G|apply kframe_deliver_top]|].
    split; [apply bym_deliver_top; [apply (gd_k _ _ G)|exact Hw]|].
    intros _ Tk _. apply (trk_kframe t c a); [apply kframe_deliver_top|exact Tk].
  Qed.

  Lemma outy_scope_cancel a x b : k_waiter (tasks a t) = None -> Outy a (scope_cancel a x b).
  Proof.
    intros Hw G. pose proof (out_scope_cancel t 0 c a x b G) as [G' _].
    split; [exact G'|]. split; [apply bym_scope_cancel; [apply (gd_k _ _ G)|exact Hw]|].
    intros El Tk Hm.
    (* replay the split of the walk with the must flag in place of the future *)
    unfold scope_cancel in *. destruct (s_cancelled (scopes a x)) eqn:Ex; [exact Tk|].
    set (s1 := cancel_timeout a x) in *.
    assert (G1 : Good t s1).
    { pose proof (treq_cancel_timeout a x) as K. apply (Good_same t a s1 G).
      - apply (tq_nscope _ _ K).
      - unfold s1, cancel_timeout. destruct (s_timeout (scopes a x)); [cbn|]; apply G.
      - intros y. now rewrite (tq_active _ _ K), (tq_parent _ _ K), (tq_children _ _ K), (tq_stasks _ _ K), (tq_host _ _ K).
      - unfold s1, cancel_timeout. destruct (s_timeout (scopes a x)); reflexivity.
      - unfold s1, cancel_timeout. destruct (s_timeout (scopes a x)); reflexivity.
      - unfold s1, cancel_timeout. destruct (s_timeout (scopes a x)); reflexivity. }
    assert (T1 : trk t c s1) by (apply (trk_dq t c a); [apply dq_cancel_timeout|exact Tk]).
    assert (E1 : elig_y s1).
    { destruct El as [A [B [C D]]]. unfold elig_y, s1, cancel_timeout. destruct (s_timeout (scopes a x)); cbn; now repeat split. }
    assert (Ex1 : s_cancelled (scopes s1 x) = false).
    { unfold s1. rewrite (vw_cancelled _ _ (dq_scope _ _ (dq_cancel_timeout a x) x)). exact Ex. }
    set (s2 := upd_scope s1 x (fun y => sc_bydeadline b (sc_cancelled true y))) in *.
    assert (Eo : forall y, y <> x -> scopes s2 y = scopes s1 y).
    { intros y Hy. unfold s2. cbn. unfold upd. destruct (Nat.eqb_spec y x); [contradiction|reflexivity]. }
    assert (Ec2 : scopes s2 x = sc_bydeadline b (sc_cancelled true (scopes s1 x))).
    { unfold s2. cbn. unfold upd. now rewrite Nat.eqb_refl. }
    assert (G2 : Good t s2).
    { apply (Good_same t s1 s2 G1); try reflexivity; [apply G1|].
      intros y. destruct (Nat.eq_dec y x) as [->|Hy]; [rewrite Ec2|rewrite (Eo y Hy)]; now repeat split. }
    destruct T1 as [[Hd [k [Hc Hv]]] [Cc Hh]].
    assert (Hxc : x <> c) by (intros ->; congruence).
    assert (Cc2 : s_cancelled (scopes s2 c) = true /\ s_host (scopes s2 c) <> None).
    { rewrite (Eo c (fun E => Hxc (eq_sym E))). now split. }
    destruct (vis_cancel_split s1 s2 x c k Eo) as [V|V]; [now rewrite Ec2|now rewrite Ec2|exact Hv| |].
    - assert (T2 : trk t c s2) by (split; [split; [exact Hd|exists k; now split]|exact Cc2]).
      destruct (s_host (scopes s2 x)); [|exact T2]. apply (trk_kframe t c s2); [apply kframe_deliver_top|exact T2].
    - assert (Ax : s_active (scopes s2 x) = true).
      { pose proof (tl_cur_act _ (gd_tl _ _ G2) t k Hc) as Ak. clear - V Ak G2.
        induction V as [|y p F1 F2 F3 V IH]; [exact Ak|]. apply IH. apply (tl_par_act _ (gd_tl _ _ G2) y p Ak F3). }
      destruct (s_host (scopes s2 x)) eqn:Ehx; [|exfalso; now apply (gd_host _ _ G2 x Ax)].
      exfalso. assert (M : k_must (tasks (deliver_top s2 x) t) = true).
      { apply deliver_hits_y; [exact G2|exact E1|]. split; [exact Hd|]. exists k. now split. }
      congruence.
  Qed.

  Lemma outy_scope_timeout a x : k_waiter (tasks a t) = None -> Outy a (scope_timeout a x).
  Proof.
    intros Hw. unfold scope_timeout. destruct (s_deadline (scopes a x)); [|apply outy_refl].
    destruct (Z.leb z (now a)); [now apply outy_scope_cancel|].
    apply outy_neutral; [|reflexivity|].
    - intros G. apply (Good_same t a _ G); try reflexivity; [apply G|].
      intros y. cbn. unfold upd. destruct (Nat.eqb_spec y x); [subst|]; now repeat split.
    - constructor; auto. intros y. cbn. unfold upd. destruct (Nat.eqb_spec y x); [subst|]; reflexivity.
  Qed.
End Bare.

Section BareSteps.
  Variables (t : tid) (c : sid).

  Lemma outy_td_tail s3 k g t' : k_waiter (tasks s3 t) = None -> Outy t c s3 (td_tail s3 k g t').
  Proof.
    intros Hw. unfold td_tail.
    set (s4 := match g_fut (groups s3 g) with
               | Some f0 => match g_tasks (groups s3 g) with [] => fut_complete s3 f0 (FRes 0) | _ :: _ => s3 end
               | None => s3 end).
    assert (K4 : Outy t c s3 s4 /\ tasks s4 t = tasks s3 t).
    { unfold s4. destruct (g_fut (groups s3 g)); [|split; [apply outy_refl|reflexivity]].
      destruct (g_tasks (groups s3 g)); [split; [apply outy_fut_complete|apply tsame_fut_complete]|
                                         split; [apply outy_refl|reflexivity]]. }
    clearbody s4. destruct K4 as [K4 E4].
    assert (Hw4 : k_waiter (tasks s4 t) = None) by now rewrite E4.
    assert (Kc : forall a, k_waiter (tasks a t) = None ->
                 Outy t c a (if eff_cancelled a (g_scope (groups a g)) then a
                             else scope_cancel a (g_scope (groups a g)) false)).
    { intros a Ha. destruct (eff_cancelled a _); [apply outy_refl|now apply outy_scope_cancel]. }
    assert (Kxc : forall e, Outy t c s4 (let s5 := upd_group s4 g (fun x => gr_excs (g_excs x ++ [(t', e)]) x) in
                                         scope_cancel s5 (g_scope (groups s5 g)) false)).
    { intros e. cbv zeta. apply (outy_trans t c s4 (upd_group s4 g (fun x => gr_excs (g_excs x ++ [(t', e)]) x)));
        [apply outy_upd_group|apply outy_scope_cancel; exact Hw4]. }
    apply (outy_trans t c s3 s4); [exact K4|].
    destruct (k_done k) as [[v|e|e]|].
    - destruct (k_startfut k) as [f0|]; [|apply outy_refl].
      destruct (f_st (futs s4 f0)); try apply outy_refl. apply outy_fut_complete.
    - destruct (k_startfut k) as [f0|].
      + destruct (f_st (futs s4 f0)).
        * apply outy_fut_complete.
        * destruct (is_cancel e); [now apply Kc|apply Kxc].
        * destruct (is_cancel e); [now apply Kc|apply Kxc].
        * destruct (is_cancel e); [apply outy_refl|apply Kxc].
      + destruct (is_cancel e); [now apply Kc|apply Kxc].
    - destruct (k_startfut k) as [f0|].
      + destruct (f_st (futs s4 f0)).
        * apply outy_fut_complete.
        * destruct (is_cancel e); [now apply Kc|apply Kxc].
        * destruct (is_cancel e); [now apply Kc|apply Kxc].
        * destruct (is_cancel e); [apply outy_refl|apply Kxc].
      + destruct (is_cancel e); [now apply Kc|apply Kxc].
    - destruct (k_startfut k) as [f0|]; [|apply outy_refl].
      destruct (f_st (futs s4 f0)); try apply outy_refl. apply outy_fut_complete.
  Qed.

  Lemma outy_td_struct a t' g :
    Tree a -> (forall x, s_host (scopes a x) <> Some t') -> t' <> t -> Outy t c a (td_struct a t' g).
  Proof.
    intros T Hn Ht G. pose proof (out_td_struct t 0 c a t' g T Hn Ht G) as [G' _].
    assert (Ek : tasks (td_struct a t' g) t = tasks a t).
    { unfold td_struct. destruct (k_cur (tasks a t')); cbn; unfold upd; (destruct (Nat.eqb_spec t t'); [congruence|reflexivity]). }
    split; [exact G'|]. split; [now apply bym_exact|].
    intros _ Tk _. apply (trk_view t c a); [| now rewrite Ek|now rewrite Ek|exact Tk].
    intros y. unfold td_struct. destruct (k_cur (tasks a t')) as [x|]; cbn; [|reflexivity].
    unfold upd. destruct (Nat.eqb_spec y x); [subst|]; reflexivity.
  Qed.

  Lemma outy_resume_simple a t' fo :
    t' <> t -> simple_ctl (k_ctl (tasks a t')) = true -> Outy t c a (fst (resume a t' fo)).
  Proof.
    intros Ht Hs G.
    (* the structural part is the one proved for the future-based case, for any future id below nfut *)
    assert (Hf : 0 < nfut a \/ nfut a = 0) by lia.
    pose proof (rsh_resume_simple a t' fo Hs) as _.
    unfold resume in *. pose proof (incoming_ctl a t' fo) as Ec.
    pose proof (dq_incoming a t' fo) as Q0. pose proof (treq_incoming a t' fo) as T0.
    pose proof (kq_incoming a t' fo) as Kq0.
    assert (E0 : tasks (fst (incoming a t' fo)) t = tasks a t).
    { unfold incoming. cbn. unfold upd. destruct (Nat.eqb_spec t t'); [congruence|reflexivity]. }
    assert (Rn : running (fst (incoming a t' fo)) = Some t') by reflexivity.
    destruct (incoming a t' fo) as [s inc]. cbn [fst] in *. rewrite Ec.
    assert (G0 : Good t s).
    { apply (Good_treq t a s G T0); [apply (KInv_kq a); [apply G|exact Kq0]|].
      rewrite Rn. intros E. inversion E. now apply Ht. }
    assert (Fin : forall b, treq s b -> KInv b -> running b <> Some t -> tasks b t = tasks s t -> dq s b ->
                            Good t b /\ bym t a b /\ (elig_y t a -> trk t c a -> k_must (tasks b t) = false -> trk t c b)).
    { intros b Tb Kb Rb Eb Qb. split; [now apply (Good_treq t s b G0)|]. split; [apply bym_exact; now rewrite Eb|].
      intros _ Tk _. apply (trk_dq t c s); [exact Qb|]. now apply (trk_dq t c a). }
    assert (Ret : forall s1 r, treq s s1 -> KInv s1 -> tasks s1 t = tasks s t -> dq s s1 ->
              Good t (fst (ret_to_puppet s1 t' r)) /\ bym t a (fst (ret_to_puppet s1 t' r)) /\
              (elig_y t a -> trk t c a -> k_must (tasks (fst (ret_to_puppet s1 t' r)) t) = false ->
               trk t c (fst (ret_to_puppet s1 t' r)))).
    { intros s1 r T1 K1 E1 Q1. apply Fin.
      - eapply treq_trans; [exact T1|apply treq_ret_to_puppet].
      - now apply K_ret.
      - cbn. discriminate.
      - rewrite tsame_ret_other by exact Ht. exact E1.
      - eapply dq_trans; [exact Q1|apply dq_ret_to_puppet]. }
    destruct (k_ctl (tasks a t')) as [| |[| |x]| | | | | | |] eqn:Ectl; try discriminate.
    - cbn [fst].
      set (s1 := match inc with Some e => upd_task s t' (tk_held (Some e)) | None => s end).
      assert (H1 : treq s s1 /\ KInv s1 /\ tasks s1 t = tasks s t /\ dq s s1).
      { unfold s1. destruct inc; [|split; [apply treq_refl|split; [apply G0|split; [reflexivity|apply dq_refl]]]].
        split; [apply treq_upd_task; intros k; reflexivity|].
        split; [apply (KInv_kq s); [apply G0|apply kq_upd_task; intros k; now left]|].
        split; [now apply tsame_upd_other|apply dq_upd_task; intros k; now split]. }
      destruct H1 as [T1 [K1 [E1 Q1]]]. apply Fin.
      + eapply treq_trans; [exact T1|]. eapply treq_trans; [apply treq_park|apply treq_set_running].
      + apply (KInv_kq (park s1 t')); [now apply K_park|apply kq_set_running].
      + cbn. discriminate.
      + cbn [tasks set_running]. rewrite tsame_park_other by exact Ht. exact E1.
      + eapply dq_trans; [exact Q1|]. eapply dq_trans; [apply dq_park|apply dq_set_running].
    - apply Ret; [apply treq_refl|apply G0|reflexivity|apply dq_refl].
    - destruct inc; [apply Ret; [apply treq_refl|apply G0|reflexivity|apply dq_refl]|].
      destruct (ckif_spins _ _ _); [|apply Ret; [apply treq_refl|apply G0|reflexivity|apply dq_refl]].
      cbn [fst blocked]. apply Fin.
      + eapply treq_trans; [apply treq_bare_yield|apply treq_set_running].
      + apply (KInv_kq s); [apply G0|]. eapply kq_trans; [apply kq_bare_yield|apply kq_set_running].
      + cbn. discriminate.
      + reflexivity.
      + eapply dq_trans; [apply dq_call_soon|apply dq_set_running].
    - apply Ret; [apply treq_timer_cancel|apply (KInv_kq s); [apply G0|apply kq_tasks_same; reflexivity]|reflexivity|
                  apply dq_timer_cancel].
    - apply Ret; [apply treq_event_unwait|apply (KInv_kq s); [apply G0|apply kq_event_unwait]| |apply dq_event_unwait].
      destruct f; reflexivity.
    - cbn [fst]. split; [exact G|]. split; [apply bym_refl|auto].
  Qed.
End BareSteps.

Section SpinLatency.
  Variables (t : tid) (c : sid).

  Definition bystander_y (s : st) (h : handle) : Prop :=
    op_ok s (ARun h) = true /\ h <> HStep t /\
    match h with
    | HStep t' | HWake t' _ => t' <> t /\ simple_ctl (k_ctl (tasks s t')) = true
    | _ => True
    end.

  Lemma callback_outy s h r :
    reach_ok s -> k_ctl (tasks s t) <> CDone -> k_waiter (tasks s t) = None ->
    ready s = h :: r -> bystander_y s h ->
    Outy t c s (run_head s) /\
    (h = HDeliver c -> Good t s -> elig_y t s -> trk t c s -> k_must (tasks (run_head s) t) = true).
  Proof.
    intros R Nd Hw E [Hok [Hne Hk]].
    destruct (reach_sinv s R) as [[T C] _].
    set (s1 := set_ready s r).
    assert (O1 : Outy t c s s1).
    { intros G. split; [|split].
      - apply (Good_same t s s1 G); try reflexivity; [apply G|]. intros y; now repeat split.
      - now apply bym_exact.
      - intros _ Tk _. apply (trk_view t c s s1); auto. }
    rewrite (run_head_cons s h r E).
    destruct h as [t'|t' f'|c'|t'|g tm|x tm].
    - split; [|discriminate]. destruct Hk as [Ht Hs]. apply (outy_trans t c s s1); [exact O1|]. now apply outy_resume_simple.
    - split; [|discriminate]. destruct Hk as [Ht Hs]. apply (outy_trans t c s s1); [exact O1|]. now apply outy_resume_simple.
    - cbn [fst]. split.
      + apply (outy_trans t c s s1); [exact O1|]. apply (outy_trans t c s1 (set_running s1 None)); [apply outy_set_running|].
        apply (outy_trans t c _ (deliver_top (set_running s1 None) c')); [now apply outy_deliver_top|apply outy_set_running].
      + intros Ec G El Tk. inversion Ec; subst c'.
        change (tasks (set_running (deliver_top (set_running s1 None) c) None) t) with (tasks (deliver_top (set_running s1 None) c) t).
        destruct (O1 G) as [G1 _].
        assert (Tk1 : trk t c (set_running s1 None)) by (apply (trk_view t c s); auto).
        apply (deliver_hits_y t (set_running s1 None) c); [now apply Good_set_running|exact El|apply Tk1].
    - split; [|discriminate]. cbn [fst]. fold s1. rewrite run_task_done_eq.
      assert (Hin : In (HTaskDone t') (ready s)) by (rewrite E; now left).
      destruct (c_td _ C t' Hin) as [A' Ed].
      assert (Ht : t' <> t) by (intros ->; contradiction).
      destruct (c_ok _ C t' A') as [_ [_ [_ [Kd _]]]]. specialize (Kd Ed).
      apply (outy_trans t c s s1); [exact O1|].
      destruct (k_group (tasks s1 t')) as [g|]; [|apply outy_set_running].
      apply (outy_trans t c s1 (set_running s1 None)); [apply outy_set_running|].
      apply (outy_trans t c _ (td_struct (set_running s1 None) t' g)).
      + apply outy_td_struct; [|exact Kd|exact Ht].
        apply (Tree_treq s); [exact T|]. eapply treq_trans; [apply treq_set_ready|apply treq_set_running].
      + apply outy_td_tail. unfold td_struct. destruct (k_cur _); cbn; unfold upd;
          (destruct (Nat.eqb_spec t t'); [congruence|exact Hw]).
    - split; [|discriminate]. cbn [fst]. apply (outy_trans t c s s1); [exact O1|]. apply outy_fut_complete.
    - split; [|discriminate]. cbn [fst]. apply (outy_trans t c s s1); [exact O1|].
      apply (outy_trans t c s1 (set_running s1 None)); [apply outy_set_running|].
      apply (outy_trans t c _ (scope_timeout (set_running s1 None) x)); [now apply outy_scope_timeout|apply outy_set_running].
  Qed.

  Record LInvY (s : st) : Prop := {
    ly_reach : reach_ok s;
    ly_run : running s <> Some t;
    ly_waiter : k_waiter (tasks s t) = None;
    ly_started : k_started (tasks s t) = true;
    ly_done : k_done (tasks s t) = None;
    ly_ctl : k_ctl (tasks s t) = CYield YCkIf;
    ly_step : In (HStep t) (ready s);
    ly_cases : k_must (tasks s t) = true \/ (k_must (tasks s t) = false /\ trk t c s)
  }.

  Fixpoint cycle_oky (n : nat) (s : st) : Prop :=
    match n with
    | 0 => True
    | S m => match ready s with
             | [] => True
             | h :: _ => (h = HStep t \/ bystander_y s h) /\ cycle_oky m (run_head s)
             end
    end.

  Lemma LInvY_Good s : LInvY s -> Good t s.
  Proof.
    intros L. pose proof (reach_tree s (ly_reach _ L)) as T. constructor.
    - now apply Tree_TreeL.
    - destruct (ly_reach _ L) as [ops [_ ->]]. apply reach_kinv.
    - apply L.
    - intros y Ha. destruct (tr_host_act _ T y Ha) as [x [E _]]. rewrite E. discriminate.
  Qed.

  Lemma linvy_step s h r :
    LInvY s -> ready s = h :: r -> bystander_y s h ->
    LInvY (run_head s) /\
    (h = HDeliver c -> k_must (tasks (run_head s) t) = true) /\
    (k_must (tasks s t) = true -> k_must (tasks (run_head s) t) = true).
  Proof.
    intros L E B. pose proof (LInvY_Good s L) as G.
    assert (Nd : k_ctl (tasks s t) <> CDone) by (rewrite (ly_ctl _ L); discriminate).
    destruct (callback_outy s h r (ly_reach _ L) Nd (ly_waiter _ L) E B) as [O Hd].
    destruct (O G) as [G' [By Tp]]. pose proof (bm_core _ _ _ By) as Ec.
    assert (R' : reach_ok (run_head s)).
    { unfold run_head. rewrite E. apply reach_ok_step; [apply L|apply B]. }
    assert (El : k_must (tasks s t) = false -> elig_y t s) by (intros Hm; repeat split; try apply L; exact Hm).
    split; [|split; [|apply (bm_must _ _ _ By)]].
    - constructor.
      + exact R'.
      + apply G'.
      + rewrite (tcore_waiter _ _ Ec). apply L.
      + rewrite (tcore_started _ _ Ec). apply L.
      + rewrite (tcore_done _ _ Ec). apply L.
      + rewrite (tcore_ctl _ _ Ec). apply L.
      + destruct B as [_ [Hne Hk]].
        destruct (rsh_run_head s h r E) as [P [new [Er HP]]]; [destruct h; try exact I; apply Hk|].
        rewrite Er. apply in_or_app. left. apply filter_In. split; [|now apply HP].
        pose proof (ly_step _ L) as Hin. rewrite E in Hin. destruct Hin as [Hin|Hin]; [now elim Hne|exact Hin].
      + destruct (k_must (tasks (run_head s) t)) eqn:Em; [now left|right]. split; [reflexivity|].
        destruct (ly_cases _ L) as [Hm|[Hm Tk]]; [rewrite (bm_must _ _ _ By Hm) in Em; discriminate|].
        now apply Tp; [apply El| |].
    - intros Eh. destruct (ly_cases _ L) as [Hm|[Hm Tk]]; [now apply (bm_must _ _ _ By)|].
      apply Hd; [exact Eh|exact G|now apply El|exact Tk].
  Qed.

  (* the cancelled scope c is visible from t: the re-check of the spin (F46) finds it *)
  Lemma trk_spins s : reach_ok s -> trk t c s -> ckif_spins (nscope s) s (k_cur (tasks s t)) = true.
  Proof.
    intros R [[_ [x [Ex Hv]]] [Cc _]]. pose proof (reach_tree s R) as T. rewrite Ex, ckif_spins_is_eff_cancelled.
    apply (vis_cancelled_eff s c x (nscope s) Hv Cc). intros n Hn.
    apply (upn_bound s x n (Tree_TreeL s T) Hn (tr_cur_act _ T t x Ex)).
  Qed.

  (* t's own step while no request is recorded and a cancelled scope is still visible: checkpoint_if_cancelled
     yields once more *)
  Lemma own_eq s r :
    ready s = HStep t :: r -> k_must (tasks s t) = false -> k_ctl (tasks s t) = CYield YCkIf ->
    ckif_spins (nscope s) s (k_cur (tasks s t)) = true ->
    run_head s =
    set_running (bare_yield (set_running (upd_task (set_ready s r) t
                   (fun x => tk_must false (k_msg x) (tk_waiter None x))) (Some t)) t) None.
  Proof.
    intros E Hm Hc Hsp. rewrite (run_head_cons s _ r E). set (s1 := set_ready s r).
    unfold resume. pose proof (incoming_ctl s1 t None) as Ec.
    assert (Hi : incoming s1 t None =
                 (set_running (upd_task s1 t (fun x => tk_must false (k_msg x) (tk_waiter None x))) (Some t), None)).
    { unfold incoming. change (tasks s1 t) with (tasks s t). now rewrite Hm. }
    rewrite Hi in *. cbn [fst] in Ec. rewrite Ec. change (tasks s1 t) with (tasks s t). rewrite Hc.
    match goal with |- context [ckif_spins ?n ?a ?x] => assert (Esp : ckif_spins n a x = true) end.
    { rewrite (ckif_spins_scopes _ s); [|reflexivity]. rewrite <- Hsp. f_equal.
      cbn [set_running upd_task set_tasks tasks]. rewrite upd_same. reflexivity. }
    rewrite Esp. reflexivity.
  Qed.

  Lemma own_result si r :
    ready si = HStep t :: r -> k_must (tasks si t) = true -> k_ctl (tasks si t) = CYield YCkIf ->
    exists o, snd (step si (ARun (HStep t))) = RExc (ECancel o).
  Proof.
    intros E Hm Hc. exists (k_msg (tasks si t)). cbn [step actor]. unfold run_handle. rewrite E.
    cbn [existsb remove_first]. rewrite handle_eqb_refl. cbn [orb negb]. set (s1 := set_ready si r).
    unfold resume. pose proof (incoming_ctl s1 t None) as Ec.
    assert (Hi : snd (incoming s1 t None) = Some (ECancel (k_msg (tasks si t)))).
    { unfold incoming. cbn [snd]. change (tasks s1 t) with (tasks si t). now rewrite Hm. }
    destruct (incoming s1 t None) as [s2 inc]. cbn [fst snd] in *. subst inc. rewrite Ec.
    change (tasks s1 t) with (tasks si t). rewrite Hc. reflexivity.
  Qed.

  Lemma linvy_own s r :
    LInvY s -> ready s = HStep t :: r -> k_must (tasks s t) = false ->
    LInvY (run_head s) /\ k_must (tasks (run_head s) t) = false.
  Proof.
    intros L E Hm.
    assert (R' : reach_ok (run_head s)).
    { rewrite (run_head_step s _ r E). apply reach_ok_step; [apply L|reflexivity]. }
    assert (Hsp : ckif_spins (nscope s) s (k_cur (tasks s t)) = true).
    { destruct (ly_cases _ L) as [H|[_ Tk]]; [congruence|]. apply trk_spins; [apply L|exact Tk]. }
    revert R'. rewrite (own_eq s r E Hm (ly_ctl _ L) Hsp). intros R'.
    set (s' := set_running _ None) in *.
    assert (Et : tasks s' t = tk_must false (k_msg (tasks s t)) (tk_waiter None (tasks s t))).
    { unfold s'. cbn. unfold upd. now rewrite Nat.eqb_refl. }
    split; [|now rewrite Et].
    constructor.
    - exact R'.
    - discriminate.
    - now rewrite Et.
    - rewrite Et. apply L.
    - rewrite Et. apply L.
    - rewrite Et. apply L.
    - unfold s'. cbn. apply in_or_app. right. now left.
    - right. split; [now rewrite Et|].
      destruct (ly_cases _ L) as [H|[_ Tk]]; [congruence|].
      apply (trk_view t c s s'); [reflexivity|now rewrite Et|now rewrite Et|exact Tk].
  Qed.

  Definition foundy (tr : list (st * handle)) : Prop :=
    exists si, In (si, HStep t) tr /\ LInvY si /\ k_must (tasks si t) = true.

  Lemma simple_of s h : LInvY s -> (h = HStep t \/ bystander_y s h) ->
    match h with HStep t' | HWake t' _ => simple_ctl (k_ctl (tasks s t')) = true | _ => True end.
  Proof.
    intros L [->|[_ [_ Hk]]]; [now rewrite (ly_ctl _ L)|]. destruct h; try exact I; apply Hk.
  Qed.

  (* one callback of a covered cycle, seen from t: either t's own step runs with a recorded request (found), or
     the invariant is kept, a recorded request stays recorded, and the delivery callback of c records one *)
  Lemma linvy_any s h r :
    LInvY s -> ready s = h :: r -> (h = HStep t \/ bystander_y s h) ->
    (h = HStep t /\ k_must (tasks s t) = true) \/
    (LInvY (run_head s) /\
     (h = HDeliver c -> k_must (tasks (run_head s) t) = true) /\
     (k_must (tasks s t) = true -> k_must (tasks (run_head s) t) = true)).
  Proof.
    intros L E [->|B].
    - destruct (k_must (tasks s t)) eqn:Hm; [left; now split|right].
      destruct (linvy_own s r L E Hm) as [L' Hm']. split; [exact L'|]. split; [discriminate|discriminate].
    - right. now apply (linvy_step s h r).
  Qed.

  Lemma phasey_keep n : forall s, LInvY s -> k_must (tasks s t) = true -> cycle_oky n s ->
    foundy (heads n s) \/ (LInvY (iter n run_head s) /\ k_must (tasks (iter n run_head s) t) = true).
  Proof.
    induction n as [|n IH]; intros s L Hm Ok; [right; now split|].
    destruct (ready s) as [|h r] eqn:E.
    { exfalso. pose proof (ly_step _ L) as Hin. rewrite E in Hin. destruct Hin. }
    cbn [cycle_oky] in Ok. rewrite E in Ok. destruct Ok as [Hk Ok].
    destruct (linvy_any s h r L E Hk) as [[-> _]|[L' [_ Keep]]].
    - left. exists s. split; [rewrite (heads_cons n s _ r E); now left|now split].
    - cbn [iter]. destruct (IH (run_head s) L' (Keep Hm) Ok) as [[si [Hi Hs]]|Hr].
      + left. exists si. split; [rewrite (heads_cons n s h r E); now right|exact Hs].
      + right. exact Hr.
  Qed.

  Lemma phasey_step n : forall s pre post, LInvY s -> k_must (tasks s t) = true ->
    ready s = pre ++ HStep t :: post -> length pre < n -> cycle_oky n s -> foundy (heads n s).
  Proof.
    induction n as [|n IH]; intros s pre post L Hm E Hl Ok; [lia|].
    destruct pre as [|h pre]; cbn [app] in E.
    - exists s. split; [rewrite (heads_cons n s _ _ E); now left|now split].
    - cbn [cycle_oky] in Ok. rewrite E in Ok. destruct Ok as [Hk Ok].
      destruct (linvy_any s h _ L E Hk) as [[-> _]|[L' [_ Keep]]].
      + exists s. split; [rewrite (heads_cons n s _ _ E); now left|now split].
      + destruct (position_step s h pre (HStep t) post E eq_refl (simple_of s h L Hk)) as [pre' [post' [E' Hl']]].
        cbn [length] in Hl.
        destruct (IH (run_head s) pre' post' L' (Keep Hm) E' ltac:(lia) Ok) as [si [Hi Hs]].
        exists si. split; [rewrite (heads_cons n s h _ E); now right|exact Hs].
  Qed.

  Lemma phasey_deliver n : forall s pre post, LInvY s ->
    ready s = pre ++ HDeliver c :: post -> length pre < n -> cycle_oky n s ->
    foundy (heads n s) \/ (LInvY (iter n run_head s) /\ k_must (tasks (iter n run_head s) t) = true).
  Proof.
    induction n as [|n IH]; intros s pre post L E Hl Ok; [lia|].
    destruct (k_must (tasks s t)) eqn:Hm; [now apply phasey_keep|].
    destruct pre as [|h pre]; cbn [app] in E.
    - cbn [cycle_oky] in Ok. rewrite E in Ok. destruct Ok as [Hk Ok].
      destruct (linvy_any s _ _ L E Hk) as [[Eh _]|[L' [Hd _]]]; [discriminate|]. cbn [iter].
      destruct (phasey_keep n (run_head s) L' (Hd eq_refl) Ok) as [[si [Hi Hs]]|Hr].
      + left. exists si. split; [rewrite (heads_cons n s _ _ E); now right|exact Hs].
      + right. exact Hr.
    - cbn [cycle_oky] in Ok. rewrite E in Ok. destruct Ok as [Hk Ok].
      destruct (linvy_any s h _ L E Hk) as [[_ Hm']|[L' _]]; [congruence|].
      destruct (position_step s h pre (HDeliver c) post E eq_refl (simple_of s h L Hk)) as [pre' [post' [E' Hl']]].
      cbn [length] in Hl. cbn [iter].
      destruct (IH (run_head s) pre' post' L' E' ltac:(lia) Ok) as [[si [Hi Hs]]|Hr].
      + left. exists si. split; [rewrite (heads_cons n s h _ E); now right|exact Hs].
      + right. exact Hr.
  Qed.
End SpinLatency.

(* C03 ckif_spin_terminates.  A task spinning on checkpoint_if_cancelled (suspended in the bare yield of
   CYield YCkIf, its step callback scheduled) that reaches a cancelled, hosted scope c is resumed with a
   cancellation within the current and the next FIFO cycle -- so the spin makes at most one more round --
   provided the callbacks of these two cycles are of the covered kinds (cycle_oky: t's own step; or, for other
   tasks, delivery, task-done, sleep-timer and deadline callbacks and resumptions of tasks that go straight back
   to their program or yield again). *)
Theorem ckif_spin_terminates t c s :
  reach_ok s -> running s <> Some t ->
  s_cancelled (scopes s c) = true -> s_host (scopes s c) <> None -> reaches s t c ->
  k_started (tasks s t) = true -> k_waiter (tasks s t) = None ->
  k_ctl (tasks s t) = CYield YCkIf -> In (HStep t) (ready s) ->
  cycle_oky t (length (ready s)) s -> cycle_oky t (length (ready (fifo_cycle s))) (fifo_cycle s) ->
  exists si,
    In (si, HStep t) (heads (length (ready s)) s ++ heads (length (ready (fifo_cycle s))) (fifo_cycle s)) /\
    exists o, snd (step si (ARun (HStep t))) = RExc (ECancel o).
Proof.
  intros R Hr Cc Hh Rt Hs Hw Hctl Hin0 Ok1 Ok2.
  assert (L : LInvY t c s).
  { constructor; try assumption; [apply Rt|].
    destruct (k_must (tasks s t)); [now left|right]. split; [reflexivity|]. exact (conj Rt (conj Cc Hh)). }
  assert (Fin : forall n s0, foundy t c (heads n s0) ->
            exists si, In (si, HStep t) (heads n s0) /\ exists o, snd (step si (ARun (HStep t))) = RExc (ECancel o)).
  { intros n s0 [si [Hi [Li Hm]]]. exists si. split; [exact Hi|].
    destruct (heads_in n s0 si _ Hi) as [r Er]. apply (own_result t si r Er Hm). apply Li. }
  assert (Second : forall s1, s1 = fifo_cycle s -> LInvY t c s1 -> k_must (tasks s1 t) = true ->
            exists si, In (si, HStep t) (heads (length (ready s1)) s1) /\
                       exists o, snd (step si (ARun (HStep t))) = RExc (ECancel o)).
  { intros s1 Es L1 Hm1. pose proof (ly_step _ _ _ L1) as Hin1.
    destruct (in_split _ _ Hin1) as [pre1 [post1 E1]].
    assert (Hl1 : length pre1 < length (ready s1)) by (rewrite E1, app_length; cbn; lia).
    subst s1. apply Fin. exact (phasey_step t c _ (fifo_cycle s) pre1 post1 L1 Hm1 E1 Hl1 Ok2). }
  assert (First : foundy t c (heads (length (ready s)) s) \/
                  (LInvY t c (fifo_cycle s) /\ k_must (tasks (fifo_cycle s) t) = true)).
  { destruct (delivery_alive s c R Cc Hh (ex_intro _ t Rt)) as [_ Hin].
    destruct (in_split _ _ Hin) as [pre [post E]].
    assert (Hl : length pre < length (ready s)) by (rewrite E, app_length; cbn; lia).
    exact (phasey_deliver t c (length (ready s)) s pre post L E Hl Ok1). }
  destruct First as [F|[L1 Hm1]].
  - destruct (Fin _ _ F) as [si [Hi Hres]]. exists si. split; [apply in_or_app; now left|exact Hres].
  - destruct (Second _ eq_refl L1 Hm1) as [si [Hi Hres]]. exists si. split; [apply in_or_app; now right|exact Hres].
Qed.

(* ---------------- non-vacuity of the two latency theorems ----------------
   Task 1 cancels its own scope 1 while running (the delivery callback skips the running task and stays
   scheduled), then (a) sleeps forever / (b) calls checkpoint_if_cancelled.  All premises hold, the covered-cycle
   predicates included, and the observed schedules are
     (a) [HDeliver 1] ; [HWake 1 5; HDeliver 1]       (b) [HDeliver 1; HStep 1] ; [HDeliver 1]. *)
Definition lat_ops : list op := [ANewRoot; ANewScope 1 None false; AEnter 1 1; ACancel 1 1; ASleep 1 None].
Definition spin_ops : list op := [ANewRoot; ANewScope 1 None false; AEnter 1 1; ACancel 1 1; ACkIf 1].

Example lat_reach : reach_ok (final step init lat_ops).
Proof. exists lat_ops. split; [vm_compute; reflexivity|reflexivity]. Qed.

Example spin_reach : reach_ok (final step init spin_ops).
Proof. exists spin_ops. split; [vm_compute; reflexivity|reflexivity]. Qed.

Ltac vc := vm_compute; reflexivity.

Example lat_premises :
  let s := final step init lat_ops in
  running s <> Some 1 /\ s_cancelled (scopes s 1) = true /\ s_host (scopes s 1) <> None /\ reaches s 1 1 /\
  k_must (tasks s 1) = false /\ k_started (tasks s 1) = true /\ k_waiter (tasks s 1) = Some 5 /\
  f_st (futs s 5) = FPend /\ wait_ctl (k_ctl (tasks s 1)) = true /\
  cycle_ok 1 5 (length (ready s)) s /\ cycle_ok 1 5 (length (ready (fifo_cycle s))) (fifo_cycle s) /\
  map snd (heads (length (ready s)) s ++ heads (length (ready (fifo_cycle s))) (fifo_cycle s))
  = [HDeliver 1; HWake 1 5; HDeliver 1].
Proof.
  cbv zeta. set (s := final step init lat_ops).
  assert (E1 : ready s = [HDeliver 1]) by vc.
  assert (E2 : ready (fifo_cycle s) = [HWake 1 5; HDeliver 1]) by vc.
  assert (F2 : f_st (futs (fifo_cycle s) 5) = FCanc 2) by vc.
  refine (conj _ (conj _ (conj _ (conj _ (conj _ (conj _ (conj _ (conj _ (conj _ (conj _ (conj _ _))))))))))).
  - assert (E : running s = None) by vc. rewrite E. discriminate.
  - vc.
  - assert (E : s_host (scopes s 1) = Some 1) by vc. rewrite E. discriminate.
  - split; [vc|]. exists 1. split; [vc|apply vis_here].
  - vc.
  - vc.
  - vc.
  - vc.
  - vc.
  - rewrite E1. cbn [length cycle_ok]. rewrite E1. right. split; [|exact I].
    split; [reflexivity|]. split; [discriminate|exact I].
  - rewrite E2. cbn [length cycle_ok]. rewrite E2. left. split; [reflexivity|]. rewrite F2. discriminate.
  - vc.
Qed.

Example spin_premises :
  let s := final step init spin_ops in
  running s <> Some 1 /\ s_cancelled (scopes s 1) = true /\ s_host (scopes s 1) <> None /\ reaches s 1 1 /\
  k_started (tasks s 1) = true /\ k_waiter (tasks s 1) = None /\ k_ctl (tasks s 1) = CYield YCkIf /\
  In (HStep 1) (ready s) /\
  cycle_oky 1 (length (ready s)) s /\ cycle_oky 1 (length (ready (fifo_cycle s))) (fifo_cycle s) /\
  map snd (heads (length (ready s)) s ++ heads (length (ready (fifo_cycle s))) (fifo_cycle s))
  = [HDeliver 1; HStep 1; HDeliver 1].
Proof.
  cbv zeta. set (s := final step init spin_ops).
  assert (E1 : ready s = [HDeliver 1; HStep 1]) by vc.
  assert (E1' : ready (run_head s) = [HStep 1; HDeliver 1]) by vc.
  assert (E2 : ready (fifo_cycle s) = [HDeliver 1]) by vc.
  refine (conj _ (conj _ (conj _ (conj _ (conj _ (conj _ (conj _ (conj _ (conj _ (conj _ _)))))))))).
  - assert (E : running s = None) by vc. rewrite E. discriminate.
  - vc.
  - assert (E : s_host (scopes s 1) = Some 1) by vc. rewrite E. discriminate.
  - split; [vc|]. exists 1. split; [vc|apply vis_here].
  - vc.
  - vc.
  - vc.
  - rewrite E1. right. now left.
  - rewrite E1. cbn [length cycle_oky]. rewrite E1.
    split; [right; split; [reflexivity|split; [discriminate|exact I]]|].
    rewrite E1'. split; [now left|exact I].
  - rewrite E2. cbn [length cycle_oky]. rewrite E2.
    split; [right; split; [reflexivity|split; [discriminate|exact I]]|exact I].
  - vc.
Qed.

(* the theorems applied to these states *)
Example lat_instance :
  let s := final step init lat_ops in
  exists si, In (si, HWake 1 5) (heads (length (ready s)) s ++ heads (length (ready (fifo_cycle s))) (fifo_cycle s)) /\
    ((exists o, snd (step si (ARun (HWake 1 5))) = RExc (ECancel o)) \/
     (exists v, f_st (futs si 5) = FRes v) \/ (exists e, f_st (futs si 5) = FExc e)).
Proof.
  cbv zeta. destruct lat_premises as [H1 [H2 [H3 [H4 [H5 [H6 [H7 [H8 [H9 [H10 [H11 _]]]]]]]]]]].
  exact (cancel_latency_le_2_cycles 1 5 1 _ lat_reach H1 H2 H3 H4 H5 H6 H7 H8 H9 H10 H11).
Qed.

Example spin_instance :
  let s := final step init spin_ops in
  exists si, In (si, HStep 1) (heads (length (ready s)) s ++ heads (length (ready (fifo_cycle s))) (fifo_cycle s)) /\
    exists o, snd (step si (ARun (HStep 1))) = RExc (ECancel o).
Proof.
  cbv zeta. destruct spin_premises as [H1 [H2 [H3 [H4 [H5 [H6 [H7 [H8 [H9 [H10 _]]]]]]]]]].
  exact (ckif_spin_terminates 1 1 _ spin_reach H1 H2 H3 H4 H5 H6 H7 H8 H9 H10).
Qed.

(* non-vacuity of loop_goes_idle with a leftover callback: the root task cancels and leaves its scope and
   finishes; the scope's delivery callback is still scheduled, and one head run removes it *)
Definition idle2_ops : list op :=
  [ANewRoot; ANewScope 1 (Some 5%Z) false; AEnter 1 1; ACancel 1 1; AExit 1 1 false; AFinish 1 0].

Example idle2_premises :
  let s := final step init idle2_ops in
  reach_ok s /\ all_done s /\ ready s = [HDeliver 1] /\ ready (run_head s) = [] /\ timers (run_head s) = [].
Proof.
  cbv zeta. set (s := final step init idle2_ops).
  assert (R : reach_ok s) by (exists idle2_ops; split; [vm_compute; reflexivity|reflexivity]).
  split; [exact R|]. split; [|repeat split; vm_compute; reflexivity].
  destruct (reach_sinv s R) as [[_ C] _]. intros t.
  assert (En : ntask s = 2) by (vm_compute; reflexivity).
  destruct (Nat.eq_dec t 1) as [->|Hn].
  - split; [vm_compute; reflexivity|]. intros _. vm_compute. discriminate.
  - assert (Na : ~ alloc_t s t) by (unfold alloc_t; rewrite En; lia).
    split; [exact (c_unalloc _ C t Na)|]. intros A. contradiction.
Qed.
