(* Kernel-hygiene invariant KInv of the S machine and its preservation by the kernel building blocks.
   KInv also holds in the middle of a step (while `running s = Some t`). *)
From AV Require Import Base Machine GroupInv.

Definition alloc (s : st) (t : tid) : Prop := 0 < t /\ t < ntask s.

Definition th_task (h : handle) : list tid :=
  match h with HStep t => [t] | HWake t _ => [t] | _ => [] end.
Definition thtasks (l : list handle) : list tid := flat_map th_task l.
Definition td_task (h : handle) : list tid :=
  match h with HTaskDone t => [t] | _ => [] end.
Definition tdtasks (l : list handle) : list tid := flat_map td_task l.

Definition sleepref (s : st) (f : fid) : Prop :=
  (exists tm, In (HSleepDone f tm) (ready s)) \/ (exists x, In x (timers s) /\ tm_what x = TSleep f).

(* f is referenced by something that may complete it later (other than Task.cancel on its waiter) *)
Definition refd (s : st) (f : fid) : Prop :=
  (exists e, In f (e_waiters (events s e))) \/ (exists g, g_fut (groups s g) = Some f) \/
  (exists c, k_startfut (tasks s c) = Some f) \/ sleepref s f.

Record KInv (s : st) : Prop := {
  k_nodup : NoDup (thtasks (ready s));
  k_tdnodup : NoDup (tdtasks (ready s));
  k_wake : forall t f, In (HWake t f) (ready s) ->
             k_waiter (tasks s t) = Some f /\ f_st (futs s f) <> FPend;
  k_step : forall t, In (HStep t) (ready s) ->
             k_waiter (tasks s t) = None /\ k_done (tasks s t) = None /\ running s <> Some t /\ alloc s t;
  k_w1 : forall t f, k_waiter (tasks s t) = Some f ->
             f_waiter (futs s f) = Some t /\ k_done (tasks s t) = None /\ running s <> Some t /\
             alloc s t /\ f < nfut s;
  k_pend : forall t f, k_waiter (tasks s t) = Some f -> f_st (futs s f) = FPend ->
             ~ In t (thtasks (ready s));
  k_run : forall t, running s = Some t ->
             ~ In t (thtasks (ready s)) /\ k_done (tasks s t) = None /\ alloc s t;
  k_td : forall t, In (HTaskDone t) (ready s) ->
             k_done (tasks s t) <> None /\ k_tdran (tasks s t) = false /\
             k_group (tasks s t) <> None /\ alloc s t;
  k_ref : forall f, refd s f -> f < nfut s /\
             (f_st (futs s f) = FPend -> forall t, f_waiter (futs s f) = Some t ->
              k_waiter (tasks s t) = Some f);
  k_idle : forall t f, k_ctl (tasks s t) = CIdle -> k_waiter (tasks s t) = Some f -> ~ refd s f
}.

(* ---------------- list facts ---------------- *)
Lemma thtasks_app l l' : thtasks (l ++ l') = thtasks l ++ thtasks l'.
Proof. apply flat_map_app. Qed.
Lemma tdtasks_app l l' : tdtasks (l ++ l') = tdtasks l ++ tdtasks l'.
Proof. apply flat_map_app. Qed.

Lemma in_thtasks t l : In t (thtasks l) <-> In (HStep t) l \/ exists f, In (HWake t f) l.
Proof.
  unfold thtasks. rewrite in_flat_map. split.
  - intros [h [Hh Ht]]. destruct h; cbn in Ht; try contradiction; destruct Ht as [<-|[]]; eauto.
  - intros [H|[f H]]; eexists; (split; [exact H|]); cbn; auto.
Qed.

Lemma in_tdtasks t l : In t (tdtasks l) <-> In (HTaskDone t) l.
Proof.
  unfold tdtasks. rewrite in_flat_map. split.
  - intros [h [Hh Ht]]. destruct h; cbn in Ht; try contradiction. destruct Ht as [<-|[]]. exact Hh.
  - intros H. eexists; split; [exact H|]. cbn. auto.
Qed.

Definition task_handle (h : handle) : bool :=
  match h with HStep _ | HWake _ _ | HTaskDone _ => true | _ => false end.

Lemma thtasks_cons h l : thtasks (h :: l) = th_task h ++ thtasks l.
Proof. reflexivity. Qed.
Lemma tdtasks_cons h l : tdtasks (h :: l) = td_task h ++ tdtasks l.
Proof. reflexivity. Qed.

Lemma thtasks_filter p l : (forall h, task_handle h = true -> p h = true) ->
  thtasks (filter p l) = thtasks l /\ tdtasks (filter p l) = tdtasks l.
Proof.
  intros Hp. induction l as [|h l [IH1 IH2]]; [auto|]. cbn [filter].
  destruct (p h) eqn:E.
  - rewrite !thtasks_cons, !tdtasks_cons, IH1, IH2. auto.
  - rewrite !thtasks_cons, !tdtasks_cons, IH1, IH2.
    destruct h; cbn; auto;
      match type of E with p ?h = false => rewrite (Hp h eq_refl) in E end; discriminate.
Qed.

Lemma timer_filter_task tm h : task_handle h = true -> negb (is_timer_handle tm h) = true.
Proof. destruct h; cbn; intros; congruence. Qed.

Lemma handle_eqb_eq a b : handle_eqb a b = true -> a = b.
Proof.
  destruct a, b; cbn; try discriminate; intros H;
    repeat match goal with
    | H : _ && _ = true |- _ => apply andb_prop in H; destruct H
    | H : Nat.eqb _ _ = true |- _ => apply Nat.eqb_eq in H
    end; subst; reflexivity.
Qed.

Lemma handle_eqb_refl a : handle_eqb a a = true.
Proof. destruct a; cbn; rewrite ?Nat.eqb_refl; reflexivity. Qed.

Lemma existsb_handle h l : existsb (handle_eqb h) l = true <-> In h l.
Proof.
  rewrite existsb_exists. split.
  - intros [x [Hx He]]. apply handle_eqb_eq in He. now subst.
  - intros H. exists h. split; [exact H|apply handle_eqb_refl].
Qed.

Lemma remove_first_split h l : In h l ->
  exists l1 l2, l = l1 ++ h :: l2 /\ remove_first h l = l1 ++ l2.
Proof.
  induction l as [|x l IH]; [intros []|]. intros H. cbn [remove_first].
  destruct (handle_eqb x h) eqn:E.
  - apply handle_eqb_eq in E. subst x. exists [], l. auto.
  - destruct H as [->|H]; [now rewrite handle_eqb_refl in E|].
    destruct (IH H) as [l1 [l2 [E1 E2]]]. exists (x :: l1), l2. cbn. now rewrite <- E1, E2.
Qed.

Lemma NoDup_app_remove_mid {A} (l1 : list A) x l2 : NoDup (l1 ++ x ++ l2) -> NoDup (l1 ++ l2).
Proof.
  induction x as [|a x IH]; [auto|]. intros H. apply IH. cbn in H. eapply NoDup_remove_1. exact H.
Qed.

Lemma NoDup_snoc {A} (l : list A) x : NoDup l -> ~ In x l -> NoDup (l ++ [x]).
Proof.
  induction l as [|a l IH]; cbn; intros Hn Hx; [constructor; [auto|constructor]|].
  inversion Hn as [|? ? Ha Hl]; subst. constructor.
  - rewrite in_app_iff. cbn. intros [H|[H|[]]]; [auto|]. apply Hx. auto.
  - apply IH; auto.
Qed.

(* ---------------- projections through the kernel functions ---------------- *)
Lemma fc_tasks s f v : tasks (fut_complete s f v) = tasks s.
Proof.
  unfold fut_complete. destruct (f_st (futs s f)); try reflexivity.
  destruct (f_waiter (futs s f)); reflexivity.
Qed.

Ltac fc_unfold := unfold fut_complete;
  match goal with |- context [f_st (futs ?s ?f)] => destruct (f_st (futs s f)) eqn:?; try reflexivity end;
  match goal with |- context [f_waiter (futs ?s ?f)] => destruct (f_waiter (futs s f)) eqn:?; try reflexivity end.

Lemma fc_groups s f v : groups (fut_complete s f v) = groups s. Proof. fc_unfold. Qed.
Lemma fc_events s f v : events (fut_complete s f v) = events s. Proof. fc_unfold. Qed.
Lemma fc_scopes s f v : scopes (fut_complete s f v) = scopes s. Proof. fc_unfold. Qed.
Lemma fc_timers s f v : timers (fut_complete s f v) = timers s. Proof. fc_unfold. Qed.
Lemma fc_running s f v : running (fut_complete s f v) = running s. Proof. fc_unfold. Qed.
Lemma fc_ntask s f v : ntask (fut_complete s f v) = ntask s. Proof. fc_unfold. Qed.
Lemma fc_nfut s f v : nfut (fut_complete s f v) = nfut s. Proof. fc_unfold. Qed.
Lemma fc_nscope s f v : nscope (fut_complete s f v) = nscope s. Proof. fc_unfold. Qed.
Lemma fc_nevent s f v : nevent (fut_complete s f v) = nevent s. Proof. fc_unfold. Qed.
Lemma fc_ngroup s f v : ngroup (fut_complete s f v) = ngroup s. Proof. fc_unfold. Qed.

(* what fut_complete does to futs and ready *)
Lemma fc_spec s f v :
  (f_st (futs s f) <> FPend /\ fut_complete s f v = s) \/
  (f_st (futs s f) = FPend /\
   futs (fut_complete s f v) = upd (futs s) f (mkFut v (f_waiter (futs s f))) /\
   ready (fut_complete s f v) =
     ready s ++ match f_waiter (futs s f) with Some t => [HWake t f] | None => [] end).
Proof.
  unfold fut_complete. destruct (f_st (futs s f)) eqn:E.
  2-4: left; split; [congruence|reflexivity].
  right. split; [reflexivity|].
  destruct (f_waiter (futs s f)) eqn:Ew; cbn; rewrite ?Ew, ?app_nil_r; auto.
Qed.

Lemma refd_ext s s' :
  events s' = events s -> groups s' = groups s ->
  (forall c, k_startfut (tasks s' c) = k_startfut (tasks s c)) ->
  (forall f tm, In (HSleepDone f tm) (ready s') -> In (HSleepDone f tm) (ready s)) ->
  (forall x, In x (timers s') -> In x (timers s)) ->
  forall f, refd s' f -> refd s f.
Proof.
  intros He Hg Hs Hr Ht f [[e H]|[[g H]|[[c H]|[[tm H]|[x [H1 H2]]]]]].
  - left. exists e. now rewrite <- He.
  - right; left. exists g. now rewrite <- Hg.
  - right; right; left. exists c. now rewrite <- Hs.
  - right; right; right. left. exists tm. auto.
  - right; right; right. right. exists x. auto.
Qed.

(* ---------------- fut_complete preserves KInv ---------------- *)
Lemma K_fut_complete s f v : KInv s -> v <> FPend ->
  (f_st (futs s f) = FPend -> forall t, f_waiter (futs s f) = Some t -> k_waiter (tasks s t) = Some f) ->
  KInv (fut_complete s f v).
Proof.
  intros K Hv Hw. destruct (fc_spec s f v) as [[_ ->]|[Hp [Ef Er]]]; [exact K|].
  assert (Hrefd : forall x, refd (fut_complete s f v) x -> refd s x).
  { apply refd_ext; rewrite ?fc_events, ?fc_groups, ?fc_timers, ?fc_tasks; auto.
    intros f0 tm. rewrite Er, in_app_iff. intros [H|H]; [exact H|].
    destruct (f_waiter (futs s f)); cbn in H; [destruct H as [H|[]]; discriminate|contradiction]. }
  assert (Hst : forall x, f_st (futs (fut_complete s f v) x) = FPend -> f_st (futs s x) = FPend /\ x <> f).
  { intros x. rewrite Ef. unfold upd. destruct (Nat.eqb_spec x f); cbn; [intros; congruence|auto]. }
  assert (Hfw : forall x, f_waiter (futs (fut_complete s f v) x) = f_waiter (futs s x)).
  { intros x. rewrite Ef. unfold upd. destruct (Nat.eqb_spec x f); cbn; [now subst|auto]. }
  assert (Hnp : forall x, f_st (futs s x) <> FPend -> f_st (futs (fut_complete s f v) x) <> FPend).
  { intros x. rewrite Ef. unfold upd. destruct (Nat.eqb_spec x f); cbn; auto. }
  destruct (f_waiter (futs s f)) as [w|] eqn:Ew.
  - specialize (Hw Hp w eq_refl).
    destruct (k_w1 s K w f Hw) as [_ [Hd [Hrun [Hal Hlt]]]].
    assert (Hnw : ~ In w (thtasks (ready s))) by (eapply k_pend; eauto).
    constructor; unfold alloc; rewrite ?fc_tasks, ?fc_running, ?fc_ntask, ?fc_nfut, ?Er.
    + rewrite thtasks_app. change (thtasks [HWake w f]) with [w]. apply NoDup_snoc; [apply K|exact Hnw].
    + rewrite tdtasks_app. change (tdtasks [HWake w f]) with (@nil tid). rewrite app_nil_r. apply K.
    + intros t f0. rewrite in_app_iff. intros [H|[H|[]]].
      * destruct (k_wake s K t f0 H) as [H1 H2]. split; [exact H1|]. apply Hnp, H2.
      * injection H as <- <-. split; [exact Hw|]. rewrite Ef, upd_same. exact Hv.
    + intros t. rewrite in_app_iff. intros [H|[H|[]]]; [|discriminate]. apply (k_step s K t H).
    + intros t f0 H. rewrite Hfw. apply (k_w1 s K t f0 H).
    + intros t f0 H Hp0. destruct (Hst _ Hp0) as [Hp1 Hne]. rewrite thtasks_app, in_app_iff. cbn.
      intros [Hi|[<-|[]]]; [eapply k_pend; eauto|]. congruence.
    + intros t Hr. destruct (k_run s K t Hr) as [H1 [H2 H3]]. refine (conj _ (conj H2 H3)).
      rewrite thtasks_app, in_app_iff. cbn. intros [Hi|[<-|[]]]; [auto|]. auto.
    + intros t. rewrite in_app_iff. intros [H|[H|[]]]; [|discriminate]. apply (k_td s K t H).
    + intros x Hx. apply Hrefd in Hx. destruct (k_ref s K x Hx) as [H1 H2]. split; [exact H1|].
      intros Hp0 t. rewrite Hfw. destruct (Hst _ Hp0) as [Hp1 _]. auto.
    + intros t f0 H1 H2 Hx. apply Hrefd in Hx. eapply k_idle; eauto.
  - rewrite app_nil_r in Er.
    constructor; unfold alloc; rewrite ?fc_tasks, ?fc_running, ?fc_ntask, ?fc_nfut, ?Er; try apply K.
    + intros t f0 H. destruct (k_wake s K t f0 H) as [H1 H2]. split; [exact H1|]. apply Hnp, H2.
    + intros t f0 H. rewrite Hfw. apply (k_w1 s K t f0 H).
    + intros t f0 H Hp0. destruct (Hst _ Hp0) as [Hp1 Hne]. eapply k_pend; eauto.
    + intros x Hx. apply Hrefd in Hx. destruct (k_ref s K x Hx) as [H1 H2]. split; [exact H1|].
      intros Hp0 t. rewrite Hfw. destruct (Hst _ Hp0) as [Hp1 _]. auto.
    + intros t f0 H1 H2 Hx. apply Hrefd in Hx. eapply k_idle; eauto.
Qed.

(* ---------------- KInv only looks at a few task fields and at the task/sleep handles ---------------- *)
Definition kview (k : task) :=
  (k_waiter k, k_done k, k_tdran k, k_group k, k_ctl k, k_startfut k).

Lemma kview_inv k k' : kview k' = kview k ->
  k_waiter k' = k_waiter k /\ k_done k' = k_done k /\ k_tdran k' = k_tdran k /\
  k_group k' = k_group k /\ k_ctl k' = k_ctl k /\ k_startfut k' = k_startfut k.
Proof. unfold kview. intros H. injection H. tauto. Qed.

Lemma KInv_mono_refd s s' :
  (forall t, kview (tasks s' t) = kview (tasks s t)) ->
  futs s' = futs s -> nfut s' = nfut s -> ntask s' = ntask s -> running s' = running s ->
  (forall f, refd s' f -> refd s f) ->
  thtasks (ready s') = thtasks (ready s) -> tdtasks (ready s') = tdtasks (ready s) ->
  (forall h, task_handle h = true -> In h (ready s') -> In h (ready s)) ->
  KInv s -> KInv s'.
Proof.
  intros Hv Hf Hnf Hnt Hr Hrefd Hth Htd Hh K.
  assert (V : forall t, k_waiter (tasks s' t) = k_waiter (tasks s t) /\ k_done (tasks s' t) = k_done (tasks s t) /\
                k_tdran (tasks s' t) = k_tdran (tasks s t) /\ k_group (tasks s' t) = k_group (tasks s t) /\
                k_ctl (tasks s' t) = k_ctl (tasks s t) /\ k_startfut (tasks s' t) = k_startfut (tasks s t)).
  { intros t. apply kview_inv, Hv. }
  constructor; unfold alloc; rewrite ?Hth, ?Htd, ?Hf, ?Hnf, ?Hnt, ?Hr.
  - apply K.
  - apply K.
  - intros t f H. apply (Hh (HWake t f) eq_refl) in H. destruct (V t) as [-> _]. apply (k_wake s K t f H).
  - intros t H. apply (Hh (HStep t) eq_refl) in H. destruct (V t) as [-> [-> _]]. apply (k_step s K t H).
  - intros t f. destruct (V t) as [-> [-> _]]. apply (k_w1 s K t f).
  - intros t f. destruct (V t) as [-> _]. apply (k_pend s K t f).
  - intros t. destruct (V t) as [_ [-> _]]. apply (k_run s K t).
  - intros t H. apply (Hh (HTaskDone t) eq_refl) in H. destruct (V t) as [_ [-> [-> [-> _]]]]. apply (k_td s K t H).
  - intros f Hx. apply Hrefd in Hx. destruct (k_ref s K f Hx) as [H1 H2]. split; [exact H1|].
    intros Hp t Hw. destruct (V t) as [-> _]. auto.
  - intros t f. destruct (V t) as [-> [_ [_ [_ [-> _]]]]]. intros H1 H2 Hx. apply Hrefd in Hx.
    eapply k_idle; eauto.
Qed.

Lemma refd_mono s s' :
  (forall e f, In f (e_waiters (events s' e)) -> In f (e_waiters (events s e))) ->
  (forall g f, g_fut (groups s' g) = Some f -> exists g', g_fut (groups s g') = Some f) ->
  (forall c f, k_startfut (tasks s' c) = Some f -> exists c', k_startfut (tasks s c') = Some f) ->
  (forall f, sleepref s' f -> sleepref s f) ->
  forall f, refd s' f -> refd s f.
Proof.
  intros He Hg Hs Hsl f [[e H]|[[g H]|[[c H]|H]]].
  - left. exists e. auto.
  - right; left. eauto.
  - right; right; left. eauto.
  - right; right; right. auto.
Qed.

Lemma KInv_mono s s' :
  (forall t, kview (tasks s' t) = kview (tasks s t)) ->
  futs s' = futs s -> nfut s' = nfut s -> ntask s' = ntask s -> running s' = running s ->
  events s' = events s -> groups s' = groups s ->
  thtasks (ready s') = thtasks (ready s) -> tdtasks (ready s') = tdtasks (ready s) ->
  (forall h, task_handle h = true -> In h (ready s') -> In h (ready s)) ->
  (forall f tm, In (HSleepDone f tm) (ready s') -> In (HSleepDone f tm) (ready s)) ->
  (forall x f, In x (timers s') -> tm_what x = TSleep f -> In x (timers s)) ->
  KInv s -> KInv s'.
Proof.
  intros Hv Hf Hnf Hnt Hr He Hg Hth Htd Hh Hsl Htm.
  apply KInv_mono_refd; auto.
  apply refd_mono.
  - intros e f. now rewrite He.
  - intros g f. rewrite Hg. eauto.
  - intros c f H. exists c. pose proof (kview_inv _ _ (Hv c)) as V. destruct V as [_ [_ [_ [_ [_ V]]]]].
    now rewrite <- V.
  - intros f [[tm H]|[x [H1 H2]]]; [left; eauto|right; eauto].
Qed.

Lemma upd_task_kview s t g :
  (forall k, kview (g k) = kview k) -> forall x, kview (tasks (upd_task s t g) x) = kview (tasks s x).
Proof.
  intros Hg x. cbn [upd_task set_tasks tasks]. unfold upd.
  destruct (Nat.eqb_spec x t); [subst; apply Hg|reflexivity].
Qed.

Lemma irrel_kview g : tk_irrel g -> forall k, kview (g k) = kview k.
Proof.
  intros H k. destruct (H k) as [H1 [H2 [H3 [H4 [H5 [H6 [H7 [H8 [H9 [H10 [H11 H12]]]]]]]]]]].
  unfold kview. congruence.
Qed.

Lemma K_upd_task_irrel s t g : (forall k, kview (g k) = kview k) -> KInv s -> KInv (upd_task s t g).
Proof.
  intros Hg. apply KInv_mono; try reflexivity; auto.
  apply upd_task_kview, Hg.
Qed.

Lemma K_upd_scope s c g : KInv s -> KInv (upd_scope s c g).
Proof. apply KInv_mono; try reflexivity; auto. Qed.

Lemma K_set_scopes s v : KInv s -> KInv (set_scopes s v).
Proof. apply KInv_mono; try reflexivity; auto. Qed.

Lemma K_task_cancel s t o : KInv s -> KInv (task_cancel s t o).
Proof.
  intros K. unfold task_cancel. destruct (k_done (tasks s t)) eqn:Ed; [exact K|].
  set (s1 := upd_task s t (tk_ncancel (S (k_ncancel (tasks s t))))).
  assert (K1 : KInv s1) by (apply K_upd_task_irrel; [intros k; reflexivity|exact K]).
  destruct (k_waiter (tasks s t)) as [f|] eqn:Ew.
  - destruct (fut_pending s1 f) eqn:Ep.
    + apply K_fut_complete; [exact K1|discriminate|].
      intros _ t' Ht'. destruct (k_w1 s K t f Ew) as [Hfw _].
      change (futs s1) with (futs s) in Ht'. rewrite Hfw in Ht'. injection Ht' as <-.
      unfold s1. cbn [upd_task set_tasks tasks]. rewrite upd_same. cbn. exact Ew.
    + apply K_upd_task_irrel; [intros k; reflexivity|exact K1].
  - apply K_upd_task_irrel; [intros k; reflexivity|exact K1].
Qed.

Lemma K_kprim C T s s' : kprim C T s s' -> KInv s -> KInv s'.
Proof.
  intros H K. destruct H.
  - apply K_upd_scope, K.
  - apply K_task_cancel, K.
  - apply K_upd_task_irrel; [apply irrel_kview; assumption|exact K].
  - revert K. apply KInv_mono; try reflexivity; cbn [call_soon set_ready ready].
    + rewrite thtasks_app. cbn. now rewrite app_nil_r.
    + rewrite tdtasks_app. cbn. now rewrite app_nil_r.
    + intros h Hh. rewrite in_app_iff. intros [Hi|[<-|[]]]; [exact Hi|discriminate].
    + intros f tm. rewrite in_app_iff. intros [Hi|[Hi|[]]]; [exact Hi|discriminate].
    + auto.
  - revert K. apply KInv_mono; try reflexivity; cbn [timer_cancel set_ready set_timers ready timers].
    + apply thtasks_filter. intros h. apply timer_filter_task.
    + apply thtasks_filter. intros h. apply timer_filter_task.
    + intros h _ Hi. apply filter_In in Hi. tauto.
    + intros f tm' Hi. apply filter_In in Hi. tauto.
    + intros x f Hi _. apply filter_In in Hi. tauto.
  - revert K. apply KInv_mono; try reflexivity; cbn [call_at fst timers]; auto.
    intros x f. rewrite in_app_iff. intros [Hi|[<-|[]]]; [auto|]. cbn. discriminate.
  - apply K_upd_task_irrel; [intros k; reflexivity|exact K].
Qed.

Lemma K_kstar C T s s' : kstar C T s s' -> KInv s -> KInv s'.
Proof. induction 1; [auto|]. intros K. eapply K_kprim; eauto. Qed.
