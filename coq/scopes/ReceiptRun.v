(* C04, run level: every receipt of a scope-tagged cancellation REQUEST in every run of the generated domain was
   placed when its origin was cancelled and visible from the task's current scope, and at receipt it still is --
   unless a shield was raised in between on a scope strictly below the origin (F25) -- or the exception was not
   a request at all but was read from a future completed with an exception (start() re-raising the child's
   exception, C07's routing). *)
From Coq Require Import ZArith Lia.
From AV Require Import Base Machine ScopeFrames DeliverInv TreeInv DeliverAlive PotentialInv TreeStep KernelInv
  DeliverThms TimerInv TimerThms CycleThms DebtInv HdInv ActWalk ActThms ChainFrame ChainThms ChainReach ChainWindow
  ReceiptWalk.
From AV Require GroupInv GroupInv2 GroupInv3 GroupInv9.

(* ---------------- reachable states: facts of the kernel / group invariants ---------------- *)
Lemma reach_ok_greach s : reach_ok s -> GroupInv.reach s.
Proof. intros [ops [_ ->]]. now exists ops. Qed.

Lemma reach_run s : reach_ok s -> running s = None.
Proof. intros R. apply (GroupInv3.i_run _ (GroupInv9.reachable s (reach_ok_greach s R))). Qed.

Lemma reach_gk s : reach_ok s -> GroupInv2.KInv s.
Proof. intros R. apply (GroupInv3.m_k _ (GroupInv3.i_m _ (GroupInv9.reachable s (reach_ok_greach s R)))). Qed.

Lemma reach_gc s : reach_ok s -> GroupInv3.CInv s.
Proof. intros R. apply (GroupInv3.m_c _ (GroupInv3.i_m _ (GroupInv9.reachable s (reach_ok_greach s R)))). Qed.

Lemma reach_k s : reach_ok s -> KInv s.
Proof. intros [ops [_ ->]]. apply reach_kinv. Qed.

(* ---------------- what an op leaves alone, for a task that does not act (from the walk of ActWalk) ---------------- *)
Lemma step_run_any a h : In h (ready a) ->
  fst (step a (ARun h)) =
  fst (match h with
       | HStep u => resume (ReceiptWalk.pop a h) u None
       | HWake u f => resume (ReceiptWalk.pop a h) u (Some f)
       | HDeliver c => (set_running (deliver_top (set_running (ReceiptWalk.pop a h) None) c) None, RNone)
       | HTaskDone u => (run_task_done (ReceiptWalk.pop a h) u, RNone)
       | HSleepDone f _ => (fut_complete (ReceiptWalk.pop a h) f (FRes 0), RNone)
       | HTimeout c _ => (set_running (scope_timeout (set_running (ReceiptWalk.pop a h) None) c) None, RNone)
       end).
Proof.
  intros Hin. cbn [step actor]. unfold run_handle. apply existsb_handle in Hin. rewrite Hin. cbn [negb]. reflexivity.
Qed.

Lemma aw_run_any t a h :
  In h (ready a) -> other_head t h ->
  aw t (xe a (ARun h)) (xe a (ARun h) ++ xc a (ARun h)) (ReceiptWalk.pop a h) (fst (step a (ARun h))).
Proof.
  intros Hin Ho. rewrite (step_run_any a h Hin). set (s1 := ReceiptWalk.pop a h).
  destruct h as [u|u f|c|u|f tm|c tm]; cbn [other_head xe xc app fst] in *.
  - apply (aw_resume t s1 u None Ho).
  - apply (aw_resume t s1 u (Some f) Ho).
  - apply (aw_trans t [] [] s1 (deliver_top (set_running s1 None) c)); [|apply aw_set_running; discriminate].
    apply (aw_trans t [] [] s1 (set_running s1 None)); [apply aw_set_running; discriminate|apply aw_deliver_top].
  - apply aw_run_task_done; [exact Ho|]. intros g Eg. change (tasks s1 u) with (tasks a u) in Eg. rewrite Eg.
    now left.
  - apply aw_fut_complete. discriminate.
  - apply (aw_trans t [] [c] s1 (scope_timeout (set_running s1 None) c)); [|apply aw_set_running; discriminate].
    apply (aw_trans t [] [c] s1 (set_running s1 None)); [apply aw_set_running; discriminate|apply aw_scope_timeout; now left].
Qed.

(* the frame of one op, seen from a task t that is not affected by it *)
Definition frame_t (t : tid) (a b : st) : Prop :=
  tk_core (tasks b t) = tk_core (tasks a t) /\
  (forall y, s_active (scopes a y) = true -> s_parent (scopes b y) = s_parent (scopes a y)) /\
  (forall y, y < nscope a -> s_cancelled (scopes a y) = true -> s_cancelled (scopes b y) = true) /\
  (forall f, k_waiter (tasks a t) = Some f -> f_st (futs a f) <> FPend -> f_st (futs b f) = f_st (futs a f)).

Lemma frame_t_refl t a : frame_t t a a.
Proof. repeat split; auto. Qed.

Lemma frame_of_aw t XE X a b :
  Tree a -> KInv a -> aw t XE X a b ->
  (forall y, In y XE -> s_active (scopes a y) = false \/ s_parent (scopes b y) = s_parent (scopes a y)) ->
  frame_t t a b.
Proof.
  intros T K W HX. repeat split.
  - apply (tframe_core t a b), (aw_t _ _ _ _ _ W), K.
  - intros y Ha. pose proof (tr_act_alloc _ T y Ha) as [_ Hy].
    destruct (in_dec Nat.eq_dec y XE) as [Hin|Hn]; [|now apply (aw_par _ _ _ _ _ W)].
    destruct (HX y Hin) as [E|E]; [congruence|exact E].
  - intros y Hy Hc. now apply (aw_mono _ _ _ _ _ W).
  - intros f Hf Hd. destruct (aw_t _ _ _ _ _ W K) as [B _]. apply (by_done _ _ _ _ (B f Hf) Hd).
Qed.

Theorem frame_step t a o :
  reach_ok a -> op_ok a o = true -> t < ntask a -> ~ In t (aff a o) -> frame_t t a (fst (step a o)).
Proof.
  intros R Hok At Hn. pose proof (reach_tree a R) as T. pose proof (reach_k a R) as K.
  destruct (actor o) as [u|] eqn:Ea.
  - assert (Hu : u <> t) by (intros ->; apply Hn; unfold aff; rewrite Ea; now left).
    destruct (idle a u) eqn:Ei.
    + assert (Ho : other_act t o).
      { destruct o; cbn [actor] in Ea; try discriminate; cbn [other_act actor]; congruence. }
      apply (frame_of_aw t _ _ a _ T K (aw_step_act t a o Ho At)). intros y Hy.
      assert (Es : (forall v, o <> AFinish u v) -> fst (step a o) = fst (puppet_op a u o)).
      { intros Hv. unfold step. rewrite Ea, Ei. cbn [negb]. destruct o; try reflexivity.
        cbn [actor] in Ea. injection Ea as ->. now elim (Hv v). }
      destruct o; cbn [actor] in Ea; try discriminate; injection Ea as ->;
        try (rewrite Es by (intros v0; discriminate);
             match goal with |- context [puppet_op a u ?oo] => apply (xe_act_ok t a u oo R Hu eq_refl y Hy) end).
      cbn [xe] in Hy. destruct Hy.
    + unfold step. rewrite Ea, Ei. cbn [negb fst]. apply frame_t_refl.
  - destruct o; cbn [actor] in Ea; try discriminate; try apply frame_t_refl.
    + (* ANewRoot *)
      apply (frame_of_aw t _ _ a _ T K (aw_step_act t a ANewRoot ltac:(cbn; discriminate) At)). intros y [].
    + (* ANativeCancel *)
      destruct (Nat.eq_dec t0 t) as [->|Hne].
      * cbn [step actor fst]. pose proof (kframe_task_cancel a t 0) as Kf. repeat split.
        -- apply (kf_tasks _ _ Kf t).
        -- intros y _. now rewrite (core_parent _ _ (kf_scopes _ _ Kf y)).
        -- intros y _ Hc. now rewrite (core_cancelled _ _ (kf_scopes _ _ Kf y)).
        -- intros f _ Hd. apply (kf_fdone _ _ Kf f Hd).
      * apply (frame_of_aw t _ _ a _ T K (aw_step_act t a (ANativeCancel t0) Hne At)). intros y [].
    + (* AExtCancel *)
      apply (frame_of_aw t _ _ a _ T K (aw_step_act t a (AExtCancel c) ltac:(cbn; discriminate) At)). intros y [].
    + (* ARun *)
      destruct (existsb (handle_eqb h) (ready a)) eqn:Ee.
      2:{ cbn [step actor]. unfold run_handle. rewrite Ee. cbn [negb fst]. apply frame_t_refl. }
      assert (Hin : In h (ready a)) by now apply existsb_handle.
      assert (Hh : other_head t h).
      { destruct h; cbn [other_head]; auto; intros ->; apply Hn; cbn [aff actor]; now left. }
      set (s1 := ReceiptWalk.pop a h).
      assert (T1 : Tree s1) by (apply (Tree_treq a); [exact T|apply treq_set_ready]).
      assert (K1 : KInv s1) by (apply (KInv_kq a); [exact K|apply kq_tasks_same; reflexivity]).
      apply (frame_of_aw t _ _ s1 _ T1 K1 (aw_run_any t a h Hin Hh)).
      intros y Hy. left. change (scopes s1 y) with (scopes a y).
      destruct h as [u|u g|x|u|g tm|x tm]; cbn [xe] in Hy; try (destruct Hy; fail);
        unfold xe_ctl in Hy; destruct (k_ctl (tasks a u)) eqn:Ec; try (destruct Hy; fail); destruct Hy as [<-|[]];
        first [apply (fresh_inactive a R)|apply (new_hscope_inactive a u R Ec)].
    + (* ATick *)
      apply (frame_of_aw t _ _ a _ T K (aw_step_act t a (ATick dt) ltac:(cbn; discriminate) At)). intros y [].
Qed.

(* ---------------- (a)+(b) for one op, in the form the run-level invariant uses ---------------- *)
Lemma same_held a b t org : Same a b -> Held b t org -> Held a t org.
Proof. intros (Et & _ & Ef & _). apply held_eq; [now rewrite Et|exact Ef]. Qed.

Theorem held_step_cases a o t org :
  reach_ok a -> op_ok a o = true -> MP a ->
  (Held a t org -> k_done (tasks a t) = None -> t < ntask a) ->
  let b := fst (step a o) in
  Held b t org -> k_done (tasks b t) = None ->
  (Held a t org /\ k_done (tasks a t) = None /\ (frame_t t a b \/ Same a b)) \/
  (OC a t org /\ frame_t t a b) \/ OC b t org.
Proof.
  intros R Hok M HJ b Hh Hd. pose proof (reach_run a R) as Hr. pose proof (reach_tree a R) as Tr.
  pose proof (W_step a o R Hr Hok) as W. fold b in W.
  pose proof (TO_reach a R) as T. pose proof (reach_k a R) as K.
  assert (SameL : Same a b -> (Held a t org /\ k_done (tasks a t) = None /\ (frame_t t a b \/ Same a b))).
  { intros S. split; [now apply (same_held a b)|]. split; [|now right]. destruct S as (Et & _). now rewrite <- Et. }
  destruct (in_dec Nat.eq_dec t (aff a o)) as [Hin|Hn].
  - (* t is the actor, the resumed task, a created or a retired task *)
    unfold aff in Hin. destruct (actor o) as [u|] eqn:Ea.
    + destruct Hin as [<-|Hin].
      * destruct (own_step a o u R Hr Hok M (or_introl Ea)) as [S|N]; [left; now apply SameL|now elim (N org)].
      * assert (Eo : exists g, (o = ASpawn u g \/ o = AStart u g) /\ group_active a g = true /\ t = ntask a).
        { destruct o; cbn [uo] in Hin; try (destruct Hin; fail); cbn [actor] in Ea; injection Ea as ->;
            destruct (group_active a g) eqn:Eg; try (destruct Hin; fail); destruct Hin as [<-|[]]; exists g; auto. }
        destruct Eo as (g & Ho & Hg & ->). destruct (idle a u) eqn:Ei.
        -- right. right. now apply (child_step a u g o R Hr Ei Ho Hg).
        -- left. apply SameL. unfold b, step. rewrite Ea, Ei. cbn [negb fst]. repeat split; reflexivity.
    + destruct o; cbn [actor] in Ea; try discriminate; try (destruct Hin; fail).
      * (* ANewRoot *) destruct Hin as [<-|[]]. now elim (root_step a org).
      * (* ARun *)
        destruct h as [u|u f|c|u|f tm|c tm]; try (destruct Hin; fail); destruct Hin as [<-|[]].
        -- destruct (own_step a _ u R Hr Hok M (or_intror (or_introl eq_refl))) as [S|N]; [left; now apply SameL|now elim (N org)].
        -- destruct (own_step a _ u R Hr Hok M (or_intror (or_intror (ex_intro _ f eq_refl)))) as [S|N];
             [left; now apply SameL|now elim (N org)].
        -- destruct (existsb (handle_eqb (HTaskDone u)) (ready a)) eqn:Ee.
           ++ exfalso. assert (Hin : In (HTaskDone u) (ready a)) by now apply existsb_handle.
              destruct (GroupInv2.k_td _ (reach_gk a R) u Hin) as [Hdn _]. apply Hdn.
              unfold b in Hd. rewrite (step_run_any a _ Hin) in Hd. cbn [fst] in Hd. rewrite td_done in Hd. exact Hd.
           ++ left. apply SameL. unfold b. cbn [step actor]. unfold run_handle. rewrite Ee. cbn [negb fst].
              repeat split; reflexivity.
  - destruct (w_h _ _ _ _ _ _ _ W T K t org Hn Hh) as [A|[[_ A]|[_ A]]].
    + assert (At : t < ntask a).
      { destruct (Nat.lt_ge_cases t (ntask a)) as [L|G]; [exact L|]. apply HJ; [exact A|].
        apply (GroupInv3.c_unalloc _ (reach_gc a R) t). unfold GroupInv2.alloc. lia. }
      pose proof (frame_step t a o R Hok At Hn) as F. left. split; [exact A|]. split; [|now left].
      rewrite <- (tcore_done _ _ (proj1 F)). exact Hd.
    + assert (At : t < ntask a).
      { destruct A as [x [Hx _]]. apply (tr_cur_alloc _ Tr t x Hx). }
      right. left. split; [exact A|]. now apply frame_step.
    + right. now right.
Qed.

(* ---------------- the chain recorded at placement time, carried to a later state ---------------- *)
Definition Placed (s0 s1 : st) (t : tid) (org x : sid) (n : nat) : Prop :=
  k_cur (tasks s0 t) = Some x /\ k_cur (tasks s1 t) = Some x /\ up s0 x n = Some org /\
  s_cancelled (scopes s0 org) = true /\
  (forall j y, j < n -> up s0 x j = Some y ->
               s_cancelled (scopes s0 y) = false /\ s_shield (scopes s0 y) = false) /\
  (forall j y, j < n -> up s0 x j = Some y -> s_parent (scopes s1 y) = s_parent (scopes s0 y)) /\
  s_cancelled (scopes s1 org) = true.

Lemma vis_up_chain s org x : vis s org x ->
  exists n, up s x n = Some org /\
    forall j y, j < n -> up s x j = Some y -> s_cancelled (scopes s y) = false /\ s_shield (scopes s y) = false.
Proof.
  induction 1 as [|x p E1 E2 E3 V [n [U O]]]; [exists 0; split; [reflexivity|intros j y Hj; lia]|].
  exists (S n). split; [cbn [up]; now rewrite E3|].
  intros j y Hj Hy. destruct j as [|j]; [cbn in Hy; injection Hy as <-; now split|].
  cbn [up] in Hy. rewrite E3 in Hy. apply (O j y); [lia|exact Hy].
Qed.

Lemma up_same s0 a : forall j x,
  (forall i y, i < j -> up s0 x i = Some y -> s_parent (scopes a y) = s_parent (scopes s0 y)) ->
  up a x j = up s0 x j.
Proof.
  induction j as [|j IH]; intros x H; [reflexivity|]. cbn [up].
  rewrite (H 0 x ltac:(lia) eq_refl). destruct (s_parent (scopes s0 x)) as [p|] eqn:Ep; [|reflexivity].
  apply IH. intros i y Hi Hy. apply (H (S i) y); [lia|]. cbn [up]. now rewrite Ep.
Qed.

Lemma up_active a : Tree a -> forall j x y, s_active (scopes a x) = true -> up a x j = Some y -> s_active (scopes a y) = true.
Proof.
  intros T. induction j as [|j IH]; intros x y Ha Hy; [cbn in Hy; now injection Hy as <-|].
  cbn [up] in Hy. destruct (s_parent (scopes a x)) as [p|] eqn:Ep; [|discriminate].
  apply (IH p y); [apply (tr_par_act _ T x p Ha Ep)|exact Hy].
Qed.

Lemma up_prefix s x : forall n j org, up s x n = Some org -> j <= n -> exists y, up s x j = Some y.
Proof.
  intros n. revert x. induction n as [|n IH]; intros x j org H Hj.
  - assert (j = 0) by lia. subst. now exists x.
  - destruct j as [|j]; [now exists x|]. cbn [up] in *. destruct (s_parent (scopes s x)) as [p|]; [|discriminate].
    apply (IH p j org H). lia.
Qed.

Lemma placed_step s0 a b t org x n : Tree a -> Placed s0 a t org x n -> frame_t t a b -> Placed s0 b t org x n.
Proof.
  intros T (C0 & C1 & U & Cc & Op & Pa & Ca) (Fk & Fp & Fc & _).
  assert (Same_up : forall j, j <= n -> up a x j = up s0 x j).
  { intros j Hj. apply up_same. intros i y Hi Hy. apply (Pa i y); [lia|exact Hy]. }
  assert (Act : forall j y, j <= n -> up s0 x j = Some y -> s_active (scopes a y) = true).
  { intros j y Hj Hy. apply (up_active a T j x y); [apply (tr_cur_act _ T t x C1)|]. now rewrite Same_up. }
  refine (conj C0 (conj _ (conj U (conj Cc (conj Op (conj _ _)))))).
  - rewrite (tcore_cur _ _ Fk). exact C1.
  - intros j y Hj Hy. rewrite (Fp y); [now apply (Pa j y)|]. apply (Act j y); [lia|exact Hy].
  - pose proof (Act n org (le_n _) U) as Ao. pose proof (tr_act_alloc _ T org Ao) as [_ Lo]. now apply Fc.
Qed.

Lemma placed_same s0 a b t org x n : Same a b -> Placed s0 a t org x n -> Placed s0 b t org x n.
Proof.
  intros (Et & Es & _ & _) (C0 & C1 & U & Cc & Op & Pa & Ca).
  refine (conj C0 (conj _ (conj U (conj Cc (conj Op (conj _ _)))))).
  - now rewrite Et.
  - intros j y Hj Hy. rewrite Es. now apply (Pa j y).
  - now rewrite Es.
Qed.

Lemma placed_new s t org : OC s t org -> exists x n, Placed s s t org x n.
Proof.
  intros [x [Hx [V C]]]. destruct (vis_up_chain s org x V) as [n [U O]]. exists x, n.
  exact (conj Hx (conj Hx (conj U (conj C (conj O (conj (fun _ _ _ _ => eq_refl) C)))))).
Qed.

(* ---------------- the invariant of runs ---------------- *)
Lemma ops_ok_app s l1 : forall l2, ops_ok s (l1 ++ l2) = ops_ok s l1 && ops_ok (final step s l1) l2.
Proof.
  revert s. induction l1 as [|o r IH]; intros s l2; [reflexivity|].
  cbn [app ops_ok]. rewrite IH. cbn [final fold_left]. unfold final. cbn [fold_left]. now rewrite andb_assoc.
Qed.

Lemma final_snoc s ops o : final step s (ops ++ [o]) = fst (step (final step s ops) o).
Proof. rewrite final_app. reflexivity. Qed.

Definition J (ops : list op) : Prop :=
  let s1 := final step init ops in
  MP s1 /\
  forall t org, Held s1 t org -> k_done (tasks s1 t) = None ->
    exists pre post x n, ops = pre ++ post /\ Placed (final step init pre) s1 t org x n.

Theorem J_all ops : ops_ok init ops = true -> J ops.
Proof.
  induction ops as [|o ops IH] using rev_ind; intros Hok.
  - split.
    + intros t f Hm. cbn in Hm. discriminate.
    + intros t org [[A _]|[f [A _]]]; cbn in A; discriminate.
  - rewrite ops_ok_app in Hok. apply andb_true_iff in Hok. destruct Hok as [Hok1 Hok2].
    cbn [ops_ok] in Hok2. rewrite andb_true_r in Hok2.
    destruct (IH Hok1) as [M HJ]. unfold J. rewrite final_snoc.
    set (a := final step init ops) in *.
    assert (R : reach_ok a) by (exists ops; now split).
    pose proof (reach_run a R) as Hr. pose proof (reach_tree a R) as Tr.
    split.
    + apply (w_mp _ _ _ _ _ _ _ (W_step a o R Hr Hok2) (reach_k a R) M).
    + intros t org Hh Hd.
      assert (HJ' : Held a t org -> k_done (tasks a t) = None -> t < ntask a).
      { intros A D. destruct (HJ t org A D) as (pre & post & x & n & _ & (_ & C1 & _)).
        apply (tr_cur_alloc _ Tr t x C1). }
      destruct (held_step_cases a o t org R Hok2 M HJ' Hh Hd) as [(A & D & F)|[(A & F)|A]].
      * destruct (HJ t org A D) as (pre & post & x & n & E & P).
        exists pre, (post ++ [o]), x, n. split; [now rewrite E, app_assoc|].
        destruct F as [F|F]; [now apply (placed_step _ a)|now apply (placed_same _ a)].
      * destruct (placed_new a t org A) as (x & n & P).
        exists ops, [o], x, n. split; [reflexivity|]. now apply (placed_step _ a).
      * destruct (placed_new _ t org A) as (x & n & P).
        exists (ops ++ [o]), [], x, n. split; [now rewrite app_nil_r|]. now rewrite final_snoc.
Qed.

(* ---------------- from the invariant to the statement about receipts ---------------- *)
Lemma upn_of_up s : forall n x org, up s x n = Some org ->
  (forall j y, j < n -> up s x j = Some y -> s_cancelled (scopes s y) = false /\ s_shield (scopes s y) = false) ->
  upn s x n.
Proof.
  induction n as [|n IH]; intros x org U O; [apply upn_0|].
  destruct (O 0 x ltac:(lia) eq_refl) as [E1 E2]. cbn [up] in U.
  destruct (s_parent (scopes s x)) as [p|] eqn:Ep; [|discriminate].
  apply (upn_S s x p n E2 E1 Ep). apply (IH p org U). intros j y Hj Hy. apply (O (S j) y); [lia|].
  cbn [up]. now rewrite Ep.
Qed.

Lemma nscope_run : forall ops s, reach_ok s -> ops_ok s ops = true -> nscope s <= nscope (final step s ops).
Proof.
  induction ops as [|o r IH]; intros s R Hok; [cbn; lia|].
  cbn [ops_ok] in Hok. apply andb_true_iff in Hok. destruct Hok as [H1 H2].
  pose proof (w_ns _ _ _ _ _ _ _ (W_step s o R (reach_run s R) H1)) as N.
  pose proof (IH (fst (step s o)) (reach_ok_step s o R H1) H2) as N2.
  change (final step s (o :: r)) with (final step (fst (step s o)) r). lia.
Qed.

(* the body of the window statement, for one request *)
Definition window (ops : list op) (t : tid) (org : sid) : Prop :=
  exists pre post x n,
    ops = pre ++ post /\
    let s0 := final step init pre in let s1 := final step init ops in
    k_cur (tasks s0 t) = Some x /\ k_cur (tasks s1 t) = Some x /\ up s0 x n = Some org /\
    s_cancelled (scopes s0 org) = true /\
    (forall j y, j < n -> up s0 x j = Some y -> s_cancelled (scopes s0 y) = false /\ s_shield (scopes s0 y) = false) /\
    (eff_cancelled s1 x = true \/
     exists j y, j < n /\ up s0 x j = Some y /\ s_shield (scopes s0 y) = false /\ s_shield (scopes s1 y) = true).

Theorem request_window ops t org :
  ops_ok init ops = true ->
  Held (final step init ops) t org -> k_done (tasks (final step init ops) t) = None -> window ops t org.
Proof.
  intros Hok Hh Hd. destruct (J_all ops Hok) as [_ HJ].
  destruct (HJ t org Hh Hd) as (pre & post & x & n & E & (C0 & C1 & U & Cc & Op & Pa & Ca)).
  exists pre, post, x, n. split; [exact E|]. cbv zeta.
  refine (conj C0 (conj C1 (conj U (conj Cc (conj Op _))))).
  set (s0 := final step init pre) in *. set (s1 := final step init ops) in *.
  assert (Hok' : ops_ok init pre = true /\ ops_ok s0 post = true).
  { rewrite E, ops_ok_app in Hok. now apply andb_true_iff in Hok. }
  destruct Hok' as [Hp Hq].
  assert (R0 : reach_ok s0) by (exists pre; now split).
  pose proof (reach_tree s0 R0) as T0.
  assert (Hn : n < nscope s0).
  { apply (upn_bound s0 x n (Tree_TreeL s0 T0)); [now apply (upn_of_up s0 n x org)|apply (tr_cur_act _ T0 t x C0)]. }
  assert (Hm : nscope s0 <= nscope s1).
  { unfold s1. rewrite E, final_app. now apply nscope_run. }
  destruct (receipt_visible_unless_shield_raised s0 s1 n x org (nscope s1 - S n) U Op Cc Pa Ca) as [H|(j & y & Hj & Hy & S0 & S1 & _)].
  - left. unfold eff_cancelled. replace (nscope s1) with (S n + (nscope s1 - S n)) by lia. exact H.
  - right. exists j, y. auto.
Qed.

(* what a receipt is: a request held by the task, or an exception read from a future *)
Theorem receipt_is_request_or_future s h t org :
  reach_ok s -> receives s h t org ->
  (Held s t org /\ k_done (tasks s t) = None) \/
  (exists f, h = HWake t f /\ f_st (futs s f) = FExc (ECancel (S org))).
Proof.
  intros R [Hin Hr]. pose proof (reach_gk s R) as G.
  destruct Hr as [[-> Hi]|[f [-> Hi]]]; unfold incoming in Hi; cbn [snd] in Hi;
    change (tasks (ChainWindow.pop s _) t) with (tasks s t) in Hi; change (futs (ChainWindow.pop s _)) with (futs s) in Hi.
  - destruct (GroupInv2.k_step _ G t Hin) as (_ & Hd & _). left. split; [|exact Hd].
    destruct (k_must (tasks s t)) eqn:Em; [|discriminate]. injection Hi as Hi. left. now split.
  - destruct (GroupInv2.k_wake _ G t f Hin) as [Hw _]. destruct (GroupInv2.k_w1 _ G t f Hw) as (_ & Hd & _).
    destruct (f_st (futs s f)) as [|v|e|o] eqn:Ef.
    + left. split; [|exact Hd]. destruct (k_must (tasks s t)) eqn:Em; [|discriminate]. injection Hi as Hi. left. now split.
    + left. split; [|exact Hd]. destruct (k_must (tasks s t)) eqn:Em; [|discriminate]. injection Hi as Hi. left. now split.
    + destruct (k_must (tasks s t)) eqn:Em.
      * destruct e as [o| | | |l]; try (left; split; [|exact Hd]; injection Hi as Hi; left; now split).
        right. exists f. split; [reflexivity|]. injection Hi as ->. exact Ef.
      * right. exists f. split; [reflexivity|]. injection Hi as ->. exact Ef.
    + left. split; [|exact Hd]. right. exists f. split; [exact Hw|].
      destruct (k_must (tasks s t)); injection Hi as ->; exact Ef.
Qed.

(* every receipt of every run *)
Theorem receipt_window_run ops h t org :
  ops_ok init ops = true -> receives (final step init ops) h t org ->
  (exists f, h = HWake t f /\ f_st (futs (final step init ops) f) = FExc (ECancel (S org))) \/
  window ops t org.
Proof.
  intros Hok Hr. assert (R : reach_ok (final step init ops)) by (exists ops; now split).
  destruct (receipt_is_request_or_future _ h t org R Hr) as [[Hh Hd]|H]; [right|now left].
  now apply request_window.
Qed.

Theorem receipt_window_run_holds : receipt_window_run_statement.
Proof. intros ops h t org Hok Hr. exact (receipt_window_run ops h t org Hok Hr). Qed.

(* ---------------- the two per-op facts, in exported form ---------------- *)
(* (a) a tagged request that a task holds after an op and did not hold before was placed by a delivery run of its
   origin: the origin is cancelled and visible from the task's current scope, before or after the op *)
Theorem request_only_by_visible_delivery a o t org :
  reach_ok a -> op_ok a o = true -> ~ In t (aff a o) ->
  Held (fst (step a o)) t org -> Held a t org \/ OC a t org \/ OC (fst (step a o)) t org.
Proof.
  intros R Hok Hn Hh. pose proof (W_step a o R (reach_run a R) Hok) as W.
  destruct (w_h _ _ _ _ _ _ _ W (TO_reach a R) (reach_k a R) t org Hn Hh) as [A|[[_ A]|[_ A]]]; auto.
Qed.

(* ... and the tasks an op affects directly: the acting / resumed task holds no request afterwards (or the op was
   rejected and changed nothing), a task it creates holds none or one justified in the state after the op *)
Theorem request_of_affected_task a o t org :
  reach_ok a -> op_ok a o = true -> MP a -> In t (aff a o) ->
  Held (fst (step a o)) t org -> k_done (tasks (fst (step a o)) t) = None ->
  Same a (fst (step a o)) \/ OC (fst (step a o)) t org.
Proof.
  intros R Hok M Hin Hh Hd.
  destruct (in_dec Nat.eq_dec t (aff a o)) as [_|Hn]; [|contradiction].
  assert (HJ : Held a t org -> k_done (tasks a t) = None -> t < ntask a -> True) by auto.
  pose proof (reach_run a R) as Hr.
  unfold aff in Hin. destruct (actor o) as [u|] eqn:Ea.
  - destruct Hin as [<-|Hin].
    + destruct (own_step a o u R Hr Hok M (or_introl Ea)) as [S|N]; [now left|now elim (N org)].
    + assert (Eo : exists g, (o = ASpawn u g \/ o = AStart u g) /\ group_active a g = true /\ t = ntask a).
      { destruct o; cbn [uo] in Hin; try (destruct Hin; fail); cbn [actor] in Ea; injection Ea as ->;
          destruct (group_active a g) eqn:Eg; try (destruct Hin; fail); destruct Hin as [<-|[]]; exists g; auto. }
      destruct Eo as (g & Ho & Hg & ->). destruct (idle a u) eqn:Ei.
      * right. now apply (child_step a u g o R Hr Ei Ho Hg).
      * left. unfold step. rewrite Ea, Ei. cbn [negb fst]. repeat split; reflexivity.
  - destruct o; cbn [actor] in Ea; try discriminate; try (destruct Hin; fail).
    + destruct Hin as [<-|[]]. now elim (root_step a org).
    + destruct h as [u|u f|c|u|f tm|c tm]; try (destruct Hin; fail); destruct Hin as [<-|[]].
      * destruct (own_step a _ u R Hr Hok M (or_intror (or_introl eq_refl))) as [S|N]; [now left|now elim (N org)].
      * destruct (own_step a _ u R Hr Hok M (or_intror (or_intror (ex_intro _ f eq_refl)))) as [S|N];
          [now left|now elim (N org)].
      * destruct (existsb (handle_eqb (HTaskDone u)) (ready a)) eqn:Ee.
        -- exfalso. assert (Hin : In (HTaskDone u) (ready a)) by now apply existsb_handle.
           destruct (GroupInv2.k_td _ (reach_gk a R) u Hin) as [Hdn _]. apply Hdn.
           rewrite (step_run_any a _ Hin) in Hd. cbn [fst] in Hd. rewrite td_done in Hd. exact Hd.
        -- left. cbn [step actor]. unfold run_handle. rewrite Ee. cbn [negb fst]. repeat split; reflexivity.
Qed.

(* (b) a task that an op does not affect keeps its record up to the cancel counter and the request flag (so its
   current scope, its wait and its outcome), the parent link of every entered scope is unchanged, and no scope is
   un-cancelled *)
Theorem suspended_task_frame a o t :
  reach_ok a -> op_ok a o = true -> t < ntask a -> ~ In t (aff a o) ->
  tk_core (tasks (fst (step a o)) t) = tk_core (tasks a t) /\
  (forall y, s_active (scopes a y) = true -> s_parent (scopes (fst (step a o)) y) = s_parent (scopes a y)) /\
  (forall y, y < nscope a -> s_cancelled (scopes a y) = true -> s_cancelled (scopes (fst (step a o)) y) = true).
Proof. intros R Hok At Hn. destruct (frame_step t a o R Hok At Hn) as (F1 & F2 & F3 & _). auto. Qed.

(* the invariant behind (a): a recorded request and a pending wait exclude each other, in every reachable state *)
Theorem reach_mp ops : ops_ok init ops = true -> MP (final step init ops).
Proof. intros Hok. apply (J_all ops Hok). Qed.

Theorem request_excludes_pending_wait (ops : list op) (t : tid) (f : fid) :
  ops_ok init ops = true ->
  k_must (tasks (final step init ops) t) = true -> k_waiter (tasks (final step init ops) t) = Some f ->
  f_st (futs (final step init ops) f) <> FPend.
Proof. intros H. exact (reach_mp ops H t f). Qed.
