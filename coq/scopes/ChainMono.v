(* Instance of the generic step walk: how cancel_called, cancelled_caught and the ghost "cancelled by its own
   deadline" can move in ONE step, for EVERY op:
     - cancelled_caught and cancel_called are never reset (allocated scopes);
     - cancelled_caught becomes true only on a scope that is cancel_called;
     - a scope becomes cancelled-by-deadline only in a step in which it becomes cancel_called, and at the end of
       that step its deadline is <= now (never early). *)
From AV Require Import Base Machine ChainFrame ChainThms ChainWalk.

Definition due (s : st) (c : sid) : Prop := exists d, s_deadline (scopes s c) = Some d /\ (d <= now s)%Z.

Record srel1 (s s' : st) (c : sid) : Prop := mk_srel1 {
  sr_deadline : s_deadline (scopes s' c) = s_deadline (scopes s c);
  sr_caught : s_caught (scopes s c) = true -> s_caught (scopes s' c) = true;
  sr_canc : s_cancelled (scopes s c) = true -> s_cancelled (scopes s' c) = true;
  sr_caught_by : s_caught (scopes s' c) = true ->
                 s_caught (scopes s c) = true \/ s_cancelled (scopes s' c) = true;
  sr_bydl : s_bydeadline (scopes s' c) = true ->
            s_bydeadline (scopes s c) = true \/
            (s_cancelled (scopes s c) = false /\ s_cancelled (scopes s' c) = true /\ due s' c)
}.

Record SREL (s s' : st) : Prop := mk_SREL {
  sr_now : now s' = now s;
  sr_nscope : nscope s <= nscope s';
  sr_scopes : forall c, c < nscope s -> srel1 s s' c
}.

Record flags_eq (a b : scope) : Prop := mk_flags_eq {
  fe_deadline : s_deadline a = s_deadline b;
  fe_caught : s_caught a = s_caught b;
  fe_cancelled : s_cancelled a = s_cancelled b;
  fe_bydeadline : s_bydeadline a = s_bydeadline b
}.

Lemma flags_eq_refl a : flags_eq a a.
Proof. constructor; reflexivity. Qed.

Lemma srel_flags_eq s s' :
  now s' = now s -> nscope s <= nscope s' ->
  (forall c, c < nscope s -> flags_eq (scopes s' c) (scopes s c)) -> SREL s s'.
Proof.
  intros H1 H2 H3. constructor; auto. intros c Hc. destruct (H3 c Hc) as [E1 E2 E3 E4].
  constructor; rewrite ?E1, ?E2, ?E3, ?E4; auto.
Qed.

Lemma srel_refl s : SREL s s.
Proof. apply srel_flags_eq; auto. intros; apply flags_eq_refl. Qed.

Lemma srel_trans a b c : SREL a b -> SREL b c -> SREL a c.
Proof.
  intros [N1 M1 H1] [N2 M2 H2]. constructor; [congruence|lia|].
  intros x Hx. destruct (H1 x Hx) as [D1 C1 K1 B1 Y1]. destruct (H2 x ltac:(lia)) as [D2 C2 K2 B2 Y2].
  constructor.
  - congruence.
  - auto.
  - auto.
  - intros H. destruct (B2 H) as [H'|H']; [|now right]. destruct (B1 H') as [H''|H'']; [now left|right; auto].
  - intros H. destruct (Y2 H) as [H'|(Q1 & Q2 & Q3)].
    + destruct (Y1 H') as [H''|(Q1 & Q2 & d & Q3 & Q4)]; [now left|]. right.
      refine (conj Q1 (conj (K2 Q2) _)). exists d. split; [congruence|]. rewrite N2. exact Q4.
    + right. refine (conj _ (conj Q2 Q3)).
      destruct (s_cancelled (scopes a x)) eqn:E; [|reflexivity]. rewrite (K1 eq_refl) in Q1. discriminate.
Qed.

Lemma srel_frame a b : frame a b -> SREL a b.
Proof.
  intros F. apply srel_flags_eq; [apply (fr_now _ _ F)|rewrite (fr_nscope _ _ F); lia|].
  intros c _. destruct (fr_scopes _ _ F c). constructor; assumption.
Qed.

Lemma srel_upd_scope s x g : (forall k, flags_eq (g k) k) -> SREL s (upd_scope s x g).
Proof.
  intros Hg. apply srel_flags_eq; auto. intros c _. cbn [upd_scope set_scopes scopes]. rewrite upd_eq.
  destruct (Nat.eqb c x) eqn:E; [|apply flags_eq_refl]. apply Nat.eqb_eq in E. subst c. apply Hg.
Qed.

Lemma srel_same_scopes s s' : now s' = now s -> nscope s' = nscope s -> scopes s' = scopes s -> SREL s s'.
Proof.
  intros H1 H2 H3. apply srel_flags_eq; [exact H1|lia|]. intros c _. rewrite H3. apply flags_eq_refl.
Qed.

Lemma srel_new_scope s d sh : SREL s (fst (new_scope s d sh)).
Proof.
  apply srel_flags_eq; [reflexivity|cbn; lia|]. intros c Hc. cbn [new_scope fst scopes].
  rewrite upd_other by lia. apply flags_eq_refl.
Qed.

Lemma srel_cancel_timeout s c : SREL s (cancel_timeout s c).
Proof.
  unfold cancel_timeout. destruct (s_timeout (scopes s c)) as [tm|]; [|apply srel_refl].
  apply srel_trans with (timer_cancel s tm); [apply srel_same_scopes; reflexivity|].
  apply srel_upd_scope. intros k; constructor; reflexivity.
Qed.

Lemma srel_scope_cancel s c b : (b = true -> due s c) -> c < nscope s \/ True -> SREL s (scope_cancel s c b).
Proof.
  intros Hb _. unfold scope_cancel. destruct (s_cancelled (scopes s c)) eqn:Ec; [apply srel_refl|].
  pose proof (srel_cancel_timeout s c) as H1. set (s1 := cancel_timeout s c) in *.
  assert (H2 : SREL s (upd_scope s1 c (fun x => sc_bydeadline b (sc_cancelled true x)))).
  { destruct H1 as [N1 M1 K1]. constructor; [exact N1|exact M1|]. intros x Hx. destruct (K1 x Hx) as [D C K B Y].
    set (s2 := upd_scope s1 c (fun x => sc_bydeadline b (sc_cancelled true x))).
    assert (Sx : forall y, scopes s2 y =
                 if Nat.eqb y c then sc_bydeadline b (sc_cancelled true (scopes s1 c)) else scopes s1 y).
    { intros y. unfold s2. cbn [upd_scope set_scopes scopes]. apply upd_eq. }
    assert (Nw : now s2 = now s1) by reflexivity.
    destruct (Nat.eqb x c) eqn:E.
    - apply Nat.eqb_eq in E. subst x.
      constructor; unfold due; rewrite ?Sx, ?Nat.eqb_refl, ?Nw;
        cbn [sc_bydeadline sc_cancelled s_deadline s_caught s_cancelled s_bydeadline].
      + exact D.
      + exact C.
      + reflexivity.
      + intros H. now right.
      + intros H. right. refine (conj Ec (conj eq_refl _)). destruct (Hb H) as (d & Q1 & Q2).
        exists d. split; [congruence|]. rewrite N1. exact Q2.
    - constructor; unfold due; rewrite ?Sx, ?E, ?Nw; auto. }
  destruct (s_host _); [|exact H2]. eapply srel_trans; [exact H2|apply srel_frame, frame_deliver_top].
Qed.

Lemma srel_scope_timeout s c : SREL s (scope_timeout s c).
Proof.
  unfold scope_timeout. destruct (s_deadline (scopes s c)) as [d|] eqn:Ed; [|apply srel_refl].
  destruct (Z.leb d (now s)) eqn:El.
  - apply srel_scope_cancel; [|now right]. intros _. exists d. split; [exact Ed|]. now apply Z.leb_le.
  - cbn [call_at]. match goal with |- SREL s (upd_scope ?a _ _) => apply srel_trans with a end;
      [apply srel_same_scopes; reflexivity|].
    apply srel_upd_scope. intros k; constructor; reflexivity.
Qed.

Lemma srel_scope_enter s c t : SREL s (fst (scope_enter s c t)).
Proof.
  unfold scope_enter. destruct (s_active (scopes s c)); [apply srel_refl|]. cbv zeta. cbn [fst].
  set (s2 := upd_task _ t (tk_cur (Some c))).
  assert (H2 : SREL s s2).
  { unfold s2. match goal with |- SREL s (upd_task ?a _ _) => apply srel_trans with a end;
      [apply srel_upd_scope; intros k; constructor; reflexivity|].
    apply srel_same_scopes; reflexivity. }
  set (s3 := match k_cur (tasks s t) with Some p => upd_scope s2 p _ | None => s2 end).
  assert (H3 : SREL s s3).
  { unfold s3. destruct (k_cur (tasks s t)); [|exact H2].
    eapply srel_trans; [exact H2|]. apply srel_upd_scope. intros k; constructor; reflexivity. }
  assert (H5 : SREL s (upd_scope (scope_timeout s3 c) c (sc_active true))).
  { eapply srel_trans; [exact H3|]. eapply srel_trans; [apply srel_scope_timeout|].
    apply srel_upd_scope. intros k; constructor; reflexivity. }
  destruct (s_cancelled _); [|exact H5]. eapply srel_trans; [exact H5|apply srel_frame, frame_deliver_top].
Qed.

Lemma srel_scope_exit s c t exc : SREL s (fst (scope_exit s c t exc)).
Proof.
  destruct (scope_exit_chain_frame s c t exc) as (N & M & K).
  constructor; [exact N|lia|]. intros x _. destruct (K x) as (K1 & _ & _ & K4 & K5).
  destruct (exit_guards s c t) eqn:G.
  - destruct (caught_iff_absorbed s c t exc G) as [C1 C2].
    destruct (Nat.eq_dec x c) as [->|Hx].
    + constructor; rewrite ?K1, ?K4, ?K5, ?C1; auto.
      * intros ->. reflexivity.
      * intros H. apply orb_true_iff in H. destruct H as [H|H]; [now left|right].
        rewrite (scope_exit_result s c t exc G) in H.
        destruct (s_cancelled (scopes s c)); [reflexivity|]. cbn in H. discriminate.
    + constructor; rewrite ?K1, ?K4, ?K5, ?(C2 x Hx); auto.
  - rewrite (scope_exit_guards_fail s c t exc G). cbn [fst]. constructor; auto.
Qed.

Lemma srel_spawn s g sf : SREL s (fst (spawn_task s g sf)).
Proof.
  unfold spawn_task. cbv zeta.
  change (new_scope s None false) with (fst (new_scope s None false), snd (new_scope s None false)). cbv iota.
  cbn [fst]. set (s1 := fst (new_scope s None false)).
  eapply srel_trans; [apply srel_new_scope|]. fold s1.
  eapply srel_trans; [|apply srel_frame; now apply frame_call_soon].
  eapply srel_trans; [|apply srel_frame, frame_restart].
  eapply srel_trans; [|apply srel_frame, frame_upd_group; reflexivity].
  eapply srel_trans; [|apply srel_upd_scope; intros k; constructor; reflexivity].
  apply srel_same_scopes; reflexivity.
Qed.

Lemma srel_walk : walk_hyps SREL (ok_always (fun _ _ => True) (fun _ _ _ => False) (fun _ _ => False)).
Proof.
  constructor.
  - apply srel_refl.
  - apply srel_trans.
  - apply srel_frame.
  - exact I.
  - apply srel_new_scope.
  - intros s d sh t _. eapply srel_trans; [apply srel_new_scope|apply srel_scope_enter].
  - intros s c t _. apply srel_scope_enter.
  - intros s g t _. apply srel_scope_enter.
  - intros s t _. apply srel_scope_enter.
  - apply srel_scope_exit.
  - intros s c _. apply srel_scope_cancel; [discriminate|now right].
  - intros s g. apply srel_scope_cancel; [discriminate|now right].
  - intros s t. apply srel_scope_cancel; [discriminate|now right].
  - intros s c d [].
  - intros s. eapply srel_trans; [apply srel_new_scope|]. apply srel_same_scopes; reflexivity.
  - apply srel_spawn.
  - intros s t f w.
    apply srel_trans with (suspend_on (fst (call_at s w (TSleep f))) t f); [|apply srel_same_scopes; reflexivity].
    apply srel_trans with (fst (call_at s w (TSleep f)));
      [apply srel_same_scopes; reflexivity|apply srel_frame, frame_suspend_on].
  - intros s t f. apply srel_same_scopes; reflexivity.
  - intros s t f tm _. apply srel_same_scopes; reflexivity.
  - intros s f tm. apply srel_same_scopes; reflexivity.
  - intros s c tm _ _. eapply srel_trans; [|apply srel_scope_timeout]. apply srel_same_scopes; reflexivity.
  - intros s. apply srel_same_scopes; reflexivity.
  - intros s dt [].
Qed.

(* the relation that survives the two ops that move deadlines / the clock *)
Record WREL (s s' : st) : Prop := mk_WREL {
  wr_nscope : nscope s <= nscope s';
  wr_scopes : forall c, c < nscope s ->
    (s_caught (scopes s c) = true -> s_caught (scopes s' c) = true) /\
    (s_cancelled (scopes s c) = true -> s_cancelled (scopes s' c) = true) /\
    (s_caught (scopes s' c) = true -> s_caught (scopes s c) = true \/ s_cancelled (scopes s' c) = true) /\
    (s_bydeadline (scopes s' c) = true ->
     s_bydeadline (scopes s c) = true \/
     (s_cancelled (scopes s c) = false /\ s_cancelled (scopes s' c) = true /\ due s' c))
}.

Lemma srel_wrel s s' : SREL s s' -> WREL s s'.
Proof. intros [N M K]. constructor; [exact M|]. intros c Hc. destruct (K c Hc). auto. Qed.

(* WREL is stable under a frame step before and an SREL step after *)
Lemma wrel_compose a b c d : frame a b -> WREL b c -> SREL c d -> WREL a d.
Proof.
  intros F [M K] [N2 M2 K2]. constructor; [rewrite <- (fr_nscope _ _ F); lia|].
  intros x Hx. rewrite <- (fr_nscope _ _ F) in Hx. destruct (K x Hx) as (A1 & A2 & A3 & A4).
  destruct (K2 x ltac:(lia)) as [D2 C2 Q2 B2 Y2]. destruct (fr_scopes _ _ F x) as [_ E2 E3 _ _ E6].
  rewrite <- E2, <- E3, <- E6. refine (conj _ (conj _ (conj _ _))); auto.
  - intros H. destruct (B2 H) as [H'|H']; [|now right]. destruct (A3 H'); auto.
  - intros H. destruct (Y2 H) as [H'|(Q1 & Q3 & Q4)].
    + destruct (A4 H') as [H''|(P1 & P2 & d0 & P3 & P4)]; [now left|]. right.
      refine (conj P1 (conj (Q2 P2) _)). exists d0. split; [congruence|]. rewrite N2. exact P4.
    + right. refine (conj _ (conj Q3 Q4)).
      destruct (s_cancelled (scopes b x)) eqn:E; [|reflexivity]. rewrite (A2 eq_refl) in Q1. discriminate.
Qed.

Lemma wrel_set_deadline s c d : WREL s (set_deadline_body s c d).
Proof.
  unfold set_deadline_body. cbv zeta. set (s1 := cancel_timeout (upd_scope s c (sc_deadline d)) c).
  assert (H1 : now s1 = now s /\ nscope s1 = nscope s /\
               forall x, s_caught (scopes s1 x) = s_caught (scopes s x) /\
                         s_cancelled (scopes s1 x) = s_cancelled (scopes s x) /\
                         s_bydeadline (scopes s1 x) = s_bydeadline (scopes s x)).
  { pose proof (srel_cancel_timeout (upd_scope s c (sc_deadline d)) c) as [N M K]. fold s1 in N, M, K.
    assert (Hn : nscope s1 = nscope s).
    { unfold s1, cancel_timeout. destruct (s_timeout _); reflexivity. }
    refine (conj N (conj Hn _)). intros x.
    assert (Hx : flags_eq (scopes s1 x) (scopes (upd_scope s c (sc_deadline d)) x)).
    { unfold s1, cancel_timeout. destruct (s_timeout _); [|apply flags_eq_refl].
      cbn [upd_scope set_scopes scopes timer_cancel set_ready set_timers]. rewrite (upd_eq _ c _ x).
      destruct (Nat.eqb x c) eqn:E; [|apply flags_eq_refl]. apply Nat.eqb_eq in E. subst x.
      constructor; reflexivity. }
    destruct Hx as [_ X2 X3 X4]. rewrite X2, X3, X4. cbn [upd_scope set_scopes scopes]. rewrite upd_eq.
    destruct (Nat.eqb x c) eqn:E; [|auto]. apply Nat.eqb_eq in E. subst x. auto. }
  destruct H1 as (N1 & M1 & K1).
  assert (W1 : forall s2, SREL s1 s2 -> WREL s s2).
  { intros s2 [N2 M2 K2]. constructor; [lia|]. intros x Hx. destruct (K2 x ltac:(lia)) as [D2 C2 Q2 B2 Y2].
    destruct (K1 x) as (E1 & E2 & E3). rewrite <- E1, <- E2, <- E3. auto. }
  destruct (_ && _); apply W1; [apply srel_scope_timeout|apply srel_refl].
Qed.

(* ---------------- the step theorem ---------------- *)
Theorem step_flags s o : WREL s (fst (step s o)).
Proof.
  destruct o; try (apply srel_wrel, (walk_step srel_walk), op_ok_always; exact I).
  - (* ASetDeadline *)
    unfold step. cbn [actor]. destruct (negb (idle s t)); [cbn [fst]; apply srel_wrel, srel_refl|].
    unfold puppet_op. cbv zeta.
    change (WREL s (fst (ret_to_puppet (set_deadline_body (begin_act s t) c d) t (RRet 0)))).
    eapply wrel_compose; [apply frame_begin_act|apply wrel_set_deadline|apply srel_frame, frame_ret].
  - (* ATick *)
    unfold step. cbn [actor]. destruct (Z.ltb dt 0); cbn [fst]; [apply srel_wrel, srel_refl|].
    constructor; [reflexivity|]. intros c _. cbn [tick set_ready set_timers set_now scopes]. tauto.
Qed.

(* C04: cancelled_caught / cancel_called are never reset, and cancelled_caught appears only on a cancelled scope *)
Theorem caught_cancelled_monotone s o c :
  c < nscope s ->
  (s_caught (scopes s c) = true -> s_caught (scopes (fst (step s o)) c) = true) /\
  (s_cancelled (scopes s c) = true -> s_cancelled (scopes (fst (step s o)) c) = true) /\
  (s_caught (scopes s c) = false -> s_caught (scopes (fst (step s o)) c) = true ->
   s_cancelled (scopes (fst (step s o)) c) = true).
Proof.
  intros Hc. destruct (wr_scopes _ _ (step_flags s o) c Hc) as (A1 & A2 & A3 & _).
  refine (conj A1 (conj A2 _)). intros H0 H1. destruct (A3 H1) as [H|H]; [congruence|exact H].
Qed.

(* C06: never early.  A scope is marked cancelled-by-deadline only in a step in which it becomes cancelled, and
   when that step ends its deadline has been reached. *)
Theorem deadline_cancel_only_when_due s o c :
  c < nscope s ->
  s_bydeadline (scopes s c) = false -> s_bydeadline (scopes (fst (step s o)) c) = true ->
  s_cancelled (scopes s c) = false /\ s_cancelled (scopes (fst (step s o)) c) = true /\
  exists d, s_deadline (scopes (fst (step s o)) c) = Some d /\ (d <= now (fst (step s o)))%Z.
Proof.
  intros Hc H0 H1. destruct (wr_scopes _ _ (step_flags s o) c Hc) as (_ & _ & _ & A4).
  destruct (A4 H1) as [H|H]; [congruence|exact H].
Qed.

(* the only place where the ghost is set: CancelScope._timeout, under its own test *)
Theorem scope_timeout_only_when_due s c x :
  s_bydeadline (scopes (scope_timeout s c) x) = true -> s_bydeadline (scopes s x) = false ->
  x = c /\ exists d, s_deadline (scopes s c) = Some d /\ (d <= now s)%Z.
Proof.
  unfold scope_timeout. destruct (s_deadline (scopes s c)) as [d|] eqn:Ed; [|congruence].
  destruct (Z.leb d (now s)) eqn:El.
  - intros H1 H0. assert (x = c) as ->.
    { destruct (Nat.eq_dec x c) as [->|Hx]; [reflexivity|]. exfalso.
      unfold scope_cancel in H1. destruct (s_cancelled (scopes s c)); [congruence|].
      set (s2 := upd_scope (cancel_timeout s c) c _) in H1.
      assert (E2 : s_bydeadline (scopes s2 x) = s_bydeadline (scopes s x)).
      { unfold s2. cbn [upd_scope set_scopes scopes]. rewrite upd_other by exact Hx.
        unfold cancel_timeout. destruct (s_timeout (scopes s c)); [|reflexivity].
        cbn [upd_scope set_scopes scopes timer_cancel set_ready set_timers]. now rewrite upd_other. }
      destruct (s_host (scopes s2 c)).
      - pose proof (deliver_top_dframe s2 c) as D. rewrite (ce_bydeadline _ _ (df_scopes _ _ D x)) in H1. congruence.
      - congruence. }
    split; [reflexivity|]. exists d. split; [reflexivity|now apply Z.leb_le].
  - cbn [call_at]. intros H1 H0. exfalso. cbn [upd_scope set_scopes scopes] in H1. rewrite upd_eq in H1.
    destruct (Nat.eqb x c) eqn:E; [apply Nat.eqb_eq in E; subst x|]; cbn in H1; congruence.
Qed.

(* ====================================================================================================== *)
(* which ops can mark a scope cancelled-by-deadline at all                                                  *)
(* ====================================================================================================== *)
Record NB (s s' : st) : Prop := mk_NB {
  nb_nscope : nscope s <= nscope s';
  nb_scopes : forall c, c < nscope s -> s_bydeadline (scopes s' c) = true -> s_bydeadline (scopes s c) = true
}.

Lemma nb_refl s : NB s s.
Proof. constructor; auto. Qed.

Lemma nb_trans a b c : NB a b -> NB b c -> NB a c.
Proof. intros [N1 K1] [N2 K2]. constructor; [lia|]. intros x Hx H. apply K1; [exact Hx|]. apply K2; [lia|exact H]. Qed.

Lemma nb_same s s' : nscope s <= nscope s' ->
  (forall c, c < nscope s -> s_bydeadline (scopes s' c) = s_bydeadline (scopes s c)) -> NB s s'.
Proof. intros H1 H2. constructor; [exact H1|]. intros c Hc. now rewrite (H2 c Hc). Qed.

Lemma nb_frame a b : frame a b -> NB a b.
Proof.
  intros F. apply nb_same; [rewrite (fr_nscope _ _ F); lia|]. intros c _. apply (tc_bydeadline _ _ (fr_scopes _ _ F c)).
Qed.

Lemma nb_upd_scope s x g : (forall k, s_bydeadline (g k) = s_bydeadline k) -> NB s (upd_scope s x g).
Proof.
  intros Hg. apply nb_same; [cbn; lia|]. intros c _. cbn [upd_scope set_scopes scopes]. rewrite upd_eq.
  destruct (Nat.eqb c x) eqn:E; [|reflexivity]. apply Nat.eqb_eq in E. subst c. apply Hg.
Qed.

Lemma nb_same_scopes s s' : nscope s' = nscope s -> scopes s' = scopes s -> NB s s'.
Proof. intros H1 H2. apply nb_same; [lia|]. intros c _. now rewrite H2. Qed.

Lemma nb_cancel_timeout s c : NB s (cancel_timeout s c).
Proof.
  unfold cancel_timeout. destruct (s_timeout (scopes s c)) as [tm|]; [|apply nb_refl].
  apply nb_trans with (timer_cancel s tm); [apply nb_same_scopes; reflexivity|].
  apply nb_upd_scope. intros k; reflexivity.
Qed.

Lemma nb_scope_cancel_false s c : NB s (scope_cancel s c false).
Proof.
  unfold scope_cancel. destruct (s_cancelled (scopes s c)); [apply nb_refl|].
  set (s2 := upd_scope (cancel_timeout s c) c _).
  assert (H2 : NB s s2).
  { destruct (nb_cancel_timeout s c) as [N K]. constructor; [exact N|]. intros x Hx. unfold s2.
    cbn [upd_scope set_scopes scopes]. rewrite upd_eq. destruct (Nat.eqb x c); [cbn; discriminate|now apply K]. }
  destruct (s_host (scopes s2 c)); [|exact H2]. eapply nb_trans; [exact H2|apply nb_frame, frame_deliver_top].
Qed.

Lemma nb_scope_timeout_none s c : s_deadline (scopes s c) = None -> scope_timeout s c = s.
Proof. intros E. unfold scope_timeout. now rewrite E. Qed.

Lemma nb_scope_enter s c t : s_deadline (scopes s c) = None -> NB s (fst (scope_enter s c t)).
Proof.
  intros Ed. unfold scope_enter. destruct (s_active (scopes s c)); [apply nb_refl|]. cbv zeta. cbn [fst].
  match goal with |- context [scope_timeout ?a c] => set (s3 := a) end.
  assert (H3 : NB s s3 /\ s_deadline (scopes s3 c) = None).
  { unfold s3. split.
    - match goal with |- NB s (match ?o with Some p => upd_scope ?a p ?g | None => _ end) =>
        assert (H2 : NB s a);
        [|destruct o; [eapply nb_trans; [exact H2|apply nb_upd_scope; intros k; reflexivity]|exact H2]] end.
      match goal with |- NB s (upd_task ?a _ _) => apply nb_trans with a end;
        [apply nb_upd_scope; intros k; reflexivity|apply nb_same_scopes; reflexivity].
    - destruct (k_cur (tasks s t)) as [p|]; cbn [upd_scope upd_task set_scopes set_tasks scopes]; rewrite ?upd_eq;
        repeat match goal with |- context [Nat.eqb ?a ?b] => destruct (Nat.eqb_spec a b); subst end; exact Ed. }
  destruct H3 as [H3 E3]. rewrite (nb_scope_timeout_none s3 c E3).
  assert (H5 : NB s (upd_scope s3 c (sc_active true))).
  { eapply nb_trans; [exact H3|apply nb_upd_scope; intros k; reflexivity]. }
  destruct (s_cancelled _); [|exact H5]. eapply nb_trans; [exact H5|apply nb_frame, frame_deliver_top].
Qed.

Lemma nb_scope_exit s c t exc : NB s (fst (scope_exit s c t exc)).
Proof.
  destruct (scope_exit_chain_frame s c t exc) as (_ & M & K). apply nb_same; [lia|].
  intros x _. apply (K x).
Qed.

Lemma nb_set_deadline_none s c : NB s (set_deadline_body s c None).
Proof.
  unfold set_deadline_body. cbv zeta. set (s1 := cancel_timeout (upd_scope s c (sc_deadline None)) c).
  assert (H1 : NB s s1).
  { unfold s1. eapply nb_trans; [|apply nb_cancel_timeout]. apply nb_upd_scope. intros k; reflexivity. }
  assert (E1 : s_deadline (scopes s1 c) = None).
  { unfold s1, cancel_timeout. destruct (s_timeout _);
      cbn [upd_scope set_scopes scopes timer_cancel set_ready set_timers]; rewrite ?upd_same; reflexivity. }
  destruct (_ && _); [|exact H1]. now rewrite (nb_scope_timeout_none s1 c E1).
Qed.

Lemma nb_new_scope s d sh : NB s (fst (new_scope s d sh)).
Proof.
  apply nb_same; [cbn; lia|]. intros c Hc. cbn [new_scope fst scopes]. now rewrite upd_other by lia.
Qed.

Lemma nb_spawn s g sf : NB s (fst (spawn_task s g sf)).
Proof.
  unfold spawn_task. cbv zeta.
  change (new_scope s None false) with (fst (new_scope s None false), snd (new_scope s None false)). cbv iota.
  cbn [fst]. eapply nb_trans; [apply nb_new_scope|].
  eapply nb_trans; [|apply nb_frame; now apply frame_call_soon].
  eapply nb_trans; [|apply nb_frame, frame_restart].
  eapply nb_trans; [|apply nb_frame, frame_upd_group; reflexivity].
  eapply nb_trans; [|apply nb_upd_scope; intros k; reflexivity].
  apply nb_same_scopes; reflexivity.
Qed.

(* side conditions: the op does not run CancelScope._timeout on a scope with a finite deadline *)
Definition quiet_oks : oks :=
  mk_oks (fun s c => s_deadline (scopes s c) = None)
         (fun _ _ d => d = None)
         (fun _ _ => True)
         (fun d => d = None)
         (fun s g => s_deadline (scopes s (g_scope (groups s g))) = None)
         (fun s t => s_deadline (scopes s (k_hscope (tasks s t))) = None)
         (fun _ _ _ => False)
         (fun _ _ => True).

Lemma nb_walk : walk_hyps NB quiet_oks.
Proof.
  constructor; cbn [quiet_oks ok_enter ok_setdl ok_tick ok_new ok_genter ok_henter ok_trun ok_cancel].
  - apply nb_refl.
  - apply nb_trans.
  - apply nb_frame.
  - reflexivity.
  - apply nb_new_scope.
  - intros s d sh t ->. eapply nb_trans; [apply nb_new_scope|]. apply nb_scope_enter.
    cbn [new_scope fst scopes]. now rewrite upd_same.
  - intros s c t E. now apply nb_scope_enter.
  - intros s g t E. now apply nb_scope_enter.
  - intros s t E. now apply nb_scope_enter.
  - apply nb_scope_exit.
  - intros s c _. apply nb_scope_cancel_false.
  - intros s g. apply nb_scope_cancel_false.
  - intros s t. apply nb_scope_cancel_false.
  - intros s c d ->. apply nb_set_deadline_none.
  - intros s. eapply nb_trans; [apply nb_new_scope|]. apply nb_same_scopes; reflexivity.
  - apply nb_spawn.
  - intros s t f w.
    apply nb_trans with (suspend_on (fst (call_at s w (TSleep f))) t f); [|apply nb_same_scopes; reflexivity].
    apply nb_trans with (fst (call_at s w (TSleep f))); [apply nb_same_scopes; reflexivity|apply nb_frame, frame_suspend_on].
  - intros s t f. apply nb_same_scopes; reflexivity.
  - intros s t f tm _. apply nb_same_scopes; reflexivity.
  - intros s f tm. apply nb_same_scopes; reflexivity.
  - intros s c tm [].
  - intros s. apply nb_same_scopes; reflexivity.
  - intros s dt _. apply nb_same_scopes; reflexivity.
Qed.

(* ops that cannot run _timeout on a scope with a finite deadline *)
Definition quiet_op (s : st) (o : op) : Prop :=
  match o with
  | AEnter _ c => s_deadline (scopes s c) = None
  | ASetDeadline _ _ d => d = None
  | AFailAt _ d _ => d = None
  | AGroupEnter _ g => s_deadline (scopes s (g_scope (groups s g))) = None
  | ARun (HStep t) | ARun (HWake t _) => s_deadline (scopes s (k_hscope (tasks s t))) = None
  | ARun (HTimeout _ _) => False
  | _ => True
  end.

Lemma quiet_op_ok s o : quiet_op s o -> @op_ok quiet_oks s o.
Proof.
  destruct o; cbn [quiet_op op_ok quiet_oks ok_enter ok_setdl ok_tick ok_new ok_genter ok_henter ok_trun ok_cancel]; auto.
  - (* AGroupEnter *) intros E. cbn [upd_group set_groups groups scopes begin_act set_running upd_task set_tasks].
    rewrite upd_same. exact E.
  - (* ARun *) destruct h; cbn [run_ok quiet_oks ok_henter ok_trun]; auto.
    + intros E. cbn [upd_task set_tasks tasks scopes incoming fst set_running pop set_ready]. rewrite !upd_same. exact E.
    + intros E. cbn [upd_task set_tasks tasks scopes incoming fst set_running pop set_ready]. rewrite !upd_same. exact E.
Qed.

(* C06: the ghost "cancelled by its deadline" can only appear in a step that enters a scope with a finite
   deadline (AEnter, AFailAt, AGroupEnter, first step of a child), assigns a finite deadline, or runs a fired
   timeout callback *)
Theorem bydeadline_only_by_timeout_ops s o c :
  c < nscope s -> quiet_op s o -> s_bydeadline (scopes s c) = false ->
  s_bydeadline (scopes (fst (step s o)) c) = false.
Proof.
  intros Hc Hq H0. pose proof (walk_step nb_walk s o (quiet_op_ok s o Hq)) as [_ K].
  destruct (s_bydeadline (scopes (fst (step s o)) c)) eqn:E; [|reflexivity]. rewrite (K c Hc E) in H0. discriminate.
Qed.
